(* MODEL of the coefficient recurrences of algopy/utpm/algorithms.py (pure-NumPy branches; pytpcore is
   absent), for ONE series = one (direction p, array element) pair.  A series is its coefficient list
   [x_0; ...; x_{D-1}] over a field K.  Each function takes the base values that the code obtains from
   NumPy/SciPy (exp x_0, sin x_0, ...) as arguments.  Same recurrences, same index ranges, same order of
   the divisions as the code; line numbers refer to algorithms.py. *)
From mathcomp Require Import all_ssreflect all_algebra.
From AlgoV Require Import Sums.
Set Implicit Arguments. Unset Strict Implicit. Unset Printing Implicit Defensive.
Import GRing.Theory.
Local Open Scope ring_scope.

Section Series.
Variable K : fieldType.
Implicit Types (x y z : seq K).

(* sum_{k=1}^{d} f k   and   sum_{k=1}^{d-1} f k *)
Definition sum1 (d : nat) (f : nat -> K) : K := sumn_f d (fun k => f k.+1).

(* course-of-values recursion: the list of the first n+1 coefficients; step sees all earlier ones *)
Fixpoint unfold1 (step : seq K -> K) (y0 : K) (n : nat) : seq K :=
  if n is m.+1 then let ys := unfold1 step y0 m in rcons ys (step ys) else [:: y0].
(* two coupled outputs; the second may use the first one's coefficient of the same order *)
Fixpoint unfold2 (stepy stepz : seq K -> seq K -> K) (y0 z0 : K) (n : nat) : seq K * seq K :=
  if n is m.+1 then
    let: (ys, zs) := unfold2 stepy stepz y0 z0 m in
    let ys' := rcons ys (stepy ys zs) in (ys', rcons zs (stepz ys' zs))
  else ([:: y0], [:: z0]).

Definition series1 (step : seq K -> K) (y0 : K) (x : seq K) : seq K :=
  if x is [::] then [::] else unfold1 step y0 (size x).-1.
Definition series2 (stepy stepz : seq K -> seq K -> K) (y0 z0 : K) (x : seq K) : seq K * seq K :=
  if x is [::] then ([::], [::]) else unfold2 stepy stepz y0 z0 (size x).-1.

(* ---------- ring operations ---------- *)
Definition addS x y := mkseq (fun d => x`_d + y`_d) (size x).
Definition subS x y := mkseq (fun d => x`_d - y`_d) (size x).
Definition negS x := [seq - c | c <- x].
Definition scaleS (c : K) x := [seq c * a | a <- x].
Definition constS (c : K) (D : nat) := mkseq (fun d => if d == 0%N then c else 0) D.
(* _plus_const, line 38 *)
Definition plus_constS x (c : K) := if x is x0 :: r then (x0 + c) :: r else [::].

(* _mul, line 287: z_d = sum_{c<=d} x_c y_{d-c} *)
Definition mulS x y := mkseq (fun d => sumn_f d.+1 (fun c => x`_c * y`_(d - c))) (size x).

(* _truediv, line 378: z_d = 1/y_0 * (x_d - sum_{c<d} z_c y_{d-c}) *)
Definition div_step x y (zs : seq K) : K :=
  let d := size zs in (y`_0)^-1 * (x`_d - sumn_f d (fun c => zs`_c * y`_(d - c))).
Definition divS x y := series1 (div_step x y) ((y`_0)^-1 * (x`_0 - 0)) x.

(* _reciprocal, line 394 *)
Definition recip_step y (zs : seq K) : K :=
  let d := size zs in (y`_0)^-1 * (0 - sumn_f d (fun c => zs`_c * y`_(d - c))).
Definition recipS y := series1 (recip_step y) ((y`_0)^-1 * (1 - 0)) y.

(* _square, line 635 *)
Definition squareS x := mkseq (fun d =>
  let dh := (d.+1 %/ 2)%N in
  (if d is _.+1 then sumn_f dh (fun c => x`_c * x`_(d - c) * 2) else 0)
  + (if (d.+1 %% 2 == 1)%N then x`_dh * x`_dh else 0)) (size x).

(* _sqrt, line 663 : y_k = 1/(2 y_0) * (x_k - sum_{j=1}^{k-1} y_j y_{k-j}) *)
Definition sqrt_step x (ys : seq K) : K :=
  let k := size ys in (2%:R * ys`_0)^-1 * (x`_k - sum1 k.-1 (fun j => ys`_j * ys`_(k - j))).
Definition sqrtS x (s0 : K) := series1 (sqrt_step x) s0 x.

(* _pow_real, general exponent branch, line 506 *)
Definition pow_step (r : K) x (ys : seq K) : K :=
  let d := size ys in
  (r * sum1 d (fun k => ys`_(d - k) * k%:R * x`_k) - sum1 d.-1 (fun k => x`_(d - k) * k%:R * ys`_k)) / x`_0 / d%:R.
Definition powS x (r : K) (p0 : K) := series1 (pow_step r x) p0 x.
(* _pow_real, type(r)==int and r>=0 branch, line 481 *)
Definition pownatS x (r : nat) :=
  match r with
  | 0 => constS 1 (size x)
  | 1 => x
  | 2 => squareS x
  | _ => iter r.-1 (fun y => mulS x y) x
  end.

(* _exp, line 688 *)
Definition exp_step x (ys : seq K) : K :=
  let d := size ys in sumn_f d (fun j => ys`_(d.-1 - j) * (x`_j.+1 * j.+1%:R)) / d%:R.
Definition expS x (e0 : K) := series1 (exp_step x) e0 x.

(* _log, line 810: first loop computes yt_d (= d*y_d), second loop divides *)
Definition log_step x (yts : seq K) : K :=
  let d := size yts in (x`_d * d%:R - sum1 d.-1 (fun j => x`_(d - j) * yts`_j)) / x`_0.
Definition logS x (l0 : K) :=
  let yts := series1 (log_step x) l0 x in
  mkseq (fun d => if d is _.+1 then yts`_d / d%:R else yts`_d) (size x).

(* _sincos, line 915 *)
Definition sin_step x (ss cs : seq K) : K :=
  let d := size ss in sum1 d (fun k => k%:R * x`_k * cs`_(d - k)) / d%:R.
Definition cos_step x (ss cs : seq K) : K :=
  let d := size cs in sum1 d (fun k => - k%:R * x`_k * ss`_(d - k)) / d%:R.
Definition sincosS x (s0 c0 : K) := series2 (sin_step x) (cos_step x) s0 c0 x.

(* _sinhcosh, line 999 *)
Definition cosh_step x (ss cs : seq K) : K :=
  let d := size cs in sum1 d (fun k => k%:R * x`_k * ss`_(d - k)) / d%:R.
Definition sinhcoshS x (s0 c0 : K) := series2 (sin_step x) (cosh_step x) s0 c0 x.

(* _tansec2, line 885:  y = tan, z = sec^2 *)
Definition tan_step x (ys zs : seq K) : K :=
  let d := size ys in sum1 d (fun k => k%:R * x`_k * zs`_(d - k)) / d%:R.
Definition sec2_step (ys zs : seq K) : K :=
  let d := size zs in 2%:R * sum1 d (fun k => k%:R * ys`_k * ys`_(d - k)) / d%:R.
Definition tansec2S x (t0 z0 : K) := series2 (tan_step x) sec2_step t0 z0 x.

(* _tanhsech2, line 1017 *)
Definition sech2_step (ys zs : seq K) : K :=
  let d := size zs in - 2%:R * sum1 d (fun k => k%:R * ys`_k * ys`_(d - k)) / d%:R.
Definition tanhsech2S x (t0 : K) := series2 (tan_step x) sech2_step t0 (1 - t0 * t0) x.

(* _arcsin / _arccos, lines 943, 961 (same recurrences, different base values) *)
Definition asin_step x (ys zs : seq K) : K :=
  let d := size ys in (d%:R * x`_d - sum1 d.-1 (fun k => k%:R * ys`_k * zs`_(d - k))) / (zs`_0 * d%:R).
Definition asinz_step x (ys zs : seq K) : K :=
  let d := size zs in - sum1 d (fun k => k%:R * ys`_k * x`_(d - k)) / d%:R.
Definition arcsinS x (y0 z0 : K) := series2 (asin_step x) (asinz_step x) y0 z0 x.

(* _arctan, line 979 *)
Definition atanz_step x (ys zs : seq K) : K :=
  let d := size zs in 2%:R * sum1 d (fun k => k%:R * x`_k * x`_(d - k)) / d%:R.
Definition arctanS x (y0 : K) := series2 (asin_step x) (atanz_step x) y0 (1 + x`_0 * x`_0) x.

(* _black_f_white_fprime, line 88 *)
Definition bfwf_step (fp x : seq K) (ys : seq K) : K :=
  let d := size ys in sumn_f d (fun c => fp`_(d.-1 - c) * x`_c.+1 * c.+1%:R) / d%:R.
Definition bfwfS (f0 : K) (fp x : seq K) := series1 (bfwf_step fp x) f0 x.

Definition expm1S x (e0 em0 : K) := bfwfS em0 (expS x e0) x.
Definition log1pS x (l0 : K) := bfwfS l0 (recipS (plus_constS x 1)) x.
Definition logitS x (l0 : K) := bfwfS l0 (recipS (subS x (squareS x))) x.
Definition expitS x (e0 s0 : K) :=
  let b := recipS (plus_constS (expS x e0) 1) in bfwfS s0 (subS b (squareS b)) x.
(* c = 2/sqrt(pi), e0 = exp(-x0^2) resp. exp(x0^2) *)
Definition erfS x (c e0 f0 : K) := bfwfS f0 (scaleS c (expS (negS (squareS x)) e0)) x.
Definition erfiS x (c e0 f0 : K) := bfwfS f0 (scaleS c (expS (squareS x) e0)) x.

(* _eval_slow_generic, line 52.  derivs = [f(x0); f'(x0); ...; f^(D-1)(x0)].
   accum has D-1 entries; entry i stands for coefficient i+1 of (x - x0)^d. *)
Definition accum_next x (acc : seq K) : seq K :=
  mkseq (fun i => if i is _.+1 then sumn_f i (fun j => acc`_j * x`_(i - j)) else 0) (size acc).
Fixpoint slowgen_loop x (derivs : seq K) (d : nat) (n : nat) (acc : seq K) (ytail : seq K) : seq K :=
  (* n = remaining iterations, d = current order *)
  if n is n'.+1 then
    let acc' := if d == 1%N then acc else accum_next x acc in
    let ytail' := mkseq (fun i => ytail`_i + derivs`_d * acc'`_i / (d`!)%:R) (size ytail) in
    slowgen_loop x derivs d.+1 n' acc' ytail'
  else ytail.
Definition slowgenS x (derivs : seq K) : seq K :=
  if x is x0 :: xt then
    derivs`_0 :: slowgen_loop x derivs 1 (size xt) xt (nseq (size xt) 0)
  else [::].

(* _taylor_polynomials_of_ode_solutions, line 113:  b v' - a v u' = c u' ; returns v.
   state: (vt = v_tilde prefix (length k), v prefix, e prefix) *)
Definition ode_vstep (b c u : seq K) (vts es : seq K) : K :=
  let k := size vts in
  (sum1 k (fun j => (c`_(k - j) + es`_(k - j)) * (u`_j * j%:R))
   - sum1 k.-1 (fun j => b`_(k - j) * vts`_j)) / b`_0.
Definition ode_estep (a : seq K) (vs : seq K) : K :=
  let k := (size vs).-1 in sumn_f k.+1 (fun j => a`_j * vs`_(k - j)).
Fixpoint ode_loop (a b c u : seq K) (n : nat) (v0 : K) : seq K * seq K * seq K :=
  (* returns (vts, vs, es) after processing k = 0..n ; e_k is computed for every k (the code skips the
     last one, which is never read) *)
  if n is m.+1 then
    let: (vts, vs, es) := ode_loop a b c u m v0 in
    let vt := ode_vstep b c u vts es in
    let vs' := rcons vs (vt / m.+1%:R) in
    (rcons vts vt, vs', rcons es (ode_estep a vs'))
  else ([:: v0], [:: v0], [:: ode_estep a [:: v0]]).
Definition odeS (a b c u : seq K) (v0 : K) : seq K :=
  if u is [::] then [::] else (ode_loop a b c u (size u).-1 v0).1.2.
(* _dawsn, line 855 *)
Definition dawsnS x (d0 : K) : seq K :=
  odeS (scaleS (- 2%:R) x) (constS 1 (size x)) (constS 1 (size x)) x d0.

(* kink functions: the test on the base coefficient is a boolean / sign argument *)
Definition absS x (sgn0 : K) (abs0 : K) := if x is _ :: r then abs0 :: [seq c * sgn0 | c <- r] else [::].
Definition signS x (sgn0 : K) := constS sgn0 (size x).
(* _minimum/_maximum line 323: xmask = (x0 <= y0) resp (x0 >= y0) *)
Definition selS (xmask : bool) x y := mkseq (fun d => (xmask%:R) * x`_d + ((~~ xmask)%:R) * y`_d) (size x).
(* _botched_clip line 776: y = copy of x ; y0 = clip(x0) ; higher coefficients *= mask *)
Definition clipS x (c0 : K) (inside : bool) := if x is _ :: r then c0 :: [seq c * inside%:R | c <- r] else [::].

End Series.
