(* MODEL of the symmetric eigenvalue decomposition in Taylor arithmetic, UTPM._eigh1 (algopy/utpm/algorithms.py:2035),
   for a base matrix A_0 with DISTINCT eigenvalues: every block of repeated eigenvalues has size 1, so "STEP 4" keeps the
   diagonal of K, and H[r,c] = 1/(l_c - l_r) for r != c, H[r,r] = 0.
   As for the other factorizations (Matrix.v, Section RawFact) the step is written ONCE over abstract operations and
   instantiated with mathcomp matrices 'M[K]_n (eighM, theorems in EighSpec.v) and with executable list matrices
   (eighU, run by vm_compute; refinement in EighRefine.v).  The base decomposition Q0, L0 (numpy.linalg.eigh(A_0)) and
   the matrix H are given. *)
From Coq Require Import ZArith QArith Qcanon.
From mathcomp Require Import all_ssreflect all_algebra.
From AlgoV Require Import QcField Sums Series Matrix MatrixFact.
Set Implicit Arguments. Unset Strict Implicit. Unset Printing Implicit Defensive.
Import GRing.Theory.

Section RawEigh.
Variable T : Type.
Variables (zero : T) (add sub mul : T -> T -> T) (tr : T -> T).
Variables (half : T -> T).                (* 0.5 * A *)
Variables (had : T -> T -> T).            (* element-wise (Hadamard) product *)
Variables (diagpart : T -> T).            (* the diagonal of A, zero elsewhere *)

(* truncated_triple_dot (algorithms.py:205): one accumulator, all multi-indices (i, j, k) with i + j + k = D
   (i = 0..D, j = 0..D-i, k = D-i-j); an index triple containing D is skipped ("continue") *)
Definition triple_skip (D i j : nat) : bool := [|| i == D, j == D | (D - i - j)%N == D].
Definition triple_dotK (X Y Z : nat -> T) (D : nat) : T :=
  foldl (fun acc i =>
    foldl (fun acc' j => if triple_skip D i j then acc' else add acc' (mul (mul (X i) (Y j)) (Z (D - i - j)%N)))
          acc (iota 0 (D - i)%N.+1))
    zero (iota 0 D.+1).

(* one pass "for D in range(1,DT)" of _eigh1: QLs = [(Q_0, L_0); ...; (Q_{D-1}, L_{D-1})], result (Q_D, L_D) *)
Definition eigh_step (A : seq T) (Q0 L0 H : T) (QLs : seq (T * T)) : T * T :=
  let D := size QLs in
  let Qn d := (nth (zero, zero) QLs d).1 in
  let An d := nth zero A d in
  (* STEP 1 *)
  let dF := triple_dotK (fun i => tr (Qn i)) An Qn D in
  let dG := foldl (fun acc d => add acc (mul (tr (Qn d)) (Qn (D - d)%N))) zero (iota 1 D.-1) in
  (* STEP 2: S = -0.5 * dG *)
  let S := sub zero (half dG) in
  (* STEP 3 *)
  let Kk := add (add (add dF (mul (mul (tr Q0) (An D)) Q0)) (mul S L0)) (mul L0 S) in
  (* STEP 4 (blocks of size 1) *)
  let LD := diagpart Kk in
  (* STEP 5 *)
  let XT := had Kk H in
  (mul Q0 (add XT S), LD).
Definition eighK (A : seq T) (Q0 L0 H : T) : seq (T * T) := seriesT (eigh_step A Q0 L0 H) (Q0, L0) (size A).
End RawEigh.

(* ---------- specification instance: mathcomp matrices ---------- *)
Section MxEigh.
Local Open Scope ring_scope.
Variable K : fieldType.
Variable n : nat.
Notation M := 'M[K]_n.
Definition hadM (A B : M) : M := \matrix_(i, j) (A i j * B i j).
Definition diagpartM (A : M) : M := \matrix_(i, j) (if i == j then A i j else 0).
Definition is_diagM (A : M) : Prop := forall i j : 'I_n, i != j -> A i j = 0.
Definition eighM (A : seq M) (Q0 L0 H : M) : seq (M * M) :=
  eighK 0 (@addM K n) (@subM K n) (@mulM K n) (@trM K n) (@halfM K n) hadM diagpartM A Q0 L0 H.
End MxEigh.

(* ---------- executable instance: list matrices ---------- *)
Section ListEigh.
Local Open Scope ring_scope.
Variable K : fieldType.
Definition mhad (n m : nat) (A B : mx K) : mx K := mkmx n m (fun i j => mxget A i j * mxget B i j).
Definition mdiagpart (n : nat) (A : mx K) : mx K := mkmx n n (fun i j => if i == j then mxget A i j else 0).
Definition eighU (n : nat) (A : seq (mx K)) (Q0 L0 H : mx K) : seq (mx K * mx K) :=
  eighK (mzero K n n) (madd n n) (msub n n) (mmul n n n) (mtr n n) (mhalf n) (mhad n n) (mdiagpart n) A Q0 L0 H.
End ListEigh.

(* the kernel runs under vm_compute over Qc: 2 x 2, D = 3,  A(t) = [[1 + t^2, t], [t, 3]],  Q0 = I, L0 = diag(1, 3);
   the eigenvalues of A(t) are 1 + t^2/2 + O(t^4) and 3 + t^2/2 + O(t^4) *)
Example eighU_runs :
  eighU 2 [:: [:: [:: qz 1 1; qz 0 1]; [:: qz 0 1; qz 3 1]];
              [:: [:: qz 0 1; qz 1 1]; [:: qz 1 1; qz 0 1]];
              [:: [:: qz 1 1; qz 0 1]; [:: qz 0 1; qz 0 1]]]
          [:: [:: qz 1 1; qz 0 1]; [:: qz 0 1; qz 1 1]]
          [:: [:: qz 1 1; qz 0 1]; [:: qz 0 1; qz 3 1]]
          [:: [:: qz 0 1; qz 1 2]; [:: qz (-1) 2; qz 0 1]]
  == [:: ([:: [:: qz 1 1; qz 0 1]; [:: qz 0 1; qz 1 1]], [:: [:: qz 1 1; qz 0 1]; [:: qz 0 1; qz 3 1]]);
         ([:: [:: qz 0 1; qz 1 2]; [:: qz (-1) 2; qz 0 1]], [:: [:: qz 0 1; qz 0 1]; [:: qz 0 1; qz 0 1]]);
         ([:: [:: qz (-1) 8; qz 0 1]; [:: qz 0 1; qz (-1) 8]], [:: [:: qz 1 2; qz 0 1]; [:: qz 0 1; qz 1 2]])].
Proof. by vm_compute. Qed.
