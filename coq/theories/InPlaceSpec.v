From Coq Require Import ZArith QArith Qcanon.
From mathcomp Require Import all_ssreflect all_algebra.
From AlgoV Require Import QcField Sums Series InPlace.
Set Implicit Arguments. Unset Strict Implicit. Unset Printing Implicit Defensive.
Import GRing.Theory.
Local Open Scope ring_scope.
Local Arguments mkseq : simpl never.

Section InPlaceSpec.
Variable K : fieldType.
Implicit Types (x y out self rhs : seq K).

Definition alias_ok (al : alias) x y out : Prop :=
  match al with NoAlias => True | AliasX => out = x | AliasY => out = y | AliasXY => out = x /\ out = y end.

Lemma sumn_fS n (f : nat -> K) : sumn_f n.+1 f = sumn_f n f + f n.
Proof. by []. Qed.
Local Arguments sumn_f : simpl never.

(* ---------- helpers: reads of a store after a write at another index ---------- *)
Lemma nth_set_nth_neq (s : seq K) d v c : c != d -> (set_nth 0 s d v)`_c = s`_c.
Proof. by move=> ne; rewrite nth_set_nth /= (negbTE ne). Qed.

Lemma nth_set_nth_eq (s : seq K) d v : (set_nth 0 s d v)`_d = v.
Proof. by rewrite nth_set_nth /= eqxx. Qed.

Lemma size_set_nth_lt (s : seq K) d v : (d < size s)%N -> size (set_nth 0 s d v) = size s.
Proof. by move=> lt_d; rewrite size_set_nth; apply/maxn_idPr. Qed.

Lemma rdx_set al x (s : seq K) d v c : c != d -> (rdx al x (set_nth 0 s d v))`_c = (rdx al x s)`_c.
Proof. by move=> ne; case: al => //=; rewrite nth_set_nth_neq. Qed.

Lemma rdy_set al y (s : seq K) d v c : c != d -> (rdy al y (set_nth 0 s d v))`_c = (rdy al y s)`_c.
Proof. by move=> ne; case: al => //=; rewrite nth_set_nth_neq. Qed.

(* ---------- _mul into a possibly aliased output ---------- *)
Lemma mul_into_loopP al x y (X Y : seq K) n (s : seq K) :
  (n <= size s)%N ->
  (forall c, (c < n)%N -> (rdx al x s)`_c = X`_c) ->
  (forall c, (c < n)%N -> (rdy al y s)`_c = Y`_c) ->
  size (mul_into_loop al x y n s) = size s /\
  forall i, (mul_into_loop al x y n s)`_i =
            if (i < n)%N then sumn_f i.+1 (fun c => X`_c * Y`_(i - c)) else s`_i.
Proof.
elim: n s => [|d IH] s le_n HX HY; first by split.
rewrite [mul_into_loop _ _ _ _ _]/=.
set v := sumn_f _ _.
have Ev : v = sumn_f d.+1 (fun c => X`_c * Y`_(d - c)).
  rewrite /v; apply: eq_sumn_f => c lt_c; rewrite HX // HY //.
  by rewrite ltnS leq_subr.
have [] := IH (set_nth 0 s d v).
- by rewrite size_set_nth_lt // ltnW.
- move=> c lt_c; rewrite rdx_set; last by rewrite (ltn_eqF lt_c).
  by apply: HX; apply: ltnW.
- move=> c lt_c; rewrite rdy_set; last by rewrite (ltn_eqF lt_c).
  by apply: HY; apply: ltnW.
move=> -> Hn; split; first by rewrite size_set_nth_lt.
move=> i; rewrite Hn ltnS.
case: (ltngtP i d) => [lt_i|gt_i|->] //=.
- by rewrite nth_set_nth_neq // (gtn_eqF gt_i).
- by rewrite nth_set_nth_eq Ev.
Qed.

Theorem mul_into_spec (al : alias) x y out : size x = size out -> size y = size out ->
  alias_ok al x y out -> mul_into al x y out = mulS x y.
Proof.
move=> sx sy ok.
have [] := @mul_into_loopP al x y x y (size out) out (leqnn _).
- by move=> c _; case: al ok => //= [->|[-> _]].
- by move=> c _; case: al ok => //= [->|[_ ->]].
move=> sz Hn; apply: (@eq_from_nth _ 0).
  by rewrite /mul_into sz /mulS size_mkseq sx.
move=> i; rewrite /mul_into sz => lt_i.
by rewrite Hn lt_i /mulS nth_mkseq // sx.
Qed.

(* ---------- __imul__ with an independent right operand ---------- *)
Lemma eq_sumf (T : eqType) (f g : T -> K) (cs : seq T) :
  (forall c, c \in cs -> f c = g c) -> sumf f cs = sumf g cs.
Proof.
elim: cs => //= a cs IH H; rewrite H ?mem_head // IH // => c c_in.
by apply: H; rewrite inE c_in orbT.
Qed.

Lemma sumf_iota (f : nat -> K) d : sumf f (iota 0 d) = sumn_f d f.
Proof. by rewrite sumfE sumn_fE -(big_mkord xpredT) /index_iota subn0. Qed.

Lemma set_nth_twice (s : seq K) d a b : set_nth 0 (set_nth 0 s d a) d b = set_nth 0 s d b.
Proof. by rewrite set_set_nth eqxx. Qed.

Lemma imul_innerP rhs d (cs : seq nat) (s : seq K) a :
  (forall c, c \in cs -> c != d) ->
  imul_inner false rhs d cs (set_nth 0 s d a) =
  set_nth 0 s d (a + sumf (fun c => s`_c * rhs`_(d - c)) cs).
Proof.
elim: cs a => [|c cs IH] a Hcs; first by rewrite /= addr0.
rewrite [imul_inner _ _ _ _ _]/= nth_set_nth_eq nth_set_nth_neq ?Hcs ?mem_head //.
rewrite set_nth_twice IH /= ?addrA // => c' c'_in.
by apply: Hcs; rewrite inE c'_in orbT.
Qed.

Lemma imul_loopP rhs n (s : seq K) :
  (n <= size s)%N ->
  size (imul_loop false rhs n s) = size s /\
  forall i, (imul_loop false rhs n s)`_i =
            if (i < n)%N then sumn_f i.+1 (fun c => s`_c * rhs`_(i - c)) else s`_i.
Proof.
elim: n s => [|d IH] s le_n; first by split.
rewrite [imul_loop _ _ _ _]/= imul_innerP; last first.
  by move=> c; rewrite mem_iota add0n => /andP[_ lt_c]; rewrite (ltn_eqF lt_c).
rewrite sumf_iota.
set v := _ + _.
have Ev : v = sumn_f d.+1 (fun c => s`_c * rhs`_(d - c)).
  by rewrite /v sumn_fS subnn addrC.
have [] := IH (set_nth 0 s d v); first by rewrite size_set_nth_lt // ltnW.
move=> -> Hn; split; first by rewrite size_set_nth_lt.
move=> i; rewrite Hn ltnS.
case: (ltngtP i d) => [lt_i|gt_i|->] //=.
- apply: eq_sumn_f => c; rewrite ltnS => le_c.
  by rewrite nth_set_nth_neq // (ltn_eqF (leq_ltn_trans le_c lt_i)).
- by rewrite nth_set_nth_neq // (gtn_eqF gt_i).
- by rewrite nth_set_nth_eq Ev.
Qed.

Theorem imul_spec self rhs : size rhs = size self -> imul false self rhs = mulS self rhs.
Proof.
move=> _; have [sz Hn] := @imul_loopP rhs (size self) self (leqnn _).
apply: (@eq_from_nth _ 0); first by rewrite /imul sz /mulS size_mkseq.
move=> i; rewrite /imul sz => lt_i.
by rewrite Hn lt_i /mulS nth_mkseq.
Qed.

Theorem imul_fixed_spec (b : bool) self rhs : size rhs = size self -> (b -> rhs = self) ->
  imul_fixed b self rhs = mulS self rhs.
Proof.
move=> sz Hb; rewrite /imul_fixed.
have -> : (if b then self else rhs) = rhs by case: b Hb => // ->.
exact: imul_spec.
Qed.
End InPlaceSpec.

Theorem imul_alias_refuted : exists x : seq Qc_fieldType, (imul true x x == mulS x x) = false.
Proof. by exists [:: qz 2 1; qz 3 1; qz 5 1]; vm_compute. Qed.
