(* MODEL of _qr_rectangular (algopy/utpm/algorithms.py) for a TALL matrix polynomial A (m x n, m >= n, full column rank base matrix):
   reduced factors Q (m x n), R (n x n).  Base factors Q0, R0 and inv(R0) are what numpy.linalg.qr / numpy.linalg.inv return.
   Per order D >= 1:  dF = sum_{d=1}^{D-1} Q_d R_{D-d};  dG = - sum_{d=1}^{D-1} Q_d^T Q_{D-d};  H = A_D - dF;  S = dG / 2;
   X0 = strictly-lower(Q0^T H Rinv - S);  X = X0 - X0^T;  K = S + X;  R_D = Q0^T H - K R0;  Q_D = (H - Q0 R_D) Rinv   (the M > N branch).
   Two instances of the same recurrence: executable list matrices (qrtU, run by vm_compute) and mathcomp matrices (qrtM, theorems). *)
From mathcomp Require Import all_ssreflect all_algebra.
From AlgoV Require Import Sums Series Matrix MatrixFact.
Set Implicit Arguments. Unset Strict Implicit. Unset Printing Implicit Defensive.
Import GRing.Theory.
Local Open Scope ring_scope.

Section Exec.
Variable K : fieldType.
Variables m n : nat.
Notation mxl := (mx K).
Definition qrt_stepU (A : seq mxl) (Q0 R0 Rinv : mxl) (QRs : seq (mxl * mxl)) : mxl * mxl :=
  let D := size QRs in
  let Qn d := (nth (mzero K m n, mzero K n n) QRs d).1 in let Rn d := (nth (mzero K m n, mzero K n n) QRs d).2 in
  let dF := foldl (fun acc d => madd m n acc (mmul m n n (Qn d) (Rn (D - d)%N))) (mzero K m n) (iota 1 D.-1) in
  let dG := foldl (fun acc d => msub n n acc (mmul n m n (mtr m n (Qn d)) (Qn (D - d)%N))) (mzero K n n) (iota 1 D.-1) in
  let H := msub m n (nth (mzero K m n) A D) dF in
  let S := mhalf n dG in
  let QtH := mmul n m n (mtr m n Q0) H in
  let X0 := mtril1 n n (msub n n (mmul n n n QtH Rinv) S) in
  let X := msub n n X0 (mtr n n X0) in
  let Kk := madd n n S X in
  let RD := msub n n QtH (mmul n n n Kk R0) in
  (mmul m n n (msub m n H (mmul m n n Q0 RD)) Rinv, RD).
Definition qrtU (A : seq mxl) (Q0 R0 Rinv : mxl) : seq (mxl * mxl) := seriesT (qrt_stepU A Q0 R0 Rinv) (Q0, R0) (size A).
End Exec.

Section Spec.
Variable K : fieldType.
Variables m n : nat.
Notation MQ := 'M[K]_(m, n).
Notation MR := 'M[K]_n.
Definition qrt_stepM (A : seq MQ) (Q0 : MQ) (R0 Rinv : MR) (QRs : seq (MQ * MR)) : MQ * MR :=
  let D := size QRs in
  let Qn d := (nth (0, 0) QRs d).1 in let Rn d := (nth (0, 0) QRs d).2 in
  let dF := foldl (fun acc d => acc + Qn d *m Rn (D - d)%N) 0 (iota 1 D.-1) in
  let dG := foldl (fun acc d => acc - (Qn d)^T *m Qn (D - d)%N) 0 (iota 1 D.-1) in
  let H := nth 0 A D - dF in
  let S := halfM dG in
  let QtH := Q0^T *m H in
  let X0 := tril1M (QtH *m Rinv - S) in
  let X := X0 - X0^T in
  let Kk := S + X in
  let RD := QtH - Kk *m R0 in
  ((H - Q0 *m RD) *m Rinv, RD).
Definition qrtM (A : seq MQ) (Q0 : MQ) (R0 Rinv : MR) : seq (MQ * MR) := seriesT (qrt_stepM A Q0 R0 Rinv) (Q0, R0) (size A).
End Spec.
