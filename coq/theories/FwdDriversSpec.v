(* Correctness of the seed layouts and extraction formulas of the forward-mode drivers (model: FwdDrivers.v), for every N. *)
From mathcomp Require Import all_ssreflect all_algebra.
From mathcomp Require Import zify.
From AlgoV Require Import Sums FwdDrivers.
Set Implicit Arguments. Unset Strict Implicit. Unset Printing Implicit Defensive.
Import GRing.Theory.
Local Open Scope ring_scope.
Local Arguments mkseq : simpl never.

(* ---------- triangular numbers and the block search ---------- *)
Lemma tri_numS n : tri_num n.+1 = (tri_num n + n.+1)%N.
Proof. rewrite /tri_num; lia. Qed.

Lemma leq_tri a b : (a <= b)%N -> (tri_num a <= tri_num b)%N.
Proof. by move=> le_ab; rewrite /tri_num half_leq // leq_mul. Qed.

Lemma tri_lt N n j : (j <= n)%N -> (n < N)%N -> (tri_num n + j < tri_num N)%N.
Proof.
move=> lej ltn; apply: (@leq_trans (tri_num n.+1)); last exact: leq_tri.
by rewrite tri_numS ltn_add2l ltnS.
Qed.

Definition findb (c : nat) : nat -> nat -> nat :=
  fix find (n fuel : nat) : nat := if fuel is f.+1 then (if (c < tri_num n)%N then n else find n.+1 f) else n.

Lemma findbP c fuel n : (tri_num n.-1 <= c)%N -> (c < tri_num (n + fuel))%N ->
  (tri_num (findb c n fuel).-1 <= c < tri_num (findb c n fuel))%N.
Proof.
elim: fuel n => [|f IH] n lo hi /=; first by rewrite lo -[n]addn0.
case: ifP => [->|lt_c]; first by rewrite lo.
by apply: IH; rewrite /= ?addSnnS // leqNgt lt_c.
Qed.

Lemma findb_block N n j : (j <= n)%N -> (n < N)%N -> findb (tri_num n + j) 1 N = n.+1.
Proof.
move=> lej ltn.
have /andP[lo hi] : (tri_num (findb (tri_num n + j) 1 N).-1 <= tri_num n + j < tri_num (findb (tri_num n + j) 1 N))%N.
  apply: findbP => //; rewrite add1n; apply: leq_trans (tri_lt lej ltn) _; exact: leq_tri.
set b := findb _ _ _ in lo hi *.
have ub : (tri_num n + j < tri_num n.+1)%N by rewrite tri_numS ltn_add2l ltnS.
apply/eqP; rewrite eqn_leq; apply/andP; split.
  rewrite leqNgt; apply/negP => lt_b.
  have: (tri_num n.+1 <= tri_num b.-1)%N by apply: leq_tri; rewrite -ltnS prednK // (leq_trans _ lt_b).
  by move=> h; move: (leq_ltn_trans (leq_trans h lo) ub); rewrite ltnn.
rewrite ltnNge; apply/negP => le_b.
have: (tri_num b <= tri_num n)%N by apply: leq_tri.
by move=> /(leq_trans hi); rewrite ltnNge leq_addr.
Qed.

Section FwdSpec.
Variable K : fieldType.
Hypothesis char2 : (2%:R : K) != 0.

Lemma hess_SE N r c : hess_S K N r c =
  (if (r == N - findb c 1 N)%N then 1
   else if ((N - findb c 1 N < r) && (r - (N - findb c 1 N) == c - (findb c 1 N * (findb c 1 N).-1)./2))%N then 1 else 0).
Proof. reflexivity. Qed.

Lemma hess_S_block N n j i : (j <= n)%N -> (n < N)%N -> (i < N)%N ->
  hess_S K N (N.-1 - i) (tri_num n + j) = ((i == n) || (i == n - j)%N)%:R.
Proof.
move=> lej ltn lti; clear char2; rewrite hess_SE findb_block //= [(n.+1 * n)%N]mulnC -/(tri_num n) addKn.
have -> : (N.-1 - i == N - n.+1)%N = (i == n) by lia.
case E: (i == n) => //=.
have -> : ((N - n.+1 < N.-1 - i) && (N.-1 - i - (N - n.+1) == j))%N = (i == n - j)%N by lia.
by case: (i == n - j)%N.
Qed.

Theorem hess_dirs_spec N n j : (j <= n)%N -> (n < N)%N ->
  nth [::] (hess_dirs K N) (tri_num n + j) = mkseq (fun i => ((i == n) || (i == n - j)%N)%:R) N.
Proof.
move=> lej ltn; rewrite /hess_dirs nth_mkseq; last exact: tri_lt.
apply: (@eq_from_nth _ 0); first by rewrite !size_mkseq.
by move=> i; rewrite size_mkseq => lti; rewrite !nth_mkseq // hess_S_block.
Qed.

Theorem size_hess_dirs N : size (hess_dirs K N) = (N * N.+1)./2.
Proof. by rewrite size_mkseq. Qed.

(* ---------- bilinear forms ---------- *)
Definition Bf N (H : nat -> nat -> K) (u w : nat -> K) : K := \sum_(i < N) \sum_(j < N) u i * H i j * w j.
Definition Qf N H (u : nat -> K) : K := 2%:R^-1 * Bf N H u u.
Definition dl (n : nat) : nat -> K := fun i => (n == i)%:R.

Lemma half2 : 2%:R^-1 + 2%:R^-1 = 1 :> K.
Proof. by rewrite -mulr2n -[_ *+ 2]mulr_natr mulVf. Qed.

Lemma quadE N H s : quad N H s = Qf N H (nth 0 s).
Proof. by rewrite /quad /Qf /Bf sumn_fE; congr (_ * _); apply: eq_bigr => i _; exact: sumn_fE. Qed.

Lemma Bf_ext N H u u' w w' : (forall i, (i < N)%N -> u i = u' i) -> (forall i, (i < N)%N -> w i = w' i) ->
  Bf N H u w = Bf N H u' w'.
Proof. by move=> eu ew; apply: eq_bigr => i _; apply: eq_bigr => j _; rewrite eu // ew. Qed.

Lemma Qf_ext N H u u' : (forall i, (i < N)%N -> u i = u' i) -> Qf N H u = Qf N H u'.
Proof. by move=> eu; rewrite /Qf (@Bf_ext N H _ _ _ _ eu eu). Qed.

Lemma Bf_addl N H u u' w : Bf N H (fun i => u i + u' i) w = Bf N H u w + Bf N H u' w.
Proof.
rewrite /Bf -big_split /=; apply: eq_bigr => i _; rewrite -big_split /=; apply: eq_bigr => j _.
by rewrite !mulrDl.
Qed.

Lemma Bf_addr N H u w w' : Bf N H u (fun i => w i + w' i) = Bf N H u w + Bf N H u w'.
Proof.
rewrite /Bf -big_split /=; apply: eq_bigr => i _; rewrite -big_split /=; apply: eq_bigr => j _.
by rewrite !mulrDr.
Qed.

Lemma Bf_sym N H u w : (forall i j, H i j = H j i) -> Bf N H u w = Bf N H w u.
Proof.
move=> sym; rewrite /Bf exchange_big /=; apply: eq_bigr => i _; apply: eq_bigr => j _.
by rewrite (sym j i) mulrC [u j * _]mulrC mulrA.
Qed.

Lemma sum_dl N n (F : nat -> K) : (n < N)%N -> \sum_(i < N) dl n i * F i = F n.
Proof.
move=> ltn; rewrite (bigD1 (Ordinal ltn)) //= /dl eqxx mul1r big1 ?addr0 // => i.
by rewrite -val_eqE /= eq_sym => /negbTE ->; rewrite mul0r.
Qed.

Lemma Bf_dll N H n w : (n < N)%N -> Bf N H (dl n) w = \sum_(j < N) H n j * w j.
Proof.
move=> ltn; rewrite -(@sum_dl N n (fun i => \sum_(j < N) H i j * w j) ltn).
by apply: eq_bigr => i _; rewrite mulr_sumr; apply: eq_bigr => j _; rewrite mulrA.
Qed.

Lemma Bf_dl2 N H n m : (n < N)%N -> (m < N)%N -> Bf N H (dl n) (dl m) = H n m.
Proof.
move=> ltn ltm; rewrite Bf_dll // -(@sum_dl N m (H n) ltm).
by apply: eq_bigr => j _; rewrite mulrC.
Qed.

Lemma Qf_dl N H n : (n < N)%N -> Qf N H (dl n) = 2%:R^-1 * H n n.
Proof. by move=> ltn; rewrite /Qf Bf_dl2. Qed.

Lemma Qf_add N H u w : (forall i j, H i j = H j i) ->
  Qf N H (fun i => u i + w i) = Qf N H u + Qf N H w + Bf N H u w.
Proof.
move=> sym; rewrite /Qf Bf_addl !Bf_addr (@Bf_sym N H w u sym).
rewrite [Bf N H u w + Bf N H w w]addrC addrACA !mulrDr -mulrDl half2 mul1r.
by [].
Qed.

(* ---------- Hessian-vector product ---------- *)
Lemma nth_unitv N n i : (i < N)%N -> (unitv K N n)`_i = dl n i.
Proof. by move=> lti; rewrite nth_mkseq. Qed.

Theorem hess_vec_roundtrip N (H : nat -> nat -> K) (v : seq K) : (forall i j, H i j = H j i) -> size v = N ->
  extract_hess_vec N [seq quad N H d | d <- hess_vec_dirs N v] = matvec N H v.
Proof.
move=> sym sv; apply: (@eq_from_nth _ 0); first by rewrite !size_mkseq.
move=> n; rewrite size_mkseq => ltn; rewrite !nth_mkseq //.
have sz : size (hess_vec_dirs N v) = (N + N).+1 by rewrite size_mkseq.
have lt1 : (n < (N + N).+1)%N by lia.
have lt2 : (n + N < (N + N).+1)%N by lia.
rewrite !(nth_map [::]) ?sz // !nth_mkseq // ltn.
have -> : (n + N < N)%N = false by lia.
have -> : (n + N < N + N)%N = true by lia.
have -> : (N + N < N)%N = false by lia.
rewrite ltnn addnK !quadE sumn_fE.
rewrite (@Qf_ext N H (nth 0 (unitv K N n)) (dl n)); last by move=> i lti; rewrite nth_unitv.
rewrite (@Qf_ext N H (nth 0 (vadd v (unitv K N n))) (fun i => nth 0 v i + dl n i)); last first.
  by move=> i lti; rewrite /vadd nth_mkseq ?sv // nth_unitv.
rewrite Qf_add // (@Bf_sym N H _ _ sym) Bf_dll //.
set a := Qf N H (dl n); set b := Qf N H _; set c := \sum_(j < N) _.
by rewrite [b + a]addrC -[a + b + c]addrA addKr addrAC subrr add0r.
Qed.

(* ---------- Jacobian ---------- *)
Theorem jacobian_roundtrip N (g : seq K) : size g = N ->
  [seq sumn_f N (fun i => g`_i * d`_i) | d <- jac_dirs K N] = g.
Proof.
move=> sg; apply: (@eq_from_nth _ 0); first by rewrite size_map size_mkseq.
move=> p; rewrite size_map size_mkseq => ltp.
rewrite (nth_map [::]) ?size_mkseq // nth_mkseq // sumn_fE -(@sum_dl N p (nth 0 g) ltp).
by apply: eq_bigr => i _; rewrite nth_unitv // mulrC.
Qed.

(* ---------- Hessian ---------- *)
Lemma hess_q N H n j : (j <= n)%N -> (n < N)%N ->
  quad N H (nth [::] (hess_dirs K N) (tri_num n + j)) = Qf N H (fun i => ((i == n) || (i == n - j)%N)%:R).
Proof.
move=> lej ltn; rewrite hess_dirs_spec // quadE; apply: Qf_ext => i lti.
by rewrite nth_mkseq.
Qed.

Lemma hess_q0 N H n : (n < N)%N -> quad N H (nth [::] (hess_dirs K N) (tri_num n)) = 2%:R^-1 * H n n.
Proof.
move=> ltn; rewrite -[tri_num n]addn0 hess_q // -(@Qf_dl N H n ltn); apply: Qf_ext => i _.
by rewrite subn0 orbb /dl eq_sym.
Qed.

Lemma hess_q2 N H hi lo : (forall i j, H i j = H j i) -> (lo < hi)%N -> (hi < N)%N ->
  quad N H (nth [::] (hess_dirs K N) (tri_num hi + (hi - lo))) = 2%:R^-1 * H hi hi + 2%:R^-1 * H lo lo + H hi lo.
Proof.
move=> sym ltlo lthi.
have ltloN : (lo < N)%N by exact: ltn_trans lthi.
rewrite hess_q ?leq_subr // subKn; last exact: ltnW.
rewrite (@Qf_ext N H _ (fun i => dl hi i + dl lo i)).
  by rewrite Qf_add // !Qf_dl // Bf_dl2.
move=> i _; rewrite /dl ![_ == i]eq_sym.
case E: (i == hi) => /=.
  by rewrite (eqP E) gtn_eqF // addr0.
by rewrite add0r.
Qed.

Lemma y2_nth N H k : (k < tri_num N)%N ->
  [seq quad N H d | d <- hess_dirs K N]`_k = quad N H (nth [::] (hess_dirs K N) k).
Proof. by move=> ltk; rewrite (nth_map [::]) // size_hess_dirs. Qed.

Lemma hess_offdiag N H hi lo : (forall i j, H i j = H j i) -> (lo < hi)%N -> (hi < N)%N ->
  let y2 := [seq quad N H d | d <- hess_dirs K N] in
  y2`_(tri_num hi.+1 - lo - 1) - y2`_(tri_num hi) - y2`_(tri_num lo) = H hi lo.
Proof.
move=> sym ltlo lthi /=.
have ltloN : (lo < N)%N by exact: ltn_trans lthi.
have -> : (tri_num hi.+1 - lo - 1 = tri_num hi + (hi - lo))%N by rewrite tri_numS; lia.
have b1 : (tri_num lo < tri_num N)%N by rewrite -[tri_num lo]addn0; apply: tri_lt.
have b2 : (tri_num hi < tri_num N)%N by rewrite -[tri_num hi]addn0; apply: tri_lt.
have b3 : (tri_num hi + (hi - lo) < tri_num N)%N by apply: tri_lt => //; rewrite leq_subr.
rewrite !y2_nth //.
rewrite hess_q2 // !hess_q0 //.
set a := _ * H hi hi; set b := _ * H lo lo; set c := H hi lo.
by rewrite -[a + b + c]addrA [a + _]addrC addrK [b + c]addrC addrK.
Qed.

Theorem hessian_roundtrip N (H : nat -> nat -> K) : (forall i j, H i j = H j i) ->
  extract_hessian N [seq quad N H d | d <- hess_dirs K N] = mkseq (fun n => mkseq (fun m => H n m) N) N.
Proof.
move=> sym; apply: (@eq_from_nth _ [::]); first by rewrite !size_mkseq.
move=> n; rewrite size_mkseq => ltn; rewrite !nth_mkseq //.
apply: (@eq_from_nth _ 0); first by rewrite !size_mkseq.
move=> m; rewrite size_mkseq => ltm; rewrite !nth_mkseq //.
case: ifP => [/eqP <-|neq].
  rewrite y2_nth; last by rewrite -[tri_num n]addn0; apply: tri_lt.
  by rewrite hess_q0 // mulrA divff // mul1r.
case: (ltngtP n m) neq => // [lt_nm|lt_mn] _.
  by rewrite /= hess_offdiag // (sym m n).
by rewrite /= hess_offdiag.
Qed.
End FwdSpec.
