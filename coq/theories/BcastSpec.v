(* Theorems about Bcast.v: the broadcasting index list is in range, so (ReduceSpec.gather_adjoint) summing the adjoint over the broadcast
   axes - the scatter-add along the same list - is the adjoint of broadcasting; the broadcast shape computed by Array.bshape is compatible
   with both operands. *)
From mathcomp Require Import all_ssreflect all_algebra.
From mathcomp Require Import zify.
From AlgoV Require Import Sums Series Array ArraySpec Reduce ReduceSpec Bcast.
Set Implicit Arguments. Unset Strict Implicit. Unset Printing Implicit Defensive.
Import GRing.Theory.
Local Open Scope ring_scope.

Lemma all2_drop (T U : Type) (r : T -> U -> bool) n a b : all2 r a b -> all2 r (drop n a) (drop n b).
Proof.
elim: n a b => [|n IH] [|x a] [|y b] //=.
by case/andP=> _; apply: IH.
Qed.

Lemma bsrc_lt_gen (s t i : seq nat) :
  all2 (fun a b => (a == b) || (a == 1%N)) s t -> all2 (fun a b => (a < b)%N) i t ->
  all2 (fun a b => (a < b)%N) [seq (if p.1 == 1%N then 0%N else p.2) | p <- zip s i] s
  /\ size [seq (if p.1 == 1%N then 0%N else p.2) | p <- zip s i] = size s.
Proof.
elim: s t i => [|a s IH] [|b t] [|k i] //=.
move=> /andP[Hab Hst] /andP[Hk Hi]; have [H1 H2] := IH _ _ Hst Hi.
rewrite H1 H2 andbT; split=> //.
case: eqP => [->|/eqP a1] //.
by move: Hab; rewrite (negbTE a1) orbF => /eqP->.
Qed.

Lemma bsrc_same_gen (s i : seq nat) : all2 (fun a b => (a < b)%N) i s ->
  [seq (if p.1 == 1%N then 0%N else p.2) | p <- zip s i] = i.
Proof.
elim: s i => [|a s IH] [|k i] //= /andP[Hk Hi]; rewrite IH //.
by case: eqP => // a1; move: Hk; rewrite a1 ltnS leqn0 => /eqP->.
Qed.

Theorem bcast_idx_ok (s o : shape) : bcompat s o ->
  size (bcast_idx s o) = nelem o /\ all (fun k => (k < nelem s)%N) (bcast_idx s o).
Proof.
move=> /andP[le Hc]; split; first by rewrite size_map size_iota.
apply/allP => k /mapP[j]; rewrite mem_iota add0n => /andP[_ ltj] ->.
have Hi := unravel_lt ltj.
have [H1 H2] := bsrc_lt_gen Hc (all2_drop (size o - size s) Hi).
by rewrite /bidx /bsrc; apply: ravel_lt.
Qed.

Theorem pb_broadcast_adjoint (R : comRingType) (s o : shape) (x zbar : seq R) : bcompat s o -> size x = nelem s -> size zbar = nelem o ->
  dotp (gatherV (bcast_idx s o) x) zbar = dotp x (scatter_add (bcast_idx s o) zbar (nelem s)).
Proof.
move=> bc szx szb; have [szi Hall] := bcast_idx_ok bc.
by rewrite -szx gather_adjoint ?szx // szi.
Qed.

(* nothing is broadcast when the shapes agree: the index list is the identity *)
Theorem bcast_idx_same (s : shape) : bcast_idx s s = iota 0 (nelem s).
Proof.
rewrite /bcast_idx -[RHS]map_id; apply/eq_in_map => j; rewrite mem_iota add0n => /andP[_ ltj].
rewrite /bidx /bsrc subnn drop0 bsrc_same_gen; first exact: ravel_unravel.
exact: unravel_lt.
Qed.

Fixpoint rcompat (r ro : seq nat) : bool :=
  match r, ro with
  | [::], _ => true
  | a :: r', b :: ro' => ((a == b) || (a == 1%N)) && rcompat r' ro'
  | _ :: _, [::] => false
  end.

Lemma rcompat_refl r : rcompat r r.
Proof. by elim: r => //= a r ->; rewrite eqxx. Qed.

Lemma bshape_rev_rcompat r1 r2 ro : bshape_rev r1 r2 = Some ro -> rcompat r1 ro /\ rcompat r2 ro.
Proof.
elim: r1 r2 ro => [|a r1 IH] [|b r2] ro /=.
- by [].
- by case=> E; rewrite -E; split=> //; exact: (rcompat_refl (b :: r2)).
- by case=> E; rewrite -E; split=> //; exact: (rcompat_refl (a :: r1)).
case: ifP => [Hab|_].
  case E: (bshape_rev r1 r2) => [ro'|] //= [<-] /=; have [-> ->] := IH _ _ E.
  by rewrite eqxx !andbT /=; split=> //; rewrite eq_sym.
case: ifP => [/eqP a1|_] //.
case E: (bshape_rev r1 r2) => [ro'|] //= [<-] /=; have [-> ->] := IH _ _ E.
by rewrite a1 eqxx !andbT orbT.
Qed.

Lemma rcompatE r ro : rcompat r ro ->
  (size r <= size ro)%N /\ all2 (fun a b => (a == b) || (a == 1%N)) r (take (size r) ro).
Proof.
elim: r ro => [|a r IH] [|b ro] //=.
by case/andP=> -> /IH[le H]; split.
Qed.

Lemma all2_rev (T U : Type) (r : T -> U -> bool) a b : all2 r a b -> all2 r (rev a) (rev b).
Proof.
rewrite !all2E !size_rev => /andP[/eqP sz H]; rewrite sz eqxx /=.
by rewrite -rev_zip // all_rev.
Qed.

Lemma rcompat_bcompat r ro : rcompat r ro -> bcompat (rev r) (rev ro).
Proof.
move=> /rcompatE[le H]; rewrite /bcompat !size_rev le /=.
by rewrite drop_rev subKn //; apply: all2_rev.
Qed.

(* the broadcast shape of two shapes is compatible with both *)
Theorem bshape_compat (s1 s2 o : shape) : bshape s1 s2 = Some o -> bcompat s1 o /\ bcompat s2 o.
Proof.
rewrite /bshape; case E: (bshape_rev (rev s1) (rev s2)) => [ro|] //= [<-].
have [H1 H2] := bshape_rev_rcompat E.
by rewrite -[s1]revK -[s2]revK; split; apply: rcompat_bcompat.
Qed.
