(* MODEL of NumPy broadcasting as an index map: an operand of shape s used in an elementwise operation whose result has the broadcast
   shape o is read through the gather  bcast_idx s o  (output element j reads operand element bidx s o j, Array.v), and the reverse rule
   of every broadcasting binary operation (UTPM.pb_add / pb_sub / pb_mul / pb_truediv: "sum the adjoint over the broadcast axes")
   is the scatter-add along the same list. *)
From mathcomp Require Import all_ssreflect all_algebra.
From AlgoV Require Import Sums Series Array Reduce.
Set Implicit Arguments. Unset Strict Implicit. Unset Printing Implicit Defensive.

(* s can be broadcast to o: right aligned, every axis equal or 1 *)
Definition bcompat (s o : shape) : bool :=
  (size s <= size o) && all2 (fun a b => (a == b) || (a == 1)) s (drop (size o - size s) o).
Definition bcast_idx (s o : shape) : seq nat := [seq bidx s o j | j <- iota 0 (nelem o)].
