(* "Directions are propagated independently" at the level of whole programs: the executable tracer instance (TracerExec.v) lifted to
   P directions -- a value is a list of P direction blocks, each a coefficient series with its OWN base point, every kernel applied
   block by block -- computes in block p exactly what the one-direction instance computes from block p of the inputs (and of the
   constants, and of the seeds): forward evaluation, replay of a recorded tape, tangent sweep and the ADJOINTS of the reverse sweep.
   Hence no value flows from one direction into another.  Proof: the relational parametricity of TracerRefine.v (Section Param) with
   the relation "b = block p of a, a has P blocks", exactly as TracerPrefix.v does for truncation. *)
From Coq Require Import ZArith QArith Qcanon.
From mathcomp Require Import all_ssreflect all_algebra.
From AlgoV Require Import QcField Sums Series Tracer TracerExec TracerRefine.
Set Implicit Arguments. Unset Strict Implicit. Unset Printing Implicit Defensive.
Import GRing.Theory.
Local Open Scope ring_scope.

Section Dirs.
Variable K : fieldType.
Variables D P p : nat.
Hypothesis p_lt : (p < P)%N.

(* ---------- the P-direction carrier and the kernels lifted block by block ---------- *)
Definition DS := seq (seq K).
Definition lift1 (f : seq K -> seq K) (a : DS) : DS := [seq f x | x <- a].
Definition lift2 (f : seq K -> seq K -> seq K) (a b : DS) : DS := [seq f x.1 x.2 | x <- zip a b].

Definition p_zero : DS := nseq P (x_zero K D).
Definition p_add : DS -> DS -> DS := lift2 (@addS K).
Definition p_sub : DS -> DS -> DS := lift2 (@subS K).
Definition p_mul : DS -> DS -> DS := lift2 (@mulS K).
Definition p_div : DS -> DS -> DS := lift2 (@divS K).
Definition p_neg : DS -> DS := lift1 (@negS K).
Definition p_natmul (n : nat) : DS -> DS := lift1 (x_natmul n).
Definition p_pown (a : DS) (n : nat) : DS := lift1 (fun x => x_pown x n) a.
Definition p_unval (f : nat) : DS -> DS := lift1 (x_unval f).
Definition p_unpart (f : nat) : DS -> DS -> DS := lift2 (x_unpart D f).

Definition XP_replay_out := @replay_out DS p_zero p_add p_sub p_mul p_div p_neg p_pown p_unval.
Definition XP_eval_out := @eval_out DS p_zero p_add p_sub p_mul p_div p_neg p_pown p_unval.
Definition XP_grad := @gradient_like DS p_zero p_add p_sub p_mul p_div p_neg p_natmul p_pown p_unval p_unpart.
Definition XP_tangent_out := @tangent_out DS p_zero p_add p_sub p_mul p_div p_neg p_natmul p_pown p_unval p_unpart.

(* ---------- projection on direction p of values, programs and tapes ---------- *)
Definition dir (a : DS) : seq K := nth [::] a p.
Definition operandD (o : operand DS) : operand (seq K) :=
  match o with OReg r => OReg _ r | OConst c => OConst (dir c) end.
Definition instrD (i : instr DS) : instr (seq K) :=
  match i with
  | IX k => IX _ k | IBin op a b => IBin op (operandD a) (operandD b) | INeg r => INeg _ r | IUn f r => IUn _ f r
  | IPow r n => IPow _ r n | IZeros n => IZeros _ n | ISet b k a => ISet b k (operandD a) | IGet b k => IGet _ b k
  end.
Definition nodeD (n : node DS) : node (seq K) :=
  Node (match nop n with
        | NInput => NInput _ | NConst c => NConst (dir c) | NGetX k => NGetX _ k | NBin op => NBin _ op | NNeg => NNeg _
        | NUn f => NUn _ f | NPow m => NPow _ m | NZeros m => NZeros _ m | NSet k => NSet _ k | NGet k => NGet _ k end) (nargs n).

(* well-formedness: every input, constant and seed has exactly P direction blocks *)
Definition operand_okP (o : operand DS) : bool := match o with OReg _ => true | OConst c => size c == P end.
Definition instr_okP (i : instr DS) : bool :=
  match i with IBin _ a b => operand_okP a && operand_okP b | ISet _ _ a => operand_okP a | _ => true end.
Definition node_okP (n : node DS) : bool := match nop n with NConst c => size c == P | _ => true end.
Definition sizedP (xs : seq DS) : bool := all (fun x => size x == P) xs.

Implicit Types (prog : seq (instr DS)) (t : tape DS) (xs dxs ybars : seq DS).

(* ---------- the relation "b is block p of the P-block value a" is preserved by every lifted kernel ---------- *)
Implicit Types (a c : DS) (b d : seq K).
Definition dR (a : DS) (b : seq K) : Prop := size a = P /\ b = dir a.

Lemma dR_dir a : size a = P -> dR a (dir a). Proof. by []. Qed.

Lemma dR_zero : dR p_zero (x_zero K D).
Proof. by split; rewrite /p_zero ?size_nseq // /dir nth_nseq p_lt. Qed.

Lemma dR_lift1 (f : seq K -> seq K) a b : dR a b -> dR (lift1 f a) (f b).
Proof.
case=> sa ->; split; first by rewrite /lift1 size_map.
by rewrite /dir /lift1 (nth_map [::]) ?sa.
Qed.

Lemma dR_lift2 (f : seq K -> seq K -> seq K) a b c d : dR a b -> dR c d -> dR (lift2 f a c) (f b d).
Proof.
case=> sa -> [sc ->]; split; first by rewrite /lift2 size_map size_zip sa sc minnn.
rewrite /dir /lift2 (nth_map ([::], [::])) ?size_zip ?sa ?sc ?minnn //.
by rewrite nth_zip ?sa ?sc.
Qed.

Lemma dR_add a b c d : dR a b -> dR c d -> dR (p_add a c) (addS b d). Proof. exact: dR_lift2. Qed.
Lemma dR_sub a b c d : dR a b -> dR c d -> dR (p_sub a c) (subS b d). Proof. exact: dR_lift2. Qed.
Lemma dR_mul a b c d : dR a b -> dR c d -> dR (p_mul a c) (mulS b d). Proof. exact: dR_lift2. Qed.
Lemma dR_div a b c d : dR a b -> dR c d -> dR (p_div a c) (divS b d). Proof. exact: dR_lift2. Qed.
Lemma dR_neg a b : dR a b -> dR (p_neg a) (negS b). Proof. exact: dR_lift1. Qed.
Lemma dR_natmul n a b : dR a b -> dR (p_natmul n a) (x_natmul n b). Proof. exact: dR_lift1. Qed.
Lemma dR_pown n a b : dR a b -> dR (p_pown a n) (x_pown b n).
Proof. exact: (@dR_lift1 (fun x => x_pown x n)). Qed.
Lemma dR_unval f a b : dR a b -> dR (p_unval f a) (x_unval f b). Proof. exact: dR_lift1. Qed.
Lemma dR_unpart f a b c d : dR a b -> dR c d -> dR (p_unpart f a c) (x_unpart D f b d). Proof. exact: dR_lift2. Qed.

(* ---------- translation of programs / tapes / inputs ---------- *)
Lemma lrel_dR_eq (u : seq DS) (v : seq (seq K)) : lrel dR u v -> v = map dir u.
Proof. by elim: u v => [|x u IH] [|y v] //= [[_ ->] /IH->]. Qed.
Lemma lrel_sizedD xs : sizedP xs -> lrel dR xs (map dir xs).
Proof. by elim: xs => [|x xs IH] //= /andP[/eqP sx /IH Hxs]. Qed.
Lemma orel_D o : operand_okP o -> orel dR o (operandD o).
Proof. by case: o => [r|c] //= /eqP sc. Qed.
Lemma irel_D i : instr_okP i -> irel dR i (instrD i).
Proof.
case: i => [k|op a b|r|f r|r n|n|b k a|b k] //=.
- by case/andP=> /orel_D Ha /orel_D Hb.
- by move=> /orel_D Ha.
Qed.
Lemma lrel_progD prog : all instr_okP prog -> lrel (irel dR) prog (map instrD prog).
Proof. by elim: prog => [|i q IH] //= /andP[/irel_D Hi /IH Hq]. Qed.
Lemma nrel_D n : node_okP n -> nrel dR n (nodeD n).
Proof. by case: n => [[|c|k|op| |f|m|m|k|k] a] //=; rewrite /node_okP /nrel /= => /eqP sc. Qed.
Lemma lrel_tapeD t : all node_okP t -> lrel (nrel dR) t (map nodeD t).
Proof. by elim: t => [|n t IH] //= /andP[/nrel_D Hn /IH Ht]. Qed.

(* recording commutes with projecting the constants *)
Local Arguments record_instr : simpl never.
Lemma record_instr_D (st : tape DS * seq nat) i :
  record_instr (map nodeD st.1, st.2) (instrD i) = ((map nodeD (record_instr st i).1), (record_instr st i).2).
Proof.
case: st => t regs; case: i => [k|op [r|c] [r'|c']|r|f r|r n|n|b k [r|c]|b k]; rewrite /record_instr /=;
  rewrite ?(map_rcons, size_rcons, size_map) //.
by case: op => /=; rewrite ?(map_rcons, size_rcons, size_map).
Qed.
Lemma record_fold_D prog (st : tape DS * seq nat) :
  foldl (@record_instr _) (map nodeD st.1, st.2) (map instrD prog)
  = (map nodeD (foldl (@record_instr _) st prog).1, (foldl (@record_instr _) st prog).2).
Proof. by elim: prog st => [|i q IH] st //=; rewrite record_instr_D IH. Qed.

Theorem record_D prog : record (map instrD prog) = ([seq nodeD n | n <- (record prog).1], (record prog).2).
Proof.
rewrite /record.
exact: (record_fold_D prog ([:: Node (NInput DS) [::]], [::])).
Qed.

(* the recorded tape of a well-formed program is well-formed *)
Lemma record_instr_okP (st : tape DS * seq nat) i : all node_okP st.1 -> instr_okP i -> all node_okP (record_instr st i).1.
Proof.
case: st => t regs /= Ht; case: i => [k|op [r|c] [r'|c']|r|f r|r n|n|b k [r|c]|b k]; rewrite /record_instr /=;
  rewrite ?all_rcons ?Ht //=; rewrite /node_okP /= ?andbT //.
- by case: op => /=; rewrite ?all_rcons ?Ht /node_okP /= ?andbT.
- by case/andP=> -> ->.
Qed.
Theorem record_okP prog : all instr_okP prog -> all node_okP (record prog).1.
Proof.
rewrite /record; move: (_, _) (isT : all node_okP ([:: Node (NInput DS) [::]], [::] : seq nat).1).
elim: prog => [|i q IH] st Hst //= /andP[Hi Hq]; apply: IH => //; exact: record_instr_okP.
Qed.

Ltac dR_ops := try solve [exact: dR_zero | by move=> *; apply: dR_add | by move=> *; apply: dR_sub
  | by move=> *; apply: dR_mul | by move=> *; apply: dR_div
  | exact: dR_neg | exact: dR_natmul | by move=> *; apply: dR_pown | exact: dR_unval | by move=> *; apply: dR_unpart
  | exact: lrel_progD | exact: lrel_tapeD | exact: lrel_sizedD].

(* ---------- block p of every result is the one-direction result computed from block p of the data ---------- *)
Theorem XP_eval_dir prog ret xs : all instr_okP prog -> sizedP xs ->
  map dir (XP_eval_out prog ret xs) = X_eval_out D (map instrD prog) ret (map dir xs).
Proof.
move=> Hp Hx; apply/esym; apply: lrel_dR_eq; rewrite /X_eval_out /XP_eval_out.
by apply: eval_out_rel; dR_ops.
Qed.

Theorem XP_replay_dir t outs xs : all node_okP t -> sizedP xs ->
  map dir (XP_replay_out t outs xs) = X_replay_out D (map nodeD t) outs (map dir xs).
Proof.
move=> Ht Hx; apply/esym; apply: lrel_dR_eq; rewrite /X_replay_out /XP_replay_out.
by apply: replay_out_rel; dR_ops.
Qed.

Theorem XP_tangent_dir t outs xs dxs : all node_okP t -> sizedP xs -> sizedP dxs ->
  map dir (XP_tangent_out t outs xs dxs) = X_tangent_out D (map nodeD t) outs (map dir xs) (map dir dxs).
Proof.
move=> Ht Hx Hd; apply/esym; apply: lrel_dR_eq; rewrite /X_tangent_out /XP_tangent_out.
by apply: tangent_out_rel; dR_ops.
Qed.

(* the reverse sweep: block p of every adjoint depends only on block p of inputs, constants and seeds *)
Theorem XP_grad_dir t outs xs ybars : all node_okP t -> sizedP xs -> sizedP ybars ->
  map dir (XP_grad t outs xs ybars) = X_grad D (map nodeD t) outs (map dir xs) (map dir ybars).
Proof.
move=> Ht Hx Hy; apply/esym; apply: lrel_dR_eq; rewrite /X_grad /XP_grad.
by apply: gradient_like_rel; dR_ops.
Qed.
End Dirs.

(* ---------- no flow between directions: changing the data of the OTHER directions does not change block p of any result ---------- *)
Theorem XP_eval_no_flow (K : fieldType) (D P p : nat) (prog : seq (instr (DS K))) ret (xs xs' : seq (DS K)) : (p < P)%N ->
  all (instr_okP P) prog -> sizedP P xs -> sizedP P xs' -> map (dir p) xs = map (dir p) xs' ->
  map (dir p) (XP_eval_out D P prog ret xs) = map (dir p) (XP_eval_out D P prog ret xs').
Proof. by move=> p_lt Hp Hx Hx' E; rewrite !(XP_eval_dir D p_lt) // E. Qed.

Theorem XP_replay_no_flow (K : fieldType) (D P p : nat) (t : tape (DS K)) outs (xs xs' : seq (DS K)) : (p < P)%N ->
  all (node_okP P) t -> sizedP P xs -> sizedP P xs' -> map (dir p) xs = map (dir p) xs' ->
  map (dir p) (XP_replay_out D P t outs xs) = map (dir p) (XP_replay_out D P t outs xs').
Proof. by move=> p_lt Ht Hx Hx' E; rewrite !(XP_replay_dir D p_lt) // E. Qed.

Theorem XP_tangent_no_flow (K : fieldType) (D P p : nat) (t : tape (DS K)) outs (xs xs' dxs dxs' : seq (DS K)) : (p < P)%N ->
  all (node_okP P) t -> sizedP P xs -> sizedP P xs' -> sizedP P dxs -> sizedP P dxs' ->
  map (dir p) xs = map (dir p) xs' -> map (dir p) dxs = map (dir p) dxs' ->
  map (dir p) (XP_tangent_out D P t outs xs dxs) = map (dir p) (XP_tangent_out D P t outs xs' dxs').
Proof. by move=> p_lt Ht Hx Hx' Hd Hd' E E'; rewrite !(XP_tangent_dir D p_lt) // E E'. Qed.

Theorem XP_grad_no_flow (K : fieldType) (D P p : nat) (t : tape (DS K)) outs (xs xs' ybars ybars' : seq (DS K)) : (p < P)%N ->
  all (node_okP P) t -> sizedP P xs -> sizedP P xs' -> sizedP P ybars -> sizedP P ybars' ->
  map (dir p) xs = map (dir p) xs' -> map (dir p) ybars = map (dir p) ybars' ->
  map (dir p) (XP_grad D P t outs xs ybars) = map (dir p) (XP_grad D P t outs xs' ybars').
Proof. by move=> p_lt Ht Hx Hx' Hy Hy' E E'; rewrite !(XP_grad_dir D p_lt) // E E'. Qed.

(* the same for two programs / tapes whose constants agree in direction p *)
Theorem XP_eval_no_flow_prog (K : fieldType) (D P p : nat) (prog prog' : seq (instr (DS K))) ret (xs xs' : seq (DS K)) : (p < P)%N ->
  all (instr_okP P) prog -> all (instr_okP P) prog' -> sizedP P xs -> sizedP P xs' ->
  map (instrD p) prog = map (instrD p) prog' -> map (dir p) xs = map (dir p) xs' ->
  map (dir p) (XP_eval_out D P prog ret xs) = map (dir p) (XP_eval_out D P prog' ret xs').
Proof. by move=> p_lt Hp Hp' Hx Hx' Ep E; rewrite !(XP_eval_dir D p_lt) // Ep E. Qed.

Theorem XP_grad_no_flow_tape (K : fieldType) (D P p : nat) (t t' : tape (DS K)) outs (xs xs' ybars ybars' : seq (DS K)) : (p < P)%N ->
  all (node_okP P) t -> all (node_okP P) t' -> sizedP P xs -> sizedP P xs' -> sizedP P ybars -> sizedP P ybars' ->
  map (nodeD p) t = map (nodeD p) t' -> map (dir p) xs = map (dir p) xs' -> map (dir p) ybars = map (dir p) ybars' ->
  map (dir p) (XP_grad D P t outs xs ybars) = map (dir p) (XP_grad D P t' outs xs' ybars').
Proof. by move=> p_lt Ht Ht' Hx Hx' Hy Hy' Et E E'; rewrite !(XP_grad_dir D p_lt) // Et E E'. Qed.

(* ---------- non-vacuity: P = 2 directions with DIFFERENT base points, D = 2 coefficients, over Qc ----------
   f(x0, x1) = (x0 * x1 / c)^2 + x0 with direction 0 at base point (2, 5), c = 2 and direction 1 at base point (3, 7), c = 4 *)
Definition exq (n : Z) : Qc_fieldType := qz n 1.
Definition ex_xs : seq (DS Qc_fieldType) :=
  [:: [:: [:: exq 2; exq 1]; [:: exq 3; exq 0]];
      [:: [:: exq 5; exq 0]; [:: exq 7; exq 1]]].
Definition ex_prog : seq (instr (DS Qc_fieldType)) :=
  [:: IX _ 0; IX _ 1; IBin Mul (OReg _ 0) (OReg _ 1);
      IBin Div (OReg _ 2) (OConst [:: [:: exq 2; exq 0]; [:: exq 4; exq 0]]);
      IUn _ 0 3; IBin Add (OReg _ 4) (OReg _ 0)].
Definition ex_ret : seq nat := [:: 5%N].
Definition ex_tape : tape (DS Qc_fieldType) := (record ex_prog).1.
Definition ex_outs : seq nat := [seq nth 0%N (record ex_prog).2 r | r <- ex_ret].
Definition ex_ybars : seq (DS Qc_fieldType) := [:: [:: [:: exq 1; exq 0]; [:: exq 2; exq 1]]].

(* the hypotheses of the theorems hold, both directions are computed at once, and each block is the one-direction result *)
Example dirs_example :
  [&& all (instr_okP 2) ex_prog, all (node_okP 2) ex_tape, sizedP 2 ex_xs, sizedP 2 ex_ybars,
      XP_eval_out 2 2 ex_prog ex_ret ex_xs == [:: [:: [:: exq 27; exq 26]; [:: qz 489 16; qz 63 8]]],
      X_eval_out 2 (map (instrD 0) ex_prog) ex_ret (map (dir 0) ex_xs) == [:: [:: exq 27; exq 26]],
      X_eval_out 2 (map (instrD 1) ex_prog) ex_ret (map (dir 1) ex_xs) == [:: [:: qz 489 16; qz 63 8]],
      XP_grad 2 2 ex_tape ex_outs ex_xs ex_ybars
        == [:: [:: [:: exq 26; qz 25 2]; [:: qz 155 4; qz 239 8]]; [:: [:: exq 10; exq 10]; [:: qz 63 4; qz 81 8]]],
      X_grad 2 (map (nodeD 0) ex_tape) ex_outs (map (dir 0) ex_xs) (map (dir 0) ex_ybars)
        == [:: [:: exq 26; qz 25 2]; [:: exq 10; exq 10]]
    & X_grad 2 (map (nodeD 1) ex_tape) ex_outs (map (dir 1) ex_xs) (map (dir 1) ex_ybars)
        == [:: [:: qz 155 4; qz 239 8]; [:: qz 63 4; qz 81 8]]].
Proof. by vm_compute. Qed.

(* and data of direction 1 may be changed at will without affecting block 0 (an instance of XP_eval_no_flow) *)
Example dirs_example_no_flow (u v : seq Qc_fieldType) :
  map (dir 0) (XP_eval_out 2 2 ex_prog ex_ret [:: [:: [:: exq 2; exq 1]; u]; [:: [:: exq 5; exq 0]; v]])
  = map (dir 0) (XP_eval_out 2 2 ex_prog ex_ret ex_xs).
Proof. exact: XP_eval_no_flow. Qed.
