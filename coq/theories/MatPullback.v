(* The hand-written reverse-mode ("pullback") rules of AlgoPy's matrix operations (utpm.py pb_dot, pb_outer, pb_inv,
   pb_solve, pb_trace, pb_transpose, pb_det, pb_logdet) are the ADJOINTS of the differentials of the operations, for
   the pairing  <A, B> = tr (A^T B).
   Everything is stated over an arbitrary commutative ring R (e.g. a truncated power-series ring, so that every Taylor
   order is covered at once) and mathcomp matrices.  Part 1 derives the differentials: they are the coefficient of a
   nilpotent scalar eps (eps * eps = 0) in the operation applied to X + eps dX.  Part 2 proves the adjoint identities
   for the rules exactly as coded.  Part 3 relates the executable list-matrix rules of MatPullbackExec.v to them. *)
From mathcomp Require Import all_ssreflect all_algebra fingroup perm.
From AlgoV Require Import Sums Series Matrix MatrixSpec MatPullbackExec.
Set Implicit Arguments. Unset Strict Implicit. Unset Printing Implicit Defensive.
Import GRing.Theory.
Local Open Scope ring_scope.

Section MatPullback.
Variable R : comRingType.

(* the pairing *)
Definition ip (m n : nat) (A B : 'M[R]_(m, n)) : R := \tr (A^T *m B).

Lemma ipDr m n (A B C : 'M[R]_(m, n)) : ip A (B + C) = ip A B + ip A C.
Proof. by rewrite /ip mulmxDr mxtraceD. Qed.
Lemma ipNr m n (A B : 'M[R]_(m, n)) : ip A (- B) = - ip A B.
Proof. by rewrite /ip mulmxN raddfN. Qed.
Lemma ipNl m n (A B : 'M[R]_(m, n)) : ip (- A) B = - ip A B.
Proof. by rewrite /ip linearN mulNmx raddfN. Qed.
Lemma ipC m n (A B : 'M[R]_(m, n)) : ip A B = ip B A.
Proof. by rewrite /ip -mxtrace_tr trmx_mul trmxK. Qed.
(* moving a factor across the pairing *)
Lemma ip_mull m n k (A : 'M[R]_(m, k)) (B : 'M[R]_(m, n)) (C : 'M[R]_(n, k)) :
  ip A (B *m C) = ip (A *m C^T) B.
Proof. by rewrite /ip trmx_mul trmxK mulmxA mxtrace_mulC mulmxA. Qed.
Lemma ip_mulr m n k (A : 'M[R]_(m, k)) (B : 'M[R]_(m, n)) (C : 'M[R]_(n, k)) :
  ip A (B *m C) = ip (B^T *m A) C.
Proof. by rewrite /ip trmx_mul trmxK mulmxA. Qed.

Lemma ip_tr m n (A : 'M[R]_(n, m)) (B : 'M[R]_(m, n)) : ip A B^T = ip A^T B.
Proof. by rewrite /ip trmxK -trmx_mul mxtrace_tr mxtrace_mulC. Qed.

(* ===== Part 1: first-order expansions ===== *)
Section Expand.
Variable eps : R.
Hypothesis eps2 : eps * eps = 0.

Theorem dot_expand m n k (X dX : 'M[R]_(m, n)) (Y dY : 'M[R]_(n, k)) :
  (X + eps *: dX) *m (Y + eps *: dY) = X *m Y + eps *: (dX *m Y + X *m dY).
Proof.
rewrite mulmxDl !mulmxDr -!scalemxAl -!scalemxAr scalerA eps2 scale0r addr0.
by rewrite scalerDr -addrA [eps *: (dX *m Y) + _]addrC.
Qed.

Theorem inv_expand n (A Y dA : 'M[R]_n) : A *m Y = 1%:M -> Y *m A = 1%:M ->
  (A + eps *: dA) *m (Y - eps *: (Y *m dA *m Y)) = 1%:M.
Proof.
move=> AY YA; rewrite -scalerN dot_expand AY.
by rewrite mulmxN !mulmxA AY mul1mx subrr scaler0 addr0.
Qed.

Theorem solve_expand n k (A Ai dA : 'M[R]_n) (Y X dX : 'M[R]_(n, k)) :
  A *m Ai = 1%:M -> Ai *m A = 1%:M -> A *m Y = X ->
  (A + eps *: dA) *m (Y + eps *: (Ai *m (dX - dA *m Y))) = X + eps *: dX.
Proof.
move=> AAi AiA AY; rewrite dot_expand AY mulmxA AAi mul1mx.
by rewrite addrCA subrr addr0.
Qed.

(* a product of first-order perturbations, over a duplicate-free index list *)
Lemma prod_eps_seq (I : eqType) (r : seq I) (a v : I -> R) : uniq r ->
  \prod_(i <- r) (a i + eps * v i) =
  \prod_(i <- r) a i + eps * \sum_(j <- r) v j * \prod_(i <- r | i != j) a i.
Proof.
elim: r => [|x r IH] /=; first by rewrite !big_nil mulr0 addr0.
case/andP => xr ur; rewrite !big_cons IH // eqxx /=.
have -> : \prod_(i <- r | i != x) a i = \prod_(i <- r) a i.
  rewrite big_seq_cond [RHS]big_seq_cond; apply: eq_bigl => i; rewrite andbT.
  by case: eqP => [->|_]; rewrite ?(negbTE xr) ?andbT.
have -> : \sum_(j <- r) v j * \prod_(i <- x :: r | i != j) a i =
          a x * \sum_(j <- r) v j * \prod_(i <- r | i != j) a i.
  rewrite mulr_sumr big_seq [RHS]big_seq; apply: eq_bigr => j jr; rewrite big_cons.
  have -> : x != j by apply: contraNneq xr => ->.
  by rewrite mulrCA.
set P := \prod_(i <- r) a i; set S := \sum_(j <- r) _.
rewrite mulrDl !mulrDr -addrA; congr (_ + _).
have -> : eps * v x * (eps * S) = 0 by rewrite mulrACA eps2 mul0r.
by rewrite addr0 addrC -mulrA; congr (_ + _); rewrite mulrCA.
Qed.

(* Jacobi's formula *)
Theorem det_expand n (A V : 'M[R]_n) : \det (A + eps *: V) = \det A + eps * \tr (\adj A *m V).
Proof.
have -> : \tr (\adj A *m V) =
          \sum_(s : 'S_n) (-1) ^+ s * \sum_j V j (s j) * \prod_(i | i != j) A i (s i).
  rewrite /mxtrace.
  under eq_bigr => i _ do (rewrite mxE; under eq_bigr => j _ do rewrite mxE mulrC).
  rewrite exchange_big /=.
  under [RHS]eq_bigr => s _ do rewrite mulr_sumr.
  rewrite [RHS]exchange_big /=; apply: eq_bigr => j _.
  rewrite [RHS](partition_big (fun s : 'S_n => s j) predT) //=; apply: eq_bigr => i _.
  rewrite expand_cofactor mulr_sumr; apply: eq_bigr => s /eqP sj.
  rewrite sj mulrCA; congr (_ * (_ * _)); apply: eq_bigl => k; by rewrite eq_sym.
rewrite /determinant mulr_sumr -big_split /=; apply: eq_bigr => s _.
under eq_bigr => i _ do rewrite !mxE.
by rewrite prod_eps_seq ?index_enum_uniq // mulrDr mulrCA.
Qed.
End Expand.

(* ===== Part 2: the coded rules are the adjoints of the differentials ===== *)

(* Z = X . Y :  Xbar += Zbar . Y^T,  Ybar += X^T . Zbar *)
Theorem pb_dot m n k (X dX : 'M[R]_(m, n)) (Y dY : 'M[R]_(n, k)) (Zbar : 'M[R]_(m, k)) :
  ip Zbar (dX *m Y + X *m dY) = ip (Zbar *m Y^T) dX + ip (X^T *m Zbar) dY.
Proof. by rewrite ipDr ip_mull ip_mulr. Qed.

(* Z = x y^T :  xbar += Zbar . y,  ybar += Zbar^T . x *)
Theorem pb_outer m n (x dx : 'cV[R]_m) (y dy : 'cV[R]_n) (Zbar : 'M[R]_(m, n)) :
  ip Zbar (dx *m y^T + x *m dy^T) = ip (Zbar *m y) dx + ip (Zbar^T *m x) dy.
Proof.
rewrite ipDr ip_mull trmxK; congr (_ + _).
by rewrite ip_mulr ip_tr trmx_mul trmxK.
Qed.

(* Y = inv(A), dY = - Y dA Y :  Abar += - Y^T (Ybar Y^T) *)
Theorem pb_inv n (Y dA Ybar : 'M[R]_n) :
  ip Ybar (- (Y *m dA *m Y)) = ip (- (Y^T *m (Ybar *m Y^T))) dA.
Proof. by rewrite ipNr ipNl ip_mull ip_mulr. Qed.

(* A Y = X, dY = Ai (dX - dA Y) :  Tbar = - solve(A^T, Ybar),  Abar += Tbar . Y^T,  Xbar -= Tbar *)
Theorem pb_solve n k (Ai dA : 'M[R]_n) (Y dX Ybar : 'M[R]_(n, k)) :
  let Tbar := - (Ai^T *m Ybar) in
  ip Ybar (Ai *m (dX - dA *m Y)) = ip (Tbar *m Y^T) dA + ip (- Tbar) dX.
Proof.
move=> Tbar; rewrite ip_mulr ipDr ipNr ip_mull addrC /Tbar opprK; congr (_ + _).
by rewrite mulNmx ipNl.
Qed.

(* y = tr X :  Xbar += ybar I *)
Theorem pb_trace n (ybar : R) (dX : 'M[R]_n) : ybar * \tr dX = ip (ybar *: 1%:M) dX.
Proof. by rewrite /ip linearZ /= trmx1 -scalemxAl mul1mx mxtraceZ. Qed.

(* Y = X^T :  Xbar += Ybar^T *)
Theorem pb_transpose m n (Ybar : 'M[R]_(n, m)) (dX : 'M[R]_(m, n)) : ip Ybar dX^T = ip Ybar^T dX.
Proof. exact: ip_tr. Qed.

(* y = logdet A, dy = tr (Ai dA) :  Abar += ybar Ai^T *)
Theorem pb_logdet n (ybar : R) (Ai V : 'M[R]_n) : ybar * \tr (Ai *m V) = ip (ybar *: Ai^T) V.
Proof. by rewrite /ip linearZ /= trmxK -scalemxAl mxtraceZ. Qed.

(* y = det A, dy = tr (adj A dA) with adj A = det A . Ai :  Abar += (ybar det A) Ai^T *)
Lemma adj_inv n (A Ai : 'M[R]_n) : A *m Ai = 1%:M -> \adj A = \det A *: Ai.
Proof. by move=> AAi; rewrite -[LHS]mulmx1 -AAi mulmxA mul_adj_mx mul_scalar_mx. Qed.

Theorem pb_det n (ybar : R) (A Ai V : 'M[R]_n) : A *m Ai = 1%:M -> Ai *m A = 1%:M ->
  ybar * \tr (\adj A *m V) = ip ((ybar * \det A) *: Ai^T) V.
Proof. by move=> AAi _; rewrite (adj_inv AAi) -scalemxAl mxtraceZ mulrA pb_logdet. Qed.

End MatPullback.

(* ===== Part 3: the executable rules of MatPullbackExec.v are the Cauchy products of the abstract rules ===== *)
Section ExecRefine.
Variable K : fieldType.

Lemma nth_trU n m (x : seq (mx K)) e :
  mx_of m n (nth [::] (trU n m x) e) = (mx_of n m (nth [::] x e))^T.
Proof.
case: (ltnP e (size x)) => [lt_e|le_e]; first by rewrite (nth_map [::]) // mx_of_mtr.
by rewrite !nth_default ?size_map // !mx_of_nil trmx0.
Qed.

(* coefficient d of Xbar = Zbar . Y^T  is  sum_{c <= d} Zbar_c (Y_{d-c})^T *)
Theorem pb_dotU_x_refines n m k (zbar y : seq (mx K)) d : (d < size zbar)%N ->
  mx_of n m (nth [::] (pb_dotU_x n m k zbar y) d) =
  \sum_(c < d.+1) mx_of n k (nth [::] zbar c) *m (mx_of m k (nth [::] y (d - c)))^T.
Proof.
by move=> lt_d; rewrite /pb_dotU_x dotU_refines //; apply: eq_bigr => c _; rewrite nth_trU.
Qed.

(* coefficient d of Ybar = X^T . Zbar  is  sum_{c <= d} (X_c)^T Zbar_{d-c} *)
Theorem pb_dotU_y_refines n m k (x zbar : seq (mx K)) d : (d < size x)%N ->
  mx_of m k (nth [::] (pb_dotU_y n m k x zbar) d) =
  \sum_(c < d.+1) (mx_of n m (nth [::] x c))^T *m mx_of n k (nth [::] zbar (d - c)).
Proof.
move=> lt_d; rewrite /pb_dotU_y dotU_refines ?size_map //.
by apply: eq_bigr => c _; rewrite nth_trU.
Qed.

(* coefficient d of Abar = - Y^T . (Ybar . Y^T)  is  - sum_{c <= d} (Y_c)^T sum_{e <= d-c} Ybar_e (Y_{d-c-e})^T *)
Theorem pb_invU_refines n (ybar y : seq (mx K)) d : (d < size y)%N -> (d < size ybar)%N ->
  mx_of n n (nth [::] (pb_invU n ybar y) d) =
  - \sum_(c < d.+1) (mx_of n n (nth [::] y c))^T *m
       \sum_(e < (d - c).+1) mx_of n n (nth [::] ybar e) *m (mx_of n n (nth [::] y (d - c - e)))^T.
Proof.
move=> lt_y lt_yb; rewrite /pb_invU /negU (nth_map [::]); last first.
  by rewrite /dotU /cauchyK size_mkseq size_map.
rewrite mx_of_mneg dotU_refines ?size_map //; congr (- _); apply: eq_bigr => c _.
rewrite nth_trU dotU_refines; last by apply: leq_ltn_trans lt_yb; exact: leq_subr.
by congr (_ *m _); apply: eq_bigr => e _; rewrite nth_trU.
Qed.
End ExecRefine.
