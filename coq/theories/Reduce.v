(* MODEL of the index maps of the reductions and replications of AlgoPy and of their reverse rules:
     UTPM.sum(axis) / x.sum()      utpm.py  (numpy.sum over axis+2 of data)          pb_sum   : xbar += ybar broadcast back
     UTPM.tile(A, reps)            utpm.py  (numpy.tile of every coefficient slice)  pb_tile  : Abar += every tile of Bbar
     UTPM.diag(x) (2-D -> 1-D, k=0; 1-D -> 2-D)  algorithms._diag / _diag_pullback   pb_diag  : xbar += diag(ybar)
     UTPM.reshape                  pb_reshape : xbar += reshape(ybar, x.shape)
   Every one of them is, on each coefficient slice (d, p), either a GATHER  y_k = x_(idx k)  (tile, diag, reshape, getitem, transpose,
   broadcasting) or the transposed map, a SCATTER-ADD  y_j = sum_(k : idx k = j) x_k  (sum over an axis, sum of everything, and the
   reverse rule of every gather).  The reverse rule of a scatter-add is the gather with the same index list.
   The index lists are computed here from shapes alone (row-major arithmetic of Array.v); the harness evaluates them with vm_compute and
   compares both the forward results (C13) and the adjoints returned by UTPM.pb_* (C03) with the implementation. *)
From mathcomp Require Import all_ssreflect all_algebra.
From AlgoV Require Import Sums Series Array.
Set Implicit Arguments. Unset Strict Implicit. Unset Printing Implicit Defensive.
Import GRing.Theory.
Local Open Scope ring_scope.

(* ---------- index lists ---------- *)
Definition drop_nth (T : Type) (a : nat) (s : seq T) : seq T := take a s ++ drop a.+1 s.

(* sum over axis a of an array of shape s: input element j contributes to output element (sum_axis_idx s a)_j *)
Definition sum_axis_idx (s : shape) (a : nat) : seq nat :=
  [seq ravel (drop_nth a s) (drop_nth a (unravel s j)) | j <- iota 0 (nelem s)].
(* sum of all elements: everything contributes to output element 0 *)
Definition sum_all_idx (s : shape) : seq nat := nseq (nelem s) 0%N.

(* numpy.tile(A, reps) with A.shape = s and reps padded to the same rank: out.shape = s * reps, out[i] = A[i mod s] *)
Definition tile_shape (s reps : shape) : shape := [seq p.1 * p.2 | p <- zip s reps]%N.
Definition tile_idx (s reps : shape) : seq nat :=
  let o := tile_shape s reps in
  [seq ravel s [seq (p.1 %% p.2)%N | p <- zip (unravel o j) s] | j <- iota 0 (nelem o)].

(* numpy.diag of an n x n matrix (k = 0): y_k = x_(k, k) *)
Definition diag_idx (n : nat) : seq nat := [seq (k * n.+1)%N | k <- iota 0 n].

(* ---------- the two maps ---------- *)
Section Maps.
Variable V : zmodType.
Definition gatherV (idx : seq nat) (x : seq V) : seq V := [seq nth 0 x o | o <- idx].
(* out = zeros(n); for k: out[idx k] += vals[k] *)
Definition scatter_add (idx : seq nat) (vals : seq V) (n : nat) : seq V :=
  foldl (fun acc (ov : nat * V) => set_nth 0 acc ov.1 (nth 0 acc ov.1 + ov.2)) (nseq n 0) (zip idx vals).
End Maps.

Section Pairing.
Variable R : comRingType.
Definition dotp (x y : seq R) : R := \sum_(i < size x) x`_i * y`_i.

(* the forward maps and the reverse rules, per coefficient slice *)
Definition sum_axis_fwd (s : shape) (a : nat) (x : seq R) : seq R := scatter_add (sum_axis_idx s a) x (nelem (drop_nth a s)).
Definition pb_sum_axis (s : shape) (a : nat) (ybar : seq R) : seq R := gatherV (sum_axis_idx s a) ybar.
Definition sum_all_fwd (s : shape) (x : seq R) : seq R := scatter_add (sum_all_idx s) x 1.
Definition pb_sum_all (s : shape) (ybar : seq R) : seq R := gatherV (sum_all_idx s) ybar.
Definition tile_fwd (s reps : shape) (x : seq R) : seq R := gatherV (tile_idx s reps) x.
Definition pb_tile (s reps : shape) (bbar : seq R) : seq R := scatter_add (tile_idx s reps) bbar (nelem s).
Definition diag_fwd (n : nat) (x : seq R) : seq R := gatherV (diag_idx n) x.
Definition pb_diag (n : nat) (ybar : seq R) : seq R := scatter_add (diag_idx n) ybar (n * n).
End Pairing.
