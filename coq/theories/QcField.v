(* Qc (stdlib canonical rationals, binary representation) as a mathcomp fieldType.
   This is the *executable carrier*: every model in this development is polymorphic in a
   fieldType K; instantiating K := Qc_fieldType lets vm_compute run the very same terms the
   theorems are about. *)
From Coq Require Import ZArith QArith Qcanon.
From mathcomp Require Import all_ssreflect all_algebra.
From mathcomp Require Import ssrZ.
From Coq Require Import Lia.
Set Implicit Arguments. Unset Strict Implicit. Unset Printing Implicit Defensive.
Import GRing.Theory.

Lemma QcP : Equality.axiom Qc_eq_bool.
Proof.
move=> x y; apply: (iffP idP) => [/Qc_eq_bool_correct //|->].
by rewrite /Qc_eq_bool; case: Qc_eq_dec.
Qed.
Canonical Qc_eqType := EqType Qc (EqMixin QcP).

Definition Qc_enc (q : Qc) : Z * Z := (Qnum q, Zpos (Qden q)).
Definition Qc_dec (p : Z * Z) : option Qc :=
  match p.2 with Zpos d => Some (Q2Qc (Qmake p.1 d)) | _ => None end.
Lemma Qc_encK : pcancel Qc_enc Qc_dec.
Proof.
case=> [[n d] H]; rewrite /Qc_enc /Qc_dec /=; congr Some.
by apply: Qc_is_canon => /=; exact: Qred_correct.
Qed.
Canonical Qc_choiceType := ChoiceType Qc (PcanChoiceMixin Qc_encK).

Definition Qc_zmodMixin := ZmodMixin Qcplus_assoc Qcplus_comm Qcplus_0_l
  (fun x => etrans (Qcplus_comm _ _) (Qcplus_opp_r x)).
Canonical Qc_zmodType := ZmodType Qc Qc_zmodMixin.
Lemma Qc_1neq0 : (1%Qc != 0%Qc). Proof. by []. Qed.
Definition Qc_ringMixin :=
  ComRingMixin Qcmult_assoc Qcmult_comm Qcmult_1_l Qcmult_plus_distr_l Qc_1neq0.
Canonical Qc_ringType := RingType Qc Qc_ringMixin.
Canonical Qc_comRingType := ComRingType Qc Qcmult_comm.
Lemma Qc_mulVx : forall x : Qc, x != 0%Qc -> (Qcinv x * x)%Qc = 1%Qc.
Proof. by move=> x /eqP H; rewrite Qcmult_comm; exact: Qcmult_inv_r. Qed.
Lemma Qc_inv0 : Qcinv 0%Qc = 0%Qc. Proof. by apply: Qc_is_canon. Qed.
Definition Qc_unitRingMixin := FieldUnitMixin Qc_mulVx Qc_inv0.
Canonical Qc_unitRingType := UnitRingType Qc Qc_unitRingMixin.
Canonical Qc_comUnitRingType := [comUnitRingType of Qc].
Lemma Qc_field_axiom : GRing.Field.mixin_of Qc_unitRingType. Proof. by []. Qed.
Definition Qc_idomainMixin := FieldIdomainMixin Qc_field_axiom.
Canonical Qc_idomainType := IdomainType Qc Qc_idomainMixin.
Canonical Qc_fieldType := FieldType Qc Qc_field_axiom.

(* literals and comparison helpers used by generated case files *)
Definition qz (n : Z) (d : positive) : Qc := Q2Qc (Qmake n d).
Definition Qc_leb (x y : Qc) : bool := Qle_bool (this x) (this y).
Definition Qc_abs (x : Qc) : Qc := if Qc_leb 0%Qc x then x else Qcopp x.
(* |a-b| <= tol * (1 + |b|) *)
Definition Qc_close (tol a b : Qc) : bool :=
  Qc_leb (Qc_abs (Qcminus a b)) (Qcmult tol (Qcplus 1%Qc (Qc_abs b))).
Fixpoint Qc_allclose (tol : Qc) (a b : seq Qc) : bool :=
  match a, b with
  | [::], [::] => true
  | x :: a', y :: b' => Qc_close tol x y && Qc_allclose tol a' b'
  | _, _ => false
  end.

(* characteristic zero: n.+1 != 0 in Qc *)

(* characteristic zero *)
Local Open Scope ring_scope.
Lemma Qc_natr n : (n%:R : Qc) = Q2Qc (inject_Z (Z.of_nat n)).
Proof.
elim: n => [|n IH]; first by apply: Qc_is_canon.
rewrite -addn1 natrD IH.
change (Q2Qc (Qred (inject_Z (Z.of_nat n)) + Qred 1) = Q2Qc (inject_Z (Z.of_nat (n + 1)))).
apply/Q2Qc_eq_iff; rewrite !Qred_correct /Qeq /Qplus /inject_Z.
rewrite [Qnum _]/= [Qden _]/= Nat2Z.inj_add. 
cbn [Qnum Qden]. change (Z.of_nat 1) with (Zpos xH). lia.
Qed.

Lemma Qc_char0 n : (n.+1%:R : Qc) != 0.
Proof.
rewrite Qc_natr; apply/eqP; change (0 : Qc) with (Q2Qc 0) => /Q2Qc_eq_iff.
rewrite /Qeq /inject_Z; cbn [Qnum Qden]. rewrite Nat2Z.inj_succ; move: (Zle_0_nat n); lia.
Qed.
