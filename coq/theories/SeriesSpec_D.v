From mathcomp Require Import all_ssreflect all_algebra.
From AlgoV Require Import Sums Series SeriesBase SeriesSpec.
Set Implicit Arguments. Unset Strict Implicit. Unset Printing Implicit Defensive.
Import GRing.Theory.
Local Open Scope ring_scope.
Local Arguments mkseq : simpl never.

Section Stmts.
Variable K : fieldType.
Hypothesis char0 : forall n, (n.+1)%:R != 0 :> K.
Implicit Types (F G S C Z : {poly K}) (xs ys : seq K).

(* ---------------- helpers ---------------- *)
Lemma comp1 (u : {poly K}) : (1 : {poly K}) \Po u = 1.
Proof. by rewrite -polyC1 comp_polyC. Qed.

Lemma comp_polyN (p u : {poly K}) : (- p) \Po u = - (p \Po u).
Proof. by rewrite -[- p]sub0r comp_polyB comp_poly0 sub0r. Qed.

Lemma comp_polyXn (u : {poly K}) i : 'X^i \Po u = u ^+ i.
Proof. by elim: i => [|i IH]; rewrite ?expr0 ?comp1 // !exprS comp_polyM comp_polyX IH. Qed.

(* (P Q)_i = 1_i for i <= d  gives  ((P o u) x' (Q o u))_d = x'_d *)
Lemma comp_rel (P Q u x' : {poly K}) d : u`_0 = 0 ->
  (forall i, (i <= d)%N -> (P * Q)`_i = (1 : {poly K})`_i) ->
  ((P \Po u) * x' * (Q \Po u))`_d = x'`_d.
Proof.
move=> u0 H; rewrite mulrAC -comp_polyM.
transitivity ((((1 : {poly K}) \Po u) * x')`_d); last by rewrite comp1 mul1r.
apply: coefM_low => // i le_i.
apply: coef_comp_low => // j le_j; apply: H; exact: leq_trans le_j le_i.
Qed.

(* one step of the y-recurrence shared by arcsin/arccos/arctan *)
Lemma asin_stepP (Y W : {poly K}) xs (yf zf : nat -> K) d : zf 0%N != 0 ->
  (Y^`() * W)`_d = (Poly xs)^`()`_d ->
  (forall i, (i <= d)%N -> Y`_i = yf i) -> (forall i, (i <= d)%N -> W`_i = zf i) ->
  Y`_d.+1 = asin_step xs (mkseq yf d.+1) (mkseq zf d.+1).
Proof.
move=> z0 HYW HY HW.
rewrite /asin_step size_mkseq sum1E [d.+1.-1]/= [(mkseq zf _)`_0]nth_mkseq //.
have nz : zf 0%N * d.+1%:R != 0 by rewrite mulf_neq0 ?char0.
apply: (mulIf nz); rewrite divfK //.
apply/eqP; rewrite eq_sym subr_eq; apply/eqP.
have H : (Y^`() * W)`_d = Y`_d.+1 * (zf 0%N * d.+1%:R) + \sum_(i < d) Y^`()`_i * W`_(d - i).
  rewrite coefM big_ord_recr /= subnn coef_deriv HW // addrC; congr (_ + _).
  by rewrite -mulr_natr -mulrA [_%:R * _]mulrC.
rewrite mulr_natl -(coef_Poly xs) -coef_deriv -HYW H; congr (_ + _).
apply: eq_bigr => i _; rewrite coef_deriv subSS !nth_mkseq ?ltnS ?leq_subr //.
by rewrite -HY // -HW ?leq_subr // mulr_natl.
Qed.

(* ---------------- arcsin / arccos ---------------- *)
Theorem arcsinS_spec F G xs : G`_0 != 0 ->
  (forall d, (d.+1 < size xs)%N -> (F^`() * G)`_d = (1 : {poly K})`_d) ->
  (forall d, (d.+1 < size xs)%N -> G^`()`_d = (- (((xs`_0)%:P + 'X) * F^`()))`_d) ->
  forall d, (d < size xs)%N ->
  (F \Po shift0 (Poly xs))`_d = (arcsinS xs F`_0 G`_0).1`_d /\
  (G \Po shift0 (Poly xs))`_d = (arcsinS xs F`_0 G`_0).2`_d.
Proof.
move=> G0 HFG HG d lt_d; rewrite /arcsinS.
have [-> ->] := series2_nth (asin_step xs) (asinz_step xs) F`_0 G`_0 lt_d.
set x := Poly xs; set u := shift0 x; have u0 : u`_0 = 0 by exact: shift0_0.
set yf := ucoefy _ _ _ _; set zf := ucoefz _ _ _ _.
elim/ltn_ind: d lt_d => -[_ _|d IH lt_d]; first by rewrite !coef0_comp.
have lt_i i : (i <= d)%N -> (i.+1 < size xs)%N by move=> le_i; apply: leq_ltn_trans lt_d.
have IHy i : (i <= d)%N -> (F \Po u)`_i = yf i.
  by move=> le_i; have [] := IH i le_i (ltnW (lt_i _ le_i)).
have IHz i : (i <= d)%N -> (G \Po u)`_i = zf i.
  by move=> le_i; have [] := IH i le_i (ltnW (lt_i _ le_i)).
have Hy : (F \Po u)`_d.+1 = yf d.+1.
  rewrite /yf ucoefyS -/yf -/zf; apply: (@asin_stepP (F \Po u) (G \Po u)) => //.
  rewrite deriv_comp deriv_shift0; apply: comp_rel => // i le_i; apply: HFG; exact: lt_i.
split=> //.
have Hyall j : (j <= d.+1)%N -> (F \Po u)`_j = yf j.
  by rewrite leq_eqVlt => /orP[/eqP->|] //; rewrite ltnS; apply: IHy.
rewrite /zf ucoefzS -/yf -/zf /asinz_step size_mkseq sum1E.
apply: (mulIf (char0 d)); rewrite divfK ?char0 //.
rewrite mulr_natr -coef_deriv deriv_comp deriv_shift0.
have -> : ((G^`() \Po u) * x^`())`_d = (- (x * (F \Po u)^`()))`_d.
  rewrite deriv_comp deriv_shift0 mulrA -mulNr; apply: coefM_low => // i le_i.
  have -> : - (x * (F^`() \Po u)) = (- (((xs`_0)%:P + 'X) * F^`())) \Po u.
    by rewrite comp_polyN comp_polyM -[xs`_0](coef_Poly xs) comp_shift0.
  apply: coef_comp_low => // j le_j; apply: HG; apply: lt_i; exact: leq_trans le_j le_i.
rewrite coefN coefMr; congr (- _); apply: eq_bigr => i _.
have lt_i1 : (i < d.+1)%N by [].
rewrite coef_Poly coef_deriv subSS nth_mkseq ?ltnS // Hyall ?ltnS //.
by rewrite mulr_natl mulrC.
Qed.

(* ---------------- arctan ---------------- *)
Lemma atan_z xs (y0 : K) d :
  (1 + Poly xs ^+ 2)`_d = ucoefz (asin_step xs) (atanz_step xs) y0 (1 + xs`_0 * xs`_0) d.
Proof.
case: d => [|d].
  by rewrite [RHS]/= coefD coef1 expr2 coefM big_ord1 !coef_Poly.
rewrite ucoefzS /atanz_step size_mkseq sum1E.
apply: (mulIf (char0 d)); rewrite divfK ?char0 //.
rewrite mulr_natr -coef_deriv derivD -polyC1 derivC add0r expr2 derivM coefD.
rewrite mulr_natl mulr2n; congr (_ + _).
  rewrite coefM; apply: eq_bigr => i _.
  by rewrite coef_deriv !coef_Poly subSS mulr_natl.
rewrite coefMr; apply: eq_bigr => i _.
by rewrite coef_deriv !coef_Poly subSS mulr_natl mulrC.
Qed.

Theorem arctanS_spec F xs : 1 + xs`_0 * xs`_0 != 0 ->
  (forall d, (d.+1 < size xs)%N -> ((1 + ((xs`_0)%:P + 'X) ^+ 2) * F^`())`_d = (1 : {poly K})`_d) ->
  forall d, (d < size xs)%N ->
  (F \Po shift0 (Poly xs))`_d = (arctanS xs F`_0).1`_d /\
  (1 + Poly xs ^+ 2)`_d = (arctanS xs F`_0).2`_d.
Proof.
move=> nz0 HF d lt_d; rewrite /arctanS.
have [-> ->] := series2_nth (asin_step xs) (atanz_step xs) F`_0 (1 + xs`_0 * xs`_0) lt_d.
split; last exact: atan_z.
set x := Poly xs; set u := shift0 x; have u0 : u`_0 = 0 by exact: shift0_0.
set yf := ucoefy _ _ _ _.
elim/ltn_ind: d lt_d => -[_ _|d IH lt_d]; first by rewrite !coef0_comp.
have lt_i i : (i <= d)%N -> (i.+1 < size xs)%N by move=> le_i; apply: leq_ltn_trans lt_d.
rewrite /yf ucoefyS -/yf.
apply: (@asin_stepP (F \Po u) (1 + x ^+ 2)) => //.
- rewrite deriv_comp deriv_shift0.
  have -> : 1 + x ^+ 2 = (1 + ((xs`_0)%:P + 'X) ^+ 2) \Po u.
    by rewrite comp_polyD comp1 !expr2 comp_polyM -[xs`_0](coef_Poly xs) comp_shift0.
  by apply: comp_rel => // i le_i; rewrite mulrC; apply: HF; exact: lt_i.
- by move=> i le_i; apply: IH => //; exact: (ltnW (lt_i _ le_i)).
- by move=> i _; exact: atan_z.
Qed.

(* ---------------- slow generic evaluation ---------------- *)
Lemma coef_comp_trunc (r u : {poly K}) n m : u`_0 = 0 -> (n < m)%N ->
  (r \Po u)`_n = \sum_(i < m) r`_i * (u ^+ i)`_n.
Proof.
move=> u0 lt_nm.
rewrite (@coef_comp_low _ r (\poly_(i < m) r`_i) u n) //; last first.
  by move=> i le_i; rewrite coef_poly (leq_ltn_trans le_i lt_nm).
rewrite poly_def raddf_sum coef_sum; apply: eq_bigr => i _.
by rewrite [X in X`_n]/= comp_polyZ comp_polyXn coefZ.
Qed.

Lemma accum_nextP xs (acc : seq K) d : (0 < d)%N ->
  (forall j, (j < size acc)%N -> acc`_j = (shift0 (Poly xs) ^+ d)`_j.+1) ->
  forall j, (j < size acc)%N -> (accum_next xs acc)`_j = (shift0 (Poly xs) ^+ d.+1)`_j.+1.
Proof.
move=> d0 Hacc j lt_j; rewrite /accum_next nth_mkseq //.
set u := shift0 _; have u0 : u`_0 = 0 by exact: shift0_0.
case: j lt_j => [|j] lt_j; first by rewrite coef_exp_low.
rewrite sumn_fE exprSr coefM [RHS]big_ord_recl coef_exp_low // mul0r add0r.
rewrite [RHS]big_ord_recr [X in _ = _ + X]/= /bump [(0 <= _)%N]/= add1n subnn u0 mulr0 addr0.
apply: eq_bigr => i _.
have le_i : (i <= j)%N by rewrite -ltnS.
rewrite [X in _ = X]/= /bump [(0 <= _)%N]/= add1n subSS Hacc; last first.
  by apply: leq_ltn_trans lt_j; apply: ltnW.
by rewrite subSn // coef_shift0S coef_Poly.
Qed.

Lemma slowgen_loopS xs (derivs : seq K) d n acc ytail :
  slowgen_loop xs derivs d n.+1 acc ytail =
  let acc' := if d == 1%N then acc else accum_next xs acc in
  slowgen_loop xs derivs d.+1 n acc'
    (mkseq (fun i => ytail`_i + derivs`_d * acc'`_i / (d`!)%:R) (size ytail)).
Proof. by []. Qed.

Lemma slowgen_loopP xs (derivs : seq K) n : forall d acc ytail, (0 < d)%N ->
  size ytail = size acc ->
  (forall j, (j < size acc)%N ->
     (if d == 1%N then acc else accum_next xs acc)`_j = (shift0 (Poly xs) ^+ d)`_j.+1) ->
  forall i, (i < size acc)%N ->
  (slowgen_loop xs derivs d n acc ytail)`_i =
  ytail`_i + \sum_(k < n) derivs`_(d + k) / ((d + k)`!)%:R * (shift0 (Poly xs) ^+ (d + k))`_i.+1.
Proof.
elim: n => [|n IH] d acc ytail d0 sz Hacc i lt_i.
  by rewrite big_ord0 addr0.
rewrite slowgen_loopS.
set acc' := if d == 1%N then acc else accum_next xs acc.
have sz' : size acc' = size acc by rewrite /acc'; case: ifP => // _; rewrite size_mkseq.
rewrite [LHS]/=.
rewrite IH //.
- rewrite nth_mkseq ?sz // big_ord_recl addn0 -addrA; congr (_ + (_ + _)).
    by rewrite Hacc // mulrAC.
  by apply: eq_bigr => k _; rewrite /= /bump /= add1n addSnnS.
- by rewrite size_mkseq sz'.
- move=> j; rewrite sz' => lt_j.
  have dn0 : d != 0%N by rewrite -lt0n.
  by rewrite eqSS (negbTE dn0); apply: accum_nextP; rewrite ?sz'.
- by rewrite sz'.
Qed.

Lemma slowgenS_cons x0 xt (derivs : seq K) i :
  (slowgenS (x0 :: xt) derivs)`_i.+1 =
  (slowgen_loop (x0 :: xt) derivs 1 (size xt) xt (nseq (size xt) 0))`_i.
Proof. by []. Qed.

Theorem slowgenS_spec F xs (derivs : seq K) :
  (forall k, (k < size xs)%N -> F`_k = derivs`_k / (k`!)%:R) ->
  forall d, (d < size xs)%N -> (F \Po shift0 (Poly xs))`_d = (slowgenS xs derivs)`_d.
Proof.
move=> HF d lt_d.
set u := shift0 (Poly xs); have u0 : u`_0 = 0 by exact: shift0_0.
case: d lt_d => [|i] lt_d.
  by rewrite coef0_comp // HF // fact0 divr1; case: xs lt_d {HF u u0}.
have [x0 [xt E]] : exists x0 xt, xs = x0 :: xt.
  by case: xs lt_d {HF u u0} => // a l _; exists a, l.
have lt_i : (i < size xt)%N by move: lt_d; rewrite E.
have szE : size xs = (size xt).+1 by rewrite E.
rewrite [in RHS]E slowgenS_cons -E slowgen_loopP //; first last.
- move=> j lt_j; rewrite eqxx expr1 coef_shift0S coef_Poly.
  by rewrite [in RHS]E.
- by rewrite size_nseq.
rewrite nth_nseq lt_i add0r (@coef_comp_trunc F u i.+1 (size xt).+1) //.
rewrite big_ord_recl expr0 coef1 mulr0 add0r; apply: eq_bigr => k _.
by rewrite /= /bump /= !add1n HF // szE ltnS.
Qed.

(* ---------------- ODE solver ---------------- *)
Section Ode.
Variables (a b c u : seq K) (v0 : K).

Definition ode_vtc k : K := (ode_loop a b c u k v0).1.1`_k.
Definition ode_vc k : K := (ode_loop a b c u k v0).1.2`_k.
Definition ode_ec k : K := (ode_loop a b c u k v0).2`_k.

Lemma ode_loopS n : ode_loop a b c u n.+1 v0 =
  let p := ode_loop a b c u n v0 in
  let vt := ode_vstep b c u p.1.1 p.2 in
  let vs' := rcons p.1.2 (vt / n.+1%:R) in
  (rcons p.1.1 vt, vs', rcons p.2 (ode_estep a vs')).
Proof. by rewrite [LHS]/=; case: (ode_loop a b c u n v0) => [[vts vs] es]. Qed.

Lemma size_ode_loop n :
  [/\ size (ode_loop a b c u n v0).1.1 = n.+1,
      size (ode_loop a b c u n v0).1.2 = n.+1 &
      size (ode_loop a b c u n v0).2 = n.+1].
Proof.
elim: n => [|n [s1 s2 s3]] //.
by rewrite ode_loopS; split; rewrite [size _]/= size_rcons ?s1 ?s2 ?s3.
Qed.

Lemma nth_ode_loop n k : (k <= n)%N ->
  [/\ (ode_loop a b c u n v0).1.1`_k = ode_vtc k,
      (ode_loop a b c u n v0).1.2`_k = ode_vc k &
      (ode_loop a b c u n v0).2`_k = ode_ec k].
Proof.
elim: n => [|n IH]; first by rewrite leqn0 => /eqP->.
rewrite leq_eqVlt => /orP[/eqP-> //|]; rewrite ltnS => le_kn.
have [s1 s2 s3] := size_ode_loop n.
have [I1 I2 I3] := IH le_kn.
by rewrite ode_loopS; split; rewrite [nth _ _ _]/= nth_rcons ?s1 ?s2 ?s3 ltnS le_kn.
Qed.

Lemma ode_loop_mkseq n :
  ode_loop a b c u n v0 = (mkseq ode_vtc n.+1, mkseq ode_vc n.+1, mkseq ode_ec n.+1).
Proof.
have [s1 s2 s3] := size_ode_loop n.
rewrite [LHS]surjective_pairing [(ode_loop a b c u n v0).1]surjective_pairing.
congr (_, _, _); apply: (@eq_from_nth _ 0); rewrite ?s1 ?s2 ?s3 ?size_mkseq // => i;
  rewrite ltnS => le_i; rewrite nth_mkseq //; by have [] := nth_ode_loop le_i.
Qed.

Lemma ode_vc0 : ode_vc 0 = v0. Proof. by []. Qed.

Lemma ode_vtcS k : ode_vtc k.+1 = ode_vstep b c u (mkseq ode_vtc k.+1) (mkseq ode_ec k.+1).
Proof.
rewrite {1}/ode_vtc ode_loopS [nth _ _ _]/= ode_loop_mkseq [(_, _, _).1.1]/= [(_, _, _).2]/=.
by rewrite nth_rcons size_mkseq ltnn eqxx.
Qed.

Lemma ode_vcS k : ode_vc k.+1 = ode_vtc k.+1 / k.+1%:R.
Proof.
rewrite ode_vtcS {1}/ode_vc ode_loopS [nth _ _ _]/= ode_loop_mkseq.
rewrite [(_, _, _).1.1]/= [(_, _, _).1.2]/= [(_, _, _).2]/=.
by rewrite nth_rcons size_mkseq ltnn eqxx.
Qed.

Lemma ode_ecE k : ode_ec k = ode_estep a (mkseq ode_vc k.+1).
Proof.
case: k => [|k]; first by [].
rewrite {1}/ode_ec ode_loopS [nth _ _ _]/= ode_loop_mkseq.
rewrite [(_, _, _).1.1]/= [(_, _, _).1.2]/= [(_, _, _).2]/=.
rewrite nth_rcons size_mkseq ltnn eqxx; congr (ode_estep a _).
by rewrite [RHS]mkseqS ode_vcS ode_vtcS.
Qed.

End Ode.

Lemma ode_eqn (a b c u : seq K) (v0 : K) D d : b`_0 != 0 -> (d.+1 < D)%N ->
  let V := Poly (mkseq (ode_vc a b c u v0) D) in
  (Poly b * V^`() - Poly a * V * (Poly u)^`())`_d = (Poly c * (Poly u)^`())`_d.
Proof.
move=> b0 lt_d V.
set vt := ode_vtc a b c u v0; set vc := ode_vc a b c u v0; set ec := ode_ec a b c u v0.
have HV i : (i <= d.+1)%N -> V`_i = vc i.
  by move=> le_i; rewrite coef_Poly nth_mkseq // (leq_ltn_trans le_i).
have HV' j : (j <= d)%N -> V^`()`_j = vt j.+1.
  move=> le_j; rewrite coef_deriv HV // /vc ode_vcS -/vt.
  by rewrite -mulr_natr divfK ?char0.
have HAV m : (m <= d)%N -> (Poly a * V)`_m = ec m.
  move=> le_m; rewrite /ec ode_ecE -/vc /ode_estep size_mkseq [m.+1.-1]/= sumn_fE coefM.
  apply: eq_bigr => i _; rewrite coef_Poly HV ?nth_mkseq ?ltnS ?leq_subr //.
  by apply: leq_trans (leq_subr _ _) _; apply: leq_trans le_m _.
pose S1 := \sum_(j < d.+1) (c`_(d - j) + ec (d - j)%N) * (u`_j.+1 * j.+1%:R).
have HBV : (Poly b * V^`())`_d = S1.
  rewrite coefMr big_ord_recr /= subnn coef_Poly HV' // /vt ode_vtcS -/vt -/ec.
  rewrite /ode_vstep size_mkseq [d.+1.-1]/= !sum1E mulrC divfK //.
  rewrite addrC -addrA [X in _ + X]addrC -/S1.
  set T1 := \sum_(i < d.+1) _; set T2 := \sum_(i < d) _; set T3 := \sum_(i < d) _.
  have -> : T1 = S1.
    apply: eq_bigr => j _; rewrite subSS nth_mkseq // ltnS leq_subr //.
  suff -> : T3 = T2 by rewrite subrr addr0.
  apply: eq_bigr => j _; have lt_j := ltn_ord j.
  by rewrite subSS coef_Poly HV' ?nth_mkseq // ltnW.
rewrite coefB HBV; apply/eqP; rewrite subr_eq !coefMr -big_split; apply/eqP.
apply: eq_bigr => j _; rewrite [RHS]/= -mulrDl coef_Poly HAV ?leq_subr //.
by rewrite coef_deriv coef_Poly mulr_natr.
Qed.

(* _taylor_polynomials_of_ode_solutions: the result v solves  b v' - a v u' = c u'  modulo t^(D-1) *)
Theorem odeS_spec (a b c u : seq K) (v0 : K) : b`_0 != 0 -> size a = size u -> size b = size u -> size c = size u ->
  let v := odeS a b c u v0 in
  v`_0 = v0 /\ size v = size u /\
  forall d, (d.+1 < size u)%N ->
  (Poly b * (Poly v)^`() - Poly a * Poly v * (Poly u)^`())`_d = (Poly c * (Poly u)^`())`_d.
Proof.
move=> b0 _ sb _.
case: u sb => [|u0 ut] sb; first by move: b0; rewrite (size0nil sb) /= eqxx.
set u := u0 :: ut.
have -> : odeS a b c u v0 = mkseq (ode_vc a b c u v0) (size u).
  by rewrite /odeS [(size u).-1]/= ode_loop_mkseq.
move=> v; rewrite /v; split; first by rewrite nth_mkseq ?ode_vc0.
split; first by rewrite size_mkseq.
by move=> d lt_d; apply: ode_eqn.
Qed.

End Stmts.
