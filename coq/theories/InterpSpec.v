(* PROOFS about Interp.v: the multi-index enumeration is complete and duplicate free for all N>=1, d;
   the interpolation identity for a stated finite range by reflection over Qc. *)
From Coq Require Import ZArith QArith Qcanon.
From mathcomp Require Import all_ssreflect all_algebra.
From AlgoV Require Import QcField Sums Interp.
Set Implicit Arguments. Unset Strict Implicit. Unset Printing Implicit Defensive.
Local Close Scope Q_scope. Local Close Scope Qc_scope. Local Open Scope nat_scope.

Lemma gen_miS N d : gen_mi N.+2 d =
  flatten [seq [seq a :: t | t <- gen_mi N.+1 (d - a)] | a <- rev (iota 0 d.+1)].
Proof. by []. Qed.

Theorem gen_mi_complete N d (s : seq nat) :
  (s \in gen_mi N.+1 d) = (size s == N.+1) && (sumn s == d).
Proof.
elim: N d s => [|N IH] d s.
  rewrite /= inE; case: s => [|a [|b s]] //=; last by rewrite eqseq_cons andbF.
  by rewrite addn0 eqseq_cons eqxx andbT.
rewrite gen_miS; apply/flatten_mapP/idP => [[a]|].
  rewrite mem_rev mem_iota /= add0n ltnS => le_ad /mapP[t]; rewrite IH => /andP[/eqP szt /eqP smt] ->.
  by rewrite /= szt smt subnKC // !eqxx.
case: s => [|a t] //; rewrite [size _]/= [sumn _]/= eqSS => /andP[szt /eqP smt].
have le_ad : a <= d by rewrite -smt leq_addr.
exists a; first by rewrite mem_rev mem_iota /= add0n ltnS.
by apply/mapP; exists t => //; rewrite IH szt -smt addKn eqxx.
Qed.

Theorem gen_mi_uniq N d : uniq (gen_mi N d).
Proof.
case: N => [|N] //; elim: N d => [|N IH] d //.
rewrite gen_miS.
apply: allpairs_uniq_dep => [|a _|].
- by rewrite rev_uniq iota_uniq.
- exact: IH.
- by move=> [a t] [b u] _ _ /= [-> ->].
Qed.

(* number of multi-indices: every list of length N.+1 with sum d appears exactly once *)
Corollary gen_mi_count N d (s : seq nat) :
  size s = N.+1 -> sumn s = d -> count_mem s (gen_mi N.+1 d) = 1%N.
Proof.
move=> szs sms; rewrite count_uniq_mem ?gen_mi_uniq // gen_mi_complete.
by rewrite szs sms !eqxx.
Qed.

(* increment never changes the length (so the loop compares like with like) *)
Lemma size_incr_rev i k c : size (incr_rev i k c) = size k.
Proof.
elim: i k c => [|a i IH] [|b k] c //=.
case: ifP => _ /=; first by rewrite IH.
by case: ifP => _ //; rewrite IH.
Qed.
Lemma size_increment i k : size (increment i k) = size k.
Proof. by rewrite /increment size_rev size_incr_rev size_rev. Qed.


(* bounded interpolation identity, by reflection in Qc.  The bound is part of the statement. *)
Definition Gamma_ok_upto (Nmax dmax : nat) : bool :=
  all (fun N => all (fun d => Gamma_identity Qc_fieldType N.+1 d.+1) (iota 0 dmax)) (iota 0 Nmax).

Lemma Gamma_ok_4_5 : Gamma_ok_upto 4 5 = true.
Proof. by vm_compute. Qed.

Opaque Gamma_identity.
Theorem Gamma_identity_bounded N d : (0 < N <= 4) -> (0 < d <= 5) ->
  Gamma_identity Qc_fieldType N d = true.
Proof.
move=> /andP[N0 N4] /andP[d0 d5].
have := Gamma_ok_4_5; rewrite /Gamma_ok_upto => /allP H.
have HN : N.-1 \in iota 0 4 by rewrite mem_iota add0n prednK.
have /allP H2 := H _ HN.
have Hd : d.-1 \in iota 0 5 by rewrite mem_iota add0n prednK.
by move: (H2 _ Hd); rewrite !prednK.
Qed.
Transparent Gamma_identity.
