(* Small corollaries: (1) C04 for the executable tracer instance: gradient / vector-Jacobian drivers at every Taylor order;
   (2) C13: x.T.T = x for every rank (reversal of the axes is its own inverse), and transposing by any permutation is a bijection on
   the flat data (no element lost or duplicated). *)
From mathcomp Require Import all_ssreflect all_algebra.
From AlgoV Require Import Sums Series Array ArraySpec Conv ConvSpec TransposeSpec Tracer TracerInst TracerExec TracerRefine.
Set Implicit Arguments. Unset Strict Implicit. Unset Printing Implicit Defensive.
Import GRing.Theory.
Local Open Scope ring_scope.

Section ExecDrivers.
Variable K : fieldType.
Variable D : nat.
Implicit Types (t : tape (seq K)) (xs dxs : seq (seq K)).

Lemma Poly_constS1 : (0 < D)%N -> Poly (constS (1 : K) D) = 1.
Proof.
move=> D_gt0; apply/polyP => d; rewrite coef_Poly coef1 /constS.
case: (ltnP d D) => lt_d; first by rewrite nth_mkseq //; case: eqP.
rewrite nth_default ?size_mkseq //; case: d lt_d => [|d] //.
by rewrite leqNgt D_gt0.
Qed.

(* gradient / one Jacobian row of the executable instance: seeding output o with the constant series 1 gives g with
   sum_i g_i dx_i = tangent of o, at every Taylor order d < D *)
Theorem X_gradient_spec t o xs dxs :
  all (@node_ok K D) t -> sized D xs -> sized D dxs ->
  wf_tape (size xs) t -> size dxs = size xs -> (o < size t)%N && is_scal t o ->
  forall d, (d < D)%N ->
  (\sum_(i < size xs) Poly (nth [::] (X_grad D t [:: o] xs [:: constS 1 D]) i) * Poly (nth [::] dxs i))`_d
  = (nth [::] (X_tangent_out D t [:: o] xs dxs) 0)`_d.
Proof.
move=> Ht Hx Hdx wf sd Ho d lt_d.
have D_gt0 : (0 < D)%N by apply: leq_ltn_trans lt_d.
have Hy : sized D [:: constS (1 : K) D] by rewrite /sized /= /constS size_mkseq eqxx.
have Ho' : all (fun a => (a < size t)%N && is_scal t a) [:: o] by rewrite /= Ho.
have -> := X_adjoint (outs := [:: o]) Ht Hx Hdx Hy wf sd (erefl _) (erefl _) Ho' lt_d.
rewrite [size [:: o]]/= big_ord1 [nth _ [:: _] _]/= Poly_constS1 // mul1r.
by rewrite coef_Poly.
Qed.

(* vector-Jacobian product with arbitrary series seeds *)
Theorem X_vec_jac_spec t outs xs dxs (w : seq (seq K)) :
  all (@node_ok K D) t -> sized D xs -> sized D dxs -> sized D w ->
  wf_tape (size xs) t -> size dxs = size xs -> size w = size outs -> uniq outs ->
  all (fun a => (a < size t)%N && is_scal t a) outs ->
  forall d, (d < D)%N ->
  (\sum_(i < size xs) Poly (nth [::] (X_grad D t outs xs w) i) * Poly (nth [::] dxs i))`_d
  = (\sum_(j < size outs) Poly (nth [::] w j) * Poly (nth [::] (X_tangent_out D t outs xs dxs) j))`_d.
Proof. exact: X_adjoint. Qed.
End ExecDrivers.

Section Transpose.
Local Close Scope ring_scope.
(* NumPy's x.T: reversal of all axes *)
Definition rev_perm (n : nat) : seq nat := rev (iota 0 n).

Theorem rev_perm_involutive (n : nat) : inv_perm (rev_perm n) = rev_perm n /\ perm_eq (rev_perm n) (iota 0 n).
Proof.
have Hp : perm_eq (rev_perm n) (iota 0 n) by rewrite /rev_perm perm_rev.
split=> //; apply: (@eq_from_nth _ 0); first by rewrite size_inv_perm.
move=> k; rewrite size_inv_perm (pm_size Hp) => lt_k; rewrite (inv_nth Hp) //.
have lt_k' : n - k.+1 < n by rewrite -subSn // subSS leq_subr.
have E : nth 0 (rev_perm n) (n - k.+1) = k.
  rewrite /rev_perm nth_rev size_iota // nth_iota ?add0n; last by rewrite -subSn // subSS leq_subr.
  by rewrite subnSK // subKn // ltnW.
rewrite -{1}E index_uniq ?(pm_size Hp) ?(pm_uniq Hp) //.
by rewrite /rev_perm nth_rev size_iota // nth_iota.
Qed.

(* x.T.T = x for every rank and shape *)
Theorem transposeT_involutive (T : Type) (x0 : T) (s : shape) (data : seq T) : size data = nelem s ->
  let g := transpose_gather (rev_perm (size s)) s in
  apply_gather x0 (transpose_gather (rev_perm (size s)) g.1) (apply_gather x0 g data) = data
  /\ (transpose_gather (rev_perm (size s)) g.1).1 = s.
Proof.
move=> sz g; have [Ei Hp] := rev_perm_involutive (size s).
split.
- by have := transpose_inv_data x0 Hp sz; rewrite Ei.
- by have [] := transpose_inv_id Hp; rewrite Ei.
Qed.

(* a transposition is a bijection on the flat data: its index map is a permutation of 0 .. nelem s - 1 *)
Theorem transpose_gather_perm (perm : seq nat) (s : shape) : perm_eq perm (iota 0 (size s)) ->
  perm_eq (transpose_gather perm s).2 (iota 0 (nelem s)).
Proof.
move=> Hp; set g := transpose_gather perm s.
have ne : nelem [seq nth 0 s a | a <- perm] = nelem s by apply/nelem_perm/tg_shape_perm.
have sz : size g.2 = nelem s by rewrite size_tg2.
have sub : {subset iota 0 (nelem s) <= g.2}.
  move=> j; rewrite mem_iota add0n /= => lt_j.
  have [lt_k <-] := transpose_inv_pt Hp lt_j.
  by apply: mem_nth; rewrite sz -ne.
have le : size g.2 <= size (iota 0 (nelem s)) by rewrite size_iota sz.
have [_ mem] := uniq_min_size (iota_uniq 0 (nelem s)) sub le.
have un : uniq g.2 := leq_size_uniq (iota_uniq 0 (nelem s)) sub le.
by apply: uniq_perm => //; rewrite ?iota_uniq // => a; rewrite mem.
Qed.
End Transpose.

