(* PROOFS, foundations for SeriesSpec: the course-of-values combinators of Series.v as coefficient
   functions (this gives the truncation-independence of C12 for free), and the polynomial-side lemmas
   (low coefficients of compositions, chain rule) used by every per-function theorem. *)
From mathcomp Require Import all_ssreflect all_algebra.
From AlgoV Require Import Sums Series.
Set Implicit Arguments. Unset Strict Implicit. Unset Printing Implicit Defensive.
Import GRing.Theory.
Local Open Scope ring_scope.

Local Arguments mkseq : simpl never.

Section Unfold.
Variable K : fieldType.
Implicit Types (step : seq K -> K).

Lemma size_unfold1 step y0 n : size (unfold1 step y0 n) = n.+1.
Proof. by elim: n => //= n IH; rewrite size_rcons IH. Qed.

Definition ucoef step y0 d : K := nth 0 (unfold1 step y0 d) d.

Lemma nth_unfold1 step y0 n d : (d <= n)%N -> nth 0 (unfold1 step y0 n) d = ucoef step y0 d.
Proof.
elim: n => [|n IH]; first by rewrite leqn0 => /eqP->.
rewrite leq_eqVlt => /orP[/eqP-> //|]; rewrite ltnS => le_dn.
by rewrite /= nth_rcons size_unfold1 ltnS le_dn IH.
Qed.

Lemma unfold1_mkseq step y0 n : unfold1 step y0 n = mkseq (ucoef step y0) n.+1.
Proof.
apply: (@eq_from_nth _ 0); rewrite size_unfold1 ?size_mkseq // => i; rewrite ltnS => le_i.
by rewrite nth_unfold1 // nth_mkseq.
Qed.

Lemma ucoef0 step y0 : ucoef step y0 0 = y0. Proof. by []. Qed.
Lemma ucoefS step y0 d : ucoef step y0 d.+1 = step (mkseq (ucoef step y0) d.+1).
Proof. by rewrite /ucoef /= nth_rcons size_unfold1 ltnn eqxx unfold1_mkseq. Qed.

Lemma take_mkseq (f : nat -> K) n m : (m <= n)%N -> take m (mkseq f n) = mkseq f m.
Proof.
move=> le_mn; apply: (@eq_from_nth _ 0).
  by rewrite size_take !size_mkseq; case: ltngtP le_mn => // ->.
move=> i; rewrite size_take size_mkseq.
have -> : (if (m < n)%N then m else n) = m by case: ltngtP le_mn => // ->.
by move=> lt_i; rewrite nth_take // !nth_mkseq // (leq_trans lt_i).
Qed.

(* truncation: the first m+1 coefficients do not depend on how many are computed *)
Lemma unfold1_take step y0 n m : (m <= n)%N -> take m.+1 (unfold1 step y0 n) = unfold1 step y0 m.
Proof. by move=> le_mn; rewrite !unfold1_mkseq take_mkseq. Qed.

(* steps that agree on the lists they are applied to give the same coefficients *)
Lemma eq_ucoef step1 step2 y0 n :
  (forall d, (d < n)%N -> step1 (mkseq (ucoef step1 y0) d.+1) = step2 (mkseq (ucoef step1 y0) d.+1)) ->
  forall d, (d <= n)%N -> ucoef step1 y0 d = ucoef step2 y0 d.
Proof.
move=> H; elim/ltn_ind => -[|d] IH le_d //.
rewrite !ucoefS H //; congr step2.
apply: (@eq_from_nth _ 0); rewrite !size_mkseq // => i lt_i; rewrite !nth_mkseq //.
by apply: IH => //; apply: leq_trans le_d; apply: ltnW.
Qed.

(* --- two coupled outputs --- *)
Implicit Types (stepy stepz : seq K -> seq K -> K).
Definition ucoefy stepy stepz y0 z0 d : K := nth 0 (unfold2 stepy stepz y0 z0 d).1 d.
Definition ucoefz stepy stepz y0 z0 d : K := nth 0 (unfold2 stepy stepz y0 z0 d).2 d.

Lemma size_unfold2 stepy stepz y0 z0 n :
  size (unfold2 stepy stepz y0 z0 n).1 = n.+1 /\ size (unfold2 stepy stepz y0 z0 n).2 = n.+1.
Proof.
elim: n => //= n; case: (unfold2 _ _ _ _ n) => ys zs /= [sy sz].
by rewrite !size_rcons sy sz.
Qed.

Lemma nth_unfold2 stepy stepz y0 z0 n d : (d <= n)%N ->
  nth 0 (unfold2 stepy stepz y0 z0 n).1 d = ucoefy stepy stepz y0 z0 d /\
  nth 0 (unfold2 stepy stepz y0 z0 n).2 d = ucoefz stepy stepz y0 z0 d.
Proof.
elim: n => [|n IH]; first by rewrite leqn0 => /eqP->.
rewrite leq_eqVlt => /orP[/eqP-> //|]; rewrite ltnS => le_dn.
have [sy sz] := size_unfold2 stepy stepz y0 z0 n.
have [IHy IHz] := IH le_dn.
move: sy sz IHy IHz; rewrite /=; case: (unfold2 _ _ _ _ n) => ys zs /= sy sz IHy IHz.
by rewrite !nth_rcons sy sz ltnS le_dn.
Qed.

Lemma unfold2_mkseq stepy stepz y0 z0 n :
  unfold2 stepy stepz y0 z0 n =
  (mkseq (ucoefy stepy stepz y0 z0) n.+1, mkseq (ucoefz stepy stepz y0 z0) n.+1).
Proof.
have [sy sz] := size_unfold2 stepy stepz y0 z0 n.
rewrite [LHS]surjective_pairing; congr (_, _); apply: (@eq_from_nth _ 0);
  rewrite ?sy ?sz ?size_mkseq // => i; rewrite ltnS => le_i; rewrite nth_mkseq //;
  by have [] := nth_unfold2 stepy stepz y0 z0 le_i.
Qed.

Lemma unfold2S stepy stepz y0 z0 n :
  let p := unfold2 stepy stepz y0 z0 n in
  (unfold2 stepy stepz y0 z0 n.+1).1 = rcons p.1 (stepy p.1 p.2) /\
  (unfold2 stepy stepz y0 z0 n.+1).2 = rcons p.2 (stepz (rcons p.1 (stepy p.1 p.2)) p.2).
Proof. by rewrite [unfold2 _ _ _ _ n.+1]/=; case: (unfold2 _ _ _ _ n). Qed.

Lemma ucoefyS stepy stepz y0 z0 d :
  ucoefy stepy stepz y0 z0 d.+1 =
  stepy (mkseq (ucoefy stepy stepz y0 z0) d.+1) (mkseq (ucoefz stepy stepz y0 z0) d.+1).
Proof.
rewrite {1}/ucoefy; have [-> _] := unfold2S stepy stepz y0 z0 d.
by rewrite unfold2_mkseq nth_rcons size_mkseq ltnn eqxx.
Qed.

Lemma ucoefzS stepy stepz y0 z0 d :
  ucoefz stepy stepz y0 z0 d.+1 =
  stepz (mkseq (ucoefy stepy stepz y0 z0) d.+2) (mkseq (ucoefz stepy stepz y0 z0) d.+1).
Proof.
rewrite {1}/ucoefz; have [_ ->] := unfold2S stepy stepz y0 z0 d.
rewrite unfold2_mkseq [(_, _).1]/= [(_, _).2]/= nth_rcons size_mkseq ltnn eqxx.
congr stepz; rewrite -ucoefyS; apply: (@eq_from_nth _ 0); rewrite size_rcons !size_mkseq // => i.
rewrite ltnS nth_rcons size_mkseq => le_i; rewrite [RHS]nth_mkseq //.
by case: ltngtP le_i => // [lt_i|->] _; rewrite ?nth_mkseq.
Qed.

Lemma unfold2_take stepy stepz y0 z0 n m : (m <= n)%N ->
  take m.+1 (unfold2 stepy stepz y0 z0 n).1 = (unfold2 stepy stepz y0 z0 m).1 /\
  take m.+1 (unfold2 stepy stepz y0 z0 n).2 = (unfold2 stepy stepz y0 z0 m).2.
Proof. by move=> le_mn; rewrite !unfold2_mkseq [(_, _).1]/= [(_, _).2]/= !take_mkseq. Qed.

(* sum_{k=1}^{d} as a big sum *)
Lemma sum1E d (f : nat -> K) : sum1 d f = \sum_(k < d) f k.+1.
Proof. by rewrite /sum1 sumn_fE. Qed.

Lemma nth_mkseq0 (f : nat -> K) n i : nth 0 (mkseq f n) i = if (i < n)%N then f i else 0.
Proof. by case: ltnP => lt_i; [rewrite nth_mkseq | rewrite nth_default // size_mkseq]. Qed.

End Unfold.

Section PolySide.
Variable R : fieldType.
Hypothesis char0 : forall n, (n.+1)%:R != 0 :> R.
Implicit Types p q u F G x : {poly R}.

Lemma polyX_factor u : u`_0 = 0 -> u = (\poly_(i < size u) u`_i.+1) * 'X.
Proof.
move=> u0; apply/polyP => i; rewrite coefMX coef_poly.
case: i => [|i] //=; case: ltnP => // le_su.
by rewrite nth_default // (leq_trans le_su).
Qed.

Lemma coef_exp_low u i n : u`_0 = 0 -> (n < i)%N -> (u ^+ i)`_n = 0.
Proof.
move=> /polyX_factor -> lt_ni; rewrite exprMn_comm; last exact: mulrC.
by rewrite coefMXn lt_ni.
Qed.

(* coefficient n of p o u (u_0 = 0) only depends on p_0 .. p_n *)
Lemma coef_comp_low p q u n : u`_0 = 0 ->
  (forall i, (i <= n)%N -> p`_i = q`_i) -> (p \Po u)`_n = (q \Po u)`_n.
Proof.
move=> u0 Hpq.
have key r : (r \Po u)`_n = \sum_(i < n.+1) r`_i * (u ^+ i)`_n.
  rewrite coef_comp_poly.
  pose G i := r`_i * (u ^+ i)`_n.
  have G0 i : (size r <= i)%N || (n < i)%N -> G i = 0.
    rewrite /G; case/orP => H; first by rewrite nth_default ?mul0r.
    by rewrite coef_exp_low ?mulr0.
  have wid m k : (m <= k)%N -> (forall i, (m <= i)%N -> G i = 0) ->
       \sum_(i < m) G i = \sum_(i < k) G i.
    move=> le_mk Gz; rewrite -(big_mkord xpredT G) -(big_mkord xpredT G).
    rewrite (big_cat_nat _ _ _ (leq0n m) le_mk) /= [X in _ + X]big_nat_cond.
    rewrite [X in _ + X]big1 ?addr0 // => i /andP[/andP[le_mi _] _]; exact: Gz.
  rewrite -/(G _) (wid (size r) (maxn (size r) n.+1)) ?leq_maxl //; last first.
    by move=> i le_i; apply: G0; rewrite le_i.
  rewrite [RHS](wid n.+1 (maxn (size r) n.+1)) ?leq_maxr //.
  by move=> i lt_i; apply: G0; rewrite lt_i orbT.
by rewrite !key; apply: eq_bigr => i _; rewrite Hpq // -ltnS.
Qed.

Lemma coef0_comp p u : u`_0 = 0 -> (p \Po u)`_0 = p`_0.
Proof.
move=> u0; rewrite coef_comp_poly.
case E: (size p) => [|n]; first by rewrite big_ord0 nth_default // E.
rewrite big_ord_recl expr0 coefC /= mulr1 big1 ?addr0 // => i _.
by rewrite coef_exp_low ?mulr0.
Qed.

(* low coefficients of a product only depend on low coefficients of the factors *)
Lemma coefM_low p p' q q' n :
  (forall i, (i <= n)%N -> p`_i = p'`_i) -> (forall i, (i <= n)%N -> q`_i = q'`_i) ->
  (p * q)`_n = (p' * q')`_n.
Proof.
move=> Hp Hq; rewrite !coefM; apply: eq_bigr => i _.
by rewrite Hp ?Hq ?leq_subr // -ltnS.
Qed.

(* chain rule at coefficient level:  (F o u)' = (F' o u) * u' *)
Lemma coef_deriv_comp F u d : ((F \Po u)^`())`_d = ((F^`() \Po u) * u^`())`_d.
Proof. by rewrite deriv_comp. Qed.

(* the shifted curve *)
Definition shift0 (x : {poly R}) := x - (x`_0)%:P.
Lemma shift0_0 x : (shift0 x)`_0 = 0. Proof. by rewrite coefB coefC subrr. Qed.
Lemma deriv_shift0 x : (shift0 x)^`() = x^`(). Proof. by rewrite derivB derivC subr0. Qed.
Lemma coef_shift0S x d : (shift0 x)`_d.+1 = x`_d.+1. Proof. by rewrite coefB coefC subr0. Qed.
(* x = x0 + u : composing the identity-plus-constant polynomial *)
Lemma comp_shift0 x : ((x`_0)%:P + 'X) \Po (shift0 x) = x.
Proof. by rewrite comp_polyD comp_polyC comp_polyX /shift0 addrC subrK. Qed.

End PolySide.
