From mathcomp Require Import all_ssreflect all_algebra.
From AlgoV Require Import Sums Series SeriesBase SeriesSpec.
Set Implicit Arguments. Unset Strict Implicit. Unset Printing Implicit Defensive.
Import GRing.Theory.
Local Open Scope ring_scope.
Local Arguments mkseq : simpl never.

Section Stmts.
Variable K : fieldType.
Hypothesis char0 : forall n, (n.+1)%:R != 0 :> K.
Implicit Types (F G S C Z : {poly K}) (xs ys : seq K).

(* ---------------- black f / white f' ---------------- *)
Theorem bfwfS_spec F G xs (fp : seq K) :
  (forall d, (d.+1 < size xs)%N -> F^`()`_d = G`_d) ->
  (forall d, (d.+1 < size xs)%N -> fp`_d = (G \Po shift0 (Poly xs))`_d) ->
  forall d, (d < size xs)%N -> (F \Po shift0 (Poly xs))`_d = (bfwfS F`_0 fp xs)`_d.
Proof.
move=> HF Hfp d lt_d; rewrite /bfwfS series1_nth //.
set x := Poly xs; set u := shift0 x; have u0 : u`_0 = 0 by exact: shift0_0.
case: d lt_d => [_|d lt_d]; first by rewrite coef0_comp.
apply: (mulIf (char0 d)).
rewrite mulr_natr -coef_deriv coef_deriv_comp deriv_shift0.
rewrite coefMr ucoefS /bfwf_step -/(bfwf_step fp xs) size_mkseq sumn_fE divfK ?char0 //.
apply: eq_bigr => j _.
have le_j : (j <= d)%N by rewrite -ltnS.
rewrite [d.+1.-1]/= coef_deriv coef_Poly -mulr_natr mulrA.
congr (_ * _ * _).
rewrite Hfp; last by apply: leq_ltn_trans lt_d; rewrite ltnS leq_subr.
apply: coef_comp_low => // i le_i; apply: HF.
by apply: leq_ltn_trans lt_d; rewrite ltnS; apply: leq_trans le_i _; rewrite leq_subr.
Qed.

(* expm1: F' = F + 1, i.e. F + 1 is an exponential series *)
Theorem expm1S_spec F xs :
  (forall d, (d.+1 < size xs)%N -> F^`()`_d = (F + 1)`_d) ->
  forall d, (d < size xs)%N -> (F \Po shift0 (Poly xs))`_d = (expm1S xs (F`_0 + 1) F`_0)`_d.
Proof.
move=> HF d lt_d; rewrite /expm1S.
apply: (@bfwfS_spec F (F + 1)) => // k lt_k.
have -> : F`_0 + 1 = (F + 1)`_0 by rewrite coefD coef1.
rewrite -expS_spec //; last exact: ltnW.
by move=> i lt_i; rewrite derivD -polyC1 derivC addr0 polyC1 HF.
Qed.

(* ---------------- log ---------------- *)
Section Log.
Variables (F : {poly K}) (xs : seq K).
Hypothesis x0 : xs`_0 != 0.
Hypothesis HF : forall d, (d.+1 < size xs)%N ->
  (((xs`_0)%:P + 'X) * F^`())`_d = (1 : {poly K})`_d.
Let x := Poly xs.
Let u := shift0 x.
Let Y := F \Po u.

Lemma log_key d : (d.+1 < size xs)%N -> (x * Y^`())`_d = (x^`())`_d.
Proof.
move=> lt_d; have u0 : u`_0 = 0 by exact: shift0_0.
rewrite /Y deriv_comp deriv_shift0 mulrA -[RHS]/((x^`())`_d) -[in RHS](mul1r x^`()).
apply: coefM_low => // i le_i.
have -> : x * (F^`() \Po u) = (((xs`_0)%:P + 'X) * F^`()) \Po u.
  by rewrite comp_polyM -[xs`_0](coef_Poly xs 0) comp_shift0.
have -> : (1 : {poly K}) = 1 \Po u by rewrite -polyC1 comp_polyC.
apply: coef_comp_low => // k le_k; apply: HF.
by apply: leq_ltn_trans lt_d; rewrite ltnS; apply: leq_trans le_k le_i.
Qed.

Lemma log_yt d : (d.+1 < size xs)%N ->
  ucoef (log_step xs) F`_0 d.+1 = (Y^`())`_d.
Proof.
elim/ltn_ind: d => d IH lt_d.
apply: (mulfI x0).
have := log_key lt_d; rewrite coefMr big_ord_recr /= subnn coef_Poly => /eqP.
rewrite addrC eq_sym -subr_eq => /eqP <-.
rewrite ucoefS /log_step -/(log_step xs) size_mkseq [d.+1.-1]/= mulrC divfK //.
rewrite coef_deriv coef_Poly mulr_natr; congr (_ - _).
rewrite sum1E; apply: eq_bigr => j _.
have lt_j : (j < d)%N by [].
rewrite subSS coef_Poly nth_mkseq ?ltnS // IH //.
by apply: ltn_trans lt_d; rewrite !ltnS.
Qed.

End Log.

Theorem logS_spec F xs : xs`_0 != 0 ->
  (forall d, (d.+1 < size xs)%N -> (((xs`_0)%:P + 'X) * F^`())`_d = (1 : {poly K})`_d) ->
  forall d, (d < size xs)%N -> (F \Po shift0 (Poly xs))`_d = (logS xs F`_0)`_d.
Proof.
move=> x0 HF d lt_d; rewrite /logS nth_mkseq //.
case: d lt_d => [|d] lt_d; rewrite series1_nth //.
  by rewrite coef0_comp // shift0_0.
rewrite log_yt // coef_deriv -mulr_natr mulfK //.
Qed.

(* ---------------- pow (general real exponent) ---------------- *)
Section Pow.
Variables (F : {poly K}) (xs : seq K) (r : K).
Hypothesis x0 : xs`_0 != 0.
Hypothesis HF : forall d, (d.+1 < size xs)%N ->
  (((xs`_0)%:P + 'X) * F^`())`_d = (r *: F)`_d.
Let x := Poly xs.
Let u := shift0 x.
Let Y := F \Po u.

Lemma pow_key d : (d.+1 < size xs)%N -> (x * Y^`())`_d = ((r *: Y) * x^`())`_d.
Proof.
move=> lt_d; have u0 : u`_0 = 0 by exact: shift0_0.
rewrite /Y deriv_comp deriv_shift0 mulrA.
apply: coefM_low => // i le_i.
have -> : x * (F^`() \Po u) = (((xs`_0)%:P + 'X) * F^`()) \Po u.
  by rewrite comp_polyM -[xs`_0](coef_Poly xs 0) comp_shift0.
rewrite -comp_polyZ.
apply: coef_comp_low => // k le_k; apply: HF.
by apply: leq_ltn_trans lt_d; rewrite ltnS; apply: leq_trans le_k le_i.
Qed.

Lemma pow_coef d : (d < size xs)%N -> ucoef (pow_step r xs) F`_0 d = Y`_d.
Proof.
elim/ltn_ind: d => -[_ _|d IH lt_d].
  by rewrite ucoef0 /Y coef0_comp // shift0_0.
apply: (mulIf (char0 d)); apply: (mulIf x0).
rewrite [Y`_d.+1 * _]mulr_natr -coef_deriv [(Y^`())`_d * _]mulrC.
have := pow_key lt_d; rewrite coefMr big_ord_recr /= subnn coef_Poly => /eqP.
rewrite addrC eq_sym -subr_eq => /eqP <-.
rewrite ucoefS /pow_step -/(pow_step r xs) size_mkseq [d.+1.-1]/= !divfK //.
congr (_ - _).
  rewrite -scalerAl coefZ coefMr sum1E; congr (_ * _); apply: eq_bigr => j _.
  have le_j : (j <= d)%N by rewrite -ltnS.
  rewrite subSS coef_deriv coef_Poly -[xs`_j.+1 *+ _]mulr_natr -mulrA [_%:R * _]mulrC; congr (_ * _).
  rewrite nth_mkseq ?ltnS ?leq_subr // IH ?ltnS ?leq_subr //.
  by apply: leq_ltn_trans (ltnW lt_d); rewrite leq_subr.
rewrite sum1E; apply: eq_bigr => j _.
have lt_j : (j < d)%N by [].
rewrite subSS coef_Poly coef_deriv -[Y`_j.+1 *+ _]mulr_natr -mulrA [_%:R * _]mulrC; congr (_ * (_ * _)).
rewrite nth_mkseq ?ltnS // IH //.
by apply: ltn_trans lt_d; rewrite !ltnS.
Qed.

End Pow.

Theorem powS_spec F xs (r : K) : xs`_0 != 0 ->
  (forall d, (d.+1 < size xs)%N -> (((xs`_0)%:P + 'X) * F^`())`_d = (r *: F)`_d) ->
  forall d, (d < size xs)%N -> (F \Po shift0 (Poly xs))`_d = (powS xs r F`_0)`_d.
Proof. by move=> x0 HF d lt_d; rewrite /powS series1_nth // pow_coef. Qed.

End Stmts.
