(* The tracer model instantiated with a commutative ring S (specification carrier of the theorems). Division is
   multiplication by an arbitrary `recip` function and the unary table is arbitrary: the adjoint theorem does not depend on what
   they compute, only on the reverse rules being the transposes of the tangent rules. *)
From mathcomp Require Import all_ssreflect all_algebra.
From AlgoV Require Import Tracer.
Set Implicit Arguments. Unset Strict Implicit. Unset Printing Implicit Defensive.
Import GRing.Theory.
Local Open Scope ring_scope.

Section Inst.
Variable S : comRingType.
Variable recip : S -> S.
Variables (unval : nat -> S -> S) (unpart : nat -> S -> S -> S).
Definition r_sub (x y : S) := x - y.
Definition r_div (x y : S) := x * recip y.
Definition r_natmul (n : nat) (x : S) := x *+ n.
Definition r_pown (x : S) (n : nat) := x ^+ n.

Definition R_eval_out := @eval_out S 0 +%R r_sub *%R r_div -%R r_pown unval.
Definition R_record := @record S.
Definition R_replay := @replay S 0 +%R r_sub *%R r_div -%R r_pown unval.
Definition R_replay_out := @replay_out S 0 +%R r_sub *%R r_div -%R r_pown unval.
Definition R_tangent_out := @tangent_out S 0 +%R r_sub *%R r_div -%R r_natmul r_pown unval unpart.
Definition R_pullback := @pullback S 0 +%R *%R r_div -%R r_natmul r_pown unpart.
Definition R_pullback_fixed := @pullback_fixed S 0 +%R *%R r_div -%R r_natmul r_pown unpart.
Definition R_gradient_like := @gradient_like S 0 +%R r_sub *%R r_div -%R r_natmul r_pown unval unpart.
Definition R_rollforward := @rollforward S 0.
Definition R_pullback_unrepaired := @pullback_unrepaired S 0 +%R *%R r_div -%R r_natmul r_pown unpart.
End Inst.
