From mathcomp Require Import all_ssreflect all_algebra.
From AlgoV Require Import Sums Series SeriesBase SeriesSpec.
Set Implicit Arguments. Unset Strict Implicit. Unset Printing Implicit Defensive.
Import GRing.Theory.
Local Open Scope ring_scope.
Local Arguments mkseq : simpl never.

Section Stmts.
Variable K : fieldType.
Hypothesis char0 : forall n, (n.+1)%:R != 0 :> K.
Implicit Types (F G S C Z : {poly K}) (xs ys : seq K).

(* PROOFS, group A (algebraic kernels): mul, div, reciprocal, square, sqrt, integer power.
   Specification side: products / powers of mathcomp polynomials (coefM), no recurrence in it. *)
Local Arguments ucoef : simpl never.

(* ---------------- mul ---------------- *)
Theorem mulS_spec xs ys d : (d < size xs)%N -> (mulS xs ys)`_d = (Poly xs * Poly ys)`_d.
Proof.
move=> lt_d; rewrite /mulS nth_mkseq // sumn_fE coefM.
by apply: eq_bigr => i _; rewrite !coef_Poly.
Qed.

Theorem size_mulS xs ys : size (mulS xs ys) = size xs.
Proof. by rewrite /mulS size_mkseq. Qed.

(* ---------------- div / reciprocal ---------------- *)
(* the common shape of _truediv and _reciprocal: z_d = 1/y_0 (a_d - sum_{c<d} z_c y_{d-c}) *)
Lemma div_gen (a : nat -> K) (step : seq K -> K) (z0 : K) ys :
  ys`_0 != 0 -> z0 = (ys`_0)^-1 * a 0%N ->
  (forall zs : seq K, (0 < size zs)%N ->
     step zs = (ys`_0)^-1 * (a (size zs) - sumn_f (size zs) (fun c => zs`_c * ys`_(size zs - c)))) ->
  forall d, \sum_(c < d.+1) ucoef step z0 c * ys`_(d - c) = a d.
Proof.
move=> y0 Hz0 Hstep [|d].
  by rewrite big_ord_recl big_ord0 addr0 ucoef0 subnn Hz0 mulrAC mulVf // mul1r.
rewrite big_ord_recr /= subnn ucoefS Hstep size_mkseq // sumn_fE.
rewrite mulrAC mulVf // mul1r.
set S1 := (X in X + _); set S2 := (X in _ + (_ - X)).
suff -> : S2 = S1 by rewrite addrC subrK.
by apply: eq_bigr => i _; rewrite nth_mkseq.
Qed.

Theorem divS_spec xs ys d : ys`_0 != 0 -> (d < size xs)%N ->
  (Poly (divS xs ys) * Poly ys)`_d = xs`_d.
Proof.
move=> y0 lt_d; rewrite coefM.
rewrite -[RHS](@div_gen (fun d => xs`_d) (div_step xs ys) ((ys`_0)^-1 * (xs`_0 - 0)) ys y0).
- apply: eq_bigr => i _; rewrite !coef_Poly /divS series1_nth //.
  exact: leq_trans (ltn_ord i) lt_d.
- by rewrite subr0.
- by move=> zs _.
Qed.

Theorem size_divS xs ys : size (divS xs ys) = size xs.
Proof. by rewrite /divS size_series1. Qed.

Theorem recipS_spec ys d : ys`_0 != 0 -> (d < size ys)%N ->
  (Poly (recipS ys) * Poly ys)`_d = (1 : {poly K})`_d.
Proof.
move=> y0 lt_d; rewrite coefM.
rewrite -[RHS](@div_gen (fun d => (1 : {poly K})`_d) (recip_step ys) ((ys`_0)^-1 * (1 - 0)) ys y0).
- apply: eq_bigr => i _; rewrite !coef_Poly /recipS series1_nth //.
  exact: leq_trans (ltn_ord i) lt_d.
- by rewrite subr0 coef1.
- by move=> zs lt0; rewrite /recip_step coef1 eqn0Ngt lt0.
Qed.

(* ---------------- square ---------------- *)
Lemma sum_double h (f : nat -> K) :
  \sum_(c < h + h) f c = \sum_(c < h) (f c + f (h + (h - c.+1))%N).
Proof.
rewrite big_split_ord big_split /=; congr (_ + _).
by rewrite (reindex_inj rev_ord_inj).
Qed.

(* a sum symmetric under c -> d - c is twice its lower half, plus the middle term for even d *)
Lemma sym_sum d (f : nat -> K) : (forall c, (c <= d)%N -> f (d - c)%N = f c) ->
  \sum_(c < d.+1) f c =
  \sum_(c < d.+1 %/ 2) f c * 2%:R + (if (d.+1 %% 2 == 1)%N then f (d.+1 %/ 2)%N else 0).
Proof.
move=> fsym; set h := (d.+1 %/ 2)%N.
have := divn_eq d.+1 2; rewrite -/h.
have : (d.+1 %% 2 < 2)%N by rewrite ltn_mod.
case: (d.+1 %% 2)%N => [|[|//]] _; rewrite ?addn0 ?addn1 muln2 -addnn => E.
- rewrite -(big_mkord xpredT f) E big_mkord sum_double /= addr0.
  apply: eq_bigr => c _; rewrite mulr_natr mulr2n; congr (_ + _).
  have lt_c : (c < h)%N by [].
  rewrite addnBA // -E subSS fsym // -ltnS E.
  by apply: leq_trans lt_c _; rewrite leq_addr.
- case: E => E.
  rewrite -(big_mkord xpredT f) E -addSn big_mkord big_split_ord /= big_ord_recr /=.
  rewrite [X in _ + X](reindex_inj rev_ord_inj) /= addrAC -big_split /=; congr (_ + _).
  apply: eq_bigr => c _; rewrite mulr_natr mulr2n; congr (_ + _).
  have lt_c : (c < h)%N by [].
  rewrite addSn -addnS subnSK // addnBA 1?ltnW // -E fsym // E.
  by apply: leq_trans (ltnW lt_c) _; rewrite leq_addr.
Qed.

Theorem squareS_spec xs d : (d < size xs)%N -> (squareS xs)`_d = (Poly xs * Poly xs)`_d.
Proof.
move=> lt_d; rewrite /squareS nth_mkseq //; cbv beta zeta; rewrite coefM.
rewrite (eq_bigr (fun c : 'I_d.+1 => xs`_c * xs`_(d - c))); last first.
  by move=> i _; rewrite !coef_Poly.
rewrite (@sym_sum d (fun c => xs`_c * xs`_(d - c))); last first.
  by move=> c le_c; rewrite subKn // mulrC.
congr (_ + _).
- case: d {lt_d} => [|d]; first by rewrite divn_small // big_ord0.
  by rewrite sumn_fE.
- case: ifP => // /eqP E; congr (_ * xs`_ _).
  have := divn_eq d.+1 2; rewrite E addn1 muln2 -addnn.
  by set h := (d.+1 %/ 2)%N => -[->]; rewrite addnK.
Qed.

(* ---------------- sqrt ---------------- *)
Theorem sqrtS_spec xs (s0 : K) d : s0 * s0 = xs`_0 -> s0 != 0 -> (d < size xs)%N ->
  (Poly (sqrtS xs s0) * Poly (sqrtS xs s0))`_d = xs`_d.
Proof.
move=> Hs0 s0n0 lt_d; rewrite coefM.
set u := ucoef (sqrt_step xs) s0.
have Hy i : (i <= d)%N -> (Poly (sqrtS xs s0))`_i = u i.
  by move=> le_i; rewrite coef_Poly /sqrtS series1_nth //; apply: leq_ltn_trans lt_d.
rewrite (eq_bigr (fun c : 'I_d.+1 => u c * u (d - c)%N)); last first.
  by move=> i _; rewrite !Hy ?leq_subr // -ltnS.
case: d {lt_d Hy} => [|k].
  by rewrite big_ord_recl big_ord0 addr0 subnn /u ucoef0.
have s2n0 : 2%:R * s0 != 0 by rewrite mulf_neq0 // char0.
have u0 : u 0%N = s0 by [].
set U := u k.+1.
have HU : 2%:R * s0 * U = xs`_k.+1 - \sum_(i < k) u i.+1 * u (k - i)%N.
  rewrite /U /u ucoefS -/u /sqrt_step size_mkseq sum1E [k.+1.-1]/= nth_mkseq // u0.
  rewrite mulrA mulfV // mul1r; congr (_ - _); apply: eq_bigr => i _.
  by rewrite !nth_mkseq ?subSS // ltnS ?leq_subr // ltnW.
rewrite big_ord_recl big_ord_recr /= subn0 subnn u0 -/U.
rewrite (eq_bigr (fun i : 'I_k => u i.+1 * u (k - i)%N)); last first.
  by move=> i _; rewrite /bump leq0n add1n subSS.
by rewrite [U * _]mulrC addrCA -mulr2n -mulr_natl mulrA HU addrC subrK.
Qed.

(* ---------------- integer power ---------------- *)
Lemma iter_mulS xs k :
  size (iter k (mulS xs) xs) = size xs /\
  forall d, (d < size xs)%N -> (iter k (mulS xs) xs)`_d = (Poly xs ^+ k.+1)`_d.
Proof.
elim: k => [|k [IHs IH]]; first by split=> // d _; rewrite expr1 coef_Poly.
rewrite iterS size_mulS; split=> // d lt_d.
rewrite mulS_spec // exprS; apply: coefM_low => // i le_i.
by rewrite coef_Poly IH //; apply: leq_ltn_trans lt_d.
Qed.

Theorem pownatS_spec xs n d : (d < size xs)%N -> (pownatS xs n)`_d = (Poly xs ^+ n)`_d.
Proof.
move=> lt_d; case: n => [|[|[|n]]].
- by rewrite /pownatS /constS nth_mkseq // expr0 coef1; case: eqP.
- by rewrite expr1 coef_Poly.
- by rewrite /pownatS squareS_spec // expr2.
- by have [_ H] := iter_mulS xs n.+2; apply: H.
Qed.

End Stmts.
