(* Specification theorems for the matrix Taylor-series kernels of Matrix.v: Cauchy product, inverse, linear solve,
   over an arbitrary ring / mathcomp matrices, and refinement of the executable list-matrix instance. *)
From mathcomp Require Import all_ssreflect all_algebra.
From AlgoV Require Import Sums Series Matrix.
Set Implicit Arguments. Unset Strict Implicit. Unset Printing Implicit Defensive.
Import GRing.Theory.
Local Open Scope ring_scope.
Local Arguments mkseq : simpl never.
Local Arguments iota : simpl never.

(* ---------- generic lemmas on unfoldT / seriesT ---------- *)
Section UnfoldTLemmas.
Variable T : Type.
Variable x0 : T.
Implicit Types (step : seq T -> T).
Lemma size_unfoldT step y0 n : size (unfoldT step y0 n) = n.+1.
Proof. by elim: n => //= n IH; rewrite size_rcons IH. Qed.
Lemma size_seriesT step y0 D : size (seriesT step y0 D) = D.
Proof. by case: D => //= n; rewrite size_unfoldT. Qed.
Definition tcoef step y0 d : T := nth x0 (unfoldT step y0 d) d.
Lemma nth_unfoldT step y0 n d : (d <= n)%N -> nth x0 (unfoldT step y0 n) d = tcoef step y0 d.
Proof.
elim: n => [|n IH]; first by rewrite leqn0 => /eqP->.
rewrite leq_eqVlt => /orP[/eqP->//|]; rewrite ltnS => le_dn.
by rewrite /= nth_rcons size_unfoldT ltnS le_dn IH.
Qed.
Lemma unfoldT_mkseq step y0 n : unfoldT step y0 n = mkseq (tcoef step y0) n.+1.
Proof.
apply: (@eq_from_nth _ x0); rewrite size_unfoldT ?size_mkseq // => i; rewrite ltnS => le_i.
by rewrite nth_unfoldT // nth_mkseq.
Qed.
Lemma tcoef0 step y0 : tcoef step y0 0 = y0. Proof. by []. Qed.
Lemma tcoefS step y0 d : tcoef step y0 d.+1 = step (mkseq (tcoef step y0) d.+1).
Proof. by rewrite /tcoef /= nth_rcons size_unfoldT ltnn eqxx unfoldT_mkseq. Qed.
Lemma nth_seriesT step y0 D d : (d < D)%N -> nth x0 (seriesT step y0 D) d = tcoef step y0 d.
Proof. by case: D => // n; rewrite ltnS /=; exact: nth_unfoldT. Qed.
End UnfoldTLemmas.

Lemma map_unfoldT (T U : Type) (h : T -> U) step step' y0 n :
  (forall ys, h (step ys) = step' (map h ys)) ->
  map h (unfoldT step y0 n) = unfoldT step' (h y0) n.
Proof. by move=> H; elim: n => //= n IH; rewrite map_rcons IH H IH. Qed.
Lemma map_seriesT (T U : Type) (h : T -> U) step step' y0 D :
  (forall ys, h (step ys) = step' (map h ys)) ->
  map h (seriesT step y0 D) = seriesT step' (h y0) D.
Proof. by move=> H; case: D => //= n; exact: map_unfoldT. Qed.

(* ---------- foldl sums ---------- *)
Section FoldSums.
Variable V : zmodType.
Lemma foldl_addE (f : nat -> V) a lo n :
  foldl (fun acc c => acc + f c) a (iota lo n) = a + \sum_(lo <= c < lo + n) f c.
Proof.
elim: n lo a => [|n IH] lo a; first by rewrite addn0 big_geq // addr0.
rewrite -[iota lo n.+1]/(lo :: iota lo.+1 n) /= IH addSnnS [in RHS]big_ltn ?addrA //.
by rewrite addnS ltnS leq_addr.
Qed.
Lemma csumE (f : nat -> V) lo n : csum +%R 0 f lo n = \sum_(lo <= c < lo + n) f c.
Proof. by rewrite /csum foldl_addE add0r. Qed.
Lemma foldl_subE (g : nat -> V) b lo n :
  foldl (fun tmp k => tmp - g k) b (iota lo n) = b - \sum_(lo <= k < lo + n) g k.
Proof. by rewrite (foldl_addE (fun k => - g k)) sumrN. Qed.
Lemma sum_nat1 (F : nat -> V) d : \sum_(1 <= c < 1 + d) F c = \sum_(c < d) F c.+1.
Proof. by rewrite add1n big_add1 /= big_mkord. Qed.
Lemma sum_ord_recl (F : nat -> V) d : \sum_(c < d.+1) F c = F 0%N + \sum_(c < d) F c.+1.
Proof. by rewrite big_ord_recl. Qed.
End FoldSums.

(* ---------- Cauchy product of coefficient functions ---------- *)
Section Conv.
Variable R : ringType.
Implicit Types (f g h : nat -> R).
Definition conv f g (d : nat) : R := \sum_(c < d.+1) f c * g (d - c)%N.
Definition delta (d : nat) : R := (d == 0%N)%:R.

Lemma eq_conv f f' g g' d : (forall c, (c <= d)%N -> f c = f' c) -> (forall c, (c <= d)%N -> g c = g' c) ->
  conv f g d = conv f' g' d.
Proof.
move=> Hf Hg; apply: eq_bigr => c _; rewrite Hf ?Hg ?leq_subr //.
by rewrite -ltnS.
Qed.

Lemma convA f g h d : conv (conv f g) h d = conv f (conv g h) d.
Proof.
pose P f := \poly_(i < d.+1) f i.
have cP f1 i : (i <= d)%N -> (P f1)`_i = f1 i by move=> le_i; rewrite coef_poly ltnS le_i.
have cPP f1 f2 i : (i <= d)%N -> (P f1 * P f2)`_i = conv f1 f2 i.
  move=> le_i; rewrite coefM; apply: eq_bigr => j _.
  rewrite !cP //; first exact: leq_trans (leq_subr _ _) le_i.
  by apply: leq_trans le_i; rewrite -ltnS.
have <- : (P f * P g * P h)`_d = conv (conv f g) h d.
  rewrite coefM; apply: eq_bigr => j _; rewrite cPP ?cP ?leq_subr //.
  by rewrite -ltnS.
rewrite -mulrA coefM; apply: eq_bigr => j _; rewrite cPP ?cP ?leq_subr //.
by rewrite -ltnS.
Qed.

Lemma conv_recl f g d : conv f g d = f 0%N * g d + \sum_(c < d) f c.+1 * g (d - c.+1)%N.
Proof. by rewrite /conv big_ord_recl subn0. Qed.

Lemma conv_delta_l f d : conv delta f d = f d.
Proof.
rewrite conv_recl /delta eqxx mul1r big1 ?addr0 // => c _; by rewrite mul0r.
Qed.
Lemma conv_delta_r f d : conv f delta d = f d.
Proof.
rewrite /conv big_ord_recr /= subnn /delta eqxx mulr1 big1 ?add0r // => c _.
by rewrite subn_eq0 leqNgt ltn_ord mulr0.
Qed.

(* left cancellation by a series whose constant term has a left inverse *)
Lemma conv_cancel_l f (u : R) w w' D : u * f 0%N = 1 ->
  (forall d, (d < D)%N -> conv f w d = conv f w' d) -> forall d, (d < D)%N -> w d = w' d.
Proof.
move=> uf H d; elim/ltn_ind: d => d IH lt_d.
have := H d lt_d; rewrite !conv_recl.
have -> : \sum_(c < d) f c.+1 * w (d - c.+1)%N = \sum_(c < d) f c.+1 * w' (d - c.+1)%N.
  apply: eq_bigr => c _; rewrite IH //.
    by rewrite subnS prednK ?subn_gt0 // leq_subr.
  by apply: leq_ltn_trans lt_d; exact: leq_subr.
move/addIr => /(congr1 (fun z => u * z)); by rewrite !mulrA uf !mul1r.
Qed.
End Conv.

(* ===== Part 1 ===== *)
Section RingSpec.
Variable R : ringType.
Implicit Types (x y : seq R).
Definition cauchyR x y : seq R := cauchyK (@GRing.mul R) (@GRing.add R) 0 0 0 x y.
Definition invR x (yinv0 : R) : seq R := invK (@GRing.mul R) (@GRing.add R) (@GRing.opp R) 0 x yinv0.

Theorem size_cauchyR x y : size (cauchyR x y) = size x.
Proof. by rewrite /cauchyR /cauchyK size_mkseq. Qed.
Theorem cauchyR_spec x y d : (d < size x)%N -> (cauchyR x y)`_d = \sum_(c < d.+1) x`_c * y`_(d - c).
Proof. by move=> lt_d; rewrite /cauchyR /cauchyK nth_mkseq // csumE add0n big_mkord. Qed.
Theorem size_invR x yinv0 : size (invR x yinv0) = size x.
Proof. by rewrite /invR /invK size_seriesT. Qed.

Definition invc x yinv0 : nat -> R :=
  tcoef 0 (inv_step (@GRing.mul R) (@GRing.add R) (@GRing.opp R) 0 x yinv0) yinv0.
Lemma nth_invR x yinv0 d : (d < size x)%N -> (invR x yinv0)`_d = invc x yinv0 d.
Proof. by move=> lt_d; rewrite /invR /invK nth_seriesT. Qed.
Lemma invc0 x yinv0 : invc x yinv0 0 = yinv0. Proof. by []. Qed.
Lemma invcS x yinv0 d :
  invc x yinv0 d.+1 = - yinv0 * \sum_(c < d.+1) x`_c.+1 * invc x yinv0 (d.+1 - c.+1)%N.
Proof.
rewrite /invc tcoefS -/(invc x yinv0) /inv_step size_mkseq csumE sum_nat1; congr (_ * _).
apply: eq_bigr => c _; rewrite nth_mkseq // subSS ltnS leq_subr //.
Qed.

Lemma invc_right x yinv0 d : x`_0 * yinv0 = 1 -> conv (nth 0 x) (invc x yinv0) d = delta R d.
Proof.
move=> H; rewrite conv_recl; case: d => [|d]; first by rewrite big_ord0 addr0 invc0 H.
by rewrite invcS mulrA mulrN H mulN1r addNr.
Qed.

(* x(t) * inv(x)(t) = 1 modulo t^D *)
Theorem invR_right x yinv0 d : x`_0 * yinv0 = 1 -> (d < size x)%N ->
  \sum_(c < d.+1) x`_c * (invR x yinv0)`_(d - c) = (d == 0%N)%:R.
Proof.
move=> H lt_d; rewrite -[RHS](invc_right d H); apply: eq_bigr => c _.
by rewrite nth_invR //; apply: leq_ltn_trans lt_d; exact: leq_subr.
Qed.
(* inv(x)(t) * x(t) = 1 modulo t^D (needs a two-sided base inverse) *)
Theorem invR_left x yinv0 d : x`_0 * yinv0 = 1 -> yinv0 * x`_0 = 1 -> (d < size x)%N ->
  \sum_(c < d.+1) (invR x yinv0)`_c * x`_(d - c) = (d == 0%N)%:R.
Proof.
move=> H1 H2 lt_d.
have -> : \sum_(c < d.+1) (invR x yinv0)`_c * x`_(d - c) = conv (invc x yinv0) (nth 0 x) d.
  apply: eq_bigr => c _; rewrite nth_invR //; apply: leq_ltn_trans lt_d; by rewrite -ltnS.
apply: (@conv_cancel_l R (nth 0 x) yinv0 _ (delta R) d.+1) => // e _.
rewrite -convA conv_delta_r -[RHS]conv_delta_l; apply: eq_conv => // c _; exact: invc_right.
Qed.
End RingSpec.

(* ===== Part 2: solve on mathcomp matrices ===== *)
Section MxSpec.
Variable K : fieldType.
Variables (n k : nat).
Implicit Types (A : seq 'M[K]_n) (B Y : seq 'M[K]_(n, k)).
Definition solveM A (Ainv0 : 'M[K]_n) B : seq 'M[K]_(n, k) :=
  solveK (fun (a : 'M[K]_n) (b : 'M[K]_(n, k)) => a *m b) (fun b1 b2 : 'M[K]_(n, k) => b1 - b2) 0 0 A Ainv0 B.
Theorem size_solveM A Ainv0 B : size (solveM A Ainv0 B) = size A.
Proof. by rewrite /solveM /solveK size_seriesT. Qed.

Definition solc A (Ainv0 : 'M[K]_n) B : nat -> 'M[K]_(n, k) :=
  tcoef 0 (solve_step (fun (a : 'M[K]_n) (b : 'M[K]_(n, k)) => a *m b)
             (fun b1 b2 : 'M[K]_(n, k) => b1 - b2) 0 0 A Ainv0 B) (Ainv0 *m B`_0).
Lemma nth_solveM A Ainv0 B d : (d < size A)%N -> (solveM A Ainv0 B)`_d = solc A Ainv0 B d.
Proof. by move=> lt_d; rewrite /solveM /solveK nth_seriesT. Qed.
Lemma solc0 A Ainv0 B : solc A Ainv0 B 0 = Ainv0 *m B`_0. Proof. by []. Qed.
Lemma solcS A Ainv0 B d :
  solc A Ainv0 B d.+1 =
  Ainv0 *m (B`_d.+1 - \sum_(c < d.+1) A`_c.+1 *m solc A Ainv0 B (d.+1 - c.+1)%N).
Proof.
rewrite /solc tcoefS -/(solc A Ainv0 B) /solve_step size_mkseq.
rewrite (foldl_subE (fun k0 => A`_k0 *m (mkseq (solc A Ainv0 B) d.+1)`_(d.+1 - k0))) sum_nat1.
congr (_ *m (_ - _)); apply: eq_bigr => c _; rewrite nth_mkseq // subSS ltnS leq_subr //.
Qed.

(* A(t) X(t) = B(t) modulo t^D *)
Theorem solveM_spec A Ainv0 B d : A`_0 *m Ainv0 = 1%:M -> (d < size A)%N ->
  \sum_(c < d.+1) A`_c *m (solveM A Ainv0 B)`_(d - c) = B`_d.
Proof.
move=> H lt_d.
have -> : \sum_(c < d.+1) A`_c *m (solveM A Ainv0 B)`_(d - c) =
          \sum_(c < d.+1) A`_c *m solc A Ainv0 B (d - c)%N.
  apply: eq_bigr => c _; rewrite nth_solveM //; apply: leq_ltn_trans lt_d; exact: leq_subr.
rewrite big_ord_recl subn0 /=; case: d {lt_d} => [|d].
  by rewrite big_ord0 addr0 solc0 mulmxA H mul1mx.
by rewrite solcS mulmxA H mul1mx subrK.
Qed.
End MxSpec.

(* ===== Part 3: the executable list matrices refine mathcomp matrices ===== *)
Section Refine.
Variable K : fieldType.
Definition mx_of (n m : nat) (A : mx K) : 'M[K]_(n, m) := \matrix_(i, j) mxget A i j.

Lemma mxget_mkmx n m f i j : (i < n)%N -> (j < m)%N -> mxget (mkmx n m f) i j = f i j :> K.
Proof. by move=> lt_i lt_j; rewrite /mxget /mkmx nth_mkseq // nth_mkseq. Qed.
Lemma mx_of_mkmx n m f : mx_of n m (mkmx n m f) = \matrix_(i, j) f i j.
Proof. by apply/matrixP => i j; rewrite !mxE mxget_mkmx. Qed.
Lemma mx_of_nil n m : mx_of n m [::] = 0.
Proof. by apply/matrixP => i j; rewrite !mxE /mxget !nth_nil. Qed.

Theorem mx_of_mmul n m k (A B : mx K) : mx_of n k (mmul n m k A B) = mx_of n m A *m mx_of m k B.
Proof.
rewrite /mmul mx_of_mkmx; apply/matrixP => i j; rewrite !mxE sumn_fE.
by apply: eq_bigr => l _; rewrite !mxE.
Qed.
Theorem mx_of_madd n m (A B : mx K) : mx_of n m (madd n m A B) = mx_of n m A + mx_of n m B.
Proof. by rewrite /madd mx_of_mkmx; apply/matrixP => i j; rewrite !mxE. Qed.
Theorem mx_of_msub n m (A B : mx K) : mx_of n m (msub n m A B) = mx_of n m A - mx_of n m B.
Proof. by rewrite /msub mx_of_mkmx; apply/matrixP => i j; rewrite !mxE. Qed.
Theorem mx_of_mneg n m (A : mx K) : mx_of n m (mneg n m A) = - mx_of n m A.
Proof. by rewrite /mneg mx_of_mkmx; apply/matrixP => i j; rewrite !mxE. Qed.
Theorem mx_of_mzero n m : mx_of n m (mzero K n m) = 0.
Proof. by rewrite /mzero mx_of_mkmx; apply/matrixP => i j; rewrite !mxE. Qed.
Theorem mx_of_meye n : mx_of n n (meye K n) = 1%:M.
Proof. by rewrite /meye mx_of_mkmx; apply/matrixP => i j; rewrite !mxE. Qed.
Theorem mx_of_mtr n m (A : mx K) : mx_of m n (mtr n m A) = (mx_of n m A)^T.
Proof. by rewrite /mtr mx_of_mkmx; apply/matrixP => i j; rewrite !mxE. Qed.
Theorem mtrace_of n (A : mx K) : mtrace n A = \tr (mx_of n n A).
Proof. by rewrite /mtrace sumn_fE /mxtrace; apply: eq_bigr => i _; rewrite mxE. Qed.

(* default elements *)
Lemma nth_map_mx_of n m (z : mx K) (s : seq (mx K)) d : mx_of n m z = 0 ->
  mx_of n m (nth z s d) = [seq mx_of n m a | a <- s]`_d.
Proof.
move=> Hz; case: (ltnP d (size s)) => [lt_d|le_d]; first by rewrite (nth_map z).
by rewrite !nth_default ?size_map.
Qed.
Lemma nth_nil_mx_of n m (s : seq (mx K)) d : mx_of n m (nth [::] s d) = [seq mx_of n m a | a <- s]`_d.
Proof. by rewrite nth_map_mx_of ?mx_of_nil. Qed.
Lemma nth_mzero_mx_of n m (s : seq (mx K)) d :
  mx_of n m (nth (mzero K n m) s d) = [seq mx_of n m a | a <- s]`_d.
Proof. by rewrite nth_map_mx_of ?mx_of_mzero. Qed.

(* the accumulating loops under mx_of *)
Lemma mx_of_foldl_madd n m (f : nat -> mx K) a l :
  mx_of n m (foldl (fun acc c => madd n m acc (f c)) a l) =
  foldl (fun acc c => acc + mx_of n m (f c)) (mx_of n m a) l.
Proof. by elim: l a => //= c l IH a; rewrite IH mx_of_madd. Qed.
Lemma mx_of_foldl_msub n m (f : nat -> mx K) a l :
  mx_of n m (foldl (fun acc c => msub n m acc (f c)) a l) =
  foldl (fun acc c => acc - mx_of n m (f c)) (mx_of n m a) l.
Proof. by elim: l a => //= c l IH a; rewrite IH mx_of_msub. Qed.
Lemma mx_of_csum n m (f : nat -> mx K) lo len :
  mx_of n m (csum (madd n m) (mzero K n m) f lo len) = \sum_(lo <= c < lo + len) mx_of n m (f c).
Proof. by rewrite /csum mx_of_foldl_madd (foldl_addE (fun c => mx_of n m (f c))) mx_of_mzero add0r. Qed.

Theorem dotU_refines n m k (x y : seq (mx K)) d : (d < size x)%N ->
  mx_of n k (nth [::] (dotU n m k x y) d) =
  \sum_(c < d.+1) mx_of n m (nth [::] x c) *m mx_of m k (nth [::] y (d - c)).
Proof.
move=> lt_d; rewrite /dotU /cauchyK nth_mkseq // mx_of_csum add0n big_mkord.
by apply: eq_bigr => c _; rewrite mx_of_mmul.
Qed.

Theorem solveU_refines n k (A : seq (mx K)) (Ainv0 : mx K) (B : seq (mx K)) :
  [seq mx_of n k Y | Y <- solveU n k A Ainv0 B] =
  solveM [seq mx_of n n a | a <- A] (mx_of n n Ainv0) [seq mx_of n k b | b <- B].
Proof.
rewrite /solveU /solveM /solveK size_map.
rewrite (@map_seriesT _ _ (mx_of n k) _ (solve_step (fun (a : 'M[K]_n) (b : 'M[K]_(n, k)) => a *m b)
           (fun b1 b2 : 'M[K]_(n, k) => b1 - b2) 0 0 [seq mx_of n n a | a <- A] (mx_of n n Ainv0)
           [seq mx_of n k b | b <- B])).
  by rewrite mx_of_mmul nth_mzero_mx_of.
move=> ys; rewrite /solve_step size_map mx_of_mmul mx_of_foldl_msub.
rewrite (foldl_subE (fun k0 => mx_of n k (mmul n n k (nth (mzero K n n) A k0)
           (nth (mzero K n k) ys (size ys - k0))))).
rewrite (foldl_subE (fun k0 => [seq mx_of n n a | a <- A]`_k0 *m
           [seq mx_of n k a | a <- ys]`_(size ys - k0))).
rewrite nth_mzero_mx_of; congr (_ *m (_ - _)); apply: eq_bigr => c _.
by rewrite mx_of_mmul !nth_mzero_mx_of.
Qed.

(* hence, on the executable model itself: A(t) X(t) = B(t) modulo t^D *)
Theorem solveU_spec n k (A : seq (mx K)) (Ainv0 : mx K) (B : seq (mx K)) d :
  mx_of n n (nth [::] A 0) *m mx_of n n Ainv0 = 1%:M -> (d < size A)%N ->
  \sum_(c < d.+1) mx_of n n (nth [::] A c) *m mx_of n k (nth [::] (solveU n k A Ainv0 B) (d - c)) = mx_of n k (nth [::] B d).
Proof.
rewrite !nth_nil_mx_of => H lt_d.
rewrite -(@solveM_spec K n k [seq mx_of n n a | a <- A] (mx_of n n Ainv0) _ d H) ?size_map //.
by apply: eq_bigr => c _; rewrite !nth_nil_mx_of solveU_refines.
Qed.

Lemma invU_refines n' (x : seq (mx K)) (xinv0 : mx K) :
  [seq mx_of n'.+1 n'.+1 Y | Y <- invU n'.+1 x xinv0] =
  invR [seq mx_of n'.+1 n'.+1 a | a <- x] (mx_of n'.+1 n'.+1 xinv0).
Proof.
rewrite /invU /invR /invK size_map.
apply: map_seriesT => ys.
rewrite /inv_step size_map mx_of_mmul mx_of_mneg mx_of_csum csumE mulmxE; congr (_ * _).
by apply: eq_bigr => c _; rewrite mx_of_mmul !nth_mzero_mx_of.
Qed.

(* and A(t) inv(A)(t) = I modulo t^D for the executable inverse (n = n'.+1 so that 'M_n is a ring) *)
Theorem invU_spec n' (x : seq (mx K)) (xinv0 : mx K) d : let n := n'.+1 in
  mx_of n n (nth [::] x 0) *m mx_of n n xinv0 = 1%:M -> (d < size x)%N ->
  \sum_(c < d.+1) mx_of n n (nth [::] x c) *m mx_of n n (nth [::] (invU n x xinv0) (d - c)) = (d == 0%N)%:R%:M.
Proof.
move=> n; rewrite {}/n !nth_nil_mx_of => H lt_d.
have -> : (d == 0%N)%:R%:M = ((d == 0%N)%:R : 'M[K]_n'.+1).
  by case: (d == 0%N); rewrite ?mulr1n ?mulr0n ?raddf0.
rewrite -(@invR_right _ [seq mx_of n'.+1 n'.+1 a | a <- x] (mx_of n'.+1 n'.+1 xinv0) d H) ?size_map //.
by apply: eq_bigr => c _; rewrite !nth_nil_mx_of invU_refines.
Qed.
Theorem traceU_spec n (x : seq (mx K)) d : (d < size x)%N -> (traceU n x)`_d = \tr (mx_of n n (nth [::] x d)).
Proof. by move=> lt_d; rewrite /traceU (nth_map [::]) // mtrace_of. Qed.
End Refine.
