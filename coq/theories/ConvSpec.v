From Coq Require Import ZArith QArith Qcanon.
From mathcomp Require Import all_ssreflect all_algebra.
From mathcomp Require Import fingroup perm zify.
From AlgoV Require Import QcField Sums Series Array ArraySpec Conv.
Set Implicit Arguments. Unset Strict Implicit. Unset Printing Implicit Defensive.
Import GRing.Theory.
Local Close Scope Q_scope. Local Close Scope Qc_scope. Local Open Scope nat_scope.
(* ---------- pivots ---------- *)
(* ---------- swap_at ---------- *)
Definition tr (i j k : nat) : nat := if k == j then i else if k == i then j else k.
Lemma nth_swap_at (T : Type) (x0 : T) s i j k : nth x0 (swap_at x0 s i j) k = nth x0 s (tr i j k).
Proof. by rewrite /swap_at /tr nth_set_nth /=; case: (k == j) => //; rewrite nth_set_nth /=; case: (k == i). Qed.
Lemma size_swap_at (T : Type) (x0 : T) s i j : i < size s -> j < size s -> size (swap_at x0 s i j) = size s.
Proof. move=> hi hj; rewrite /swap_at !size_set_nth; lia. Qed.
Lemma tr_lt i j k n : i < n -> j < n -> k < n -> tr i j k < n.
Proof. by rewrite /tr => hi hj hk; case: (k == j) => //; case: (k == i). Qed.
Lemma swap_at_map (T U : Type) (x0 : T) (y0 : U) (f : T -> U) s i j : i < size s -> j < size s ->
  swap_at y0 [seq f a | a <- s] i j = [seq f a | a <- swap_at x0 s i j].
Proof.
move=> hi hj; apply: (@eq_from_nth _ y0).
  by rewrite size_map !size_swap_at ?size_map.
move=> k; rewrite size_swap_at ?size_map // => hk.
rewrite nth_swap_at (nth_map x0) ?tr_lt // (nth_map x0) ?size_swap_at //.
by rewrite nth_swap_at.
Qed.
Lemma size_swaps_loop (T : Type) (x0 : T) piv i s : all (fun p => p < size s) piv -> i + size piv <= size s ->
  size (swaps_loop x0 piv i s) = size s.
Proof.
elim: piv i s => [//|p piv IH] i s /= /andP [hp hall] hi.
have his : i < size s by lia.
by rewrite IH size_swap_at //; lia.
Qed.
Lemma swaps_loop_map (T U : Type) (x0 : T) (y0 : U) (f : T -> U) piv i s :
  all (fun p => p < size s) piv -> i + size piv <= size s ->
  swaps_loop y0 piv i [seq f a | a <- s] = [seq f a | a <- swaps_loop x0 piv i s].
Proof.
elim: piv i s => [//|p piv IH] i s /= /andP [hp hall] hi.
have his : i < size s by lia.
by rewrite (swap_at_map x0) // IH ?size_swap_at //; lia.
Qed.
Lemma map_nth_iota0_full (T : Type) (x0 : T) (s : seq T) : [seq nth x0 s a | a <- iota 0 (size s)] = s.
Proof. by apply: (@eq_from_nth _ x0); rewrite size_map size_iota // => k hk; rewrite (nth_map 0) ?size_iota // nth_iota. Qed.
Lemma size_piv2swap piv : all (fun p => p < size piv) piv -> size (piv2swap piv) = size piv.
Proof. by move=> h; rewrite /piv2swap size_swaps_loop size_iota. Qed.
Lemma apply_swaps_map (T : Type) (x0 : T) (piv : seq nat) (rows : seq T) :
  size rows = size piv -> all (fun p => p < size piv) piv ->
  apply_swaps x0 piv rows = [seq nth x0 rows a | a <- piv2swap piv].
Proof.
move=> hs hall; rewrite /apply_swaps /piv2swap -{1}(map_nth_iota0_full x0 rows) hs.
by apply: swaps_loop_map; rewrite size_iota.
Qed.
Theorem apply_swaps_index (T : Type) (x0 : T) (piv : seq nat) (rows : seq T) :
  size rows = size piv -> all (fun p => p < size piv) piv ->
  apply_swaps x0 piv rows = [seq nth x0 rows (nth 0 (piv2swap piv) c) | c <- iota 0 (size piv)].
Proof.
move=> hs hall; rewrite apply_swaps_map //.
rewrite -{1}(map_nth_iota0_full 0 (piv2swap piv)) size_piv2swap // -map_comp.
by [].
Qed.
(* ---------- the loop as a permutation ---------- *)
Fixpoint cnt (piv : seq nat) (i : nat) : nat := if piv is p :: piv' then (p != i) + cnt piv' i.+1 else 0.
Lemma cntE piv i : count (fun k => nth 0 piv k != i + k) (iota 0 (size piv)) = cnt piv i.
Proof.
elim: piv i => [//|p piv IH] i.
rewrite [size _]/= -[iota 0 _.+1]/(0 :: iota 1 (size piv)) [count _ _]/= addn0 [cnt _ _]/=.
congr (_ + _); rewrite -[1]/(1 + 0) iotaDl count_map -IH.
by apply: eq_count => k /=; rewrite addSn addnS.
Qed.
Lemma loop_sigma N piv i s (sg : 'S_N) : size s = N -> (forall k : 'I_N, nth 0 s k = sg k :> nat) ->
  all (fun p => p < N) piv -> i + size piv <= N ->
  exists sg' : 'S_N, (forall k : 'I_N, nth 0 (swaps_loop 0 piv i s) k = sg' k :> nat)
     /\ odd_perm sg' = odd_perm sg (+) odd (cnt piv i).
Proof.
elim: piv i s sg => [|p piv IH] i s sg hs hsg /=.
  by move=> _ _; exists sg; rewrite addbF.
case/andP=> hp hall hi.
have hiN : i < N by lia.
pose I := Ordinal hiN; pose P := Ordinal hp.
have [||//||sg' [h1 h2]] := IH i.+1 (swap_at 0 s i p) (tperm I P * sg)%g.
- by rewrite size_swap_at ?hs.
- move=> k; rewrite nth_swap_at permM /tr.
  have -> : (k == p :> nat) = (k == P) by [].
  have -> : (k == i :> nat) = (k == I) by [].
  case: eqP => [->|/eqP kP]; first by rewrite tpermR -hsg.
  case: eqP => [->|/eqP kI]; first by rewrite tpermL -hsg.
  by rewrite tpermD 1?eq_sym.
- lia.
exists sg'; split=> //.
rewrite h2 odd_permM odd_tperm oddD oddb.
have -> : (I != P) = (p != i) by rewrite eq_sym.
by rewrite addbA [sg (+) _]addbC.
Qed.
Lemma piv2swap_sigma piv : all (fun p => p < size piv) piv ->
  exists sg : 'S_(size piv), (forall k : 'I_(size piv), nth 0 (piv2swap piv) k = sg k :> nat)
     /\ odd_perm sg = odd (count (fun i => nth 0 piv i != i) (iota 0 (size piv))).
Proof.
move=> hall.
have [||//||sg [h1 h2]] := @loop_sigma (size piv) piv 0 (iota 0 (size piv)) 1%g.
- by rewrite size_iota.
- by move=> k; rewrite nth_iota // perm1.
- by [].
exists sg; split=> //.
by rewrite h2 odd_perm1 -cntE.
Qed.
Lemma piv2swap_lt piv c : all (fun p => p < size piv) piv -> c < size piv -> nth 0 (piv2swap piv) c < size piv.
Proof.
move=> hall hc; have [sg [h _]] := piv2swap_sigma hall.
by rewrite (h (Ordinal hc)).
Qed.
Theorem piv2swap_perm (piv : seq nat) : all (fun p => p < size piv) piv ->
  perm_eq (piv2swap piv) (iota 0 (size piv)).
Proof.
move=> hall; have [sg [h _]] := piv2swap_sigma hall.
have E : piv2swap piv = [seq val (sg k) | k <- enum 'I_(size piv)].
  apply: (@eq_from_nth _ 0); first by rewrite size_map size_enum_ord size_piv2swap.
  move=> k; rewrite size_piv2swap // => hk.
  have hk' : k < size (enum 'I_(size piv)) by rewrite size_enum_ord.
  have EE : nth (Ordinal hk) (enum 'I_(size piv)) k = Ordinal hk by apply: val_inj; rewrite /= nth_enum_ord.
  by rewrite (nth_map (Ordinal hk)) // EE (h (Ordinal hk)).
have U : uniq (piv2swap piv).
  rewrite E map_inj_uniq ?enum_uniq //.
  by move=> a b /val_inj /perm_inj.
have S : {subset piv2swap piv <= iota 0 (size piv)}.
  by move=> a; rewrite E => /mapP [k _ ->]; rewrite mem_iota /=.
have [_ M] := uniq_min_size U S (eq_leq (etrans (size_iota _ _) (esym (size_piv2swap hall)))).
by apply: uniq_perm => //; exact: iota_uniq.
Qed.

(* ---------- helpers for tri (nat scope) ---------- *)
Lemma mem_tri N r c : ((r, c) \in tri N) = (r <= c < N).
Proof.
rewrite /tri; apply/idP/idP.
  case/allpairsPdep => r' [c' [hr hc [-> ->]]].
  move: hr hc; rewrite !mem_iota; lia.
move=> h; apply/allpairsPdep; exists r, c; rewrite !mem_iota; split=> //; lia.
Qed.
Lemma sumn_tri m k : sumn [seq (m + k) - r | r <- iota k m] = (m * m.+1)./2.
Proof.
elim: m k => [//|m IH] k.
rewrite [iota _ _]/= [map _ _]/= [sumn _]/=.
have -> : [seq m.+1 + k - r | r <- iota k.+1 m] = [seq m + k.+1 - r | r <- iota k.+1 m].
  by apply: eq_map => r; lia.
rewrite IH; lia.
Qed.

Section PivDet.
Variable K : fieldType.
Local Open Scope ring_scope.
Lemma mget_piv2mat piv r c : (r < size piv)%N -> (c < size piv)%N ->
  mget (piv2mat K piv) r c = (r == nth 0%N (piv2swap piv) c)%:R.
Proof.
move=> hr hc; rewrite /mget /piv2mat.
rewrite (nth_map 0%N) ?size_iota // (nth_map 0%N) ?size_iota //.
by rewrite !nth_iota // !add0n.
Qed.
Lemma sumn_f_delta n a (f : nat -> K) :
  sumn_f n (fun r => (r == a)%:R * f r) = if (a < n)%N then f a else 0.
Proof.
elim: n => [//|n IH] /=; rewrite IH ltnS.
case: (ltngtP a n) => h.
- by rewrite mul0r addr0.
- by rewrite mul0r addr0.
- by rewrite h mul1r add0r.
Qed.
Theorem piv2mat_rows (piv : seq nat) (A : seq (seq K)) (c j : nat) :
  size A = size piv -> all (fun p => (p < size piv)%N) piv -> (c < size piv)%N ->
  sumn_f (size piv) (fun r => mget (piv2mat K piv) r c * mget A r j) = mget (apply_swaps [::] piv A) c j.
Proof.
move=> hs hall hc.
rewrite (@eq_sumn_f _ _ _ (fun r => (r == nth 0%N (piv2swap piv) c)%:R * mget A r j)); last first.
  by move=> r hr; rewrite mget_piv2mat.
rewrite sumn_f_delta piv2swap_lt // apply_swaps_index // /mget.
by rewrite (nth_map 0%N) ?size_iota // nth_iota // add0n.
Qed.
Theorem piv2mat_det (piv : seq nat) : all (fun p => (p < size piv)%N) piv ->
  \det (\matrix_(r < size piv, c < size piv) mget (piv2mat K piv) r c) = piv2det K piv.
Proof.
move=> hall; have [sg [h1 h2]] := piv2swap_sigma hall.
have -> : (\matrix_(r < size piv, c < size piv) mget (piv2mat K piv) r c) = (perm_mx sg)^T.
  apply/matrixP => r c; rewrite !mxE mget_piv2mat // h1.
  by rewrite eq_sym.
by rewrite det_tr det_perm h2 /piv2det modn2.
Qed.

(* ---------- symvec / vecsym ---------- *)
Theorem size_tri N : size (tri N) = (N * N.+1)./2.
Proof.
rewrite /tri size_allpairs_dep.
have -> : [seq size (iota r (N - r)) | r <- iota 0 N] = [seq ((N + 0) - r)%N | r <- iota 0 N].
  by apply: eq_map => r; rewrite size_iota addn0.
exact: sumn_tri.
Qed.
Theorem tri_uniq N : uniq (tri N).
Proof.
rewrite /tri; apply: allpairs_uniq_dep.
- exact: iota_uniq.
- by move=> r _; exact: iota_uniq.
by move=> [r c] [r' c'] _ _ /= [-> ->].
Qed.
Lemma mget_vecsym N (v : seq K) r c : (r < N)%N -> (c < N)%N ->
  mget (vecsym N v) r c = nth 0 v (index (minn r c, maxn r c) (tri N)).
Proof.
move=> hr hc; rewrite /mget /vecsym.
rewrite (nth_map 0%N) ?size_iota // (nth_map 0%N) ?size_iota //.
by rewrite !nth_iota // !add0n.
Qed.
Lemma nth_symvec u N (A : seq (seq K)) k : (k < size (tri N))%N ->
  nth 0 (symvec u N A) k =
   let rc := nth (0%N,0%N) (tri N) k in
   match u with
        | UF => 2%:R^-1 * (mget A rc.1 rc.2 + mget A rc.2 rc.1)
        | UL => mget A rc.2 rc.1
        | UU => mget A rc.1 rc.2 end.
Proof. by move=> hk; rewrite /symvec (nth_map (0%N,0%N)). Qed.
Lemma half2 (a : K) : (2%:R : K) != 0 -> 2%:R^-1 * (a + a) = a.
Proof. by move=> h; rewrite -mulr2n -[a *+ 2]mulr_natl (mulKf h). Qed.
Theorem symvec_vecsym (u : uplo) (N : nat) (v : seq K) : (2%:R : K) != 0 -> size v = size (tri N) ->
  symvec u N (vecsym N v) = v.
Proof.
move=> h2 sv; apply: (@eq_from_nth _ 0); first by rewrite /symvec size_map.
move=> k; rewrite {1}/symvec size_map => hk.
rewrite nth_symvec //.
have := mem_nth (0%N,0%N) hk.
have := index_uniq (0%N,0%N) hk (tri_uniq N).
case: (nth _ _ k) => r c /= hidx; rewrite mem_tri => hrc.
have hr : (r < N)%N by lia.
have hc : (c < N)%N by lia.
have m1 : minn r c = r by lia.
have m2 : maxn r c = c by lia.
have m3 : minn c r = r by lia.
have m4 : maxn c r = c by lia.
by case: u; rewrite !mget_vecsym // ?m1 ?m2 ?m3 ?m4 hidx // half2.
Qed.
Lemma mget_vecsym_symvec u N (A : seq (seq K)) r c : (r < N)%N -> (c < N)%N ->
  mget (vecsym N (symvec u N A)) r c =
   let rc := (minn r c, maxn r c) in
   match u with
        | UF => 2%:R^-1 * (mget A rc.1 rc.2 + mget A rc.2 rc.1)
        | UL => mget A rc.2 rc.1
        | UU => mget A rc.1 rc.2 end.
Proof.
move=> hr hc; rewrite mget_vecsym //.
have hm : (minn r c, maxn r c) \in tri N by rewrite mem_tri; lia.
by rewrite nth_symvec ?index_mem // nth_index.
Qed.
Theorem vecsym_symvec_F (N : nat) (A : seq (seq K)) r c : (r < N)%N -> (c < N)%N ->
  mget (vecsym N (symvec UF N A)) r c = 2%:R^-1 * (mget A r c + mget A c r).
Proof.
move=> hr hc; rewrite mget_vecsym_symvec //=.
have [[-> ->]|[-> ->]] : (minn r c = r /\ maxn r c = c) \/ (minn r c = c /\ maxn r c = r) by lia.
  by [].
by rewrite addrC.
Qed.
Theorem vecsym_symvec_sym (u : uplo) (N : nat) (A : seq (seq K)) r c : (2%:R : K) != 0 -> (r < N)%N -> (c < N)%N ->
  (forall i j, (i < N)%N -> (j < N)%N -> mget A i j = mget A j i) ->
  mget (vecsym N (symvec u N A)) r c = mget A r c.
Proof.
move=> h2 hr hc sym; rewrite mget_vecsym_symvec //=.
have [[-> ->]|[-> ->]] : (minn r c = r /\ maxn r c = c) \/ (minn r c = c /\ maxn r c = r) by lia.
  by case: u; rewrite ?(sym c r) // half2.
by case: u; rewrite ?(sym c r) // half2.
Qed.

(* ---------- shift ---------- *)
Theorem size_shiftS (s : nat) (b : bool) (x : seq K) : size (shiftS s b x) = size x.
Proof.
rewrite /shiftS; case: b.
  by rewrite size_cat size_drop size_nseq; lia.
case: s => [//|s]; rewrite size_cat size_nseq size_take; case: ifP; lia.
Qed.
Theorem shift_shift (s : nat) (x : seq K) d : (0 < s)%N -> (d + s < size x)%N ->
  nth 0 (shiftS s true (shiftS s false x)) d = nth 0 x d.
Proof.
move=> s0 hd.
have E : shiftS s false x = nseq s 0 ++ take (size x - s) x.
  rewrite /shiftS; case: s s0 hd => // s _ hd; congr (nseq _ _ ++ _); lia.
rewrite {1}/shiftS E nth_cat size_drop size_cat size_nseq size_take.
have -> : (if (size x - s < size x)%N then (size x - s)%N else size x) = (size x - s)%N by case: ifP; lia.
have -> : (d < s + (size x - s) - s)%N by lia.
rewrite nth_drop nth_cat size_nseq.
have -> : (s + d < s)%N = false by lia.
have -> : (s + d - s = d)%N by lia.
by rewrite nth_take //; lia.
Qed.
End PivDet.

(* ---------- base point + directions <-> polynomial (bounded, by reflection) ---------- *)
Definition small_shapes : seq shape :=
  [:: [::]] ++ [seq [:: a] | a <- iota 1 3] ++ [seq [:: a; b] | a <- iota 1 3, b <- iota 1 3]
  ++ flatten [seq [seq [:: a; b; c] | b <- iota 1 3, c <- iota 1 3] | a <- iota 1 3].
Definition roundtrip_ok (D P : nat) (shp : shape) : bool :=
  let s := [:: D; P] ++ shp in
  let g1 := utpm2dirs_gather s in
  let g2 := dirs2utpm_gather g1.1 in
  (g2.1 == s) && (gather_comp g1 g2 == iota 0 (nelem s)) &&
  (let h2 := utpm2dirs_gather g2.1 in gather_comp g2 h2 == iota 0 (nelem s)).
Lemma roundtrip_all : all (fun D => all (fun P => all (roundtrip_ok D P) small_shapes) (iota 1 3)) (iota 1 3) = true.
Proof. by vm_compute. Qed.
Opaque roundtrip_ok.
Theorem base_dirs_roundtrip_bounded D P shp : 0 < D <= 3 -> 0 < P <= 3 -> shp \in small_shapes ->
  roundtrip_ok D P shp = true.
Proof.
move=> hD hP hs.
have /allP /(_ D) H := roundtrip_all.
have /allP /(_ P) H2 : all (fun P => all (roundtrip_ok D P) small_shapes) (iota 1 3).
  by apply: H; rewrite mem_iota; lia.
have /allP /(_ shp) H3 : all (roundtrip_ok D P) small_shapes.
  by apply: H2; rewrite mem_iota; lia.
exact: H3.
Qed.

