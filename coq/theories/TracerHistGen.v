(* GENERIC version of TracerSpecC.v: the reverse sweep rolls every in-place write back and re-applying the recorded writes
   restores the state of the forward evaluation -- for an ARBITRARY carrier T and ARBITRARY operations (no algebraic law is
   used: the facts only concern which heap cells the NSet nodes save and restore). *)
From mathcomp Require Import all_ssreflect.
From AlgoV Require Import Tracer.
Set Implicit Arguments. Unset Strict Implicit. Unset Printing Implicit Defensive.

Section SeqAux.
Variable A : Type.
Lemma g_set_nth_catl (d : A) s1 s2 n y : (n < size s1) -> set_nth d (s1 ++ s2) n y = set_nth d s1 n y ++ s2.
Proof. by elim: s1 n => [|x s1 IH] [|n] //= lt; rewrite IH. Qed.
Lemma g_set_nth_same (d : A) s n : (n < size s) -> set_nth d s n (nth d s n) = s.
Proof. by elim: s n => [|x s IH] [|n] //= lt; rewrite IH. Qed.
Lemma g_set_nth_twice (d : A) s n y z : set_nth d (set_nth d s n y) n z = set_nth d s n z.
Proof. by rewrite set_set_nth eqxx. Qed.
End SeqAux.

Section HistoryGen.
Variable S : Type.
Variables (zero : S) (add sub mul div : S -> S -> S) (neg : S -> S).
Variable natmul : nat -> S -> S.
Variable pown : S -> nat -> S.
Variable unval : nat -> S -> S.
Variable unpart : nat -> S -> S -> S.
Implicit Types (t : tape S) (xs ybars : seq S) (outs : seq nat).

Local Notation hgetS := (@hget S zero).
Local Notation hsetS := (@hset S zero).
Local Notation nvalS := (@nval S zero).
Local Notation derefS := (@deref S zero).
Local Notation fwd := (@fwd_node S zero add sub mul div neg pown unval).
Local Notation revn := (@rev_node S zero add mul div neg natmul pown unpart).
Local Notation revl := (@rev_loop S zero add mul div neg natmul pown unpart).
Local Notation baradd := (@bar_add S zero add).
Local Notation seedS := (@seed S zero add).

(* ---------- heaps ---------- *)
Definition gshape (h : heap S) : seq nat := map size h.

Lemma size_hset (h : heap S) b k v : (b < size h) -> size (hsetS h b k v) = size h.
Proof. by move=> lt; rewrite /hset size_set_nth; apply/maxn_idPr. Qed.

Lemma hset_cat (h1 h2 : heap S) b k v : (b < size h1) -> hsetS (h1 ++ h2) b k v = hsetS h1 b k v ++ h2.
Proof. by move=> lt; rewrite /hset nth_cat lt g_set_nth_catl. Qed.

Lemma hget_cat (h1 h2 : heap S) b k : (b < size h1) -> hgetS (h1 ++ h2) b k = hgetS h1 b k.
Proof. by move=> lt; rewrite /hget nth_cat lt. Qed.

Lemma hset_undo (h : heap S) b k v : (b < size h) -> (k < size (nth [::] h b)) ->
  hsetS (hsetS h b k v) b k (hgetS h b k) = h.
Proof.
move=> lb lk; rewrite /hset /hget nth_set_nth /= eqxx !g_set_nth_twice.
by rewrite g_set_nth_same // g_set_nth_same.
Qed.

Lemma shape_set_nth (h : heap S) b r : (b < size h) -> size r = size (nth [::] h b) ->
  gshape (set_nth [::] h b r) = gshape h.
Proof. by rewrite /gshape; elim: h b => [|x h IH] [|b] //= lt e; rewrite ?e ?IH. Qed.

Lemma shape_hset (h : heap S) b k v : (b < size h) -> (k < size (nth [::] h b)) -> gshape (hsetS h b k v) = gshape h.
Proof. by move=> lb lk; apply: shape_set_nth => //; rewrite size_set_nth; apply/maxn_idPr. Qed.

Lemma nth_shape (h : heap S) b : nth 0 (gshape h) b = size (nth [::] h b).
Proof.
case: (ltnP b (size h)) => lt; first by rewrite (nth_map [::]).
by rewrite !nth_default // size_map.
Qed.

Definition gzrows (ns : seq nat) : heap S := [seq nseq n zero | n <- ns].
Definition gzn (n : node S) : option nat := if nop n is NZeros m then Some m else None.

Definition ginr (h : heap S) (v : val S) : bool :=
  match v with VS _ => true | VBuf b => (b < size h) | VRef b _ => (b < size h) end.

Lemma inr_mono (h h' : heap S) v : (size h <= size h') -> ginr h v -> ginr h' v.
Proof. by move=> le; case: v => //= b *; apply: leq_trans le. Qed.

Lemma inr_nth (h : heap S) vs a : all (ginr h) vs -> ginr h (nth (VS zero) vs a).
Proof.
move=> /all_nthP al; case: (ltnP a (size vs)) => lt; first exact: al.
by rewrite nth_default.
Qed.

Lemma deref_cat (h1 h2 : heap S) v : ginr h1 v -> derefS (h1 ++ h2) v = derefS h1 v.
Proof. by case: v => //= b k lt; rewrite hget_cat. Qed.

(* ---------- the value heap of the reverse sweep ---------- *)
Lemma rheap_bar_add vals (st : rstate S) a v : rheap (baradd vals st a v) = rheap st.
Proof. by case: st => h bh bar; rewrite /bar_add; case: (nth _ _ _). Qed.

Lemma rheap_seed vals (st : rstate S) outs ybars : rheap (seedS vals st outs ybars) = rheap st.
Proof. by rewrite /seed; elim: (zip _ _) st => //= ov l IH st; rewrite IH rheap_bar_add. Qed.

Definition gundo_step (vals : seq (val S)) (store : seq (option S)) (h : heap S) (j : nat) (n : node S) : heap S :=
  match nop n with
  | NSet k => match nth (VS zero) vals (nth 0 (nargs n) 0) with
              | VBuf b => match nth None store j with Some old => hsetS h b k old | None => h end
              | _ => h end
  | _ => h end.

Definition gredo_step (vals : seq (val S)) (h : heap S) (n : node S) : heap S :=
  match nop n with
  | NSet k => match nth (VS zero) vals (nth 0 (nargs n) 0) with
              | VBuf b => hsetS h b k (nvalS h vals (nth 0 (nargs n) 1))
              | _ => h end
  | _ => h end.

Lemma rheap_rev_node vals store (st : rstate S) j n :
  rheap (revn vals store st j n) = gundo_step vals store (rheap st) j n.
Proof.
rewrite /rev_node /gundo_step; case: (nop n) => [|c|k|op||f|m|m|k|k]; rewrite ?rheap_bar_add //.
  by case: op; rewrite !rheap_bar_add.
case: (nth _ _ _) => // b; case: (nth _ _ _) => [old|]; rewrite ?rheap_bar_add //=; by rewrite rheap_bar_add.
Qed.

Lemma rollforwardE t vals h : @rollforward S zero t vals h = foldl (gredo_step vals) h t.
Proof. by []. Qed.

Lemma buf_sizeP t a n : buf_size t a = Some n -> nop (nth (Node (NInput S) [::]) t a) = NZeros S n.
Proof. by rewrite /buf_size; case: (nop _) => //= m [->]. Qed.

(* ---------- one run ---------- *)
Section Run.
Variables (t : tape S) (xs : seq S).
Hypothesis Hwf : wf_tape (size xs) t.

Let nd0 : node S := Node (NInput S) [::].
Let nd j := nth nd0 t j.
Let init : fstate S := FState [:: xs] [::] [::].
Definition gstj j := foldl fwd init (take j t).

Lemma stjS j : (j < size t) -> gstj j.+1 = fwd (gstj j) (nd j).
Proof. by move=> lt; rewrite /gstj (take_nth nd0) // -cats1 foldl_cat. Qed.

Lemma wfj j : (j < size t) -> wf_node (size xs) t j (nd j).
Proof. by case/andP: Hwf => _ /allP H lt; apply: H; rewrite mem_iota. Qed.

Lemma fwd_vals s n : exists v, fvals (fwd s n) = rcons (fvals s) v.
Proof.
case: s => h vs st; rewrite /fwd_node; case: (nop n) => *; try by eexists.
by case: (nth _ _ _) => *; eexists.
Qed.

Lemma fwd_store s n : exists v, fstore (fwd s n) = rcons (fstore s) v.
Proof.
case: s => h vs st; rewrite /fwd_node; case: (nop n) => *; try by eexists.
by case: (nth _ _ _) => *; eexists.
Qed.

Record gfinv j (s : fstate S) : Prop := gFInv {
  fi_vals : size (fvals s) = j;
  fi_store : size (fstore s) = j;
  fi_pos : (0 < size (fheap s));
  fi_inr : all (ginr (fheap s)) (fvals s);
  fi_shape : gshape (fheap s) = size xs :: pmap gzn (take j t);
  fi_zeros : forall a n, (a < j) -> nop (nd a) = NZeros S n ->
             exists2 b, nth (VS zero) (fvals s) a = VBuf S b & nth 0 (gshape (fheap s)) b = n }.

Lemma finv_step j s : gfinv j s -> (j < size t) -> gfinv j.+1 (fwd s (nd j)).
Proof.
case: s => h vs st [/= sv ss hp hi hs hz] lt; have wf := wfj lt.
have tk : pmap gzn (take j.+1 t) = pmap gzn (take j t) ++ (if gzn (nd j) is Some m then [:: m] else [::]).
  by rewrite (take_nth nd0) // -cats1 pmap_cat /=; case: (gzn _).
have same v o : ginr h v -> (forall n, nop (nd j) <> NZeros S n) ->
    gfinv j.+1 (FState h (rcons vs v) (rcons st o)).
  move=> iv nz; split; rewrite /= ?size_rcons ?sv ?ss ?all_rcons ?iv //.
    rewrite hs tk /gzn; case E: (nop (nd j)) => [|c|k|op||f|m|m|k|k]; rewrite ?cats0 //.
    by case: (nz _ E).
  move=> a n; rewrite ltnS leq_eqVlt => /orP [/eqP -> /nz //|lta] E.
  by rewrite nth_rcons sv lta; apply: hz.
move: wf; rewrite /wf_node; case E: (nop (nd j)) => [|c|k|op||f|m|m|k|k] wf; try by apply: same => //; rewrite E.
- (* NZeros *)
  split; rewrite /= ?size_rcons ?sv ?ss ?all_rcons //=.
  + by rewrite size_rcons ltnSn /=; apply: sub_all hi => v; apply: inr_mono; rewrite size_rcons.
  + by rewrite /gshape map_rcons -/(gshape h) hs tk /gzn E size_nseq -cats1.
  + move=> a n; rewrite ltnS leq_eqVlt => /orP [/eqP ->|lta].
      rewrite E => -[<-]; exists (size h); first by rewrite nth_rcons sv ltnn eqxx.
      by rewrite /gshape map_rcons nth_rcons size_map ltnn eqxx size_nseq.
    move=> /(hz _ _ lta) [b Eb <-]; exists b; first by rewrite nth_rcons sv lta.
    rewrite /gshape map_rcons nth_rcons size_map.
    by have := inr_nth a hi; rewrite Eb /= => ->.
- (* NSet *)
  case/and3P: wf => wa /andP [/eqP sz _]; case Eb: (buf_size _ _) => [n|] // kn.
  have la0 : (nth 0 (nargs (nd j)) 0 < j) by apply: (all_nthP 0 wa); rewrite sz.
  have [b Ev Es] := hz _ _ la0 (buf_sizeP Eb).
  rewrite Ev.
  have lb : (b < size h) by have := inr_nth (nth 0 (nargs (nd j)) 0) hi; rewrite Ev.
  have lk : (k < size (nth [::] h b)) by rewrite -nth_shape Es.
  split; rewrite /= ?size_rcons ?sv ?ss ?all_rcons ?size_hset //=.
  + by apply: sub_all hi => v; apply: inr_mono; rewrite size_hset.
  + by rewrite shape_hset // hs tk /gzn E cats0.
  + move=> a n'; rewrite ltnS leq_eqVlt => /orP [/eqP ->|lta]; first by rewrite E.
    by rewrite shape_hset // nth_rcons sv lta; apply: hz.
- (* NGet *)
  apply: same; last by rewrite E.
  by case Ev: (nth _ _ _) => [|b|] //=; have := inr_nth (nth 0 (nargs (nd j)) 0) hi; rewrite Ev.
Qed.

Lemma stj_inv j : (j <= size t) -> gfinv j (gstj j).
Proof.
elim: j => [_|j IH lt]; last by rewrite stjS //; apply: finv_step => //; apply: IH; apply: ltnW.
by rewrite /gstj take0 /=; split => //=; rewrite take0.
Qed.

Lemma stj_vals_nth j d a : (j + d <= size t) -> (a < j) ->
  nth (VS zero) (fvals (gstj (j + d))) a = nth (VS zero) (fvals (gstj j)) a.
Proof.
elim: d => [|d IH]; first by rewrite addn0.
rewrite addnS => lt la; rewrite stjS //; have [v ->] := fwd_vals (gstj (j + d)) (nd (j + d)).
rewrite nth_rcons (fi_vals (stj_inv (ltnW lt))) (leq_trans la (leq_addr _ _)).
by apply: IH => //; apply: ltnW.
Qed.

Lemma stj_store_nth j d a : (j + d <= size t) -> (a < j) ->
  nth None (fstore (gstj (j + d))) a = nth None (fstore (gstj j)) a.
Proof.
elim: d => [|d IH]; first by rewrite addn0.
rewrite addnS => lt la; rewrite stjS //; have [v ->] := fwd_store (gstj (j + d)) (nd (j + d)).
rewrite nth_rcons (fi_store (stj_inv (ltnW lt))) (leq_trans la (leq_addr _ _)).
by apply: IH => //; apply: ltnW.
Qed.

Definition gfvalsF := fvals (gstj (size t)).
Definition gfstoreF := fstore (gstj (size t)).

Lemma vals_nth j a : (j <= size t) -> (a < j) -> nth (VS zero) gfvalsF a = nth (VS zero) (fvals (gstj j)) a.
Proof. by move=> le la; rewrite /gfvalsF -(subnKC le); apply: stj_vals_nth => //; rewrite subnKC. Qed.

Lemma store_nth j a : (j <= size t) -> (a < j) -> nth None gfstoreF a = nth None (fstore (gstj j)) a.
Proof. by move=> le la; rewrite /gfstoreF -(subnKC le); apply: stj_store_nth => //; rewrite subnKC. Qed.

(* the heap after j nodes, extended by the (still zero) rows allocated later *)
Definition E j : heap S := fheap (gstj j) ++ gzrows (pmap gzn (drop j t)).

Lemma Estep j : (j < size t) ->
  gundo_step gfvalsF gfstoreF (E j.+1) j (nd j) = E j /\ gredo_step gfvalsF (E j) (nd j) = E j.+1.
Proof.
move=> lt; have wf := wfj lt; have := stj_inv (ltnW lt).
have hv a : (a < j) -> nth (VS zero) gfvalsF a = nth (VS zero) (fvals (gstj j)) a.
  by apply: vals_nth; apply: ltnW.
rewrite /E /gundo_step /gredo_step (store_nth lt (ltnSn j)) (drop_nth nd0 lt) -/(nd j) stjS //.
case: (gstj j) hv => h vs st /= hv [/= sv ss hp hi hs hz].
move: wf; rewrite /wf_node /gzn; case E: (nop (nd j)) => [|c|k|op||f|m|m|k|k] wf //=.
- by rewrite cat_rcons.
- case/and3P: wf => wa /andP [/eqP sz _]; case Eb: (buf_size _ _) => [n|] // kn.
  have la0 : (nth 0 (nargs (nd j)) 0 < j) by apply: (all_nthP 0 wa); rewrite sz.
  have la1 : (nth 0 (nargs (nd j)) 1 < j) by apply: (all_nthP 0 wa); rewrite sz.
  have [b Ev Es] := hz _ _ la0 (buf_sizeP Eb).
  rewrite !hv // Ev /= nth_rcons ss ltnn eqxx.
  have lb : (b < size h) by have := inr_nth (nth 0 (nargs (nd j)) 0) hi; rewrite Ev.
  have lk : (k < size (nth [::] h b)) by rewrite -nth_shape Es.
  split.
    by rewrite hset_cat ?size_hset // hset_undo.
  by rewrite hset_cat // /nval hv // deref_cat //; apply: inr_nth.
Qed.

Lemma rollback j (st : rstate S) : (j <= size t) -> rheap st = E j ->
  rheap (revl gfvalsF gfstoreF (rev (take j t)) j st) = E 0.
Proof.
elim: j st => [|j IH] st lt e; first by rewrite take0.
rewrite (take_nth nd0) // rev_rcons /=; apply: IH; first exact: ltnW.
by rewrite rheap_rev_node e; case: (Estep lt).
Qed.

Lemma rollfwd j : (j <= size t) -> foldl (gredo_step gfvalsF) (E 0) (take j t) = E j.
Proof.
elim: j => [|j IH] lt; first by rewrite take0.
by rewrite (take_nth nd0) // -cats1 foldl_cat IH ?(ltnW lt) //=; case: (Estep lt).
Qed.

Lemma E_0 : E 0 = xs :: [seq nseq (size row) zero | row <- behead (fheap (gstj (size t)))].
Proof.
rewrite /E {1}/gstj take0 drop0 /=; congr (_ :: _).
have := fi_shape (stj_inv (leqnn _)); rewrite take_size => /(congr1 behead) /= <-.
by rewrite /gzrows /gshape behead_map -map_comp.
Qed.

Lemma E_size : E (size t) = fheap (gstj (size t)).
Proof. by rewrite /E drop_size /= cats0. Qed.

Lemma gstj_size : gstj (size t) = @replay S zero add sub mul div neg pown unval t xs.
Proof. by rewrite /gstj take_size. Qed.

End Run.

Local Notation replayS := (@replay S zero add sub mul div neg pown unval).
Local Notation pullbackS := (@pullback S zero add mul div neg natmul pown unpart).
Local Notation pullback_fixedS := (@pullback_fixed S zero add mul div neg natmul pown unpart).

Theorem gen_pullback_rolls_back t outs xs ybars : wf_tape (size xs) t ->
  rheap (pullbackS t (replayS t xs) outs ybars)
  = xs :: [seq nseq (size row) zero | row <- behead (fheap (replayS t xs))].
Proof.
move=> wf; rewrite -gstj_size -(E_0 wf) /pullback.
have := @rollback t xs wf (size t) _ (leqnn _) _; rewrite take_size; apply.
by rewrite rheap_seed /= E_size.
Qed.

Theorem gen_pullback_fixed_restores t outs xs ybars : wf_tape (size xs) t ->
  rheap (pullback_fixedS t (replayS t xs) outs ybars) = fheap (replayS t xs).
Proof.
move=> wf; have := gen_pullback_rolls_back outs ybars wf.
rewrite /pullback_fixed [LHS]/= => ->.
rewrite -gstj_size -(E_0 wf) rollforwardE.
by have := rollfwd wf (leqnn (size t)); rewrite take_size /gfvalsF => ->; rewrite E_size.
Qed.

Theorem gen_second_sweep_same t outs outs' xs ybars ybars' : wf_tape (size xs) t ->
  let fs := replayS t xs in
  let st1 := pullback_fixedS t fs outs ybars in
  pullback_fixedS t (FState (rheap st1) (fvals fs) (fstore fs)) outs' ybars'
  = pullback_fixedS t fs outs' ybars'.
Proof.
by move=> wf fs st1; rewrite /st1 /fs gen_pullback_fixed_restores.
Qed.

End HistoryGen.
