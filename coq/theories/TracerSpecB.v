(* Reverse sweep = transpose of the forward tangent sweep, for the tape model of Tracer.v WITH mutable buffers, views and
   in-place writes (pb_setitem as repaired: copy the cell adjoint, zero the cell adjoint, THEN add to the adjoint of the rhs).

   - `reverse_adjoint`: the statement of statements_K2.v, for every well-formed tape, including in-place writes whose
     right-hand side is a view of the written cell (`y[k] = y[k]`).
   - `unrepaired_selfset_refuted` (end of file): with the rule as it stood before the repair (`R_pullback_unrepaired`:
     add to the adjoint of the rhs FIRST, then zero the cell adjoint) the identity fails on a concrete 6-node tape over int.

   Proof: potential function  Phi_k(st) = sum_{j<k} bar_j * tg_j + sum_{cells (b,c)} bh[b][c] * tgheap_k[b][c]
   (heaps are treated as functions nat -> nat -> S through hget, summed over a square K x K that contains every cell
   that occurs).  `step_inv`: one step of the reverse loop maps Phi_{j+1} to Phi_j and rolls the value heap back;
   `loop_inv`: induction over the tape; `seed_Phi`, `Phi_zero`, `Phi_end`: both ends. *)
From mathcomp Require Import all_ssreflect all_algebra.
From AlgoV Require Import Tracer TracerInst.
Set Implicit Arguments. Unset Strict Implicit. Unset Printing Implicit Defensive.
Import GRing.Theory.
Local Open Scope ring_scope.


(* ---------- generic: a fold whose step appends exactly one element to a list component ---------- *)
Section FoldGrow.
Variables (A B C : Type) (f : A -> B -> A) (p : A -> seq C).
Hypothesis Hp : forall a b, exists x, p (f a b) = rcons (p a) x.

Lemma grow_cat l a : exists e, p (foldl f a l) = p a ++ e.
Proof.
elim: l a => [|b l IH] a /=; first by exists [::]; rewrite cats0.
by have [e ->] := IH (f a b); have [x ->] := Hp a b; exists (x :: e); rewrite cat_rcons.
Qed.

Lemma grow_size l a : size (p (foldl f a l)) = (size (p a) + size l)%N.
Proof.
elim: l a => [|b l IH] a /=; first by rewrite addn0.
by rewrite IH; have [x ->] := Hp a b; rewrite size_rcons addSnnS.
Qed.

Lemma grow_nth x0 a l1 l2 i : (i < size (p a) + size l1)%N ->
  nth x0 (p (foldl f a (l1 ++ l2))) i = nth x0 (p (foldl f a l1)) i.
Proof.
move=> hi; rewrite foldl_cat; have [e ->] := grow_cat l2 (foldl f a l1).
by rewrite nth_cat grow_size hi.
Qed.
End FoldGrow.

Section Adjoint.
Variable S : comRingType.
Variable recip : S -> S.
Variables (unval : nat -> S -> S) (unpart : nat -> S -> S -> S).
Implicit Types (t : tape S) (xs dxs ybars : seq S) (outs : seq nat).

Notation hg := (@hget S 0).
Notation hs := (@hset S 0).
Notation fwd := (@fwd_node S 0 +%R (@r_sub S) *%R (r_div recip) -%R (@r_pown S) unval).
Notation tan := (@tan_node S 0 +%R (@r_sub S) *%R (r_div recip) -%R (@r_natmul S) (@r_pown S) unval unpart).
Notation revn := (@rev_node S 0 +%R *%R (r_div recip) -%R (@r_natmul S) (@r_pown S) unpart).
Notation badd := (@bar_add S 0 +%R).
Notation nt := (@ntan S 0).
Notation nv := (@nval S 0).
Notation v0 := (VS (0 : S)).
Notation nd0 := (Node (NInput S) [::]).

(* ---------- heaps as functions ---------- *)
Lemma hget_hset (h : heap S) b k v b' k' :
  hg (hs h b k v) b' k' = if (b' == b) && (k' == k) then v else hg h b' k'.
Proof.
rewrite /hget /hset nth_set_nth /=; case: (b' =P b) => [->|_] //=.
by rewrite nth_set_nth.
Qed.

Lemma hget_rcons0 (h : heap S) n b c : hg (rcons h (nseq n 0)) b c = hg h b c.
Proof.
rewrite /hget nth_rcons; case: ltngtP => // [hb|->].
  by rewrite [nth [::] h b]nth_default ?nth_nil // ltnW.
by rewrite nth_nseq if_same [nth [::] h _]nth_default ?nth_nil.
Qed.

Lemma deref_ext (h1 h2 : heap S) v :
  (forall b c, hg h1 b c = hg h2 b c) -> deref 0 h1 v = deref 0 h2 v.
Proof. by move=> e; case: v => //=. Qed.

Section Pot.
Variables (K : nat) (V : seq (val S)) (TG : seq S).

Definition H (bh tgh : heap S) : S := \sum_(b < K) \sum_(c < K) hg bh b c * hg tgh b c.
Definition A (n : nat) (bar : seq S) : S := \sum_(a < n) bar`_a * TG`_a.
Definition Phi (n : nat) (tgh : heap S) (st : rstate S) : S := A n (rbar st) + H (rbheap st) tgh.

Lemma dsum_delta b k (d : S) : (b < K)%N -> (k < K)%N ->
  \sum_(b' < K) \sum_(c' < K) (if (b' == b :> nat) && (c' == k :> nat) then d else 0) = d.
Proof.
move=> hb hk; rewrite (bigD1 (Ordinal hb)) //= (bigD1 (Ordinal hk)) //= !eqxx /=.
rewrite big1 ?addr0; last by move=> i; rewrite -val_eqE /= => /negbTE->.
rewrite big1 ?addr0 // => i; rewrite -val_eqE /= => /negbTE-> /=.
by rewrite big1.
Qed.

Lemma H_hset_l bh tgh b k x : (b < K)%N -> (k < K)%N ->
  H (hs bh b k x) tgh = H bh tgh + (x - hg bh b k) * hg tgh b k.
Proof.
move=> hb hk; rewrite /H -[X in _ + X](dsum_delta _ hb hk) -big_split.
apply: eq_bigr => b' _; rewrite -big_split; apply: eq_bigr => c' _ /=.
rewrite hget_hset; case: ifP => [/andP[/eqP-> /eqP->]|_]; last by rewrite addr0.
by rewrite -mulrDl addrC subrK.
Qed.

Lemma H_hset_r bh tgh b k x : (b < K)%N -> (k < K)%N ->
  H bh (hs tgh b k x) = H bh tgh + hg bh b k * (x - hg tgh b k).
Proof.
move=> hb hk; rewrite /H -[X in _ + X](dsum_delta _ hb hk) -big_split.
apply: eq_bigr => b' _; rewrite -big_split; apply: eq_bigr => c' _ /=.
rewrite hget_hset; case: ifP => [/andP[/eqP-> /eqP->]|_]; last by rewrite addr0.
by rewrite -mulrDr addrC subrK.
Qed.

Lemma H_ext_r bh tgh tgh' : (forall b c, hg tgh b c = hg tgh' b c) -> H bh tgh = H bh tgh'.
Proof. by move=> e; apply: eq_bigr => b _; apply: eq_bigr => c _; rewrite e. Qed.

Lemma A_set n bar a x : (a < n)%N -> A n (set_nth 0 bar a x) = A n bar + (x - bar`_a) * TG`_a.
Proof.
move=> ha; rewrite /A.
have -> : (x - bar`_a) * TG`_a = \sum_(i < n) (if i == a :> nat then (x - bar`_a) * TG`_a else 0).
  rewrite (bigD1 (Ordinal ha)) //= eqxx big1 ?addr0 // => i.
  by rewrite -val_eqE /= => /negbTE->.
rewrite -big_split; apply: eq_bigr => i _ /=.
rewrite nth_set_nth /=; case: eqP => [->|_]; last by rewrite addr0.
by rewrite -mulrDl addrC subrK.
Qed.

Hypothesis Kref : forall a b c, nth v0 V a = VRef S b c -> (b < K)%N && (c < K)%N.
Hypothesis Vbuf0 : forall a b, nth v0 V a = VBuf S b -> TG`_a = 0.

Lemma Phi_badd n tgh st a v : (a < n)%N ->
  Phi n tgh (badd V st a v) = Phi n tgh st + v * nt V tgh TG a.
Proof.
move=> ha; case: st => rh bh bar; rewrite /bar_add /ntan /Phi.
case E: (nth v0 V a) => [s|b|b c] /=.
- by rewrite A_set // [_ + v]addrC addrK addrAC.
- by rewrite (Vbuf0 E) mulr0 addr0.
- by case/andP: (Kref E) => hb hc; rewrite H_hset_l // [_ + v]addrC addrK addrA.
Qed.

Lemma rheap_badd st a v : rheap (badd V st a v) = rheap st.
Proof. by case: st => rh bh bar; rewrite /bar_add; case: (nth v0 V a). Qed.

Lemma arith_step2 st j a0 a1 w0 w1 tgh : (a0 < j)%N -> (a1 < j)%N ->
  (rbar st)`_j * TG`_j = w0 * nt V tgh TG a0 + w1 * nt V tgh TG a1 ->
  Phi j tgh (badd V (badd V st a0 w0) a1 w1) = Phi j.+1 tgh st.
Proof.
move=> h0 h1 e; rewrite !Phi_badd // /Phi /A big_ord_recr /= e.
by rewrite -!addrA; congr (_ + _); rewrite addrC -addrA.
Qed.

Lemma arith_step1 st j a0 w0 tgh : (a0 < j)%N ->
  (rbar st)`_j * TG`_j = w0 * nt V tgh TG a0 ->
  Phi j tgh (badd V st a0 w0) = Phi j.+1 tgh st.
Proof.
move=> h0 e; rewrite !Phi_badd // /Phi /A big_ord_recr /= e.
by rewrite -!addrA; congr (_ + _); rewrite addrC.
Qed.

Lemma noop_step st j tgh : TG`_j = 0 -> Phi j tgh st = Phi j.+1 tgh st.
Proof. by move=> e; rewrite /Phi /A big_ord_recr /= e mulr0 addr0. Qed.


Definition argsok (j : nat) (nd : node S) : Prop :=
  match nop nd with NInput => True | _ => forall i, (nth 0%N (nargs nd) i < j)%N end.

Local Opaque bar_add.
Lemma step_inv h vals store tgh tg nd j St st :
  size vals = j -> size tg = j -> size store = j ->
  (forall a, (a < j)%N -> nth v0 V a = nth v0 vals a) ->
  nth v0 V j = nth v0 (fvals (fwd (FState h vals store) nd)) j ->
  (forall a, (a < j)%N -> TG`_a = tg`_a) ->
  TG`_j = (tgvals (tan (TState h vals tgh tg) nd))`_j ->
  nth None St j = nth None (fstore (fwd (FState h vals store) nd)) j ->
  argsok j nd ->
  (forall k b, nop nd = NSet S k -> nth v0 V (nth 0%N (nargs nd) 0) = VBuf S b ->
     (b < K)%N /\ (k < K)%N) ->
  (forall b c, hg (rheap st) b c = hg (fheap (fwd (FState h vals store) nd)) b c) ->
  Phi j tgh (revn V St st j nd) = Phi j.+1 (tgheap (tan (TState h vals tgh tg) nd)) st /\
  (forall b c, hg (rheap (revn V St st j nd)) b c = hg h b c).
Proof.
move=> sv stg sst HV HVj HT HTj HSt Hargs Hset Hheap.
have Hnt a : (a < j)%N -> nt vals tgh tg a = nt V tgh TG a.
  by move=> ha; rewrite /ntan HV // HT.
have Hnv hh a : (a < j)%N -> nv hh V a = nv hh vals a.
  by move=> ha; rewrite /nval HV.
have nthj (T : Type) (x0 : T) (s : seq T) x : size s = j -> nth x0 (rcons s x) j = x.
  by move=> <-; rewrite nth_rcons ltnn eqxx.
have Hnv2 hh a : (forall b c, hg hh b c = hg h b c) -> (a < j)%N -> nv hh V a = nv h vals a.
  by move=> e ha; rewrite /nval HV //; apply: deref_ext.
case: nd HVj HTj HSt Hargs Hset Hheap => op args; case: op => [|c|k|op||f|n|n|k|k] /=.
- rewrite !nthj // => _ HTj _ _ _ Hheap; split=> //; exact: noop_step.
- rewrite !nthj // => _ HTj _ _ _ Hheap; split=> //; exact: noop_step.
- rewrite !nthj // => _ HTj _ _ _ Hheap; split=> //; exact: noop_step.
- case: op => /=; rewrite !nthj // => HVj HTj _ Hargs _ Hheap;
    (split; last by move=> b c; rewrite !rheap_badd);
    rewrite /rev_node /= /bar_get HVj; (apply: arith_step2; [exact: Hargs | exact: Hargs|]);
    rewrite HTj !Hnt //.
  + by rewrite mulrDr.
  + by rewrite /r_sub mulrBr mulNr.
  + rewrite !Hnv2 //; try exact: Hargs.
    by rewrite mulrDr [ntan _ _ _ _ _ * _]mulrC !mulrA.
  + rewrite [nval 0 (rheap st) V j]/nval HVj /= !Hnv2 //; try exact: Hargs.
    rewrite /r_div /r_sub mulrBl mulrBr mulNr; congr (_ - _).
      by rewrite [ntan _ _ _ _ _ * _]mulrC mulrA.
    rewrite -!mulrA; congr (_ * _).
    by rewrite [ntan _ _ _ _ _ * _]mulrC [RHS]mulrCA.
- rewrite !nthj // => HVj HTj _ Hargs _ Hheap;
    (split; last by move=> b c; rewrite !rheap_badd);
    rewrite /rev_node /= /bar_get HVj; (apply: arith_step1; [exact: Hargs|]);
    rewrite HTj !Hnt //.
  by rewrite mulrN mulNr.
- rewrite !nthj // => HVj HTj _ Hargs _ Hheap;
    (split; last by move=> b c; rewrite !rheap_badd);
    rewrite /rev_node /= /bar_get HVj; (apply: arith_step1; [exact: Hargs|]);
    rewrite HTj !Hnt //.
  rewrite [nval 0 (rheap st) V j]/nval HVj /= !Hnv2 //; try exact: Hargs.
  by rewrite mulrA.
- rewrite !nthj // => HVj HTj _ Hargs _ Hheap;
    (split; last by move=> b c; rewrite !rheap_badd);
    rewrite /rev_node /= /bar_get HVj; (apply: arith_step1; [exact: Hargs|]);
    rewrite HTj !Hnt //.
  rewrite !Hnv2 //; try exact: Hargs.
  by rewrite mulrA.
- rewrite !nthj // => _ HTj _ _ _ Hheap; split.
    rewrite /rev_node /= -(noop_step _ _ HTj) /Phi; congr (_ + _).
    by apply: H_ext_r => b c; rewrite hget_rcons0.
  by move=> b c; rewrite /rev_node /= Hheap hget_rcons0.
- move=> HVj HTj HSt Hargs; have h0 : (nth 0%N args 0 < j)%N := Hargs 0%N.
  have h1 : (nth 0%N args 1 < j)%N := Hargs 1%N.
  move: HVj HTj HSt; rewrite /rev_node /= (HV _ h0).
  case E: (nth v0 vals (nth 0%N args 0)) => [s|b|b c] /=; rewrite !nthj // => _ HTj HSt Hset Hheap.
  + split=> //; exact: noop_step.
  + have [hb hk] := Hset k b erefl erefl.
    rewrite HSt /=; split; last first.
      move=> b' c'; rewrite hget_hset rheap_badd /= Hheap hget_hset.
      by case: ifP => [/andP[/eqP-> /eqP->]|->].
    rewrite (Hnt _ h1); set tana := ntan 0 V tgh TG _; set cb := hg (rbheap st) b k.
    (* the restore step only touches the value heap *)
    set st1 := RState (rheap st) (hs (rbheap st) b k 0) (rbar st).
    have -> : forall rh' (s2 : rstate S), Phi j tgh (RState rh' (rbheap s2) (rbar s2)) = Phi j tgh s2 by [].
    rewrite Phi_badd // -/tana {1}/Phi /= H_hset_l // -/cb.
    rewrite /Phi /A big_ord_recr /= HTj mulr0 addr0 H_hset_r // -/cb.
    by rewrite sub0r mulNr mulrBr -!addrA; congr (_ + (_ + _)); rewrite addrC.
  + split=> //; exact: noop_step.
- rewrite !nthj // => _ HTj _ _ _ Hheap; split=> //; exact: noop_step.
Qed.
Local Transparent bar_add.

End Pot.

(* ---------- shape of one forward / tangent step ---------- *)
Lemma fwd_fvals st nd : exists x, fvals (fwd st nd) = rcons (fvals st) x.
Proof.
case: st => h v s; case: nd => op args; case: op => /=; try by eexists.
by move=> k; case: (nth _ _ _) => /=; eexists.
Qed.

Lemma fwd_fstore st nd : exists x, fstore (fwd st nd) = rcons (fstore st) x.
Proof.
case: st => h v s; case: nd => op args; case: op => /=; try by eexists.
by move=> k; case: (nth _ _ _) => /=; eexists.
Qed.

Lemma tan_tgvals ts nd : exists x, tgvals (tan ts nd) = rcons (tgvals ts) x.
Proof.
case: ts => h v tgh tg; case: nd => op args; case: op => /=; try by eexists.
  by case=> /=; eexists.
by move=> k; case: (nth _ _ _) => /=; eexists.
Qed.

Lemma tan_fwd h v s tgh tg nd :
  theap (tan (TState h v tgh tg) nd) = fheap (fwd (FState h v s) nd) /\
  tvals (tan (TState h v tgh tg) nd) = fvals (fwd (FState h v s) nd).
Proof.
case: nd => op args; case: op => //=.
  by case.
by move=> k; case: (nth _ _ _).
Qed.


(* nodes whose value is a buffer have tangent 0 *)
Lemma rcons_bufzero (v : seq (val S)) (tg : seq S) x y : size v = size tg ->
  (forall a b, nth v0 v a = VBuf S b -> tg`_a = 0) ->
  (forall b, x = VBuf S b -> y = 0) ->
  forall a b, nth v0 (rcons v x) a = VBuf S b -> (rcons tg y)`_a = 0.
Proof.
move=> sz IH hxy a b; rewrite !nth_rcons -sz; case: ltngtP => // [_|_]; first exact: IH.
exact: hxy.
Qed.

Lemma tan_bufzero h v tgh tg nd : size v = size tg ->
  (forall a b, nth v0 v a = VBuf S b -> tg`_a = 0) ->
  forall a b, nth v0 (tvals (tan (TState h v tgh tg) nd)) a = VBuf S b ->
    (tgvals (tan (TState h v tgh tg) nd))`_a = 0.
Proof.
move=> sz IH; case: nd => op args; case: op => [|c|k|op||f|n|n|k|k] /=;
  try by apply: rcons_bufzero.
- by case: op => /=; apply: rcons_bufzero.
- by case: (nth v0 v _) => [s|b|b c] /=; apply: rcons_bufzero.
Qed.

Lemma wf_argsok N (t : tape S) j nd : wf_node N t j nd -> argsok j nd.
Proof.
rewrite /wf_node /argsok; case/andP; case: j => [|j] hall.
  by case: (nargs nd) hall => [|a l] //= _; case: (nop nd).
move=> _; have Hall i : (nth 0%N (nargs nd) i < j.+1)%N.
  case: (ltnP i (size (nargs nd))) => hi; first exact: (all_nthP 0%N hall).
  by rewrite nth_default.
by case: (nop nd).
Qed.

Notation rloop := (@rev_loop S 0 +%R *%R (r_div recip) -%R (@r_natmul S) (@r_pown S) unpart).

Section Main.
Variables (t : tape S) (xs dxs : seq S).
Definition F (t' : tape S) : fstate S := foldl fwd (FState [:: xs] [::] [::]) t'.
Definition Tg (t' : tape S) : tstate S := foldl tan (TState [:: xs] [::] [:: dxs] [::]) t'.

Lemma F_rcons t' nd : F (rcons t' nd) = fwd (F t') nd.
Proof. by rewrite /F -cats1 foldl_cat. Qed.
Lemma Tg_rcons t' nd : Tg (rcons t' nd) = tan (Tg t') nd.
Proof. by rewrite /Tg -cats1 foldl_cat. Qed.

Lemma Tg_F t' : theap (Tg t') = fheap (F t') /\ tvals (Tg t') = fvals (F t').
Proof.
elim/last_ind: t' => [|t' nd [e1 e2]] //; rewrite F_rcons Tg_rcons.
case: (Tg t') (F t') e1 e2 => h v tgh tg [h' v' s] /= -> ->; exact: tan_fwd.
Qed.

Lemma size_fvals t' : size (fvals (F t')) = size t'.
Proof. by rewrite /F (grow_size fwd_fvals). Qed.
Lemma size_fstore t' : size (fstore (F t')) = size t'.
Proof. by rewrite /F (grow_size fwd_fstore). Qed.
Lemma size_tgvals t' : size (tgvals (Tg t')) = size t'.
Proof. by rewrite /Tg (grow_size tan_tgvals). Qed.

Let V := fvals (F t).
Let St := fstore (F t).
Let TG := tgvals (Tg t).

Section Loop.
Variable K : nat.
Hypothesis Kref : forall a b c, nth v0 V a = VRef S b c -> (b < K)%N && (c < K)%N.
Hypothesis Vbuf0 : forall a b, nth v0 V a = VBuf S b -> TG`_a = 0.
Hypothesis Hargs : forall j, (j < size t)%N -> argsok j (nth nd0 t j).
Hypothesis Hsets : forall j k b, (j < size t)%N -> nop (nth nd0 t j) = NSet S k ->
  nth v0 V (nth 0%N (nargs (nth nd0 t j)) 0) = VBuf S b -> (b < K)%N /\ (k < K)%N.

Lemma loop_inv t1 t2 st : t = t1 ++ t2 ->
  (forall b c, hg (rheap st) b c = hg (fheap (F t1)) b c) ->
  Phi K TG (size t1) (tgheap (Tg t1)) st = Phi K TG 0 [:: dxs] (rloop V St (rev t1) (size t1) st).
Proof.
elim/last_ind: t1 t2 st => [|t1 nd IH] t2 st Et Hh //=.
rewrite rev_rcons size_rcons /=.
have Et' : t = t1 ++ nd :: t2 by rewrite Et cat_rcons.
have hj : (size t1 < size t)%N by rewrite Et' size_cat /= addnS ltnS leq_addr.
have Ej : nth nd0 t (size t1) = nd by rewrite Et' nth_cat ltnn subnn.
move: Hh; rewrite Tg_rcons F_rcons.
have := Tg_F t1; have := size_fvals t1; have := size_fstore t1; have := size_tgvals t1.
have HV a : (a < size t1)%N -> nth v0 V a = nth v0 (fvals (F t1)) a.
  by move=> ha; rewrite /V Et' /F (grow_nth fwd_fvals).
have HS : nth None St (size t1) = nth None (fstore (fwd (F t1) nd)) (size t1).
  by rewrite /St Et -F_rcons /F (grow_nth fwd_fstore) //= size_rcons.
have HVj : nth v0 V (size t1) = nth v0 (fvals (fwd (F t1) nd)) (size t1).
  by rewrite /V Et -F_rcons /F (grow_nth fwd_fvals) //= size_rcons.
have HT a : (a < size t1)%N -> TG`_a = (tgvals (Tg t1))`_a.
  by move=> ha; rewrite /TG Et' /Tg (grow_nth tan_tgvals).
have HTj : TG`_(size t1) = (tgvals (tan (Tg t1) nd))`_(size t1).
  by rewrite /TG Et -Tg_rcons /Tg (grow_nth tan_tgvals) //= size_rcons.
move: HV HS HVj HT HTj {IH}(IH (nd :: t2)).
case: (F t1) => h vals store; case: (Tg t1) => h' vals' tgh tg /=.
move=> HV HS HVj HT HTj IH stg sst sv [eh ev]; rewrite {h'}eh {vals'}ev in HTj * => Hh.
have Ha : argsok (size t1) nd by rewrite -Ej; apply: Hargs.
have Hs k b : nop nd = NSet S k -> nth v0 V (nth 0%N (nargs nd) 0) = VBuf S b -> (b < K)%N /\ (k < K)%N.
  by rewrite -Ej; apply: Hsets.
have [<- Hh'] := step_inv Kref Vbuf0 sv stg sst HV HVj HT HTj HS Ha Hs Hh.
exact: IH.
Qed.

Lemma seed_Phi n tgh l st : all (fun ov => ov.1 < n)%N l ->
  Phi K TG n tgh (foldl (fun s (ov : nat * S) => badd V s ov.1 ov.2) st l)
  = Phi K TG n tgh st + \sum_(ov <- l) ov.2 * nt V tgh TG ov.1.
Proof.
elim: l st => [|ov l IH] st /=; first by rewrite big_nil addr0.
by case/andP=> h1 hl; rewrite IH // Phi_badd // big_cons addrA.
Qed.

Lemma seed_rheap l st : rheap (foldl (fun s (ov : nat * S) => badd V s ov.1 ov.2) st l) = rheap st.
Proof. by elim: l st => [|ov l IH] st //=; rewrite IH rheap_badd. Qed.
End Loop.

Lemma hget_zero_like (h : heap S) b c : hg (zero_like_heap 0 h) b c = 0.
Proof.
rewrite /hget /zero_like_heap; case: (ltnP b (size h)) => hb.
  by rewrite (nth_map [::]) // nth_nseq if_same.
by rewrite [nth [::] _ _]nth_default ?size_map // nth_nil.
Qed.

Lemma Phi_zero K n tgh rh (h : heap S) :
  Phi K TG n tgh (RState rh (zero_like_heap 0 h) (nseq n 0)) = 0.
Proof.
rewrite /Phi /A /H /= !big1 ?addr0 // => [b _|a _].
  by rewrite big1 // => c _; rewrite hget_zero_like mul0r.
by rewrite nth_nseq if_same mul0r.
Qed.

Lemma Phi_end K st : (size xs < K)%N -> size dxs = size xs ->
  Phi K TG 0 [:: dxs] st = \sum_(i < size xs) (nth [::] (rbheap st) 0)`_i * dxs`_i.
Proof.
case: K => // K' hK sd; rewrite /Phi /A big_ord0 add0r /H big_ord_recl /=.
rewrite [X in _ + X]big1 ?addr0; last first.
  by move=> b _; rewrite big1 // => c _; rewrite /hget /= !nth_nil mulr0.
rewrite [RHS](big_ord_widen K'.+1 (fun i => (nth [::] (rbheap st) 0)`_i * dxs`_i)) ?(ltnW hK) //.
rewrite [RHS]big_mkcond /=. apply: eq_bigr => c _; rewrite /hget /=.
by case: ltnP => // hc; rewrite [dxs`_c]nth_default ?mulr0 // sd.
Qed.

(* ---------- a bound on all buffer numbers and cell indices that occur ---------- *)
Definition wv (v : val S) : nat :=
  match v with VRef b c => (b + c).+1 | VBuf b => b.+1 | VS _ => 0%N end.
Definition wo (nd : node S) : nat := match nop nd with NSet k => k.+1 | _ => 0%N end.
Definition Kb : nat := (size xs + (\sum_(v <- V) wv v + \sum_(nd <- t) wo nd)).+1.

Lemma le_sumseq (B : Type) (G : B -> nat) x0 s i :
  (i < size s)%N -> (G (nth x0 s i) <= \sum_(y <- s) G y)%N.
Proof.
elim: s i => [|y s IH] [|i] //=; rewrite big_cons ?leq_addr // ltnS => hi.
exact: leq_trans (IH _ hi) (leq_addl _ _).
Qed.

Lemma Kb_xs : (size xs < Kb)%N.
Proof. by rewrite /Kb ltnS leq_addr. Qed.

Lemma Kb_V a : (wv (nth v0 V a) <= Kb)%N.
Proof.
case: (ltnP a (size V)) => ha; last by rewrite nth_default.
apply: leq_trans (le_sumseq wv v0 ha) _.
by rewrite /Kb; apply: leqW; apply: leq_trans (leq_addl _ _); exact: leq_addr.
Qed.

Lemma Kb_t j : (wo (nth nd0 t j) <= Kb)%N.
Proof.
case: (ltnP j (size t)) => hj; last by rewrite nth_default.
apply: leq_trans (le_sumseq wo nd0 hj) _.
by rewrite /Kb; apply: leqW; apply: leq_trans (leq_addl _ _); exact: leq_addl.
Qed.

Lemma Kb_ref a b c : nth v0 V a = VRef S b c -> (b < Kb)%N && (c < Kb)%N.
Proof.
move=> E; have := Kb_V a; rewrite E [wv _]/= => h.
by apply/andP; split; apply: leq_trans h; rewrite ltnS ?leq_addr ?leq_addl.
Qed.

Lemma Kb_buf a b : nth v0 V a = VBuf S b -> (b < Kb)%N.
Proof. by move=> E; have := Kb_V a; rewrite E. Qed.

Lemma Kb_set j k : nop (nth nd0 t j) = NSet S k -> (k < Kb)%N.
Proof. by move=> E; have := Kb_t j; rewrite /wo E. Qed.



Lemma bufzero t' a b : nth v0 (tvals (Tg t')) a = VBuf S b -> (tgvals (Tg t'))`_a = 0.
Proof.
elim/last_ind: t' a b => [|t' nd IH] a b; first by rewrite /= nth_nil.
rewrite Tg_rcons; have := size_tgvals t'; have := size_fvals t'; have [_ <-] := Tg_F t'.
case: (Tg t') IH => h v tgh tg /= IH sv stg; apply: tan_bufzero => //.
by rewrite sv stg.
Qed.

End Main.


Lemma all_zip1 (P : pred nat) (l : seq nat) (m : seq S) :
  all P l -> all (fun ov : nat * S => P ov.1) (zip l m).
Proof. elim: l m => [|a l IH] [|y m] //= /andP[-> hl] /=; exact: IH. Qed.

(* The reverse sweep is the transpose of the forward tangent sweep, for every well-formed tape (with buffers, views and
   in-place writes), every input, every direction dxs and every seed:
       sum_i xbar_i * dx_i  =  sum_j ybar_j * (tangent of output j) .
   With S = K[t]/(t^D) this is the identity at every Taylor order. *)
Theorem reverse_adjoint t outs xs dxs ybars :
  wf_tape (size xs) t -> size dxs = size xs -> size ybars = size outs -> uniq outs ->
  all (fun a => (a < size t)%N && is_scal t a) outs ->
  \sum_(i < size xs) (R_gradient_like recip unval unpart t outs xs ybars)`_i * dxs`_i
  = \sum_(j < size outs) ybars`_j * (R_tangent_out recip unval unpart t outs xs dxs)`_j.
Proof.
move=> /andP[_ /allP wf] sd sy _ houts.
rewrite /R_gradient_like /gradient_like /xbar_of /pullback /R_tangent_out /tangent_out.
rewrite /R_replay /replay /tangent -/(F xs t) -/(Tg xs dxs t).
have [eh ev] := Tg_F xs dxs t; rewrite ev.
have Kref := @Kb_ref t xs.
have Vb0 a b : nth v0 (fvals (F xs t)) a = VBuf S b -> (tgvals (Tg xs dxs t))`_a = 0.
  by move=> E; apply: (@bufzero xs dxs t a b); rewrite ev.
have Hargs j : (j < size t)%N -> argsok j (nth nd0 t j).
  by move=> hj; apply: wf_argsok (wf j _); rewrite mem_iota.
have Hsets j k b : (j < size t)%N -> nop (nth nd0 t j) = NSet S k ->
    nth v0 (fvals (F xs t)) (nth 0%N (nargs (nth nd0 t j)) 0) = VBuf S b ->
    (b < Kb t xs)%N /\ (k < Kb t xs)%N.
  by move=> hj Ek Eb; split; [exact: Kb_buf Eb | exact: Kb_set Ek].
rewrite -(Phi_end t _ (Kb_xs t xs) sd).
rewrite -(loop_inv Kref Vb0 Hargs Hsets (esym (cats0 t))); last first.
  by move=> b c; rewrite /seed seed_rheap.
rewrite /seed (seed_Phi Kref Vb0) ?Phi_zero ?add0r; last first.
  by apply: (@all_zip1 (fun a => a < size t)%N); apply: sub_all houts => a /andP[].
rewrite (big_nth (0%N, 0)) size_zip sy minnn big_mkord; apply: eq_bigr => i _.
by rewrite nth_zip //= (nth_map 0%N).
Qed.
End Adjoint.

(* ---------- the rule as it stood before the repair is NOT the transpose ----------
   x -> y = zeros(1); y[0] = x[0]; v = y[0] (a view); y[0] = v   (i.e. y[0] = y[0]); output v.
   The tangent of the output is dx_0, but the unrepaired reverse sweep returns xbar = 0: the pullback of the last write
   adds the cell adjoint to the adjoint of v -- which is the same cell -- and then zeroes the cell. *)
Definition cex_tape : tape int_comRing :=
  [:: Node (NInput _) [::]; Node (NZeros _ 1) [:: 0%N]; Node (NGetX _ 0) [:: 0%N];
      Node (NSet _ 0) [:: 1%N; 2%N]; Node (NGet _ 0) [:: 1%N]; Node (NSet _ 0) [:: 1%N; 4%N]].

Theorem unrepaired_selfset_refuted :
  exists (t : tape int_comRing) (outs : seq nat) (xs dxs ybars : seq int)
         (recip : int -> int) (unval : nat -> int -> int) (unpart : nat -> int -> int -> int),
  [/\ wf_tape (size xs) t, size dxs = size xs, size ybars = size outs, uniq outs &
      all (fun a => (a < size t)%N && is_scal t a) outs] /\
  \sum_(i < size xs)
     (xbar_of (R_pullback_unrepaired recip unpart t (R_replay recip unval t xs) outs ybars))`_i * dxs`_i
  <> \sum_(j < size outs) ybars`_j * (R_tangent_out recip unval unpart t outs xs dxs)`_j.
Proof.
exists cex_tape, [:: 4%N], [:: 3%:Z], [:: 1%:Z], [:: 1%:Z].
exists (fun x => x), (fun _ x => x), (fun _ x _ => x).
split; first by split.
by rewrite /= !big_ord_recl !big_ord0.
Qed.

(* on the same tape the repaired rule gives the right answer (instance of reverse_adjoint) *)
Lemma repaired_selfset_ok :
  (R_gradient_like (fun x : int => x) (fun _ x => x) (fun _ x _ => x) cex_tape [:: 4%N] [:: 3%:Z] [:: 1%:Z]) = [:: 1%:Z].
Proof. by []. Qed.
