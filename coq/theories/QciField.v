(* Gaussian rationals Q(i) = Qc * Qc as a mathcomp fieldType: the executable carrier for COMPLEX Taylor coefficients, so that the
   field-generic models (Series.v, ...) can be run by vm_compute on the complex cases of the correspondence checks exactly as on
   the real ones.  (re, im) with (a,b)(c,d) = (ac - bd, ad + bc), inverse (a,b)^-1 = (a/(a^2+b^2), -b/(a^2+b^2)), 0^-1 = 0. *)
From Coq Require Import ZArith QArith Qcanon.
From mathcomp Require Import all_ssreflect all_algebra.
From mathcomp Require Import ring.
From Coq Require Import Lia.
From AlgoV Require Import QcField.
Set Implicit Arguments. Unset Strict Implicit. Unset Printing Implicit Defensive.
Import GRing.Theory.
Local Open Scope ring_scope.

Record Qci : Type := MkQci { re : Qc; im : Qc }.

Definition qci_add (x y : Qci) : Qci := MkQci (re x + re y) (im x + im y).
Definition qci_opp (x : Qci) : Qci := MkQci (- re x) (- im x).
Definition qci_mul (x y : Qci) : Qci := MkQci (re x * re y - im x * im y) (re x * im y + im x * re y).
Definition qci_norm (x : Qci) : Qc := re x * re x + im x * im x.
Definition qci_inv (x : Qci) : Qci := MkQci (re x / qci_norm x) (- im x / qci_norm x).
Definition qci_of (a : Qc) : Qci := MkQci a 0.
Definition qci_conj (x : Qci) : Qci := MkQci (re x) (- im x).


(* The record fields have type Qc, so the operations above were parsed in Qc_scope (Qcplus, Qcminus, Qcmult, Qcdiv, Qcopp, Q2Qc 0):
   these are convertible to the Qc_fieldType operations; the lemmas below fold them for the ring/field tactics. *)
Lemma QcplusE (a b : Qc) : Qcplus a b = a + b. Proof. by []. Qed.
Lemma QcminusE (a b : Qc) : Qcminus a b = a - b. Proof. by []. Qed.
Lemma QcmultE (a b : Qc) : Qcmult a b = a * b. Proof. by []. Qed.
Lemma QcoppE (a : Qc) : Qcopp a = - a. Proof. by []. Qed.
Lemma QcinvE (a : Qc) : Qcinv a = a^-1. Proof. by []. Qed.
Lemma QcdivE (a b : Qc) : Qcdiv a b = a / b. Proof. by []. Qed.
Lemma Qc0E : 0%Qc = 0. Proof. by []. Qed.
Lemma Qc1E : 1%Qc = 1. Proof. by []. Qed.
Ltac qcfold := rewrite /qci_add /qci_opp /qci_mul /qci_inv /qci_norm /qci_of /qci_conj; cbn [re im];
  rewrite ?QcminusE ?QcdivE ?QcplusE ?QcmultE ?QcoppE ?QcinvE ?Qc0E ?Qc1E.

(* ---- eqType / choiceType through the bijection with pairs ---- *)
Definition qci_pair (x : Qci) : Qc * Qc := (re x, im x).
Definition pair_qci (p : Qc * Qc) : Qci := MkQci p.1 p.2.
Lemma qci_pairK : cancel qci_pair pair_qci. Proof. by case. Qed.
Definition Qci_eqMixin := CanEqMixin qci_pairK.
Canonical Qci_eqType := EqType Qci Qci_eqMixin.
Definition Qci_choiceMixin := CanChoiceMixin qci_pairK.
Canonical Qci_choiceType := ChoiceType Qci Qci_choiceMixin.

Lemma qci_eqP (x y : Qci) : re x = re y -> im x = im y -> x = y.
Proof. by case: x y => [a b] [c d] /= -> ->. Qed.
Lemma qci_eqE (x y : Qci) : (x == y) = (re x == re y) && (im x == im y).
Proof. by []. Qed.

(* ---- zmodType ---- *)
Lemma qci_addA : associative qci_add.
Proof. by move=> x y z; apply: qci_eqP; exact: addrA. Qed.
Lemma qci_addC : commutative qci_add.
Proof. by move=> x y; apply: qci_eqP; exact: addrC. Qed.
Lemma qci_add0 : left_id (MkQci 0 0) qci_add.
Proof. by move=> x; apply: qci_eqP; exact: add0r. Qed.
Lemma qci_addN : left_inverse (MkQci 0 0) qci_opp qci_add.
Proof. by move=> x; apply: qci_eqP; exact: addNr. Qed.
Definition Qci_zmodMixin := ZmodMixin qci_addA qci_addC qci_add0 qci_addN.
Canonical Qci_zmodType := ZmodType Qci Qci_zmodMixin.

(* ---- ringType / comRingType ---- *)
Lemma qci_mulA : associative qci_mul.
Proof. by move=> x y z; apply: qci_eqP; qcfold; ring. Qed.
Lemma qci_mulC : commutative qci_mul.
Proof. by move=> x y; apply: qci_eqP; qcfold; ring. Qed.
Lemma qci_mul1 : left_id (MkQci 1 0) qci_mul.
Proof. by move=> x; apply: qci_eqP; qcfold; ring. Qed.
Lemma qci_mulD : left_distributive qci_mul qci_add.
Proof. by move=> x y z; apply: qci_eqP; qcfold; ring. Qed.
Lemma qci_1neq0 : MkQci 1 0 != MkQci 0 0. Proof. by []. Qed.
Definition Qci_ringMixin := ComRingMixin qci_mulA qci_mulC qci_mul1 qci_mulD qci_1neq0.
Canonical Qci_ringType := RingType Qci Qci_ringMixin.
Canonical Qci_comRingType := ComRingType Qci qci_mulC.

(* ---- a sum of two rational squares vanishes only if both do ---- *)
Local Delimit Scope Q_scope with QQ.   (* mathcomp's rat.v rebinds the key Q *)
Lemma Qc_sqr_sum0 (a b : Qc) : a * a + b * b = 0 -> a = 0 /\ b = 0.
Proof.
move=> H.
have HQ : (this a * this a + this b * this b == 0)%QQ.
  have /Q2Qc_eq_iff : Q2Qc (this (Q2Qc (this a * this a)) + this (Q2Qc (this b * this b)))%QQ = Q2Qc 0%QQ by exact: H.
  by cbn [this Q2Qc]; rewrite !Qred_correct.
have [Ha Hb] : (this a == 0)%QQ /\ (this b == 0)%QQ.
  move: HQ; case: (this a) => na da; case: (this b) => nb db.
  rewrite /Qeq /Qplus /Qmult /=; nia.
by split; apply: Qc_is_canon.
Qed.

Lemma qci_norm_neq0 (x : Qci) : x != 0 -> qci_norm x != 0.
Proof.
apply: contra_neq => /Qc_sqr_sum0 [Ha Hb].
by apply: qci_eqP.
Qed.

(* ---- unitRingType ... fieldType ---- *)
Lemma qci_mulVx (x : Qci) : x != 0 -> qci_inv x * x = 1.
Proof.
move=> /qci_norm_neq0; qcfold => H.
change (qci_mul (qci_inv x) x = MkQci 1 0).
by apply: qci_eqP; qcfold; field.
Qed.
Lemma qci_inv0 : qci_inv 0 = 0.
Proof.
change (qci_inv (MkQci 0 0) = MkQci 0 0).
by apply: qci_eqP; qcfold; rewrite ?oppr0 mul0r.
Qed.
Definition Qci_unitRingMixin := FieldUnitMixin qci_mulVx qci_inv0.
Canonical Qci_unitRingType := UnitRingType Qci Qci_unitRingMixin.
Canonical Qci_comUnitRingType := [comUnitRingType of Qci].
Lemma Qci_field_axiom : GRing.Field.mixin_of Qci_unitRingType. Proof. by []. Qed.
Definition Qci_idomainMixin := FieldIdomainMixin Qci_field_axiom.
Canonical Qci_idomainType := IdomainType Qci Qci_idomainMixin.
Canonical Qci_fieldType := FieldType Qci Qci_field_axiom.

(* ---- the structure uses these very definitions ---- *)
Theorem qci_addE (x y : Qci) : x + y = qci_add x y. Proof. by []. Qed.
Theorem qci_oppE (x : Qci) : - x = qci_opp x. Proof. by []. Qed.
Theorem qci_mulE (x y : Qci) : x * y = qci_mul x y. Proof. by []. Qed.
Theorem qci_invE (x : Qci) : x^-1 = qci_inv x. Proof. by []. Qed.
Theorem qci_zeroE : (0 : Qci) = MkQci 0 0. Proof. by []. Qed.
Theorem qci_oneE : (1 : Qci) = MkQci 1 0. Proof. by []. Qed.
Theorem qci_unitE (x : Qci) : (x \is a GRing.unit) = (x != 0). Proof. by []. Qed.

(* ---- real numbers embed ---- *)
Theorem qci_of_is_rmorphism : rmorphism (qci_of : Qc -> Qci).
Proof.
split; first by move=> a b; rewrite qci_addE qci_oppE; apply: qci_eqP; qcfold; ring.
by split=> // a b; rewrite qci_mulE; apply: qci_eqP; qcfold; ring.
Qed.
Canonical qci_of_additive := Additive qci_of_is_rmorphism.
Canonical qci_of_rmorphism := RMorphism qci_of_is_rmorphism.
Lemma qci_of_inj : injective qci_of.
Proof. by move=> a b []. Qed.

Theorem qci_i2 : MkQci 0 1 * MkQci 0 1 = -1.
Proof. by apply/eqP. Qed.

Lemma qci_natr n : (n%:R : Qci) = MkQci n%:R 0.
Proof. by rewrite -[RHS]/(qci_of n%:R) rmorph_nat. Qed.

Theorem qci_char0 : [char Qci_fieldType] =i pred0.
Proof.
move=> p; rewrite !inE; apply/negP => /andP [pp].
rewrite qci_natr qci_eqE /= => /andP [+ _].
by case: p pp => // p _; apply/negP; exact: Qc_char0.
Qed.

(* ---- the structure computes ---- *)
Example qci_compute :
  (MkQci (qz 1 2) (qz 3 1)) * (MkQci (qz 2 1) (qz (-1) 1)) / (MkQci (qz 2 1) (qz (-1) 1)) == MkQci (qz 1 2) (qz 3 1).
Proof. by vm_compute. Qed.

