(* PROOFS: the zeroth coefficient of every kernel is the base operation applied to the zeroth coefficients
   (ring operation, or the base value handed in from NumPy/SciPy). *)
From mathcomp Require Import all_ssreflect all_algebra.
From AlgoV Require Import Sums Series SeriesBase SeriesSpec.
Set Implicit Arguments. Unset Strict Implicit. Unset Printing Implicit Defensive.
Import GRing.Theory.
Local Open Scope ring_scope.
Local Arguments mkseq : simpl never.

Section Zero.
Variable K : fieldType.
Implicit Types (xs ys : seq K).

Lemma series1_0 step (y0 : K) xs : (0 < size xs)%N -> (series1 step y0 xs)`_0 = y0.
Proof. by move=> lt0; rewrite series1_nth. Qed.
Lemma series2_0 sy sz (y0 z0 : K) xs : (0 < size xs)%N ->
  (series2 sy sz y0 z0 xs).1`_0 = y0 /\ (series2 sy sz y0 z0 xs).2`_0 = z0.
Proof. by move=> lt0; have [-> ->] := series2_nth sy sz y0 z0 lt0. Qed.

Theorem addS_0 xs ys : (0 < size xs)%N -> (addS xs ys)`_0 = xs`_0 + ys`_0.
Proof. by move=> lt0; rewrite /addS nth_mkseq. Qed.
Theorem subS_0 xs ys : (0 < size xs)%N -> (subS xs ys)`_0 = xs`_0 - ys`_0.
Proof. by move=> lt0; rewrite /subS nth_mkseq. Qed.
Theorem mulS_0 xs ys : (0 < size xs)%N -> (mulS xs ys)`_0 = xs`_0 * ys`_0.
Proof. by move=> lt0; rewrite /mulS nth_mkseq //= add0r. Qed.
Theorem divS_0 xs ys : (0 < size xs)%N -> (divS xs ys)`_0 = (ys`_0)^-1 * (xs`_0 - 0).
Proof. exact: series1_0. Qed.
Theorem recipS_0 ys : (0 < size ys)%N -> (recipS ys)`_0 = (ys`_0)^-1 * (1 - 0).
Proof. exact: series1_0. Qed.
Theorem squareS_0 xs : (0 < size xs)%N -> (squareS xs)`_0 = xs`_0 * xs`_0.
Proof. by move=> lt0; rewrite /squareS nth_mkseq //= add0r. Qed.
Theorem sqrtS_0 xs (s0 : K) : (0 < size xs)%N -> (sqrtS xs s0)`_0 = s0.
Proof. exact: series1_0. Qed.
Theorem powS_0 xs (r p0 : K) : (0 < size xs)%N -> (powS xs r p0)`_0 = p0.
Proof. exact: series1_0. Qed.
Theorem expS_0 xs (e0 : K) : (0 < size xs)%N -> (expS xs e0)`_0 = e0.
Proof. exact: series1_0. Qed.
Theorem logS_0 xs (l0 : K) : (0 < size xs)%N -> (logS xs l0)`_0 = l0.
Proof. by move=> lt0; rewrite /logS nth_mkseq // series1_0. Qed.
Theorem bfwfS_0 (f0 : K) fp xs : (0 < size xs)%N -> (bfwfS f0 fp xs)`_0 = f0.
Proof. exact: series1_0. Qed.
Theorem sincosS_0 xs (s0 c0 : K) : (0 < size xs)%N -> (sincosS xs s0 c0).1`_0 = s0 /\ (sincosS xs s0 c0).2`_0 = c0.
Proof. exact: series2_0. Qed.
Theorem sinhcoshS_0 xs (s0 c0 : K) : (0 < size xs)%N -> (sinhcoshS xs s0 c0).1`_0 = s0 /\ (sinhcoshS xs s0 c0).2`_0 = c0.
Proof. exact: series2_0. Qed.
Theorem tansec2S_0 xs (t0 z0 : K) : (0 < size xs)%N -> (tansec2S xs t0 z0).1`_0 = t0.
Proof. by move=> lt0; have [] := series2_0 (tan_step xs) (@sec2_step K) t0 z0 lt0. Qed.
Theorem tanhsech2S_0 xs (t0 : K) : (0 < size xs)%N -> (tanhsech2S xs t0).1`_0 = t0.
Proof. by move=> lt0; have [] := series2_0 (tan_step xs) (@sech2_step K) t0 (1 - t0 * t0) lt0. Qed.
Theorem arcsinS_0 xs (y0 z0 : K) : (0 < size xs)%N -> (arcsinS xs y0 z0).1`_0 = y0.
Proof. by move=> lt0; have [] := series2_0 (asin_step xs) (asinz_step xs) y0 z0 lt0. Qed.
Theorem arctanS_0 xs (y0 : K) : (0 < size xs)%N -> (arctanS xs y0).1`_0 = y0.
Proof. by move=> lt0; have [] := series2_0 (asin_step xs) (atanz_step xs) y0 (1 + xs`_0 * xs`_0) lt0. Qed.
Theorem slowgenS_0 xs (derivs : seq K) : (0 < size xs)%N -> (slowgenS xs derivs)`_0 = derivs`_0.
Proof. by case: xs. Qed.
Theorem absS_0 xs (sgn0 abs0 : K) : (0 < size xs)%N -> (absS xs sgn0 abs0)`_0 = abs0.
Proof. by case: xs. Qed.
Theorem signS_0 xs (sgn0 : K) : (0 < size xs)%N -> (signS xs sgn0)`_0 = sgn0.
Proof. by move=> lt0; rewrite /signS /constS nth_mkseq. Qed.
Theorem negS_0 xs : (0 < size xs)%N -> (negS xs)`_0 = - xs`_0.
Proof. by case: xs. Qed.
End Zero.
