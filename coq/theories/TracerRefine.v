(* REFINEMENT of the executable tracer instance (TracerExec.v: truncated series = coefficient lists of length D, kernels of
   Series.v) by the commutative-ring instance (TracerInst.v) at S := {poly K}: every output of the executable instance is
   congruent modulo X^D to the output of the ring instance on the programs/tapes/inputs mapped by Poly.  Consequently the
   theorems proved for every commutative ring (adjoint identity, replay = evaluation, ...) hold for what vm_compute runs. *)
From mathcomp Require Import all_ssreflect all_algebra.
From AlgoV Require Import Sums Series SeriesBase SeriesSpec SeriesSpec_A Tracer TracerInst TracerExec TracerSpecA TracerSpecB.
Set Implicit Arguments. Unset Strict Implicit. Unset Printing Implicit Defensive.
Import GRing.Theory.
Local Open Scope ring_scope.

(* ---------- generic: relational parametricity of the tracer model ---------- *)
Section ListRel.
Variables (A B : Type) (r : A -> B -> Prop).
Fixpoint lrel (s1 : seq A) (s2 : seq B) : Prop :=
  match s1, s2 with
  | [::], [::] => True
  | a :: s1', b :: s2' => r a b /\ lrel s1' s2'
  | _, _ => False
  end.
Lemma lrel_size s1 s2 : lrel s1 s2 -> size s1 = size s2.
Proof. by elim: s1 s2 => [|a s1 IH] [|b s2] //= [_ /IH->]. Qed.
Lemma lrel_nth d1 d2 s1 s2 i : r d1 d2 -> lrel s1 s2 -> r (nth d1 s1 i) (nth d2 s2 i).
Proof.
move=> Hd; elim: s1 s2 i => [|a s1 IH] [|b s2] [|i] //= [Hab Hs] //; exact: IH.
Qed.
Lemma lrel_nth_lt d1 d2 s1 s2 i : lrel s1 s2 -> (i < size s1)%N -> r (nth d1 s1 i) (nth d2 s2 i).
Proof.
elim: s1 s2 i => [|a s1 IH] [|b s2] [|i] //= [Hab Hs] // lt_i; exact: IH.
Qed.
Lemma lrel_rcons s1 s2 a b : lrel s1 s2 -> r a b -> lrel (rcons s1 a) (rcons s2 b).
Proof. by elim: s1 s2 => [|x s1 IH] [|y s2] //= [Hxy Hs] Hab; split=> //; exact: IH. Qed.
Lemma lrel_cat s1 s2 u1 u2 : lrel s1 s2 -> lrel u1 u2 -> lrel (s1 ++ u1) (s2 ++ u2).
Proof. by elim: s1 s2 => [|x s1 IH] [|y s2] //= [Hxy Hs] Hu; split=> //; exact: IH. Qed.
Lemma lrel_rev s1 s2 : lrel s1 s2 -> lrel (rev s1) (rev s2).
Proof.
elim: s1 s2 => [|x s1 IH] [|y s2] //= [Hxy Hs]; rewrite !rev_cons; apply: lrel_rcons => //; exact: IH.
Qed.
Lemma lrel_nseq n a b : r a b -> lrel (nseq n a) (nseq n b).
Proof. by move=> Hab; elim: n => [|n IH]. Qed.
Lemma lrel_ncons n a b s1 s2 : r a b -> lrel s1 s2 -> lrel (ncons n a s1) (ncons n b s2).
Proof. by move=> Hab Hs; elim: n => [|n IH]. Qed.
Lemma lrel_set_nth d1 d2 s1 s2 i x y : r d1 d2 -> lrel s1 s2 -> r x y -> lrel (set_nth d1 s1 i x) (set_nth d2 s2 i y).
Proof.
move=> Hd Hs Hxy; elim: s1 s2 i Hs => [|a s1 IH] [|b s2] [|i] //=; try by case.
- by move=> _; split=> //; apply: lrel_ncons.
- by case=> Hab Hs; split=> //; apply: IH.
Qed.
Lemma lrel_map_same (C : Type) (f : C -> A) (g : C -> B) s : (forall x, r (f x) (g x)) -> lrel (map f s) (map g s).
Proof. by move=> H; elim: s => [|x s IH]. Qed.
End ListRel.

Lemma lrel_map (A B A' B' : Type) (r : A -> B -> Prop) (r' : A' -> B' -> Prop) (f : A -> A') (g : B -> B') s1 s2 :
  (forall a b, r a b -> r' (f a) (g b)) -> lrel r s1 s2 -> lrel r' (map f s1) (map g s2).
Proof. by move=> H; elim: s1 s2 => [|x s1 IH] [|y s2] //= [Hxy Hs]; split; [exact: H | exact: IH]. Qed.

Lemma foldl_rel (A1 A2 B1 B2 : Type) (RA : A1 -> A2 -> Prop) (RB : B1 -> B2 -> Prop) f1 f2 :
  (forall a1 a2 b1 b2, RA a1 a2 -> RB b1 b2 -> RA (f1 a1 b1) (f2 a2 b2)) ->
  forall l1 l2 a1 a2, RA a1 a2 -> lrel RB l1 l2 -> RA (foldl f1 a1 l1) (foldl f2 a2 l2).
Proof.
move=> H; elim=> [|b1 l1 IH] [|b2 l2] //= a1 a2 Ha [Hb Hl]; apply: IH => //; exact: H.
Qed.

Lemma tan_node_fwd (T : Type) (zero : T) add sub mul div neg natmul pown unval unpart (st : tstate T) nd :
  theap (tan_node zero add sub mul div neg natmul pown unval unpart st nd)
    = fheap (fwd_node zero add sub mul div neg pown unval (FState (theap st) (tvals st) [::]) nd) /\
  tvals (tan_node zero add sub mul div neg natmul pown unval unpart st nd)
    = fvals (fwd_node zero add sub mul div neg pown unval (FState (theap st) (tvals st) [::]) nd).
Proof.
case: st => h v g tg; case: nd => [[|c|k|[]| |f|n|n|k|k] a] //=.
by rewrite /tan_node /fwd_node /=; case: (nth _ _ _).
Qed.

Section Param.
Variables (T1 T2 : Type) (R : T1 -> T2 -> Prop).
Variables (zero1 : T1) (add1 sub1 mul1 div1 : T1 -> T1 -> T1) (neg1 : T1 -> T1) (natmul1 : nat -> T1 -> T1)
  (pown1 : T1 -> nat -> T1) (unval1 : nat -> T1 -> T1) (unpart1 : nat -> T1 -> T1 -> T1).
Variables (zero2 : T2) (add2 sub2 mul2 div2 : T2 -> T2 -> T2) (neg2 : T2 -> T2) (natmul2 : nat -> T2 -> T2)
  (pown2 : T2 -> nat -> T2) (unval2 : nat -> T2 -> T2) (unpart2 : nat -> T2 -> T2 -> T2).
Hypothesis R0 : R zero1 zero2.
Hypothesis Radd : forall a b c d, R a b -> R c d -> R (add1 a c) (add2 b d).
Hypothesis Rsub : forall a b c d, R a b -> R c d -> R (sub1 a c) (sub2 b d).
Hypothesis Rmul : forall a b c d, R a b -> R c d -> R (mul1 a c) (mul2 b d).
Hypothesis Rdiv : forall a b c d, R a b -> R c d -> R (div1 a c) (div2 b d).
Hypothesis Rneg : forall a b, R a b -> R (neg1 a) (neg2 b).
Hypothesis Rnatmul : forall n a b, R a b -> R (natmul1 n a) (natmul2 n b).
Hypothesis Rpown : forall n a b, R a b -> R (pown1 a n) (pown2 b n).
Hypothesis Runval : forall f a b, R a b -> R (unval1 f a) (unval2 f b).
Hypothesis Runpart : forall f a b c d, R a b -> R c d -> R (unpart1 f a c) (unpart2 f b d).

Definition vrel (v1 : val T1) (v2 : val T2) : Prop :=
  match v1, v2 with
  | VS a, VS b => R a b
  | VBuf b, VBuf b' => b = b'
  | VRef b k, VRef b' k' => b = b' /\ k = k'
  | _, _ => False
  end.
Definition hrel : heap T1 -> heap T2 -> Prop := lrel (lrel R).
Definition optrel (o1 : option T1) (o2 : option T2) : Prop :=
  match o1, o2 with Some a, Some b => R a b | None, None => True | _, _ => False end.
Definition orel (o1 : operand T1) (o2 : operand T2) : Prop :=
  match o1, o2 with OReg r, OReg r' => r = r' | OConst c, OConst c' => R c c' | _, _ => False end.
Definition irel (i1 : instr T1) (i2 : instr T2) : Prop :=
  match i1, i2 with
  | IX k, IX k' => k = k'
  | IBin op a b, IBin op' a' b' => [/\ op = op', orel a a' & orel b b']
  | INeg r, INeg r' => r = r'
  | IUn f r, IUn f' r' => f = f' /\ r = r'
  | IPow r n, IPow r' n' => r = r' /\ n = n'
  | IZeros n, IZeros n' => n = n'
  | ISet b k a, ISet b' k' a' => [/\ b = b', k = k' & orel a a']
  | IGet b k, IGet b' k' => b = b' /\ k = k'
  | _, _ => False
  end.
Definition oprel (o1 : nodeop T1) (o2 : nodeop T2) : Prop :=
  match o1, o2 with
  | NInput, NInput => True | NConst c, NConst c' => R c c' | NGetX k, NGetX k' => k = k'
  | NBin op, NBin op' => op = op' | NNeg, NNeg => True | NUn f, NUn f' => f = f' | NPow n, NPow n' => n = n'
  | NZeros n, NZeros n' => n = n' | NSet k, NSet k' => k = k' | NGet k, NGet k' => k = k' | _, _ => False end.
Definition nrel (n1 : node T1) (n2 : node T2) : Prop := nargs n1 = nargs n2 /\ oprel (nop n1) (nop n2).

Notation hget1 := (@hget T1 zero1). Notation hget2 := (@hget T2 zero2).
Notation hset1 := (@hset T1 zero1). Notation hset2 := (@hset T2 zero2).
Notation deref1 := (@deref T1 zero1). Notation deref2 := (@deref T2 zero2).
Notation nval1 := (@nval T1 zero1). Notation nval2 := (@nval T2 zero2).
Notation ei1 := (@eval_instr T1 zero1 add1 sub1 mul1 div1 neg1 pown1 unval1).
Notation ei2 := (@eval_instr T2 zero2 add2 sub2 mul2 div2 neg2 pown2 unval2).
Notation fwd1 := (@fwd_node T1 zero1 add1 sub1 mul1 div1 neg1 pown1 unval1).
Notation fwd2 := (@fwd_node T2 zero2 add2 sub2 mul2 div2 neg2 pown2 unval2).
Notation tan1 := (@tan_node T1 zero1 add1 sub1 mul1 div1 neg1 natmul1 pown1 unval1 unpart1).
Notation tan2 := (@tan_node T2 zero2 add2 sub2 mul2 div2 neg2 natmul2 pown2 unval2 unpart2).
Notation rev1 := (@rev_node T1 zero1 add1 mul1 div1 neg1 natmul1 pown1 unpart1).
Notation rev2 := (@rev_node T2 zero2 add2 mul2 div2 neg2 natmul2 pown2 unpart2).
Notation badd1 := (@bar_add T1 zero1 add1). Notation badd2 := (@bar_add T2 zero2 add2).
Notation bget1 := (@bar_get T1 zero1). Notation bget2 := (@bar_get T2 zero2).

Lemma vrel0 : vrel (VS zero1) (VS zero2). Proof. exact: R0. Qed.
Lemma lrelnil : lrel R [::] [::]. Proof. by []. Qed.
Hint Resolve vrel0 lrelnil R0 : core.

Lemma hget_rel h1 h2 b k : hrel h1 h2 -> R (hget1 h1 b k) (hget2 h2 b k).
Proof. by move=> H; rewrite /hget; apply: lrel_nth => //; apply: lrel_nth. Qed.
Lemma hset_rel h1 h2 b k x y : hrel h1 h2 -> R x y -> hrel (hset1 h1 b k x) (hset2 h2 b k y).
Proof.
move=> H Hxy; rewrite /hset; apply: lrel_set_nth => //; apply: lrel_set_nth => //; exact: lrel_nth.
Qed.
Lemma deref_rel h1 h2 v1 v2 : hrel h1 h2 -> vrel v1 v2 -> R (deref1 h1 v1) (deref2 h2 v2).
Proof. by move=> H; case: v1 v2 => [a|b|b k] [a'|b'|b' k'] //= [-> ->]; apply: hget_rel. Qed.
Lemma nthv_rel vs1 vs2 a : lrel vrel vs1 vs2 -> vrel (nth (VS zero1) vs1 a) (nth (VS zero2) vs2 a).
Proof. by move=> H; apply: lrel_nth. Qed.
Lemma nval_rel h1 h2 vs1 vs2 a : hrel h1 h2 -> lrel vrel vs1 vs2 -> R (nval1 h1 vs1 a) (nval2 h2 vs2 a).
Proof. by move=> H Hv; apply: deref_rel => //; apply: nthv_rel. Qed.
Lemma binval_rel op a b c d : R a b -> R c d ->
  R (binval add1 sub1 mul1 div1 op a c) (binval add2 sub2 mul2 div2 op b d).
Proof. by case: op => /= ? ?; auto. Qed.
Lemma opval_rel h1 h2 vs1 vs2 o1 o2 : hrel h1 h2 -> lrel vrel vs1 vs2 -> orel o1 o2 ->
  R (opval zero1 h1 vs1 o1) (opval zero2 h2 vs2 o2).
Proof. by move=> H Hv; case: o1 o2 => [r|c] [r'|c'] //= ->; apply: nval_rel. Qed.

Definition prel (s1 : heap T1 * seq (val T1)) (s2 : heap T2 * seq (val T2)) : Prop :=
  hrel s1.1 s2.1 /\ lrel vrel s1.2 s2.2.

Lemma eval_instr_rel s1 s2 i1 i2 : prel s1 s2 -> irel i1 i2 -> prel (ei1 s1 i1) (ei2 s2 i2).
Proof.
case: s1 s2 => h1 v1 [h2 v2] [/= Hh Hv].
have Hnv := nval_rel _ Hh Hv. have Hov := opval_rel Hh Hv.
case: i1 i2 => [k|op a b|r|f r|r n|n|b k a|b k] [k'|op' a' b'|r'|f' r'|r' n'|n'|b' k' a'|b' k'] //=.
- by move=> <-; split=> //=; apply: lrel_rcons.
- case=> <- Ha Hb; split=> //=; apply: lrel_rcons => //=; apply: binval_rel; exact: Hov.
- move=> <-; split=> //=; apply: lrel_rcons => //=; apply: Rneg; exact: Hnv.
- case=> <- <-; split=> //=; apply: lrel_rcons => //=; apply: Runval; exact: Hnv.
- case=> <- <-; split=> //=; apply: lrel_rcons => //=; apply: Rpown; exact: Hnv.
- move=> <-; split=> /=; first by apply: lrel_rcons => //; apply: lrel_nseq.
  by apply: lrel_rcons => //=; apply: lrel_size Hh.
- case=> <- <- Ha; split=> //=.
  have := nthv_rel b Hv; case: (nth _ v1 b) (nth _ v2 b) => [x|c|c l] [x'|c'|c' l'] //= <-.
  by apply: hset_rel => //; apply: Hov.
- case=> <- <-; split=> //=; apply: lrel_rcons => //.
  by have := nthv_rel b Hv; case: (nth _ v1 b) (nth _ v2 b) => [x|c|c l] [x'|c'|c' l'] //= <-.
Qed.

Lemma eval_out_rel p1 p2 ret xs1 xs2 : lrel irel p1 p2 -> lrel R xs1 xs2 ->
  lrel R (eval_out zero1 add1 sub1 mul1 div1 neg1 pown1 unval1 p1 ret xs1)
         (eval_out zero2 add2 sub2 mul2 div2 neg2 pown2 unval2 p2 ret xs2).
Proof.
move=> Hp Hx; rewrite /eval_out /eval.
have H0 : prel ([:: xs1], [::]) ([:: xs2], [::]) by split.
have := foldl_rel eval_instr_rel H0 Hp.
case: (foldl _ _ p1) (foldl _ _ p2) => h1 v1 [h2 v2] [/= Hh Hv].
by apply: lrel_map_same => r; apply: (nval_rel _ Hh Hv).
Qed.

Definition frel (s1 : fstate T1) (s2 : fstate T2) : Prop :=
  [/\ hrel (fheap s1) (fheap s2), lrel vrel (fvals s1) (fvals s2) & lrel optrel (fstore s1) (fstore s2)].

Lemma fwd_node_rel s1 s2 n1 n2 : frel s1 s2 -> nrel n1 n2 -> frel (fwd1 s1 n1) (fwd2 s2 n2).
Proof.
case: s1 s2 => h1 v1 st1 [h2 v2 st2] [/= Hh Hv Hs].
have Hnv := nval_rel _ Hh Hv.
case: n1 n2 => o1 a1 [o2 a2] [/= <-].
case: o1 o2 => [|c|k|op| |f|n|n|k|k] [|c'|k'|op'| |f'|n'|n'|k'|k'] //= Ho; rewrite /fwd_node /=.
- by split=> //=; apply: lrel_rcons.
- by split=> //=; apply: lrel_rcons.
- by rewrite -Ho; split=> //=; apply: lrel_rcons.
- rewrite -Ho; split=> //=; apply: lrel_rcons => //=; apply: binval_rel; exact: Hnv.
- split=> //=; apply: lrel_rcons => //=; apply: Rneg; exact: Hnv.
- rewrite -Ho; split=> //=; apply: lrel_rcons => //=; apply: Runval; exact: Hnv.
- rewrite -Ho; split=> //=; apply: lrel_rcons => //=; apply: Rpown; exact: Hnv.
- rewrite -Ho; split=> //=; apply: lrel_rcons => //=; first exact: lrel_nseq.
  exact: lrel_size Hh.
- rewrite -Ho.
  have := nthv_rel (nth 0%N a1 0) Hv.
  case: (nth _ v1 _) (nth _ v2 _) => [x|c|c l] [x'|c'|c' l'] //=; try by move=> _; split=> //=; apply: lrel_rcons.
  move=> <-; split=> /=; [apply: hset_rel => //; exact: Hnv | exact: lrel_rcons | apply: lrel_rcons => //=; exact: hget_rel].
- rewrite -Ho; split=> //=; apply: lrel_rcons => //.
  by have := nthv_rel (nth 0%N a1 0) Hv; case: (nth _ v1 _) (nth _ v2 _) => [x|c|c l] [x'|c'|c' l'] //= <-.
Qed.

Lemma replay_rel t1 t2 xs1 xs2 : lrel nrel t1 t2 -> lrel R xs1 xs2 ->
  frel (replay zero1 add1 sub1 mul1 div1 neg1 pown1 unval1 t1 xs1)
       (replay zero2 add2 sub2 mul2 div2 neg2 pown2 unval2 t2 xs2).
Proof.
move=> Ht Hx; rewrite /replay.
have H0 : frel (FState [:: xs1] [::] [::]) (FState [:: xs2] [::] [::]) by split.
exact: (foldl_rel fwd_node_rel H0 Ht).
Qed.

Lemma replay_out_rel t1 t2 outs xs1 xs2 : lrel nrel t1 t2 -> lrel R xs1 xs2 ->
  lrel R (replay_out zero1 add1 sub1 mul1 div1 neg1 pown1 unval1 t1 outs xs1)
         (replay_out zero2 add2 sub2 mul2 div2 neg2 pown2 unval2 t2 outs xs2).
Proof.
move=> Ht Hx; rewrite /replay_out; have [Hh Hv _] := replay_rel Ht Hx.
by apply: lrel_map_same => a; apply: nval_rel.
Qed.

Definition trel (s1 : tstate T1) (s2 : tstate T2) : Prop :=
  [/\ hrel (theap s1) (theap s2), lrel vrel (tvals s1) (tvals s2), hrel (tgheap s1) (tgheap s2)
    & lrel R (tgvals s1) (tgvals s2)].

Lemma ntan_rel vs1 vs2 g1 g2 tg1 tg2 a : lrel vrel vs1 vs2 -> hrel g1 g2 -> lrel R tg1 tg2 ->
  R (ntan zero1 vs1 g1 tg1 a) (ntan zero2 vs2 g2 tg2 a).
Proof.
move=> Hv Hg Ht; rewrite /ntan; have := nthv_rel a Hv.
case: (nth _ vs1 _) (nth _ vs2 _) => [x|c|c l] [x'|c'|c' l'] //=; try by move=> _; apply: lrel_nth.
by case=> <- <-; apply: hget_rel.
Qed.

Lemma tan_node_rel s1 s2 n1 n2 : trel s1 s2 -> nrel n1 n2 -> trel (tan1 s1 n1) (tan2 s2 n2).
Proof.
move=> Hs Hn.
have [E1h E1v] := tan_node_fwd zero1 add1 sub1 mul1 div1 neg1 natmul1 pown1 unval1 unpart1 s1 n1.
have [E2h E2v] := tan_node_fwd zero2 add2 sub2 mul2 div2 neg2 natmul2 pown2 unval2 unpart2 s2 n2.
case: s1 s2 Hs E1h E1v E2h E2v => h1 v1 g1 tg1 [h2 v2 g2 tg2] [/= Hh Hv Hg Ht] E1h E1v E2h E2v.
have H0 : frel (FState h1 v1 [::]) (FState h2 v2 [::]) by split.
have [Hh' Hv' _] := fwd_node_rel H0 Hn.
suff [H3 H4] : hrel (tgheap (tan1 (TState h1 v1 g1 tg1) n1)) (tgheap (tan2 (TState h2 v2 g2 tg2) n2)) /\
               lrel R (tgvals (tan1 (TState h1 v1 g1 tg1) n1)) (tgvals (tan2 (TState h2 v2 g2 tg2) n2)).
  by split=> //; rewrite ?E1h ?E2h ?E1v ?E2v.
move=> {E1h E1v E2h E2v Hh' Hv' H0}.
have Hnv := nval_rel _ Hh Hv.
have Hnt := fun a => ntan_rel a Hv Hg Ht.
case: n1 n2 Hn => o1 a1 [o2 a2] [/= <-].
case: o1 o2 => [|c|k|op| |f|n|n|k|k] [|c'|k'|op'| |f'|n'|n'|k'|k'] //= Ho; rewrite /tan_node /=;
  try by split=> //=; apply: lrel_rcons.
- rewrite -Ho; case: op {Ho} => /=; split=> //=; apply: lrel_rcons => //.
  + apply: Radd; exact: Hnt.
  + apply: Rsub; exact: Hnt.
  + by apply: Radd; apply: Rmul; (exact: Hnt || exact: Hnv).
  + apply: Rdiv; last exact: Hnv.
    apply: Rsub; first exact: Hnt.
    by apply: Rmul; [apply: Rdiv; exact: Hnv | exact: Hnt].
- split=> //=; apply: lrel_rcons => //; apply: Rneg; exact: Hnt.
- rewrite -Ho; split=> //=; apply: lrel_rcons => //; apply: Rmul; last exact: Hnt.
  by apply: Runpart; [exact: Hnv | apply: Runval; exact: Hnv].
- rewrite -Ho; split=> //=; apply: lrel_rcons => //; apply: Rmul; last exact: Hnt.
  by apply: Rnatmul; apply: Rpown; exact: Hnv.
- by rewrite -Ho; split=> //=; [apply: lrel_rcons => //; apply: lrel_nseq | apply: lrel_rcons].
- rewrite -Ho.
  have := nthv_rel (nth 0%N a1 0) Hv.
  case: (nth _ v1 _) (nth _ v2 _) => [x|c|c l] [x'|c'|c' l'] //=; try by move=> _; split=> //=; apply: lrel_rcons.
  move=> <-; split=> //=; last exact: lrel_rcons.
  apply: hset_rel => //; exact: Hnt.
Qed.

Lemma tangent_out_rel t1 t2 outs xs1 xs2 dxs1 dxs2 : lrel nrel t1 t2 -> lrel R xs1 xs2 -> lrel R dxs1 dxs2 ->
  lrel R (tangent_out zero1 add1 sub1 mul1 div1 neg1 natmul1 pown1 unval1 unpart1 t1 outs xs1 dxs1)
         (tangent_out zero2 add2 sub2 mul2 div2 neg2 natmul2 pown2 unval2 unpart2 t2 outs xs2 dxs2).
Proof.
move=> Ht Hx Hd; rewrite /tangent_out /tangent.
have H0 : trel (TState [:: xs1] [::] [:: dxs1] [::]) (TState [:: xs2] [::] [:: dxs2] [::]) by split.
have [Hh Hv Hg Htg] := foldl_rel tan_node_rel H0 Ht.
by apply: lrel_map_same => a; apply: ntan_rel.
Qed.

Definition rrel (s1 : rstate T1) (s2 : rstate T2) : Prop :=
  [/\ hrel (rheap s1) (rheap s2), hrel (rbheap s1) (rbheap s2) & lrel R (rbar s1) (rbar s2)].

Lemma bar_add_rel vs1 vs2 s1 s2 a x y : lrel vrel vs1 vs2 -> rrel s1 s2 -> R x y ->
  rrel (badd1 vs1 s1 a x) (badd2 vs2 s2 a y).
Proof.
move=> Hv; case: s1 s2 => h1 b1 r1 [h2 b2 r2] [/= Hh Hb Hr] Hxy; rewrite /bar_add.
have := nthv_rel a Hv.
case: (nth _ vs1 _) (nth _ vs2 _) => [u|c|c l] [u'|c'|c' l'] //=.
- move=> _; split=> //=; apply: lrel_set_nth => //; apply: Radd => //; exact: lrel_nth.
- case=> <- <-; split=> //=; apply: hset_rel => //; apply: Radd => //; exact: hget_rel.
Qed.

Lemma bar_get_rel vs1 vs2 s1 s2 a : lrel vrel vs1 vs2 -> rrel s1 s2 -> R (bget1 vs1 s1 a) (bget2 vs2 s2 a).
Proof.
move=> Hv [Hh Hb Hr]; rewrite /bar_get; have := nthv_rel a Hv.
case: (nth _ vs1 _) (nth _ vs2 _) => [x|c|c l] [x'|c'|c' l'] //=; try by move=> _; apply: lrel_nth.
by case=> <- <-; apply: hget_rel.
Qed.

Local Arguments bar_add : simpl never.
Lemma rev_node_rel vs1 vs2 st1 st2 s1 s2 j n1 n2 : lrel vrel vs1 vs2 -> lrel optrel st1 st2 -> rrel s1 s2 ->
  nrel n1 n2 -> rrel (rev1 vs1 st1 s1 j n1) (rev2 vs2 st2 s2 j n2).
Proof.
move=> Hv Hst Hs.
have Hyb := bar_get_rel j Hv Hs.
have Hnv a := nval_rel a (let: And3 H _ _ := Hs in H) Hv.
have Hba := bar_add_rel _ Hv.
case: n1 n2 => o1 a1 [o2 a2] [/= <-]; rewrite /rev_node /=.
case: o1 o2 => [|c|k|op| |f|n|n|k|k] [|c'|k'|op'| |f'|n'|n'|k'|k'] //= Ho.
- rewrite -Ho; case: op {Ho} => /=.
  + by apply: (Hba) => //; apply: (Hba).
  + by apply: (Hba); [apply: (Hba) | apply: Rneg].
  + by apply: (Hba); [apply: (Hba) => //; apply: Rmul | apply: Rmul].
  + apply: (Hba); first by apply: (Hba) => //; apply: Rdiv.
    by apply: Rneg; apply: Rmul => //; apply: Rdiv.
- by apply: (Hba) => //; apply: Rneg.
- by rewrite -Ho; apply: (Hba) => //; apply: Rmul => //; apply: Runpart.
- by rewrite -Ho; apply: (Hba) => //; apply: Rmul => //; apply: Rnatmul; apply: Rpown.
- rewrite -Ho.
  have := nthv_rel (nth 0%N a1 0) Hv.
  case: (nth _ vs1 _) (nth _ vs2 _) => [x|c|c l] [x'|c'|c' l'] //= <-.
  have [Hh Hb Hr] := Hs.
  set u1 := badd1 _ _ _ _; set u2 := badd2 _ _ _ _.
  have [Hh' Hb' Hr'] : rrel u1 u2.
    by apply: (Hba); [split=> //=; apply: hset_rel | apply: hget_rel].
  have : optrel (nth None st1 j) (nth None st2 j) by apply: lrel_nth.
  case: (nth None st1 j) (nth None st2 j) => [x|] [y|] //= Hxy.
  by split=> //=; apply: hset_rel.
Qed.

Lemma rev_loop_rel vs1 vs2 st1 st2 : lrel vrel vs1 vs2 -> lrel optrel st1 st2 ->
  forall rt1 rt2 j s1 s2, lrel nrel rt1 rt2 -> rrel s1 s2 ->
  rrel (rev_loop zero1 add1 mul1 div1 neg1 natmul1 pown1 unpart1 vs1 st1 rt1 j s1)
       (rev_loop zero2 add2 mul2 div2 neg2 natmul2 pown2 unpart2 vs2 st2 rt2 j s2).
Proof.
move=> Hv Hst; elim=> [|n1 rt1 IH] [|n2 rt2] //= [|j] s1 s2 [Hn Hrt] Hs //.
by apply: IH => //; apply: rev_node_rel.
Qed.

Lemma seed_rel vs1 vs2 outs : lrel vrel vs1 vs2 -> forall yb1 yb2 s1 s2, lrel R yb1 yb2 -> rrel s1 s2 ->
  rrel (seed zero1 add1 vs1 s1 outs yb1) (seed zero2 add2 vs2 s2 outs yb2).
Proof.
move=> Hv; rewrite /seed; elim: outs => [|o outs IH] [|y1 yb1] [|y2 yb2] //= s1 s2 [Hy Hyb] Hs.
by apply: IH => //; apply: bar_add_rel.
Qed.

Lemma zero_like_rel h1 h2 : hrel h1 h2 -> hrel (zero_like_heap zero1 h1) (zero_like_heap zero2 h2).
Proof.
move=> H; rewrite /zero_like_heap; apply: lrel_map H => r1 r2 Hr.
by rewrite (lrel_size Hr); apply: lrel_nseq.
Qed.

Lemma gradient_like_rel t1 t2 outs xs1 xs2 yb1 yb2 : lrel nrel t1 t2 -> lrel R xs1 xs2 -> lrel R yb1 yb2 ->
  lrel R (gradient_like zero1 add1 sub1 mul1 div1 neg1 natmul1 pown1 unval1 unpart1 t1 outs xs1 yb1)
         (gradient_like zero2 add2 sub2 mul2 div2 neg2 natmul2 pown2 unval2 unpart2 t2 outs xs2 yb2).
Proof.
move=> Ht Hx Hy; rewrite /gradient_like /xbar_of /pullback.
have [Hh Hv Hst] := replay_rel Ht Hx.
suff [_ Hb _] : rrel
  (rev_loop zero1 add1 mul1 div1 neg1 natmul1 pown1 unpart1
     (fvals (replay zero1 add1 sub1 mul1 div1 neg1 pown1 unval1 t1 xs1))
     (fstore (replay zero1 add1 sub1 mul1 div1 neg1 pown1 unval1 t1 xs1)) (rev t1) (size t1)
     (seed zero1 add1 (fvals (replay zero1 add1 sub1 mul1 div1 neg1 pown1 unval1 t1 xs1))
        (RState (fheap (replay zero1 add1 sub1 mul1 div1 neg1 pown1 unval1 t1 xs1))
           (zero_like_heap zero1 (fheap (replay zero1 add1 sub1 mul1 div1 neg1 pown1 unval1 t1 xs1)))
           (nseq (size t1) zero1)) outs yb1))
  (rev_loop zero2 add2 mul2 div2 neg2 natmul2 pown2 unpart2
     (fvals (replay zero2 add2 sub2 mul2 div2 neg2 pown2 unval2 t2 xs2))
     (fstore (replay zero2 add2 sub2 mul2 div2 neg2 pown2 unval2 t2 xs2)) (rev t2) (size t2)
     (seed zero2 add2 (fvals (replay zero2 add2 sub2 mul2 div2 neg2 pown2 unval2 t2 xs2))
        (RState (fheap (replay zero2 add2 sub2 mul2 div2 neg2 pown2 unval2 t2 xs2))
           (zero_like_heap zero2 (fheap (replay zero2 add2 sub2 mul2 div2 neg2 pown2 unval2 t2 xs2)))
           (nseq (size t2) zero2)) outs yb2)).
  by apply: lrel_nth.
rewrite (lrel_size Ht); apply: rev_loop_rel => //; first exact: lrel_rev.
apply: seed_rel => //; split=> //=; [exact: zero_like_rel | exact: lrel_nseq].
Qed.
End Param.

Section Refine.
Variable K : fieldType.
Variable D : nat.

(* first D coefficients of a polynomial *)
Definition cutP (q : {poly K}) : seq K := mkseq (fun d => q`_d) D.
(* the arbitrary tables of the ring instance, chosen so that they agree with the executable kernels modulo X^D *)
Definition recipP (q : {poly K}) : {poly K} := Poly (recipS (cutP q)).
Definition unvalP (f : nat) (q : {poly K}) : {poly K} := Poly (x_unval f (cutP q)).
Definition unpartP (f : nat) (q y : {poly K}) : {poly K} := Poly (x_unpart D f (cutP q) (cutP y)).

(* a coefficient list of length D represents a polynomial modulo X^D *)
Definition srel (a : seq K) (q : {poly K}) : Prop := size a = D /\ forall d, (d < D)%N -> a`_d = q`_d.
Definition sers_rel (a : seq (seq K)) (q : seq {poly K}) : Prop :=
  size a = size q /\ forall i, (i < size a)%N -> srel (nth [::] a i) (nth 0 q i).

Definition operandP (o : operand (seq K)) : operand {poly K} :=
  match o with OReg r => OReg _ r | OConst c => OConst (Poly c) end.
Definition instrP (i : instr (seq K)) : instr {poly K} :=
  match i with
  | IX k => IX _ k | IBin op a b => IBin op (operandP a) (operandP b) | INeg r => INeg _ r | IUn f r => IUn _ f r
  | IPow r n => IPow _ r n | IZeros n => IZeros _ n | ISet b k a => ISet b k (operandP a) | IGet b k => IGet _ b k
  end.
Definition operand_ok (o : operand (seq K)) : bool := match o with OReg _ => true | OConst c => size c == D end.
Definition instr_ok (i : instr (seq K)) : bool :=
  match i with IBin _ a b => operand_ok a && operand_ok b | ISet _ _ a => operand_ok a | _ => true end.

Definition nodeP (n : node (seq K)) : node {poly K} :=
  Node (match nop n with
        | NInput => NInput _ | NConst c => NConst (Poly c) | NGetX k => NGetX _ k | NBin op => NBin _ op | NNeg => NNeg _
        | NUn f => NUn _ f | NPow m => NPow _ m | NZeros m => NZeros _ m | NSet k => NSet _ k | NGet k => NGet _ k end) (nargs n).
Definition node_ok (n : node (seq K)) : bool := match nop n with NConst c => size c == D | _ => true end.

Implicit Types (prog : seq (instr (seq K))) (t : tape (seq K)) (xs dxs ybars : seq (seq K)).
Definition sized xs := all (fun x => size x == D) xs.

(* ---------- congruence modulo X^D ---------- *)
Definition eqD (p q : {poly K}) : Prop := forall d, (d < D)%N -> p`_d = q`_d.
Lemma eqD_refl p : eqD p p. Proof. by []. Qed.
Lemma eqD_sym p q : eqD p q -> eqD q p. Proof. by move=> H d lt_d; rewrite H. Qed.
Lemma eqD_trans q p r : eqD p q -> eqD q r -> eqD p r. Proof. by move=> H1 H2 d lt_d; rewrite H1 ?H2. Qed.
Lemma eqD_mul p p' q q' : eqD p p' -> eqD q q' -> eqD (p * q) (p' * q').
Proof.
move=> Hp Hq d lt_d; apply: coefM_low => i le_i; [apply: Hp | apply: Hq]; exact: leq_ltn_trans le_i lt_d.
Qed.
Lemma eqD_exp p q n : eqD p q -> eqD (p ^+ n) (q ^+ n).
Proof. by move=> H; elim: n => [|n IH]; rewrite ?expr0 // !exprS; apply: eqD_mul. Qed.

Lemma srelE a q : srel a q <-> size a = D /\ eqD (Poly a) q.
Proof.
by split=> -[sz H]; split=> // d lt_d; have := H d lt_d; rewrite coef_Poly.
Qed.
Lemma srel_Poly a : size a = D -> srel a (Poly a).
Proof. by move=> sz; split=> // d _; rewrite coef_Poly. Qed.
Lemma cutP_srel a q : srel a q -> cutP q = a.
Proof.
case=> sz H; apply: (@eq_from_nth _ 0); rewrite size_mkseq // => i lt_i.
by rewrite nth_mkseq // H.
Qed.

(* ---------- the kernels of Series.v compute the ring operations modulo X^D ---------- *)
Lemma srel_zero : srel (x_zero K D) 0.
Proof. by split; [rewrite size_nseq | move=> d lt_d; rewrite nth_nseq lt_d coef0]. Qed.
Lemma srel_add a b p q : srel a p -> srel b q -> srel (addS a b) (p + q).
Proof.
case=> sa Ha [sb Hb]; split; first by rewrite size_mkseq.
by move=> d lt_d; rewrite nth_mkseq ?sa // coefD Ha ?Hb.
Qed.
Lemma srel_sub a b p q : srel a p -> srel b q -> srel (subS a b) (r_sub p q).
Proof.
case=> sa Ha [sb Hb]; split; first by rewrite size_mkseq.
by move=> d lt_d; rewrite nth_mkseq ?sa // coefB Ha ?Hb.
Qed.
Lemma srel_neg a p : srel a p -> srel (negS a) (- p).
Proof.
case=> sa Ha; split; first by rewrite size_map.
by move=> d lt_d; rewrite (nth_map 0) ?sa // coefN Ha.
Qed.
Lemma srel_natmul n a p : srel a p -> srel (x_natmul n a) (r_natmul n p).
Proof.
case=> sa Ha; split; first by rewrite size_map.
by move=> d lt_d; rewrite (nth_map 0) ?sa // coefMn Ha // mulr_natl.
Qed.
Lemma srel_mul a b p q : srel a p -> srel b q -> srel (mulS a b) (p * q).
Proof.
move=> /srelE[sa Ha] /srelE[sb Hb]; split; first by rewrite size_mulS.
by move=> d lt_d; rewrite mulS_spec ?sa //; apply: eqD_mul.
Qed.

Lemma divS_zero (a b : seq K) d : b`_0 = 0 -> (d < size a)%N -> (divS a b)`_d = 0.
Proof.
move=> E lt_d; rewrite /divS series1_nth //.
by case: d {lt_d} => [|d]; rewrite ?ucoef0 ?ucoefS /div_step E invr0 mul0r.
Qed.
Lemma recipS_zero (b : seq K) d : b`_0 = 0 -> (d < size b)%N -> (recipS b)`_d = 0.
Proof.
move=> E lt_d; rewrite /recipS series1_nth //.
by case: d {lt_d} => [|d]; rewrite ?ucoef0 ?ucoefS /recip_step E invr0 mul0r.
Qed.

Lemma divS_mul_recipS (a b : seq K) : size a = D -> size b = D ->
  eqD (Poly (divS a b)) (Poly a * Poly (recipS b)).
Proof.
move=> sa sb; have [E|nz] := eqVneq (b`_0) 0.
  apply: (@eqD_trans 0).
    by move=> d lt_d; rewrite coef_Poly coef0 divS_zero ?sa.
  apply: eqD_sym; rewrite -[X in eqD _ X](mulr0 (Poly a)); apply: eqD_mul => // d lt_d.
  by rewrite coef_Poly coef0 recipS_zero ?sb.
set Z := Poly (divS a b); set B := Poly b; set R' := Poly (recipS b); set A := Poly a.
have HZB : eqD (Z * B) A by move=> d lt_d; rewrite divS_spec ?sa // coef_Poly.
have HRB : eqD (R' * B) 1 by move=> d lt_d; rewrite recipS_spec ?sb.
apply: (@eqD_trans (Z * (R' * B))).
  by apply: eqD_sym; rewrite -[X in eqD _ X]mulr1; apply: eqD_mul.
by rewrite mulrCA [R' * _]mulrC; apply: eqD_mul.
Qed.

Lemma srel_div a b p q : srel a p -> srel b q -> srel (divS a b) (r_div recipP p q).
Proof.
move=> Ha Hb; rewrite /r_div /recipP (cutP_srel Hb).
case/srelE: Ha => sa Ha; case: Hb => sb _; apply/srelE; split; first by rewrite size_divS.
by apply: eqD_trans (divS_mul_recipS sa sb) _; apply: eqD_mul.
Qed.

Lemma size_pownatS (a : seq K) n : size (pownatS a n) = size a.
Proof.
by case: n => [|[|[|n]]] //=; rewrite ?size_mkseq.
Qed.
Lemma srel_pown n a p : srel a p -> srel (x_pown a n) (r_pown p n).
Proof.
move=> /srelE[sa Ha]; split; first by rewrite /x_pown size_pownatS.
by move=> d lt_d; rewrite /x_pown pownatS_spec ?sa //; apply: eqD_exp.
Qed.

Lemma size_recipS (b : seq K) : size (recipS b) = size b. Proof. by rewrite /recipS size_series1. Qed.
Lemma size_squareS (a : seq K) : size (squareS a) = size a. Proof. by rewrite /squareS size_mkseq. Qed.

Lemma srel_unval f a p : srel a p -> srel (x_unval f a) (unvalP f p).
Proof.
move=> Ha; rewrite /unvalP (cutP_srel Ha); apply: srel_Poly; case: Ha => sa _.
by case: f => [|[|f]] /=; rewrite ?size_squareS ?size_recipS ?size_map.
Qed.
Lemma srel_unpart f a p b q : srel a p -> srel b q -> srel (x_unpart D f a b) (unpartP f p q).
Proof.
move=> Ha Hb; rewrite /unpartP (cutP_srel Ha) (cutP_srel Hb); apply: srel_Poly; case: Ha => sa _.
by case: f => [|[|f]] /=; rewrite ?size_map ?size_recipS ?size_squareS ?size_mkseq ?size_iota.
Qed.

(* ---------- translation of programs / tapes / inputs ---------- *)
Lemma sers_of_lrel a q : lrel srel a q -> sers_rel a q.
Proof. by move=> H; split; [exact: lrel_size H | move=> i lt_i; apply: lrel_nth_lt]. Qed.
Lemma lrel_sized xs : sized xs -> lrel srel xs (map Poly xs).
Proof. by elim: xs => [|x xs IH] //= /andP[/eqP sx /IH Hxs]; split=> //; apply: srel_Poly. Qed.
Lemma orel_P o : operand_ok o -> orel srel o (operandP o).
Proof. by case: o => [r|c] //= /eqP sc; apply: srel_Poly. Qed.
Lemma irel_P i : instr_ok i -> irel srel i (instrP i).
Proof.
case: i => [k|op a b|r|f r|r n|n|b k a|b k] //=.
- by case/andP=> /orel_P Ha /orel_P Hb.
- by move=> /orel_P Ha.
Qed.
Lemma lrel_prog prog : all instr_ok prog -> lrel (irel srel) prog (map instrP prog).
Proof. by elim: prog => [|i p IH] //= /andP[/irel_P Hi /IH Hp]. Qed.
Lemma nrel_P n : node_ok n -> nrel srel n (nodeP n).
Proof. by case: n => [[|c|k|op| |f|m|m|k|k] a] //=; rewrite /node_ok /nrel /= => /eqP sc; split=> //; apply: srel_Poly. Qed.
Lemma lrel_tape t : all node_ok t -> lrel (nrel srel) t (map nodeP t).
Proof. by elim: t => [|n t IH] //= /andP[/nrel_P Hn /IH Ht]. Qed.

(* recording commutes with the translation of constants *)
Local Arguments record_instr : simpl never.
Lemma record_instr_P (st : tape (seq K) * seq nat) i :
  record_instr (map nodeP st.1, st.2) (instrP i) = ((map nodeP (record_instr st i).1), (record_instr st i).2).
Proof.
case: st => t regs; case: i => [k|op [r|c] [r'|c']|r|f r|r n|n|b k [r|c]|b k]; rewrite /record_instr /=;
  rewrite ?(map_rcons, size_rcons, size_map) //.
by case: op => /=; rewrite ?(map_rcons, size_rcons, size_map).
Qed.
Lemma record_fold_P prog (st : tape (seq K) * seq nat) :
  foldl (@record_instr _) (map nodeP st.1, st.2) (map instrP prog)
  = (map nodeP (foldl (@record_instr _) st prog).1, (foldl (@record_instr _) st prog).2).
Proof. by elim: prog st => [|i p IH] st //=; rewrite record_instr_P IH. Qed.

Theorem record_P prog :
  record (map instrP prog) = ([seq nodeP n | n <- (record prog).1], (record prog).2).
Proof.
rewrite /record.
exact: (record_fold_P prog ([:: Node (NInput (seq K)) [::]], [::])).
Qed.

Lemma record_instr_ok (st : tape (seq K) * seq nat) i : all node_ok st.1 -> instr_ok i -> all node_ok (record_instr st i).1.
Proof.
case: st => t regs /= Ht; case: i => [k|op [r|c] [r'|c']|r|f r|r n|n|b k [r|c]|b k]; rewrite /record_instr /=;
  rewrite ?all_rcons ?Ht //=; rewrite /node_ok /= ?andbT //.
- by case: op => /=; rewrite ?all_rcons ?Ht /node_ok /= ?andbT.
- by case/andP=> -> ->.
Qed.

Theorem record_ok prog : all instr_ok prog -> all node_ok (record prog).1.
Proof.
rewrite /record; move: (_, _) (isT : all node_ok ([:: Node (NInput (seq K)) [::]], [::] : seq nat).1).
elim: prog => [|i p IH] st Hst //= /andP[Hi Hp]; apply: IH => //; exact: record_instr_ok.
Qed.

Lemma nth_nodeP t a : nth (Node (NInput {poly K}) [::]) (map nodeP t) a = nodeP (nth (Node (NInput (seq K)) [::]) t a).
Proof. by elim: t a => [|n t IH] [|a] //=. Qed.
Lemma kind_nodeP n : kind_of (nop (nodeP n)) = kind_of (nop n).
Proof. by case: n => [[]]. Qed.
Lemma is_scal_P t a : is_scal (map nodeP t) a = is_scal t a.
Proof. by rewrite /is_scal nth_nodeP kind_nodeP. Qed.
Lemma buf_size_P t a : buf_size (map nodeP t) a = buf_size t a.
Proof. by rewrite /buf_size nth_nodeP kind_nodeP. Qed.
Lemma wf_node_P N t j n : wf_node N (map nodeP t) j (nodeP n) = wf_node N t j n.
Proof.
by case: n => [[|c|k|op| |f|m|m|k|k] a]; rewrite /wf_node /= ?is_scal_P ?buf_size_P.
Qed.

Theorem wf_tape_P N t : wf_tape N (map nodeP t) = wf_tape N t.
Proof.
rewrite /wf_tape size_map; congr (_ && _); apply: eq_in_all => j _.
by rewrite nth_nodeP wf_node_P.
Qed.

(* the executable instance refines the ring instance, for every tape whatsoever (no well-formedness needed) *)
Theorem X_eval_refines prog ret xs : all instr_ok prog -> sized xs ->
  sers_rel (X_eval_out D prog ret xs) (R_eval_out recipP unvalP (map instrP prog) ret (map Poly xs)).
Proof.
move=> Hp Hx; apply: sers_of_lrel; rewrite /X_eval_out /R_eval_out.
apply: eval_out_rel; try solve [exact: srel_zero | by move=> *; apply: srel_add | by move=> *; apply: srel_sub
  | by move=> *; apply: srel_mul | by move=> *; apply: srel_div
  | exact: srel_neg | exact: srel_natmul | exact: srel_pown | exact: srel_unval | by move=> *; apply: srel_unpart
  | exact: lrel_prog | exact: lrel_tape | exact: lrel_sized].
Qed.

Theorem X_replay_refines t outs xs : all node_ok t -> sized xs ->
  sers_rel (X_replay_out D t outs xs) (R_replay_out recipP unvalP (map nodeP t) outs (map Poly xs)).
Proof.
move=> Ht Hx; apply: sers_of_lrel; rewrite /X_replay_out /R_replay_out.
apply: replay_out_rel; try solve [exact: srel_zero | by move=> *; apply: srel_add | by move=> *; apply: srel_sub
  | by move=> *; apply: srel_mul | by move=> *; apply: srel_div
  | exact: srel_neg | exact: srel_natmul | exact: srel_pown | exact: srel_unval | by move=> *; apply: srel_unpart
  | exact: lrel_prog | exact: lrel_tape | exact: lrel_sized].
Qed.

Theorem X_tangent_refines t outs xs dxs : all node_ok t -> sized xs -> sized dxs ->
  sers_rel (X_tangent_out D t outs xs dxs) (R_tangent_out recipP unvalP unpartP (map nodeP t) outs (map Poly xs) (map Poly dxs)).
Proof.
move=> Ht Hx Hd; apply: sers_of_lrel; rewrite /X_tangent_out /R_tangent_out.
apply: tangent_out_rel; try solve [exact: srel_zero | by move=> *; apply: srel_add | by move=> *; apply: srel_sub
  | by move=> *; apply: srel_mul | by move=> *; apply: srel_div
  | exact: srel_neg | exact: srel_natmul | exact: srel_pown | exact: srel_unval | by move=> *; apply: srel_unpart
  | exact: lrel_prog | exact: lrel_tape | exact: lrel_sized].
Qed.

Theorem X_grad_refines t outs xs ybars : all node_ok t -> sized xs -> sized ybars ->
  sers_rel (X_grad D t outs xs ybars) (R_gradient_like recipP unvalP unpartP (map nodeP t) outs (map Poly xs) (map Poly ybars)).
Proof.
move=> Ht Hx Hy; apply: sers_of_lrel; rewrite /X_grad /R_gradient_like.
apply: gradient_like_rel; try solve [exact: srel_zero | by move=> *; apply: srel_add | by move=> *; apply: srel_sub
  | by move=> *; apply: srel_mul | by move=> *; apply: srel_div
  | exact: srel_neg | exact: srel_natmul | exact: srel_pown | exact: srel_unval | by move=> *; apply: srel_unpart
  | exact: lrel_prog | exact: lrel_tape | exact: lrel_sized].
Qed.

(* hence the adjoint identity holds for the executable instance at every Taylor order d < D *)
Lemma nth_map_Poly (s : seq (seq K)) i : nth 0 (map Poly s) i = Poly (nth [::] s i).
Proof. by elim: s i => [|x s IH] [|i] //=. Qed.
Lemma sers_rel_eqD a q i : sers_rel a q -> eqD (Poly (nth [::] a i)) (nth 0 q i).
Proof.
case=> sz H; case: (ltnP i (size a)) => lt_i.
  by have [_ Hi] := H i lt_i => d lt_d; rewrite coef_Poly; apply: Hi.
by rewrite !nth_default -?sz.
Qed.

Theorem X_adjoint t outs xs dxs ybars : all node_ok t -> sized xs -> sized dxs -> sized ybars ->
  wf_tape (size xs) t -> size dxs = size xs -> size ybars = size outs -> uniq outs ->
  all (fun a => (a < size t)%N && is_scal t a) outs ->
  forall d, (d < D)%N ->
  (\sum_(i < size xs) Poly (nth [::] (X_grad D t outs xs ybars) i) * Poly (nth [::] dxs i))`_d
  = (\sum_(j < size outs) Poly (nth [::] ybars j) * Poly (nth [::] (X_tangent_out D t outs xs dxs) j))`_d.
Proof.
move=> Ht Hx Hdx Hy wf sd sy uo Ho d lt_d.
have HG := X_grad_refines outs Ht Hx Hy.
have HT := X_tangent_refines outs Ht Hx Hdx.
have Ho' : all (fun a => (a < size t)%N && is_scal (map nodeP t) a) outs.
  by apply: sub_all Ho => a; rewrite is_scal_P.
have := @reverse_adjoint [comRingType of {poly K}] recipP unvalP unpartP (map nodeP t) outs
          (map Poly xs) (map Poly dxs) (map Poly ybars).
rewrite !size_map wf_tape_P => /(_ wf sd sy uo Ho') /(congr1 (fun p : {poly K} => p`_d)).
rewrite !coef_sum => E.
transitivity (\sum_(i < size xs)
   ((R_gradient_like recipP unvalP unpartP (map nodeP t) outs (map Poly xs) (map Poly ybars))`_i * (map Poly dxs)`_i)`_d).
  apply: eq_bigr => i _; apply: eqD_mul => //; first exact: sers_rel_eqD.
  by rewrite nth_map_Poly.
rewrite E; apply: eq_bigr => j _; apply: eqD_mul => //; first by rewrite nth_map_Poly.
by apply: eqD_sym; apply: sers_rel_eqD.
Qed.

(* and replaying the recorded tape of a program gives the program's values, for the executable instance *)
Lemma wf_operand_P rk o : wf_operand rk (operandP o) = wf_operand rk o.
Proof. by case: o. Qed.
Lemma wf_instr_P N rk i : wf_instr N rk (instrP i) = wf_instr N rk i.
Proof.
case: i => [k|op a b|r|f r|r n|n|b k a|b k] //=; rewrite ?wf_operand_P //.
by case: a b => [r|c] [r'|c'].
Qed.
Lemma wf_prog_P N prog : wf_prog N (map instrP prog) = wf_prog N prog.
Proof.
rewrite /wf_prog; elim: prog [::] => [|i p IH] rk //=.
by rewrite wf_instr_P; case: (wf_instr N rk i).
Qed.

Theorem X_replay_is_eval prog ret xs : all instr_ok prog -> sized xs -> wf_prog (size xs) prog ->
  all (fun r => (r < size (record prog).2)%N) ret ->   (* adjust this side condition to whatever TracerSpecA/B's replay_is_eval needs *)
  forall i d, (i < size ret)%N -> (d < D)%N ->
  (nth [::] (X_replay_out D (record prog).1 [seq nth 0%N (record prog).2 r | r <- ret] xs) i)`_d
  = (nth [::] (X_eval_out D prog ret xs) i)`_d.
Proof.
move=> Hp Hx wfp Hret i d lt_i lt_d.
have Hok := record_ok Hp.
have [s1 H1] := X_replay_refines [seq nth 0%N (record prog).2 r | r <- ret] Hok Hx.
have [s2 H2] := X_eval_refines ret Hp Hx.
have E : R_replay_out recipP unvalP (map nodeP (record prog).1) [seq nth 0%N (record prog).2 r | r <- ret] (map Poly xs)
       = R_eval_out recipP unvalP (map instrP prog) ret (map Poly xs).
  have := @replay_is_eval [comRingType of {poly K}] recipP unvalP (size xs) (map instrP prog) ret (map Poly xs).
  rewrite /R_record record_P /= wf_prog_P size_map; exact.
have lt1 : (i < size (X_replay_out D (record prog).1 [seq nth 0%N (record prog).2 r | r <- ret] xs))%N.
  by rewrite /X_replay_out /replay_out !size_map.
have lt2 : (i < size (X_eval_out D prog ret xs))%N.
  by rewrite /X_eval_out /eval_out; case: (eval _ _ _ _ _ _ _ _ _ _) => h regs; rewrite size_map.
have [_ ->] // := H1 i lt1.
have [_ ->] // := H2 i lt2.
by rewrite E.
Qed.

End Refine.

