(* MODEL of the closed-form n-th derivatives of algopy/nthderiv/nthderiv.py over Coq's real numbers.
   g_f n x transcribes the closed form returned for order n (order 0 is routed to the function itself by the basecase
   decorator).  Integer constants are written with IZR so that the certified interval arithmetic of coq-interval can evaluate
   the model at concrete points (correspondence check). *)
From Coq Require Import Reals ZArith.
Local Open Scope R_scope.

Definition zfact (n : nat) : R := IZR (Z.of_nat (fact n)).
Definition msign (n : nat) : R := (-1) ^ n.                      (* pow(-1, n) *)

Definition g_exp (n : nat) (x : R) : R := exp x.
Definition ln2 : R := ln 2.
Definition g_exp2 (n : nat) (x : R) : R := exp (x * ln2) * ln2 ^ n.       (* np.exp2(x) * log(2)**n *)
Definition g_expm1 (n : nat) (x : R) : R := match n with O => exp x - 1 | S _ => exp x end.
(* np.power(x, -n) * (-1)**(n-1) * (n-1)! *)
Definition g_log (n : nat) (x : R) : R := match n with O => ln x | S m => msign m * zfact m / x ^ n end.
Definition g_log2 (n : nat) (x : R) : R := g_log n x / ln2.
Definition g_log10 (n : nat) (x : R) : R := g_log n x / ln 10.
Definition g_log1p (n : nat) (x : R) : R := match n with O => ln (1 + x) | S m => msign m * zfact m / (1 + x) ^ n end.
(* np.power(x, 0.5 - n) * poch(1.5 - n, n) ;  poch(a, n) = a (a+1) ... (a+n-1) *)
Fixpoint poch (a : R) (n : nat) : R := match n with O => 1 | S m => poch a m * (a + INR m) end.
Fixpoint pochZ (num : Z) (n : nat) : R :=      (* poch(num/2, n) with exact integer arithmetic in the numerators *)
  match n with O => 1 | S m => pochZ num m * (IZR (num + 2 * Z.of_nat m) / 2) end.
Definition g_sqrt (n : nat) (x : R) : R := sqrt x / x ^ n * pochZ (3 - 2 * Z.of_nat n) n.
Definition g_square (n : nat) (x : R) : R := match n with O => x * x | 1%nat => x * 2 | 2%nat => 2 | _ => 0 end.
Definition g_negative (n : nat) (x : R) : R := match n with O => - x | 1%nat => -1 | _ => 0 end.
(* np.power(x, -(n+1)) * n! * (-1)**n *)
Definition g_reciprocal (n : nat) (x : R) : R := msign n * zfact n / x ^ (S n).
Definition g_sin (n : nat) (x : R) : R := sin (/ 2 * IZR (Z.of_nat n) * PI + x).
Definition g_cos (n : nat) (x : R) : R := cos (/ 2 * IZR (Z.of_nat n) * PI + x).
(* real part of (-i)^n sinh(i pi n / 2 + x): sinh for even n, cosh for odd n *)
Definition g_sinh (n : nat) (x : R) : R := if Nat.even n then sinh x else cosh x.
Definition g_cosh (n : nat) (x : R) : R := if Nat.even n then cosh x else sinh x.
(* 0.5 (n-1)! ((1-x)^-n + (-1)^(n-1) (1+x)^-n) *)
Definition g_arctanh (n : nat) (x : R) : R :=
  match n with O => / 2 * ln ((1 + x) / (1 - x)) | S m => / 2 * zfact m * (/ (1 - x) ^ n + msign m / (1 + x) ^ n) end.
