(* The hand-written reverse-mode ("pullback") rule of AlgoPy's REDUCED QR factorization of a TALL matrix
   (algopy/utpm/algorithms.py _qr_rectangular_pullback, M > N:  A = Q R with A, Q of shape M x N, R of shape N x N,
   Q^T Q = 1 but Q Q^T is only the orthogonal projector onto the range of Q) is the ADJOINT of the differential of the
   factorization, for the pairing  <A, B> = tr (A^T B)  of MatPullback.v.
   As in MatPullbackFact.v the differential is defined implicitly by the linearised constraints
   (dA = dQ R + Q dR,  dQ^T Q + Q^T dQ = 0,  dR upper), and the theorem quantifies over ALL such tangent tuples.
   Compared with the square case (pb_qr_adjoint) the rule has the additional term  (Qbar - Q Q^T Qbar) R^{-T}  (STEP 6 of
   the Python code), which accounts for the component of dQ orthogonal to the range of Q. *)
From mathcomp Require Import all_ssreflect all_algebra.
From AlgoV Require Import Sums Series Matrix MatrixFact MatrixSpec MatPullback FactSpec MatPullbackFact.
Set Implicit Arguments. Unset Strict Implicit. Unset Printing Implicit Defensive.
Import GRing.Theory.
Local Open Scope ring_scope.

Section MatPullbackQRTall.
Variable K : fieldType.
Variables m n : nat.
Hypothesis char2 : (2%:R : K) != 0.

(* the pairing of rectangular matrices is additive on the left as well *)
Lemma ipDl_rect p q (A B C : 'M[K]_(p, q)) : ip (A + B) C = ip A C + ip B C.
Proof. by rewrite ipC ipDr ![ip C _]ipC. Qed.

(* <Q X, Y> = <X, Q^T Y> *)
Lemma ip_mulQ p q r (Q : 'M[K]_(p, q)) (X : 'M[K]_(q, r)) (Y : 'M[K]_(p, r)) : ip (Q *m X) Y = ip X (Q^T *m Y).
Proof. by rewrite ipC ip_mulr ipC. Qed.

(* the part of the rule already present in the square case only sees Q^T dA *)
Lemma pb_qr_tall_range (Q Qbar dQ : 'M[K]_(m, n)) (R Ri Rbar dR : 'M[K]_n) :
  Q^T *m Q = 1%:M -> R *m Ri = 1%:M -> is_upper Ri ->
  (Q^T *m dQ)^T = - (Q^T *m dQ) -> is_upper dR ->
  let V := Qbar^T *m Q - R *m Rbar^T in
  let dA := dQ *m R + Q *m dR in
  ip (Q *m (Rbar + tril1M (V^T - V) *m Ri^T)) dA = ip Rbar dR + ip Qbar (Q *m (Q^T *m dQ)).
Proof.
move=> QtQ RRi HRi HOm HdR V dA.
set Om := Q^T *m dQ in HOm *.
have -> : ip (Q *m (Rbar + tril1M (V^T - V) *m Ri^T)) dA = ip (Rbar + tril1M (V^T - V) *m Ri^T) (Om *m R + dR).
  by rewrite ip_mulQ /dA mulmxDr !mulmxA QtQ mul1mx.
have HuR : is_upper (dR *m Ri) by apply: upper_mul.
have E1 : ip (R *m Rbar^T) Om = - ip (Rbar *m R^T) Om.
  by rewrite -[R *m Rbar^T]trmxK trmx_mul trmxK -ip_tr HOm ipNr.
have E2 : ip (Qbar^T *m Q) Om = - ip Qbar (Q *m Om).
  by rewrite -[Qbar^T *m Q]trmxK trmx_mul trmxK -ip_tr HOm ipNr -ip_mulr.
rewrite ipDl_rect.
have -> : ip (tril1M (V^T - V) *m Ri^T) (Om *m R + dR) = - ip V Om.
  rewrite -ip_mull mulmxDl -[Om *m R *m Ri]mulmxA RRi mulmx1 ipDr (ip_tril1_upper _ HuR) addr0.
  exact: ip_tril1_antisym.
have -> : ip Rbar (Om *m R + dR) = ip (Rbar *m R^T) Om + ip Rbar dR by rewrite ipDr ip_mull.
rewrite /V ipDl_rect ipNl E1 E2.
set a := ip Qbar _; set b := ip Rbar dR; set c := ip _ Om.
by rewrite opprK opprD opprK [c + b]addrC -addrA [c + _]addrC -addrA [- c + c]addrC subrr addr0.
Qed.

(* the additional term of the tall case (STEP 6) sees exactly the component of dQ orthogonal to the range of Q *)
Lemma pb_qr_tall_compl (Q Qbar dQ : 'M[K]_(m, n)) (R Ri dR : 'M[K]_n) :
  Q^T *m Q = 1%:M -> R *m Ri = 1%:M ->
  let dA := dQ *m R + Q *m dR in
  ip ((Qbar - Q *m (Q^T *m Qbar)) *m Ri^T) dA = ip Qbar dQ - ip Qbar (Q *m (Q^T *m dQ)).
Proof.
move=> QtQ RRi dA.
have E : dA *m Ri = dQ + Q *m (dR *m Ri).
  by rewrite /dA mulmxDl -[dQ *m R *m Ri]mulmxA RRi mulmx1 mulmxA.
have Z : Q^T *m (Qbar - Q *m (Q^T *m Qbar)) = 0.
  by rewrite mulmxBr [Q^T *m (Q *m _)]mulmxA QtQ mul1mx subrr.
rewrite -ip_mull E ipDr ip_mulr Z ip0l addr0.
rewrite ipDl_rect ipNl ip_mulQ; congr (_ - _).
by rewrite [RHS]ip_mulr.
Qed.

(* _qr_rectangular_pullback with M > N:  V = dot(Qbar.T, Q) - dot(R, Rbar.T);  PL = strictly lower ones;
     Abar = dot(Q, Rbar + dot(PL * (V.T - V), inv(R).T)) + dot(Qbar - dot(Q, dot(Q.T, Qbar)), inv(R).T) *)
Theorem pb_qr_tall_adjoint (Q Qbar dQ : 'M[K]_(m, n)) (R Ri Rbar dR : 'M[K]_n) :
  Q^T *m Q = 1%:M -> R *m Ri = 1%:M -> is_upper Ri ->
  (Q^T *m dQ)^T = - (Q^T *m dQ) -> is_upper dR ->
  let V := Qbar^T *m Q - R *m Rbar^T in
  let Abar := Q *m (Rbar + tril1M (V^T - V) *m Ri^T) + (Qbar - Q *m (Q^T *m Qbar)) *m Ri^T in
  let dA := dQ *m R + Q *m dR in
  ip Qbar dQ + ip Rbar dR = ip Abar dA.
Proof.
move=> QtQ RRi HRi HOm HdR V Abar dA.
rewrite /Abar ipDl_rect (@pb_qr_tall_range Q Qbar dQ R Ri Rbar dR QtQ RRi HRi HOm HdR) (@pb_qr_tall_compl Q Qbar dQ R Ri dR QtQ RRi).
set a := ip Qbar dQ; set b := ip Rbar dR; set c := ip Qbar _.
by rewrite addrACA subrr addr0 addrC.
Qed.

End MatPullbackQRTall.
