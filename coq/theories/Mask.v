(* MODEL of UTPM.triu / UTPM.tril (numpy.triu / numpy.tril of every coefficient slice, any n x m matrix, any diagonal offset k) and of
   UTPM.trace with its reverse rule pb_trace (xbar += ybar * I).  The offset k (an integer) is given as a pair of naturals (kp, kn) with
   k = kp - kn, so that everything stays in nat:  triu keeps (i, j) iff j - i >= k iff i + kp <= j + kn;  tril keeps iff j - i <= k. *)
From mathcomp Require Import all_ssreflect all_algebra.
From AlgoV Require Import Sums Series Array Reduce.
Set Implicit Arguments. Unset Strict Implicit. Unset Printing Implicit Defensive.
Import GRing.Theory.
Local Open Scope ring_scope.

Definition tri_keep (upper : bool) (kp kn : nat) (i j : nat) : bool :=
  if upper then (i + kp <= j + kn)%N else (j + kn <= i + kp)%N.

Section Mask.
Variable V : zmodType.
(* x : flat row-major n x m matrix *)
Definition tri_mask (upper : bool) (kp kn : nat) (n m : nat) (x : seq V) : seq V :=
  [seq (if tri_keep upper kp kn (o %/ m) (o %% m) then nth 0 x o else 0) | o <- iota 0 (n * m)].
End Mask.

Section Trace.
Variable R : comRingType.
(* executable sum (Sums.sumn_f; sumn_fE: = \sum_(k < n)) so that vm_compute evaluates it *)
Definition trace_fwd (n : nat) (x : seq R) : R := sumn_f n (fun k => x`_(k * n.+1)).
(* pb_trace: xbar += ybar * I *)
Definition pb_trace (n : nat) (ybar : R) : seq R := pb_diag n (nseq n ybar).
End Trace.
