(* The executable factorization pullback rules of MatPullbackExec2.v (pb_luU, pb_cholU, pb_qrU) compute, coefficient by
   coefficient, the abstract formulas of MatPullbackFact.v (pb_lu_adjoint, pb_cholesky_adjoint, pb_qr_adjoint) read in the
   ring of truncated matrix series: every product is the Cauchy sum of the coefficient products, masks / transposition /
   scaling act on every coefficient, and the inverses / solves are the series inverses / solves, characterised by their
   defining equations  sum_{c <= d} A_c X_{d-c} = B_d. *)
From mathcomp Require Import all_ssreflect all_algebra.
From AlgoV Require Import Sums Series Matrix MatrixFact MatrixSpec MatPullbackExec MatPullbackExec2 MatPullback.
Set Implicit Arguments. Unset Strict Implicit. Unset Printing Implicit Defensive.
Import GRing.Theory.
Local Open Scope ring_scope.

Section Exec2Spec.
Variable K : fieldType.
Implicit Types (x y L U Q R Lbar Ubar Qbar Rbar : seq (mx K)).

(* ---------- sizes ---------- *)
Lemma size_dotU n m k x y : size (dotU n m k x y) = size x.
Proof. by rewrite /dotU /cauchyK size_mkseq. Qed.
Lemma size_solveU n k x (Ainv0 : mx K) y : size (solveU n k x Ainv0 y) = size x.
Proof. by rewrite /solveU /solveK size_seriesT. Qed.
Lemma size_invU n x (xinv0 : mx K) : size (invU n x xinv0) = size x.
Proof. by rewrite /invU /invK size_seriesT. Qed.
Lemma size_trU n m x : size (trU n m x) = size x. Proof. by rewrite /trU size_map. Qed.
Lemma size_tril1U n x : size (tril1U n x) = size x. Proof. by rewrite /tril1U size_map. Qed.
Lemma size_triuU n x : size (triuU n x) = size x. Proof. by rewrite /triuU size_map. Qed.
Lemma size_lowhalfU n x : size (lowhalfU n x) = size x. Proof. by rewrite /lowhalfU size_map. Qed.
Lemma size_scaleU n m c x : size (scaleU n m c x) = size x. Proof. by rewrite /scaleU size_map. Qed.
Lemma size_map2U f x y : size (map2U f x y) = minn (size x) (size y).
Proof. by rewrite /map2U size_map size_zip. Qed.
Lemma size_addU n m x y : size x = size y -> size (addU n m x y) = size x.
Proof. by move=> E; rewrite /addU size_map2U -E minnn. Qed.
Lemma size_subU n m x y : size x = size y -> size (subU n m x y) = size x.
Proof. by move=> E; rewrite /subU size_map2U -E minnn. Qed.

(* ---------- the masks and the scaling on one list matrix ---------- *)
Lemma mx_of_mtril1 n (A : mx K) : mx_of n n (mtril1 n n A) = tril1M (mx_of n n A).
Proof. by rewrite /mtril1 mx_of_mkmx; apply/matrixP => i j; rewrite !mxE. Qed.
Lemma mx_of_mtriu0 n (A : mx K) : mx_of n n (mtriu n n 0 A) = triuM (mx_of n n A).
Proof. by rewrite /mtriu mx_of_mkmx; apply/matrixP => i j; rewrite !mxE addn0. Qed.
Lemma mx_of_mlowhalf n (A : mx K) :
  mx_of n n (mkmx n n (fun i j => if (j < i)%N then mxget A i j else if i == j then 2%:R^-1 * mxget A i j else 0)) =
  lowhalfM (mx_of n n A).
Proof. by rewrite mx_of_mkmx; apply/matrixP => i j; rewrite !mxE. Qed.
Lemma mx_of_mscale n m (c : K) (A : mx K) : mx_of n m (mscale n m c A) = c *: mx_of n m A.
Proof. by rewrite /mscale mx_of_mkmx; apply/matrixP => i j; rewrite !mxE. Qed.

Lemma tril1M0 n : tril1M (0 : 'M[K]_n) = 0.
Proof. by apply/matrixP => i j; rewrite !mxE if_same. Qed.
Lemma triuM0 n : triuM (0 : 'M[K]_n) = 0.
Proof. by apply/matrixP => i j; rewrite !mxE if_same. Qed.
Lemma lowhalfM0 n : lowhalfM (0 : 'M[K]_n) = 0.
Proof. by apply/matrixP => i j; rewrite !mxE mulr0 !if_same. Qed.

(* ---------- (1) coefficientwise operations: coefficient d of the result is the operation on coefficient d ---------- *)
(* unary maps: NO size hypothesis (beyond the end both sides are the zero matrix) *)
Lemma nth_map1U n m n' m' (f : mx K -> mx K) (F : 'M[K]_(n, m) -> 'M[K]_(n', m')) x d :
  (forall A, mx_of n' m' (f A) = F (mx_of n m A)) -> F 0 = 0 ->
  mx_of n' m' (nth [::] [seq f A | A <- x] d) = F (mx_of n m (nth [::] x d)).
Proof.
move=> Hf F0; case: (ltnP d (size x)) => [lt_d|le_d]; first by rewrite (nth_map [::]).
by rewrite !nth_default ?size_map // !mx_of_nil F0.
Qed.

Lemma nth_tril1U n x d : mx_of n n (nth [::] (tril1U n x) d) = tril1M (mx_of n n (nth [::] x d)).
Proof. by apply: nth_map1U; [exact: mx_of_mtril1 | exact: tril1M0]. Qed.
Lemma nth_triuU n x d : mx_of n n (nth [::] (triuU n x) d) = triuM (mx_of n n (nth [::] x d)).
Proof. by apply: nth_map1U; [exact: mx_of_mtriu0 | exact: triuM0]. Qed.
Lemma nth_lowhalfU n x d : mx_of n n (nth [::] (lowhalfU n x) d) = lowhalfM (mx_of n n (nth [::] x d)).
Proof. by apply: nth_map1U; [exact: mx_of_mlowhalf | exact: lowhalfM0]. Qed.
Lemma nth_scaleU n m (c : K) x d : mx_of n m (nth [::] (scaleU n m c x) d) = c *: mx_of n m (nth [::] x d).
Proof. by apply: (@nth_map1U n m n m _ (fun A => c *: A)); [exact: mx_of_mscale | rewrite scaler0]. Qed.
Lemma nth_dotU_constl n m k (Wm : mx K) x d :
  mx_of n k (nth [::] (dotU_constl n m k Wm x) d) = mx_of n m Wm *m mx_of m k (nth [::] x d).
Proof.
by apply: (@nth_map1U m k n k _ (fun A => mx_of n m Wm *m A)); [move=> A; exact: mx_of_mmul | rewrite mulmx0].
Qed.

(* binary maps (zip): the two series must be defined at d -- either d < both sizes, or equal sizes (then any d) *)
Lemma nth_map2U_lt n m (f : mx K -> mx K -> mx K) (F : 'M[K]_(n, m) -> 'M[K]_(n, m) -> 'M[K]_(n, m)) x y d :
  (forall A B, mx_of n m (f A B) = F (mx_of n m A) (mx_of n m B)) ->
  (d < size x)%N -> (d < size y)%N ->
  mx_of n m (nth [::] (map2U f x y) d) = F (mx_of n m (nth [::] x d)) (mx_of n m (nth [::] y d)).
Proof.
move=> Hf ltx lty; rewrite /map2U (nth_map ([::], [::])); last by rewrite size_zip leq_min ltx.
elim: x y d ltx lty {Hf} (Hf) => [|a x IH] [|b y] [|d] //= ltx lty Hf; exact: IH.
Qed.
Lemma nth_map2U n m (f : mx K -> mx K -> mx K) (F : 'M[K]_(n, m) -> 'M[K]_(n, m) -> 'M[K]_(n, m)) x y d :
  (forall A B, mx_of n m (f A B) = F (mx_of n m A) (mx_of n m B)) -> F 0 0 = 0 ->
  size x = size y ->
  mx_of n m (nth [::] (map2U f x y) d) = F (mx_of n m (nth [::] x d)) (mx_of n m (nth [::] y d)).
Proof.
move=> Hf F0 E; case: (ltnP d (size x)) => [lt_d|le_d]; first by apply: nth_map2U_lt => //; rewrite -E.
by rewrite !nth_default ?size_map2U -?E ?minnn // !mx_of_nil F0.
Qed.

Lemma nth_addU n m x y d : size x = size y ->
  mx_of n m (nth [::] (addU n m x y) d) = mx_of n m (nth [::] x d) + mx_of n m (nth [::] y d).
Proof. by move=> E; apply: (@nth_map2U n m _ +%R) => //; [exact: mx_of_madd | rewrite addr0]. Qed.
Lemma nth_subU n m x y d : size x = size y ->
  mx_of n m (nth [::] (subU n m x y) d) = mx_of n m (nth [::] x d) - mx_of n m (nth [::] y d).
Proof. by move=> E; apply: (@nth_map2U n m _ (fun A B => A - B)) => //; [exact: mx_of_msub | rewrite subr0]. Qed.
Lemma nth_addU_lt n m x y d : (d < size x)%N -> (d < size y)%N ->
  mx_of n m (nth [::] (addU n m x y) d) = mx_of n m (nth [::] x d) + mx_of n m (nth [::] y d).
Proof. by move=> ltx lty; apply: (@nth_map2U_lt n m _ +%R) => //; exact: mx_of_madd. Qed.
Lemma nth_subU_lt n m x y d : (d < size x)%N -> (d < size y)%N ->
  mx_of n m (nth [::] (subU n m x y) d) = mx_of n m (nth [::] x d) - mx_of n m (nth [::] y d).
Proof. by move=> ltx lty; apply: (@nth_map2U_lt n m _ (fun A B => A - B)) => //; exact: mx_of_msub. Qed.

(* ---------- uniqueness of the solution of a triangular (in the order) system of matrix series ---------- *)
Lemma conv_mx_cancel n k (A : nat -> 'M[K]_n) (Ainv : 'M[K]_n) (w w' : nat -> 'M[K]_(n, k)) D :
  A 0%N *m Ainv = 1%:M ->
  (forall d, (d < D)%N -> \sum_(c < d.+1) A c *m w (d - c)%N = \sum_(c < d.+1) A c *m w' (d - c)%N) ->
  forall d, (d < D)%N -> w d = w' d.
Proof.
move=> /mulmx1C uA H d; elim/ltn_ind: d => d IH lt_d.
have := H d lt_d; rewrite !big_ord_recl !subn0 /=.
have -> : \sum_(c < d) A (bump 0 c) *m w (d - bump 0 c)%N = \sum_(c < d) A (bump 0 c) *m w' (d - bump 0 c)%N.
  apply: eq_bigr => c _; rewrite /bump /= add1n IH //.
    by rewrite subnS prednK ?subn_gt0 // leq_subr.
  by apply: leq_ltn_trans lt_d; exact: leq_subr.
by move/addIr => /(congr1 (fun z => Ainv *m z)); rewrite !mulmxA uA !mul1mx.
Qed.

(* ---------- (2) LU:  A = W L U ---------- *)
(* the three intermediate series of pb_luU *)
Definition lu_v1U n L U Lbar Ubar : seq (mx K) :=
  addU n n (tril1U n (dotU n n n (trU n n L) Lbar)) (triuU n (dotU n n n Ubar (trU n n U))).
Definition lu_v2U n L (LinvT0 : mx K) (v1 : seq (mx K)) : seq (mx K) := solveU n n (trU n n L) LinvT0 v1.
Definition lu_v3U n U (Uinv0 : mx K) (v2 : seq (mx K)) : seq (mx K) := trU n n (solveU n n U Uinv0 (trU n n v2)).
Lemma pb_luU_E n (Wm : mx K) L U LinvT0 Uinv0 Lbar Ubar :
  pb_luU n Wm L U LinvT0 Uinv0 Lbar Ubar =
  dotU_constl n n n Wm (lu_v3U n U Uinv0 (lu_v2U n L LinvT0 (lu_v1U n L U Lbar Ubar))).
Proof. by []. Qed.

(* v1 = tril1(L^T Lbar) + triu(Ubar U^T) in the series ring *)
Lemma lu_v1U_refines n L U Lbar Ubar d : (d < size L)%N -> (d < size Ubar)%N ->
  mx_of n n (nth [::] (lu_v1U n L U Lbar Ubar) d) =
  tril1M (\sum_(c < d.+1) (mx_of n n (nth [::] L c))^T *m mx_of n n (nth [::] Lbar (d - c))) +
  triuM (\sum_(c < d.+1) mx_of n n (nth [::] Ubar c) *m (mx_of n n (nth [::] U (d - c)))^T).
Proof.
move=> ltL ltU; rewrite /lu_v1U nth_addU_lt ?size_tril1U ?size_triuU ?size_dotU ?size_trU //.
rewrite nth_tril1U nth_triuU !dotU_refines ?size_trU //; congr (tril1M _ + triuM _).
  by apply: eq_bigr => c _; rewrite nth_trU.
by apply: eq_bigr => c _; rewrite nth_trU.
Qed.

Theorem pb_luU_refines n (Wm : mx K) L U (LinvT0 Uinv0 : mx K) Lbar Ubar D :
  size L = D -> size U = D -> size Ubar = D ->
  (mx_of n n (nth [::] L 0))^T *m mx_of n n LinvT0 = 1%:M ->
  mx_of n n (nth [::] U 0) *m mx_of n n Uinv0 = 1%:M ->
  let v1 := lu_v1U n L U Lbar Ubar in
  let v2 := lu_v2U n L LinvT0 v1 in
  let v3 := lu_v3U n U Uinv0 v2 in
  [/\ (* v1 = tril1(L^T Lbar) + triu(Ubar U^T) *)
      forall d, (d < D)%N ->
        mx_of n n (nth [::] v1 d) =
        tril1M (\sum_(c < d.+1) (mx_of n n (nth [::] L c))^T *m mx_of n n (nth [::] Lbar (d - c))) +
        triuM (\sum_(c < d.+1) mx_of n n (nth [::] Ubar c) *m (mx_of n n (nth [::] U (d - c)))^T),
      (* L^T v2 = v1 *)
      forall d, (d < D)%N ->
        \sum_(c < d.+1) (mx_of n n (nth [::] L c))^T *m mx_of n n (nth [::] v2 (d - c)) = mx_of n n (nth [::] v1 d),
      (* U v3^T = v2^T *)
      forall d, (d < D)%N ->
        \sum_(c < d.+1) mx_of n n (nth [::] U c) *m (mx_of n n (nth [::] v3 (d - c)))^T = (mx_of n n (nth [::] v2 d))^T
    & (* Abar = W v3 *)
      forall d, mx_of n n (nth [::] (pb_luU n Wm L U LinvT0 Uinv0 Lbar Ubar) d) = mx_of n n Wm *m mx_of n n (nth [::] v3 d)].
Proof.
move=> sL sU sUb HL HU v1 v2 v3; split.
- by move=> d lt_d; rewrite /v1 lu_v1U_refines ?sL ?sUb.
- move=> d lt_d.
  rewrite -(@solveU_spec K n n (trU n n L) LinvT0 v1 d) ?size_trU ?sL ?nth_trU //.
  by apply: eq_bigr => c _; rewrite nth_trU.
- move=> d lt_d.
  rewrite -nth_trU -(@solveU_spec K n n U Uinv0 (trU n n v2) d) ?sU //.
  by apply: eq_bigr => c _; rewrite /v3 /lu_v3U nth_trU trmxK.
- by move=> d; rewrite pb_luU_E nth_dotU_constl.
Qed.

(* the three equations determine the result: ANY v1, v2, v3 satisfying them up to order D give Abar_d = W v3_d *)
Theorem pb_luU_unique n (Wm : mx K) L U (LinvT0 Uinv0 : mx K) Lbar Ubar D (w1 w2 w3 : nat -> 'M[K]_n) :
  size L = D -> size U = D -> size Ubar = D ->
  (mx_of n n (nth [::] L 0))^T *m mx_of n n LinvT0 = 1%:M ->
  mx_of n n (nth [::] U 0) *m mx_of n n Uinv0 = 1%:M ->
  (forall d, (d < D)%N ->
     w1 d = tril1M (\sum_(c < d.+1) (mx_of n n (nth [::] L c))^T *m mx_of n n (nth [::] Lbar (d - c))) +
            triuM (\sum_(c < d.+1) mx_of n n (nth [::] Ubar c) *m (mx_of n n (nth [::] U (d - c)))^T)) ->
  (forall d, (d < D)%N -> \sum_(c < d.+1) (mx_of n n (nth [::] L c))^T *m w2 (d - c)%N = w1 d) ->
  (forall d, (d < D)%N -> \sum_(c < d.+1) mx_of n n (nth [::] U c) *m (w3 (d - c)%N)^T = (w2 d)^T) ->
  forall d, (d < D)%N ->
    mx_of n n (nth [::] (pb_luU n Wm L U LinvT0 Uinv0 Lbar Ubar) d) = mx_of n n Wm *m w3 d.
Proof.
move=> sL sU sUb HL HU H1 H2 H3 d lt_d.
have [E1 E2 E3 ->] := pb_luU_refines Wm Lbar sL sU sUb HL HU.
set v1 := lu_v1U _ _ _ _ _ in E1 E2 E3 *; set v2 := lu_v2U _ _ _ _ in E2 E3 *; set v3 := lu_v3U _ _ _ _ in E3 *.
have e2 : forall e, (e < D)%N -> mx_of n n (nth [::] v2 e) = w2 e.
  apply: (@conv_mx_cancel n n (fun c => (mx_of n n (nth [::] L c))^T) (mx_of n n LinvT0)) => // e lt_e.
  by rewrite E2 // H2 // E1 // H1.
have e3 : forall e, (e < D)%N -> (mx_of n n (nth [::] v3 e))^T = (w3 e)^T.
  apply: (@conv_mx_cancel n n (fun c => mx_of n n (nth [::] U c)) (mx_of n n Uinv0)) => // e lt_e.
  by rewrite E3 // H3 // e2.
by congr (_ *m _); apply: trmx_inj; exact: e3.
Qed.

(* ---------- (3a) Cholesky:  A = L L^T ---------- *)
Theorem pb_cholU_refines n' L (Linv0 : mx K) Lbar D : let n := n'.+1 in
  size L = D ->
  mx_of n n (nth [::] L 0) *m mx_of n n Linv0 = 1%:M ->
  let Li := invU n L Linv0 in
  let Phi d : 'M[K]_n := lowhalfM (\sum_(c < d.+1) (mx_of n n (nth [::] L c))^T *m mx_of n n (nth [::] Lbar (d - c))) in
  let Sym d : 'M[K]_n := 2%:R^-1 *: ((Phi d)^T + Phi d) in
  (* Li is the series inverse of L *)
  (forall d, (d < D)%N ->
     \sum_(c < d.+1) mx_of n n (nth [::] L c) *m mx_of n n (nth [::] Li (d - c)) = (d == 0%N)%:R%:M) /\
  (* Abar = (Li^T Sym) Li *)
  (forall d, (d < D)%N ->
     mx_of n n (nth [::] (pb_cholU n L Linv0 Lbar) d) =
     \sum_(c < d.+1) (\sum_(e < c.+1) (mx_of n n (nth [::] Li e))^T *m Sym (c - e)%N) *m mx_of n n (nth [::] Li (d - c))).
Proof.
move=> n sL HL Li Phi Sym; split.
  by move=> d lt_d; apply: invU_spec => //; rewrite sL.
move=> d lt_d; rewrite /pb_cholU -/Li.
have sLi : size Li = D by rewrite /Li size_invU.
rewrite dotU_refines ?size_dotU ?size_trU ?sLi //.
apply: eq_bigr => c _; congr (_ *m _).
have lt_c : (c < D)%N by apply: leq_ltn_trans lt_d; rewrite -ltnS.
rewrite dotU_refines ?size_trU ?sLi //; apply: eq_bigr => e _; rewrite nth_trU; congr (_ *m _).
have lt_ce : (c - e < D)%N by apply: leq_ltn_trans lt_c; exact: leq_subr.
rewrite nth_scaleU nth_addU ?size_trU // nth_trU nth_lowhalfU dotU_refines ?size_trU ?sL //.
rewrite /Sym /Phi; congr (_ *: (_^T + _)); congr lowhalfM; apply: eq_bigr => a _; by rewrite nth_trU.
Qed.

(* ---------- (3b) QR, square:  A = Q R ---------- *)
Theorem pb_qrU_refines n' Q R (Rinv0 : mx K) Qbar Rbar D : let n := n'.+1 in
  size Q = D -> size R = D -> size Qbar = D -> size Rbar = D ->
  mx_of n n (nth [::] R 0) *m mx_of n n Rinv0 = 1%:M ->
  let Ri := invU n R Rinv0 in
  let V d : 'M[K]_n :=
    \sum_(c < d.+1) (mx_of n n (nth [::] Qbar c))^T *m mx_of n n (nth [::] Q (d - c)) -
    \sum_(c < d.+1) mx_of n n (nth [::] R c) *m (mx_of n n (nth [::] Rbar (d - c)))^T in
  (* Ri is the series inverse of R *)
  (forall d, (d < D)%N ->
     \sum_(c < d.+1) mx_of n n (nth [::] R c) *m mx_of n n (nth [::] Ri (d - c)) = (d == 0%N)%:R%:M) /\
  (* Abar = Q (Rbar + tril1(V^T - V) Ri^T) *)
  (forall d, (d < D)%N ->
     mx_of n n (nth [::] (pb_qrU n Q R Rinv0 Qbar Rbar) d) =
     \sum_(c < d.+1) mx_of n n (nth [::] Q c) *m
       (mx_of n n (nth [::] Rbar (d - c)) +
        \sum_(e < (d - c).+1) tril1M ((V e)^T - V e) *m (mx_of n n (nth [::] Ri (d - c - e)))^T)).
Proof.
move=> n sQ sR sQb sRb HR Ri V; split.
  by move=> d lt_d; apply: invU_spec => //; rewrite sR.
move=> d lt_d; rewrite /pb_qrU -/Ri.
set Vs := subU n n (dotU n n n (trU n n Qbar) Q) _.
have sVs : size Vs = D by rewrite /Vs size_subU ?size_dotU ?size_trU ?sQb ?sR.
have sT : size (tril1U n (subU n n (trU n n Vs) Vs)) = D by rewrite size_tril1U size_subU ?size_trU.
have EV e : (e < D)%N -> mx_of n n (nth [::] Vs e) = V e.
  move=> lt_e; rewrite /Vs nth_subU ?size_dotU ?size_trU ?sQb ?sR // !dotU_refines ?size_trU ?sQb ?sR //.
  rewrite /V; congr (_ - _); apply: eq_bigr => c _; by rewrite nth_trU.
rewrite dotU_refines ?sQ //; apply: eq_bigr => c _; congr (_ *m _).
have lt_dc : (d - c < D)%N by apply: leq_ltn_trans lt_d; exact: leq_subr.
rewrite nth_addU ?size_dotU ?sT //; congr (_ + _).
rewrite dotU_refines ?sT //; apply: eq_bigr => e _; rewrite nth_trU; congr (_ *m _).
have lt_e : (e < D)%N by apply: leq_ltn_trans lt_dc; rewrite -ltnS.
by rewrite nth_tril1U nth_subU ?size_trU // nth_trU EV.
Qed.

End Exec2Spec.
