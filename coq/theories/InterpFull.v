(* The UNBOUNDED interpolation identity of exact_interpolation.py (Griewank-Utke-Walther): for every number of variables N >= 1 and
   every degree d >= 1, over every field of characteristic 0,   sum_j Gamma[i,j] * ray_j^a = delta(i,a)   for all multi-indices
   i, a of degree d, and the gamma loop terminates within its fuel. *)
From mathcomp Require Import all_ssreflect all_algebra.
From AlgoV Require Import Sums Interp InterpSpec.
From AlgoV Require Import InterpAlg InterpLoop.
Set Implicit Arguments. Unset Strict Implicit. Unset Printing Implicit Defensive.
Import GRing.Theory.
Local Open Scope ring_scope.

Section Full.
Variable K : fieldType.
Hypothesis char0 : [char K] =i pred0.          (* characteristic 0 *)

(* Stage A: the algebraic identity, the gamma loop replaced by the sum over all 0 <= k <= i (componentwise); the k = 0 term is
   harmless: alpha i j 0 deg involves (0/deg)^|i| = 0 for |i| > 0.   See InterpAlg.v: gamma_algebra (and findiff: fdiff_small /
   fdiff_diag, box_findiff, gbinom_vandermonde, simplex_interp_monomial, alpha_sum). *)
Lemma alpha_zero (i j : seq nat) n d : (0 < sumn i)%N -> alpha K i j (nseq n 0%N) d = 0.
Proof.
move=> i0; rewrite /alpha /mi_abs sumn_nseq mul0n mul0r expr0n.
by rewrite eqn0Ngt i0 mulr0.
Qed.

(* Stage B: gamma_loop with the fuel of `gamma` visits every k in the box 0 <= k <= i except k = 0 exactly once (odometer) and
   returns Some of the sum of alpha over them.   See InterpLoop.v: gamma_loop_box. *)
Lemma gammaE N d (i j : seq nat) : (0 < d)%N -> i \in gen_mi N.+1 d -> j \in gen_mi N.+1 d ->
  gamma K i j = Some ((\sum_(k <- nbox i) alpha K i j k d) / mi_factorial K i).
Proof.
move=> d0; rewrite !gen_mi_complete => /andP[_ /eqP smi] /andP[_ /eqP smj].
by rewrite /gamma /mi_abs smj gamma_loop_box alpha_zero ?smi // subr0.
Qed.

(* Stage C: *)
Theorem Gamma_identity_all (N d : nat) : (0 < N)%N -> (0 < d)%N -> Gamma_identity K N d = true.
Proof.
case: N => // N _ d0; rewrite /Gamma_identity /Gamma.
have HJ := @gen_mi_complete N d; set J := gen_mi N.+1 d in HJ *.
apply/andP; split.
  apply/allP => r /mapP[i iJ ->]; apply/allP => o /mapP[j jJ ->].
  by rewrite (gammaE d0 iJ jJ).
have zipE (T : Type) (f : seq nat -> T) : zip J (map f J) = [seq (x, f x) | x <- J].
  by rewrite -{1}[J]map_id zip_map.
rewrite zipE; apply/allP => ir /mapP[i iJ ->].
apply/allP => a aJ; rewrite [(i, _).1]/= [(i, _).2]/=.
rewrite zipE sumfE big_map.
have E j : j \in J ->
    odflt0 (j, gamma K i j).2 * mi_pow K (j, gamma K i j).1 a =
    (\sum_(k <- nbox i) alpha K i j k d) / mi_factorial K i * mi_pow K j a.
  by move=> jJ; rewrite [(j, _).1]/= [(j, _).2]/= (gammaE d0 iJ jJ).
rewrite big_seq (eq_bigr _ E) -big_seq.
move: iJ aJ; rewrite !HJ => /andP[/eqP szi /eqP smi] /andP[/eqP sza /eqP sma].
by rewrite (gamma_algebra char0 d0 szi smi sza sma); case: (i == a).
Qed.
End Full.

(* the same for the executable carrier of the correspondence check *)
From AlgoV Require Import QcField.
Theorem Qc_char0 : [char Qc_fieldType] =i pred0.
Proof.
apply/charf0P => -[|n]; first by rewrite !eqxx.
by apply/negbTE; exact: AlgoV.QcField.Qc_char0.
Qed.
Theorem Gamma_identity_Qc (N d : nat) : (0 < N)%N -> (0 < d)%N -> Gamma_identity Qc_fieldType N d = true.
Proof. exact: (Gamma_identity_all Qc_char0). Qed.

