(* MODEL of UTPM.logdet (utpm.py): PIV,L,U = lu2(x); du = diag(U); su = sign(du); au = abs(du); c = piv2det(PIV) * prod(su);
   logdet = log(abs(c)) + sum(log(au)).  c is the constant series +-1, so log(abs(c)) is the zero series; abs of a series with
   non-zero base value multiplies the higher coefficients by the sign of the base value (absS); the base values log|u_ii(0)| and
   |u_ii(0)| are what NumPy returns (arguments l0, abs0), sgn0 the signs. *)
From mathcomp Require Import all_ssreflect all_algebra.
From AlgoV Require Import Sums Series Matrix.
Set Implicit Arguments. Unset Strict Implicit. Unset Printing Implicit Defensive.
Import GRing.Theory.
Local Open Scope ring_scope.

Section Logdet.
Variable K : fieldType.
Definition logabs_diag (n : nat) (Us : seq (mx K)) (sgn0 abs0 l0 : seq K) (i : nat) : seq K :=
  logS (absS (nth [::] (diag_series n Us) i) (nth 0 sgn0 i) (nth 0 abs0 i)) (nth 0 l0 i).
Definition logdetU (n : nat) (Us : seq (mx K)) (sgn0 abs0 l0 : seq K) : seq K :=
  foldl (fun acc i => addS acc (logabs_diag n Us sgn0 abs0 l0 i)) (nseq (size Us) 0) (iota 0 n).
End Logdet.
