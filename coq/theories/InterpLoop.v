(* Stage B of the unbounded interpolation identity: the fuel-bounded odometer loop of `gamma` visits every k of the box
   0 <= k <= i except k = 0 exactly once, and returns the sum of alpha over them. *)
From mathcomp Require Import all_ssreflect all_algebra.
From mathcomp Require Import zify.
From AlgoV Require Import Sums Interp InterpSpec InterpAlg.
Set Implicit Arguments. Unset Strict Implicit. Unset Printing Implicit Defensive.
Import GRing.Theory.
Local Arguments iota : simpl never.

(* mixed-radix decoding on REVERSED lists (head = fastest digit), radices a.+1 *)
Fixpoint dec (r : seq nat) (p : nat) : seq nat :=
  if r is a :: r' then (p %% a.+1) :: dec r' (p %/ a.+1) else [::].
Fixpoint enc (r t : seq nat) : nat :=
  match r, t with a :: r', b :: t' => b + a.+1 * enc r' t' | _, _ => 0 end.
Fixpoint vol (r : seq nat) : nat := if r is a :: r' then a.+1 * vol r' else 1.

Lemma vol_gt0 r : 0 < vol r.
Proof. by elim: r => //= a r IH; rewrite muln_gt0. Qed.

Lemma size_dec r p : size (dec r p) = size r.
Proof. by elim: r p => //= a r IH p; rewrite IH. Qed.

Lemma dec0 r : dec r 0 = nseq (size r) 0.
Proof. by elim: r => //= a r IH; rewrite mod0n div0n IH. Qed.

(* the odometer step is +1 on the code (no side condition) *)
Lemma incr_rev_dec r p c : incr_rev r (dec r p) c = dec r (p + c).
Proof.
elim: r p c => [|a r IH] p c //=.
case: eqP => [->|_]; first by rewrite !modn1 !divn1 IH.
rewrite modnDml; congr cons; rewrite IH.
have -> : (p + c) %/ a.+1 = p %/ a.+1 + (p %% a.+1 + c) %/ a.+1.
  by rewrite {1}(divn_eq p a.+1) -addnA divnMDl.
by case: eqP => [->|//]; rewrite addn0.
Qed.

Lemma enc_dec r p : p < vol r -> enc r (dec r p) = p.
Proof.
elim: r p => [|a r IH] p /=; first by rewrite ltnS leqn0 => /eqP.
move=> lt_p; rewrite IH; last by rewrite ltn_divLR // mulnC.
by rewrite addnC [(a.+1 * _)%N]mulnC -divn_eq.
Qed.

Lemma dec_self r : dec r (vol r).-1 = r.
Proof.
elim: r => //= a r IH.
have -> : (a.+1 * vol r).-1 = (vol r).-1 * a.+1 + a.
  by have := vol_gt0 r; case: (vol r) => // v _; lia.
by rewrite modnMDl modn_small // divnMDl // divn_small // addn0 IH.
Qed.

Lemma dec_eq_self r p : p < vol r -> (dec r p == r) = (p == (vol r).-1).
Proof.
move=> lt_p; apply/eqP/eqP => [H|->]; last exact: dec_self.
by rewrite -(enc_dec lt_p) H -{2}(dec_self r) enc_dec // ltn_predL vol_gt0.
Qed.

Lemma dec_le r p : all (fun z => z.1 <= z.2) (zip (dec r p) r).
Proof. by elim: r p => //= a r IH p; rewrite IH -ltnS ltn_pmod. Qed.

Lemma volE r : vol r = \prod_(a <- r) a.+1.
Proof. by elim: r => [|a r IH] /=; rewrite ?big_nil // big_cons IH. Qed.

Lemma vol_rev r : vol (rev r) = vol r.
Proof. by rewrite !volE; apply: perm_big; rewrite perm_rev. Qed.

Lemma fuelE i : foldr muln 1 [seq c.+1 | c <- i] = vol i.
Proof. by elim: i => //= a i ->. Qed.

(* the box in odometer order *)
Definition obox (i : seq nat) : seq (seq nat) :=
  [seq rev (dec (rev i) q) | q <- iota 0 (vol (rev i))].

Lemma size_nbox i : size (nbox i) = vol i.
Proof.
elim: i => // a i IH; rewrite nbox_cons [vol _]/=.
by rewrite (size_allpairs (fun b t => b :: t)) size_iota IH.
Qed.

Lemma obox_sub i : {subset obox i <= nbox i}.
Proof.
move=> k /mapP[q _ ->]; rewrite mem_nbox /inbox size_rev size_dec size_rev eqxx /=.
by rewrite -{2}[i]revK -rev_zip ?size_dec // all_rev dec_le.
Qed.

Lemma obox_uniq i : uniq (obox i).
Proof.
rewrite map_inj_in_uniq ?iota_uniq // => p q; rewrite !mem_iota !add0n /= => lt_p lt_q /(can_inj (@revK _)) H.
by rewrite -(enc_dec lt_p) H enc_dec.
Qed.

Lemma perm_obox i : perm_eq (obox i) (nbox i).
Proof.
have le_sz : size (nbox i) <= size (obox i) by rewrite size_nbox size_map size_iota vol_rev.
have [_ eq_mem] := uniq_min_size (obox_uniq i) (@obox_sub i) le_sz.
by apply: uniq_perm => //; [exact: obox_uniq | exact: (leq_size_uniq (obox_uniq i) (@obox_sub i))].
Qed.

Section Loop.
Variable K : fieldType.
Local Open Scope ring_scope.

Lemma gamma_loop0 i j k d (acc : K) :
  gamma_loop 0 i j k d acc = if i == k then Some acc else None.
Proof. by []. Qed.
Lemma gamma_loopS f i j k d (acc : K) :
  gamma_loop f.+1 i j k d acc =
  if i == k then Some acc else gamma_loop f i j (increment i k) d (acc + alpha K i j (increment i k) d).
Proof. by []. Qed.

Lemma eq_rev_dec i p : (p < vol (rev i))%N -> (i == rev (dec (rev i) p)) = (p == (vol (rev i)).-1).
Proof. by move=> lt_p; rewrite -{1}[i]revK (inj_eq (can_inj (@revK _))) eq_sym dec_eq_self. Qed.

Lemma gamma_loop_run fuel i j d p (acc : K) :
  (p < vol (rev i))%N -> ((vol (rev i)).-1 - p <= fuel)%N ->
  gamma_loop fuel i j (rev (dec (rev i) p)) d acc =
  Some (acc + \sum_(p.+1 <= q < vol (rev i)) alpha K i j (rev (dec (rev i) q)) d).
Proof.
elim: fuel p acc => [|f IH] p acc lt_p le_f.
  have Ep : p = (vol (rev i)).-1 by lia.
  by rewrite gamma_loop0 eq_rev_dec // {1}Ep eqxx big_geq ?addr0 // Ep prednK // vol_gt0.
rewrite gamma_loopS eq_rev_dec //; case: eqP => [Ep|/eqP ne_p].
  by rewrite big_geq ?addr0 // Ep prednK // vol_gt0.
have lt_p1 : (p.+1 < vol (rev i))%N by lia.
rewrite /increment revK incr_rev_dec addn1 IH //; last by lia.
by rewrite [in RHS]big_ltn // addrA.
Qed.

Theorem gamma_loop_box i j d :
  gamma_loop (foldr muln 1%N [seq c.+1 | c <- i]) i j (nseq (size i) 0%N) d (0 : K) =
  Some (\sum_(k <- nbox i) alpha K i j k d - alpha K i j (nseq (size i) 0%N) d).
Proof.
have E0 : nseq (size i) 0%N = rev (dec (rev i) 0) by rewrite dec0 rev_nseq size_rev.
rewrite fuelE {1}E0 gamma_loop_run ?vol_gt0 //; last by rewrite subn0 vol_rev leq_pred.
rewrite add0r -(perm_big _ (perm_obox i)) /= big_map -{2}[vol (rev i)]subn0 -/(index_iota 0 (vol (rev i))).
by rewrite [in RHS]big_ltn ?vol_gt0 // -E0 addrC addKr.
Qed.

End Loop.
