(* MODEL of the forward-mode drivers of utpm.py:1680-1924: seed layouts (init_jacobian, init_jac_vec, init_hessian,
   init_hess_vec) and extraction formulas (the extract functions), for one scalar output.  Coefficient 2 of any program along the line
   x + t s is the quadratic form q(s) = 1/2 s^T H s of its Hessian H at x (chain rule, C01/C12), so the drivers are specified
   against quadratic forms. *)
From mathcomp Require Import all_ssreflect all_algebra.
From AlgoV Require Import Sums.
Set Implicit Arguments. Unset Strict Implicit. Unset Printing Implicit Defensive.
Import GRing.Theory.
Local Open Scope ring_scope.

Section FwdDrivers.
Variable K : fieldType.

Definition unitv (N i : nat) : seq K := mkseq (fun j => (i == j)%:R) N.
Definition vadd (u v : seq K) : seq K := mkseq (fun j => u`_j + v`_j) (size u).

(* init_jacobian: direction p is the unit vector e_p *)
Definition jac_dirs (N : nat) : seq (seq K) := mkseq (fun p => unitv N p) N.

(* init_hessian (utpm.py:1827): S is filled block-wise -- for n = 1..N the columns s..s+n-1 (s = n(n-1)/2) get
   S[-n:, s:s+n] = eye(n) and then S[-n, s:s+n] = ones(n) -- and finally reversed and transposed: S[::-1].T.
   Entry (row r, column c) of S before the reversal: *)
Definition hess_S (N : nat) (r c : nat) : K :=
  (* find the block n with n(n-1)/2 <= c < n(n+1)/2 *)
  let n := (fix find (n fuel : nat) := if fuel is f.+1 then (if (c < (n * n.+1)./2)%N then n else find n.+1 f) else n) 1%N N in
  let j := (c - (n * n.-1)./2)%N in
  if (r == N - n)%N then 1 else if ((N - n < r) && (r - (N - n) == j))%N then 1 else 0.
Definition hess_ndirs (N : nat) : nat := (N * N.+1)./2.
(* direction k of the seed = row k of S[::-1].T : entry i is S[N-1-i, k] *)
Definition hess_dirs (N : nat) : seq (seq K) :=
  mkseq (fun k => mkseq (fun i => hess_S N (N.-1 - i) k) N) (hess_ndirs N).

(* extract_hessian (utpm.py:1854): y2 = second-order coefficients of the output, one per direction *)
Definition tri_num (n : nat) : nat := (n * n.+1)./2.          (* sum(range(n+1)) *)
Definition extract_hessian (N : nat) (y2 : seq K) : seq (seq K) :=
  mkseq (fun n => mkseq (fun m =>
    if (n == m)%N then 2%:R * y2`_(tri_num n)
    else let hi := maxn n m in let lo := minn n m in
         y2`_(tri_num hi.+1 - lo - 1) - y2`_(tri_num hi) - y2`_(tri_num lo)) N) N.

(* init_hess_vec / extract_hess_vec (utpm.py:1883-1923): 2N+1 directions e_n, v + e_n, v *)
Definition hess_vec_dirs (N : nat) (v : seq K) : seq (seq K) :=
  mkseq (fun p => if (p < N)%N then unitv N p else if (p < N + N)%N then vadd v (unitv N (p - N)) else v) (N + N).+1.
Definition extract_hess_vec (N : nat) (y2 : seq K) : seq K :=
  mkseq (fun n => - y2`_n + y2`_(n + N) - y2`_(N + N)) N.

(* specification side: a symmetric bilinear form given by its matrix *)
Definition quad (N : nat) (H : nat -> nat -> K) (s : seq K) : K :=
  2%:R^-1 * sumn_f N (fun i => sumn_f N (fun j => s`_i * H i j * s`_j)).
Definition matvec (N : nat) (H : nat -> nat -> K) (v : seq K) : seq K := mkseq (fun i => sumn_f N (fun j => H i j * v`_j)) N.
End FwdDrivers.
