(* MODEL of algopy/tracer/tracer.py for scalar straight-line programs with buffers:
   recording (Function.create / pushforward, totype wrapping of constants, __setitem__ saving the overwritten cells),
   replay (CGraph.pushforward), the reverse sweep (CGraph.pullback: xbar_from_x, seeding, reverse walk, restore step after
   the pullback of an in-place write) and the forward tangent sweep used as specification.
   Values live in a carrier T with plain operations (instantiated with truncated series over Qc for vm_compute, and with a
   commutative ring in TracerSpec.v for the theorems).  A buffer is a row of cells; reading a cell gives a VIEW (a reference),
   exactly like a NumPy view: later writes to the cell are seen through it. *)
From mathcomp Require Import all_ssreflect all_algebra.
Set Implicit Arguments. Unset Strict Implicit. Unset Printing Implicit Defensive.

Inductive binop := Add | Sub | Mul | Div.
Definition binop_eqb (a b : binop) : bool :=
  match a, b with Add, Add | Sub, Sub | Mul, Mul | Div, Div => true | _, _ => false end.

Section Tracer.
Variable T : Type.
Variables (zero : T) (add sub mul div : T -> T -> T) (neg : T -> T).
Variable natmul : nat -> T -> T.                       (* n * x *)
Variable pown : T -> nat -> T.                         (* x ** n, n : int >= 0 *)
Variable unval : nat -> T -> T.                        (* table of unary functions (square, reciprocal, ...) *)
Variable unpart : nat -> T -> T -> T.                  (* their derivative, from argument x and value y *)

(* ---------- user programs (what progs.py generates): registers are numbered by creation ---------- *)
Inductive operand := OReg (r : nat) | OConst (c : T).
Inductive instr :=
  | IX (i : nat)                         (* r = x[i] *)
  | IBin (op : binop) (a b : operand)    (* r = a op b, at least one register operand *)
  | INeg (r : nat)
  | IUn (f : nat) (r : nat)
  | IPow (r : nat) (n : nat)
  | IZeros (n : nat)                     (* r = zeros(n, dtype=x) *)
  | ISet (buf k : nat) (a : operand)     (* buf[k] = a   (creates no register) *)
  | IGet (buf k : nat).                  (* r = buf[k]   (a view) *)

(* ---------- values and heaps ---------- *)
Inductive val := VS (s : T) | VBuf (b : nat) | VRef (b k : nat).
Definition heap := seq (seq T).
Definition hget (h : heap) (b k : nat) : T := nth zero (nth [::] h b) k.
Definition hset (h : heap) (b k : nat) (v : T) : heap := set_nth [::] h b (set_nth zero (nth [::] h b) k v).
Definition deref (h : heap) (v : val) : T := match v with VS s => s | VRef b k => hget h b k | VBuf _ => zero end.

Definition binval (op : binop) (x y : T) : T :=
  match op with Add => add x y | Sub => sub x y | Mul => mul x y | Div => div x y end.

(* ---------- direct evaluation of a program (the specification of C05) ----------
   state: heap (buffer 0 holds the input vector x), register values *)
Definition opval (h : heap) (regs : seq val) (o : operand) : T :=
  match o with OReg r => deref h (nth (VS zero) regs r) | OConst c => c end.
Definition eval_instr (st : heap * seq val) (i : instr) : heap * seq val :=
  let: (h, regs) := st in
  let rv r := deref h (nth (VS zero) regs r) in
  match i with
  | IX k => (h, rcons regs (VRef 0 k))
  | IBin op a b => (h, rcons regs (VS (binval op (opval h regs a) (opval h regs b))))
  | INeg r => (h, rcons regs (VS (neg (rv r))))
  | IUn f r => (h, rcons regs (VS (unval f (rv r))))
  | IPow r n => (h, rcons regs (VS (pown (rv r) n)))
  | IZeros n => (rcons h (nseq n zero), rcons regs (VBuf (size h)))
  | ISet buf k a =>
      (match nth (VS zero) regs buf with VBuf b => hset h b k (opval h regs a) | _ => h end, regs)
  | IGet buf k =>
      (h, rcons regs (match nth (VS zero) regs buf with VBuf b => VRef b k | _ => VS zero end))
  end.
Definition eval (prog : seq instr) (xs : seq T) : heap * seq val := foldl eval_instr ([:: xs], [::]) prog.
Definition eval_out (prog : seq instr) (ret : seq nat) (xs : seq T) : seq T :=
  let: (h, regs) := eval prog xs in [seq deref h (nth (VS zero) regs r) | r <- ret].

(* ---------- recorded tape ---------- *)
Inductive nodeop :=
  | NInput                    (* Function(x): Id node of the independent variable *)
  | NConst (c : T)            (* totype(c): Id node wrapping a constant *)
  | NGetX (k : nat)           (* getitem(x, k) *)
  | NBin (op : binop)
  | NNeg
  | NUn (f : nat)
  | NPow (n : nat)
  | NZeros (n : nat)
  | NSet (k : nat)            (* setitem(buf, k, rhs): args [buf; rhs] *)
  | NGet (k : nat).           (* getitem(buf, k): args [buf] *)
Record node := Node { nop : nodeop; nargs : seq nat }.
Definition tape := seq node.

(* recording: state = (tape so far, register -> node id).  Constants are wrapped into Id nodes BEFORE the operation node,
   reflected subtraction c - a is recorded as (-a) + c, reflected division wraps the constant first (tracer.py:1057-1068) *)
Definition rec_operand (t : tape) (regs : seq nat) (o : operand) : tape * nat :=
  match o with
  | OReg r => (t, nth 0 regs r)
  | OConst c => (rcons t (Node (NConst c) [::]), size t)
  end.
Definition record_instr (st : tape * seq nat) (i : instr) : tape * seq nat :=
  let: (t, regs) := st in
  let rn r := nth 0 regs r in
  match i with
  | IX k => (rcons t (Node (NGetX k) [:: 0]), rcons regs (size t))
  | IBin op (OConst c) (OReg r) =>
      match op with
      | Add => let t1 := rcons t (Node (NConst c) [::]) in
               (rcons t1 (Node (NBin Add) [:: rn r; size t]), rcons regs (size t1))
      | Mul => let t1 := rcons t (Node (NConst c) [::]) in
               (rcons t1 (Node (NBin Mul) [:: rn r; size t]), rcons regs (size t1))
      | Sub => let t1 := rcons t (Node NNeg [:: rn r]) in
               let t2 := rcons t1 (Node (NConst c) [::]) in
               (rcons t2 (Node (NBin Add) [:: size t; size t1]), rcons regs (size t2))
      | Div => let t1 := rcons t (Node (NConst c) [::]) in
               (rcons t1 (Node (NBin Div) [:: size t; rn r]), rcons regs (size t1))
      end
  | IBin op a b =>
      let: (t1, na) := rec_operand t regs a in
      let: (t2, nb) := rec_operand t1 regs b in
      (rcons t2 (Node (NBin op) [:: na; nb]), rcons regs (size t2))
  | INeg r => (rcons t (Node NNeg [:: rn r]), rcons regs (size t))
  | IUn f r => (rcons t (Node (NUn f) [:: rn r]), rcons regs (size t))
  | IPow r n => (rcons t (Node (NPow n) [:: rn r]), rcons regs (size t))
  | IZeros n => (rcons t (Node (NZeros n) [:: 0]), rcons regs (size t))   (* args: [shape, dtype = the traced x, order] *)
  | ISet buf k a =>
      let: (t1, na) := rec_operand t regs a in
      (rcons t1 (Node (NSet k) [:: rn buf; na]), regs)
  | IGet buf k => (rcons t (Node (NGet k) [:: rn buf]), rcons regs (size t))
  end.
Definition record (prog : seq instr) : tape * seq nat := foldl record_instr ([:: Node NInput [::]], [::]) prog.

(* ---------- replay: CGraph.pushforward re-runs every node from its recorded operation and arguments ----------
   state: heap, node values, and for every NSet node the cell content it overwrote (tracer.py:1027) *)
Record fstate := FState { fheap : heap; fvals : seq val; fstore : seq (option T) }.
Definition nval (h : heap) (vals : seq val) (a : nat) : T := deref h (nth (VS zero) vals a).
Definition fwd_node (st : fstate) (nd : node) : fstate :=
  let: FState h vals store := st in
  let arg i := nth 0 (nargs nd) i in
  let av i := nval h vals (arg i) in
  match nop nd with
  | NInput => FState h (rcons vals (VBuf 0)) (rcons store None)
  | NConst c => FState h (rcons vals (VS c)) (rcons store None)
  | NGetX k => FState h (rcons vals (VRef 0 k)) (rcons store None)
  | NBin op => FState h (rcons vals (VS (binval op (av 0) (av 1)))) (rcons store None)
  | NNeg => FState h (rcons vals (VS (neg (av 0)))) (rcons store None)
  | NUn f => FState h (rcons vals (VS (unval f (av 0)))) (rcons store None)
  | NPow n => FState h (rcons vals (VS (pown (av 0) n))) (rcons store None)
  | NZeros n => FState (rcons h (nseq n zero)) (rcons vals (VBuf (size h))) (rcons store None)
  | NSet k =>
      match nth (VS zero) vals (arg 0) with
      | VBuf b => FState (hset h b k (av 1)) (rcons vals (VS zero)) (rcons store (Some (hget h b k)))
      | _ => FState h (rcons vals (VS zero)) (rcons store None)
      end
  | NGet k =>
      FState h (rcons vals (match nth (VS zero) vals (arg 0) with VBuf b => VRef b k | _ => VS zero end)) (rcons store None)
  end.
Definition replay (t : tape) (xs : seq T) : fstate := foldl fwd_node (FState [:: xs] [::] [::]) t.
Definition replay_out (t : tape) (outs : seq nat) (xs : seq T) : seq T :=
  let st := replay t xs in [seq nval (fheap st) (fvals st) a | a <- outs].

(* ---------- forward tangent sweep (specification of the reverse sweep): tangent heap + tangent of every node ---------- *)
Record tstate := TState { theap : heap; tvals : seq val; tgheap : heap; tgvals : seq T }.
(* tangent of node a: scalars carry their own tangent, views read the tangent heap *)
Definition ntan (vals : seq val) (tgh : heap) (tg : seq T) (a : nat) : T :=
  match nth (VS zero) vals a with VRef b k => hget tgh b k | _ => nth zero tg a end.
Definition tan_node (st : tstate) (nd : node) : tstate :=
  let: TState h vals tgh tg := st in
  let arg i := nth 0 (nargs nd) i in
  let av i := nval h vals (arg i) in
  let at_ i := ntan vals tgh tg (arg i) in
  let fs := fwd_node (FState h vals [::]) nd in
  let h' := fheap fs in let vals' := fvals fs in
  match nop nd with
  | NBin Add => TState h' vals' tgh (rcons tg (add (at_ 0) (at_ 1)))
  | NBin Sub => TState h' vals' tgh (rcons tg (sub (at_ 0) (at_ 1)))
  | NBin Mul => TState h' vals' tgh (rcons tg (add (mul (at_ 0) (av 1)) (mul (av 0) (at_ 1))))
  | NBin Div => (* z = x / y :  dz = (dx - z dy) / y *)
      let z := div (av 0) (av 1) in
      TState h' vals' tgh (rcons tg (div (sub (at_ 0) (mul z (at_ 1))) (av 1)))
  | NNeg => TState h' vals' tgh (rcons tg (neg (at_ 0)))
  | NUn f => TState h' vals' tgh (rcons tg (mul (unpart f (av 0) (unval f (av 0))) (at_ 0)))
  | NPow n => TState h' vals' tgh (rcons tg (mul (natmul n (pown (av 0) n.-1)) (at_ 0)))
  | NZeros n => TState h' vals' (rcons tgh (nseq n zero)) (rcons tg zero)
  | NSet k =>
      match nth (VS zero) vals (arg 0) with
      | VBuf b => TState h' vals' (hset tgh b k (at_ 1)) (rcons tg zero)
      | _ => TState h' vals' tgh (rcons tg zero)
      end
  | _ => TState h' vals' tgh (rcons tg zero)
  end.
Definition tangent (t : tape) (xs dxs : seq T) : tstate := foldl tan_node (TState [:: xs] [::] [:: dxs] [::]) t.
Definition tangent_out (t : tape) (outs : seq nat) (xs dxs : seq T) : seq T :=
  let st := tangent t xs dxs in [seq ntan (tvals st) (tgheap st) (tgvals st) a | a <- outs].

(* ---------- reverse sweep: CGraph.pullback ----------
   adjoint state: adjoint heap (xbar of a view is the same view of the parent's xbar) + adjoint of every scalar node.
   value state: the heap (rolled back cell by cell by the restore step) and the node values of the last forward sweep *)
Record rstate := RState { rheap : heap; rbheap : heap; rbar : seq T }.
Definition bar_add (vals : seq val) (st : rstate) (a : nat) (v : T) : rstate :=
  let: RState h bh bar := st in
  match nth (VS zero) vals a with
  | VRef b k => RState h (hset bh b k (add (hget bh b k) v)) bar
  | VS _ => RState h bh (set_nth zero bar a (add (nth zero bar a) v))
  | VBuf _ => st
  end.
Definition bar_get (vals : seq val) (st : rstate) (a : nat) : T :=
  match nth (VS zero) vals a with VRef b k => hget (rbheap st) b k | _ => nth zero (rbar st) a end.
(* pullback of node number j; store = what fwd saved for NSet nodes *)
Definition rev_node (vals : seq val) (store : seq (option T)) (st : rstate) (j : nat) (nd : node) : rstate :=
  let arg i := nth 0 (nargs nd) i in
  let av i := nval (rheap st) vals (arg i) in
  let yb := bar_get vals st j in
  match nop nd with
  | NBin Add => bar_add vals (bar_add vals st (arg 0) yb) (arg 1) yb
  | NBin Sub => bar_add vals (bar_add vals st (arg 0) yb) (arg 1) (neg yb)
  | NBin Mul => bar_add vals (bar_add vals st (arg 0) (mul yb (av 1))) (arg 1) (mul yb (av 0))
  | NBin Div =>   (* pb_truediv: tmp = zbar / y ; xbar += tmp ; ybar -= tmp * z *)
      let z := nval (rheap st) vals j in
      let tmp := div yb (av 1) in
      bar_add vals (bar_add vals st (arg 0) tmp) (arg 1) (neg (mul tmp z))
  | NNeg => bar_add vals st (arg 0) (neg yb)
  | NUn f => bar_add vals st (arg 0) (mul yb (unpart f (av 0) (nval (rheap st) vals j)))
  | NPow n => bar_add vals st (arg 0) (mul yb (natmul n (pown (av 0) n.-1)))
  | NSet k =>
      match nth (VS zero) vals (arg 0) with
      | VBuf b =>
          (* pb_setitem (as repaired): tmp = ybar[k].copy() ; ybar[k] = 0 ; xbar(rhs) += tmp ; then restore the
             overwritten cell.  (The order matters when rhs is a view of the cell being written, y[k] = y[k].) *)
          let cellbar := hget (rbheap st) b k in
          let st1 := RState (rheap st) (hset (rbheap st) b k zero) (rbar st) in
          let st2 := bar_add vals st1 (arg 1) cellbar in
          match nth None store j with
          | Some old => RState (hset (rheap st2) b k old) (rbheap st2) (rbar st2)
          | None => st2
          end
      | _ => st
      end
  | _ => st          (* Id, getitem (views share their parent's adjoint), zeros: nothing to do *)
  end.
Fixpoint rev_loop (vals : seq val) (store : seq (option T)) (rt : seq node) (j : nat) (st : rstate) : rstate :=
  (* rt = nodes j-1, j-2, ..., 0 *)
  match rt, j with
  | nd :: rt', j'.+1 => rev_loop vals store rt' j' (rev_node vals store st j' nd)
  | _, _ => st
  end.

(* the rule as it stood before the repair: xbar(rhs) += ybar[k] FIRST, then ybar[k] = 0 *)
Definition rev_node_unrepaired (vals : seq val) (store : seq (option T)) (st : rstate) (j : nat) (nd : node) : rstate :=
  match nop nd with
  | NSet k =>
      match nth (VS zero) vals (nth 0 (nargs nd) 0) with
      | VBuf b =>
          let cellbar := hget (rbheap st) b k in
          let st1 := bar_add vals st (nth 0 (nargs nd) 1) cellbar in
          let st2 := RState (rheap st1) (hset (rbheap st1) b k zero) (rbar st1) in
          match nth None store j with
          | Some old => RState (hset (rheap st2) b k old) (rbheap st2) (rbar st2)
          | None => st2
          end
      | _ => st
      end
  | _ => rev_node vals store st j nd
  end.
Fixpoint rev_loop_unrepaired (vals : seq val) (store : seq (option T)) (rt : seq node) (j : nat) (st : rstate) : rstate :=
  match rt, j with
  | nd :: rt', j'.+1 => rev_loop_unrepaired vals store rt' j' (rev_node_unrepaired vals store st j' nd)
  | _, _ => st
  end.
(* zero adjoints shaped like the values, then seed the dependent nodes *)
Definition zero_like_heap (h : heap) : heap := [seq nseq (size row) zero | row <- h].
Definition seed (vals : seq val) (st : rstate) (outs : seq nat) (ybars : seq T) : rstate :=
  foldl (fun s ov => bar_add vals s ov.1 ov.2) st (zip outs ybars).
Definition pullback (t : tape) (fs : fstate) (outs : seq nat) (ybars : seq T) : rstate :=
  let st0 := RState (fheap fs) (zero_like_heap (fheap fs)) (nseq (size t) zero) in
  rev_loop (fvals fs) (fstore fs) (rev t) (size t) (seed (fvals fs) st0 outs ybars).
Definition pullback_unrepaired (t : tape) (fs : fstate) (outs : seq nat) (ybars : seq T) : rstate :=
  let st0 := RState (fheap fs) (zero_like_heap (fheap fs)) (nseq (size t) zero) in
  rev_loop_unrepaired (fvals fs) (fstore fs) (rev t) (size t) (seed (fvals fs) st0 outs ybars).
(* the adjoint of the independent vector is row 0 of the adjoint heap *)
Definition xbar_of (st : rstate) : seq T := nth [::] (rbheap st) 0.
Definition gradient_like (t : tape) (outs : seq nat) (xs ybars : seq T) : seq T :=
  xbar_of (pullback t (replay t xs) outs ybars).

(* ---------- CGraph.pullback as repaired: after the reverse walk the recorded in-place writes are applied again, so
   that the buffers hold the values of the last forward evaluation and the graph can answer further sweeps ---------- *)
Definition rollforward (t : tape) (vals : seq val) (h : heap) : heap :=
  foldl (fun h nd =>
    match nop nd with
    | NSet k => match nth (VS zero) vals (nth 0 (nargs nd) 0) with
                | VBuf b => hset h b k (nval h vals (nth 0 (nargs nd) 1))
                | _ => h end
    | _ => h end) h t.
Definition pullback_fixed (t : tape) (fs : fstate) (outs : seq nat) (ybars : seq T) : rstate :=
  let st := pullback t fs outs ybars in RState (rollforward t (fvals fs) (rheap st)) (rbheap st) (rbar st).

(* ---------- well-formedness (decidable): what the recorder produces ---------- *)
Inductive nkind := KInput | KBuf (n : nat) | KScal | KNone.
Definition kind_of (o : nodeop) : nkind :=
  match o with NInput => KInput | NZeros n => KBuf n | NSet _ => KNone | _ => KScal end.
Definition is_scal (t : tape) (a : nat) : bool :=
  match kind_of (nop (nth (Node NInput [::]) t a)) with KScal => true | _ => false end.
Definition buf_size (t : tape) (a : nat) : option nat :=
  match kind_of (nop (nth (Node NInput [::]) t a)) with KBuf n => Some n | _ => None end.
(* node j of tape t, with N = number of independent variables *)
Definition wf_node (N : nat) (t : tape) (j : nat) (nd : node) : bool :=
  all (fun a => a < j) (nargs nd) &&
  match nop nd with
  | NInput => (j == 0) && (nargs nd == [::])
  | NConst _ => (0 < j) && (nargs nd == [::])
  | NGetX k => (0 < j) && (nargs nd == [:: 0]) && (k < N)
  | NBin _ => (size (nargs nd) == 2) && is_scal t (nth 0 (nargs nd) 0) && is_scal t (nth 0 (nargs nd) 1)
  | NNeg | NUn _ | NPow _ => (size (nargs nd) == 1) && is_scal t (nth 0 (nargs nd) 0)
  | NZeros _ => 0 < j
  | NSet k => (size (nargs nd) == 2) && is_scal t (nth 0 (nargs nd) 1) &&
              (if buf_size t (nth 0 (nargs nd) 0) is Some n then k < n else false)
  | NGet k => (size (nargs nd) == 1) && (if buf_size t (nth 0 (nargs nd) 0) is Some n then k < n else false)
  end.
Definition wf_tape (N : nat) (t : tape) : bool :=
  (0 < size t) && all (fun j => wf_node N t j (nth (Node NInput [::]) t j)) (iota 0 (size t)).

(* programs: register references in range and of the right kind (tracked while scanning) *)
Inductive rkind := RScal | RBuf (n : nat).
Definition wf_operand (rk : seq rkind) (o : operand) : bool :=
  match o with OReg r => (r < size rk) && (if nth RScal rk r is RScal then true else false) | OConst _ => true end.
Definition wf_instr (N : nat) (rk : seq rkind) (i : instr) : option (seq rkind) :=
  let scal r := (r < size rk) && (if nth RScal rk r is RScal then true else false) in
  let buf r k := (r < size rk) && (if nth RScal rk r is RBuf n then k < n else false) in
  match i with
  | IX k => if k < N then Some (rcons rk RScal) else None
  | IBin _ a b => if wf_operand rk a && wf_operand rk b && (match a, b with OConst _, OConst _ => false | _, _ => true end)
                  then Some (rcons rk RScal) else None
  | INeg r | IUn _ r | IPow r _ => if scal r then Some (rcons rk RScal) else None
  | IZeros n => Some (rcons rk (RBuf n))
  | ISet b k a => if buf b k && wf_operand rk a then Some rk else None
  | IGet b k => if buf b k then Some (rcons rk RScal) else None
  end.
Fixpoint wf_prog_from (N : nat) (rk : seq rkind) (p : seq instr) : bool :=
  if p is i :: p' then (if wf_instr N rk i is Some rk' then wf_prog_from N rk' p' else false) else true.
Definition wf_prog (N : nat) (p : seq instr) : bool := wf_prog_from N [::] p.
End Tracer.
