(* C06 for the EXECUTABLE tracer instance (coefficient lists of length D, kernels of Series.v): the reverse sweep rolls in-place writes
   back, the repaired sweep rolls them forward again, and a sweep after earlier sweeps equals a sweep on a fresh evaluation.  The
   statements of TracerSpecC.v are about a commutative ring of values; the facts are structural (they concern which heap cells are
   saved and restored, not what is computed), so they are re-proved here for the executable instance (or, better, once for an
   arbitrary carrier and arbitrary operations, and instantiated). *)
From mathcomp Require Import all_ssreflect all_algebra.
From AlgoV Require Import Sums Series Tracer TracerInst TracerExec TracerSpecC TracerHistGen.
Set Implicit Arguments. Unset Strict Implicit. Unset Printing Implicit Defensive.
Import GRing.Theory.
Local Open Scope ring_scope.

Section ExecHist.
Variable K : fieldType.
Variable D : nat.
Definition X_replay := @replay (seq K) (x_zero K D) (@addS K) (@subS K) (@mulS K) (@divS K) (@negS K) (@x_pown K) (@x_unval K).
Definition X_pullback := @pullback (seq K) (x_zero K D) (@addS K) (@mulS K) (@divS K) (@negS K) (@x_natmul K) (@x_pown K) (@x_unpart K D).
Definition X_pullback_fixed := @pullback_fixed (seq K) (x_zero K D) (@addS K) (@mulS K) (@divS K) (@negS K) (@x_natmul K) (@x_pown K) (@x_unpart K D).
Implicit Types (t : tape (seq K)) (xs ybars : seq (seq K)) (outs : seq nat).

Theorem X_pullback_rolls_back t outs xs ybars : wf_tape (size xs) t ->
  rheap (X_pullback t (X_replay t xs) outs ybars)
  = xs :: [seq nseq (size row) (x_zero K D) | row <- behead (fheap (X_replay t xs))].
Proof. exact: gen_pullback_rolls_back. Qed.

Theorem X_pullback_fixed_restores t outs xs ybars : wf_tape (size xs) t ->
  rheap (X_pullback_fixed t (X_replay t xs) outs ybars) = fheap (X_replay t xs).
Proof. exact: gen_pullback_fixed_restores. Qed.

Theorem X_second_sweep_same t outs outs' xs ybars ybars' : wf_tape (size xs) t ->
  let fs := X_replay t xs in
  let st1 := X_pullback_fixed t fs outs ybars in
  X_pullback_fixed t (FState (rheap st1) (fvals fs) (fstore fs)) outs' ybars'
  = X_pullback_fixed t fs outs' ybars'.
Proof. exact: gen_second_sweep_same. Qed.
End ExecHist.

