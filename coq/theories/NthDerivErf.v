(* MODEL and theorems for the closed-form n-th derivatives of erf and erfi (algopy/nthderiv/nthderiv.py, as repaired: the sum starts
   at k = n // 2 because the terms with a negative power of x have a vanishing Pochhammer factor).
     erf:   a = 2/sqrt(pi) exp(-x^2);  b = sum_{k=n//2}^{n-1} (-1)^k 2^(2k+1-n) x^(2k+1-n) poch(2k+2-n, 2(n-1-k)) / (n-1-k)!
     erfi:  a = 2/sqrt(pi) exp(+x^2);  the same sum without the sign (-1)^k
   Order 0 is routed to the function itself by the basecase decorator (scipy.special.erf / erfi); here erf is DEFINED as the integral. *)
From Coq Require Import Reals ZArith Lia Lra.
From Coquelicot Require Import Coquelicot.
From AlgoV Require Import NthDeriv NthDerivSpec.
Local Open Scope R_scope.

(* poch(a, m) = a (a+1) ... (a+m-1) for an integer a, exact *)
Fixpoint pochI (a : Z) (m : nat) : R := match m with O => 1 | S j => pochI a j * IZR (a + Z.of_nat j) end.

(* one term of the sum; e = 2k+1-n >= 0 for k >= n/2 (natural subtraction is exact there) *)
Definition erf_term (sgn : bool) (n k : nat) (x : R) : R :=
  let e := (2 * k + 1 - n)%nat in
  (if sgn then msign k else 1) * 2 ^ e * x ^ e * pochI (Z.of_nat (2 * k + 2 - n)) (2 * (n - 1 - k)) / zfact (n - 1 - k).
(* sum_{k = lo}^{lo + cnt - 1} *)
Fixpoint sum_from (f : nat -> R) (lo cnt : nat) : R := match cnt with O => 0 | S c => sum_from f lo c + f (lo + c)%nat end.
Definition erf_poly (sgn : bool) (n : nat) (x : R) : R := sum_from (fun k => erf_term sgn n k x) (Nat.div2 n) (n - Nat.div2 n).

Definition erf_fun (x : R) : R := 2 / sqrt PI * RInt (fun t => exp (- (t * t))) 0 x.
Definition erfi_fun (x : R) : R := 2 / sqrt PI * RInt (fun t => exp (t * t)) 0 x.

Definition g_erf (n : nat) (x : R) : R := match n with O => erf_fun x | S _ => 2 / sqrt PI * exp (- (x * x)) * erf_poly true n x end.
Definition g_erfi (n : nat) (x : R) : R := match n with O => erfi_fun x | S _ => 2 / sqrt PI * exp (x * x) * erf_poly false n x end.

Theorem g_erf_0 x : g_erf 0 x = erf_fun x. Proof. reflexivity. Qed.
Theorem g_erfi_0 x : g_erfi 0 x = erfi_fun x. Proof. reflexivity. Qed.

(* ---------------------------------------------------------------------------------------------------------------- *)
(* auxiliary: finite sums *)
Lemma sum_from_ext f g lo cnt : (forall k, (lo <= k < lo + cnt)%nat -> f k = g k) -> sum_from f lo cnt = sum_from g lo cnt.
Proof.
  induction cnt as [|c IH]; intros H; simpl; [reflexivity|].
  rewrite IH, H; [reflexivity | lia | intros k Hk; apply H; lia].
Qed.
Lemma sum_from_zero f lo cnt : (forall k, (lo <= k < lo + cnt)%nat -> f k = 0) -> sum_from f lo cnt = 0.
Proof.
  induction cnt as [|c IH]; intros H; simpl; [reflexivity|].
  rewrite IH, H; [ring | lia | intros k Hk; apply H; lia].
Qed.
Lemma sum_from_split f lo a b : sum_from f lo (a + b) = sum_from f lo a + sum_from f (lo + a) b.
Proof.
  induction b as [|b IH]; simpl.
  - rewrite Nat.add_0_r; ring.
  - rewrite Nat.add_succ_r; simpl. rewrite IH, Nat.add_assoc. ring.
Qed.
Lemma sum_from_shift f c : sum_from f 0 (S c) = f 0%nat + sum_from (fun m => f (S m)) 0 c.
Proof.
  induction c as [|c IH]; [simpl; ring|].
  change (sum_from f 0 (S (S c))) with (sum_from f 0 (S c) + f (0 + S c)%nat).
  rewrite IH. simpl. ring.
Qed.
Lemma sum_from_rev f c : sum_from f 0 c = sum_from (fun m => f (c - 1 - m)%nat) 0 c.
Proof.
  induction c as [|c IH]; [reflexivity|].
  rewrite (sum_from_shift (fun m => f (S c - 1 - m)%nat)).
  change (sum_from f 0 (S c)) with (sum_from f 0 c + f (0 + c)%nat). rewrite IH.
  replace (S c - 1 - 0)%nat with (0 + c)%nat by lia.
  rewrite Rplus_comm. f_equal.
  apply sum_from_ext; intros k Hk. f_equal. lia.
Qed.
Lemma sum_from_scal a f lo cnt : sum_from (fun k => a * f k) lo cnt = a * sum_from f lo cnt.
Proof. induction cnt as [|c IH]; simpl; [ring | rewrite IH; ring]. Qed.
Lemma sum_from_plus f g lo cnt : sum_from (fun k => f k + g k) lo cnt = sum_from f lo cnt + sum_from g lo cnt.
Proof. induction cnt as [|c IH]; simpl; [ring | rewrite IH; ring]. Qed.
Lemma sum_from_derive (f df : nat -> R -> R) lo cnt x : (forall k, is_derive (f k) x (df k x)) ->
  is_derive (fun x => sum_from (fun k => f k x) lo cnt) x (sum_from (fun k => df k x) lo cnt).
Proof.
  intros H. induction cnt as [|c IH]; simpl.
  - apply @is_derive_const.
  - apply @is_derive_plus; [exact IH | apply H].
Qed.

(* auxiliary: factorials and the integer Pochhammer symbol *)
Lemma fact_S_INR m : INR (fact (S m)) = INR (S m) * INR (fact m).
Proof. change (fact (S m)) with (S m * fact m)%nat. now rewrite mult_INR. Qed.
Lemma pochI_fact j m : pochI (Z.of_nat (S j)) m * INR (fact j) = INR (fact (j + m)).
Proof.
  induction m as [|m IH].
  - rewrite Nat.add_0_r. simpl. ring.
  - rewrite Nat.add_succ_r, fact_S_INR, <- IH. cbn [pochI].
    rewrite <- Nat2Z.inj_add, <- INR_IZR_INZ. replace (S j + m)%nat with (S (j + m)) by lia. ring.
Qed.
Lemma pochI_0 m : pochI 0 (S m) = 0.
Proof. induction m as [|m IH]; [simpl; ring|]. change (pochI 0 (S (S m))) with (pochI 0 (S m) * IZR (0 + Z.of_nat (S m))). rewrite IH; ring. Qed.
Lemma div2_bounds n : (2 * Nat.div2 n <= n <= 2 * Nat.div2 n + 1)%nat.
Proof. generalize (Nat.div2_odd n). destruct (Nat.odd n); simpl Nat.b2n; lia. Qed.
Lemma INR_fact_neq m : INR (fact m) <> 0.
Proof. apply not_0_INR, fact_neq_0. Qed.

(* the sign factor: sg sgn k = (-1)^k for erf, 1 for erfi *)
Definition sg (sgn : bool) (k : nat) : R := if sgn then msign k else 1.
Definition sg1 (sgn : bool) : R := if sgn then -1 else 1.
Lemma sg_S sgn k : sg sgn (S k) = sg1 sgn * sg sgn k.
Proof. destruct sgn; simpl; [rewrite msign_S|]; ring. Qed.

(* the polynomial indexed by m = n-1-k:  u N m = sg(N-m) N! / (m! (N-2m)!) (2x)^(N-2m)  for 2m <= N, and 0 otherwise *)
Definition ucoef (sgn : bool) (N m : nat) : R := sg sgn (N - m) * INR (fact N) / (INR (fact m) * INR (fact (N - 2 * m))).
Definition u (sgn : bool) (N m : nat) (x : R) : R :=
  if (2 * m <=? N)%nat then ucoef sgn N m * (2 * x) ^ (N - 2 * m) else 0.
Definition du (sgn : bool) (N m : nat) (x : R) : R :=
  if (2 * m <=? N)%nat then ucoef sgn N m * (INR (N - 2 * m) * 2 * (2 * x) ^ pred (N - 2 * m)) else 0.

Lemma erf_term_u sgn N k x : (k <= N)%nat -> erf_term sgn (S N) k x = u sgn N (N - k) x.
Proof.
  intros Hk. unfold erf_term, u, ucoef. cbv zeta. fold (sg sgn k).
  destruct (Nat.leb_spec (2 * (N - k)) N) as [H|H].
  - replace (2 * k + 1 - S N)%nat with (2 * k - N)%nat by lia.
    replace (2 * k + 2 - S N)%nat with (S (2 * k - N)) by lia.
    replace (S N - 1 - k)%nat with (N - k)%nat by lia.
    replace (N - (N - k))%nat with k by lia.
    replace (N - 2 * (N - k))%nat with (2 * k - N)%nat by lia.
    generalize (pochI_fact (2 * k - N) (2 * (N - k))).
    replace (2 * k - N + 2 * (N - k))%nat with N by lia.
    intros <-. rewrite zfact_INR, Rpow_mult_distr. field.
    split; apply INR_fact_neq.
  - replace (2 * k + 2 - S N)%nat with 0%nat by lia.
    replace (2 * (S N - 1 - k))%nat with (S (2 * (N - k) - 1)) by lia.
    change (Z.of_nat 0) with 0%Z. rewrite pochI_0. unfold Rdiv. ring.
Qed.

Lemma erf_poly_u sgn N x : erf_poly sgn (S N) x = sum_from (fun m => u sgn N m x) 0 (S N).
Proof.
  unfold erf_poly. set (d := Nat.div2 (S N)). set (E := fun k => erf_term sgn (S N) k x).
  assert (Hd := div2_bounds (S N)). fold d in Hd.
  assert (H0 : sum_from E 0 d = 0).
  { apply sum_from_zero. intros k Hk. unfold E. rewrite erf_term_u by lia. unfold u.
    destruct (Nat.leb_spec (2 * (N - k)) N) as [H|H]; [lia | reflexivity]. }
  transitivity (sum_from E 0 (d + (S N - d))).
  { rewrite sum_from_split, H0. simpl. ring. }
  replace (d + (S N - d))%nat with (S N) by lia.
  rewrite sum_from_rev. apply sum_from_ext. intros m Hm. unfold E.
  rewrite erf_term_u by lia. f_equal. lia.
Qed.

Lemma u_derive sgn N m x : is_derive (u sgn N m) x (du sgn N m x).
Proof.
  unfold u, du. generalize (N - 2 * m)%nat; intros p. destruct (2 * m <=? N)%nat.
  - auto_derive; [exact I | ring].
  - apply @is_derive_const.
Qed.

(* the three-term recurrence, term by term:  u (N+1) m = d/dx u N (m-1) + sg1 * 2x * u N m *)
Definition du_sh (sgn : bool) (N m : nat) (x : R) : R := match m with O => 0 | S m' => du sgn N m' x end.
Lemma u_rec sgn N m x : u sgn (S N) m x = du_sh sgn N m x + sg1 sgn * (2 * x) * u sgn N m x.
Proof.
  destruct m as [|m]; unfold du_sh, u, du, ucoef.
  - simpl Nat.leb. rewrite !Nat.sub_0_r, sg_S, fact_S_INR. cbn [pow]. field.
    repeat split; try apply INR_fact_neq. apply not_0_INR; lia.
  - destruct (Nat.leb_spec (2 * S m) (S N)) as [H1|H1]; destruct (Nat.leb_spec (2 * m) N) as [H2|H2];
      destruct (Nat.leb_spec (2 * S m) N) as [H3|H3]; try lia.
    + (* general case N = p + 2m + 2 *)
      assert (Hp : exists p, N = (p + 2 * m + 2)%nat) by (exists (N - 2 * m - 2)%nat; lia).
      destruct Hp as [p ->].
      replace (S (p + 2 * m + 2) - S m)%nat with (S (p + m + 1)) by lia.
      replace (S (p + 2 * m + 2) - 2 * S m)%nat with (S p) by lia.
      replace (p + 2 * m + 2 - m)%nat with (S (p + m + 1)) by lia.
      replace (p + 2 * m + 2 - 2 * m)%nat with (S (S p)) by lia.
      replace (p + 2 * m + 2 - S m)%nat with (p + m + 1)%nat by lia.
      replace (p + 2 * m + 2 - 2 * S m)%nat with p by lia.
      rewrite !sg_S. cbn [pred pow]. rewrite !fact_S_INR.
      replace (INR (S (p + 2 * m + 2))) with (INR p + 2 * INR m + 3)
        by (rewrite S_INR, !plus_INR, mult_INR; simpl; ring).
      rewrite !S_INR. field.
      repeat split; try apply INR_fact_neq; try (generalize (pos_INR p) (pos_INR m); lra).
    + (* N = 2m+1 *)
      assert (N = (2 * m + 1)%nat) by lia. subst N.
      replace (S (2 * m + 1) - S m)%nat with (S m) by lia.
      replace (S (2 * m + 1) - 2 * S m)%nat with 0%nat by lia.
      replace (2 * m + 1 - m)%nat with (S m) by lia.
      replace (2 * m + 1 - 2 * m)%nat with 1%nat by lia.
      cbn [pred pow]. rewrite !fact_S_INR.
      replace (INR (S (2 * m + 1))) with (2 * INR m + 2)
        by (rewrite S_INR, !plus_INR, mult_INR; simpl; ring).
      rewrite !S_INR. change (INR (fact 0)) with 1. change (INR (fact 1)) with 1. change (INR 1) with 1. field.
      repeat split; try apply INR_fact_neq; try (generalize (pos_INR m); simpl; lra).
    + (* N = 2m *)
      replace (N - 2 * m)%nat with 0%nat by lia. simpl INR. ring.
    + ring.
Qed.

Lemma erf_poly_rec sgn N x :
  erf_poly sgn (S (S N)) x = sum_from (fun m => du sgn N m x) 0 (S N) + sg1 sgn * (2 * x) * erf_poly sgn (S N) x.
Proof.
  rewrite !erf_poly_u.
  rewrite (sum_from_ext _ (fun m => du_sh sgn N m x + sg1 sgn * (2 * x) * u sgn N m x)) by (intros; apply u_rec).
  rewrite sum_from_plus, sum_from_scal. f_equal.
  - rewrite sum_from_shift. simpl du_sh. ring.
  - change (sum_from (fun k => u sgn N k x) 0 (S (S N))) with (sum_from (fun k => u sgn N k x) 0 (S N) + u sgn N (0 + S N) x).
    unfold u at 2. destruct (Nat.leb_spec (2 * (0 + S N)) N); [lia | ring].
Qed.

Lemma erf_poly_derive sgn N x : is_derive (erf_poly sgn (S N)) x (sum_from (fun m => du sgn N m x) 0 (S N)).
Proof.
  apply is_derive_ext with (f := fun x => sum_from (fun m => u sgn N m x) 0 (S N)).
  - intros t. now rewrite erf_poly_u.
  - apply sum_from_derive. intros k. apply u_derive.
Qed.

Lemma erf_poly_1 sgn x : erf_poly sgn 1 x = 1.
Proof. unfold erf_poly, erf_term, msign, zfact. simpl. destruct sgn; field. Qed.

Lemma sqrt_PI_neq : sqrt PI <> 0.
Proof. apply Rgt_not_eq, sqrt_lt_R0, PI_RGT_0. Qed.

Lemma RInt_exp_derive (s : R) x :
  is_derive (fun x => RInt (fun t => exp (s * (t * t))) 0 x) x (exp (s * (x * x))).
Proof.
  assert (Hc : forall z, continuous (fun t => exp (s * (t * t))) z).
  { intros z. apply (ex_derive_continuous (fun t => exp (s * (t * t)))). auto_derive. exact I. }
  apply (is_derive_RInt (fun t => exp (s * (t * t))) _ 0 x).
  - apply filter_forall. intros y. apply (@RInt_correct R_CompleteNormedModule).
    apply (@ex_RInt_continuous R_CompleteNormedModule). intros z _. apply Hc.
  - apply Hc.
Qed.

(* order n+1 is the derivative of order n, for every n and every real x (x = 0 included) *)
Theorem g_erf_S n x : is_derive (g_erf n) x (g_erf (S n) x).
Proof.
  destruct n as [|N].
  - unfold g_erf, erf_fun. rewrite erf_poly_1, Rmult_1_r.
    apply is_derive_scal.
    apply is_derive_ext with (f := fun x => RInt (fun t => exp (-1 * (t * t))) 0 x).
    + intros t. apply RInt_ext. intros y _. f_equal. ring.
    + replace (- (x * x)) with (-1 * (x * x)) by ring. apply RInt_exp_derive.
  - unfold g_erf. rewrite erf_poly_rec.
    generalize (erf_poly_derive true N x). set (D := sum_from _ _ _). intros HD.
    auto_derive.
    + repeat split; trivial. exists D; exact HD.
    + replace (Derive _ x) with D by (symmetry; apply is_derive_unique; exact HD). simpl sg1. ring.
Qed.
Theorem g_erfi_S n x : is_derive (g_erfi n) x (g_erfi (S n) x).
Proof.
  destruct n as [|N].
  - unfold g_erfi, erfi_fun. rewrite erf_poly_1, Rmult_1_r.
    apply is_derive_scal.
    apply is_derive_ext with (f := fun x => RInt (fun t => exp (1 * (t * t))) 0 x).
    + intros t. apply RInt_ext. intros y _. f_equal. ring.
    + replace (x * x) with (1 * (x * x)) by ring. apply RInt_exp_derive.
  - unfold g_erfi. rewrite erf_poly_rec.
    generalize (erf_poly_derive false N x). set (D := sum_from _ _ _). intros HD.
    auto_derive.
    + repeat split; trivial. exists D; exact HD.
    + replace (Derive _ x) with D by (symmetry; apply is_derive_unique; exact HD). simpl sg1. ring.
Qed.

(* sanity of the transcription: the first orders in closed form *)
Theorem g_erf_1 x : g_erf 1 x = 2 / sqrt PI * exp (- (x * x)).
Proof. unfold g_erf, g_erfi, erf_poly, erf_term, msign, zfact. simpl. field. apply sqrt_PI_neq. Qed.
Theorem g_erf_2 x : g_erf 2 x = 2 / sqrt PI * exp (- (x * x)) * (- 2 * x).
Proof. unfold g_erf, g_erfi, erf_poly, erf_term, msign, zfact. simpl. field. apply sqrt_PI_neq. Qed.
Theorem g_erf_3 x : g_erf 3 x = 2 / sqrt PI * exp (- (x * x)) * (4 * x * x - 2).
Proof. unfold g_erf, g_erfi, erf_poly, erf_term, msign, zfact. simpl. field. apply sqrt_PI_neq. Qed.
Theorem g_erfi_3 x : g_erfi 3 x = 2 / sqrt PI * exp (x * x) * (4 * x * x + 2).
Proof. unfold g_erf, g_erfi, erf_poly, erf_term, msign, zfact. simpl. field. apply sqrt_PI_neq. Qed.

