(* The full QR recurrence (_qr_full) satisfies Q(t) R(t) = A(t), Q(t)^T Q(t) = I modulo t^D with every R_d upper trapezoidal, for every
   n <= m, every D, every field with 2 != 0, whenever the base factors satisfy the factorization at order 0 and Rinv is a right
   inverse of the top n x n block of R0; and the executable list-matrix instance refines the mathcomp instance. *)
From mathcomp Require Import all_ssreflect all_algebra.
From AlgoV Require Import Sums Series Matrix MatrixFact MatrixSpec FactSpec QRSpec QRTall QRTallSpec QRFull.
Set Implicit Arguments. Unset Strict Implicit. Unset Printing Implicit Defensive.
Import GRing.Theory.
Local Open Scope ring_scope.
Local Arguments mkseq : simpl never.
Local Arguments iota : simpl never.

Section QRFullSpec.
Variable K : fieldType.
Variables m n : nat.
Hypothesis char2 : (2%:R : K) != 0.
Hypothesis le_nm : (n <= m)%N.
Notation MQ := 'M[K]_m.
Notation MR := 'M[K]_(m, n).
Notation MN := 'M[K]_n.

(* upper trapezoidal m x n matrix: zero strictly below the diagonal (rows n .. m-1 vanish altogether) *)
Definition is_uptrap (R : MR) : Prop := forall (i : 'I_m) (j : 'I_n), (j < i)%N -> R i j = 0.
(* the top n x n block R[:n,:] *)
Definition topM (R : MR) : MN := \matrix_(i, j) R (widen_ord le_nm i) j.

Theorem qrfM_size (A : seq MR) (Q0 : MQ) (R0 : MR) (Rinv : MN) : size (qrfM A Q0 R0 Rinv) = size A.
Proof. by rewrite /qrfM QRSpec.size_seriesT. Qed.

Lemma topM_upper (R : MR) : is_uptrap R -> is_upper (topM R).
Proof. by move=> uR i j lt_ji; rewrite mxE uR. Qed.

Lemma uptrap_mul (Y : MR) (T : MN) : is_uptrap Y -> is_upper T -> is_uptrap (Y *m T).
Proof.
move=> uY uT i j lt_ji; rewrite mxE; apply: big1 => k _.
case: (ltnP k i) => [lt_ki|le_ik]; first by rewrite uY // mul0r.
by rewrite (uT k j) ?mulr0 //; apply: leq_trans le_ik.
Qed.

(* R0 Rinv is the m x n "identity" *)
Lemma R0Rinv_E (R0 : MR) (Rinv : MN) (l : 'I_m) (k : 'I_n) :
  is_uptrap R0 -> topM R0 *m Rinv = 1%:M -> (R0 *m Rinv) l k = (val l == val k)%:R.
Proof.
move=> uR0 RRi; case: (ltnP l n) => [lt_ln|le_nl].
  have -> : l = widen_ord le_nm (Ordinal lt_ln) by apply: val_inj.
  have := congr1 (fun X : MN => X (Ordinal lt_ln) k) RRi; rewrite !mxE /= => <-.
  by apply: eq_bigr => j _; rewrite !mxE.
rewrite mxE big1 => [|j _]; last by rewrite uR0 ?mul0r //; apply: leq_trans le_nl.
by rewrite eqn_leq [(l <= k)%N]leqNgt (leq_trans (ltn_ord k) le_nl).
Qed.

(* one order of the recurrence: the algebra *)
Lemma qrf_core (Q0 : MQ) (R0 : MR) (Rinv : MN) (dF : MR) (dG : MQ) :
  Q0^T *m Q0 = 1%:M -> is_uptrap R0 -> topM R0 *m Rinv = 1%:M -> dG^T = dG ->
  let S := halfM dG in
  let QtdF := Q0^T *m dF in
  let X0 := lowcolsM (QtdF *m Rinv) S in
  let X := X0 - X0^T in
  let Kk := S + X in
  let RD := QtdF - Kk *m R0 in
  let QD := Q0 *m Kk in
  [/\ Q0 *m RD + QD *m R0 = dF, Q0^T *m QD + QD^T *m Q0 = dG & is_uptrap RD].
Proof.
move=> QtQ uR0 RRi dGs S QtdF X0 X Kk RD QD.
have QQt : Q0 *m Q0^T = 1%:M by apply: mulmx1C.
have RiR : Rinv *m topM R0 = 1%:M by apply: mulmx1C.
split.
- by rewrite /RD /QD mulmxBr -mulmxA subrK /QtdF mulmxA QQt mul1mx.
- have E : Q0^T *m QD = Kk by rewrite /QD mulmxA QtQ mul1mx.
  have -> : QD^T *m Q0 = Kk^T by rewrite -E [RHS]trmx_mul trmxK.
  rewrite E.
  have St : S^T = S by rewrite /S halfM_tr dGs.
  have Xt : X^T = - X by rewrite /X raddfB /= trmxK opprB.
  by rewrite /Kk raddfD /= St Xt addrACA subrr addr0 halfM_double.
- have -> : RD = (RD *m Rinv) *m topM R0 by rewrite -mulmxA RiR mulmx1.
  apply: uptrap_mul; last exact: topM_upper.
  move=> i k lt_ki.
  have RE l k' : (R0 *m Rinv) l k' = (val l == val k')%:R by apply: R0Rinv_E.
  rewrite /RD mulmxBl -[Kk *m R0 *m Rinv]mulmxA [LHS]mxE [X in _ + X]mxE [(Kk *m _) i k]mxE.
  rewrite (bigD1 (widen_ord le_nm k)) //= big1 => [|l ne_lk]; last first.
    rewrite RE; case: eqP => [E|_]; last by rewrite mulr0.
    by case/eqP: ne_lk; apply: val_inj.
  rewrite RE /= eqxx mulr1 addr0 /Kk /X /X0 !mxE /= lt_ki.
  rewrite ltnNge (ltnW lt_ki) /= subr0.
  case: insubP => [k' _ Ek'|]; last by rewrite ltn_ord.
  have -> : k' = k by apply: val_inj.
  by rewrite [_ + (_ - _)]addrC subrK mxE subrr.
Qed.

Lemma qrf_stepE (A : seq MR) (Q0 : MQ) (R0 : MR) (Rinv : MN) (cf : nat -> MQ * MR) D :
  qrf_stepM A Q0 R0 Rinv (mkseq cf D.+1) =
  let dF := A`_D.+1 - \sum_(1 <= c < D.+1) (cf c).1 *m (cf (D.+1 - c)%N).2 in
  let dG := - \sum_(1 <= c < D.+1) ((cf c).1)^T *m (cf (D.+1 - c)%N).1 in
  let S := halfM dG in
  let QtdF := Q0^T *m dF in
  let X0 := lowcolsM (QtdF *m Rinv) S in
  let X := X0 - X0^T in
  let Kk := S + X in
  (Q0 *m Kk, QtdF - Kk *m R0).
Proof.
rewrite /qrf_stepM size_mkseq.
rewrite (MatrixSpec.foldl_subE (fun k => (nth (0, 0) (mkseq cf D.+1) (D.+1 - k)).1 *m (nth (0, 0) (mkseq cf D.+1) k).2)).
rewrite (MatrixSpec.foldl_subE (fun k => ((nth (0, 0) (mkseq cf D.+1) (D.+1 - k)).1)^T *m (nth (0, 0) (mkseq cf D.+1) k).1)).
rewrite !sub0r add1n.
have -> : \sum_(1 <= k < D.+1) (nth (0, 0) (mkseq cf D.+1) (D.+1 - k)).1 *m (nth (0, 0) (mkseq cf D.+1) k).2
        = \sum_(1 <= c < D.+1) (cf c).1 *m (cf (D.+1 - c)%N).2.
  rewrite big_nat_rev /=; apply: eq_big_nat => c /andP[c1 cD].
  by rewrite add1n subSS subKn ?(ltnW cD) // !nth_mkseq // ltn_subrL c1.
have -> : \sum_(1 <= k < D.+1) ((nth (0, 0) (mkseq cf D.+1) (D.+1 - k)).1)^T *m (nth (0, 0) (mkseq cf D.+1) k).1
        = \sum_(1 <= c < D.+1) ((cf c).1)^T *m (cf (D.+1 - c)%N).1.
  rewrite big_nat_rev /=; apply: eq_big_nat => c /andP[c1 cD].
  by rewrite add1n subSS subKn ?(ltnW cD) // !nth_mkseq // ltn_subrL c1.
by [].
Qed.

Definition qrf_cf (A : seq MR) (Q0 : MQ) (R0 : MR) (Rinv : MN) : nat -> MQ * MR :=
  QRSpec.tcoef (0, 0) (qrf_stepM A Q0 R0 Rinv) (Q0, R0).

Lemma nth_qrfM (A : seq MR) (Q0 : MQ) (R0 : MR) (Rinv : MN) d : (d < size A)%N ->
  nth (0, 0) (qrfM A Q0 R0 Rinv) d = qrf_cf A Q0 R0 Rinv d.
Proof. by move=> lt_d; rewrite /qrfM QRSpec.nth_seriesT. Qed.

Lemma qrf_cf_spec (A : seq MR) (Q0 : MQ) (R0 : MR) (Rinv : MN) :
  Q0^T *m Q0 = 1%:M -> is_uptrap R0 -> Q0 *m R0 = A`_0 -> topM R0 *m Rinv = 1%:M ->
  let cf := qrf_cf A Q0 R0 Rinv in
  forall d,
  \sum_(c < d.+1) (cf c).1 *m (cf (d - c)%N).2 = A`_d /\
  \sum_(c < d.+1) ((cf c).1)^T *m (cf (d - c)%N).1 = (d == 0%N)%:R%:M /\
  is_uptrap (cf d).2.
Proof.
move=> QtQ uR0 QR0 RRi cf.
have cf0 : cf 0%N = (Q0, R0) by [].
case=> [|D].
  by rewrite !big_ord_recl !big_ord0 !addr0 subn0 cf0 /=.
have cfS : cf D.+1 = _ := QRSpec.tcoefS _ _ _ D.
rewrite qrf_stepE -/(qrf_cf A Q0 R0 Rinv) -/cf in cfS.
move: cfS.
set sF := \sum_(1 <= c < D.+1) _.
set sG := \sum_(1 <= c < D.+1) _.
move=> cfS.
have sGs : (- sG)^T = - sG by rewrite raddfN /= dGt_sym.
have [] := @qrf_core Q0 R0 Rinv (A`_D.+1 - sF) (- sG) QtQ uR0 RRi sGs.
move: cfS => /=.
set Kk := (halfM _ + _).
set RD := (_ - _ *m R0).
move=> cfS Ea Eb Ec.
split; last split.
- rewrite big_ord_recl big_ord_recr /= subn0 subnn cf0 cfS /=.
  rewrite addrCA Ea addrC /sF big_add1 /= big_mkord.
  by rewrite subrK.
- rewrite big_ord_recl big_ord_recr /= subn0 subnn cf0 cfS /=.
  rewrite addrCA Eb addrC /sG big_add1 /= big_mkord addNr.
  by rewrite raddf0.
- by rewrite cfS.
Qed.

Theorem qrfM_spec (A : seq MR) (Q0 : MQ) (R0 : MR) (Rinv : MN) :
  Q0^T *m Q0 = 1%:M -> is_uptrap R0 -> Q0 *m R0 = A`_0 -> topM R0 *m Rinv = 1%:M ->
  let QR := qrfM A Q0 R0 Rinv in
  forall d, (d < size A)%N ->
  \sum_(c < d.+1) (nth (0, 0) QR c).1 *m (nth (0, 0) QR (d - c)).2 = A`_d /\
  \sum_(c < d.+1) ((nth (0, 0) QR c).1)^T *m (nth (0, 0) QR (d - c)).1 = (d == 0%N)%:R%:M /\
  is_uptrap (nth (0, 0) QR d).2.
Proof.
move=> QtQ uR0 QR0 RRi QR d lt_d.
have [Ea [Eb Ec]] := qrf_cf_spec QtQ uR0 QR0 RRi d.
have lt_c (c : 'I_d.+1) : (c < size A)%N by apply: leq_trans (ltn_ord c) lt_d.
have lt_dc (c : 'I_d.+1) : (d - c < size A)%N by apply: leq_ltn_trans lt_d; apply: leq_subr.
split; last split.
- by rewrite -[RHS]Ea; apply: eq_bigr => c _; rewrite /QR !nth_qrfM.
- by rewrite -[RHS]Eb; apply: eq_bigr => c _; rewrite /QR !nth_qrfM.
- by rewrite /QR nth_qrfM.
Qed.

(* the hypothesis on Rinv, entrywise *)
Lemma topM_RinvP (R0 : MR) (Rinv : MN) :
  (forall i j : 'I_n, \sum_k R0 (widen_ord le_nm i) k * Rinv k j = (i == j)%:R) <-> topM R0 *m Rinv = 1%:M.
Proof.
split=> [H|H i j]; first by apply/matrixP => i j; rewrite !mxE -H; apply: eq_bigr => k _; rewrite mxE.
by have := congr1 (fun X : MN => X i j) H; rewrite !mxE => <-; apply: eq_bigr => k _; rewrite mxE.
Qed.
End QRFullSpec.

Section QRFullRefine.
Variable K : fieldType.
Variables m n : nat.
Definition mofq (p : mx K * mx K) : 'M[K]_m * 'M[K]_(m, n) := (mx_of m m p.1, mx_of m n p.2).
Lemma mx_of_mhalf_m (A : mx K) : mx_of m m (mhalf m A) = halfM (mx_of m m A).
Proof. by rewrite /mhalf /mscale mx_of_mkmx; apply/matrixP => i j; rewrite !mxE. Qed.
Lemma mx_of_mlowcols (W S : mx K) : mx_of m m (mlowcols m n W S) = lowcolsM (mx_of m n W) (mx_of m m S).
Proof.
rewrite /mlowcols mx_of_mkmx; apply/matrixP => i j; rewrite !mxE.
case: insubP => [j' lt_j Ej|]; first by rewrite lt_j /= !mxE Ej.
by rewrite -leqNgt ltnNge => -> /=; rewrite if_same.
Qed.

Lemma nth_mofq (s : seq (mx K * mx K)) d :
  mofq (nth (mzero K m m, mzero K m n) s d) = nth (0, 0) [seq mofq p | p <- s] d.
Proof.
case: (ltnP d (size s)) => [lt_d|le_d]; first by rewrite (nth_map (mzero K m m, mzero K m n)).
by rewrite !nth_default ?size_map // /mofq /= !mx_of_mzero.
Qed.
Lemma nth_mofq_1 (s : seq (mx K * mx K)) d :
  mx_of m m (nth (mzero K m m, mzero K m n) s d).1 = (nth (0, 0) [seq mofq p | p <- s] d).1.
Proof. by rewrite -nth_mofq. Qed.
Lemma nth_mofq_2 (s : seq (mx K * mx K)) d :
  mx_of m n (nth (mzero K m m, mzero K m n) s d).2 = (nth (0, 0) [seq mofq p | p <- s] d).2.
Proof. by rewrite -nth_mofq. Qed.

Lemma mofq_foldl_sub p q (f : nat -> mx K) (G : nat -> 'M[K]_(p, q)) a l : (forall c, mx_of p q (f c) = G c) ->
  mx_of p q (foldl (fun acc c => msub p q acc (f c)) a l) = foldl (fun acc c => acc - G c) (mx_of p q a) l.
Proof. by move=> H; elim: l a => //= c l IH a; rewrite IH mx_of_msub H. Qed.

Theorem qrfU_refines (A : seq (mx K)) (Q0 R0 Rinv : mx K) :
  [seq mofq p | p <- qrfU m n A Q0 R0 Rinv]
  = qrfM [seq mx_of m n a | a <- A] (mx_of m m Q0) (mx_of m n R0) (mx_of n n Rinv).
Proof.
rewrite /qrfU /qrfM size_map.
apply: (@map_seriesT _ _ mofq) => QRs.
rewrite /qrf_stepU /qrf_stepM size_map /mofq /=.
rewrite !(mx_of_mmul, mx_of_madd, mx_of_msub, mx_of_mtr, mx_of_mlowcols, mx_of_mhalf_m).
rewrite (@mofq_foldl_sub _ _ _ (fun k => (nth (0, 0) [seq (mx_of m m p.1, mx_of m n p.2) | p <- QRs] (size QRs - k)).1 *m
                                        (nth (0, 0) [seq (mx_of m m p.1, mx_of m n p.2) | p <- QRs] k).2)); last first.
  by move=> c; rewrite mx_of_mmul nth_mofq_1 nth_mofq_2.
rewrite (@mofq_foldl_sub _ _ _ (fun k => ((nth (0, 0) [seq (mx_of m m p.1, mx_of m n p.2) | p <- QRs] (size QRs - k)).1)^T *m
                                        (nth (0, 0) [seq (mx_of m m p.1, mx_of m n p.2) | p <- QRs] k).1)); last first.
  by move=> c; rewrite mx_of_mmul mx_of_mtr !nth_mofq_1.
by rewrite mx_of_mzero nth_mzero_mx_of.
Qed.
End QRFullRefine.
