(* MODEL of the quotient kernel as a STORE TRANSFORMER with an explicit aliasing parameter (companion of InPlace.v for `/`):
   algorithms.py _truediv / utpm.py __itruediv__.  The implementation builds the quotient in a TEMPORARY and copies it to the output
   at the end (div_temp); the variant that writes each coefficient straight into the output (div_direct) is what several seeded
   changes did ("drop the clone as an optimisation"). *)
From Coq Require Import ZArith QArith Qcanon.
From mathcomp Require Import all_ssreflect all_algebra.
From AlgoV Require Import Sums Series SeriesBase SeriesSpec QcField InPlace.
Set Implicit Arguments. Unset Strict Implicit. Unset Printing Implicit Defensive.
Import GRing.Theory.
Local Open Scope ring_scope.
Local Arguments iota : simpl never.
Local Arguments mkseq : simpl never.

Section InPlaceDiv.
Variable K : fieldType.
Implicit Types (x y out : seq K).

(* with a temporary: every read of x and y happens before the output is touched *)
Definition div_temp (al : alias) x y out : seq K := divS (rdx al x out) (rdy al y out).

(* without a temporary:  for d in range(D): out[d] = (x[d] - sum_{c<d} out[c] * y[d-c]) / y[0], operands read from the CURRENT store *)
Fixpoint div_direct_loop (al : alias) x y (ds : seq nat) out : seq K :=
  if ds is d :: ds' then
    let xs := rdx al x out in let ys := rdy al y out in
    let v := (ys`_0)^-1 * (xs`_d - sumn_f d (fun c => out`_c * ys`_(d - c))) in
    div_direct_loop al x y ds' (set_nth 0 out d v)
  else out.
Definition div_direct (al : alias) x y out := div_direct_loop al x y (iota 0 (size out)) out.

(* the operands as the caller sees them when the call starts *)
Definition x_seen (al : alias) x out := rdx al x out.
Definition y_seen (al : alias) y out := rdy al y out.

(* T1: with the temporary the result is the quotient of the operands as they were when the call started, whatever aliases the output *)
Theorem div_temp_alias_safe (al : alias) x y out : div_temp al x y out = divS (x_seen al x out) (y_seen al y out).
Proof. by []. Qed.

(* ---- auxiliary lemmas ---- *)
(* the recurrence satisfied by the coefficients of divS *)
Lemma divS_rec x y d : (d < size x)%N ->
  (divS x y)`_d = (y`_0)^-1 * (x`_d - sumn_f d (fun c => (divS x y)`_c * y`_(d - c))).
Proof.
move=> lt_d; rewrite {1}/divS series1_nth //.
case: d lt_d => [|d] lt_d; first by rewrite ucoef0.
rewrite ucoefS /div_step size_mkseq; congr (_ * (_ - _)).
apply: eq_sumn_f => c lt_c; rewrite nth_mkseq // /divS series1_nth //.
exact: ltn_trans lt_c lt_d.
Qed.

(* the value written at step d *)
Definition div_val (al : alias) x y (d : nat) out : K :=
  ((rdy al y out)`_0)^-1 * ((rdx al x out)`_d - sumn_f d (fun c => out`_c * (rdy al y out)`_(d - c))).

Lemma div_direct_loop_cons al x y d ds out :
  div_direct_loop al x y (d :: ds) out = div_direct_loop al x y ds (set_nth 0 out d (div_val al x y d out)).
Proof. by []. Qed.

(* generic loop invariant rule *)
Lemma div_direct_loop_inv (P : nat -> seq K -> Prop) al x y n :
  (forall d out, (d < n)%N -> P d out -> P d.+1 (set_nth 0 out d (div_val al x y d out))) ->
  forall m d0 out, (d0 + m = n)%N -> P d0 out -> P n (div_direct_loop al x y (iota d0 m) out).
Proof.
move=> step; elim=> [|m IH] d0 out.
  by rewrite addn0 => <-.
rewrite addnS -addSn => E Pd; rewrite [iota _ _]/= -/(iota _ _) div_direct_loop_cons.
apply: IH => //; apply: step => //.
by rewrite -E ltn_addr.
Qed.

(* the invariant: size kept, entries below d are those of z, entries from d on are the original ones *)
Definition div_inv (z out0 : seq K) (d : nat) out :=
  [/\ size out = size out0, forall c, (c < d)%N -> out`_c = z`_c & forall c, (d <= c)%N -> out`_c = out0`_c].

Lemma div_inv0 z out0 : div_inv z out0 0 out0.
Proof. by split. Qed.

Lemma div_inv_step z out0 d out v : (d < size out0)%N -> div_inv z out0 d out -> v = z`_d ->
  div_inv z out0 d.+1 (set_nth 0 out d v).
Proof.
move=> lt_d [sz lo hi] Ev; split.
- by rewrite size_set_nth sz; apply/maxn_idPr.
- move=> c; rewrite ltnS nth_set_nth /= => le_c.
  by case: eqP => [->|/eqP ne_c] //; apply: lo; rewrite ltn_neqAle ne_c.
- move=> c lt_c; rewrite nth_set_nth /=; case: eqP => [E|_]; first by rewrite E ltnn in lt_c.
  by apply: hi; apply: ltnW.
Qed.

Lemma div_inv_end z out0 out : size z = size out0 -> div_inv z out0 (size out0) out -> out = z.
Proof.
move=> sz [so lo _]; apply: (@eq_from_nth _ 0); first by rewrite so sz.
by move=> i; rewrite so; apply: lo.
Qed.

Lemma size_divS x y : size (divS x y) = size x.
Proof. by rewrite /divS size_series1. Qed.

(* T2: without aliasing, or when only the NUMERATOR aliases the output (x /= y with y independent: out[d] is read before it is
   written and never again), the direct loop computes the same quotient *)
Theorem div_direct_noalias x y out : size x = size out -> size y = size out -> div_direct NoAlias x y out = divS x y.
Proof.
move=> sx sy; apply: (@div_inv_end _ out); first by rewrite size_divS.
rewrite /div_direct; apply: (@div_direct_loop_inv (div_inv (divS x y) out) _ _ _ (size out)); [|by rewrite add0n|exact: div_inv0].
move=> d o lt_d Hinv; apply: div_inv_step => //.
rewrite /div_val [rdx _ _ _]/= [rdy _ _ _]/= divS_rec ?sx //; congr (_ * (_ - _)).
by case: Hinv => _ lo _; apply: eq_sumn_f => c lt_c; rewrite lo.
Qed.
Theorem div_direct_aliasX x y out : size x = size out -> size y = size out -> div_direct AliasX x y out = divS out y.
Proof.
move=> sx sy; apply: (@div_inv_end _ out); first by rewrite size_divS.
rewrite /div_direct; apply: (@div_direct_loop_inv (div_inv (divS out y) out) _ _ _ (size out)); [|by rewrite add0n|exact: div_inv0].
move=> d o lt_d Hinv; apply: div_inv_step => //.
rewrite /div_val [rdx _ _ _]/= [rdy _ _ _]/= divS_rec //.
case: Hinv => _ lo hi; rewrite hi //; congr (_ * (_ - _)).
by apply: eq_sumn_f => c lt_c; rewrite lo.
Qed.

(* a sum whose only nonzero term is the first one *)
Lemma sumn_f_first d (f : nat -> K) : (forall c, (0 < c <= d)%N -> f c = 0) -> sumn_f d.+1 f = f 0%N.
Proof.
elim: d => [|d IH] H; first by rewrite /= add0r.
rewrite [sumn_f _ _]/= -/(sumn_f d.+1 f) IH; last first.
  by move=> c /andP[c0 lt_c]; apply: H; rewrite c0 ltnW.
by rewrite (H d.+1) ?addr0 //= leqnn.
Qed.

Lemma nth_constS1 D c : (c < D)%N -> (constS (1 : K) D)`_c = if c == 0%N then 1 else 0.
Proof. by move=> lt_c; rewrite /constS nth_mkseq. Qed.

Lemma divS_self out : out`_0 != 0 -> divS out out = constS 1 (size out).
Proof.
move=> nz; apply: (@eq_from_nth _ 0); first by rewrite size_divS /constS size_mkseq.
move=> d; rewrite size_divS; elim/ltn_ind: d => d IH lt_d.
rewrite divS_rec // nth_constS1 //; case: d IH lt_d => [|d] IH lt_d.
  by rewrite [sumn_f _ _]/= subr0 mulVf.
have lt0 : (0 < size out)%N by apply: leq_ltn_trans lt_d.
rewrite sumn_f_first.
  by rewrite IH // nth_constS1 //= mul1r subn0 subrr mulr0.
move=> c /andP[c0 le_c]; have lt_c : (c < size out)%N by apply: leq_ltn_trans lt_d; apply: ltnW.
by rewrite IH // nth_constS1 // eqn0Ngt c0 /= mul0r.
Qed.

Lemma div_direct_self out : out`_0 != 0 -> div_direct AliasXY out out out = constS 1 (size out).
Proof.
move=> nz; apply: (@div_inv_end _ out); first by rewrite /constS size_mkseq.
rewrite /div_direct; apply: (@div_direct_loop_inv (div_inv (constS 1 (size out)) out) _ _ _ (size out)); [|by rewrite add0n|exact: div_inv0].
move=> d o lt_d Hinv; apply: div_inv_step => //.
rewrite /div_val [rdx _ _ _]/= [rdy _ _ _]/= nth_constS1 //.
case: Hinv => _ lo hi; case: d lt_d lo hi => [|d] lt_d lo hi.
  by rewrite [sumn_f _ _]/= hi // subr0 mulVf.
have lt0 : (0 < size out)%N by apply: leq_ltn_trans lt_d.
have o0 : o`_0 = 1 by rewrite lo // nth_constS1.
rewrite sumn_f_first; first by rewrite o0 invr1 !mul1r subn0 subrr.
move=> c /andP[c0 le_c]; have lt_c : (c < size out)%N by apply: leq_ltn_trans lt_d; apply: ltnW.
by rewrite lo // nth_constS1 // eqn0Ngt c0 /= mul0r.
Qed.
End InPlaceDiv.

(* T3: when the DENOMINATOR aliases the output (x /= view of x, x = y) the direct loop is wrong: kernel-checked witness over Qc *)
Theorem div_direct_aliasY_refuted :
  exists (x out : seq Qc_fieldType), size x = size out /\ (div_direct AliasY x out out == divS x out) = false.
Proof. by exists [:: qz 1 1; qz 1 1; qz 1 1], [:: qz 2 1; qz 1 1; qz 1 1]; split; vm_compute. Qed.
(* T4: the obvious probe x /= x does NOT reveal the missing temporary: with both operands aliasing the output the direct loop returns the
   constant series 1, which is the right quotient (so a check that only tries x /= x passes on the defective code) *)
Theorem div_direct_aliasXY_lucky (K : fieldType) (out : seq K) : out`_0 != 0 ->
  div_direct AliasXY out out out = constS 1 (size out) /\ divS out out = constS 1 (size out).
Proof. by move=> nz; split; [apply: div_direct_self | apply: divS_self]. Qed.

