(* The hand-written reverse-mode ("pullback") rule of AlgoPy's SYMMETRIC EIGENVALUE DECOMPOSITION with distinct
   eigenvalues (algopy/utpm/algorithms.py UTPM._eigh_pullback),
       H[m,n] = 1/(lam_n - lam_m)  (m != n),   H[m,m] = 0,
       Abar   = Q (diag(lambar) + H .* (Q^T Qbar)) Q^T            (.* the element-wise product),
   is the ADJOINT of the differential of the decomposition, for the pairing  <A, B> = tr (A^T B)  of MatPullback.v.
   As in MatPullbackFact.v the differential is defined implicitly, by the linearised constraints
       dA Q + A dQ = dQ Lam + Q dLam,    Q^T dQ antisymmetric,    dLam diagonal,
   and the theorem quantifies over ALL tangent tuples (dA, dQ, dLam) satisfying them.  The reciprocals in H are given by
   their defining equations H i j * (Lam j j - Lam i i) = 1, never computed.  The eigenvalues are kept as a DIAGONAL
   MATRIX Lam (is_diagM Lam, Eigh.v), and so are their tangent dLam and their adjoint Lambar (the adjoint lambar of the
   eigenvalue vector placed on the diagonal, cls._diag(lambar_data)).
   2 != 0 is needed: it makes the diagonal of the antisymmetric matrix Q^T dQ vanish (in characteristic 2 the tuple
   dA = 0, dQ = Q, dLam = 0 satisfies all constraints, and <Qbar, Q> is not 0 in general).
   The symmetry of dA is NOT a hypothesis: it follows from the constraints (eigh_dA_sym). *)
From mathcomp Require Import all_ssreflect all_algebra.
From AlgoV Require Import Sums Series Matrix MatrixFact MatrixSpec MatPullback FactSpec MatPullbackFact Eigh.
Set Implicit Arguments. Unset Strict Implicit. Unset Printing Implicit Defensive.
Import GRing.Theory.
Local Open Scope ring_scope.

Section MatPullbackEigh.
Variable K : fieldType.
Variable n : nat.
Notation M := 'M[K]_n.
Hypothesis char2 : (2%:R : K) != 0.

(* ===== products with a diagonal matrix, entry by entry ===== *)
Lemma mul_diagl (D X : M) i j : is_diagM D -> (D *m X) i j = D i i * X i j.
Proof.
move=> HD; rewrite mxE (bigD1 i) //= big1 ?addr0 // => k ki.
by rewrite HD ?mul0r // eq_sym.
Qed.

Lemma mul_diagr (D X : M) i j : is_diagM D -> (X *m D) i j = X i j * D j j.
Proof.
move=> HD; rewrite mxE (bigD1 j) //= big1 ?addr0 // => k kj.
by rewrite HD ?mulr0.
Qed.

(* the diagonal of an antisymmetric matrix vanishes *)
Lemma antisym_diag0 (Om : M) i : Om^T = - Om -> Om i i = 0.
Proof.
move=> /matrixP /(_ i i); rewrite !mxE => /eqP; rewrite -addr_eq0 => /eqP E.
have : 2%:R * Om i i = 0 by rewrite mulr_natl mulr2n.
by move/eqP; rewrite mulf_eq0 (negbTE char2) /= => /eqP.
Qed.

(* a diagonal matrix only sees the diagonal of the other argument *)
Lemma ip_diag_diagpart (D X : M) : is_diagM D -> ip D (diagpartM X) = ip D X.
Proof.
move=> HD; rewrite ![ip D _]ipC; apply: ip_ext => i j; rewrite mxE.
by case: (altP (i =P j)) => // ne_ij; rewrite HD // !mulr0.
Qed.

(* ===== the decomposition  A Q = Q Lam  and its tangents ===== *)
Variables A Q Lam H : M.
Hypothesis QtQ : Q^T *m Q = 1%:M.
Hypothesis QQt : Q *m Q^T = 1%:M.
Hypothesis HLam : is_diagM Lam.
Hypothesis AQ : A *m Q = Q *m Lam.
Hypothesis HH : forall i j, i != j -> H i j * (Lam j j - Lam i i) = 1.
Hypothesis HH0 : forall i, H i i = 0.

Variables dA dQ dLam : M.
Hypothesis HOm : (Q^T *m dQ)^T = - (Q^T *m dQ).
Hypothesis HdLam : is_diagM dLam.
Hypothesis lin : dA *m Q + A *m dQ = dQ *m Lam + Q *m dLam.

Let Om : M := Q^T *m dQ.
Let S : M := Q^T *m dA *m Q.

Lemma eigh_dQE : dQ = Q *m Om.
Proof. by rewrite /Om mulmxA QQt mul1mx. Qed.

(* the linearised eigen-equation in the eigenbasis *)
Lemma eigh_lin_basis : S + Lam *m Om = Om *m Lam + dLam.
Proof.
have := congr1 (mulmx Q^T) lin; rewrite !mulmxDr !mulmxA QtQ mul1mx -/S -/Om => <-.
have -> : Q^T *m A = Lam *m Q^T.
  by rewrite -[Q^T *m A]mulmx1 -QQt mulmxA -[Q^T *m A *m Q]mulmxA AQ mulmxA QtQ mul1mx.
by [].
Qed.

Lemma eigh_lin_entry i j : S i j + Lam i i * Om i j = Om i j * Lam j j + dLam i j.
Proof.
have /matrixP /(_ i j) := eigh_lin_basis.
by rewrite [(S + _) i j]mxE [(_ + dLam) i j]mxE (mul_diagl Om i j HLam) (mul_diagr Om i j HLam).
Qed.

(* --- the tangents are determined by dA: this justifies the description of the differential --- *)
Lemma eigh_dLam_diag i : dLam i i = S i i.
Proof.
apply: (@addrI _ (Om i i * Lam i i)); rewrite -eigh_lin_entry addrC; congr (_ + _).
exact: mulrC.
Qed.

Lemma eigh_Om_offdiag i j : i != j -> Om i j = H i j * S i j.
Proof.
move=> ne_ij; have E := eigh_lin_entry i j; rewrite HdLam // addr0 in E.
have -> : S i j = Om i j * (Lam j j - Lam i i) by rewrite mulrBr -E [Om i j * Lam i i]mulrC addrK.
by rewrite mulrCA HH // mulr1.
Qed.

Lemma eigh_Om_diag i : Om i i = 0.
Proof. exact: antisym_diag0. Qed.

Theorem eigh_dLam_unique : dLam = diagpartM (Q^T *m dA *m Q).
Proof.
apply/matrixP => i j; rewrite mxE; case: (altP (i =P j)) => [<-|ne_ij]; first exact: eigh_dLam_diag.
exact: HdLam.
Qed.

Theorem eigh_dQ_unique i j : i != j -> (Q^T *m dQ) i j = H i j * (Q^T *m dA *m Q) i j.
Proof. exact: eigh_Om_offdiag. Qed.

Theorem eigh_dQ_unique_mx : Q^T *m dQ = hadM H (Q^T *m dA *m Q).
Proof.
apply/matrixP => i j; rewrite [RHS]mxE; case: (altP (i =P j)) => [<-|ne_ij]; last exact: eigh_Om_offdiag.
by rewrite eigh_Om_diag HH0 mul0r.
Qed.

(* the tangent of A is then necessarily symmetric *)
Theorem eigh_dA_sym : dA^T = dA.
Proof.
have SE : S = dLam + (Om *m Lam - Lam *m Om).
  by rewrite addrCA addrA -eigh_lin_basis addrK.
have HS : S^T = S.
  have Dt (D : M) : is_diagM D -> D^T = D.
    move=> HD; apply/matrixP => i j; rewrite mxE; case: (altP (i =P j)) => [->//|ne_ij].
    by rewrite !HD // eq_sym.
  have HOm' : Om^T = - Om := HOm.
  rewrite [in LHS]SE linearD /= linearB /= (trmx_mul Om Lam) (trmx_mul Lam Om) HOm' (Dt _ HLam) (Dt _ HdLam) [RHS]SE.
  by rewrite mulmxN mulNmx opprK [- _ + _]addrC.
have -> : dA = Q *m S *m Q^T.
  by rewrite /S !mulmxA QQt mul1mx -mulmxA QQt mulmx1.
by rewrite trmx_mul trmxK (trmx_mul Q S) HS mulmxA.
Qed.

(* ===== the pullback rule is the adjoint ===== *)
(* UTPM._eigh_pullback:  tmp1 = dot(Q.T, Qbar) * H + diag(lambar);  Abar = dot(dot(Q, tmp1), Q.T) *)
Theorem pb_eigh_adjoint (Lambar Qbar : M) : is_diagM Lambar ->
  ip Lambar dLam + ip Qbar dQ = ip (Q *m (Lambar + hadM H (Q^T *m Qbar)) *m Q^T) dA.
Proof.
move=> HLb.
have -> : ip (Q *m (Lambar + hadM H (Q^T *m Qbar)) *m Q^T) dA = ip (Lambar + hadM H (Q^T *m Qbar)) S.
  by rewrite /S ip_mull ip_mulr trmxK !mulmxA.
rewrite ipDl; congr (_ + _).
  by rewrite eigh_dLam_unique ip_diag_diagpart.
rewrite [in LHS]eigh_dQE ip_mulr -/Om !ipE; apply: eq_bigr => i _; apply: eq_bigr => j _.
rewrite [hadM _ _ i j]mxE; case: (altP (i =P j)) => [<-|ne_ij].
  by rewrite eigh_Om_diag HH0 mulr0 !mul0r.
by rewrite eigh_Om_offdiag // mulrCA mulrA.
Qed.

End MatPullbackEigh.
