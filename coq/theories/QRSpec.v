From mathcomp Require Import all_ssreflect all_algebra.
From AlgoV Require Import Sums Series Matrix MatrixFact.
Set Implicit Arguments. Unset Strict Implicit. Unset Printing Implicit Defensive.
Import GRing.Theory.
Local Open Scope ring_scope.

(* QR factorization in Taylor arithmetic (qrM): Q(t) R(t) = A(t), Q(t)^T Q(t) = I modulo t^D, every R_d upper triangular *)
Local Arguments mkseq : simpl never.
Local Arguments iota : simpl never.

Section UnfoldTFacts.
Variable T : Type.
Variable x0 : T.
Variables (step : seq T -> T) (y0 : T).

Lemma size_unfoldT k : size (unfoldT step y0 k) = k.+1.
Proof. by elim: k => //= k IH; rewrite size_rcons IH. Qed.

Definition tcoef d : T := nth x0 (unfoldT step y0 d) d.

Lemma nth_unfoldT k d : (d <= k)%N -> nth x0 (unfoldT step y0 k) d = tcoef d.
Proof.
elim: k => [|k IH]; first by rewrite leqn0 => /eqP->.
rewrite leq_eqVlt => /orP[/eqP-> //|]; rewrite ltnS => le_dk.
by rewrite /= nth_rcons size_unfoldT ltnS le_dk IH.
Qed.

Lemma unfoldT_mkseq k : unfoldT step y0 k = mkseq tcoef k.+1.
Proof.
apply: (@eq_from_nth _ x0); rewrite size_unfoldT ?size_mkseq // => i; rewrite ltnS => le_i.
by rewrite nth_unfoldT // nth_mkseq.
Qed.

Lemma tcoef0 : tcoef 0 = y0. Proof. by []. Qed.
Lemma tcoefS d : tcoef d.+1 = step (mkseq tcoef d.+1).
Proof. by rewrite /tcoef /= nth_rcons size_unfoldT ltnn eqxx unfoldT_mkseq. Qed.

Lemma size_seriesT D : size (seriesT step y0 D) = D.
Proof. by case: D => //= k; rewrite size_unfoldT. Qed.

Lemma nth_seriesT D d : (d < D)%N -> nth x0 (seriesT step y0 D) d = tcoef d.
Proof. by case: D => // k; rewrite ltnS /=; apply: nth_unfoldT. Qed.
End UnfoldTFacts.

Section QRSpec.
Variable K : fieldType.
Variable n : nat.
Notation M := 'M[K]_n.
Hypothesis char2 : (2%:R : K) != 0.

Lemma foldl_addE (f : nat -> M) (a : M) (s : seq nat) :
  foldl (fun acc c => addM acc (f c)) a s = a + \sum_(c <- s) f c.
Proof.
elim: s a => [|c s IH] a /=; first by rewrite big_nil addr0.
by rewrite IH big_cons /addM addrA.
Qed.

Lemma foldl_subE (f : nat -> M) (a : M) (s : seq nat) :
  foldl (fun acc c => subM acc (f c)) a s = a - \sum_(c <- s) f c.
Proof.
elim: s a => [|c s IH] a /=; first by rewrite big_nil subr0.
by rewrite IH big_cons /subM opprD addrA.
Qed.

Lemma halfM_double (B : M) : halfM B + halfM B = B.
Proof.
rewrite /halfM -scalerDl -[X in X + X]mul1r -mulrDl -[1 + 1]/(2%:R) divff //.
by rewrite scale1r.
Qed.

Lemma halfM_tr (B : M) : (halfM B)^T = halfM B^T.
Proof. by rewrite /halfM linearZ. Qed.

Lemma is_upper_mul (A B : M) : is_upper A -> is_upper B -> is_upper (A *m B).
Proof.
move=> uA uB i j lt_ji; rewrite mxE; apply: big1 => k _.
case: (ltnP k i) => [lt_ki|le_ik]; first by rewrite uA // mul0r.
by rewrite (uB k j) ?mulr0 //; apply: leq_trans le_ik.
Qed.

Lemma qr_core (Q0 R0 Rinv H dG : M) :
  Q0^T *m Q0 = 1%:M -> is_upper R0 -> R0 *m Rinv = 1%:M -> dG^T = dG ->
  let S := halfM dG in
  let X0 := tril1M (Q0^T *m H *m Rinv - S) in
  let X := X0 - X0^T in
  let Kk := S + X in
  let RD := Q0^T *m H - Kk *m R0 in
  let QD := Q0 *m Kk in
  [/\ Q0 *m RD + QD *m R0 = H, Q0^T *m QD + QD^T *m Q0 = dG & is_upper RD].
Proof.
move=> QtQ uR0 RRi dGs S X0 X Kk RD QD.
have QQt : Q0 *m Q0^T = 1%:M by apply: mulmx1C.
have RiR : Rinv *m R0 = 1%:M by apply: mulmx1C.
split.
- by rewrite /RD /QD mulmxBr !mulmxA QQt mul1mx subrK.
- rewrite /QD trmx_mul mulmxA QtQ mul1mx -mulmxA QtQ mulmx1.
  have St : S^T = S by rewrite /S halfM_tr dGs.
  have Xt : X^T = - X by rewrite /X raddfB /= trmxK opprB.
  by rewrite /Kk raddfD /= St Xt addrACA subrr addr0 halfM_double.
- have -> : RD = (RD *m Rinv) *m R0 by rewrite -mulmxA RiR mulmx1.
  apply: is_upper_mul => // i j lt_ji.
  rewrite /RD mulmxBl -[Kk *m R0 *m Rinv]mulmxA RRi mulmx1 /Kk /X /X0 !mxE lt_ji.
  by rewrite ltnNge (ltnW lt_ji) /= subr0 [_ + (_ - _)]addrC subrK subrr.
Qed.


Lemma dG_sym (Qf : nat -> M) N :
  (\sum_(1 <= c < N) (Qf c)^T *m Qf (N - c)%N)^T = \sum_(1 <= c < N) (Qf c)^T *m Qf (N - c)%N.
Proof.
rewrite raddf_sum /= [RHS]big_nat_rev /=; apply: eq_big_nat => c /andP[c1 cN].
by rewrite trmx_mul trmxK add1n subSS subKn // ltnW.
Qed.

Lemma qr_stepE (A : seq M) (Q0 R0 Rinv : M) (cf : nat -> M * M) D :
  qr_step (@mulM K n) (@addM K n) (@subM K n) (@trM K n) 0 (@tril1M K n) (@halfM K n) A Q0 R0 Rinv (mkseq cf D.+1) =
  let dF := \sum_(1 <= c < D.+1) (cf c).1 *m (cf (D.+1 - c)%N).2 in
  let dG := - \sum_(1 <= c < D.+1) ((cf c).1)^T *m (cf (D.+1 - c)%N).1 in
  let H := A`_D.+1 - dF in
  let S := halfM dG in
  let X0 := tril1M (Q0^T *m H *m Rinv - S) in
  let X := X0 - X0^T in
  let Kk := S + X in
  (Q0 *m Kk, Q0^T *m H - Kk *m R0).
Proof.
rewrite /qr_step size_mkseq !foldl_addE !add0r !sumrN.
have -> : iota 1 D.+1.-1 = index_iota 1 D.+1 by rewrite /index_iota subn1.
have -> : \sum_(1 <= c < D.+1) mulM (nth (0, 0) (mkseq cf D.+1) c).1 (nth (0, 0) (mkseq cf D.+1) (D.+1 - c)).2
        = \sum_(1 <= c < D.+1) (cf c).1 *m (cf (D.+1 - c)%N).2.
  apply: eq_big_nat => c /andP[c1 cD].
  by rewrite !nth_mkseq // ltn_subrL c1.
have -> : \sum_(1 <= c < D.+1) mulM (trM (nth (0, 0) (mkseq cf D.+1) c).1) (nth (0, 0) (mkseq cf D.+1) (D.+1 - c)).1
        = \sum_(1 <= c < D.+1) ((cf c).1)^T *m (cf (D.+1 - c)%N).1.
  apply: eq_big_nat => c /andP[c1 cD].
  by rewrite !nth_mkseq // ltn_subrL c1.
by [].
Qed.

Definition qr_cf (A : seq M) (Q0 R0 Rinv : M) : nat -> M * M :=
  tcoef (0, 0) (qr_step (@mulM K n) (@addM K n) (@subM K n) (@trM K n) 0 (@tril1M K n) (@halfM K n) A Q0 R0 Rinv) (Q0, R0).

Theorem qrM_size (A : seq M) (Q0 R0 Rinv : M) : size (qrM A Q0 R0 Rinv) = size A.
Proof. by rewrite /qrM /qrK size_seriesT. Qed.

Lemma nth_qrM (A : seq M) (Q0 R0 Rinv : M) d : (d < size A)%N ->
  nth (0, 0) (qrM A Q0 R0 Rinv) d = qr_cf A Q0 R0 Rinv d.
Proof. by move=> lt_d; rewrite /qrM /qrK nth_seriesT. Qed.

Lemma qr_cf_spec (A : seq M) (Q0 R0 Rinv : M) :
  Q0^T *m Q0 = 1%:M -> is_upper R0 -> Q0 *m R0 = A`_0 -> R0 *m Rinv = 1%:M ->
  let cf := qr_cf A Q0 R0 Rinv in
  forall d,
  \sum_(c < d.+1) (cf c).1 *m (cf (d - c)%N).2 = A`_d /\
  \sum_(c < d.+1) ((cf c).1)^T *m (cf (d - c)%N).1 = (d == 0%N)%:R%:M /\
  is_upper (cf d).2.
Proof.
move=> QtQ uR0 QR0 RRi cf.
have cf0 : cf 0%N = (Q0, R0) by [].
case=> [|D].
  by rewrite !big_ord_recl !big_ord0 !addr0 subn0 cf0 /=.
have cfS : cf D.+1 = _ := tcoefS _ _ _ D.
rewrite qr_stepE -/(qr_cf A Q0 R0 Rinv) -/cf in cfS.
move: cfS.
set dF := \sum_(1 <= c < D.+1) _.
set sG := \sum_(1 <= c < D.+1) _.
move=> cfS.
have sGs : (- sG)^T = - sG by rewrite raddfN /= dG_sym.
have [] := @qr_core Q0 R0 Rinv (A`_D.+1 - dF) (- sG) QtQ uR0 RRi sGs.
move: cfS => /=.
set Kk := halfM _ + _.
move=> cfS Ea Eb Ec.
split; last split.
- rewrite big_ord_recl big_ord_recr /= subn0 subnn cf0 cfS /=.
  rewrite addrCA addrC Ea /dF big_add1 /= big_mkord.
  by rewrite subrK.
- rewrite big_ord_recl big_ord_recr /= subn0 subnn cf0 cfS /=.
  rewrite addrCA addrC Eb /sG big_add1 /= big_mkord addNr.
  by rewrite raddf0.
- by rewrite cfS.
Qed.

Theorem qrM_spec (A : seq M) (Q0 R0 Rinv : M) :
  Q0^T *m Q0 = 1%:M -> is_upper R0 -> Q0 *m R0 = A`_0 -> R0 *m Rinv = 1%:M ->
  let QR := qrM A Q0 R0 Rinv in
  forall d, (d < size A)%N ->
  \sum_(c < d.+1) (nth (0, 0) QR c).1 *m (nth (0, 0) QR (d - c)).2 = A`_d /\
  \sum_(c < d.+1) ((nth (0, 0) QR c).1)^T *m (nth (0, 0) QR (d - c)).1 = (d == 0%N)%:R%:M /\
  is_upper (nth (0, 0) QR d).2.
Proof.
move=> QtQ uR0 QR0 RRi QR d lt_d.
have [Ea [Eb Ec]] := qr_cf_spec QtQ uR0 QR0 RRi d.
have lt_c (c : 'I_d.+1) : (c < size A)%N by apply: leq_trans (ltn_ord c) lt_d.
have lt_dc (c : 'I_d.+1) : (d - c < size A)%N by apply: leq_ltn_trans lt_d; apply: leq_subr.
split; last split.
- by rewrite -[RHS]Ea; apply: eq_bigr => c _; rewrite /QR !nth_qrM.
- by rewrite -[RHS]Eb; apply: eq_bigr => c _; rewrite /QR !nth_qrM.
- by rewrite /QR nth_qrM.
Qed.
End QRSpec.
