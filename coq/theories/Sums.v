(* Executable finite sums/products (bigop's body is module-sealed and does not reduce under vm_compute)
   with bridge lemmas to \sum_ / \prod_. *)
From mathcomp Require Import all_ssreflect all_algebra.
Set Implicit Arguments. Unset Strict Implicit. Unset Printing Implicit Defensive.
Import GRing.Theory.
Local Open Scope ring_scope.

Section Sums.
Variable R : ringType.

(* sum_{i<n} f i , accumulated in index order like a python loop / numpy.sum over axis 0 *)
Fixpoint sumn_f (n : nat) (f : nat -> R) : R := if n is m.+1 then sumn_f m f + f m else 0.
Fixpoint prodn_f (n : nat) (f : nat -> R) : R := if n is m.+1 then prodn_f m f * f m else 1.
Fixpoint sumf (T : Type) (f : T -> R) (s : seq T) : R := if s is a :: r then f a + sumf f r else 0.
Fixpoint prodf (T : Type) (f : T -> R) (s : seq T) : R := if s is a :: r then f a * prodf f r else 1.

Lemma sumn_fE n (f : nat -> R) : sumn_f n f = \sum_(i < n) f i.
Proof. by elim: n => [|n IH] /=; rewrite ?big_ord0 // big_ord_recr /= IH. Qed.
Lemma prodn_fE n (f : nat -> R) : prodn_f n f = \prod_(i < n) f i.
Proof. by elim: n => [|n IH] /=; rewrite ?big_ord0 // big_ord_recr /= IH. Qed.
Lemma sumfE (T : Type) (f : T -> R) s : sumf f s = \sum_(a <- s) f a.
Proof. by elim: s => [|a s IH] /=; rewrite ?big_nil // big_cons IH. Qed.
Lemma prodfE (T : Type) (f : T -> R) s : prodf f s = \prod_(a <- s) f a.
Proof. by elim: s => [|a s IH] /=; rewrite ?big_nil // big_cons IH. Qed.

Lemma eq_sumn_f n (f g : nat -> R) : (forall i, (i < n)%N -> f i = g i) -> sumn_f n f = sumn_f n g.
Proof.
elim: n => //= n IH H; rewrite IH ?H // => i lt_i; apply: H; exact: ltnW.
Qed.
End Sums.
