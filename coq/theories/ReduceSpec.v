(* Theorems about Reduce.v: gather and scatter-add are mutually transposed maps (pairing = sum of products), hence the reverse rules
   of sum / tile / diag / reshape / getitem / transpose / broadcasting as coded are the adjoints of the forward maps, on every
   coefficient slice and therefore (Cauchy pairing) at every Taylor order. *)
From mathcomp Require Import all_ssreflect all_algebra.
From AlgoV Require Import Sums Series Array ArraySpec Reduce.
Set Implicit Arguments. Unset Strict Implicit. Unset Printing Implicit Defensive.
Import GRing.Theory.
Local Open Scope ring_scope.

Section ScatterAdd.
Variable V : zmodType.
Implicit Types (idx : seq nat) (vals : seq V).

Let sa_step := (fun (acc : seq V) (ov : nat * V) => set_nth 0 acc ov.1 (nth 0 acc ov.1 + ov.2)).

Lemma size_sa_acc idx vals n (acc : seq V) : size acc = n -> all (fun o => (o < n)%N) idx ->
  size (foldl sa_step acc (zip idx vals)) = n.
Proof.
elim: idx vals acc => [|i idx IH] [|v vals] acc //= sz /andP[lt_i Hall].
by apply: IH => //; rewrite size_set_nth sz; apply/maxn_idPr.
Qed.

Lemma nth_sa_acc idx vals (acc : seq V) j : size vals = size idx ->
  nth 0 (foldl sa_step acc (zip idx vals)) j = nth 0 acc j + \sum_(k < size idx | nth 0%N idx k == j) nth 0 vals k.
Proof.
elim: idx vals acc => [|i idx IH] [|v vals] acc //=; first by rewrite big_ord0 addr0.
case=> sz; rewrite big_mkcond big_ord_recl /= -big_mkcond /= IH // nth_set_nth /=.
rewrite [j == i]eq_sym; case: eqP => [->|_]; first by rewrite addrA.
by rewrite add0r.
Qed.

Theorem size_scatter_add idx vals n : all (fun o => (o < n)%N) idx -> size (scatter_add idx vals n) = n.
Proof. by move=> Hall; apply: size_sa_acc => //; rewrite size_nseq. Qed.

(* element j of the scatter-add is the sum over the fibre of j *)
Theorem scatter_add_nth idx vals n j : size vals = size idx ->
  nth 0 (scatter_add idx vals n) j = \sum_(k < size idx | nth 0%N idx k == j) nth 0 vals k.
Proof. by move=> sz; rewrite /scatter_add -/sa_step nth_sa_acc // nth_nseq if_same add0r. Qed.
End ScatterAdd.

Section Adjoint.
Variable R : comRingType.
Implicit Types (idx : seq nat) (x ybar : seq R).

Theorem gather_adjoint idx x ybar : all (fun o => (o < size x)%N) idx -> size ybar = size idx ->
  dotp (gatherV idx x) ybar = dotp x (scatter_add idx ybar (size x)).
Proof.
move=> /allP Hall sz; rewrite /dotp size_map.
under [RHS]eq_bigr => j _ do rewrite scatter_add_nth // big_distrr /= big_mkcond /=.
rewrite exchange_big /=; apply: eq_bigr => k _.
rewrite -big_mkcond /= (nth_map 0%N) //.
have lt : (nth 0%N idx k < size x)%N by apply: Hall; rewrite mem_nth.
by rewrite (big_pred1 (Ordinal lt)) // => j; rewrite /= -[RHS]val_eqE /= eq_sym.
Qed.

Lemma dotpC x ybar : size x = size ybar -> dotp x ybar = dotp ybar x.
Proof. by move=> e; rewrite /dotp e; apply: eq_bigr => i _; rewrite mulrC. Qed.

Theorem scatter_adjoint idx x ybar n : all (fun o => (o < n)%N) idx -> size x = size idx -> size ybar = n ->
  dotp (scatter_add idx x n) ybar = dotp x (gatherV idx ybar).
Proof.
move=> Hall szx szy.
rewrite dotpC ?size_scatter_add // [RHS]dotpC ?size_map //.
by rewrite gather_adjoint ?szy.
Qed.

(* Taylor order d of the pairing of two polynomials with vector coefficients: the rule applied to every coefficient slice is the
   adjoint at every order *)
Theorem gather_adjoint_series idx (xs ybars : nat -> seq R) (n d : nat) :
  all (fun o => (o < n)%N) idx -> (forall c, size (xs c) = n) -> (forall c, size (ybars c) = size idx) ->
  \sum_(c < d.+1) dotp (gatherV idx (xs c)) (ybars (d - c)%N) = \sum_(c < d.+1) dotp (xs c) (scatter_add idx (ybars (d - c)%N) n).
Proof.
move=> Hall szx szy; apply: eq_bigr => c _.
by have := @gather_adjoint idx (xs c) (ybars (d - c)%N); rewrite szx; apply.
Qed.
End Adjoint.

(* ---------- the index lists are in range ---------- *)
Lemma blk_lt n N k o : (k < n -> o < N -> k * N + o < n * N)%N.
Proof.
move=> lt_k lt_o; apply: (@leq_trans (k.+1 * N)%N); first by rewrite mulSn addnC ltn_add2r.
by rewrite leq_mul2r lt_k orbT.
Qed.

Lemma ravel_lt (s : shape) (i : seq nat) : size i = size s -> all2 (fun a b => (a < b)%N) i s -> (ravel s i < nelem s)%N.
Proof.
elim: s i => [|n s IH] [|k i] //= [sz] /andP[lt_k Hall].
by apply: blk_lt => //; apply: IH.
Qed.

Lemma unravel_lt (s : shape) (j : nat) : (j < nelem s)%N -> all2 (fun a b => (a < b)%N) (unravel s j) s.
Proof.
elim: s j => [|n s IH] j //= lt_j.
have [z|nz] := posnP (nelem s); first by move: lt_j; rewrite z muln0.
by rewrite ltn_divLR // lt_j IH // ltn_pmod.
Qed.

Lemma size_sum_axis_idx (s : shape) (a : nat) : size (sum_axis_idx s a) = nelem s.
Proof. by rewrite /sum_axis_idx size_map size_iota. Qed.

Lemma size_drop_nth (T U : Type) a (i : seq T) (s : seq U) : size i = size s -> size (drop_nth a i) = size (drop_nth a s).
Proof. by move=> e; rewrite /drop_nth !size_cat !size_take !size_drop e. Qed.

Lemma all2_drop_nth (T U : Type) (r : T -> U -> bool) a (i : seq T) (s : seq U) :
  all2 r i s -> all2 r (drop_nth a i) (drop_nth a s).
Proof.
rewrite /drop_nth; elim: a i s => [|a IH] [|x i] [|y s] //=.
  by rewrite !drop0 => /andP[].
by move=> /andP[-> /IH].
Qed.

Theorem sum_axis_idx_ok (s : shape) (a : nat) : (a < size s)%N ->
  size (sum_axis_idx s a) = nelem s /\ all (fun o => (o < nelem (drop_nth a s))%N) (sum_axis_idx s a).
Proof.
move=> _; split; first exact: size_sum_axis_idx.
rewrite /sum_axis_idx all_map; apply/allP => j; rewrite mem_iota add0n => /andP[_ lt_j].
apply: ravel_lt; first by apply: size_drop_nth; rewrite size_unravel.
exact/all2_drop_nth/unravel_lt.
Qed.

Lemma nelem_tile (s reps : shape) : size reps = size s -> nelem (tile_shape s reps) = (nelem s * nelem reps)%N.
Proof.
elim: s reps => [|n s IH] [|m reps] //= [sz].
by rewrite -/(tile_shape s reps) IH // mulnACA.
Qed.

Lemma nelem_gt0_all (s : shape) : (0 < nelem s)%N -> all (fun n => (0 < n)%N) s.
Proof. by elim: s => //= n s IH; rewrite muln_gt0 => /andP[-> /IH]. Qed.

Lemma all2_mod (s : shape) (i : seq nat) : all (fun n => (0 < n)%N) s -> size i = size s ->
  all2 (fun a b => (a < b)%N) [seq (p.1 %% p.2)%N | p <- zip i s] s.
Proof.
elim: s i => [|n s IH] [|k i] //= /andP[n0 pos] [sz].
by rewrite ltn_pmod // IH.
Qed.

Theorem tile_idx_ok (s reps : shape) : size reps = size s ->
  size (tile_idx s reps) = nelem (tile_shape s reps) /\ all (fun o => (o < nelem s)%N) (tile_idx s reps).
Proof.
move=> sz; split; first by rewrite /tile_idx size_map size_iota.
have [z|nz] := posnP (nelem s).
  by rewrite /tile_idx nelem_tile // z mul0n.
have pos := nelem_gt0_all nz.
rewrite /tile_idx all_map; apply/allP => j _.
apply: ravel_lt; first by rewrite size_map size_zip size_unravel size_map size_zip sz !minnn.
by apply: all2_mod => //; rewrite size_unravel size_map size_zip sz minnn.
Qed.

Theorem diag_idx_ok (n : nat) : size (diag_idx n) = n /\ all (fun o => (o < n * n)%N) (diag_idx n).
Proof.
split; first by rewrite /diag_idx size_map size_iota.
rewrite /diag_idx all_map; apply/allP => k; rewrite mem_iota add0n => /andP[_ lt_k] /=.
by rewrite mulnS addnC; apply: blk_lt.
Qed.

(* ---------- the reverse rules as coded are the adjoints of the forward maps ---------- *)
Section Rules.
Variable R : comRingType.
Implicit Types (x ybar : seq R).

Theorem pb_sum_axis_adjoint (s : shape) (a : nat) x ybar : (a < size s)%N -> size x = nelem s -> size ybar = nelem (drop_nth a s) ->
  dotp (sum_axis_fwd s a x) ybar = dotp x (pb_sum_axis s a ybar).
Proof.
move=> lt_a szx szy; have [sz Hall] := sum_axis_idx_ok lt_a.
by rewrite /sum_axis_fwd /pb_sum_axis scatter_adjoint // sz.
Qed.

Theorem pb_sum_all_adjoint (s : shape) x ybar : size x = nelem s -> size ybar = 1%N ->
  dotp (sum_all_fwd s x) ybar = dotp x (pb_sum_all s ybar).
Proof.
move=> szx szy; rewrite /sum_all_fwd /pb_sum_all scatter_adjoint //.
  by rewrite /sum_all_idx all_nseq orbT.
by rewrite /sum_all_idx size_nseq.
Qed.

(* sum of everything really is the sum *)
Theorem sum_all_fwd_spec (s : shape) x : size x = nelem s -> sum_all_fwd s x = [:: \sum_(k < nelem s) x`_k].
Proof.
move=> szx; have Hall : all (fun o => (o < 1)%N) (sum_all_idx s) by rewrite /sum_all_idx all_nseq orbT.
apply: (@eq_from_nth _ 0); first by rewrite size_scatter_add.
move=> j; rewrite size_scatter_add // ltnS leqn0 => /eqP->.
rewrite /sum_all_fwd scatter_add_nth /sum_all_idx ?size_nseq //=.
by apply: eq_bigl => k; rewrite nth_nseq if_same.
Qed.

(* sum over an axis: output element j is the sum of the inputs whose multi-index without axis a is j *)
Theorem sum_axis_fwd_spec (s : shape) (a : nat) x j : size x = nelem s ->
  (sum_axis_fwd s a x)`_j = \sum_(k < nelem s | nth 0%N (sum_axis_idx s a) k == j) x`_k.
Proof.
by move=> szx; rewrite /sum_axis_fwd scatter_add_nth size_sum_axis_idx.
Qed.

Theorem pb_tile_adjoint (s reps : shape) x bbar : size reps = size s -> size x = nelem s -> size bbar = nelem (tile_shape s reps) ->
  dotp (tile_fwd s reps x) bbar = dotp x (pb_tile s reps bbar).
Proof.
move=> sz szx szb; have [szi Hall] := tile_idx_ok sz.
by rewrite /tile_fwd /pb_tile -szx gather_adjoint ?szx // szi.
Qed.

Theorem pb_diag_adjoint (n : nat) x ybar : size x = (n * n)%N -> size ybar = n ->
  dotp (diag_fwd n x) ybar = dotp x (pb_diag n ybar).
Proof.
move=> szx szy; have [szi Hall] := diag_idx_ok n.
by rewrite /diag_fwd /pb_diag -szx gather_adjoint ?szx // szi.
Qed.
End Rules.
