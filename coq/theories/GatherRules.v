(* The reverse rules of the VIEW-like operations (basic indexing, transposition by any axis permutation, reshape) as corollaries of
   ReduceSpec.gather_adjoint and of the in-range theorems of C13: the index lists computed by Array.v from the index expression / the
   permutation / the shapes are in range, so scattering the output adjoint back along them is the adjoint of the forward gather, on every
   coefficient slice and hence at every Taylor order.  Because these lists are duplicate free, the scatter-add never accumulates: it is the
   plain write `xbar[sl] = ybar` of UTPM.pb_getitem (the adjoint of a view is the same view of the parent adjoint). *)
From mathcomp Require Import all_ssreflect all_algebra.
From AlgoV Require Import Sums Series Array ArraySpec ArraySpec2 TransposeSpec MiscSpec Reduce ReduceSpec.
Set Implicit Arguments. Unset Strict Implicit. Unset Printing Implicit Defensive.
Import GRing.Theory.
Local Open Scope ring_scope.

Section Rules.
Variable R : comRingType.
Implicit Types (x ybar : seq R).

Theorem pb_getitem_adjoint (ix : seq ixitem) (s : shape) g x ybar : getitem_gather ix s = Some g ->
  size x = nelem s -> size ybar = nelem g.1 ->
  dotp (gatherV g.2 x) ybar = dotp x (scatter_add g.2 ybar (nelem s)).
Proof.
move=> /getitem_gather_ok [_ [Hin Hsz]] Hx Hy.
by rewrite -Hx; apply: gather_adjoint; rewrite ?Hx // Hy Hsz.
Qed.

Theorem pb_transpose_gather_adjoint (perm : seq nat) (s : shape) x ybar : perm_eq perm (iota 0 (size s)) ->
  size x = nelem s -> size ybar = nelem s ->
  let g := transpose_gather perm s in
  dotp (gatherV g.2 x) ybar = dotp x (scatter_add g.2 ybar (nelem s)).
Proof.
move=> Hp Hx Hy g; have Hg := transpose_gather_perm Hp.
rewrite -Hx; apply: gather_adjoint.
  by apply/allP => o; rewrite (perm_mem Hg) mem_iota add0n Hx.
by rewrite Hy (perm_size Hg) size_iota.
Qed.

Theorem pb_reshape_adjoint (ns s : shape) g x ybar : reshape_gather ns s = Some g ->
  size x = nelem s -> size ybar = nelem s ->
  dotp (gatherV g.2 x) ybar = dotp x (scatter_add g.2 ybar (nelem s)).
Proof.
rewrite /reshape_gather; case: ifP => // _ [<-] Hx Hy.
have -> : (ns, iota 0 (nelem s)).2 = iota 0 (size x) by rewrite Hx.
rewrite -Hx; apply: gather_adjoint; last by rewrite Hy size_iota Hx.
by apply/allP => o; rewrite mem_iota add0n.
Qed.
End Rules.

(* a duplicate-free scatter-add is a plain write: the cell of index idx_k receives vals_k and nothing else *)
Theorem scatter_add_uniq (V : zmodType) (idx : seq nat) (vals : seq V) n k : uniq idx -> size vals = size idx -> (k < size idx)%N ->
  nth 0 (scatter_add idx vals n) (nth 0%N idx k) = nth 0 vals k.
Proof.
move=> Hu Hs Hk; rewrite scatter_add_nth // (bigD1 (Ordinal Hk)) //= big1 ?addr0 // => i /andP [/eqP Hi Hne].
case/negP: Hne; apply/eqP/val_inj => /=.
by move/eqP: Hi; rewrite nth_uniq // => /eqP.
Qed.
