(* MODEL of the conversion helpers: utils.py (utpm2dirs, utpm2base_and_dirs, base_and_dirs2utpm, symvec, vecsym,
   piv2mat, piv2det) and utpm.py (as_utpm, shift). *)
From mathcomp Require Import all_ssreflect all_algebra.
From AlgoV Require Import Sums Series Array.
Set Implicit Arguments. Unset Strict Implicit. Unset Printing Implicit Defensive.
Import GRing.Theory.

(* ---------- axis permutations between (D,P)+shp and shp+(P,D) ---------- *)
(* utpm2dirs: axes = (2,...,n-1, 1, 0) ; base_and_dirs2utpm: axes = (n-1, n-2, 0, ..., n-3) *)
Definition utpm2dirs_perm (rank : nat) : seq nat := iota 2 (rank - 2) ++ [:: 1; 0].
Definition dirs2utpm_perm (rank : nat) : seq nat := [:: rank.-1; rank.-2] ++ iota 0 (rank - 2).
Definition utpm2dirs_gather (s : shape) : gather := transpose_gather (utpm2dirs_perm (size s)) s.
Definition dirs2utpm_gather (s : shape) : gather := transpose_gather (dirs2utpm_perm (size s)) s.
(* composition of two gathers: first g1 on the source, then g2 on the result *)
Definition gather_comp (g1 g2 : gather) : seq nat := [seq nth 0 g1.2 o | o <- g2.2].

(* ---------- pivots ---------- *)
Definition swap_at (T : Type) (x0 : T) (s : seq T) (i j : nat) : seq T :=
  set_nth x0 (set_nth x0 s i (nth x0 s j)) j (nth x0 s i).
(* utils.py:163  swap = arange(N); for i: swap[i], swap[piv[i]] = swap[piv[i]], swap[i] *)
Fixpoint swaps_loop (T : Type) (x0 : T) (piv : seq nat) (i : nat) (s : seq T) : seq T :=
  if piv is p :: piv' then swaps_loop x0 piv' i.+1 (swap_at x0 s i p) else s.
Definition piv2swap (piv : seq nat) : seq nat := swaps_loop 0 piv 0 (iota 0 (size piv)).
(* LAPACK getrf's meaning of a pivot vector: row i was interchanged with row piv[i], for i = 0, 1, ... *)
Definition apply_swaps (T : Type) (x0 : T) (piv : seq nat) (rows : seq T) : seq T := swaps_loop x0 piv 0 rows.

Section Piv.
Variable K : fieldType.
Local Open Scope ring_scope.
(* numpy.eye(N)[:, swap]: entry (r,c) is 1 iff r = swap[c] *)
Definition piv2mat (piv : seq nat) : seq (seq K) :=
  let N := size piv in let sw := piv2swap piv in
  [seq [seq ((r == nth 0%N sw c)%:R : K) | c <- iota 0 N] | r <- iota 0 N].
(* (-1)**(sum(piv != arange(N)) % 2) *)
Definition piv2det (piv : seq nat) : K :=
  (-1) ^+ ((count (fun i => nth 0%N piv i != i) (iota 0 (size piv))) %% 2).

(* ---------- symvec / vecsym (utils.py:84-160): row-wise enumeration of the upper triangle ---------- *)
Definition tri (N : nat) : seq (nat * nat) := flatten [seq [seq (r, c) | c <- iota r (N - r)] | r <- iota 0 N].
Definition mget (A : seq (seq K)) (r c : nat) : K := nth 0 (nth [::] A r) c.
Inductive uplo := UF | UL | UU.
Definition symvec (u : uplo) (N : nat) (A : seq (seq K)) : seq K :=
  [seq (match u with
        | UF => 2%:R^-1 * (mget A rc.1 rc.2 + mget A rc.2 rc.1)
        | UL => mget A rc.2 rc.1
        | UU => mget A rc.1 rc.2 end) | rc <- tri N].
(* N = (int(sqrt(1 + 8*Nv)) - 1)//2 is an argument here; A[row,col] = A[col,row] = v[count] *)
Definition vecsym (N : nat) (v : seq K) : seq (seq K) :=
  [seq [seq nth 0 v (index (minn r c, maxn r c) (tri N)) | c <- iota 0 N] | r <- iota 0 N].

(* ---------- shift (utpm.py:1628) on one series ---------- *)
Definition shiftS (s : nat) (neg : bool) (x : seq K) : seq K :=
  let D := size x in
  if neg then drop s x ++ nseq (minn s D) 0          (* out[:-s] = x[s:] *)
  else if s is 0 then x                               (* s <= 0 branch with s = 0: out[:0] = x[0:]  -- copies nothing *)
  else nseq (minn s D) 0 ++ take (D - s) x.           (* out[s:] = x[:-s] *)
End Piv.
