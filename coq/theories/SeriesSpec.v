(* PROOFS: each recurrence of Series.v returns the coefficients of the formal composition
   F o (x - x_0), for EVERY polynomial F that satisfies f's defining differential-algebraic relation up to
   the needed order, every input series and every D.  Specification side: mathcomp poly.v (comp_poly,
   deriv, coefM) -- no recurrence in it. *)
From mathcomp Require Import all_ssreflect all_algebra.
From AlgoV Require Import Sums Series SeriesBase.
Set Implicit Arguments. Unset Strict Implicit. Unset Printing Implicit Defensive.
Import GRing.Theory.
Local Open Scope ring_scope.
Local Arguments mkseq : simpl never.

Section Spec.
Variable K : fieldType.
Hypothesis char0 : forall n, (n.+1)%:R != 0 :> K.
Implicit Types (F G : {poly K}) (xs : seq K).

Lemma series1_nth step (y0 : K) xs d : (d < size xs)%N ->
  (series1 step y0 xs)`_d = ucoef step y0 d.
Proof.
case: xs => // a xs; rewrite /series1 [size _]/= ltnS => le_d.
by rewrite nth_unfold1.
Qed.

Lemma series2_nth stepy stepz (y0 z0 : K) xs d : (d < size xs)%N ->
  (series2 stepy stepz y0 z0 xs).1`_d = ucoefy stepy stepz y0 z0 d /\
  (series2 stepy stepz y0 z0 xs).2`_d = ucoefz stepy stepz y0 z0 d.
Proof.
case: xs => // a xs; rewrite /series2 [size _]/= ltnS => le_d.
exact: nth_unfold2.
Qed.

Lemma size_series1 step (y0 : K) xs : size (series1 step y0 xs) = size xs.
Proof. by case: xs => // a xs; rewrite /series1 size_unfold1. Qed.

(* reindexing  sum_{j<n} f (n-1-j) = sum_{i<n} f i *)
Lemma sum_rev n (f : nat -> K) : \sum_(j < n) f (n.-1 - j)%N = \sum_(i < n) f i.
Proof.
case: n => [|n]; first by rewrite !big_ord0.
rewrite [RHS](reindex_inj rev_ord_inj) /=; apply: eq_bigr => j _.
by rewrite subSS.
Qed.

(* ---------------- exp ---------------- *)
Theorem expS_spec F xs :
  (forall d, (d.+1 < size xs)%N -> F^`()`_d = F`_d) ->
  forall d, (d < size xs)%N ->
  (F \Po shift0 (Poly xs))`_d = (expS xs F`_0)`_d.
Proof.
move=> HF d lt_d; rewrite /expS series1_nth //.
set x := Poly xs; set u := shift0 x; have u0 : u`_0 = 0 by exact: shift0_0.
elim/ltn_ind: d lt_d => -[_ _|d IH lt_d]; first by rewrite coef0_comp.
apply: (mulIf (char0 d)).
rewrite mulr_natr -coef_deriv coef_deriv_comp deriv_shift0.
rewrite coefM ucoefS /exp_step -/(exp_step xs) size_mkseq sumn_fE divfK ?char0 //.
rewrite [LHS](reindex_inj rev_ord_inj); apply: eq_bigr => j _.
have le_j : (j <= d)%N by rewrite -ltnS.
rewrite [val (rev_ord j)]/= subSS subKn // coef_deriv coef_Poly mulr_natr.
have lt_dj : (d - j < d.+1)%N by rewrite ltnS leq_subr.
have lt_dj2 : (d - j < size xs)%N by apply: leq_trans lt_dj (ltnW lt_d).
rewrite nth_mkseq // [d.+1.-1]/= -IH //.
congr (_ * _); apply: coef_comp_low => // i le_i; apply: HF.
by apply: leq_ltn_trans lt_d; rewrite ltnS; apply: leq_trans le_i _; rewrite leq_subr.
Qed.

End Spec.
