(* The raw factorization kernels of Matrix.v instantiated with mathcomp matrices 'M[K]_n (specification carrier). *)
From mathcomp Require Import all_ssreflect all_algebra.
From AlgoV Require Import Sums Series Matrix.
Set Implicit Arguments. Unset Strict Implicit. Unset Printing Implicit Defensive.
Import GRing.Theory.
Local Open Scope ring_scope.

Section MxInst.
Variable K : fieldType.
Variable n : nat.
Notation M := 'M[K]_n.
Definition triuM (A : M) : M := \matrix_(i, j) (if (i <= j)%N then A i j else 0).
Definition tril1M (A : M) : M := \matrix_(i, j) (if (j < i)%N then A i j else 0).
Definition lowhalfM (A : M) : M :=
  \matrix_(i, j) (if (j < i)%N then A i j else if i == j then 2%:R^-1 * A i j else 0).
Definition halfM (A : M) : M := 2%:R^-1 *: A.
Definition fixdiagM (L0 dF LD : M) : M :=
  \matrix_(i, j) (if i == j then - (2%:R^-1) * L0 i i * dF i i else LD i j).
Definition mulM (A B : M) : M := A *m B.
Definition addM (A B : M) : M := A + B.
Definition subM (A B : M) : M := A - B.
Definition negM (A : M) : M := - A.
Definition trM (A : M) : M := A^T.

Definition cholM (A : seq M) (L0 L0inv : M) : seq M :=
  cholK mulM addM subM negM trM 0 lowhalfM fixdiagM A L0 L0inv.
Definition luM (wT : M) (A : seq M) (L0 U0 L0inv U0inv : M) : seq (M * M) :=
  luK mulM addM subM 0 triuM tril1M wT A L0 U0 L0inv U0inv.
Definition qrM (A : seq M) (Q0 R0 Rinv : M) : seq (M * M) :=
  qrK mulM addM subM trM 0 tril1M halfM A Q0 R0 Rinv.

(* structure predicates *)
Definition is_lower (A : M) : Prop := forall i j : 'I_n, (i < j)%N -> A i j = 0.
Definition is_upper (A : M) : Prop := forall i j : 'I_n, (j < i)%N -> A i j = 0.
Definition is_strict_lower (A : M) : Prop := forall i j : 'I_n, (i <= j)%N -> A i j = 0.
Definition is_unit_lower (A : M) : Prop := is_lower A /\ forall i : 'I_n, A i i = 1.
End MxInst.
