(* Executable counterparts of the FACTORIZATION pullback rules (pb_lu, _pb_cholesky, _qr_rectangular_pullback for square full-rank
   matrices, _eigh_pullback for distinct eigenvalues) over the list-matrix Taylor-series model of Matrix.v: the formulas proved
   adjoint in MatPullbackFact.v / MatPullbackEigh.v with every product replaced by the truncated Cauchy product, masks and
   transpositions applied to every coefficient, and the inverses taken as series inverses (solveU / invU from the base inverse). *)
From Coq Require Import ZArith QArith Qcanon.
From mathcomp Require Import all_ssreflect all_algebra.
From AlgoV Require Import QcField Sums Series Matrix MatPullbackExec.
Set Implicit Arguments. Unset Strict Implicit. Unset Printing Implicit Defensive.
Import GRing.Theory.
Local Open Scope ring_scope.

Section PullbackExec2.
Variable K : fieldType.
Implicit Types (x y A L U Q R W : seq (mx K)).

Definition map2U (f : mx K -> mx K -> mx K) x y : seq (mx K) := [seq f ab.1 ab.2 | ab <- zip x y].
Definition addU (n m : nat) x y := map2U (madd n m) x y.
Definition subU (n m : nat) x y := map2U (msub n m) x y.
Definition tril1U (n : nat) x : seq (mx K) := [seq mtril1 n n A | A <- x].
Definition triuU (n : nat) x : seq (mx K) := [seq mtriu n n 0 A | A <- x].
Definition scaleU (n m : nat) (c : K) x : seq (mx K) := [seq mscale n m c A | A <- x].
(* strictly lower part + half the diagonal, coefficientwise *)
Definition lowhalfU (n : nat) x : seq (mx K) :=
  [seq mkmx n n (fun i j => if (j < i)%N then mxget A i j else if i == j then 2%:R^-1 * mxget A i j else 0) | A <- x].

(* W L U = A (W a constant permutation matrix):  v1 = tril1(L^T Lbar) + triu(Ubar U^T);  v2 = solve(L^T, v1);  v3 = solve(U, v2^T)^T;
   Abar = W v3.   LinvT0 = inverse of L_0^T, Uinv0 = inverse of U_0 *)
Definition pb_luU (n : nat) (Wm : mx K) L U (LinvT0 Uinv0 : mx K) Lbar Ubar : seq (mx K) :=
  let v1 := addU n n (tril1U n (dotU n n n (trU n n L) Lbar)) (triuU n (dotU n n n Ubar (trU n n U))) in
  let v2 := solveU n n (trU n n L) LinvT0 v1 in
  let v3 := trU n n (solveU n n U Uinv0 (trU n n v2)) in
  dotU_constl n n n Wm v3.

(* A = L L^T:  Abar = L^-T sym(lowhalf(L^T Lbar)) L^-1 ;  Linv0 = inverse of L_0 *)
Definition pb_cholU (n : nat) L (Linv0 : mx K) Lbar : seq (mx K) :=
  let Phi := lowhalfU n (dotU n n n (trU n n L) Lbar) in
  let Sym := scaleU n n (2%:R^-1) (addU n n (trU n n Phi) Phi) in
  let Li := invU n L Linv0 in
  dotU n n n (dotU n n n (trU n n Li) Sym) Li.

(* A = Q R square:  V = Qbar^T Q - R Rbar^T;  Abar = Q (Rbar + tril1(V^T - V) R^-T);  Rinv0 = inverse of R_0 *)
Definition pb_qrU (n : nat) Q R (Rinv0 : mx K) Qbar Rbar : seq (mx K) :=
  let V := subU n n (dotU n n n (trU n n Qbar) Q) (dotU n n n R (trU n n Rbar)) in
  let Ri := invU n R Rinv0 in
  dotU n n n Q (addU n n Rbar (dotU n n n (tril1U n (subU n n (trU n n V) V)) (trU n n Ri))).
End PullbackExec2.
