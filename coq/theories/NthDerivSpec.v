From Coq Require Import Reals ZArith Lra Lia.
From Coquelicot Require Import Coquelicot.
From AlgoV Require Import NthDeriv.
Local Open Scope R_scope.

(* For every function: order 0 is the function itself, and order n+1 is the derivative of order n, at every point of the
   declared domain -- hence g_f n is the n-th derivative of f (is_derive_n / Derive_n). *)

Lemma msign_S m : msign (S m) = - msign m.
Proof. unfold msign; simpl; ring. Qed.

Lemma zfact_INR m : zfact m = INR (fact m).
Proof. unfold zfact. now rewrite INR_IZR_INZ. Qed.

Lemma zfact_S m : zfact (S m) = INR (S m) * zfact m.
Proof. rewrite !zfact_INR. change (fact (S m)) with (S m * fact m)%nat. now rewrite mult_INR. Qed.

Lemma inv_pow_derive c a s m x : a + s * x <> 0 ->
  is_derive (fun x => c / (a + s * x) ^ (S m)) x (- s * INR (S m) * c / (a + s * x) ^ (S (S m))).
Proof.
  intros H.
  assert (Hm : (a + s * x) ^ m <> 0) by now apply pow_nonzero.
  auto_derive.
  - now apply Rmult_integral_contrapositive_currified.
  - change (match m with 0%nat => 1 | S _ => INR m + 1 end) with (INR (S m)).
    cbn [pow]. field. split; assumption.
Qed.

Theorem g_exp_0 x : g_exp 0 x = exp x. Proof. reflexivity. Qed.
Theorem g_exp_S n x : is_derive (g_exp n) x (g_exp (S n) x).
Proof. unfold g_exp. auto_derive; [exact I | ring]. Qed.

Theorem g_exp2_0 x : g_exp2 0 x = exp (x * ln 2). Proof. unfold g_exp2, ln2. simpl. ring. Qed.
Theorem g_exp2_S n x : is_derive (g_exp2 n) x (g_exp2 (S n) x).
Proof. unfold g_exp2. auto_derive; [exact I | simpl; ring]. Qed.

Theorem g_expm1_0 x : g_expm1 0 x = exp x - 1. Proof. reflexivity. Qed.
Theorem g_expm1_S n x : is_derive (g_expm1 n) x (g_expm1 (S n) x).
Proof. destruct n; unfold g_expm1; auto_derive; try exact I; ring. Qed.

Theorem g_log_0 x : g_log 0 x = ln x. Proof. reflexivity. Qed.

Lemma g_log_shift_S n a x : 0 < a + x ->
  is_derive (fun x => match n with O => ln (a + x) | S m => msign m * zfact m / (a + x) ^ n end) x
            (msign n * zfact n / (a + x) ^ (S n)).
Proof.
  intros H. destruct n as [|m].
  - auto_derive; [assumption|]. unfold msign, zfact; simpl. field. lra.
  - apply is_derive_ext with (f := fun x => msign m * zfact m / (a + 1 * x) ^ (S m)).
    { intros t. now rewrite Rmult_1_l. }
    replace (msign (S m) * zfact (S m) / (a + x) ^ S (S m))
      with (- 1 * INR (S m) * (msign m * zfact m) / (a + 1 * x) ^ S (S m)).
    + apply inv_pow_derive. rewrite Rmult_1_l. lra.
    + rewrite msign_S, zfact_S, Rmult_1_l. 
      assert ((a + x) ^ S (S m) <> 0) by (apply pow_nonzero; lra).
      field. assumption.
Qed.

Theorem g_log_S n x : 0 < x -> is_derive (g_log n) x (g_log (S n) x).
Proof.
  intros H. generalize (g_log_shift_S n 0 x). rewrite Rplus_0_l. intros H0; specialize (H0 H).
  unfold g_log. 
  eapply is_derive_ext; [| exact H0 ].
  intros t; cbv beta. rewrite Rplus_0_l. reflexivity.
Qed.

Theorem g_log2_S n x : 0 < x -> is_derive (g_log2 n) x (g_log2 (S n) x).
Proof.
  intros H. unfold g_log2.
  apply is_derive_ext with (f := fun t => / ln2 * g_log n t).
  { intros t. unfold Rdiv. apply Rmult_comm. }
  replace (g_log (S n) x / ln2) with (/ ln2 * g_log (S n) x) by (unfold Rdiv; ring).
  apply (is_derive_scal (g_log n) x (/ ln2)). now apply g_log_S.
Qed.

Theorem g_log10_S n x : 0 < x -> is_derive (g_log10 n) x (g_log10 (S n) x).
Proof.
  intros H. unfold g_log10.
  apply is_derive_ext with (f := fun t => / ln 10 * g_log n t).
  { intros t. unfold Rdiv. apply Rmult_comm. }
  replace (g_log (S n) x / ln 10) with (/ ln 10 * g_log (S n) x) by (unfold Rdiv; ring).
  apply (is_derive_scal (g_log n) x (/ ln 10)). now apply g_log_S.
Qed.

Theorem g_log1p_0 x : g_log1p 0 x = ln (1 + x). Proof. reflexivity. Qed.
Theorem g_log1p_S n x : -1 < x -> is_derive (g_log1p n) x (g_log1p (S n) x).
Proof.
  intros H. unfold g_log1p. apply (g_log_shift_S n 1 x). lra.
Qed.

Theorem g_square_0 x : g_square 0 x = x * x. Proof. reflexivity. Qed.
Theorem g_square_S n x : is_derive (g_square n) x (g_square (S n) x).
Proof.
  destruct n as [|[|[|n]]]; unfold g_square; auto_derive; try exact I; ring.
Qed.
Theorem g_negative_0 x : g_negative 0 x = - x. Proof. reflexivity. Qed.
Theorem g_negative_S n x : is_derive (g_negative n) x (g_negative (S n) x).
Proof.
  destruct n as [|[|n]]; unfold g_negative; auto_derive; try exact I; ring.
Qed.

Theorem g_reciprocal_0 x : x <> 0 -> g_reciprocal 0 x = / x.
Proof. intros H. unfold g_reciprocal, msign, zfact. simpl. field. assumption. Qed.
Theorem g_reciprocal_S n x : x <> 0 -> is_derive (g_reciprocal n) x (g_reciprocal (S n) x).
Proof.
  intros H. unfold g_reciprocal.
  apply is_derive_ext with (f := fun x => msign n * zfact n / (0 + 1 * x) ^ (S n)).
  { intros t. now rewrite Rmult_1_l, Rplus_0_l. }
  replace (msign (S n) * zfact (S n) / x ^ S (S n))
    with (- 1 * INR (S n) * (msign n * zfact n) / (0 + 1 * x) ^ S (S n)).
  + apply inv_pow_derive. rewrite Rmult_1_l, Rplus_0_l. assumption.
  + rewrite msign_S, zfact_S, Rmult_1_l, Rplus_0_l.
    assert (x ^ S (S n) <> 0) by (now apply pow_nonzero).
    field. assumption.
Qed.

Lemma half_succ n : / 2 * IZR (Z.of_nat (S n)) * PI = PI / 2 + / 2 * IZR (Z.of_nat n) * PI.
Proof. rewrite Nat2Z.inj_succ, succ_IZR. field. Qed.

Theorem g_sin_0 x : g_sin 0 x = sin x.
Proof. unfold g_sin. simpl. f_equal. ring. Qed.
Theorem g_sin_S n x : is_derive (g_sin n) x (g_sin (S n) x).
Proof.
  unfold g_sin. rewrite half_succ.
  auto_derive; [exact I|].
  rewrite Rplus_assoc, <- cos_sin. ring.
Qed.
Theorem g_cos_0 x : g_cos 0 x = cos x.
Proof. unfold g_cos. simpl. f_equal. ring. Qed.
Theorem g_cos_S n x : is_derive (g_cos n) x (g_cos (S n) x).
Proof.
  unfold g_cos. rewrite half_succ.
  auto_derive; [exact I|].
  rewrite Rplus_assoc. rewrite (sin_cos (_ + x)). ring.
Qed.

Lemma is_derive_sinh x : is_derive sinh x (cosh x).
Proof. apply is_derive_Reals. apply derivable_pt_lim_sinh. Qed.
Lemma is_derive_cosh x : is_derive cosh x (sinh x).
Proof. apply is_derive_Reals. apply derivable_pt_lim_cosh. Qed.

Theorem g_sinh_0 x : g_sinh 0 x = sinh x. Proof. reflexivity. Qed.
Theorem g_sinh_S n x : is_derive (g_sinh n) x (g_sinh (S n) x).
Proof.
  unfold g_sinh. rewrite Nat.even_succ, <- Nat.negb_even.
  destruct (Nat.even n); simpl; [apply is_derive_sinh | apply is_derive_cosh].
Qed.
Theorem g_cosh_0 x : g_cosh 0 x = cosh x. Proof. reflexivity. Qed.
Theorem g_cosh_S n x : is_derive (g_cosh n) x (g_cosh (S n) x).
Proof.
  unfold g_cosh. rewrite Nat.even_succ, <- Nat.negb_even.
  destruct (Nat.even n); simpl; [apply is_derive_cosh | apply is_derive_sinh].
Qed.

Theorem g_arctanh_S n x : -1 < x < 1 -> is_derive (g_arctanh n) x (g_arctanh (S n) x).
Proof.
  intros [H1 H2]. destruct n as [|m].
  - unfold g_arctanh, zfact, msign. simpl fact. simpl Z.of_nat.
    auto_derive.
    + split; [lra|split; [| exact I]].
      apply Rdiv_lt_0_compat; lra.
    + simpl. field. lra.
  - unfold g_arctanh.
    assert (A : (1 - x) ^ m <> 0) by (apply pow_nonzero; lra).
    assert (B : (1 + x) ^ m <> 0) by (apply pow_nonzero; lra).
    auto_derive.
    + repeat split; try (apply Rmult_integral_contrapositive_currified; [lra | assumption]).
    + change (match m with 0%nat => 1 | S _ => INR m + 1 end) with (INR (S m)).
      rewrite msign_S, zfact_S. cbn [pow]. fold (1 - x).
      generalize (INR (S m)); intros k. field. repeat split; try assumption; lra.
Qed.

Lemma pochZ_shift a n : pochZ (a - 2) (S n) = IZR (a - 2) / 2 * pochZ a n.
Proof.
  induction n as [|n IH].
  - simpl. rewrite Z.add_0_r. ring.
  - change (pochZ (a - 2) (S (S n))) with (pochZ (a - 2) (S n) * (IZR (a - 2 + 2 * Z.of_nat (S n)) / 2)).
    rewrite IH. change (pochZ a (S n)) with (pochZ a n * (IZR (a + 2 * Z.of_nat n) / 2)).
    replace (a - 2 + 2 * Z.of_nat (S n))%Z with (a + 2 * Z.of_nat n)%Z by lia.
    ring.
Qed.

Lemma pochZ_sqrt_S n : pochZ (3 - 2 * Z.of_nat (S n)) (S n) = (/ 2 - INR n) * pochZ (3 - 2 * Z.of_nat n) n.
Proof.
  replace (3 - 2 * Z.of_nat (S n))%Z with (3 - 2 * Z.of_nat n - 2)%Z by lia.
  rewrite pochZ_shift. f_equal.
  rewrite !minus_IZR, mult_IZR, <- INR_IZR_INZ. field.
Qed.

Lemma pow_pred_eq n x : x <> 0 -> INR n * x ^ pred n = INR n * x ^ n / x.
Proof.
  intros H. destruct n as [|n].
  - simpl. field. assumption.
  - cbn [pred pow]. field. assumption.
Qed.

Theorem g_sqrt_0 x : 0 < x -> g_sqrt 0 x = sqrt x.
Proof. intros H. unfold g_sqrt. simpl. field. Qed.

Theorem g_sqrt_S n x : 0 < x -> is_derive (g_sqrt n) x (g_sqrt (S n) x).
Proof.
  intros H. unfold g_sqrt. rewrite pochZ_sqrt_S.
  generalize (pochZ (3 - 2 * Z.of_nat n) n). intros c.
  assert (Hn : x ^ n <> 0) by (apply pow_nonzero; lra).
  auto_derive.
  - repeat split; assumption.
  - rewrite pow_pred_eq by lra.
    assert (Hs : 0 < sqrt x) by now apply sqrt_lt_R0.
    assert (Hx : x = sqrt x * sqrt x) by (symmetry; apply sqrt_sqrt; lra).
    cbn [pow]. generalize dependent (x ^ n). intros y Hy.
    generalize dependent (sqrt x). intros s Hs Hx. subst x.
    field. repeat split; try assumption; lra.
Qed.

Theorem nth_derivative_of_chain (f : R -> R) (g : nat -> R -> R) (dom : R -> Prop) :
  (forall x, dom x -> locally x dom) ->
  (forall x, dom x -> g O x = f x) ->
  (forall n x, dom x -> is_derive (g n) x (g (S n) x)) ->
  forall n x, dom x -> Derive_n f n x = g n x.
Proof.
  intros Hopen H0 HS n. induction n as [|n IH]; intros x Hx.
  - simpl. symmetry. now apply H0.
  - simpl. rewrite (Derive_ext_loc (Derive_n f n) (g n) x).
    + apply is_derive_unique. now apply HS.
    + generalize (Hopen x Hx). apply filter_imp. exact IH.
Qed.
