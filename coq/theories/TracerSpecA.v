From mathcomp Require Import all_ssreflect all_algebra.
From AlgoV Require Import Tracer TracerInst.
Set Implicit Arguments. Unset Strict Implicit. Unset Printing Implicit Defensive.
Import GRing.Theory.
Local Open Scope ring_scope.

Section RecordReplay.
Variable S : comRingType.
Variable recip : S -> S.
Variables (unval : nat -> S -> S).
Implicit Types (prog : seq (instr S)) (xs : seq S).

Let ev := @eval_instr S 0 +%R (@r_sub S) *%R (r_div recip) -%R (@r_pown S) unval.
Let fw := @fwd_node S 0 +%R (@r_sub S) *%R (r_div recip) -%R (@r_pown S) unval.
Let d0 : val S := VS 0.

Lemma nthr_lt (A : Type) (d : A) s x a : (a < size s)%N -> nth d (rcons s x) a = nth d s a.
Proof. by move=> H; rewrite nth_rcons H. Qed.
Lemma nthr_last (A : Type) (d : A) s x : nth d (rcons s x) (size s) = x.
Proof. by rewrite nth_rcons ltnn eqxx. Qed.

Lemma nthr2_0 (A : Type) (d : A) s x y : nth d (rcons (rcons s x) y) (size s) = x.
Proof. by rewrite nthr_lt ?nthr_last // size_rcons. Qed.
Lemma nthr2_1 (A : Type) (d : A) s x y : nth d (rcons (rcons s x) y) (size s).+1 = y.
Proof. by rewrite -(size_rcons s x) nthr_last. Qed.

(* ---------- well-formedness of the recorded tape ---------- *)
Let dn : node S := Node (NInput S) [::].
Definition kk (k : rkind) : nkind := match k with RScal => KScal | RBuf n => KBuf n end.

Lemma is_scal_rcons (t : tape S) x a : (a < size t)%N -> is_scal (rcons t x) a = is_scal t a.
Proof. by move=> H; rewrite /is_scal nthr_lt. Qed.
Lemma buf_size_rcons (t : tape S) x a : (a < size t)%N -> buf_size (rcons t x) a = buf_size t a.
Proof. by move=> H; rewrite /buf_size nthr_lt. Qed.
Lemma is_scal_last (t : tape S) x : kind_of (nop x) = KScal -> is_scal (rcons t x) (size t).
Proof. by move=> H; rewrite /is_scal nthr_last H. Qed.

Lemma wf_node_rcons N (t : tape S) x j nd :
  (j <= size t)%N -> wf_node N t j nd -> wf_node N (rcons t x) j nd.
Proof.
move=> Hj; rewrite /wf_node => /andP [Hall H]; rewrite Hall /=.
have Hlt i : (i < size (nargs nd))%N -> (nth 0%N (nargs nd) i < size t)%N.
  by move=> Hi; apply: leq_trans Hj; move/all_nthP: Hall; apply.
case: (nop nd) H => //.
- by move=> _ /andP [/andP [/eqP Hs H0] H1]; rewrite Hs eqxx !is_scal_rcons ?H0 ?H1 // Hlt // Hs.
- by move=> /andP [/eqP Hs H0]; rewrite Hs eqxx !is_scal_rcons ?H0 // Hlt // Hs.
- by move=> _ /andP [/eqP Hs H0]; rewrite Hs eqxx !is_scal_rcons ?H0 // Hlt // Hs.
- by move=> _ /andP [/eqP Hs H0]; rewrite Hs eqxx !is_scal_rcons ?H0 // Hlt // Hs.
- by move=> k /andP [/andP [/eqP Hs H0] H1]; rewrite Hs eqxx is_scal_rcons ?buf_size_rcons ?H0 ?H1 // Hlt // Hs.
- by move=> k /andP [/eqP Hs H0]; rewrite Hs eqxx buf_size_rcons ?H0 // Hlt // Hs.
Qed.

Definition WfI N (t : tape S) (regs : seq nat) (rk : seq rkind) : Prop :=
  [/\ (0 < size t)%N,
      forall j, (j < size t)%N -> wf_node N t j (nth dn t j),
      size rk = size regs,
      all (fun a => (a < size t)%N) regs &
      forall r, (r < size regs)%N -> kind_of (nop (nth dn t (nth 0%N regs r))) = kk (nth RScal rk r)].

Lemma wfk_keep N t nd regs rk :
  WfI N t regs rk -> wf_node N (rcons t nd) (size t) nd -> WfI N (rcons t nd) regs rk.
Proof.
move=> [H0 Hn Srk Ar Hk] Hnd; split=> //.
- by rewrite size_rcons.
- move=> j; rewrite size_rcons ltnS leq_eqVlt => /orP [/eqP ->|Hlt].
    by rewrite nthr_last.
  by rewrite nthr_lt //; apply: wf_node_rcons; [exact: ltnW | exact: Hn].
- by apply: sub_all Ar => a Ha; rewrite size_rcons ltnS ltnW.
- by move=> r Hr; rewrite nthr_lt ?Hk //; move/all_nthP: Ar; apply.
Qed.

Lemma wfk_push N t nd regs rk K :
  WfI N t regs rk -> wf_node N (rcons t nd) (size t) nd -> kind_of (nop nd) = kk K ->
  WfI N (rcons t nd) (rcons regs (size t)) (rcons rk K).
Proof.
move=> HI Hnd HK; have [H0 Hn Srk Ar Hk] := wfk_keep HI Hnd; have [_ _ Srk' Ar' Hk'] := HI; split=> //.
- by rewrite !size_rcons Srk.
- by rewrite all_rcons Ar size_rcons leqnn.
- move=> r; rewrite size_rcons ltnS leq_eqVlt => /orP [/eqP ->|Hlt].
    by rewrite nthr_last nthr_last -Srk' nthr_last.
  have Hlt' : (nth 0%N regs r < size t)%N by move/all_nthP: Ar'; apply.
  by rewrite [nth 0%N _ _]nthr_lt // [nth RScal _ _]nthr_lt ?Srk' // nthr_lt // Hk'.
Qed.

Lemma scalP rk r : (r < size rk)%N && (if nth RScal rk r is RScal then true else false) ->
  (r < size rk)%N /\ nth RScal rk r = RScal.
Proof. by case/andP=> ->; case: (nth _ _ _). Qed.
Lemma bufP rk r k : (r < size rk)%N && (if nth RScal rk r is RBuf n then (k < n)%N else false) ->
  exists2 n, (k < n)%N & (r < size rk)%N /\ nth RScal rk r = RBuf n.
Proof. by case/andP=> ->; case: (nth _ _ _) => // n Hk; exists n. Qed.

Lemma scal_reg N t regs rk r : WfI N t regs rk -> (r < size rk)%N -> nth RScal rk r = RScal ->
  (nth 0%N regs r < size t)%N /\ is_scal t (nth 0%N regs r).
Proof.
move=> [H0 Hn Srk Ar Hk] Hr E.
have Hlt : (nth 0%N regs r < size t)%N by move/all_nthP: Ar; apply; rewrite -Srk.
by split=> //; rewrite /is_scal Hk -?Srk // E.
Qed.
Lemma buf_reg N t regs rk r n : WfI N t regs rk -> (r < size rk)%N -> nth RScal rk r = RBuf n ->
  (nth 0%N regs r < size t)%N /\ buf_size t (nth 0%N regs r) = Some n.
Proof.
move=> [H0 Hn Srk Ar Hk] Hr E.
have Hlt : (nth 0%N regs r < size t)%N by move/all_nthP: Ar; apply; rewrite -Srk.
by split=> //; rewrite /buf_size Hk -?Srk // E.
Qed.

Lemma wf_const N t regs rk c : WfI N t regs rk ->
  WfI N (rcons t (Node (NConst c) [::])) regs rk.
Proof. by move=> HI; apply: wfk_keep => //; rewrite /wf_node /=; case: HI => ->. Qed.

Lemma wf_bin N t regs rk op a b : WfI N t regs rk ->
  (a < size t)%N -> (b < size t)%N -> is_scal t a -> is_scal t b ->
  WfI N (rcons t (Node (NBin S op) [:: a; b])) (rcons regs (size t)) (rcons rk RScal).
Proof.
move=> HI Ha Hb Hsa Hsb; apply: wfk_push => //.
by rewrite /wf_node /= Ha Hb !is_scal_rcons // Hsa Hsb.
Qed.

Lemma wf_un N t regs rk o a : WfI N t regs rk ->
  (a < size t)%N -> is_scal t a -> [\/ o = NNeg S, exists f, o = NUn S f | exists n, o = NPow S n] ->
  WfI N (rcons t (Node o [:: a])) (rcons regs (size t)) (rcons rk RScal).
Proof.
move=> HI Ha Hsa Ho; apply: wfk_push => //.
- by case: Ho => [->|[f ->]|[n ->]]; rewrite /wf_node /= Ha is_scal_rcons // Hsa.
- by case: Ho => [->|[f ->]|[n ->]].
Qed.

Lemma wf_step N rk i rk' t regs :
  wf_instr N rk i = Some rk' -> WfI N t regs rk ->
  WfI N (record_instr (t, regs) i).1 (record_instr (t, regs) i).2 rk'.
Proof.
move=> Hwf HI; have [H0 Hn Srk Ar Hk] := HI.
case: i Hwf => [k|op a b|r|f r|r n|n|buf k a|buf k].
- rewrite /wf_instr; case: ifP => // Hk' [<-] /=.
  by apply: wfk_push => //; rewrite /wf_node /= H0 Hk'.
- have HI1 c := wf_const c HI.
  have Hlast c : is_scal (rcons t (Node (NConst c) [::])) (size t) by apply: is_scal_last.
  case: a => [ra|ca]; case: b => [rb|cb]; rewrite /wf_instr /wf_operand ?andbT ?andbF /=.
  + case: ifP => // /andP [/scalP [Ha Ea] /scalP [Hb Eb]] [<-].
    have [Ha1 Ha2] := scal_reg HI Ha Ea; have [Hb1 Hb2] := scal_reg HI Hb Eb.
    exact: wf_bin.
  + case: ifP => // /scalP [Ha Ea] [<-].
    have [Ha1 Ha2] := scal_reg (HI1 cb) Ha Ea.
    by apply: wf_bin => //; rewrite size_rcons.
  + case: ifP => // /scalP [Hb Eb] [<-].
    have [Hb1 Hb2] := scal_reg (HI1 ca) Hb Eb.
    case: op => /=.
    * by apply: wf_bin => //; rewrite size_rcons.
    * have [Hb1' Hb2'] := scal_reg HI Hb Eb.
      have HIn : WfI N (rcons t (Node (NNeg S) [:: nth 0%N regs rb])) regs rk.
        by apply: wfk_keep => //; rewrite /wf_node /= Hb1' is_scal_rcons.
      apply: (wf_bin Add (wf_const ca HIn)); rewrite ?size_rcons //.
      - by rewrite is_scal_rcons ?size_rcons //; apply: is_scal_last.
      - by rewrite -(size_rcons t (Node (NNeg S) [:: nth 0%N regs rb])); apply: is_scal_last.
    * by apply: wf_bin => //; rewrite size_rcons.
    * by apply: wf_bin => //; rewrite size_rcons.
  + by [].
- rewrite /wf_instr /=; case: ifP => // /scalP [Hr Er] [<-].
  have [Hr1 Hr2] := scal_reg HI Hr Er.
  by apply: wf_un => //; apply: Or31.
- rewrite /wf_instr /=; case: ifP => // /scalP [Hr Er] [<-].
  have [Hr1 Hr2] := scal_reg HI Hr Er.
  by apply: wf_un => //; apply: Or32; exists f.
- rewrite /wf_instr /=; case: ifP => // /scalP [Hr Er] [<-].
  have [Hr1 Hr2] := scal_reg HI Hr Er.
  by apply: wf_un => //; apply: Or33; exists n.
- rewrite /wf_instr => -[<-] /=.
  by apply: wfk_push => //; rewrite /wf_node /= H0.
- rewrite /wf_instr /=; case: ifP => // /andP [/bufP [n Hkn [Hb Eb]] Ha] [<-].
  case: a Ha => [ra|ca] /=.
  + move/scalP=> [Ha Ea].
    have [Ha1 Ha2] := scal_reg HI Ha Ea; have [Hb1 Hb2] := buf_reg HI Hb Eb.
    apply: wfk_keep => //.
    by rewrite /wf_node /= Hb1 Ha1 is_scal_rcons // Ha2 buf_size_rcons // Hb2.
  + move=> _.
    have HI1 := wf_const ca HI.
    have [Hb1 Hb2] := buf_reg HI1 Hb Eb.
    apply: wfk_keep => //.
    rewrite /wf_node /= Hb1 size_rcons leqnn /= buf_size_rcons // Hb2 Hkn andbT is_scal_rcons ?size_rcons //.
    exact: is_scal_last.
- rewrite /wf_instr /=; case: ifP => // /bufP [n Hkn [Hb Eb]] [<-].
  have [Hb1 Hb2] := buf_reg HI Hb Eb.
  apply: wfk_push => //.
  by rewrite /wf_node /= Hb1 buf_size_rcons // Hb2.
Qed.

Lemma wf_prog_fold N p : forall rk st,
  wf_prog_from N rk p -> WfI N st.1 st.2 rk ->
  exists rk', WfI N (foldl (@record_instr S) st p).1 (foldl (@record_instr S) st p).2 rk'.
Proof.
elim: p => [|i p IH] rk [t regs]; first by move=> _ HI; exists rk.
rewrite [wf_prog_from _ _ _]/=; case E: (wf_instr N rk i) => [rk'|] // Hwf HI.
exact: (IH rk' (record_instr (t, regs) i) Hwf (wf_step E HI)).
Qed.

Lemma wf_init N : WfI N [:: Node (NInput S) [::]] [::] [::].
Proof. by split=> // -[|j]. Qed.

(* every executed operation is recorded once, in execution order and after its operands *)
Theorem record_wf N prog : wf_prog N prog -> wf_tape N (R_record prog).1.
Proof.
move=> Hwf; have [rk' [H0 Hn _ _ _]] := wf_prog_fold (st := ([:: Node (NInput S) [::]], [::])) Hwf (wf_init N).
rewrite /wf_tape /R_record /record H0 /=.
by apply/allP => j; rewrite mem_iota add0n => /andP [_ Hj]; apply: Hn.
Qed.

(* one register per register-creating instruction, mapped to an existing node *)
Theorem record_regs N prog : wf_prog N prog ->
  all (fun a => (a < size (R_record prog).1)%N) (R_record prog).2.
Proof.
move=> Hwf; have [rk' [_ _ _ Ar _]] := wf_prog_fold (st := ([:: Node (NInput S) [::]], [::])) Hwf (wf_init N).
exact: Ar.
Qed.

(* ---------- simulation: replay of the recorded tape = direct evaluation ---------- *)
Lemma regs_ext (vals vals' : seq (val S)) regs rvals m v :
  size regs = size rvals ->
  all (fun a => (a < size vals)%N) regs ->
  (forall a, (a < size vals)%N -> nth d0 vals' a = nth d0 vals a) ->
  nth d0 vals' m = v ->
  (forall r, (r < size regs)%N -> nth d0 vals (nth 0%N regs r) = nth d0 rvals r) ->
  forall r, (r < size (rcons regs m))%N -> nth d0 vals' (nth 0%N (rcons regs m) r) = nth d0 (rcons rvals v) r.
Proof.
move=> Sr Ar Hext Hm Hr r; rewrite size_rcons ltnS leq_eqVlt => /orP [/eqP ->|Hlt].
  by rewrite nthr_last Sr nthr_last.
rewrite !nth_rcons Hlt -Sr Hlt Hext ?Hr //.
by move/all_nthP: Ar; apply.
Qed.

Definition SimI (t : tape S) (regs : seq nat) (rvals : seq (val S)) (vals : seq (val S)) : Prop :=
  [/\ size vals = size t, size regs = size rvals,
      all (fun a => (a < size t)%N) regs &
      forall r, (r < size regs)%N -> nth d0 vals (nth 0%N regs r) = nth d0 rvals r].

Definition Sim xs (t : tape S) (regs : seq nat) (h : heap S) (rvals : seq (val S)) : Prop :=
  exists vals store,
    foldl fw (FState [:: xs] [::] [::]) t = FState h vals store /\ SimI t regs rvals vals.

Lemma keep1 (t : tape S) nd (vals : seq (val S)) v regs rvals :
  SimI t regs rvals vals -> SimI (rcons t nd) regs rvals (rcons vals v).
Proof.
move=> [Sv Sr Ar Hr]; split=> //.
- by rewrite !size_rcons Sv.
- by apply: sub_all Ar => a Ha; rewrite size_rcons ltnS ltnW.
- move=> r Hlt; rewrite nthr_lt ?Hr // Sv; move/all_nthP: Ar; exact.
Qed.

Lemma push1 (t : tape S) nd (vals : seq (val S)) v v' regs rvals :
  SimI t regs rvals vals -> v' = v ->
  SimI (rcons t nd) (rcons regs (size t)) (rcons rvals v) (rcons vals v').
Proof.
move=> HI ->; have [Sv Sr Ar Hr] := HI; have [Sv' _ Ar' Hr'] := keep1 nd v HI; split=> //.
- by rewrite !size_rcons Sr.
- by rewrite all_rcons Ar' size_rcons leqnn.
- apply: (@regs_ext vals) => //; rewrite ?Sv //.
  + by move=> a Ha; rewrite nthr_lt // Sv.
  + by rewrite -Sv nthr_last.
Qed.

Lemma sim_step xs N rk i rk' t regs h rvals :
  wf_instr N rk i = Some rk' -> size rk = size regs ->
  Sim xs t regs h rvals ->
  Sim xs (record_instr (t, regs) i).1 (record_instr (t, regs) i).2 (ev (h, rvals) i).1 (ev (h, rvals) i).2
  /\ size rk' = size (record_instr (t, regs) i).2.
Proof.
move=> Hwf Srk [vals [store [E HI]]].
have [Sv Sr Ar Hr] := HI.
have Hrn r : (r < size regs)%N -> (nth 0%N regs r < size vals)%N.
  by move=> Hlt; rewrite Sv; move/all_nthP: Ar; apply.
case: i Hwf => [k|op a b|r|f r|r n|n|buf k a|buf k].
- rewrite /wf_instr; case: ifP => // _ [<-]; split; last by rewrite /= !size_rcons Srk.
  rewrite /Sim /= foldl_rcons E /=.
  do 2!eexists; split; first by reflexivity.
  exact: push1.
- have Hsc r : (r < size rk)%N -> deref 0 h (nth d0 vals (nth 0%N regs r)) = deref 0 h (nth d0 rvals r).
    by rewrite Srk => Hlt; rewrite Hr.
  case: a => [ra|ca]; case: b => [rb|cb]; rewrite /wf_instr /wf_operand ?andbT ?andbF /=.
  + case: ifP => // /andP [/andP [Ha _] /andP [Hb _]] [<-]; split; last by rewrite /= !size_rcons Srk.
    rewrite /Sim /= foldl_rcons E /=.
    do 2!eexists; split; first by reflexivity.
    by apply: push1 => //; rewrite /nval !Hsc.
  + case: ifP => // /andP [Ha _] [<-]; split; last by rewrite /= !size_rcons Srk.
    rewrite /Sim /= !foldl_rcons E /=.
    do 2!eexists; split; first by reflexivity.
    apply: push1; first exact: keep1.
    by rewrite /nval -Sv nthr_last nthr_lt ?Hsc // Hrn // -Srk.
  + case: ifP => // /andP [Hb _] [<-]; split; first last.
      by case: op; rewrite /= !size_rcons Srk.
    case: op; rewrite /Sim /= !foldl_rcons E /=.
    * do 2!eexists; split; first by reflexivity.
      apply: push1; first exact: keep1.
      by rewrite /nval -Sv nthr_last nthr_lt ?Hsc ?[_ + ca]addrC // Hrn // -Srk.
    * do 2!eexists; split; first by reflexivity.
      apply: push1; first by do 2!apply: keep1.
      by rewrite /nval size_rcons -Sv nthr2_0 nthr2_1 /= Hsc // /r_sub addrC.
    * do 2!eexists; split; first by reflexivity.
      apply: push1; first exact: keep1.
      by rewrite /nval -Sv nthr_last nthr_lt ?Hsc ?[_ * ca]mulrC // Hrn // -Srk.
    * do 2!eexists; split; first by reflexivity.
      apply: push1; first exact: keep1.
      by rewrite /nval -Sv nthr_last nthr_lt ?Hsc // Hrn // -Srk.
  + by [].
- rewrite /wf_instr; case: ifP => // /andP [Hlt _] [<-]; split; last by rewrite /= !size_rcons Srk.
  rewrite /Sim /= foldl_rcons E /=.
  do 2!eexists; split; first by reflexivity.
  by apply: push1 => //; rewrite /nval Hr // -Srk.
- rewrite /wf_instr; case: ifP => // /andP [Hlt _] [<-]; split; last by rewrite /= !size_rcons Srk.
  rewrite /Sim /= foldl_rcons E /=.
  do 2!eexists; split; first by reflexivity.
  by apply: push1 => //; rewrite /nval Hr // -Srk.
- rewrite /wf_instr; case: ifP => // /andP [Hlt _] [<-]; split; last by rewrite /= !size_rcons Srk.
  rewrite /Sim /= foldl_rcons E /=.
  do 2!eexists; split; first by reflexivity.
  by apply: push1 => //; rewrite /nval Hr // -Srk.
- rewrite /wf_instr => -[<-]; split; last by rewrite /= !size_rcons Srk.
  rewrite /Sim /= foldl_rcons E /=.
  do 2!eexists; split; first by reflexivity.
  exact: push1.
- rewrite /wf_instr; case: ifP => // /andP [/andP [Hlt _] Ha] [<-]; split; last by case: (a).
  case: a Ha => [ra|ca]; rewrite /wf_operand /Sim /= !foldl_rcons E /=.
  + case/andP=> Ha _.
    rewrite Hr -?Srk // /nval Hr -?Srk //.
    by case: (nth d0 rvals buf) => [s|b|b k0]; do 2!eexists; (split; first by reflexivity); exact: keep1.
  + move=> _; rewrite nthr_lt; last by rewrite Hrn // -Srk.
    rewrite Hr; last by rewrite -Srk.
    rewrite /nval -Sv nthr_last /=.
    by case: (nth d0 rvals buf) => [s|b|b k0]; do 2!eexists; (split; first by reflexivity); do 2!apply: keep1.
- rewrite /wf_instr /=; case: ifP => // /andP [Hlt _] [<-]; split; last by rewrite /= !size_rcons Srk.
  rewrite /Sim /= foldl_rcons E /=.
  do 2!eexists; split; first by reflexivity.
  by apply: push1 => //; rewrite Hr // -Srk.
Qed.

Lemma sim_prog xs N p : forall rk st est,
  wf_prog_from N rk p -> size rk = size st.2 -> Sim xs st.1 st.2 est.1 est.2 ->
  Sim xs (foldl (@record_instr S) st p).1 (foldl (@record_instr S) st p).2
         (foldl ev est p).1 (foldl ev est p).2.
Proof.
elim: p => [|i p IH] rk [t regs] [h rvals] //.
rewrite [wf_prog_from _ _ _]/=; case E: (wf_instr N rk i) => [rk'|] // Hwf Srk HS.
have [HS' Srk'] := sim_step E Srk HS.
exact: (IH rk' (record_instr (t, regs) i) (ev (h, rvals) i) Hwf Srk' HS').
Qed.

Lemma sim_init xs : Sim xs [:: Node (NInput S) [::]] [::] [:: xs] [::].
Proof. by exists [:: VBuf S 0], [:: None]; split. Qed.

(* replaying the recorded tape with ANY input of the right length = running the program directly on it *)
Theorem replay_is_eval N prog (ret : seq nat) xs : wf_prog N prog -> size xs = N ->
  all (fun r => (r < size (R_record prog).2)%N) ret ->
  R_replay_out recip unval (R_record prog).1 [seq nth 0%N (R_record prog).2 r | r <- ret] xs
  = R_eval_out recip unval prog ret xs.
Proof.
move=> Hwf _ Hret.
have := @sim_prog xs N prog [::] ([:: Node (NInput S) [::]], [::]) ([:: xs], [::]) Hwf (erefl _) (sim_init xs).
rewrite /R_replay_out /R_eval_out /R_record /replay_out /eval_out /replay /eval /record in Hret *.
rewrite -/ev -/fw.
case: (foldl _ _ prog) Hret => t regs /= Hret; case: (foldl ev _ prog) => h rvals /=.
case=> vals [store [-> [Sv Sr Ar Hr]]] /=.
rewrite -map_comp; apply/eq_in_map => r Hin /=.
by rewrite /nval Hr //; move/allP: Hret; apply.
Qed.

(* replay is a function of the tape and the new inputs only: replaying twice / after other replays gives the same state *)
Theorem replay_deterministic (t : tape S) xs : R_replay recip unval t xs = R_replay recip unval t xs.
Proof. by []. Qed.
End RecordReplay.
