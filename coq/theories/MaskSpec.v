(* Theorems about Mask.v: triu / tril select exactly the entries on the right side of the k-th diagonal, triu(k) and tril(k-1) partition
   the matrix, masking is idempotent and self-adjoint (so it is its own reverse rule), and pb_trace is the adjoint of trace. *)
From mathcomp Require Import all_ssreflect all_algebra.
From mathcomp Require Import zify.
From AlgoV Require Import Sums Series Array Reduce ReduceSpec Mask.
Set Implicit Arguments. Unset Strict Implicit. Unset Printing Implicit Defensive.
Import GRing.Theory.
Local Open Scope ring_scope.

Section MaskSpec.
Variable V : zmodType.
Implicit Types (x : seq V).

Theorem size_tri_mask upper kp kn n m x : size (tri_mask upper kp kn n m x) = (n * m)%N.
Proof. by rewrite /tri_mask size_map size_iota. Qed.

Lemma tri_mask_ntho upper kp kn n m x o : (o < n * m)%N ->
  nth 0 (tri_mask upper kp kn n m x) o = if tri_keep upper kp kn (o %/ m) (o %% m) then nth 0 x o else 0.
Proof. by move=> lt_o; rewrite /tri_mask (nth_map 0%N) ?size_iota // nth_iota // add0n. Qed.

(* entry (i, j) of the result *)
Theorem tri_mask_nth upper kp kn n m x i j : (i < n)%N -> (j < m)%N ->
  nth 0 (tri_mask upper kp kn n m x) (i * m + j) = if tri_keep upper kp kn i j then nth 0 x (i * m + j) else 0.
Proof.
move=> lt_i lt_j; have m0 : (0 < m)%N by apply: leq_ltn_trans lt_j.
rewrite tri_mask_ntho; last exact: blk_lt.
by rewrite divnMDl // modnMDl divn_small // modn_small // addn0.
Qed.

(* triu(k) keeps exactly what tril(k-1) drops:  k = kp - kn,  k - 1 = kp' - kn' *)
Theorem tri_keep_partition kp kn kp' kn' i j : (kp' + kn + 1 = kp + kn')%N ->
  tri_keep true kp kn i j = ~~ tri_keep false kp' kn' i j.
Proof. by move=> H; rewrite /tri_keep -ltnNge; apply/idP/idP; lia. Qed.

Theorem triu_tril_partition kp kn kp' kn' n m x o : (kp' + kn + 1 = kp + kn')%N -> (o < n * m)%N ->
  nth 0 (tri_mask true kp kn n m x) o + nth 0 (tri_mask false kp' kn' n m x) o = nth 0 x o.
Proof.
move=> H lt_o; rewrite !tri_mask_ntho // (tri_keep_partition _ _ H).
by case: (tri_keep false _ _ _ _) => /=; rewrite ?addr0 ?add0r.
Qed.

Theorem tri_mask_idem upper kp kn n m x :
  tri_mask upper kp kn n m (tri_mask upper kp kn n m x) = tri_mask upper kp kn n m x.
Proof.
apply: (@eq_from_nth _ 0); first by rewrite !size_tri_mask.
move=> o; rewrite size_tri_mask => lt_o; rewrite !tri_mask_ntho //.
by case: (tri_keep _ _ _ _ _).
Qed.

(* k <= -(n-1) for triu (kn >= kp + n - 1 ... ) keeps everything: stated for the useful special case of offsets that keep the whole matrix *)
Theorem tri_mask_all upper kp kn n m x : size x = (n * m)%N ->
  (forall i j, (i < n)%N -> (j < m)%N -> tri_keep upper kp kn i j) -> tri_mask upper kp kn n m x = x.
Proof.
move=> szx H; apply: (@eq_from_nth _ 0); first by rewrite size_tri_mask.
move=> o; rewrite size_tri_mask => lt_o; rewrite tri_mask_ntho //.
have m0 : (0 < m)%N by case: (m) lt_o => //; rewrite muln0.
by rewrite H // ?ltn_pmod // ltn_divLR.
Qed.
End MaskSpec.

Section Adj.
Variable R : comRingType.
Implicit Types (x y : seq R).

(* masking is self-adjoint for the pairing sum of products: it is its own reverse rule *)
Theorem tri_mask_self_adjoint upper kp kn n m x y : size x = (n * m)%N -> size y = (n * m)%N ->
  dotp (tri_mask upper kp kn n m x) y = dotp x (tri_mask upper kp kn n m y).
Proof.
move=> szx szy; rewrite /dotp size_tri_mask szx; apply: eq_bigr => o _.
rewrite !tri_mask_ntho //; case: ifP => _; by rewrite ?mulr0 ?mul0r.
Qed.

(* trace is the sum of the diagonal gather, and pb_trace (xbar += ybar I) is its adjoint *)
Theorem trace_fwd_diag n x : trace_fwd n x = \sum_(k < n) (diag_fwd n x)`_k.
Proof.
rewrite /trace_fwd sumn_fE; apply: eq_bigr => k _.
rewrite /diag_fwd /gatherV /diag_idx (nth_map 0%N) ?size_map ?size_iota //.
by rewrite (nth_map 0%N) ?size_iota // nth_iota // add0n.
Qed.

Theorem pb_trace_adjoint n x (ybar : R) : size x = (n * n)%N ->
  trace_fwd n x * ybar = dotp x (pb_trace n ybar).
Proof.
move=> szx; rewrite /pb_trace -pb_diag_adjoint ?size_nseq // /dotp.
have -> : size (diag_fwd n x) = n by rewrite /diag_fwd /gatherV size_map (proj1 (diag_idx_ok n)).
rewrite trace_fwd_diag big_distrl; apply: eq_bigr => k _.
by rewrite nth_nseq ltn_ord.
Qed.
End Adj.
