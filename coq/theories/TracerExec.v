(* EXECUTABLE instance of the tracer model: the abstract operations of Tracer.v instantiated with truncated series
   (coefficient lists of length D over a field K) and the series kernels of Series.v.  This is the instance the correspondence
   checks run by vm_compute (K := Qc); TracerRefine.v proves that it refines the commutative-ring instance of TracerInst.v
   (carrier {poly K}, results congruent modulo X^D), which is the instance the adjoint / replay theorems are about. *)
From mathcomp Require Import all_ssreflect all_algebra.
From AlgoV Require Import Sums Series Tracer.
Set Implicit Arguments. Unset Strict Implicit. Unset Printing Implicit Defensive.
Import GRing.Theory.
Local Open Scope ring_scope.

Section Exec.
Variable K : fieldType.
Variable D : nat.
Definition x_zero : seq K := nseq D 0.
Definition x_natmul (n : nat) (x : seq K) : seq K := scaleS (n%:R) x.
Definition x_unval (f : nat) (x : seq K) : seq K :=
  match f with 0%N => squareS x | 1%N => recipS x | _ => negS x end.
Definition x_unpart (f : nat) (x y : seq K) : seq K :=
  match f with
  | 0%N => scaleS 2%:R x                            (* _pb_square: x * 2 *)
  | 1%N => negS (recipS (squareS x))                (* _pb_reciprocal: -reciprocal(square(x)) *)
  | _ => constS (-1) D
  end.
Definition x_pown (x : seq K) (n : nat) : seq K := pownatS x n.
Definition X_replay_out := @replay_out (seq K) x_zero (@addS K) (@subS K) (@mulS K) (@divS K) (@negS K) x_pown x_unval.
Definition X_eval_out := @eval_out (seq K) x_zero (@addS K) (@subS K) (@mulS K) (@divS K) (@negS K) x_pown x_unval.
Definition X_grad := @gradient_like (seq K) x_zero (@addS K) (@subS K) (@mulS K) (@divS K) (@negS K) x_natmul x_pown x_unval x_unpart.
Definition X_tangent_out := @tangent_out (seq K) x_zero (@addS K) (@subS K) (@mulS K) (@divS K) (@negS K) x_natmul x_pown x_unval x_unpart.
End Exec.
