(* MODEL of the kernels that write into caller-visible storage, as STORE TRANSFORMERS with an explicit aliasing
   parameter: reads of an operand that aliases the output come from the current store.
   _mul (algorithms.py:287, descending d with numpy.sum(..., out=z[d])) and UTPM.__imul__ (utpm.py:495). *)
From mathcomp Require Import all_ssreflect all_algebra.
From AlgoV Require Import Sums Series.
Set Implicit Arguments. Unset Strict Implicit. Unset Printing Implicit Defensive.
Import GRing.Theory.
Local Open Scope ring_scope.

Section InPlace.
Variable K : fieldType.
Implicit Types (x y out self rhs : seq K).

(* which operands are the same memory as the output *)
Inductive alias := NoAlias | AliasX | AliasY | AliasXY.
Definition rdx (al : alias) x out := match al with AliasX | AliasXY => out | _ => x end.
Definition rdy (al : alias) y out := match al with AliasY | AliasXY => out | _ => y end.

(* for d in range(D)[::-1]: numpy.sum(x[:d+1] * y[d::-1], axis=0, out=z[d]) ; n = number of d still to process *)
Fixpoint mul_into_loop (al : alias) x y (n : nat) out : seq K :=
  if n is d.+1 then
    let v := sumn_f d.+1 (fun c => (rdx al x out)`_c * (rdy al y out)`_(d - c)) in
    mul_into_loop al x y d (set_nth 0 out d v)
  else out.
Definition mul_into (al : alias) x y out := mul_into_loop al x y (size out) out.

(* UTPM.__imul__ with a UTPM right operand:
     for d in range(D)[::-1]:
         self[d] *= rhs[0]
         for c in range(d): self[d] += self[c] * rhs[d-c]
   `aliased = true` models rhs.data being the same memory as self.data (x *= x in the unrepaired code):
   every read of rhs then sees the current contents of self. *)
Definition rd_rhs (aliased : bool) rhs self := if aliased then self else rhs.
Fixpoint imul_inner (aliased : bool) rhs (d : nat) (cs : seq nat) self : seq K :=
  if cs is c :: cs' then
    imul_inner aliased rhs d cs' (set_nth 0 self d (self`_d + self`_c * (rd_rhs aliased rhs self)`_(d - c)))
  else self.
Fixpoint imul_loop (aliased : bool) rhs (n : nat) self : seq K :=
  if n is d.+1 then
    let s1 := set_nth 0 self d (self`_d * (rd_rhs aliased rhs self)`_0) in
    imul_loop aliased rhs d (imul_inner aliased rhs d (iota 0 d) s1)
  else self.
Definition imul (aliased : bool) self rhs := imul_loop aliased rhs (size self) self.
(* the repaired code copies rhs.data when it shares memory with self.data *)
Definition imul_fixed (shares_memory : bool) self rhs := imul false self (if shares_memory then self else rhs).

(* UTPM.__itruediv__ / _truediv: the quotient is built in a temporary and copied at the end *)
Definition itruediv self rhs := divS self rhs.
End InPlace.
