(* logdet is a logarithm of det in the sense of formal power series: det(t) * logdet'(t) = det'(t) modulo t^(D-1), for every size n and
   every D, over every field of characteristic 0, whenever the diagonal of U_0 has no zero. *)
From mathcomp Require Import all_ssreflect all_algebra.
From AlgoV Require Import Sums Series SeriesBase SeriesSpec SeriesSpec_A SeriesSpec_B Matrix MatrixFact MatrixSpec FactSpec DetSpec Logdet.
Set Implicit Arguments. Unset Strict Implicit. Unset Printing Implicit Defensive.
Import GRing.Theory.
Local Open Scope ring_scope.
Local Arguments mkseq : simpl never.
Local Arguments iota : simpl never.

Section LogdetSpec.
Variable K : fieldType.
Hypothesis char0 : [char K] =i pred0.
Variable n : nat.

Lemma natS_neq0 m : m.+1%:R != 0 :> K.
Proof. by have /charf0P-> := char0. Qed.

Lemma size_logS (xs : seq K) l0 : size (logS xs l0) = size xs.
Proof. by rewrite /logS size_mkseq. Qed.

Lemma logS_derivE (xs : seq K) l0 c : (c.+1 < size xs)%N ->
  ((Poly (logS xs l0))^`())`_c = ucoef (log_step xs) l0 c.+1.
Proof.
move=> lt; rewrite coef_deriv coef_Poly /logS nth_mkseq // series1_nth // -mulr_natr divfK //.
exact: natS_neq0.
Qed.

(* the differential equation of the series logarithm: x(t) * (log x)'(t) = x'(t) modulo t^(D-1) *)
Theorem logS_deriv (xs : seq K) (l0 : K) d : xs`_0 != 0 -> (d.+1 < size xs)%N ->
  (Poly xs * (Poly (logS xs l0))^`())`_d = ((Poly xs)^`())`_d.
Proof.
move=> x0 lt_d; rewrite coefMr big_ord_recr /= subnn coef_Poly logS_derivE //.
rewrite ucoefS /log_step -/(log_step xs) size_mkseq [d.+1.-1]/= mulrC divfK //.
rewrite coef_deriv coef_Poly mulr_natr addrC sum1E.
rewrite [X in _ - X](_ : _ = \sum_(i < d) (Poly xs)`_(d - i) * ((Poly (logS xs l0))^`())`_i) ?subrK //.
apply: eq_bigr => j _; have lt_j : (j < d)%N by [].
rewrite subSS coef_Poly nth_mkseq ?ltnS // logS_derivE //.
by apply: ltn_trans lt_d; rewrite !ltnS.
Qed.

Lemma size_absS (xs : seq K) sgn0 abs0 : size (absS xs sgn0 abs0) = size xs.
Proof. by case: xs => //= a r; rewrite size_map. Qed.

Lemma nth_absS (xs : seq K) sgn0 abs0 d : abs0 = sgn0 * xs`_0 -> (absS xs sgn0 abs0)`_d = sgn0 * xs`_d.
Proof.
case: xs => [|a r] /=; first by rewrite !nth_nil mulr0.
case: d => [|d] //= _; case: (ltnP d (size r)) => [lt_d|le_d]; first by rewrite (nth_map 0) // mulrC.
by rewrite !nth_default ?size_map // mulr0.
Qed.

Lemma Poly_absS (xs : seq K) sgn0 abs0 : abs0 = sgn0 * xs`_0 -> Poly (absS xs sgn0 abs0) = sgn0 *: Poly xs.
Proof. by move=> H; apply/polyP => d; rewrite coefZ !coef_Poly nth_absS. Qed.

(* ... is insensitive to the sign: log |x| has the same derivative *)
Theorem logS_abs_deriv (xs : seq K) (sgn0 abs0 l0 : K) d : xs`_0 != 0 -> sgn0 * sgn0 = 1 -> abs0 = sgn0 * xs`_0 -> (d.+1 < size xs)%N ->
  (Poly xs * (Poly (logS (absS xs sgn0 abs0) l0))^`())`_d = ((Poly xs)^`())`_d.
Proof.
move=> x0 Hs Ha lt_d.
have s0 : sgn0 != 0 by apply/eqP => E; move/eqP: Hs; rewrite E mul0r eq_sym oner_eq0.
have z0 : (absS xs sgn0 abs0)`_0 != 0 by rewrite nth_absS // mulf_neq0.
have := @logS_deriv (absS xs sgn0 abs0) l0 d z0; rewrite size_absS => /(_ lt_d).
rewrite Poly_absS // derivZ -scalerAl !coefZ; exact: mulfI.
Qed.

Lemma foldl_addS_spec (I : Type) (y : I -> seq K) (l : seq I) (acc : seq K) :
  size (foldl (fun a i => addS a (y i)) acc l) = size acc /\
  forall d, (d < size acc)%N -> (foldl (fun a i => addS a (y i)) acc l)`_d = acc`_d + \sum_(i <- l) (y i)`_d.
Proof.
elim: l acc => [|i l IH] acc /=; first by split=> // d _; rewrite big_nil addr0.
have [-> H] := IH (addS acc (y i)); rewrite /addS size_mkseq; split=> // d lt_d.
by rewrite H ?size_mkseq // nth_mkseq // big_cons addrA.
Qed.

Lemma cg_logprod D (I : eqType) (u Y' : I -> {poly K}) (r : seq I) :
  (forall i, i \in r -> cg D (u i * Y' i) (u i)^`()) ->
  cg D ((\prod_(i <- r) u i) * \sum_(i <- r) Y' i) (\prod_(i <- r) u i)^`().
Proof.
elim: r => [|i r IH] H.
  by rewrite !big_nil mulr0 -polyC1 derivC.
rewrite !big_cons derivM mulrDr.
have -> : u i * \prod_(j <- r) u j * Y' i = \prod_(j <- r) u j * (u i * Y' i) by rewrite mulrAC mulrC.
rewrite -mulrA [(u i)^`() * _]mulrC.
apply: cg_add; apply: cg_mul => //; first by apply: H; rewrite mem_head.
by apply: IH => j Hj; apply: H; rewrite inE Hj orbT.
Qed.

(* the model of logdet: p(t) = prod_i u_ii(t) satisfies p * logdet' = p' modulo t^(D-1) *)
Theorem logdetU_deriv (Us : seq (mx K)) (sgn0 abs0 l0 : seq K) d :
  (forall i, (i < n)%N -> mxget (nth [::] Us 0) i i != 0 /\ nth 0 sgn0 i * nth 0 sgn0 i = 1 /\
                          nth 0 abs0 i = nth 0 sgn0 i * mxget (nth [::] Us 0) i i) ->
  (d.+1 < size Us)%N ->
  let p := \prod_(i < n) Poly [seq mxget U i i | U <- Us] in
  (p * (Poly (logdetU n Us sgn0 abs0 l0))^`())`_d = (p^`())`_d.
Proof.
move=> H lt_d p.
pose u (i : nat) : {poly K} := Poly [seq mxget U i i | U <- Us].
pose y := logabs_diag n Us sgn0 abs0 l0.
pose Y' (i : nat) : {poly K} := (Poly (y i))^`().
have Ep : p = \prod_(i <- iota 0 n) u i.
  have -> : iota 0 n = index_iota 0 n by rewrite /index_iota subn0.
  by rewrite big_mkord.
have [sL HL] := foldl_addS_spec y (iota 0 n) (nseq (size Us) 0).
rewrite -/(logdetU n Us sgn0 abs0 l0) size_nseq in sL HL.
have cgL : cg d.+1 (Poly (logdetU n Us sgn0 abs0 l0))^`() (\sum_(i <- iota 0 n) Y' i).
  move=> e lt_e; have lt_e' : (e.+1 < size Us)%N by apply: leq_ltn_trans lt_d.
  rewrite coef_deriv coef_Poly HL // nth_nseq lt_e' add0r coef_sum -sumrMnl.
  by apply: eq_bigr => i _; rewrite coef_deriv coef_Poly.
have -> : (p * (Poly (logdetU n Us sgn0 abs0 l0))^`())`_d = (p * \sum_(i <- iota 0 n) Y' i)`_d.
  by apply: (@cg_mul _ d.+1) => //.
rewrite Ep; apply: (@cg_logprod d.+1) => // i; rewrite mem_iota add0n => /andP[_ lt_i] e lt_e.
have [Hu [Hs Ha]] := H i lt_i.
have lt_e' : (e.+1 < size Us)%N by apply: leq_ltn_trans lt_d.
have D0 : (0 < size Us)%N by apply: leq_ltn_trans lt_d.
rewrite /Y' /y /logabs_diag /diag_series nth_mkseq // -/(u i).
apply: logS_abs_deriv => //; rewrite ?size_map // (nth_map [::]) //.
Qed.

(* end to end with the LU recurrence and the determinant theorem: det * logdet' = det' modulo t^(D-1) *)
Theorem logdetU_luU_spec (wT : mx K) (sgn : K) (A : seq (mx K)) (L0 U0 L0inv U0inv : mx K) (sgn0 abs0 l0 : seq K) d :
  let mo := mx_of n n in
  let Us := [seq p.2 | p <- luU n wT A L0 U0 L0inv U0inv] in
  is_unit_lower (mo L0) -> is_upper (mo U0) -> mo L0 *m mo U0 = mo wT *m mo (nth [::] A 0) ->
  mo L0inv *m mo L0 = 1%:M -> mo U0 *m mo U0inv = 1%:M -> sgn * \det (mo wT) = 1 ->
  (forall i, (i < n)%N -> mxget (nth [::] Us 0) i i != 0 /\ nth 0 sgn0 i * nth 0 sgn0 i = 1 /\
                          nth 0 abs0 i = nth 0 sgn0 i * mxget (nth [::] Us 0) i i) ->
  (d.+1 < size A)%N ->
  let dt := \det (pmx [seq mo a | a <- A]) in
  (dt * (Poly (logdetU n Us sgn0 abs0 l0))^`())`_d = (dt^`())`_d.
Proof.
move=> mo Us HL0 HU0 H0 HLi HUi Hsgn H lt_d dt.
have sUs : size Us = size A by rewrite /Us size_map /luU /luK size_seriesT.
pose p : {poly K} := \prod_(i < n) Poly [seq mxget U i i | U <- Us].
have cgdt : cg (size A) dt (sgn%:P * p).
  move=> e lt_e; rewrite /dt /mo -(detU_luU_is_det HL0 HU0 H0 HLi HUi Hsgn lt_e).
  by rewrite detU_spec // size_map /luU /luK size_seriesT.
have -> : (dt * (Poly (logdetU n Us sgn0 abs0 l0))^`())`_d =
          (sgn%:P * p * (Poly (logdetU n Us sgn0 abs0 l0))^`())`_d.
  apply: (@cg_mul _ d.+1) => // e lt_e; apply: cgdt.
  exact: leq_trans lt_e (ltnW lt_d).
rewrite -mulrA coefCM logdetU_deriv ?sUs //.
by rewrite !coef_deriv cgdt // coefCM mulrnAr.
Qed.
End LogdetSpec.

