(* Transposition by an arbitrary axis permutation, as a gather map on flat row-major data (Array.transpose_gather), composed with the
   transposition by the inverse permutation is the identity -- for every rank, every shape and every permutation.  Corollary: the
   axis moves of utpm2dirs / utpm2base_and_dirs / base_and_dirs2utpm (direction axes to the end and back) are mutually inverse for
   every D, P and shape (the bounded reflection proof of ConvSpec.v made unbounded). *)
From mathcomp Require Import all_ssreflect all_algebra.
From AlgoV Require Import Sums Series Array ArraySpec Conv ConvSpec.
Set Implicit Arguments. Unset Strict Implicit. Unset Printing Implicit Defensive.

(* the inverse of an axis permutation given as a list: position of each axis *)
Definition inv_perm (perm : seq nat) : seq nat := [seq index a perm | a <- iota 0 (size perm)].

(* composition of two gathers' index maps: first g1 (applied to the data), then g2 *)
(* Conv.gather_comp g1 g2 = [seq nth 0 g1.2 o | o <- g2.2] *)


(* ---------- auxiliary facts ---------- *)
Lemma all2_ltP (idx s : seq nat) : size idx = size s ->
  (forall k, k < size s -> nth 0 idx k < nth 0 s k) -> all2 (fun i n => i < n) idx s.
Proof.
elim: idx s => [|i idx IH] [|n s] //= [sz] H.
rewrite (H 0) //=; apply: IH => // k lt_k; exact: (H k.+1).
Qed.

Lemma unravel_lt s j k : j < nelem s -> k < size s -> nth 0 (unravel s j) k < nth 0 s k.
Proof.
elim: s j k => [|n s IH] j [|k] //= lt_j.
- move=> _; have [z|nz] := posnP (nelem s); first by move: lt_j; rewrite z muln0.
  by rewrite ltn_divLR.
- rewrite ltnS => lt_k; have [z|nz] := posnP (nelem s); first by move: lt_j; rewrite z muln0.
  by apply: IH => //; rewrite ltn_pmod.
Qed.

Lemma ravel_lt s idx : size idx = size s ->
  (forall k, k < size s -> nth 0 idx k < nth 0 s k) -> ravel s idx < nelem s.
Proof.
elim: s idx => [|n s IH] [|i idx] //= [sz] H.
have lt_r : ravel s idx < nelem s by apply: IH => // k lt_k; exact: (H k.+1).
have lt_i : i < n by exact: (H 0).
apply: (@leq_trans (i.+1 * nelem s)); last by rewrite leq_mul2r lt_i orbT.
by rewrite mulSn [X in _ < X]addnC ltn_add2l.
Qed.

Lemma nelem_perm (s t : shape) : perm_eq s t -> nelem s = nelem t.
Proof. by move=> pst; rewrite /nelem !foldrE; apply: perm_big. Qed.

Lemma nth_map_iota0 (T : Type) (x0 : T) (f : nat -> T) n k : k < n ->
  nth x0 [seq f a | a <- iota 0 n] k = f k.
Proof. by move=> lt_k; rewrite (nth_map 0) ?size_iota // nth_iota // add0n. Qed.

Lemma map_nth_iota_id (T : Type) (x0 : T) (s : seq T) n : size s = n ->
  [seq nth x0 s a | a <- iota 0 n] = s.
Proof. by move=> <-; rewrite map_nth_iota0 // take_size. Qed.

Lemma size_inv_perm perm : size (inv_perm perm) = size perm.
Proof. by rewrite /inv_perm size_map size_iota. Qed.

Section Perm.
Variables (perm : seq nat) (n : nat).
Hypothesis Hp : perm_eq perm (iota 0 n).

Lemma pm_size : size perm = n.
Proof. by rewrite (perm_size Hp) size_iota. Qed.
Lemma pm_uniq : uniq perm.
Proof. by rewrite (perm_uniq Hp) iota_uniq. Qed.
Lemma pm_mem a : (a \in perm) = (a < n).
Proof. by rewrite (perm_mem Hp) mem_iota add0n. Qed.
Lemma pm_nth_lt k : k < n -> nth 0 perm k < n.
Proof. by move=> lt_k; rewrite -pm_mem mem_nth // pm_size. Qed.
Lemma pm_index_lt a : a < n -> index a perm < n.
Proof. by move=> lt_a; rewrite -[X in _ < X]pm_size index_mem pm_mem. Qed.
Lemma pm_nth_index a : a < n -> nth 0 perm (index a perm) = a.
Proof. by move=> lt_a; rewrite nth_index // pm_mem. Qed.
Lemma pm_index_nth k : k < n -> index (nth 0 perm k) perm = k.
Proof. by move=> lt_k; rewrite index_uniq ?pm_size // pm_uniq. Qed.

Lemma inv_nth a : a < n -> nth 0 (inv_perm perm) a = index a perm.
Proof. by move=> lt_a; rewrite /inv_perm pm_size nth_map_iota0. Qed.

Lemma inv_perm_perm : perm_eq (inv_perm perm) (iota 0 n).
Proof.
have sz : size (inv_perm perm) = n by rewrite size_inv_perm pm_size.
have un : uniq (inv_perm perm).
  rewrite /inv_perm pm_size map_inj_in_uniq ?iota_uniq // => a b.
  rewrite !mem_iota !add0n /= => lt_a lt_b E.
  by rewrite -(pm_nth_index lt_a) E pm_nth_index.
apply: uniq_perm => //; first exact: iota_uniq.
have sub : {subset inv_perm perm <= iota 0 n}.
  move=> b /(nthP 0) [a]; rewrite sz => lt_a <-.
  by rewrite inv_nth // mem_iota add0n /=; apply: pm_index_lt.
by have [] := uniq_min_size un sub; rewrite // size_iota sz.
Qed.

Lemma inv_index b : b < n -> index b (inv_perm perm) = nth 0 perm b.
Proof.
move=> lt_b; have un := perm_uniq inv_perm_perm; rewrite iota_uniq in un.
have lt_pb := pm_nth_lt lt_b.
rewrite -{1}(pm_index_nth lt_b) -(inv_nth lt_pb) index_uniq //.
by rewrite size_inv_perm pm_size.
Qed.
End Perm.

Lemma tg2_nth perm s j : j < nelem [seq nth 0 s a | a <- perm] ->
  nth 0 (transpose_gather perm s).2 j =
  ravel s [seq nth 0 (unravel [seq nth 0 s a | a <- perm] j) (index a perm) | a <- iota 0 (size s)].
Proof. by move=> lt_j; rewrite /transpose_gather /= nth_map_iota0. Qed.

Lemma size_tg2 perm s : size (transpose_gather perm s).2 = nelem [seq nth 0 s a | a <- perm].
Proof. by rewrite /transpose_gather /= size_map size_iota. Qed.

Lemma tg_shape_perm perm s : perm_eq perm (iota 0 (size s)) -> perm_eq [seq nth 0 s a | a <- perm] s.
Proof. by move=> /(perm_map (nth 0 s)); rewrite map_nth_iota_id. Qed.

Lemma tg_inv_shape perm s : perm_eq perm (iota 0 (size s)) ->
  [seq nth 0 [seq nth 0 s a | a <- perm] b | b <- inv_perm perm] = s.
Proof.
move=> Hp; rewrite /inv_perm -map_comp (pm_size Hp) -[RHS](@map_nth_iota_id _ 0 s (size s)) //.
apply/eq_in_map => a; rewrite mem_iota add0n /= => lt_a.
by rewrite (nth_map 0) ?(pm_size Hp) ?(pm_index_lt Hp) // (pm_nth_index Hp).
Qed.

Theorem transpose_gather_shape (perm : seq nat) (s : shape) :
  (transpose_gather perm s).1 = [seq nth 0 s a | a <- perm].
Proof. by []. Qed.

(* the composed index map, pointwise *)
Lemma transpose_inv_pt (perm : seq nat) (s : shape) j : perm_eq perm (iota 0 (size s)) -> j < nelem s ->
  let o := [seq nth 0 s a | a <- perm] in
  let k := ravel o [seq nth 0 (unravel s j) (index b (inv_perm perm)) | b <- iota 0 (size o)] in
  k < nelem o /\ nth 0 (transpose_gather perm s).2 k = j.
Proof.
move=> Hp lt_j o k; rewrite {}/k.
have sz_o : size o = size s by rewrite size_map (pm_size Hp).
set i := unravel s j.
set i' := [seq _ | b <- iota 0 (size o)].
set k := ravel o i'.
have sz_i : size i = size s by rewrite size_unravel.
have sz_i' : size i' = size o by rewrite size_map size_iota.
have nth_i' b : b < size s -> nth 0 i' b = nth 0 i (nth 0 perm b).
  by move=> lt_b; rewrite /i' sz_o nth_map_iota0 // (inv_index Hp).
have nth_o b : b < size s -> nth 0 o b = nth 0 s (nth 0 perm b).
  by move=> lt_b; rewrite (nth_map 0) // (pm_size Hp).
have bnd b : b < size o -> nth 0 i' b < nth 0 o b.
  rewrite sz_o => lt_b; rewrite nth_i' // nth_o //.
  by apply: unravel_lt => //; apply: (pm_nth_lt Hp).
have lt_k : k < nelem o by apply: ravel_lt.
split=> //; rewrite tg2_nth // -/o unravel_ravel //; last exact: all2_ltP.
have -> : [seq nth 0 i' (index a perm) | a <- iota 0 (size s)] = i.
  rewrite -[RHS](@map_nth_iota_id _ 0 i (size s)) //.
  apply/eq_in_map => a; rewrite mem_iota add0n /= => lt_a.
  by rewrite nth_i' ?(pm_index_lt Hp) // (pm_nth_index Hp).
exact: ravel_unravel.
Qed.

Lemma transpose_inv_g22 (perm : seq nat) (s : shape) : perm_eq perm (iota 0 (size s)) ->
  let o := [seq nth 0 s a | a <- perm] in
  (transpose_gather (inv_perm perm) o).2 =
  [seq ravel o [seq nth 0 (unravel s j) (index b (inv_perm perm)) | b <- iota 0 (size o)] | j <- iota 0 (nelem s)].
Proof. by move=> Hp o; rewrite /transpose_gather [in LHS]/= tg_inv_shape. Qed.

(* transposing by perm and then by its inverse restores shape and element order *)
Theorem transpose_inv_id (perm : seq nat) (s : shape) : perm_eq perm (iota 0 (size s)) ->
  let g1 := transpose_gather perm s in
  let g2 := transpose_gather (inv_perm perm) g1.1 in
  g2.1 = s /\ gather_comp g1 g2 = iota 0 (nelem s).
Proof.
move=> Hp g1 g2; split; first exact: tg_inv_shape.
rewrite /gather_comp /g2 transpose_gather_shape transpose_inv_g22 // -map_comp -[RHS]map_id.
apply/eq_in_map => j; rewrite mem_iota add0n /= => lt_j.
by have [_] := transpose_inv_pt Hp lt_j.
Qed.

(* in terms of data: for every flat data array of the right size *)
Theorem transpose_inv_data (T : Type) (x0 : T) (perm : seq nat) (s : shape) (data : seq T) :
  perm_eq perm (iota 0 (size s)) -> size data = nelem s ->
  apply_gather x0 (transpose_gather (inv_perm perm) (transpose_gather perm s).1) (apply_gather x0 (transpose_gather perm s) data) = data.
Proof.
move=> Hp sz; rewrite /apply_gather transpose_gather_shape transpose_inv_g22 // -map_comp.
rewrite -[RHS](@map_nth_iota_id _ x0 data (nelem s)) //.
apply/eq_in_map => j; rewrite mem_iota add0n => /andP[_ lt_j].
have [lt_k E] := transpose_inv_pt Hp lt_j.
by rewrite /comp (nth_map 0) ?E // size_tg2.
Qed.

Lemma inv_perm_invol perm n : perm_eq perm (iota 0 n) -> inv_perm (inv_perm perm) = perm.
Proof.
move=> Hp; have Hq := inv_perm_perm Hp.
apply: (@eq_from_nth _ 0); first by rewrite !size_inv_perm.
move=> k; rewrite !size_inv_perm (pm_size Hp) => lt_k.
by rewrite (inv_nth Hq) // (inv_index Hp).
Qed.

Lemma index_iota_in p m a : p <= a < p + m -> index a (iota p m) = a - p.
Proof.
move=> /andP[le_pa lt_a]; have lt_k : a - p < m by rewrite ltn_subLR.
by rewrite -{1}(subnKC le_pa) -(nth_iota 0 p lt_k) index_uniq ?size_iota ?iota_uniq.
Qed.

(* the two permutations used by the helpers are inverse to each other *)
Theorem dirs_perms_inverse (rank : nat) : 2 <= rank ->
  inv_perm (utpm2dirs_perm rank) = dirs2utpm_perm rank /\ inv_perm (dirs2utpm_perm rank) = utpm2dirs_perm rank /\
  perm_eq (utpm2dirs_perm rank) (iota 0 rank) /\ perm_eq (dirs2utpm_perm rank) (iota 0 rank).
Proof.
case: rank => [|[|m]] // _.
have Hu : perm_eq (utpm2dirs_perm m.+2) (iota 0 m.+2).
  rewrite /utpm2dirs_perm !subSS subn0 perm_catC.
  by rewrite (_ : iota 0 m.+2 = [:: 0; 1] ++ iota 2 m) // perm_cat2r.
have E1 : inv_perm (utpm2dirs_perm m.+2) = dirs2utpm_perm m.+2.
  apply: (@eq_from_nth _ 0).
    by rewrite size_inv_perm (pm_size Hu) /dirs2utpm_perm size_cat size_iota !subSS subn0.
  move=> k; rewrite size_inv_perm (pm_size Hu) => lt_k; rewrite (inv_nth Hu) //.
  rewrite /utpm2dirs_perm /dirs2utpm_perm !subSS subn0 index_cat mem_iota size_iota.
  case: k lt_k => [|[|k]] lt_k; rewrite /= ?addn1 ?addn0 //.
  rewrite add2n !ltnS in lt_k *; rewrite lt_k index_iota_in /= ?add2n ?ltnS //.
  by rewrite nth_iota // !subSS subn0.
have Hd : perm_eq (dirs2utpm_perm m.+2) (iota 0 m.+2) by rewrite -E1; apply: inv_perm_perm.
by split=> //; split=> //; rewrite -E1; apply: inv_perm_invol Hu.
Qed.

(* the unbounded round trip: every D, P and shape (zero extents included) *)
Transparent roundtrip_ok.
Theorem base_dirs_roundtrip (D P : nat) (shp : shape) : roundtrip_ok D P shp = true.
Proof.
rewrite /roundtrip_ok; cbv zeta; set s := [:: D; P] ++ shp.
have rk : 2 <= size s by [].
have [Eu [Ed [Hu Hd]]] := dirs_perms_inverse rk.
set g1 := utpm2dirs_gather s.
have sz1 : size g1.1 = size s by rewrite /g1 /utpm2dirs_gather transpose_gather_shape size_map (pm_size Hu).
set g2 := dirs2utpm_gather g1.1.
have [E2 C12] : g2.1 = s /\ gather_comp g1 g2 = iota 0 (nelem s).
  by rewrite /g2 /dirs2utpm_gather sz1 -Eu; apply: transpose_inv_id.
have ne1 : nelem g1.1 = nelem s.
  by apply: nelem_perm; rewrite /g1 /utpm2dirs_gather transpose_gather_shape; apply: tg_shape_perm.
rewrite E2 C12 !eqxx !andTb.
have -> : gather_comp g2 (utpm2dirs_gather s) = iota 0 (nelem s); last exact: eqxx.
rewrite -ne1 /utpm2dirs_gather -Ed -[X in transpose_gather _ X]E2.
have Hd1 : perm_eq (dirs2utpm_perm (size s)) (iota 0 (size g1.1)) by rewrite sz1.
have [_] := transpose_inv_id Hd1.
by rewrite /g2 /dirs2utpm_gather sz1.
Qed.

