(* MODEL of algopy/exact_interpolation.py (generate_multi_indices, multi_index_binomial, increment,
   gamma, generate_Gamma_and_rays) -- exact arithmetic over a field K, same loops as the code. *)
From mathcomp Require Import all_ssreflect all_algebra.
From AlgoV Require Import Sums.
Set Implicit Arguments. Unset Strict Implicit. Unset Printing Implicit Defensive.
Import GRing.Theory.
Local Open Scope ring_scope.

(* exact_interpolation.py:29-93.  rec(r,n,N,deg): slot n runs a = remaining .. 0 (descending),
   the last slot takes what is left.  N = 0 is outside the domain (the code raises). *)
Fixpoint gen_mi (N : nat) (deg : nat) : seq (seq nat) :=
  match N with
  | 0 => [::]
  | N'.+1 =>
    match N' with
    | 0 => [:: [:: deg]]
    | _.+1 => flatten [seq [seq a :: t | t <- gen_mi N' (deg - a)] | a <- rev (iota 0 deg.+1)]
    end
  end.

(* exact_interpolation.py:165-212, on reversed lists (the loop runs n = len-1 .. 0) *)
Fixpoint incr_rev (i k : seq nat) (carry : nat) : seq nat :=
  match i, k with
  | i_n :: i', k_n :: k' =>
      if i_n == 0%N then k_n :: incr_rev i' k' carry
      else let tmp := (k_n + carry)%N in
           let c := (tmp %/ i_n.+1)%N in
           (tmp %% i_n.+1)%N :: (if c == 0%N then k' else incr_rev i' k' c)
  | _, _ => k
  end.
Definition increment (i k : seq nat) : seq nat := rev (incr_rev (rev i) (rev k) 1).

(* convert_multi_indices_to_pos, one row: exact_interpolation.py:156-162 *)
Definition mi_to_pos (i : seq nat) : seq nat :=
  flatten [seq nseq (nth 0%N i n) n | n <- iota 0 (size i)].

Section Gamma.
Variable K : fieldType.

(* mybinomial(i,j) = prod_{k<j} (i-k)/(j-k) with a field element i (generalized binomial) *)
Definition gbinom (x : K) (j : nat) : K := prodn_f j (fun k => (x - k%:R) / (j - k)%:R).
Definition mi_binomial (x : seq K) (j : seq nat) : K :=
  prodn_f (size x) (fun n => gbinom (nth 0 x n) (nth 0%N j n)).
Definition mi_abs (i : seq nat) : nat := sumn i.
Definition mi_factorial (i : seq nat) : K := prodn_f (size i) (fun n => (nth 0%N i n)`!%:R).

(* alpha(i,j,k,deg): the summand below (13.13) *)
Definition alpha (i j k : seq nat) (deg : nat) : K :=
  let ak := mi_abs k in
  let term1 := (-1) ^+ (mi_abs [seq (nth 0%N i n - nth 0%N k n)%N | n <- iota 0 (size i)]) in
  let term2 := mi_binomial [seq (c%:R : K) | c <- i] k in
  let term3 := mi_binomial [seq (deg * c)%:R / ak%:R | c <- k] j in
  let term4 := (ak%:R / deg%:R) ^+ (mi_abs i) in
  term1 * term2 * term3 * term4.

(* while (i == k).all() == False: increment(i,k); retval += alpha(...) ; fuel-bounded, None = out of fuel *)
Fixpoint gamma_loop (fuel : nat) (i j k : seq nat) (deg : nat) (acc : K) : option K :=
  if i == k then Some acc else
  if fuel is f.+1 then
    let k' := increment i k in gamma_loop f i j k' deg (acc + alpha i j k' deg)
  else None.

Definition gamma (i j : seq nat) : option K :=
  let deg := mi_abs j in
  let fuel := foldr muln 1%N [seq c.+1 | c <- i] in
  omap (fun r => r / mi_factorial i) (gamma_loop fuel i j (nseq (size i) 0%N) deg 0).

(* generate_Gamma_and_rays with S = eye(N): rays = J *)
Definition Gamma (N deg : nat) : seq (seq (option K)) :=
  let J := gen_mi N deg in [seq [seq gamma i j | j <- J] | i <- J].

Definition mi_pow (x : seq nat) (a : seq nat) : K :=
  prodn_f (size x) (fun n => ((nth 0%N x n)%:R : K) ^+ (nth 0%N a n)).

(* the interpolation identity  sum_j Gamma[i,j] * ray_j^a = delta(i,a)  as a boolean *)
Definition odflt0 (o : option K) : K := if o is Some v then v else 0.
Definition isSome (o : option K) : bool := if o is Some _ then true else false.
Definition Gamma_identity (N deg : nat) : bool :=
  let J := gen_mi N deg in
  let G := Gamma N deg in
  all (fun r => all isSome r) G &&
  all (fun ir =>
    all (fun a =>
       sumf (fun jg => odflt0 jg.2 * mi_pow jg.1 a) (zip J ir.2) == (if ir.1 == a then 1 else 0)) J) (zip J G).
End Gamma.
