(* The reverse sweep rolls every in-place write back; re-applying the recorded writes restores the state of the forward
   evaluation, so repeated sweeps are independent of each other. *)
From mathcomp Require Import all_ssreflect all_algebra.
From AlgoV Require Import Tracer TracerInst.
Set Implicit Arguments. Unset Strict Implicit. Unset Printing Implicit Defensive.
Import GRing.Theory.
Local Open Scope ring_scope.

Section SeqAux.
Variable A : Type.
Lemma set_nth_catl (d : A) s1 s2 n y : (n < size s1)%N -> set_nth d (s1 ++ s2) n y = set_nth d s1 n y ++ s2.
Proof. by elim: s1 n => [|x s1 IH] [|n] //= lt; rewrite IH. Qed.
Lemma set_nth_same (d : A) s n : (n < size s)%N -> set_nth d s n (nth d s n) = s.
Proof. by elim: s n => [|x s IH] [|n] //= lt; rewrite IH. Qed.
Lemma set_nth_twice (d : A) s n y z : set_nth d (set_nth d s n y) n z = set_nth d s n z.
Proof. by rewrite set_set_nth eqxx. Qed.
End SeqAux.

Section History.
Variable S : comRingType.
Variable recip : S -> S.
Variables (unval : nat -> S -> S) (unpart : nat -> S -> S -> S).
Implicit Types (t : tape S) (xs ybars : seq S) (outs : seq nat).

Local Notation hgetS := (@hget S 0).
Local Notation hsetS := (@hset S 0).
Local Notation nvalS := (@nval S 0).
Local Notation derefS := (@deref S 0).
Local Notation fwd := (@fwd_node S 0 +%R (@r_sub S) *%R (r_div recip) -%R (@r_pown S) unval).
Local Notation revn := (@rev_node S 0 +%R *%R (r_div recip) -%R (@r_natmul S) (@r_pown S) unpart).
Local Notation revl := (@rev_loop S 0 +%R *%R (r_div recip) -%R (@r_natmul S) (@r_pown S) unpart).
Local Notation baradd := (@bar_add S 0 +%R).
Local Notation seedS := (@seed S 0 +%R).

(* ---------- heaps ---------- *)
Definition shape (h : heap S) : seq nat := map size h.

Lemma size_hset (h : heap S) b k v : (b < size h)%N -> size (hsetS h b k v) = size h.
Proof. by move=> lt; rewrite /hset size_set_nth; apply/maxn_idPr. Qed.

Lemma hset_cat (h1 h2 : heap S) b k v : (b < size h1)%N -> hsetS (h1 ++ h2) b k v = hsetS h1 b k v ++ h2.
Proof. by move=> lt; rewrite /hset nth_cat lt set_nth_catl. Qed.

Lemma hget_cat (h1 h2 : heap S) b k : (b < size h1)%N -> hgetS (h1 ++ h2) b k = hgetS h1 b k.
Proof. by move=> lt; rewrite /hget nth_cat lt. Qed.

Lemma hset_undo (h : heap S) b k v : (b < size h)%N -> (k < size (nth [::] h b))%N ->
  hsetS (hsetS h b k v) b k (hgetS h b k) = h.
Proof.
move=> lb lk; rewrite /hset /hget nth_set_nth /= eqxx !set_nth_twice.
by rewrite set_nth_same // set_nth_same.
Qed.

Lemma shape_set_nth (h : heap S) b r : (b < size h)%N -> size r = size (nth [::] h b) ->
  shape (set_nth [::] h b r) = shape h.
Proof. by rewrite /shape; elim: h b => [|x h IH] [|b] //= lt e; rewrite ?e ?IH. Qed.

Lemma shape_hset (h : heap S) b k v : (b < size h)%N -> (k < size (nth [::] h b))%N -> shape (hsetS h b k v) = shape h.
Proof. by move=> lb lk; apply: shape_set_nth => //; rewrite size_set_nth; apply/maxn_idPr. Qed.

Lemma nth_shape (h : heap S) b : nth 0%N (shape h) b = size (nth [::] h b).
Proof.
case: (ltnP b (size h)) => lt; first by rewrite (nth_map [::]).
by rewrite !nth_default // size_map.
Qed.

Definition zrows (ns : seq nat) : heap S := [seq nseq n 0 | n <- ns].
Definition zn (n : node S) : option nat := if nop n is NZeros m then Some m else None.

Definition inr (h : heap S) (v : val S) : bool :=
  match v with VS _ => true | VBuf b => (b < size h)%N | VRef b _ => (b < size h)%N end.

Lemma inr_mono (h h' : heap S) v : (size h <= size h')%N -> inr h v -> inr h' v.
Proof. by move=> le; case: v => //= b *; apply: leq_trans le. Qed.

Lemma inr_nth (h : heap S) vs a : all (inr h) vs -> inr h (nth (VS 0) vs a).
Proof.
move=> /all_nthP al; case: (ltnP a (size vs)) => lt; first exact: al.
by rewrite nth_default.
Qed.

Lemma deref_cat (h1 h2 : heap S) v : inr h1 v -> derefS (h1 ++ h2) v = derefS h1 v.
Proof. by case: v => //= b k lt; rewrite hget_cat. Qed.

(* ---------- the value heap of the reverse sweep ---------- *)
Lemma rheap_bar_add vals (st : rstate S) a v : rheap (baradd vals st a v) = rheap st.
Proof. by case: st => h bh bar; rewrite /bar_add; case: (nth _ _ _). Qed.

Lemma rheap_seed vals (st : rstate S) outs ybars : rheap (seedS vals st outs ybars) = rheap st.
Proof. by rewrite /seed; elim: (zip _ _) st => //= ov l IH st; rewrite IH rheap_bar_add. Qed.

Definition undo_step (vals : seq (val S)) (store : seq (option S)) (h : heap S) (j : nat) (n : node S) : heap S :=
  match nop n with
  | NSet k => match nth (VS 0) vals (nth 0%N (nargs n) 0) with
              | VBuf b => match nth None store j with Some old => hsetS h b k old | None => h end
              | _ => h end
  | _ => h end.

Definition redo_step (vals : seq (val S)) (h : heap S) (n : node S) : heap S :=
  match nop n with
  | NSet k => match nth (VS 0) vals (nth 0%N (nargs n) 0) with
              | VBuf b => hsetS h b k (nvalS h vals (nth 0%N (nargs n) 1))
              | _ => h end
  | _ => h end.

Lemma rheap_rev_node vals store (st : rstate S) j n :
  rheap (revn vals store st j n) = undo_step vals store (rheap st) j n.
Proof.
rewrite /rev_node /undo_step; case: (nop n) => [|c|k|op||f|m|m|k|k]; rewrite ?rheap_bar_add //.
  by case: op; rewrite !rheap_bar_add.
case: (nth _ _ _) => // b; case: (nth _ _ _) => [old|]; rewrite ?rheap_bar_add //=; by rewrite rheap_bar_add.
Qed.

Lemma rollforwardE t vals h : R_rollforward t vals h = foldl (redo_step vals) h t.
Proof. by []. Qed.

Lemma buf_sizeP t a n : buf_size t a = Some n -> nop (nth (Node (NInput S) [::]) t a) = NZeros S n.
Proof. by rewrite /buf_size; case: (nop _) => //= m [->]. Qed.

(* ---------- one run ---------- *)
Section Run.
Variables (t : tape S) (xs : seq S).
Hypothesis Hwf : wf_tape (size xs) t.

Let nd0 : node S := Node (NInput S) [::].
Let nd j := nth nd0 t j.
Let init : fstate S := FState [:: xs] [::] [::].
Definition stj j := foldl fwd init (take j t).

Lemma stjS j : (j < size t)%N -> stj j.+1 = fwd (stj j) (nd j).
Proof. by move=> lt; rewrite /stj (take_nth nd0) // -cats1 foldl_cat. Qed.

Lemma wfj j : (j < size t)%N -> wf_node (size xs) t j (nd j).
Proof. by case/andP: Hwf => _ /allP H lt; apply: H; rewrite mem_iota. Qed.

Lemma fwd_vals s n : exists v, fvals (fwd s n) = rcons (fvals s) v.
Proof.
case: s => h vs st; rewrite /fwd_node; case: (nop n) => *; try by eexists.
by case: (nth _ _ _) => *; eexists.
Qed.

Lemma fwd_store s n : exists v, fstore (fwd s n) = rcons (fstore s) v.
Proof.
case: s => h vs st; rewrite /fwd_node; case: (nop n) => *; try by eexists.
by case: (nth _ _ _) => *; eexists.
Qed.

Record finv j (s : fstate S) : Prop := FInv {
  fi_vals : size (fvals s) = j;
  fi_store : size (fstore s) = j;
  fi_pos : (0 < size (fheap s))%N;
  fi_inr : all (inr (fheap s)) (fvals s);
  fi_shape : shape (fheap s) = size xs :: pmap zn (take j t);
  fi_zeros : forall a n, (a < j)%N -> nop (nd a) = NZeros S n ->
             exists2 b, nth (VS 0) (fvals s) a = VBuf S b & nth 0%N (shape (fheap s)) b = n }.

Lemma finv_step j s : finv j s -> (j < size t)%N -> finv j.+1 (fwd s (nd j)).
Proof.
case: s => h vs st [/= sv ss hp hi hs hz] lt; have wf := wfj lt.
have tk : pmap zn (take j.+1 t) = pmap zn (take j t) ++ (if zn (nd j) is Some m then [:: m] else [::]).
  by rewrite (take_nth nd0) // -cats1 pmap_cat /=; case: (zn _).
have same v o : inr h v -> (forall n, nop (nd j) <> NZeros S n) ->
    finv j.+1 (FState h (rcons vs v) (rcons st o)).
  move=> iv nz; split; rewrite /= ?size_rcons ?sv ?ss ?all_rcons ?iv //.
    rewrite hs tk /zn; case E: (nop (nd j)) => [|c|k|op||f|m|m|k|k]; rewrite ?cats0 //.
    by case: (nz _ E).
  move=> a n; rewrite ltnS leq_eqVlt => /orP [/eqP -> /nz //|lta] E.
  by rewrite nth_rcons sv lta; apply: hz.
move: wf; rewrite /wf_node; case E: (nop (nd j)) => [|c|k|op||f|m|m|k|k] wf; try by apply: same => //; rewrite E.
- (* NZeros *)
  split; rewrite /= ?size_rcons ?sv ?ss ?all_rcons //=.
  + by rewrite size_rcons ltnSn /=; apply: sub_all hi => v; apply: inr_mono; rewrite size_rcons.
  + by rewrite /shape map_rcons -/(shape h) hs tk /zn E size_nseq -cats1.
  + move=> a n; rewrite ltnS leq_eqVlt => /orP [/eqP ->|lta].
      rewrite E => -[<-]; exists (size h); first by rewrite nth_rcons sv ltnn eqxx.
      by rewrite /shape map_rcons nth_rcons size_map ltnn eqxx size_nseq.
    move=> /(hz _ _ lta) [b Eb <-]; exists b; first by rewrite nth_rcons sv lta.
    rewrite /shape map_rcons nth_rcons size_map.
    by have := inr_nth a hi; rewrite Eb /= => ->.
- (* NSet *)
  case/and3P: wf => wa /andP [/eqP sz _]; case Eb: (buf_size _ _) => [n|] // kn.
  have la0 : (nth 0%N (nargs (nd j)) 0 < j)%N by apply: (all_nthP 0%N wa); rewrite sz.
  have [b Ev Es] := hz _ _ la0 (buf_sizeP Eb).
  rewrite Ev.
  have lb : (b < size h)%N by have := inr_nth (nth 0%N (nargs (nd j)) 0) hi; rewrite Ev.
  have lk : (k < size (nth [::] h b))%N by rewrite -nth_shape Es.
  split; rewrite /= ?size_rcons ?sv ?ss ?all_rcons ?size_hset //=.
  + by apply: sub_all hi => v; apply: inr_mono; rewrite size_hset.
  + by rewrite shape_hset // hs tk /zn E cats0.
  + move=> a n'; rewrite ltnS leq_eqVlt => /orP [/eqP ->|lta]; first by rewrite E.
    by rewrite shape_hset // nth_rcons sv lta; apply: hz.
- (* NGet *)
  apply: same; last by rewrite E.
  by case Ev: (nth _ _ _) => [|b|] //=; have := inr_nth (nth 0%N (nargs (nd j)) 0) hi; rewrite Ev.
Qed.

Lemma stj_inv j : (j <= size t)%N -> finv j (stj j).
Proof.
elim: j => [_|j IH lt]; last by rewrite stjS //; apply: finv_step => //; apply: IH; apply: ltnW.
by rewrite /stj take0 /=; split => //=; rewrite take0.
Qed.

Lemma stj_vals_nth j d a : (j + d <= size t)%N -> (a < j)%N ->
  nth (VS 0) (fvals (stj (j + d))) a = nth (VS 0) (fvals (stj j)) a.
Proof.
elim: d => [|d IH]; first by rewrite addn0.
rewrite addnS => lt la; rewrite stjS //; have [v ->] := fwd_vals (stj (j + d)) (nd (j + d)).
rewrite nth_rcons (fi_vals (stj_inv (ltnW lt))) (leq_trans la (leq_addr _ _)).
by apply: IH => //; apply: ltnW.
Qed.

Lemma stj_store_nth j d a : (j + d <= size t)%N -> (a < j)%N ->
  nth None (fstore (stj (j + d))) a = nth None (fstore (stj j)) a.
Proof.
elim: d => [|d IH]; first by rewrite addn0.
rewrite addnS => lt la; rewrite stjS //; have [v ->] := fwd_store (stj (j + d)) (nd (j + d)).
rewrite nth_rcons (fi_store (stj_inv (ltnW lt))) (leq_trans la (leq_addr _ _)).
by apply: IH => //; apply: ltnW.
Qed.

Definition fvalsF := fvals (stj (size t)).
Definition fstoreF := fstore (stj (size t)).

Lemma vals_nth j a : (j <= size t)%N -> (a < j)%N -> nth (VS 0) fvalsF a = nth (VS 0) (fvals (stj j)) a.
Proof. by move=> le la; rewrite /fvalsF -(subnKC le); apply: stj_vals_nth => //; rewrite subnKC. Qed.

Lemma store_nth j a : (j <= size t)%N -> (a < j)%N -> nth None fstoreF a = nth None (fstore (stj j)) a.
Proof. by move=> le la; rewrite /fstoreF -(subnKC le); apply: stj_store_nth => //; rewrite subnKC. Qed.

(* the heap after j nodes, extended by the (still zero) rows allocated later *)
Definition E j : heap S := fheap (stj j) ++ zrows (pmap zn (drop j t)).

Lemma Estep j : (j < size t)%N ->
  undo_step fvalsF fstoreF (E j.+1) j (nd j) = E j /\ redo_step fvalsF (E j) (nd j) = E j.+1.
Proof.
move=> lt; have wf := wfj lt; have := stj_inv (ltnW lt).
have hv a : (a < j)%N -> nth (VS 0) fvalsF a = nth (VS 0) (fvals (stj j)) a.
  by apply: vals_nth; apply: ltnW.
rewrite /E /undo_step /redo_step (store_nth lt (ltnSn j)) (drop_nth nd0 lt) -/(nd j) stjS //.
case: (stj j) hv => h vs st /= hv [/= sv ss hp hi hs hz].
move: wf; rewrite /wf_node /zn; case E: (nop (nd j)) => [|c|k|op||f|m|m|k|k] wf //=.
- by rewrite cat_rcons.
- case/and3P: wf => wa /andP [/eqP sz _]; case Eb: (buf_size _ _) => [n|] // kn.
  have la0 : (nth 0%N (nargs (nd j)) 0 < j)%N by apply: (all_nthP 0%N wa); rewrite sz.
  have la1 : (nth 0%N (nargs (nd j)) 1 < j)%N by apply: (all_nthP 0%N wa); rewrite sz.
  have [b Ev Es] := hz _ _ la0 (buf_sizeP Eb).
  rewrite !hv // Ev /= nth_rcons ss ltnn eqxx.
  have lb : (b < size h)%N by have := inr_nth (nth 0%N (nargs (nd j)) 0) hi; rewrite Ev.
  have lk : (k < size (nth [::] h b))%N by rewrite -nth_shape Es.
  split.
    by rewrite hset_cat ?size_hset // hset_undo.
  by rewrite hset_cat // /nval hv // deref_cat //; apply: inr_nth.
Qed.

Lemma rollback j (st : rstate S) : (j <= size t)%N -> rheap st = E j ->
  rheap (revl fvalsF fstoreF (rev (take j t)) j st) = E 0.
Proof.
elim: j st => [|j IH] st lt e; first by rewrite take0.
rewrite (take_nth nd0) // rev_rcons /=; apply: IH; first exact: ltnW.
by rewrite rheap_rev_node e; case: (Estep lt).
Qed.

Lemma rollfwd j : (j <= size t)%N -> foldl (redo_step fvalsF) (E 0) (take j t) = E j.
Proof.
elim: j => [|j IH] lt; first by rewrite take0.
by rewrite (take_nth nd0) // -cats1 foldl_cat IH ?(ltnW lt) //=; case: (Estep lt).
Qed.

Lemma E_0 : E 0 = xs :: [seq nseq (size row) 0 | row <- behead (fheap (stj (size t)))].
Proof.
rewrite /E {1}/stj take0 drop0 /=; congr (_ :: _).
have := fi_shape (stj_inv (leqnn _)); rewrite take_size => /(congr1 behead) /= <-.
by rewrite /zrows /shape behead_map -map_comp.
Qed.

Lemma E_size : E (size t) = fheap (stj (size t)).
Proof. by rewrite /E drop_size /= cats0. Qed.

Lemma stj_size : stj (size t) = R_replay recip unval t xs.
Proof. by rewrite /stj take_size. Qed.

End Run.

(* the reverse sweep rolls every in-place write back: afterwards the value heap is the heap before the first node ran
   (the input row followed by all-zero buffers) *)
Theorem pullback_rolls_back t outs xs ybars : wf_tape (size xs) t ->
  rheap (R_pullback recip unpart t (R_replay recip unval t xs) outs ybars)
  = xs :: [seq nseq (size row) 0 | row <- behead (fheap (R_replay recip unval t xs))].
Proof.
move=> wf; rewrite -stj_size -(E_0 wf) /R_pullback /pullback.
have := @rollback t xs wf (size t) _ (leqnn _) _; rewrite take_size; apply.
by rewrite rheap_seed /= E_size.
Qed.

(* the repaired sweep re-applies the recorded writes: the graph is back in the state the forward evaluation left *)
Theorem pullback_fixed_restores t outs xs ybars : wf_tape (size xs) t ->
  rheap (R_pullback_fixed recip unpart t (R_replay recip unval t xs) outs ybars) = fheap (R_replay recip unval t xs).
Proof.
move=> wf; have := pullback_rolls_back outs ybars wf.
rewrite /R_pullback_fixed /pullback_fixed /R_pullback [LHS]/= => ->.
rewrite -stj_size -(E_0 wf) -/(R_rollforward t _ _) rollforwardE.
by have := rollfwd wf (leqnn (size t)); rewrite take_size /fvalsF => ->; rewrite E_size.
Qed.

(* hence several sweeps after one forward evaluation each return what a sweep on a fresh evaluation returns *)
Theorem second_sweep_same t outs outs' xs ybars ybars' : wf_tape (size xs) t ->
  let fs := R_replay recip unval t xs in
  let st1 := R_pullback_fixed recip unpart t fs outs ybars in
  R_pullback_fixed recip unpart t (FState (rheap st1) (fvals fs) (fstore fs)) outs' ybars'
  = R_pullback_fixed recip unpart t fs outs' ybars'.
Proof.
(* both sweeps only use the projections of the forward state *)
by move=> wf fs st1; rewrite /st1 /fs pullback_fixed_restores.
Qed.

End History.
