(* MODEL of _qr_full (algopy/utpm/algorithms.py): FULL QR decomposition of a matrix polynomial A (m x n, m >= n, full column
   rank base matrix): Q is m x m (orthogonal), R is m x n (upper trapezoidal: zero below the diagonal, in particular rows
   n .. m-1 vanish).  The base factors Q0 (m x m), R0 (m x n) are what scipy.linalg.qr returns, Rinv = inv(R0[:n,:]) (n x n).
   Per order d >= 1, as in the Python loop:
     dF = A_d;  S = 0;  for k in range(1,d):  dF -= Q_{d-k} R_k;  S -= Q_{d-k}^T Q_k;     S *= 0.5
     X = 0 (m x m);  X[:,:n] = PL[:,:n] * (Q0^T dF Rinv - S[:,:n])       (PL = strictly lower mask);   X = X - X^T
     K = S + X;   R_d = Q0^T dF - K R0;   Q_d = Q0 K.
   Two instances of the same recurrence: executable list matrices (qrfU, run by vm_compute) and mathcomp matrices
   (qrfM, theorems in QRFullSpec.v). *)
From Coq Require Import ZArith QArith Qcanon.
From mathcomp Require Import all_ssreflect all_algebra.
From AlgoV Require Import QcField Sums Series Matrix MatrixFact.
Set Implicit Arguments. Unset Strict Implicit. Unset Printing Implicit Defensive.
Import GRing.Theory.
Local Open Scope ring_scope.

Section Exec.
Variable K : fieldType.
Variables m n : nat.
Notation mxl := (mx K).
(* X = 0;  X[:,:n] = PL[:,:n] * (W - S[:,:n])  for W : m x n, S : m x m *)
Definition mlowcols (W S : mxl) : mxl :=
  mkmx m m (fun i j => if (j < n)%N && (j < i)%N then mxget W i j - mxget S i j else 0).
Definition qrf_stepU (A : seq mxl) (Q0 R0 Rinv : mxl) (QRs : seq (mxl * mxl)) : mxl * mxl :=
  let D := size QRs in
  let Qn d := (nth (mzero K m m, mzero K m n) QRs d).1 in let Rn d := (nth (mzero K m m, mzero K m n) QRs d).2 in
  let dF := foldl (fun acc k => msub m n acc (mmul m m n (Qn (D - k)%N) (Rn k))) (nth (mzero K m n) A D) (iota 1 D.-1) in
  let S0 := foldl (fun acc k => msub m m acc (mmul m m m (mtr m m (Qn (D - k)%N)) (Qn k))) (mzero K m m) (iota 1 D.-1) in
  let S := mhalf m S0 in
  let QtdF := mmul m m n (mtr m m Q0) dF in
  let X0 := mlowcols (mmul m n n QtdF Rinv) S in
  let X := msub m m X0 (mtr m m X0) in
  let Kk := madd m m S X in
  (mmul m m m Q0 Kk, msub m n QtdF (mmul m m n Kk R0)).
Definition qrfU (A : seq mxl) (Q0 R0 Rinv : mxl) : seq (mxl * mxl) := seriesT (qrf_stepU A Q0 R0 Rinv) (Q0, R0) (size A).
End Exec.

Section Spec.
Variable K : fieldType.
Variables m n : nat.
Notation MQ := 'M[K]_m.
Notation MR := 'M[K]_(m, n).
Notation MN := 'M[K]_n.
(* column j of the m x m matrix belongs to the first n columns iff  insub j : option 'I_n  is  Some j' *)
Definition lowcolsM (W : MR) (S : MQ) : MQ :=
  \matrix_(i, j) (if (j < i)%N then (if insub (val j) : option 'I_n is Some j' then W i j' - S i j else 0) else 0).
Definition qrf_stepM (A : seq MR) (Q0 : MQ) (R0 : MR) (Rinv : MN) (QRs : seq (MQ * MR)) : MQ * MR :=
  let D := size QRs in
  let Qn d := (nth (0, 0) QRs d).1 in let Rn d := (nth (0, 0) QRs d).2 in
  let dF := foldl (fun acc k => acc - Qn (D - k)%N *m Rn k) (nth 0 A D) (iota 1 D.-1) in
  let S0 := foldl (fun acc k => acc - (Qn (D - k)%N)^T *m Qn k) 0 (iota 1 D.-1) in
  let S := halfM S0 in
  let QtdF := Q0^T *m dF in
  let X0 := lowcolsM (QtdF *m Rinv) S in
  let X := X0 - X0^T in
  let Kk := S + X in
  (Q0 *m Kk, QtdF - Kk *m R0).
Definition qrfM (A : seq MR) (Q0 : MQ) (R0 : MR) (Rinv : MN) : seq (MQ * MR) :=
  seriesT (qrf_stepM A Q0 R0 Rinv) (Q0, R0) (size A).
End Spec.

(* the kernel runs under vm_compute over Qc: 3 x 2, D = 3,
   Q0 = 1/3 [[1,2,2],[2,1,-2],[2,-2,1]], R0 = [[1,2],[0,3],[0,0]], A_0 = Q0 R0, A_1 = [[1,0],[2,1],[0,-1]], A_2 = [[0,1],[1,1],[3,0]];
   the expected coefficients were computed independently with exact fractions following the Python loop, and agree with
   UTPM._qr_full on the same input up to the sign convention of scipy's base factors (to 1e-14) *)
Example qrfU_runs :
  qrfU 3 2 [:: [:: [:: qz 1 3; qz 8 3]; [:: qz 2 3; qz 7 3]; [:: qz 2 3; qz (-2) 3]];
               [:: [:: qz 1 1; qz 0 1]; [:: qz 2 1; qz 1 1]; [:: qz 0 1; qz (-1) 1]];
               [:: [:: qz 0 1; qz 1 1]; [:: qz 1 1; qz 1 1]; [:: qz 3 1; qz 0 1]]]
           [:: [:: qz 1 3; qz 2 3; qz 2 3]; [:: qz 2 3; qz 1 3; qz (-2) 3]; [:: qz 2 3; qz (-2) 3; qz 1 3]]
           [:: [:: qz 1 1; qz 2 1]; [:: qz 0 1; qz 3 1]; [:: qz 0 1; qz 0 1]]
           [:: [:: qz 1 1; qz (-2) 3]; [:: qz 0 1; qz 1 3]]
  == [:: ([:: [:: qz 1 3; qz 2 3; qz 2 3]; [:: qz 2 3; qz 1 3; qz (-2) 3]; [:: qz 2 3; qz (-2) 3; qz 1 3]],
          [:: [:: qz 1 1; qz 2 1]; [:: qz 0 1; qz 3 1]; [:: qz 0 1; qz 0 1]]);
         ([:: [:: qz 4 9; qz (-10) 27; qz 4 27]; [:: qz 8 9; qz (-26) 27; qz 11 27]; [:: qz (-10) 9; qz (-23) 27; qz 14 27]],
          [:: [:: qz 5 3; qz 4 1]; [:: qz 0 1; qz (-5) 3]; [:: qz 0 1; qz 0 1]]);
         ([:: [:: qz (-2) 1; qz 58 81; qz 4 243]; [:: qz (-3) 1; qz 127 54; qz (-100) 243]; [:: qz 7 3; qz 262 81; qz (-749) 486]],
          [:: [:: qz 34 9; qz (-98) 9]; [:: qz 0 1; qz 331 54]; [:: qz 0 1; qz 0 1]])].
Proof. by vm_compute. Qed.
