(* PROOFS: the Cholesky and LU Taylor recurrences (cholM, luM of MatrixFact.v) satisfy their defining equations at every order. *)
From mathcomp Require Import all_ssreflect all_algebra.
From AlgoV Require Import Sums Series Matrix MatrixFact.
Set Implicit Arguments. Unset Strict Implicit. Unset Printing Implicit Defensive.
Import GRing.Theory.
Local Open Scope ring_scope.

Section FoldlSum.
Variable V : zmodType.
Lemma foldl_addE (f : nat -> V) a lo k :
  foldl (fun acc c => acc + f c) a (iota lo k) = a + \sum_(lo <= c < lo + k) f c.
Proof.
elim: k lo a => [|k IH] lo a /=; first by rewrite addn0 big_geq // addr0.
rewrite IH -addrA; congr (_ + _).
by rewrite [in RHS]big_ltn ?addSnnS // -addSnnS ltnS leq_addr.
Qed.
Lemma foldl_subE (f : nat -> V) a lo k :
  foldl (fun acc c => acc - f c) a (iota lo k) = a - \sum_(lo <= c < lo + k) f c.
Proof. by rewrite (foldl_addE (fun c => - f c)) sumrN. Qed.
End FoldlSum.

Local Arguments mkseq : simpl never.
Local Arguments iota : simpl never.

Section UnfoldTSpec.
Variable T : Type.
Variable x0 : T.
Implicit Types (step : seq T -> T).

Lemma size_unfoldT step y0 n : size (unfoldT step y0 n) = n.+1.
Proof. by elim: n => //= n IH; rewrite size_rcons IH. Qed.

Definition tcoef step y0 d : T := nth x0 (unfoldT step y0 d) d.

Lemma nth_unfoldT step y0 n d : (d <= n)%N -> nth x0 (unfoldT step y0 n) d = tcoef step y0 d.
Proof.
elim: n => [|n IH]; first by rewrite leqn0 => /eqP->.
rewrite leq_eqVlt => /orP[/eqP-> //|]; rewrite ltnS => le_dn.
by rewrite /= nth_rcons size_unfoldT ltnS le_dn IH.
Qed.

Lemma unfoldT_mkseq step y0 n : unfoldT step y0 n = mkseq (tcoef step y0) n.+1.
Proof.
apply: (@eq_from_nth _ x0); rewrite size_unfoldT ?size_mkseq // => i; rewrite ltnS => le_i.
by rewrite nth_unfoldT // nth_mkseq.
Qed.

Lemma tcoef0 step y0 : tcoef step y0 0 = y0. Proof. by []. Qed.
Lemma tcoefS step y0 d : tcoef step y0 d.+1 = step (mkseq (tcoef step y0) d.+1).
Proof. by rewrite /tcoef /= nth_rcons size_unfoldT ltnn eqxx unfoldT_mkseq. Qed.

Lemma size_seriesT step y0 D : size (seriesT step y0 D) = D.
Proof. by case: D => //= n; rewrite size_unfoldT. Qed.
Lemma nth_seriesT step y0 D d : (d < D)%N -> nth x0 (seriesT step y0 D) d = tcoef step y0 d.
Proof. by case: D => // n; rewrite ltnS; apply: nth_unfoldT. Qed.
End UnfoldTSpec.

Section FactSpec.
Variable K : fieldType.
Variable n : nat.
Notation M := 'M[K]_n.
Hypothesis char2 : (2%:R : K) != 0.

Lemma triu_tril1 (X : M) : triuM X + tril1M X = X.
Proof. by apply/matrixP => i j; rewrite !mxE ltnNge; case: leqP; rewrite ?addr0 ?add0r. Qed.

Lemma triu_upper (X : M) : is_upper (triuM X).
Proof. by move=> i j lt_ji; rewrite mxE leqNgt lt_ji. Qed.
Lemma tril1_strict (X : M) : is_strict_lower (tril1M X).
Proof. by move=> i j le_ij; rewrite mxE ltnNge le_ij. Qed.

Lemma upper_mul (X Y : M) : is_upper X -> is_upper Y -> is_upper (X *m Y).
Proof.
move=> HX HY i j lt_ji; rewrite mxE big1 // => k _.
case: (ltnP k i) => [lt_ki|le_ik]; first by rewrite HX ?mul0r.
by rewrite HY ?mulr0 //; apply: leq_trans le_ik.
Qed.
Lemma lower_mul (X Y : M) : is_lower X -> is_lower Y -> is_lower (X *m Y).
Proof.
move=> HX HY i j lt_ij; rewrite mxE big1 // => k _.
case: (ltnP i k) => [lt_ik|le_ki]; first by rewrite HX ?mul0r.
by rewrite HY ?mulr0 //; apply: leq_ltn_trans lt_ij.
Qed.
Lemma lower_mul_strict (X Y : M) : is_lower X -> is_strict_lower Y -> is_strict_lower (X *m Y).
Proof.
move=> HX HY i j le_ij; rewrite mxE big1 // => k _.
case: (ltnP i k) => [lt_ik|le_ki]; first by rewrite HX ?mul0r.
by rewrite HY ?mulr0 //; apply: leq_trans le_ij.
Qed.

(* reindexing of the middle sums *)
Lemma sum_rev_mid (f : nat -> nat -> M) d :
  \sum_(i < d) f i.+1 (d - i)%N = \sum_(i < d) f (d - i)%N i.+1.
Proof.
rewrite (reindex_inj rev_ord_inj) /=; apply: eq_bigr => i _.
by rewrite subnSK // subKn // ltnW.
Qed.



Lemma sum_iota1 (F : nat -> M) d : \sum_(1 <= c < 1 + d.+1.-1) F c = \sum_(i < d) F i.+1.
Proof. by rewrite big_add1 /= big_mkord. Qed.

Lemma luK_step_mkseq (wT : M) (A : seq M) (L0 U0 L0inv U0inv : M) (g : nat -> M * M) d :
  let S := \sum_(i < d) (g (d - i)%N).1 *m (g i.+1).2 in
  let dF := L0inv *m ((- S + wT *m A`_d.+1) *m U0inv) in
  luK_step (@mulM K n) (@addM K n) (@subM K n) 0 (@triuM K n) (@tril1M K n) wT A L0 U0 L0inv U0inv (mkseq g d.+1)
  = (L0 *m tril1M dF, triuM dF *m U0).
Proof.
rewrite /luK_step size_mkseq /subM /mulM /addM foldl_subE sub0r sum_iota1.
have -> // : \sum_(i < d) (nth (0, 0) (mkseq g d.+1) (d.+1 - i.+1)).1 *m (nth (0, 0) (mkseq g d.+1) i.+1).2
       = \sum_(i < d) (g (d - i)%N).1 *m (g i.+1).2.
apply: eq_bigr => i _; rewrite subSS !nth_mkseq // ltnS ?leq_subr //.
Qed.

Section LU.
Variables (wT : M) (A : seq M) (L0 U0 L0inv U0inv : M).
Hypothesis (HL0 : is_unit_lower L0) (HU0 : is_upper U0).
Hypothesis (H0 : L0 *m U0 = wT *m A`_0) (HLi : L0inv *m L0 = 1%:M) (HUi : U0 *m U0inv = 1%:M).
Let step := luK_step (@mulM K n) (@addM K n) (@subM K n) 0 (@triuM K n) (@tril1M K n) wT A L0 U0 L0inv U0inv.
Let lu d : M * M := tcoef (0, 0) step (L0, U0) d.

Lemma lu_coef0 : lu 0 = (L0, U0). Proof. by []. Qed.

Lemma lu_coefS d :
  let S := \sum_(i < d) (lu (d - i)%N).1 *m (lu i.+1).2 in
  let dF := L0inv *m ((- S + wT *m A`_d.+1) *m U0inv) in
  lu d.+1 = (L0 *m tril1M dF, triuM dF *m U0).
Proof. by rewrite {3}/lu tcoefS -/lu /step luK_step_mkseq. Qed.

Lemma lu_coef_spec d :
  \sum_(c < d.+1) (lu c).1 *m (lu (d - c)%N).2 = wT *m A`_d /\
  is_upper (lu d).2 /\
  (if d is _.+1 then is_strict_lower (lu d).1 else is_unit_lower (lu d).1).
Proof.
case: d => [|d].
  by rewrite big_ord_recl big_ord0 addr0 subnn lu_coef0.
have HL0U : L0 *m L0inv = 1%:M by apply: mulmx1C.
have HU0U : U0inv *m U0 = 1%:M by apply: mulmx1C.
rewrite big_ord_recl big_ord_recr /= subn0 subnn lu_coef0 /=.
have -> : \sum_(i < d) (lu (bump 0 i)).1 *m (lu (d.+1 - bump 0 i)%N).2 =
          \sum_(i < d) (lu (d - i)%N).1 *m (lu i.+1).2.
  rewrite -(sum_rev_mid (fun a b => (lu a).1 *m (lu b).2)); apply: eq_bigr => i _.
  by rewrite /bump /= add1n subSS.
have -> : bump 0 d = d.+1 by []. rewrite lu_coefS /=.
set S := \sum_(i < d) _; set dF := L0inv *m _.
split; last by split; [apply: upper_mul => //; apply: triu_upper | apply: lower_mul_strict; [case: HL0 | apply: tril1_strict]].
rewrite addrCA mulmxA -mulmxDl -mulmxDr triu_tril1 /dF !mulmxA HL0U mul1mx -mulmxA HU0U mulmx1.
by rewrite addrA subrr add0r.
Qed.
End LU.

Theorem luM_size (wT : M) (A : seq M) (L0 U0 L0inv U0inv : M) : size (luM wT A L0 U0 L0inv U0inv) = size A.
Proof. by rewrite /luM /luK size_seriesT. Qed.

Theorem luM_spec (wT : M) (A : seq M) (L0 U0 L0inv U0inv : M) :
  is_unit_lower L0 -> is_upper U0 -> L0 *m U0 = wT *m A`_0 ->
  L0inv *m L0 = 1%:M -> U0 *m U0inv = 1%:M ->
  let LU := luM wT A L0 U0 L0inv U0inv in
  forall d, (d < size A)%N ->
  \sum_(c < d.+1) (nth (0, 0) LU c).1 *m (nth (0, 0) LU (d - c)).2 = wT *m A`_d /\
  is_upper (nth (0, 0) LU d).2 /\
  (if d is _.+1 then is_strict_lower (nth (0, 0) LU d).1 else is_unit_lower (nth (0, 0) LU d).1).
Proof.
move=> HL0 HU0 H0 HLi HUi LU d lt_d.
have [Heq [Hu Hl]] := lu_coef_spec HL0 HU0 H0 HLi HUi d.
have E c : (c <= d)%N -> nth (0, 0) LU c =
   tcoef (0, 0) (luK_step (@mulM K n) (@addM K n) (@subM K n) 0 (@triuM K n) (@tril1M K n) wT A L0 U0 L0inv U0inv) (L0, U0) c.
  by move=> le_c; rewrite /LU /luM /luK nth_seriesT //; apply: leq_ltn_trans lt_d.
rewrite (E d) //; split; last by [].
rewrite -Heq; apply: eq_bigr => c _.
by rewrite !E ?leq_subr // -ltnS.
Qed.

(* ------------------------------- Cholesky ------------------------------- *)
Lemma half2 (x : K) : 2%:R^-1 * x + 2%:R^-1 * x = x.
Proof. by rewrite -mulr2n -mulr_natl mulrA divff // mul1r. Qed.

Lemma lowhalf_lower (X : M) : is_lower (lowhalfM X).
Proof. by move=> i j lt_ij; rewrite mxE ltnNge (ltnW lt_ij) /= -val_eqE /= (ltn_eqF lt_ij). Qed.

Lemma lowhalf_sym (X : M) : X^T = X -> lowhalfM X + (lowhalfM X)^T = X.
Proof.
move=> HX; apply/matrixP => i j; rewrite !mxE -!val_eqE /=.
case: (ltngtP i j) => [lt_ij|lt_ji|eq_ij].
- by rewrite add0r -{2}HX mxE.
- by rewrite addr0.
have -> : j = i by apply/val_inj.
by rewrite half2.
Qed.

Lemma fixdiag_id (L0 dF : M) : is_lower L0 ->
  fixdiagM L0 dF (- (L0 *m lowhalfM dF)) = - (L0 *m lowhalfM dF).
Proof.
move=> HL0; apply/matrixP => i j; rewrite [LHS]mxE; case: eqP => [<-|//].
rewrite !mxE (bigD1 i) //= big1 ?addr0 => [|k ne_ki].
  by rewrite !mxE ltnn eqxx !mulNr mulrCA mulrA.
case: (ltnP i k) => [lt_ik|le_ki]; first by rewrite HL0 ?mul0r.
by rewrite lowhalf_lower ?mulr0 // ltn_neqAle le_ki andbT.
Qed.

Lemma chol_step_mkseq (A : seq M) (L0 L0inv : M) (g : nat -> M) d :
  let S := \sum_(i < d) g (d - i)%N *m (g i.+1)^T in
  let dF := (L0inv *m (S - A`_d.+1)) *m L0inv^T in
  chol_step (@mulM K n) (@addM K n) (@subM K n) (@negM K n) (@trM K n) 0 (@lowhalfM K n) (@fixdiagM K n)
     A L0 L0inv (mkseq g d.+1) = fixdiagM L0 dF (- (L0 *m lowhalfM dF)).
Proof.
rewrite /chol_step size_mkseq /subM /mulM /addM /negM /trM foldl_addE add0r sum_iota1.
have -> // : \sum_(i < d) nth 0 (mkseq g d.+1) (d.+1 - i.+1) *m (nth 0 (mkseq g d.+1) i.+1)^T
       = \sum_(i < d) g (d - i)%N *m (g i.+1)^T.
apply: eq_bigr => i _; rewrite subSS !nth_mkseq // ltnS ?leq_subr //.
Qed.

Section Chol.
Variables (A : seq M) (L0 L0inv : M).
Hypothesis (HL0 : is_lower L0) (H0 : L0 *m L0^T = A`_0) (HLi : L0inv *m L0 = 1%:M).
Let step := chol_step (@mulM K n) (@addM K n) (@subM K n) (@negM K n) (@trM K n) 0 (@lowhalfM K n) (@fixdiagM K n) A L0 L0inv.
Let ch d : M := tcoef 0 step L0 d.

Lemma ch_coef0 : ch 0 = L0. Proof. by []. Qed.

Lemma ch_coefS d :
  let S := \sum_(i < d) ch (d - i)%N *m (ch i.+1)^T in
  let dF := (L0inv *m (S - A`_d.+1)) *m L0inv^T in
  ch d.+1 = - (L0 *m lowhalfM dF).
Proof. by rewrite {3}/ch tcoefS -/ch /step chol_step_mkseq fixdiag_id. Qed.

Lemma ch_coef_spec d : (A`_d)^T = A`_d ->
  \sum_(c < d.+1) ch c *m (ch (d - c)%N)^T = A`_d /\ is_lower (ch d).
Proof.
case: d => [|d] HA.
  by rewrite big_ord_recl big_ord0 addr0 subnn ch_coef0.
have HL0U : L0 *m L0inv = 1%:M by apply: mulmx1C.
rewrite big_ord_recl big_ord_recr /= subn0 subnn ch_coef0 /=.
have -> : \sum_(i < d) ch (bump 0 i) *m (ch (d.+1 - bump 0 i)%N)^T =
          \sum_(i < d) ch (d - i)%N *m (ch i.+1)^T.
  rewrite -(sum_rev_mid (fun a b => ch a *m (ch b)^T)); apply: eq_bigr => i _.
  by rewrite /bump /= add1n subSS.
have -> : bump 0 d = d.+1 by [].
rewrite ch_coefS /=.
set S := \sum_(i < d) _; set dF := L0inv *m _ *m _; set H := lowhalfM dF.
have HS : S^T = S.
  rewrite /S linear_sum /= -(sum_rev_mid (fun a b => ch a *m (ch b)^T)); apply: eq_bigr => i _.
  by rewrite trmx_mul trmxK.
have HdF : dF^T = dF by rewrite /dF !trmx_mul trmxK linearB /= HS HA mulmxA.
split; last first.
  by move=> i j lt_ij; rewrite mxE lower_mul ?oppr0 //; apply: lowhalf_lower.
have -> : L0 *m (- (L0 *m H))^T + (S + - (L0 *m H) *m L0^T) = S - L0 *m (H + H^T) *m L0^T.
  rewrite linearN /= trmx_mul mulmxN mulNmx mulmxDr mulmxDl opprD !mulmxA addrCA.
  by congr (_ + _); rewrite addrC.
rewrite lowhalf_sym // /dF !mulmxA HL0U mul1mx -mulmxA -trmx_mul HL0U trmx1 mulmx1.
by rewrite opprB addrCA subrr addr0.
Qed.
End Chol.

Theorem cholM_size (A : seq M) (L0 L0inv : M) : size (cholM A L0 L0inv) = size A.
Proof. by rewrite /cholM /cholK size_seriesT. Qed.

Theorem cholM_spec (A : seq M) (L0 L0inv : M) :
  (forall d, (d < size A)%N -> (A`_d)^T = A`_d) ->
  is_lower L0 -> L0 *m L0^T = A`_0 -> L0inv *m L0 = 1%:M ->
  forall d, (d < size A)%N ->
  \sum_(c < d.+1) (cholM A L0 L0inv)`_c *m ((cholM A L0 L0inv)`_(d - c))^T = A`_d /\ is_lower ((cholM A L0 L0inv)`_d).
Proof.
move=> HA HL0 H0 HLi d lt_d.
have [Heq Hl] := ch_coef_spec HL0 H0 HLi (HA d lt_d).
have E c : (c <= d)%N -> (cholM A L0 L0inv)`_c =
   tcoef 0 (chol_step (@mulM K n) (@addM K n) (@subM K n) (@negM K n) (@trM K n) 0 (@lowhalfM K n) (@fixdiagM K n) A L0 L0inv) L0 c.
  by move=> le_c; rewrite /cholM /cholK nth_seriesT //; apply: leq_ltn_trans lt_d.
rewrite (E d) //; split; last by [].
rewrite -Heq; apply: eq_bigr => c _.
by rewrite !E ?leq_subr // -ltnS.
Qed.
End FactSpec.
