(* Symmetric eigenvalue decomposition in Taylor arithmetic (eighM, distinct eigenvalues of the base matrix):
   Q(t)^T Q(t) = I,  Q(t)^T A(t) Q(t) = L(t)  modulo t^D,  every L_d diagonal. *)
From mathcomp Require Import all_ssreflect all_algebra.
From AlgoV Require Import Sums Series Matrix MatrixFact QRSpec Eigh.
Set Implicit Arguments. Unset Strict Implicit. Unset Printing Implicit Defensive.
Import GRing.Theory.
Local Open Scope ring_scope.
Local Arguments mkseq : simpl never.
Local Arguments iota : simpl never.

Section TripleSums.
Variable V : zmodType.

(* sum over all (i, j, k) with i + j + k = d *)
Definition tsum (F : nat -> nat -> nat -> V) (d : nat) : V :=
  \sum_(i < d.+1) \sum_(j < (d - i).+1) F i j (d - i - j)%N.

Lemma tri_exchange (G : nat -> nat -> V) d :
  \sum_(i < d.+1) \sum_(j < (d - i).+1) G i j = \sum_(j < d.+1) \sum_(i < (d - j).+1) G i j.
Proof.
have E (G' : nat -> nat -> V) : \sum_(i < d.+1) \sum_(j < (d - i).+1) G' i j =
                                \sum_(i < d.+1) \sum_(j < d.+1) (if (i + j <= d)%N then G' i j else 0).
  apply: eq_bigr => i _; rewrite -big_mkcond /=.
  rewrite -(big_mkord xpredT (G' i)) -(big_mkord (fun j => (i + j <= d)%N) (G' i)).
  have le_i : (i <= d)%N by rewrite -ltnS.
  rewrite [RHS](big_cat_nat _ _ _ (leq0n (d - i).+1)) /=; last by rewrite ltnS leq_subr.
  rewrite [X in _ = _ + X]big_nat_cond [X in _ = _ + X]big1 ?addr0; last first.
    move=> j /andP[/andP[lt_j _]]; rewrite leqNgt => /negP[].
    by rewrite -ltn_subLR.
  rewrite big_nat_cond [RHS]big_nat_cond; apply: eq_bigl => j.
  by rewrite andbT leq0n /= ltnS -leq_subRL // andbb.
rewrite E exchange_big /= (E (fun j i => G i j)).
by apply: eq_bigr => j _; apply: eq_bigr => i _; rewrite addnC.
Qed.

Lemma tsum_rev (F : nat -> nat -> nat -> V) d : tsum F d = tsum (fun i j k => F k j i) d.
Proof.
rewrite /tsum (tri_exchange (fun i j => F i j (d - i - j)%N)) (tri_exchange (fun i j => F (d - i - j)%N j i)).
apply: eq_bigr => j _.
rewrite (reindex_inj rev_ord_inj) /=; apply: eq_bigr => i _.
have le_j : (j <= d)%N by rewrite -ltnS.
have le_i : (i <= d - j)%N by rewrite -ltnS.
rewrite subSS; congr (F _ j _).
  by rewrite subnAC.
by rewrite -subnDA addnC subnDA subKn.
Qed.

(* the triples containing the top index, which truncated_triple_dot skips *)
Lemma tsum_split (F : nat -> nat -> nat -> V) D :
  tsum F D.+1 =
  \sum_(0 <= i < D.+2) \sum_(0 <= j < (D.+1 - i).+1 | ~~ triple_skip D.+1 i j) F i j (D.+1 - i - j)%N
  + (F D.+1 0%N 0%N + F 0%N D.+1 0%N + F 0%N 0%N D.+1).
Proof.
set N := D.+1; pose G i j := F i j (N - i - j)%N.
have -> : tsum F N = \sum_(0 <= i < N.+1) \sum_(0 <= j < (N - i).+1) G i j.
  by rewrite big_mkord; apply: eq_bigr => i _; rewrite big_mkord.
under eq_bigr => i _ do rewrite (bigID (fun j => triple_skip N i j)) /= addrC.
rewrite big_split /=; congr (_ + _).
rewrite big_ltn // big_nat_recr //= subn0 subnn.
have -> : \sum_(1 <= i < N) \sum_(0 <= j < (N - i).+1 | triple_skip N i j) G i j = 0.
  rewrite big_nat_cond big1 // => i /andP[/andP[i_gt0 lt_i] _]; rewrite big_nat_cond big_pred0 // => j.
  have lt_Ni : (N - i < N)%N by rewrite ltn_subrL i_gt0.
  rewrite /triple_skip leq0n ltnS /=; apply/negP => /andP[le_j] /or3P[/eqP Ei|/eqP Ej|/eqP Ek].
  - by rewrite Ei ltnn in lt_i.
  - by have := leq_ltn_trans le_j lt_Ni; rewrite Ej ltnn.
  - by have := leq_ltn_trans (leq_subr j (N - i)) lt_Ni; rewrite Ek ltnn.
have -> : \sum_(0 <= j < 1 | triple_skip N N j) G N j = F N 0%N 0%N.
  by rewrite big_mkcond big_nat1 /triple_skip eqxx /= /G subnn.
have -> : \sum_(0 <= j < N.+1 | triple_skip N 0 j) G 0%N j = F 0%N N 0%N + F 0%N 0%N N.
  rewrite big_mkcond big_ltn // big_nat_recr //= /triple_skip !subn0 subnn !eqxx !orbT /= /G !subn0 subnn.
  rewrite big_nat_cond big1 ?add0r 1?addrC // => j /andP[/andP[j_gt0 lt_j] _].
  rewrite (ltn_eqF lt_j) /=; case: eqP => // E.
  have : (N - j < N)%N by rewrite ltn_subrL j_gt0.
  by rewrite E ltnn.
by rewrite add0r addrC addrA.
Qed.
End TripleSums.

Section EighSpec.
Variable K : fieldType.
Variable n : nat.
Notation M := 'M[K]_n.
Hypothesis char2 : (2%:R : K) != 0.

Lemma ac6 (V : zmodType) (a b c d e f : V) : a + ((- b + c) + d + (e + f)) = (a + d + c + f) + (e - b).
Proof.
rewrite !addrA (addrAC a) (addrAC _ (- b) d) (addrAC _ (- b) e) (addrAC _ (- b) f).
by rewrite (addrAC a c d) (addrAC _ e f).
Qed.

Lemma mul_diag_l (L B : M) i j : is_diagM L -> (L *m B) i j = L i i * B i j.
Proof.
move=> dL; rewrite mxE (bigD1 i) //= big1 ?addr0 // => k ne_ki.
by rewrite dL ?mul0r // eq_sym.
Qed.

Lemma mul_diag_r (L B : M) i j : is_diagM L -> (B *m L) i j = B i j * L j j.
Proof.
move=> dL; rewrite mxE (bigD1 j) //= big1 ?addr0 // => k ne_kj.
by rewrite dL ?mulr0.
Qed.

Lemma mul_diag_lM (L B : M) : is_diagM L -> L *m B = \matrix_(i, j) (L i i * B i j).
Proof. by move=> dL; apply/matrixP => i j; rewrite mul_diag_l // mxE. Qed.
Lemma mul_diag_rM (L B : M) : is_diagM L -> B *m L = \matrix_(i, j) (B i j * L j j).
Proof. by move=> dL; apply/matrixP => i j; rewrite mul_diag_r // mxE. Qed.

Lemma diag_tr (L : M) : is_diagM L -> L^T = L.
Proof.
move=> dL; apply/matrixP => i j; rewrite mxE.
by case: (eqVneq i j) => [-> //|ne_ij]; rewrite !dL // eq_sym.
Qed.

Lemma diagpart_diag (B : M) : is_diagM (diagpartM B).
Proof. by move=> i j ne_ij; rewrite mxE (negbTE ne_ij). Qed.

Lemma H_antisym (L0 H : M) : (forall i j, i != j -> H i j * (L0 j j - L0 i i) = 1) -> (forall i, H i i = 0) ->
  H^T = - H.
Proof.
move=> HH H0; apply/matrixP => i j; rewrite !mxE.
case: (eqVneq i j) => [->|ne_ij]; first by rewrite H0 oppr0.
have Hij := HH i j ne_ij; have := HH j i; rewrite eq_sym => /(_ ne_ij) Hji.
have nz : L0 j j - L0 i i != 0.
  by apply/eqP => E; move: Hij; rewrite E mulr0 => /eqP; rewrite eq_sym oner_eq0.
by apply: (mulIf nz); rewrite mulNr Hij -[L0 j j - L0 i i]opprB mulrN Hji.
Qed.

Lemma hadM_antisym (B H : M) : B^T = B -> H^T = - H -> (hadM B H)^T = - hadM B H.
Proof.
move=> Bs Ha; apply/matrixP => i j; rewrite !mxE.
have -> : B j i = B i j by rewrite -[in RHS]Bs mxE.
have -> : H j i = - H i j by have := congr1 (fun X : M => X i j) Ha; rewrite !mxE.
by rewrite mulrN.
Qed.

(* one order of the recurrence: dF is the part of the triple sum without the top index, dG the middle part of Q^T Q *)
Lemma eigh_core (Q0 L0 H A0 AD dF dG : M) :
  Q0^T *m Q0 = 1%:M -> is_diagM L0 -> Q0^T *m A0 *m Q0 = L0 ->
  (forall i j, i != j -> H i j * (L0 j j - L0 i i) = 1) -> (forall i, H i i = 0) ->
  AD^T = AD -> dF^T = dF -> dG^T = dG ->
  let S := 0 - halfM dG in
  let Kk := dF + Q0^T *m AD *m Q0 + S *m L0 + L0 *m S in
  let QD := Q0 *m (hadM Kk H + S) in
  [/\ Q0^T *m QD + QD^T *m Q0 = - dG,
      dF + (QD^T *m A0 *m Q0 + Q0^T *m AD *m Q0 + Q0^T *m A0 *m QD) = diagpartM Kk
    & is_diagM (diagpartM Kk)].
Proof.
move=> QtQ dL QAQ HH H0 ADs dFs dGs S Kk QD.
have Ha := H_antisym HH H0.
have Lt := diag_tr dL.
have St : S^T = S by rewrite /S sub0r raddfN /= halfM_tr dGs.
have Kt : Kk^T = Kk.
  rewrite /Kk 3!raddfD /= !trmx_mul trmxK dFs ADs St Lt mulmxA -!addrA; congr (_ + (_ + _)).
  by rewrite addrC.
set W := hadM Kk H.
have Wt : W^T = - W by apply: hadM_antisym.
have Xt : (W + S)^T = - W + S by rewrite raddfD /= Wt St.
split.
- rewrite /QD trmx_mul mulmxA QtQ mul1mx -mulmxA QtQ mulmx1 Xt addrACA subrr add0r.
  by rewrite /S sub0r -opprD halfM_double.
- rewrite /QD trmx_mul -!mulmxA [Q0^T *m (A0 *m Q0)]mulmxA QAQ [Q0^T *m (A0 *m _)]mulmxA [Q0^T *m A0 *m _]mulmxA QAQ.
  rewrite Xt mulmxDl mulmxDr mulNmx ac6 [Q0^T *m (AD *m Q0)]mulmxA -/Kk.
  rewrite /W (mul_diag_lM _ dL) (mul_diag_rM _ dL); clearbody Kk.
  apply/matrixP => i j; rewrite !mxE.
  case: (eqVneq i j) => [->|ne_ij]; first by rewrite H0 mulr0 mul0r mulr0 subr0 addr0.
  by rewrite [L0 i i * _]mulrC -mulrBr -mulrA -[L0 i i - _]opprB mulrN HH // mulrN1 subrr.
- exact: diagpart_diag.
Qed.

Lemma foldl2_skipE (G : nat -> nat -> M) (p : nat -> nat -> bool) (s2 : nat -> seq nat) (s1 : seq nat) (a : M) :
  foldl (fun acc i => foldl (fun acc' j => if p i j then acc' else addM acc' (G i j)) acc (s2 i)) a s1
  = a + \sum_(i <- s1) \sum_(j <- s2 i | ~~ p i j) G i j.
Proof.
elim: s1 a => [|i s1 IH] a /=; first by rewrite big_nil addr0.
rewrite IH big_cons addrA; congr (_ + _).
elim: (s2 i) a => [|j l IH'] a /=; first by rewrite big_nil addr0.
rewrite IH' big_cons; case: (p i j) => //=.
by rewrite /addM addrA.
Qed.

Notation estep := (eigh_step 0 (@addM K n) (@subM K n) (@mulM K n) (@trM K n) (@halfM K n) (@hadM K n) (@diagpartM K n)).

Lemma eigh_stepE (A : seq M) (Q0 L0 H : M) (cf : nat -> M * M) D :
  estep A Q0 L0 H (mkseq cf D.+1) =
  let N := D.+1 in
  let dF := \sum_(0 <= i < N.+1) \sum_(0 <= j < (N - i).+1 | ~~ triple_skip N i j)
               ((cf i).1)^T *m A`_j *m (cf (N - i - j)%N).1 in
  let dG := \sum_(1 <= c < N) ((cf c).1)^T *m (cf (N - c)%N).1 in
  let S := 0 - halfM dG in
  let Kk := dF + Q0^T *m A`_N *m Q0 + S *m L0 + L0 *m S in
  (Q0 *m (hadM Kk H + S), diagpartM Kk).
Proof.
rewrite /eigh_step size_mkseq /triple_dotK foldl2_skipE foldl_addE !add0r.
have -> : iota 1 D.+1.-1 = index_iota 1 D.+1 by rewrite /index_iota subn1.
have -> : iota 0 D.+2 = index_iota 0 D.+2 by rewrite /index_iota subn0.
have -> : \sum_(1 <= c < D.+1) mulM (trM (nth (0, 0) (mkseq cf D.+1) c).1) (nth (0, 0) (mkseq cf D.+1) (D.+1 - c)).1
        = \sum_(1 <= c < D.+1) ((cf c).1)^T *m (cf (D.+1 - c)%N).1.
  apply: eq_big_nat => c /andP[c1 cD].
  by rewrite !nth_mkseq // ltn_subrL c1.
set dF1 := \sum_(i <- index_iota 0 D.+2) _.
set dF2 := \sum_(0 <= i < D.+2) _.
suff -> : dF1 = dF2 by rewrite /subM !sub0r.
apply: eq_big_nat => i /andP[_ lt_i].
have -> : iota 0 (D.+1 - i).+1 = index_iota 0 (D.+1 - i).+1 by rewrite /index_iota subn0.
rewrite big_nat_cond [RHS]big_nat_cond; apply: eq_bigr => j /andP[/andP[_ lt_j]].
rewrite /triple_skip !negb_or => /and3P[ne_i ne_j ne_k].
rewrite !nth_mkseq //.
  by rewrite ltn_neqAle ne_k -subnDA leq_subr.
by rewrite ltn_neqAle ne_i -ltnS.
Qed.

Definition eigh_cf (A : seq M) (Q0 L0 H : M) : nat -> M * M := tcoef (0, 0) (estep A Q0 L0 H) (Q0, L0).

Theorem eighM_size (A : seq M) (Q0 L0 H : M) : size (eighM A Q0 L0 H) = size A.
Proof. by rewrite /eighM /eighK size_seriesT. Qed.

Lemma nth_eighM (A : seq M) (Q0 L0 H : M) d : (d < size A)%N ->
  nth (0, 0) (eighM A Q0 L0 H) d = eigh_cf A Q0 L0 H d.
Proof. by move=> lt_d; rewrite /eighM /eighK nth_seriesT. Qed.

Lemma eigh_cf_spec (A : seq M) (Q0 L0 H : M) :
  Q0^T *m Q0 = 1%:M -> is_diagM L0 -> Q0^T *m A`_0 *m Q0 = L0 ->
  (forall d, (d < size A)%N -> (A`_d)^T = A`_d) ->
  (forall i j, i != j -> H i j * (L0 j j - L0 i i) = 1) -> (forall i, H i i = 0) ->
  let cf := eigh_cf A Q0 L0 H in
  forall d,
  \sum_(c < d.+1) ((cf c).1)^T *m (cf (d - c)%N).1 = (d == 0%N)%:R%:M /\
  tsum (fun i j k => ((cf i).1)^T *m A`_j *m (cf k).1) d = (cf d).2 /\
  is_diagM (cf d).2.
Proof.
move=> QtQ dL QAQ Asym HH H0 cf.
have cf0 : cf 0%N = (Q0, L0) by [].
have As d : (A`_d)^T = A`_d.
  by case: (ltnP d (size A)) => [/Asym //|le_d]; rewrite nth_default // trmx0.
pose F i j k : M := ((cf i).1)^T *m A`_j *m (cf k).1.
rewrite -/F.
case=> [|D].
  rewrite /tsum !big_ord_recl !big_ord0 /= ?big_ord0 !addr0 /F cf0 /=.
  by [].
have cfS : cf D.+1 = _ := tcoefS _ _ _ D.
rewrite eigh_stepE -/(eigh_cf A Q0 L0 H) -/cf in cfS.
cbv zeta in cfS.
have split := tsum_split F D.
move: cfS split; rewrite -/F.
set dF := \sum_(0 <= i < D.+2) _.
set dG := \sum_(1 <= c < D.+1) _.
move=> cfS split.
have Ft i j k : (F i j k)^T = F k j i by rewrite /F !trmx_mul trmxK As mulmxA.
have Ts : (tsum F D.+1)^T = tsum F D.+1.
  rewrite [RHS]tsum_rev /tsum raddf_sum; apply: eq_bigr => i _.
  by rewrite raddf_sum; apply: eq_bigr => j _; rewrite /= Ft.
have dFs : dF^T = dF.
  have E : dF = tsum F D.+1 - (F D.+1 0%N 0%N + F 0%N D.+1 0%N + F 0%N 0%N D.+1) by rewrite split addrK.
  rewrite E raddfB /= Ts !raddfD /= !Ft; congr (_ + _).
  by rewrite [- F 0%N 0%N _ - _]addrC addrC addrA.
have dGs : dG^T = dG by apply: (dG_sym (fun c => (cf c).1)).
have [] := @eigh_core Q0 L0 H A`_0 A`_D.+1 dF dG QtQ dL QAQ HH H0 (As _) dFs dGs.
move: cfS => /=.
set Kk := dF + _ + _ + _.
set QD := Q0 *m (_ + _).
move=> cfS Ea Eb Ec.
split; last split.
- rewrite big_ord_recl big_ord_recr /= subn0 subnn cf0 cfS /=.
  rewrite addrCA Ea /dG big_add1 /= big_mkord subrr.
  by rewrite raddf0.
- by rewrite split /F cf0 cfS /= Eb.
- by rewrite cfS.
Qed.

(* Q(t)^T Q(t) = I,  Q(t)^T A(t) Q(t) = L(t) modulo t^(size A),  every coefficient of L(t) diagonal *)
Theorem eighM_spec (A : seq M) (Q0 L0 H : M) :
  Q0^T *m Q0 = 1%:M -> is_diagM L0 -> Q0^T *m A`_0 *m Q0 = L0 ->
  (forall d, (d < size A)%N -> (A`_d)^T = A`_d) ->
  (forall i j, i != j -> H i j * (L0 j j - L0 i i) = 1) -> (forall i, H i i = 0) ->
  let QL := eighM A Q0 L0 H in
  forall d, (d < size A)%N ->
  \sum_(c < d.+1) ((nth (0, 0) QL c).1)^T *m (nth (0, 0) QL (d - c)).1 = (d == 0%N)%:R%:M /\
  \sum_(i < d.+1) \sum_(j < (d - i).+1) ((nth (0, 0) QL i).1)^T *m A`_j *m (nth (0, 0) QL (d - i - j)).1
    = (nth (0, 0) QL d).2 /\
  is_diagM (nth (0, 0) QL d).2.
Proof.
move=> QtQ dL QAQ Asym HH H0 QL d lt_d.
have [Ea [Eb Ec]] := eigh_cf_spec QtQ dL QAQ Asym HH H0 d.
have lt_c (c : 'I_d.+1) : (c < size A)%N by apply: leq_trans (ltn_ord c) lt_d.
have lt_dc c : (d - c < size A)%N by apply: leq_ltn_trans lt_d; apply: leq_subr.
split; last split.
- by rewrite -[RHS]Ea; apply: eq_bigr => c _; rewrite /QL !nth_eighM.
- rewrite /QL nth_eighM // -Eb /tsum; apply: eq_bigr => i _; apply: eq_bigr => j _.
  by rewrite !nth_eighM // -subnDA.
- by rewrite /QL nth_eighM.
Qed.
End EighSpec.
