(* (1) The executable list-matrix instances of the factorization kernels (luU, cholU, qrU of Matrix.v, run by vm_compute) refine
       the 'M[K]_n instances (luM, cholM, qrM of MatrixFact.v) for which the lifting theorems of FactSpec.v / QRSpec.v are proved.
   (2) det of a matrix Taylor polynomial via LU (utpm.py: det = piv2det(PIV) * prod(diag(U))) is the Leibniz determinant of the
       polynomial matrix modulo X^D. *)
From mathcomp Require Import all_ssreflect all_algebra.
From AlgoV Require Import Sums Series Matrix MatrixFact MatrixSpec FactSpec.
Set Implicit Arguments. Unset Strict Implicit. Unset Printing Implicit Defensive.
Import GRing.Theory.
Local Open Scope ring_scope.
Local Arguments mkseq : simpl never.
Local Arguments iota : simpl never.

Section Refine.
Variable K : fieldType.
Variable n : nat.
Notation mo := (mx_of n n).
Definition mo2 (p : mx K * mx K) : 'M[K]_n * 'M[K]_n := (mo p.1, mo p.2).

Lemma mx_of_mtriu (A : mx K) : mo (mtriu n n 0 A) = triuM (mo A).
Proof. by rewrite /mtriu mx_of_mkmx; apply/matrixP => i j; rewrite !mxE addn0. Qed.
Lemma mx_of_mtril1 (A : mx K) : mo (mtril1 n n A) = tril1M (mo A).
Proof. by rewrite /mtril1 mx_of_mkmx; apply/matrixP => i j; rewrite !mxE. Qed.
Lemma mx_of_mlowhalf (A : mx K) : mo (mlowhalf n A) = lowhalfM (mo A).
Proof. by rewrite /mlowhalf mx_of_mkmx; apply/matrixP => i j; rewrite !mxE. Qed.
Lemma mx_of_mhalf (A : mx K) : mo (mhalf n A) = halfM (mo A).
Proof. by rewrite /mhalf /mscale mx_of_mkmx; apply/matrixP => i j; rewrite !mxE. Qed.
Lemma mx_of_mfixdiag (L0 dF LD : mx K) : mo (mfixdiag n L0 dF LD) = fixdiagM (mo L0) (mo dF) (mo LD).
Proof. by rewrite /mfixdiag mx_of_mkmx; apply/matrixP => i j; rewrite !mxE. Qed.

Lemma nth_mo2 (s : seq (mx K * mx K)) d :
  mo2 (nth (mzero K n n, mzero K n n) s d) = nth (0, 0) [seq mo2 p | p <- s] d.
Proof.
case: (ltnP d (size s)) => [lt_d|le_d]; first by rewrite (nth_map (mzero K n n, mzero K n n)).
by rewrite !nth_default ?size_map // /mo2 /= mx_of_mzero.
Qed.
Lemma nth_mo2_1 (s : seq (mx K * mx K)) d :
  mo (nth (mzero K n n, mzero K n n) s d).1 = (nth (0, 0) [seq mo2 p | p <- s] d).1.
Proof. by rewrite -nth_mo2. Qed.
Lemma nth_mo2_2 (s : seq (mx K * mx K)) d :
  mo (nth (mzero K n n, mzero K n n) s d).2 = (nth (0, 0) [seq mo2 p | p <- s] d).2.
Proof. by rewrite -nth_mo2. Qed.

Lemma mo_foldl_sub (f : nat -> mx K) (G : nat -> 'M[K]_n) a l : (forall c, mo (f c) = G c) ->
  mo (foldl (fun acc c => msub n n acc (f c)) a l) = foldl (fun acc c => subM acc (G c)) (mo a) l.
Proof. by move=> H; elim: l a => //= c l IH a; rewrite IH mx_of_msub H. Qed.
Lemma mo_foldl_add (f : nat -> mx K) (G : nat -> 'M[K]_n) a l : (forall c, mo (f c) = G c) ->
  mo (foldl (fun acc c => madd n n acc (f c)) a l) = foldl (fun acc c => addM acc (G c)) (mo a) l.
Proof. by move=> H; elim: l a => //= c l IH a; rewrite IH mx_of_madd H. Qed.

Theorem luU_refines (wT : mx K) (A : seq (mx K)) (L0 U0 L0inv U0inv : mx K) :
  [seq mo2 p | p <- luU n wT A L0 U0 L0inv U0inv]
  = luM (mo wT) [seq mo a | a <- A] (mo L0) (mo U0) (mo L0inv) (mo U0inv).
Proof.
rewrite /luU /luM /luK size_map.
apply: (@map_seriesT _ _ mo2) => LUs.
rewrite /luK_step size_map /mo2 /=.
rewrite !(mx_of_mmul, mx_of_mtril1, mx_of_mtriu, mx_of_madd, nth_mzero_mx_of).
rewrite (@mo_foldl_sub _ (fun i => mulM (nth (0, 0) [seq (mo p.1, mo p.2) | p <- LUs] (size LUs - i)).1
                                       (nth (0, 0) [seq (mo p.1, mo p.2) | p <- LUs] i).2)) ?mx_of_mzero //.
by move=> c; rewrite mx_of_mmul nth_mo2_1 nth_mo2_2.
Qed.

Theorem cholU_refines (A : seq (mx K)) (L0 L0inv : mx K) :
  [seq mo a | a <- cholU n A L0 L0inv] = cholM [seq mo a | a <- A] (mo L0) (mo L0inv).
Proof.
rewrite /cholU /cholM /cholK size_map.
apply: (@map_seriesT _ _ mo) => Ls.
rewrite /chol_step size_map !(mx_of_mfixdiag, mx_of_mneg, mx_of_mmul, mx_of_mlowhalf, mx_of_mtr, mx_of_msub, nth_mzero_mx_of).
rewrite (@mo_foldl_add _ (fun d => mulM ([seq mo a | a <- Ls]`_(size Ls - d)) (trM ([seq mo a | a <- Ls]`_d)))) ?mx_of_mzero //.
by move=> c; rewrite mx_of_mmul mx_of_mtr !nth_mzero_mx_of.
Qed.

Theorem qrU_refines (A : seq (mx K)) (Q0 R0 Rinv : mx K) :
  [seq mo2 p | p <- qrU n A Q0 R0 Rinv] = qrM [seq mo a | a <- A] (mo Q0) (mo R0) (mo Rinv).
Proof.
rewrite /qrU /qrM /qrK size_map.
apply: (@map_seriesT _ _ mo2) => QRs.
rewrite /qr_step size_map /mo2 /=.
rewrite !(mx_of_mmul, mx_of_madd, mx_of_msub, mx_of_mtr, mx_of_mtril1, mx_of_mhalf, nth_mzero_mx_of).
rewrite (@mo_foldl_add _ (fun d => mulM (nth (0, 0) [seq (mo p.1, mo p.2) | p <- QRs] d).1
                                       (nth (0, 0) [seq (mo p.1, mo p.2) | p <- QRs] (size QRs - d)).2)); last first.
  by move=> c; rewrite mx_of_mmul nth_mo2_1 nth_mo2_2.
rewrite (@mo_foldl_sub _ (fun d => mulM (trM (nth (0, 0) [seq (mo p.1, mo p.2) | p <- QRs] d).1)
                                       (nth (0, 0) [seq (mo p.1, mo p.2) | p <- QRs] (size QRs - d)).1)) ?mx_of_mzero //.
by move=> c; rewrite mx_of_mmul mx_of_mtr !nth_mo2_1.
Qed.
End Refine.

Section Det.
Variable K : fieldType.
Variable n : nat.

(* polynomial matrix of a matrix Taylor polynomial [A_0; ...; A_{D-1}] *)
Definition pmx (A : seq 'M[K]_n) : 'M[{poly K}]_n := \matrix_(i, j) \poly_(d < size A) (A`_d i j).

(* congruence of polynomials modulo X^D, as coefficientwise equality below D *)
Section Congr.
Variable D : nat.
Definition cg (p q : {poly K}) : Prop := forall d, (d < D)%N -> p`_d = q`_d.
Lemma cg_refl p : cg p p. Proof. by []. Qed.
Lemma cg_add p p' q q' : cg p p' -> cg q q' -> cg (p + q) (p' + q').
Proof. by move=> Hp Hq d lt_d; rewrite !coefD Hp ?Hq. Qed.
Lemma cg_mul p p' q q' : cg p p' -> cg q q' -> cg (p * q) (p' * q').
Proof.
move=> Hp Hq d lt_d; rewrite !coefM; apply: eq_bigr => j _.
rewrite Hp ?Hq //; first by apply: leq_ltn_trans lt_d; exact: leq_subr.
by apply: leq_trans lt_d; exact: ltn_ord.
Qed.
Lemma cg_sum (I : Type) (r : seq I) (P : pred I) (F G : I -> {poly K}) :
  (forall i, P i -> cg (F i) (G i)) -> cg (\sum_(i <- r | P i) F i) (\sum_(i <- r | P i) G i).
Proof. by move=> H; apply: (big_ind2 cg) => //; exact: cg_add. Qed.
Lemma cg_prod (I : Type) (r : seq I) (P : pred I) (F G : I -> {poly K}) :
  (forall i, P i -> cg (F i) (G i)) -> cg (\prod_(i <- r | P i) F i) (\prod_(i <- r | P i) G i).
Proof. by move=> H; apply: (big_ind2 cg) => //; exact: cg_mul. Qed.
Lemma cg_det (M N : 'M[{poly K}]_n) : (forall i j, cg (M i j) (N i j)) -> cg (\det M) (\det N).
Proof.
move=> H; rewrite /determinant; apply: cg_sum => s _; apply: cg_mul => //.
by apply: cg_prod => i _; exact: H.
Qed.
End Congr.

Lemma coef_pmx (A : seq 'M[K]_n) i j d : (pmx A i j)`_d = A`_d i j.
Proof.
rewrite mxE coef_poly; case: ltnP => // le_d.
by rewrite nth_default // mxE.
Qed.

(* abstract statement: any LU factorization modulo X^D with these triangular shapes *)
Theorem det_lu_series (wT : 'M[K]_n) (sgn : K) (A L U : seq 'M[K]_n) :
  size L = size A -> size U = size A ->
  sgn * \det wT = 1 ->
  (forall d, (d < size A)%N -> \sum_(c < d.+1) L`_c *m U`_(d - c) = wT *m A`_d) ->
  (forall d, (d < size A)%N -> is_upper U`_d) ->
  is_unit_lower L`_0 -> (forall d, (d.+1 < size A)%N -> is_strict_lower L`_d.+1) ->
  forall d, (d < size A)%N -> (\det (pmx A))`_d = (sgn%:P * \prod_i (pmx U) i i)`_d.
Proof.
move=> sL sU Hsgn Heq HU [HL0 HL0d] HLS d lt_d.
set D := size A in lt_d *.
have D_gt0 : (0 < D)%N by apply: leq_ltn_trans lt_d.
pose W : 'M[{poly K}]_n := map_mx polyC wT.
have Hcg : cg D (\det (pmx L *m pmx U)) (\det (W *m pmx A)).
  apply: cg_det => i j e lt_e.
  rewrite !mxE !coef_sum.
  have -> : \sum_k (W i k * pmx A k j)`_e = (wT *m A`_e) i j.
    by rewrite mxE; apply: eq_bigr => k _; rewrite mxE coefCM coef_pmx.
  rewrite -Heq // summxE.
  under eq_bigr => k _ do rewrite coefM.
  rewrite exchange_big /=; apply: eq_bigr => c _.
  by rewrite mxE; apply: eq_bigr => k _; rewrite !coef_pmx.
have HdW : \det W = (\det wT)%:P by rewrite /W det_map_mx.
have HdL : \det (pmx L) = 1.
  have Hlow (e : nat) (i j : 'I_n) : (i < j)%N -> L`_e i j = 0.
    case: e => [|e] lt_ij; first exact: HL0.
    case: (ltnP e.+1 D) => [lt_e|le_e]; first by apply: HLS => //; exact: ltnW.
    by rewrite nth_default ?sL // mxE.
  rewrite det_trig; last first.
    apply/is_trig_mxP => i j lt_ij; apply/polyP => e.
    by rewrite coef_pmx coef0 Hlow.
  apply: big1 => i _; apply/polyP => e; rewrite coef_pmx coef1.
  case: e => [|e]; first exact: HL0d.
  case: (ltnP e.+1 D) => [lt_e|le_e]; first by rewrite HLS.
  by rewrite nth_default ?sL // mxE.
have HdU : \det (pmx U) = \prod_i pmx U i i.
  rewrite -det_tr det_trig; first by apply: eq_bigr => i _; rewrite mxE.
  apply/is_trig_mxP => i j lt_ij; apply/polyP => e.
  rewrite mxE coef_pmx coef0.
  case: (ltnP e D) => [lt_e|le_e]; first exact: HU.
  by rewrite nth_default ?sU // mxE.
have := Hcg d lt_d; rewrite !det_mulmx HdW HdL HdU mul1r !coefCM => ->.
by rewrite mulrA Hsgn mul1r.
Qed.

Lemma nth_map_dflt (T1 T2 : Type) (f : T1 -> T2) x0 (s : seq T1) i : nth (f x0) (map f s) i = f (nth x0 s i).
Proof.
case: (ltnP i (size s)) => [lt_i|le_i]; first exact: nth_map.
by rewrite !nth_default ?size_map.
Qed.

(* the LU recurrence of the model satisfies those hypotheses (FactSpec.luM_spec), hence: *)
Theorem det_luM (wT : 'M[K]_n) (sgn : K) (A : seq 'M[K]_n) (L0 U0 L0inv U0inv : 'M[K]_n) :
  is_unit_lower L0 -> is_upper U0 -> L0 *m U0 = wT *m A`_0 ->
  L0inv *m L0 = 1%:M -> U0 *m U0inv = 1%:M -> sgn * \det wT = 1 ->
  let LU := luM wT A L0 U0 L0inv U0inv in
  forall d, (d < size A)%N -> (\det (pmx A))`_d = (sgn%:P * \prod_i (pmx [seq p.2 | p <- LU]) i i)`_d.
Proof.
move=> HL0 HU0 H0 HLi HUi Hsgn LU d lt_d.
have Hspec := luM_spec HL0 HU0 H0 HLi HUi; rewrite -/LU in Hspec.
have E1 c : [seq p.1 | p <- LU]`_c = (nth (0, 0) LU c).1.
  by rewrite -[0 in LHS]/((0 : 'M[K]_n, 0 : 'M[K]_n).1) nth_map_dflt.
have E2 c : [seq p.2 | p <- LU]`_c = (nth (0, 0) LU c).2.
  by rewrite -[0 in LHS]/((0 : 'M[K]_n, 0 : 'M[K]_n).2) nth_map_dflt.
apply: (@det_lu_series wT sgn A [seq p.1 | p <- LU] [seq p.2 | p <- LU]) => //.
- by rewrite size_map luM_size.
- by rewrite size_map luM_size.
- move=> e lt_e; have [<- _] := Hspec e lt_e.
  by apply: eq_bigr => c _; rewrite E1 E2.
- by move=> e lt_e; have [_ [H _]] := Hspec e lt_e; rewrite E2.
- have [_ [_ H]] := Hspec 0%N (leq_ltn_trans (leq0n d) lt_d); by rewrite E1.
- by move=> e lt_e; have [_ [_ H]] := Hspec e.+1 lt_e; rewrite E1.
Qed.

Lemma size_mulS (x y : seq K) : size (mulS x y) = size x.
Proof. by rewrite /mulS size_mkseq. Qed.

Lemma cg_mulS (x y : seq K) : cg (size x) (Poly (mulS x y)) (Poly x * Poly y).
Proof.
move=> d lt_d; rewrite coef_Poly /mulS nth_mkseq // sumn_fE coefM.
by apply: eq_bigr => c _; rewrite !coef_Poly.
Qed.

Lemma foldl_mulS_spec (xs : seq (seq K)) (y : seq K) :
  size (foldl (fun y x => mulS y x) y xs) = size y /\
  cg (size y) (Poly (foldl (fun y x => mulS y x) y xs)) (Poly y * \prod_(x <- xs) Poly x).
Proof.
elim: xs y => [|x xs IH] y /=; first by rewrite big_nil mulr1.
have [-> H] := IH (mulS y x); rewrite size_mulS; split=> // d lt_d.
rewrite size_mulS in H; rewrite H // big_cons mulrA.
by apply: cg_mul lt_d => //; exact: cg_mulS.
Qed.

(* the executable det kernel: sgn * product of the diagonal series by repeated truncated multiplication *)
Theorem detU_spec (sgn : K) (Us : seq (mx K)) d : (d < size Us)%N ->
  (detU n sgn Us)`_d = (sgn%:P * \prod_(i < n) Poly [seq mxget U i i | U <- Us])`_d.
Proof.
move=> lt_d; rewrite /detU /scaleS /prodS.
have [Hs Hc] := foldl_mulS_spec (diag_series n Us) (constS 1 (size Us)).
rewrite /constS size_mkseq -/(constS 1 (size Us)) in Hs Hc.
rewrite (nth_map 0) ?Hs // coefCM; congr (_ * _).
have Ei : iota 0 n = index_iota 0 n by rewrite /index_iota subn0.
rewrite -coef_Poly Hc // /diag_series big_map Ei big_mkord.
rewrite -[in RHS](mul1r (\prod_(i < n) _)); apply: cg_mul lt_d => // e lt_e.
by rewrite coef_Poly /constS nth_mkseq // coef1; case: e lt_e.
Qed.

(* end to end, on what vm_compute runs: list matrices, luU followed by detU *)
Theorem detU_luU_is_det (wT : mx K) (sgn : K) (A : seq (mx K)) (L0 U0 L0inv U0inv : mx K) :
  let mo := mx_of n n in
  is_unit_lower (mo L0) -> is_upper (mo U0) -> mo L0 *m mo U0 = mo wT *m mo (nth [::] A 0) ->
  mo L0inv *m mo L0 = 1%:M -> mo U0 *m mo U0inv = 1%:M -> sgn * \det (mo wT) = 1 ->
  forall d, (d < size A)%N ->
  (detU n sgn [seq p.2 | p <- luU n wT A L0 U0 L0inv U0inv])`_d = (\det (pmx [seq mo a | a <- A]))`_d.
Proof.
move=> mo; rewrite /mo => {mo} HL0 HU0 H0 HLi HUi Hsgn d lt_d.
rewrite nth_nil_mx_of in H0.
have lt_d' : (d < size [seq mx_of n n a | a <- A])%N by rewrite size_map.
rewrite (det_luM HL0 HU0 H0 HLi HUi Hsgn lt_d') -luU_refines.
set LUs := luU n wT A L0 U0 L0inv U0inv.
have sLU : size LUs = size A by rewrite /LUs /luU /luK size_seriesT.
rewrite detU_spec ?size_map ?sLU //.
suff -> : \prod_(i < n) Poly [seq mxget U i i | U <- [seq p.2 | p <- LUs]] =
          \prod_i pmx [seq p.2 | p <- [seq mo2 n p | p <- LUs]] i i by [].
apply: eq_bigr => i _.
apply/polyP => e; rewrite coef_pmx coef_Poly -!map_comp.
case: (ltnP e (size LUs)) => [lt_e|le_e].
  by rewrite !(nth_map ([::], [::])) //= mxE.
by rewrite !nth_default ?size_map // mxE.
Qed.
End Det.

