From Coq Require Import ZArith Lia.
From mathcomp Require Import all_ssreflect all_algebra.
From mathcomp Require Import zify.
From AlgoV Require Import Sums Series Array ArraySpec.
Set Implicit Arguments. Unset Strict Implicit. Unset Printing Implicit Defensive.
Import GRing.Theory.
Delimit Scope Z_scope with ZZ.

(* ---------- python slices ---------- *)
Local Open Scope Z_scope.
Lemma range_len_posZ st sp step k : 0 < step -> 0 <= k < range_len st sp step ->
  st <= st + k * step < sp.
Proof.
unfold range_len; intros Hs.
destruct (Z.ltb_spec 0 step); [|lia].
destruct (Z.ltb_spec st sp); [|lia].
intros [Hk0 Hk].
assert (Hq : k <= (sp - st - 1) / step) by lia.
assert (Hm := Z.mul_div_le (sp - st - 1) step Hs).
assert (k * step <= (sp - st - 1) / step * step) by nia.
nia.
Qed.

Lemma range_len_negZ st sp step k : step < 0 -> 0 <= k < range_len st sp step ->
  sp < st + k * step <= st.
Proof.
unfold range_len; intros Hs.
destruct (Z.ltb_spec 0 step); [lia|].
destruct (Z.ltb_spec sp st); [|lia].
intros [Hk0 Hk].
assert (Hs' : 0 < - step) by lia.
assert (Hq : k <= (st - sp - 1) / (- step)) by lia.
assert (Hm := Z.mul_div_le (st - sp - 1) (- step) Hs').
assert (k * (- step) <= (st - sp - 1) / (- step) * (- step)) by nia.
nia.
Qed.

Lemma slice_indices_bounds a b step n : 0 <= n -> step <> 0 ->
  let: (st, sp, stp) := slice_indices a b step n in
  stp = step /\
  (0 < step -> 0 <= st <= n /\ 0 <= sp <= n) /\
  (step < 0 -> -1 <= st <= n - 1 /\ -1 <= sp <= n - 1).
Proof.
intros Hn Hs; unfold slice_indices.
destruct (Z.ltb_spec step 0); destruct a as [a|]; destruct b as [b|];
  try destruct (Z.ltb_spec a 0); try destruct (Z.ltb_spec b 0); (split; [reflexivity|]); lia.
Qed.

Lemma slice_elem_bounds a b step n k : 0 <= n -> step <> 0 ->
  let: (st, sp, stp) := slice_indices a b step n in
  0 <= k < range_len st sp stp -> 0 <= st + k * stp < n.
Proof.
intros Hn Hs; generalize (slice_indices_bounds a b Hn Hs).
destruct (slice_indices a b step n) as [[st sp] stp].
intros [-> [Hp Hng]] Hk.
destruct (Z.lt_total 0 step) as [H|[H|H]]; [|lia|].
- generalize (range_len_posZ H Hk); lia.
- assert (H' : step < 0) by lia. generalize (range_len_negZ H' Hk); lia.
Qed.
Local Close Scope Z_scope.

Lemma slice_listE a b st n :
  slice_list a b st n =
  let: (s0, sp, stp) := slice_indices a b st (Z.of_nat n) in
  [seq Z.to_nat (s0 + Z.of_nat k * stp)%ZZ | k <- iota 0 (Z.to_nat (range_len s0 sp stp))].
Proof.
rewrite /slice_list; case: (slice_indices _ _ _ _) => [[s0 sp] stp].
by rewrite /zrange -map_comp.
Qed.

Theorem slice_list_in_range (a b : option Z) (st : Z) (n : nat) : st <> 0%ZZ ->
  all (fun k => k < n) (slice_list a b st n).
Proof.
move=> st0; rewrite slice_listE.
have Hn : (0 <= Z.of_nat n)%ZZ by lia.
have := fun k => @slice_elem_bounds a b st (Z.of_nat n) k Hn st0.
case: (slice_indices _ _ _ _) => [[s0 sp] stp] Hb.
rewrite all_map; apply/allP => k; rewrite mem_iota add0n /= => lt_k.
have := Hb (Z.of_nat k); lia.
Qed.

Theorem slice_list_uniq (a b : option Z) (st : Z) (n : nat) : st <> 0%ZZ -> uniq (slice_list a b st n).
Proof.
move=> st0; rewrite slice_listE.
have Hn : (0 <= Z.of_nat n)%ZZ by lia.
have := fun k => @slice_elem_bounds a b st (Z.of_nat n) k Hn st0.
have : (slice_indices a b st (Z.of_nat n)).2 = st by [].
case: (slice_indices _ _ _ _) => [[s0 sp] stp] /= E Hb.
rewrite map_inj_in_uniq ?iota_uniq // => k1 k2.
rewrite !mem_iota !add0n /= => lt1 lt2.
have := Hb (Z.of_nat k1); have := Hb (Z.of_nat k2).
move=> H2 H1 Heq.
have H : (Z.of_nat k1 * stp = Z.of_nat k2 * stp)%ZZ by lia.
have : Z.of_nat k1 = Z.of_nat k2 by apply: (@Z.mul_reg_r _ _ stp) => //; congruence.
lia.
Qed.

Theorem slice_list_full n : slice_list None None 1%ZZ n = iota 0 n.
Proof.
rewrite slice_listE /slice_indices /= /range_len /=.
case: n => [|n] //.
have -> : (0 <? Z.of_nat n.+1)%ZZ = true by lia.
have -> : Z.to_nat ((Z.of_nat n.+1 - 0 - 1) / 1 + 1) = n.+1 by rewrite Z.div_1_r; lia.
rewrite -[RHS]map_id; apply/eq_in_map => k _; lia.
Qed.

(* ---------- gathers / scatters on flat data ---------- *)
Section Flat.
Variable T : Type.
Variable x0 : T.

Lemma size_scatter_aux (offs : seq nat) (vals data : seq T) :
  all (fun k => k < size data) offs ->
  size (foldl (fun dat (ov : nat * T) => set_nth x0 dat ov.1 ov.2) data (zip offs vals)) = size data.
Proof.
elim: offs vals data => [|k offs IH] [|v vals] data //= /andP[lt_k Hall].
have sz : size (set_nth x0 data k v) = size data by rewrite size_set_nth; apply/maxn_idPr.
by rewrite IH sz.
Qed.

Lemma scatter_nth_aux (offs : seq nat) (vals data : seq T) o :
  uniq offs -> all (fun k => k < size data) offs -> size vals = size offs ->
  nth x0 (foldl (fun dat (ov : nat * T) => set_nth x0 dat ov.1 ov.2) data (zip offs vals)) o
  = if o \in offs then nth x0 vals (index o offs) else nth x0 data o.
Proof.
elim: offs vals data => [|k offs IH] [|v vals] data //= /andP[nk un] /andP[lt_k Hall] [sz].
have sz' : size (set_nth x0 data k v) = size data by rewrite size_set_nth; apply/maxn_idPr.
rewrite IH ?sz' // in_cons [k == o]eq_sym.
case: (altP (o =P k)) => [->|ne] /=.
  by rewrite (negPf nk) nth_set_nth /= eqxx.
by case: ifP => // _; rewrite nth_set_nth /= (negPf ne).
Qed.

Theorem scatter_nth (g : gather) (vals data : seq T) o :
  uniq g.2 -> all (fun k => k < size data) g.2 -> size vals = size g.2 ->
  nth x0 (scatter x0 g vals data) o = if o \in g.2 then nth x0 vals (index o g.2) else nth x0 data o.
Proof. exact: scatter_nth_aux. Qed.

Theorem size_scatter (g : gather) (vals data : seq T) :
  all (fun k => k < size data) g.2 -> size (scatter x0 g vals data) = size data.
Proof. exact: size_scatter_aux. Qed.

Theorem gather_scatter (g : gather) (vals data : seq T) :
  uniq g.2 -> all (fun k => k < size data) g.2 -> size vals = size g.2 ->
  apply_gather x0 g (scatter x0 g vals data) = vals.
Proof.
move=> un Hall sz; apply: (@eq_from_nth _ x0); first by rewrite /apply_gather size_map.
move=> i; rewrite /apply_gather size_map => lt_i.
by rewrite (nth_map 0) // scatter_nth // mem_nth // index_uniq.
Qed.

Theorem reshape_gather_id (ns s : shape) (data : seq T) g : size data = nelem s ->
  reshape_gather ns s = Some g -> apply_gather x0 g data = data /\ g.1 = ns.
Proof.
move=> sz; rewrite /reshape_gather; case: ifP => // _ [<-] /=; split=> //.
by rewrite /apply_gather /= -sz; exact: mkseq_nth.
Qed.
End Flat.

(* ---------- basic indexing: in-range, duplicate-free offsets ---------- *)

Local Arguments slice_list : simpl never.

Definition shiftg (b : nat) (r : shape * seq nat) : shape * seq nat := (r.1, [seq b + o | o <- r.2]).

Lemma ix_gather_sliceE a b st ix' n s' base :
  (forall base, ix_gather ix' s' base = omap (shiftg base) (ix_gather ix' s' 0)) ->
  ix_gather (ISlice a b st :: ix') (n :: s') base =
  match ix_gather ix' s' 0 with
  | Some r0 => Some (size (slice_list a b st n) :: r0.1,
                     flatten [seq [seq base + k * nelem s' + o | o <- r0.2] | k <- slice_list a b st n])
  | None => if slice_list a b st n is [::] then Some ([:: 0], [::]) else None
  end.
Proof.
move=> IH; rewrite [LHS]/=; set sel := slice_list a b st n.
have -> : [seq ix_gather ix' s' (base + k * nelem s') | k <- sel] =
          [seq omap (shiftg (base + k * nelem s')) (ix_gather ix' s' 0) | k <- sel].
  by apply/eq_map => k; rewrite IH.
case: (ix_gather ix' s' 0) => [r0|] /=; last by case: sel.
by rewrite all_map (@eq_all _ _ predT) // all_predT -!map_comp.
Qed.

Lemma ix_gather_shift ix s base : ix_gather ix s base = omap (shiftg base) (ix_gather ix s 0).
Proof.
elim: ix s base => [|it ix IH] s base.
  by case: s => //=; rewrite /shiftg /= addn0.
case: it => [i|a b st| |] //.
- case: s => [|n s] //=; case: (norm_int i n) => [k|] //.
  rewrite (IH s (base + _)) (IH s (0 + _)); case: (ix_gather ix s 0) => [r0|] //=.
  by rewrite /shiftg /= -map_comp; congr (Some (_, _)); apply/eq_map => o /=; rewrite add0n addnA.
- case: s => [|n s] //; rewrite !ix_gather_sliceE //.
  case: (ix_gather ix s 0) => [r0|]; last by case: (slice_list a b st n).
  rewrite /= /shiftg /= map_flatten -!map_comp; congr (Some (_, flatten _)).
  apply/eq_map => k /=; rewrite -map_comp; apply/eq_map => o /=.
  by rewrite add0n !addnA.
- by rewrite /= (IH s base); case: (ix_gather ix s 0).
Qed.

Definition gok (N : nat) (r : shape * seq nat) :=
  [/\ uniq r.2, all (fun o => o < N) r.2 & size r.2 = nelem r.1].

Lemma block_lt n N k o : k < n -> o < N -> k * N + o < n * N.
Proof.
move=> lt_k lt_o; apply: (@leq_trans (k.+1 * N)); first by rewrite mulSn addnC ltn_add2r.
by rewrite leq_mul2r lt_k orbT.
Qed.

Lemma blocks_ok n N (sel L : seq nat) :
  uniq sel -> all (fun k => k < n) sel -> uniq L -> all (fun o => o < N) L ->
  let F := flatten [seq [seq k * N + o | o <- L] | k <- sel] in
  [/\ uniq F, all (fun o => o < n * N) F & size F = size sel * size L].
Proof.
move=> + + uL aL; elim: sel => [|k sel IH] //= /andP[nk us] /andP[lt_k as_].
have [uF aF sF] := IH us as_; split.
- rewrite cat_uniq uF andbT (map_inj_uniq (@addnI _)) uL /=.
  apply/hasPn => x /flatten_mapP[k' k'_in /mapP[o' o'_in ->]].
  apply/negP => /mapP[o o_in E].
  have lt_o := allP aL _ o_in; have lt_o' := allP aL _ o'_in.
  have N0 : 0 < N by apply: leq_ltn_trans lt_o.
  have : (k' * N + o') %/ N = (k * N + o) %/ N by rewrite E.
  rewrite !divnMDl // !divn_small // !addn0 => E'.
  by move: nk; rewrite -E' k'_in.
- rewrite all_cat aF andbT all_map; apply/allP => o o_in /=.
  by apply: block_lt => //; apply: (allP aL).
- by rewrite size_cat size_map sF mulSn.
Qed.

Lemma norm_int_lt i n k : norm_int i n = Some k -> k < n.
Proof.
rewrite /norm_int; case: (i <? 0)%ZZ; case: ifP => // H [<-]; lia.
Qed.

Lemma ix_gather_ok ix s r : st_ok ix -> ix_gather ix s 0 = Some r -> gok (nelem s) r.
Proof.
elim: ix s r => [|it ix IH] s r.
  by case: s => //= _ [<-].
case: it => [i|a b st| |] // ok.
- move: ok => /= ok; case: s => [|n s] //; case E: (norm_int i n) => [k|] //.
  rewrite ix_gather_shift; case G: (ix_gather ix s 0) => [r0|] //= [<-].
  have [u0 a0 s0] := IH _ _ ok G; have lt_k := norm_int_lt E.
  split; rewrite /shiftg /=.
  + by rewrite (map_inj_uniq (@addnI _)).
  + rewrite all_map; apply/allP => o o_in /=; rewrite add0n.
    by apply: block_lt => //; apply: (allP a0).
  + by rewrite size_map.
- case/andP: ok => st0 ok; rewrite -/(st_ok ix) in ok.
  case: s => [|n s] //; rewrite ix_gather_sliceE; last by move=> b0; exact: ix_gather_shift.
  have st0' : st <> 0%ZZ by move=> st00; move: st0; rewrite st00.
  case G: (ix_gather ix s 0) => [r0|]; last first.
    by case: (slice_list a b st n) => // -[<-].
  case=> <-; have [u0 a0 s0] := IH _ _ ok G.
  have := blocks_ok (slice_list_uniq a b n st0') (slice_list_in_range a b n st0') u0 a0.
  rewrite /= => -[uF aF sF]; split => /=.
  + by rewrite (eq_map (f2 := fun k => [seq k * nelem s + o | o <- r0.2])).
  + by rewrite (eq_map (f2 := fun k => [seq k * nelem s + o | o <- r0.2])).
  + by rewrite (eq_map (f2 := fun k => [seq k * nelem s + o | o <- r0.2])) // sF s0.
- move: ok => /= ok; case G: (ix_gather ix s 0) => [r0|] //= [<-].
  by have [u0 a0 s0] := IH _ _ ok G; split; rewrite //= mul1n.
Qed.

Lemma st_ok_expand ix rank : st_ok ix -> st_ok (expand_ix ix rank).
Proof.
rewrite /expand_ix => ok.
have : st_ok (nseq (rank - sumn [seq consumes it | it <- ix]) full).
  by rewrite /st_ok all_nseq /= orbT.
move: (nseq _ full) => fill okf; case: ifP => _; last by rewrite /st_ok all_cat [all _ ix]ok.
elim: ix ok => [|it ix IH] //= /andP[ok_it /IH ok]; rewrite /st_ok all_cat [all _ (flatten _)]ok andbT.
by case: it ok_it => //= _ _ st ->.
Qed.

Theorem getitem_gather_ok (ix : seq ixitem) (s : shape) g : getitem_gather ix s = Some g ->
  uniq g.2 /\ all (fun o => o < nelem s) g.2 /\ size g.2 = nelem g.1.
Proof.
rewrite /getitem_gather; case: ifP => // ok /(ix_gather_ok (st_ok_expand _ ok)).
by case.
Qed.

(* ---------- UTPM level ---------- *)
Section U.
Variable K : fieldType.
Implicit Types (x : utpm K).
Theorem gatherU_slicewise (g : gather) x d p : p < ndirs x ->
  all (fun o => o < size (nth [::] x.2 p)) g.2 ->
  slice_dp (gatherU g x) d p = apply_gather 0%R g (slice_dp x d p).
Proof.
move=> lt_p Hall; rewrite /slice_dp /gatherU /apply_gather /= (nth_map [::]) // -map_comp.
by apply/eq_in_map => o /(allP Hall) lt_o /=; rewrite (nth_map [::]).
Qed.

Theorem setitem_const_spec (g : gather) (D : nat) (cs : seq K) x p o : p < ndirs x ->
  uniq g.2 -> all (fun k => k < size (nth [::] x.2 p)) g.2 -> size cs = size g.2 ->
  ser (setitem_constU g D cs x) p o =
  if o \in g.2 then constS (nth 0%R cs (index o g.2)) D else ser x p o.
Proof.
move=> lt_p un Hall sz; rewrite /setitem_constU /setitemU /ser /=.
rewrite (nth_map 0) ?size_iota // nth_iota // add0n nth_nseq lt_p.
rewrite scatter_nth ?size_map //; case: ifP => // o_in.
by rewrite (nth_map 0%R) // sz index_mem.
Qed.

Theorem setitem_getitem (g : gather) (rhs : seq (seq (seq K))) x p : p < ndirs x ->
  uniq g.2 -> all (fun k => k < size (nth [::] x.2 p)) g.2 -> size (nth [::] rhs p) = size g.2 ->
  nth [::] (gatherU g (setitemU g rhs x)).2 p = nth [::] rhs p.
Proof.
move=> lt_p un Hall sz; rewrite /gatherU /setitemU /=.
rewrite (nth_map [::]) ?size_map ?size_iota //.
by rewrite (nth_map 0) ?size_iota // nth_iota // add0n gather_scatter.
Qed.
End U.

(* ---------- transposition ---------- *)
Lemma transpose_gather2E m n :
  transpose_gather [:: 1; 0] [:: m; n] =
  ([:: n; m], [seq (j %% m) * n + j %/ m | j <- iota 0 (n * m)]).
Proof.
rewrite /transpose_gather /= !muln1; congr (_, _).
by apply/eq_map => j; rewrite divn1 muln1 addn0.
Qed.

Theorem transpose2_id (T : Type) (x0 : T) (m n : nat) (data : seq T) : size data = m * n ->
  apply_gather x0 (transpose_gather [:: 1; 0] [:: n; m]) (apply_gather x0 (transpose_gather [:: 1; 0] [:: m; n]) data) = data.
Proof.
move=> sz; rewrite !transpose_gather2E /apply_gather /= -!map_comp.
apply: (@eq_from_nth _ x0); first by rewrite !size_map size_iota sz.
move=> j; rewrite !size_map size_iota => lt_j.
have n0 : 0 < n by case: n lt_j {sz} => //; rewrite muln0.
have m0 : 0 < m by case: m lt_j {sz}.
have lt_q : j %/ n < m by rewrite ltn_divLR.
have lt_r : j %% n < n by rewrite ltn_pmod.
have lt_j' : j %% n * m + j %/ n < n * m.
  apply: (@leq_trans ((j %% n).+1 * m)); first by rewrite mulSn addnC ltn_add2r.
  by rewrite leq_mul2r lt_r orbT.
rewrite (nth_map 0) ?size_iota // nth_iota // add0n /=.
rewrite (nth_map 0) ?size_iota // nth_iota // add0n /=.
by rewrite modnMDl (modn_small lt_q) divnMDl // (divn_small lt_q) addn0 -divn_eq.
Qed.
