(* C07 -- linear algebra kernels: property theorems only. *)
From mathcomp Require Import all_ssreflect all_algebra.
From AlgoV Require Import Sums Series Matrix MatrixSpec.
Set Implicit Arguments. Unset Strict Implicit. Unset Printing Implicit Defensive.
Import GRing.Theory.
Local Open Scope ring_scope.

(* ===== Part 1: the raw kernels instantiated with an arbitrary (possibly non-commutative) ring ===== *)
Section RingSpec.
Variable R : ringType.
Implicit Types (x y : seq R).

Theorem C07_size_cauchyR x y : size (cauchyR x y) = size x.
Proof. exact: size_cauchyR. Qed.
Theorem C07_cauchyR_spec x y d : (d < size x)%N -> (cauchyR x y)`_d = \sum_(c < d.+1) x`_c * y`_(d - c).
Proof. exact: cauchyR_spec. Qed.
Theorem C07_size_invR x yinv0 : size (invR x yinv0) = size x.
Proof. exact: size_invR. Qed.
(* x(t) * inv(x)(t) = 1 modulo t^D *)
Theorem C07_invR_right x yinv0 d : x`_0 * yinv0 = 1 -> (d < size x)%N ->
  \sum_(c < d.+1) x`_c * (invR x yinv0)`_(d - c) = (d == 0%N)%:R.
Proof. exact: invR_right. Qed.
(* inv(x)(t) * x(t) = 1 modulo t^D (needs a two-sided base inverse) *)
Theorem C07_invR_left x yinv0 d : x`_0 * yinv0 = 1 -> yinv0 * x`_0 = 1 -> (d < size x)%N ->
  \sum_(c < d.+1) (invR x yinv0)`_c * x`_(d - c) = (d == 0%N)%:R.
Proof. exact: invR_left. Qed.
End RingSpec.

(* ===== Part 2: solve on mathcomp matrices ===== *)
Section MxSpec.
Variable K : fieldType.
Variables (n k : nat).
Implicit Types (A : seq 'M[K]_n) (B Y : seq 'M[K]_(n, k)).
Theorem C07_size_solveM A Ainv0 B : size (solveM A Ainv0 B) = size A.
Proof. exact: size_solveM. Qed.
(* A(t) X(t) = B(t) modulo t^D *)
Theorem C07_solveM_spec A Ainv0 B d : A`_0 *m Ainv0 = 1%:M -> (d < size A)%N ->
  \sum_(c < d.+1) A`_c *m (solveM A Ainv0 B)`_(d - c) = B`_d.
Proof. exact: solveM_spec. Qed.
End MxSpec.

(* ===== Part 3: the executable list matrices refine mathcomp matrices ===== *)
Section Refine.
Variable K : fieldType.
Theorem C07_mx_of_mmul n m k (A B : mx K) : mx_of n k (mmul n m k A B) = mx_of n m A *m mx_of m k B.
Proof. exact: mx_of_mmul. Qed.
Theorem C07_mx_of_madd n m (A B : mx K) : mx_of n m (madd n m A B) = mx_of n m A + mx_of n m B.
Proof. exact: mx_of_madd. Qed.
Theorem C07_mx_of_msub n m (A B : mx K) : mx_of n m (msub n m A B) = mx_of n m A - mx_of n m B.
Proof. exact: mx_of_msub. Qed.
Theorem C07_mx_of_mneg n m (A : mx K) : mx_of n m (mneg n m A) = - mx_of n m A.
Proof. exact: mx_of_mneg. Qed.
Theorem C07_mx_of_mzero n m : mx_of n m (mzero K n m) = 0.
Proof. exact: mx_of_mzero. Qed.
Theorem C07_mx_of_meye n : mx_of n n (meye K n) = 1%:M.
Proof. exact: mx_of_meye. Qed.
Theorem C07_mx_of_mtr n m (A : mx K) : mx_of m n (mtr n m A) = (mx_of n m A)^T.
Proof. exact: mx_of_mtr. Qed.
Theorem C07_mtrace_of n (A : mx K) : mtrace n A = \tr (mx_of n n A).
Proof. exact: mtrace_of. Qed.

(* transfer: running the list-matrix kernels and then reading the results as mathcomp matrices = running the kernels on
   mathcomp matrices *)
Theorem C07_dotU_refines n m k (x y : seq (mx K)) d : (d < size x)%N ->
  mx_of n k (nth [::] (dotU n m k x y) d) =
  \sum_(c < d.+1) mx_of n m (nth [::] x c) *m mx_of m k (nth [::] y (d - c)).
Proof. exact: dotU_refines. Qed.
Theorem C07_solveU_refines n k (A : seq (mx K)) (Ainv0 : mx K) (B : seq (mx K)) :
  [seq mx_of n k Y | Y <- solveU n k A Ainv0 B] =
  solveM [seq mx_of n n a | a <- A] (mx_of n n Ainv0) [seq mx_of n k b | b <- B].
Proof. exact: solveU_refines. Qed.
(* hence, on the executable model itself: A(t) X(t) = B(t) modulo t^D *)
Theorem C07_solveU_spec n k (A : seq (mx K)) (Ainv0 : mx K) (B : seq (mx K)) d :
  mx_of n n (nth [::] A 0) *m mx_of n n Ainv0 = 1%:M -> (d < size A)%N ->
  \sum_(c < d.+1) mx_of n n (nth [::] A c) *m mx_of n k (nth [::] (solveU n k A Ainv0 B) (d - c)) = mx_of n k (nth [::] B d).
Proof. exact: solveU_spec. Qed.
(* and A(t) inv(A)(t) = I modulo t^D for the executable inverse (n = n'.+1 so that 'M_n is a ring) *)
Theorem C07_invU_spec n' (x : seq (mx K)) (xinv0 : mx K) d : let n := n'.+1 in
  mx_of n n (nth [::] x 0) *m mx_of n n xinv0 = 1%:M -> (d < size x)%N ->
  \sum_(c < d.+1) mx_of n n (nth [::] x c) *m mx_of n n (nth [::] (invU n x xinv0) (d - c)) = (d == 0%N)%:R%:M.
Proof. exact: invU_spec. Qed.
Theorem C07_traceU_spec n (x : seq (mx K)) d : (d < size x)%N -> (traceU n x)`_d = \tr (mx_of n n (nth [::] x d)).
Proof. exact: traceU_spec. Qed.
End Refine.

Print Assumptions C07_size_cauchyR.
Print Assumptions C07_cauchyR_spec.
Print Assumptions C07_size_invR.
Print Assumptions C07_invR_right.
Print Assumptions C07_invR_left.
Print Assumptions C07_size_solveM.
Print Assumptions C07_solveM_spec.
Print Assumptions C07_mx_of_mmul.
Print Assumptions C07_mx_of_madd.
Print Assumptions C07_mx_of_msub.
Print Assumptions C07_mx_of_mneg.
Print Assumptions C07_mx_of_mzero.
Print Assumptions C07_mx_of_meye.
Print Assumptions C07_mx_of_mtr.
Print Assumptions C07_mtrace_of.
Print Assumptions C07_dotU_refines.
Print Assumptions C07_solveU_refines.
Print Assumptions C07_solveU_spec.
Print Assumptions C07_invU_spec.
Print Assumptions C07_traceU_spec.

(* ---- det via LU (utpm.py: det = piv2det(PIV) * prod(diag(U))) is the Leibniz determinant of the polynomial matrix modulo X^D *)
From AlgoV Require Import MatrixFact FactSpec DetSpec.
Theorem C07_det_lu_series (K : fieldType) (n : nat) (wT : 'M[K]_n) (sgn : K) (A L U : seq 'M[K]_n) :
  size L = size A -> size U = size A ->
  sgn * \det wT = 1 ->
  (forall d, (d < size A)%N -> \sum_(c < d.+1) L`_c *m U`_(d - c) = wT *m A`_d) ->
  (forall d, (d < size A)%N -> is_upper U`_d) ->
  is_unit_lower L`_0 -> (forall d, (d.+1 < size A)%N -> is_strict_lower L`_d.+1) ->
  forall d, (d < size A)%N -> (\det (pmx A))`_d = (sgn%:P * \prod_i (pmx U) i i)`_d.
Proof. exact: det_lu_series. Qed.
Print Assumptions C07_det_lu_series.
Theorem C07_detU_spec (K : fieldType) (n : nat) (sgn : K) (Us : seq (mx K)) d : (d < size Us)%N ->
  (detU n sgn Us)`_d = (sgn%:P * \prod_(i < n) Poly [seq mxget U i i | U <- Us])`_d.
Proof. exact: detU_spec. Qed.
Print Assumptions C07_detU_spec.
(* end to end on the executable list-matrix kernels: the LU recurrence followed by the det kernel *)
Theorem C07_detU_luU_is_det (K : fieldType) (n : nat) (wT : mx K) (sgn : K) (A : seq (mx K)) (L0 U0 L0inv U0inv : mx K) :
  let mo := mx_of n n in
  is_unit_lower (mo L0) -> is_upper (mo U0) -> mo L0 *m mo U0 = mo wT *m mo (nth [::] A 0) ->
  mo L0inv *m mo L0 = 1%:M -> mo U0 *m mo U0inv = 1%:M -> sgn * \det (mo wT) = 1 ->
  forall d, (d < size A)%N ->
  (detU n sgn [seq p.2 | p <- luU n wT A L0 U0 L0inv U0inv])`_d = (\det (pmx [seq mo a | a <- A]))`_d.
Proof. exact: detU_luU_is_det. Qed.
Print Assumptions C07_detU_luU_is_det.

(* ---- logdet (utpm.py: log|c| + sum log|u_ii| on the LU factors) is a logarithm of det as formal power series: with the executable
   kernels luU and logdetU,  det(t) * logdet'(t) = det'(t)  modulo t^(D-1), for every size and every D over every field of
   characteristic 0, whenever U_0 has no zero on its diagonal (base values log|u_ii(0)|, |u_ii(0)| and signs as NumPy returns them) *)
From AlgoV Require Import Logdet LogdetSpec.
Theorem C07_logdetU_luU_spec (K : fieldType) : [char K]%R =i pred0 -> forall (n : nat) (wT : mx K) (sgn : K) (A : seq (mx K))
  (L0 U0 L0inv U0inv : mx K) (sgn0 abs0 l0 : seq K) d,
  let mo := mx_of n n in
  let Us := [seq p.2 | p <- luU n wT A L0 U0 L0inv U0inv] in
  is_unit_lower (mo L0) -> is_upper (mo U0) -> mo L0 *m mo U0 = mo wT *m mo (nth [::] A 0) ->
  mo L0inv *m mo L0 = 1%:M -> mo U0 *m mo U0inv = 1%:M -> sgn * \det (mo wT) = 1 ->
  (forall i, (i < n)%N -> mxget (nth [::] Us 0) i i != 0 /\ nth 0 sgn0 i * nth 0 sgn0 i = 1 /\
                          nth 0 abs0 i = nth 0 sgn0 i * mxget (nth [::] Us 0) i i) ->
  (d.+1 < size A)%N ->
  let dt := \det (pmx [seq mo a | a <- A]) in
  (dt * (Poly (logdetU n Us sgn0 abs0 l0))^`())`_d = (dt^`())`_d.
Proof. move=> ch n wT sgn A L0 U0 L0inv U0inv sgn0 abs0 l0 d; exact: (logdetU_luU_spec ch). Qed.
Print Assumptions C07_logdetU_luU_spec.
Theorem C07_logS_deriv (K : fieldType) : [char K]%R =i pred0 -> forall (xs : seq K) (l0 : K) d, xs`_0 != 0 -> (d.+1 < size xs)%N ->
  (Poly xs * (Poly (logS xs l0))^`())`_d = ((Poly xs)^`())`_d.
Proof. move=> ch xs l0 d; exact: (logS_deriv ch). Qed.
Print Assumptions C07_logS_deriv.
