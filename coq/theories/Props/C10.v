(* C10 -- zeroth coefficient and shapes: property theorems only (the modelled half; NumPy itself is the oracle for the
   base operations and is compared on every run). *)
From mathcomp Require Import all_ssreflect all_algebra.
From AlgoV Require Import Sums Series SeriesBase SeriesSpec SeriesZero Array ArraySpec.
Set Implicit Arguments. Unset Strict Implicit. Unset Printing Implicit Defensive.
Import GRing.Theory.
Local Open Scope ring_scope.

Section C10.
Variable K : fieldType.
Implicit Types (xs ys : seq K).

Theorem C10_addS_0 xs ys : (0 < size xs)%N -> (addS xs ys)`_0 = xs`_0 + ys`_0.
Proof. exact: addS_0. Qed.

Theorem C10_subS_0 xs ys : (0 < size xs)%N -> (subS xs ys)`_0 = xs`_0 - ys`_0.
Proof. exact: subS_0. Qed.

Theorem C10_mulS_0 xs ys : (0 < size xs)%N -> (mulS xs ys)`_0 = xs`_0 * ys`_0.
Proof. exact: mulS_0. Qed.

Theorem C10_divS_0 xs ys : (0 < size xs)%N -> (divS xs ys)`_0 = (ys`_0)^-1 * (xs`_0 - 0).
Proof. exact: divS_0. Qed.

Theorem C10_recipS_0 ys : (0 < size ys)%N -> (recipS ys)`_0 = (ys`_0)^-1 * (1 - 0).
Proof. exact: recipS_0. Qed.

Theorem C10_squareS_0 xs : (0 < size xs)%N -> (squareS xs)`_0 = xs`_0 * xs`_0.
Proof. exact: squareS_0. Qed.

Theorem C10_sqrtS_0 xs (s0 : K) : (0 < size xs)%N -> (sqrtS xs s0)`_0 = s0.
Proof. exact: sqrtS_0. Qed.

Theorem C10_powS_0 xs (r p0 : K) : (0 < size xs)%N -> (powS xs r p0)`_0 = p0.
Proof. exact: powS_0. Qed.

Theorem C10_expS_0 xs (e0 : K) : (0 < size xs)%N -> (expS xs e0)`_0 = e0.
Proof. exact: expS_0. Qed.

Theorem C10_logS_0 xs (l0 : K) : (0 < size xs)%N -> (logS xs l0)`_0 = l0.
Proof. exact: logS_0. Qed.

Theorem C10_bfwfS_0 (f0 : K) fp xs : (0 < size xs)%N -> (bfwfS f0 fp xs)`_0 = f0.
Proof. exact: bfwfS_0. Qed.

Theorem C10_sincosS_0 xs (s0 c0 : K) : (0 < size xs)%N -> (sincosS xs s0 c0).1`_0 = s0 /\ (sincosS xs s0 c0).2`_0 = c0.
Proof. exact: sincosS_0. Qed.

Theorem C10_sinhcoshS_0 xs (s0 c0 : K) : (0 < size xs)%N -> (sinhcoshS xs s0 c0).1`_0 = s0 /\ (sinhcoshS xs s0 c0).2`_0 = c0.
Proof. exact: sinhcoshS_0. Qed.

Theorem C10_tansec2S_0 xs (t0 z0 : K) : (0 < size xs)%N -> (tansec2S xs t0 z0).1`_0 = t0.
Proof. exact: tansec2S_0. Qed.

Theorem C10_tanhsech2S_0 xs (t0 : K) : (0 < size xs)%N -> (tanhsech2S xs t0).1`_0 = t0.
Proof. exact: tanhsech2S_0. Qed.

Theorem C10_arcsinS_0 xs (y0 z0 : K) : (0 < size xs)%N -> (arcsinS xs y0 z0).1`_0 = y0.
Proof. exact: arcsinS_0. Qed.

Theorem C10_arctanS_0 xs (y0 : K) : (0 < size xs)%N -> (arctanS xs y0).1`_0 = y0.
Proof. exact: arctanS_0. Qed.

Theorem C10_slowgenS_0 xs (derivs : seq K) : (0 < size xs)%N -> (slowgenS xs derivs)`_0 = derivs`_0.
Proof. exact: slowgenS_0. Qed.

Theorem C10_absS_0 xs (sgn0 abs0 : K) : (0 < size xs)%N -> (absS xs sgn0 abs0)`_0 = abs0.
Proof. exact: absS_0. Qed.

Theorem C10_signS_0 xs (sgn0 : K) : (0 < size xs)%N -> (signS xs sgn0)`_0 = sgn0.
Proof. exact: signS_0. Qed.

Theorem C10_negS_0 xs : (0 < size xs)%N -> (negS xs)`_0 = - xs`_0.
Proof. exact: negS_0. Qed.

(* result shape of a binary operation = NumPy's broadcast shape of the operand shapes; constants are lifted unchanged *)
Theorem C10_binop_shape (op : seq K -> seq K -> seq K) (x y z : utpm K) :
  binopU op x y = Some z -> bshape x.1 y.1 = Some z.1.
Proof. by rewrite /binopU; case: (bshape x.1 y.1) => // o [<-]. Qed.
Theorem C10_unop_shape (op : seq K -> seq K) (x : utpm K) : (unopU op x).1 = x.1.
Proof. by []. Qed.
Theorem C10_gather_shape (g : gather) (x : utpm K) : (gatherU g x).1 = g.1.
Proof. by []. Qed.

End C10.

Print Assumptions C10_addS_0.
Print Assumptions C10_subS_0.
Print Assumptions C10_mulS_0.
Print Assumptions C10_divS_0.
Print Assumptions C10_recipS_0.
Print Assumptions C10_squareS_0.
Print Assumptions C10_sqrtS_0.
Print Assumptions C10_powS_0.
Print Assumptions C10_expS_0.
Print Assumptions C10_logS_0.
Print Assumptions C10_bfwfS_0.
Print Assumptions C10_sincosS_0.
Print Assumptions C10_sinhcoshS_0.
Print Assumptions C10_tansec2S_0.
Print Assumptions C10_tanhsech2S_0.
Print Assumptions C10_arcsinS_0.
Print Assumptions C10_arctanS_0.
Print Assumptions C10_slowgenS_0.
Print Assumptions C10_absS_0.
Print Assumptions C10_signS_0.
Print Assumptions C10_negS_0.
Print Assumptions C10_binop_shape.
Print Assumptions C10_unop_shape.
Print Assumptions C10_gather_shape.
