(* C15 -- exact-interpolation: property theorems only (statements closed by `exact`). *)
From Coq Require Import ZArith QArith Qcanon.
From mathcomp Require Import all_ssreflect all_algebra.
From AlgoV Require Import QcField Sums Interp InterpSpec.
Local Close Scope Q_scope. Local Close Scope Qc_scope. Local Open Scope nat_scope.

(* T: for every N >= 1 and every degree d the generated list contains exactly the multi-indices of
   length N with |i| = d ... *)
Theorem C15_multi_indices_complete N d (s : seq nat) :
  (s \in gen_mi N.+1 d) = (size s == N.+1) && (sumn s == d).
Proof. exact: gen_mi_complete. Qed.
Print Assumptions C15_multi_indices_complete.

(* ... each exactly once *)
Theorem C15_multi_indices_uniq N d : uniq (gen_mi N d).
Proof. exact: gen_mi_uniq. Qed.
Print Assumptions C15_multi_indices_uniq.

Theorem C15_multi_indices_once N d (s : seq nat) :
  size s = N.+1 -> sumn s = d -> count_mem s (gen_mi N.+1 d) = 1.
Proof. exact: gen_mi_count. Qed.
Print Assumptions C15_multi_indices_once.

(* B (bound in the statement): sum_j Gamma[i,j] * ray_j^a = delta(i,a) for all multi-indices i, a of
   degree d, in exact rational arithmetic, for 1 <= N <= 4, 1 <= d <= 5; the gamma loop terminates
   within its fuel on all of them.  The unbounded identity is Griewank-Utke-Walther's theorem and is
   NOT re-proved here. *)
Theorem C15_interpolation_identity_bounded N d : (0 < N <= 4) -> (0 < d <= 5) ->
  Gamma_identity Qc_fieldType N d = true.
Proof. exact: Gamma_identity_bounded. Qed.
Print Assumptions C15_interpolation_identity_bounded.

(* ---- the UNBOUNDED identity: every number of variables N >= 1, every degree d >= 1, every field of characteristic 0: the gamma loop
   terminates within its fuel for all multi-indices and  sum_j Gamma[i,j] * ray_j^a = delta(i,a).  Proved from the finite differences
   of monomials, the generalized (multi-index) Vandermonde convolution, simplex interpolation of monomials through Stirling numbers,
   and an odometer argument for the loop (InterpAlg.v, InterpLoop.v, InterpFull.v). *)
From AlgoV Require Import InterpFull QcField.
Import GRing.Theory.
Theorem C15_interpolation_identity (K : fieldType) : ([char K]%R =i pred0) ->
  forall N d : nat, (0 < N)%N -> (0 < d)%N -> Gamma_identity K N d = true.
Proof. move=> ch N d; exact: Gamma_identity_all. Qed.
Print Assumptions C15_interpolation_identity.
(* in particular for the rationals the correspondence check computes with *)
Theorem C15_interpolation_identity_Qc (N d : nat) : (0 < N)%N -> (0 < d)%N -> Gamma_identity Qc_fieldType N d = true.
Proof. exact: Gamma_identity_Qc. Qed.
Print Assumptions C15_interpolation_identity_Qc.

