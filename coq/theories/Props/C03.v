(* C03 -- reverse mode agrees with forward mode at every Taylor order: property theorems only. *)
From mathcomp Require Import all_ssreflect all_algebra.
From AlgoV Require Import Tracer TracerInst TracerSpecB.
Set Implicit Arguments. Unset Strict Implicit. Unset Printing Implicit Defensive.
Import GRing.Theory.
Local Open Scope ring_scope.

(* For EVERY commutative ring S of values -- in particular S = K[t]/(t^D), which makes this the identity at every Taylor order --
   every well-formed tape (arithmetic, unary functions with arbitrary derivative tables, powers, buffers, views, in-place
   writes incl. y[k] = view of y[k]), every input, every direction dxs and every seed, the reverse sweep of the model
   (adjoint heap mirroring the value heap, restore step after the pullback of an in-place write) is the transpose of the forward
   tangent sweep:  sum_i xbar_i dx_i = sum_j ybar_j (F'(x) dx)_j . *)
Theorem C03_reverse_adjoint (S : comRingType) (recip : S -> S) (unval : nat -> S -> S) (unpart : nat -> S -> S -> S)
  (t : tape S) (outs : seq nat) (xs dxs ybars : seq S) :
  wf_tape (size xs) t -> size dxs = size xs -> size ybars = size outs -> uniq outs ->
  all (fun a => (a < size t)%N && is_scal t a) outs ->
  \sum_(i < size xs) (R_gradient_like recip unval unpart t outs xs ybars)`_i * dxs`_i
  = \sum_(j < size outs) ybars`_j * (R_tangent_out recip unval unpart t outs xs dxs)`_j.
Proof. exact: reverse_adjoint. Qed.
Print Assumptions C03_reverse_adjoint.

(* the setitem pullback as it stood before the repair (accumulate first, clear afterwards) violates the identity when the
   assigned value is a view of the cell being written: kernel-checked witness (6-node tape over the integers) *)
Theorem C03_unrepaired_selfset_refuted :
  exists (t : tape int_comRing) (outs : seq nat) (xs dxs ybars : seq int)
         (recip : int -> int) (unval : nat -> int -> int) (unpart : nat -> int -> int -> int),
  [/\ wf_tape (size xs) t, size dxs = size xs, size ybars = size outs, uniq outs &
      all (fun a => (a < size t)%N && is_scal t a) outs] /\
  \sum_(i < size xs)
     (xbar_of (R_pullback_unrepaired recip unpart t (R_replay recip unval t xs) outs ybars))`_i * dxs`_i
  <> \sum_(j < size outs) ybars`_j * (R_tangent_out recip unval unpart t outs xs dxs)`_j.
Proof. exact: unrepaired_selfset_refuted. Qed.
Print Assumptions C03_unrepaired_selfset_refuted.

(* ---- the same identity for the EXECUTABLE instance (TracerExec.v: coefficient lists of length D over a field, the series kernels of
   Series.v -- what the correspondence check runs by vm_compute), at every Taylor order d < D: the executable instance refines the
   ring instance at {poly K} modulo X^D (TracerRefine.v), so the identity above transfers to it. *)
From AlgoV Require Import Series TracerExec TracerRefine.
Theorem C03_exec_adjoint (K : fieldType) (D : nat) (t : tape (seq K)) (outs : seq nat) (xs dxs ybars : seq (seq K)) :
  all (@node_ok K D) t -> sized D xs -> sized D dxs -> sized D ybars ->
  wf_tape (size xs) t -> size dxs = size xs -> size ybars = size outs -> uniq outs ->
  all (fun a => (a < size t)%N && is_scal t a) outs ->
  forall d, (d < D)%N ->
  (\sum_(i < size xs) Poly (nth [::] (X_grad D t outs xs ybars) i) * Poly (nth [::] dxs i))`_d
  = (\sum_(j < size outs) Poly (nth [::] ybars j) * Poly (nth [::] (X_tangent_out D t outs xs dxs) j))`_d.
Proof. exact: X_adjoint. Qed.
Print Assumptions C03_exec_adjoint.
Theorem C03_exec_grad_refines (K : fieldType) (D : nat) (t : tape (seq K)) outs xs ybars : all (@node_ok K D) t -> sized D xs -> sized D ybars ->
  sers_rel D (X_grad D t outs xs ybars)
             (R_gradient_like (recipP D) (unvalP D) (unpartP D) (map (@nodeP K) t) outs (map Poly xs) (map Poly ybars)).
Proof. exact: X_grad_refines. Qed.
Print Assumptions C03_exec_grad_refines.

(* ---- array-level reverse rules (MatPullback.v).  For EVERY commutative ring R (in particular R = K[t]/(t^D): all Taylor orders at
   once) and the pairing <A, B> = tr(A^T B): each matrix rule, as utpm.py / algorithms.py code it, is the transpose of the
   operation's differential; the differentials themselves are justified by first-order expansions with a nilpotent scalar eps
   (eps * eps = 0), including Jacobi's formula for the determinant. *)
From AlgoV Require Import MatPullback.
Theorem C03_dot_differential (R : comRingType) (eps : R) m n k (X dX : 'M[R]_(m, n)) (Y dY : 'M[R]_(n, k)) : eps * eps = 0 ->
  (X + eps *: dX) *m (Y + eps *: dY) = X *m Y + eps *: (dX *m Y + X *m dY).
Proof. move=> e2; exact: dot_expand. Qed.
Theorem C03_inv_differential (R : comRingType) (eps : R) n (A Y dA : 'M[R]_n) : eps * eps = 0 ->
  A *m Y = 1%:M -> Y *m A = 1%:M -> (A + eps *: dA) *m (Y - eps *: (Y *m dA *m Y)) = 1%:M.
Proof. move=> e2; exact: inv_expand. Qed.
Theorem C03_solve_differential (R : comRingType) (eps : R) n k (A Ai dA : 'M[R]_n) (Y X dX : 'M[R]_(n, k)) : eps * eps = 0 ->
  A *m Ai = 1%:M -> Ai *m A = 1%:M -> A *m Y = X ->
  (A + eps *: dA) *m (Y + eps *: (Ai *m (dX - dA *m Y))) = X + eps *: dX.
Proof. move=> e2; exact: solve_expand. Qed.
Theorem C03_det_differential (R : comRingType) (eps : R) n (A V : 'M[R]_n) : eps * eps = 0 ->
  \det (A + eps *: V) = \det A + eps * \tr (\adj A *m V).
Proof. move=> e2; exact: det_expand. Qed.
Theorem C03_pb_dot_adjoint (R : comRingType) m n k (X dX : 'M[R]_(m, n)) (Y dY : 'M[R]_(n, k)) (Zbar : 'M[R]_(m, k)) :
  ip Zbar (dX *m Y + X *m dY) = ip (Zbar *m Y^T) dX + ip (X^T *m Zbar) dY.
Proof. exact: pb_dot. Qed.
Theorem C03_pb_outer_adjoint (R : comRingType) m n (x dx : 'cV[R]_m) (y dy : 'cV[R]_n) (Zbar : 'M[R]_(m, n)) :
  ip Zbar (dx *m y^T + x *m dy^T) = ip (Zbar *m y) dx + ip (Zbar^T *m x) dy.
Proof. exact: pb_outer. Qed.
Theorem C03_pb_inv_adjoint (R : comRingType) n (Y dA Ybar : 'M[R]_n) :
  ip Ybar (- (Y *m dA *m Y)) = ip (- (Y^T *m (Ybar *m Y^T))) dA.
Proof. exact: pb_inv. Qed.
Theorem C03_pb_solve_adjoint (R : comRingType) n k (Ai dA : 'M[R]_n) (Y dX Ybar : 'M[R]_(n, k)) :
  let Tbar := - (Ai^T *m Ybar) in
  ip Ybar (Ai *m (dX - dA *m Y)) = ip (Tbar *m Y^T) dA + ip (- Tbar) dX.
Proof. exact: pb_solve. Qed.
Theorem C03_pb_trace_adjoint (R : comRingType) n (ybar : R) (dX : 'M[R]_n) : ybar * \tr dX = ip (ybar *: 1%:M) dX.
Proof. exact: pb_trace. Qed.
Theorem C03_pb_transpose_adjoint (R : comRingType) m n (Ybar : 'M[R]_(n, m)) (dX : 'M[R]_(m, n)) : ip Ybar dX^T = ip Ybar^T dX.
Proof. exact: pb_transpose. Qed.
Theorem C03_pb_det_adjoint (R : comRingType) n (ybar : R) (A Ai V : 'M[R]_n) : A *m Ai = 1%:M -> Ai *m A = 1%:M ->
  ybar * \tr (\adj A *m V) = ip ((ybar * \det A) *: Ai^T) V.
Proof. exact: pb_det. Qed.
Theorem C03_pb_logdet_adjoint (R : comRingType) n (ybar : R) (Ai V : 'M[R]_n) : ybar * \tr (Ai *m V) = ip (ybar *: Ai^T) V.
Proof. exact: pb_logdet. Qed.
(* the executable rules (list matrices over series, MatPullbackExec.v -- what the correspondence check runs) are the Cauchy products
   of the abstract rules *)
From AlgoV Require Import Matrix MatrixSpec MatPullbackExec.
Theorem C03_pb_dotU_x_refines (K : fieldType) n m k (zbar y : seq (mx K)) d : (d < size zbar)%N ->
  mx_of n m (nth [::] (pb_dotU_x n m k zbar y) d) =
  \sum_(c < d.+1) mx_of n k (nth [::] zbar c) *m (mx_of m k (nth [::] y (d - c)))^T.
Proof. exact: pb_dotU_x_refines. Qed.
Theorem C03_pb_dotU_y_refines (K : fieldType) n m k (x zbar : seq (mx K)) d : (d < size x)%N ->
  mx_of m k (nth [::] (pb_dotU_y n m k x zbar) d) =
  \sum_(c < d.+1) (mx_of n m (nth [::] x c))^T *m mx_of n k (nth [::] zbar (d - c)).
Proof. exact: pb_dotU_y_refines. Qed.
Theorem C03_pb_invU_refines (K : fieldType) n (ybar y : seq (mx K)) d : (d < size y)%N -> (d < size ybar)%N ->
  mx_of n n (nth [::] (pb_invU n ybar y) d) =
  - \sum_(c < d.+1) (mx_of n n (nth [::] y c))^T *m
       \sum_(e < (d - c).+1) mx_of n n (nth [::] ybar e) *m (mx_of n n (nth [::] y (d - c - e)))^T.
Proof. exact: pb_invU_refines. Qed.
Print Assumptions C03_dot_differential.
Print Assumptions C03_inv_differential.
Print Assumptions C03_solve_differential.
Print Assumptions C03_det_differential.
Print Assumptions C03_pb_dot_adjoint.
Print Assumptions C03_pb_outer_adjoint.
Print Assumptions C03_pb_inv_adjoint.
Print Assumptions C03_pb_solve_adjoint.
Print Assumptions C03_pb_trace_adjoint.
Print Assumptions C03_pb_transpose_adjoint.
Print Assumptions C03_pb_det_adjoint.
Print Assumptions C03_pb_logdet_adjoint.
Print Assumptions C03_pb_dotU_x_refines.
Print Assumptions C03_pb_dotU_y_refines.
Print Assumptions C03_pb_invU_refines.

(* ---- reverse rules of the FACTORIZATIONS (MatPullbackFact.v): a factorization's differential is defined by linearised constraints, so
   each theorem quantifies over ALL tangent tuples satisfying them; the rule as coded (pb_lu, _pb_cholesky, _qr_rectangular_pullback,
   square full rank) is the adjoint.  Inverses are given as matrices with their defining equations. *)
From AlgoV Require Import MatrixFact MatPullbackFact.
Theorem C03_pb_lu_adjoint (K : fieldType) (n : nat) (W L U Li Ui Lbar Ubar dL dU : 'M[K]_n) :
  W^T *m W = 1%:M -> L *m Li = 1%:M -> Li *m L = 1%:M -> U *m Ui = 1%:M -> Ui *m U = 1%:M ->
  is_lower Li -> is_upper Ui -> is_strict_lower dL -> is_upper dU ->
  let v1 := tril1M (L^T *m Lbar) + triuM (Ubar *m U^T) in
  let v3 := Li^T *m v1 *m Ui^T in
  let Abar := W *m v3 in
  let dA := W *m (dL *m U + L *m dU) in
  ip Lbar dL + ip Ubar dU = ip Abar dA.
Proof. exact: pb_lu_adjoint. Qed.
Theorem C03_pb_cholesky_adjoint (K : fieldType) (n : nat) : (2%:R : K) != 0 ->
  forall L Li Lbar dL : 'M[K]_n,
  L *m Li = 1%:M -> Li *m L = 1%:M -> is_lower Li -> is_lower dL ->
  let Phi := lowhalfM (L^T *m Lbar) in
  let Sym := 2%:R^-1 *: (Phi^T + Phi) in
  let Abar := Li^T *m Sym *m Li in
  let dA := dL *m L^T + L *m dL^T in
  ip Lbar dL = ip Abar dA.
Proof. exact: pb_cholesky_adjoint. Qed.
Theorem C03_pb_qr_adjoint (K : fieldType) (n : nat) : (2%:R : K) != 0 ->
  forall Q R Ri Qbar Rbar dQ dR : 'M[K]_n,
  Q^T *m Q = 1%:M -> Q *m Q^T = 1%:M -> R *m Ri = 1%:M -> is_upper Ri ->
  (Q^T *m dQ)^T = - (Q^T *m dQ) -> is_upper dR ->
  let V := Qbar^T *m Q - R *m Rbar^T in
  let Abar := Q *m (Rbar + tril1M (V^T - V) *m Ri^T) in
  let dA := dQ *m R + Q *m dR in
  ip Qbar dQ + ip Rbar dR = ip Abar dA.
Proof. exact: pb_qr_adjoint. Qed.
Print Assumptions C03_pb_lu_adjoint.
Print Assumptions C03_pb_cholesky_adjoint.
Print Assumptions C03_pb_qr_adjoint.

(* ---- reverse rule of the symmetric eigenvalue decomposition with distinct eigenvalues (MatPullbackEigh.v; _eigh_pullback: H[m,n] =
   1/(lam_n - lam_m), Abar = Q (diag(lambar) + H .* (Q^T Qbar)) Q^T): the adjoint for ALL tangents (dA, dQ, dLam) satisfying the
   linearised eigen-equation, Q^T dQ antisymmetric, dLam diagonal; and those constraints determine dQ and dLam from dA. *)
From AlgoV Require Import Eigh MatPullbackEigh.
Theorem C03_pb_eigh_adjoint (K : fieldType) (n : nat) : (2%:R : K) != 0 ->
  forall A Q Lam H : 'M[K]_n,
  Q^T *m Q = 1%:M -> Q *m Q^T = 1%:M -> is_diagM Lam -> A *m Q = Q *m Lam ->
  (forall i j, i != j -> H i j * (Lam j j - Lam i i) = 1) -> (forall i, H i i = 0) ->
  forall dA dQ dLam : 'M[K]_n,
  (Q^T *m dQ)^T = - (Q^T *m dQ) -> is_diagM dLam ->
  dA *m Q + A *m dQ = dQ *m Lam + Q *m dLam ->
  forall Lambar Qbar : 'M[K]_n, is_diagM Lambar ->
  ip Lambar dLam + ip Qbar dQ = ip (Q *m (Lambar + hadM H (Q^T *m Qbar)) *m Q^T) dA.
Proof. exact: pb_eigh_adjoint. Qed.
Print Assumptions C03_pb_eigh_adjoint.

(* ---- the executable lu rule run by the correspondence check (MatPullbackExec2.v) computes, coefficient by coefficient, the abstract
   rule read over truncated matrix series: v1 = tril1(L^T Lbar) + triu(Ubar U^T), L^T v2 = v1, U v3^T = v2^T as Cauchy sums, result
   W v3 - and these equations determine it (MatPullbackExec2Spec.v, which has the analogous statements for cholesky and qr) *)
From AlgoV Require Import MatPullbackExec2 MatPullbackExec2Spec.
Theorem C03_pb_luU_unique (K : fieldType) n (Wm : mx K) (L U : seq (mx K)) (LinvT0 Uinv0 : mx K) (Lbar Ubar : seq (mx K)) D (w1 w2 w3 : nat -> 'M[K]_n) :
  size L = D -> size U = D -> size Ubar = D ->
  (mx_of n n (nth [::] L 0))^T *m mx_of n n LinvT0 = 1%:M ->
  mx_of n n (nth [::] U 0) *m mx_of n n Uinv0 = 1%:M ->
  (forall d, (d < D)%N -> w1 d = tril1M (\sum_(c < d.+1) (mx_of n n (nth [::] L c))^T *m mx_of n n (nth [::] Lbar (d - c))) +
                                 triuM (\sum_(c < d.+1) mx_of n n (nth [::] Ubar c) *m (mx_of n n (nth [::] U (d - c)))^T)) ->
  (forall d, (d < D)%N -> \sum_(c < d.+1) (mx_of n n (nth [::] L c))^T *m w2 (d - c)%N = w1 d) ->
  (forall d, (d < D)%N -> \sum_(c < d.+1) mx_of n n (nth [::] U c) *m (w3 (d - c)%N)^T = (w2 d)^T) ->
  forall d, (d < D)%N -> mx_of n n (nth [::] (pb_luU n Wm L U LinvT0 Uinv0 Lbar Ubar) d) = mx_of n n Wm *m w3 d.
Proof. exact: pb_luU_unique. Qed.
Print Assumptions C03_pb_luU_unique.

(* ---- reverse rule of the REDUCED QR of a tall matrix (m x n; _qr_rectangular_pullback with its STEP 6 for the part of Qbar outside the range
   of Q): the adjoint for all tangents with Q^T dQ antisymmetric and dR upper triangular (MatPullbackQRTall.v) *)
From AlgoV Require Import MatPullbackQRTall.
Theorem C03_pb_qr_tall_adjoint (K : fieldType) (m n : nat) : (2%:R : K) != 0 ->
  forall (Q Qbar dQ : 'M[K]_(m, n)) (R Ri Rbar dR : 'M[K]_n),
  Q^T *m Q = 1%:M -> R *m Ri = 1%:M -> is_upper Ri ->
  (Q^T *m dQ)^T = - (Q^T *m dQ) -> is_upper dR ->
  let V := Qbar^T *m Q - R *m Rbar^T in
  let Abar := Q *m (Rbar + tril1M (V^T - V) *m Ri^T) + (Qbar - Q *m (Q^T *m Qbar)) *m Ri^T in
  let dA := dQ *m R + Q *m dR in
  ip Qbar dQ + ip Rbar dR = ip Abar dA.
Proof. exact: pb_qr_tall_adjoint. Qed.
Print Assumptions C03_pb_qr_tall_adjoint.

(* ---- reductions and replications (Reduce.v, ReduceSpec.v): on every coefficient slice the forward map is a GATHER (tile, diag, reshape,
   getitem, transpose, broadcasting) or a SCATTER-ADD (sum over an axis, sum of everything); the two are transposed maps, so the reverse
   rules as coded (pb_sum: broadcast ybar back; pb_tile: add every tile of Bbar; pb_diag: add diag(ybar)) are the adjoints, and by
   bilinearity of the Cauchy pairing this holds at every Taylor order d. *)
From AlgoV Require Import Array Reduce ReduceSpec.
Theorem C03_gather_adjoint (R : comRingType) (idx : seq nat) (x ybar : seq R) : all (fun o => (o < size x)%N) idx -> size ybar = size idx ->
  dotp (gatherV idx x) ybar = dotp x (scatter_add idx ybar (size x)).
Proof. exact: gather_adjoint. Qed.
Theorem C03_scatter_adjoint (R : comRingType) (idx : seq nat) (x ybar : seq R) n : all (fun o => (o < n)%N) idx -> size x = size idx -> size ybar = n ->
  dotp (scatter_add idx x n) ybar = dotp x (gatherV idx ybar).
Proof. exact: scatter_adjoint. Qed.
Theorem C03_gather_adjoint_series (R : comRingType) (idx : seq nat) (xs ybars : nat -> seq R) (n d : nat) :
  all (fun o => (o < n)%N) idx -> (forall c, size (xs c) = n) -> (forall c, size (ybars c) = size idx) ->
  \sum_(c < d.+1) dotp (gatherV idx (xs c)) (ybars (d - c)%N) = \sum_(c < d.+1) dotp (xs c) (scatter_add idx (ybars (d - c)%N) n).
Proof. exact: gather_adjoint_series. Qed.
Theorem C03_pb_sum_axis_adjoint (R : comRingType) (s : shape) (a : nat) (x ybar : seq R) : (a < size s)%N -> size x = nelem s -> size ybar = nelem (drop_nth a s) ->
  dotp (sum_axis_fwd s a x) ybar = dotp x (pb_sum_axis s a ybar).
Proof. exact: pb_sum_axis_adjoint. Qed.
Theorem C03_pb_sum_all_adjoint (R : comRingType) (s : shape) (x ybar : seq R) : size x = nelem s -> size ybar = 1%N ->
  dotp (sum_all_fwd s x) ybar = dotp x (pb_sum_all s ybar).
Proof. exact: pb_sum_all_adjoint. Qed.
Theorem C03_pb_tile_adjoint (R : comRingType) (s reps : shape) (x bbar : seq R) : size reps = size s -> size x = nelem s -> size bbar = nelem (tile_shape s reps) ->
  dotp (tile_fwd s reps x) bbar = dotp x (pb_tile s reps bbar).
Proof. exact: pb_tile_adjoint. Qed.
Theorem C03_pb_diag_adjoint (R : comRingType) (n : nat) (x ybar : seq R) : size x = (n * n)%N -> size ybar = n ->
  dotp (diag_fwd n x) ybar = dotp x (pb_diag n ybar).
Proof. exact: pb_diag_adjoint. Qed.
Print Assumptions C03_gather_adjoint.
Print Assumptions C03_scatter_adjoint.
Print Assumptions C03_gather_adjoint_series.
Print Assumptions C03_pb_sum_axis_adjoint.
Print Assumptions C03_pb_sum_all_adjoint.
Print Assumptions C03_pb_tile_adjoint.
Print Assumptions C03_pb_diag_adjoint.

(* ---- triangular masks are self-adjoint (they are their own reverse rule inside the factorization pullbacks), and the executable
   pb_trace (xbar += ybar I on flat row-major data) is the adjoint of the executable trace (Mask.v, MaskSpec.v) *)
From AlgoV Require Import Mask MaskSpec.
Theorem C03_tri_mask_self_adjoint (R : comRingType) upper kp kn n m (x y : seq R) : size x = (n * m)%N -> size y = (n * m)%N ->
  dotp (tri_mask upper kp kn n m x) y = dotp x (tri_mask upper kp kn n m y).
Proof. exact: tri_mask_self_adjoint. Qed.
Theorem C03_pb_trace_exec_adjoint (R : comRingType) n (x : seq R) (ybar : R) : size x = (n * n)%N ->
  trace_fwd n x * ybar = dotp x (pb_trace n ybar).
Proof. exact: pb_trace_adjoint. Qed.
Print Assumptions C03_tri_mask_self_adjoint.
Print Assumptions C03_pb_trace_exec_adjoint.

(* ---- view-like operations (GatherRules.v): basic indexing with any index expression, transposition by any axis permutation and reshape are
   gathers along index lists that Array.v computes and C13 proves in range and duplicate free; scattering the output adjoint back along the
   same list is the adjoint, and for a duplicate-free list it is the plain write xbar[sl] = ybar of UTPM.pb_getitem *)
From AlgoV Require Import ArraySpec2 GatherRules.
Theorem C03_pb_getitem_adjoint (R : comRingType) (ix : seq ixitem) (s : shape) g (x ybar : seq R) : getitem_gather ix s = Some g ->
  size x = nelem s -> size ybar = nelem g.1 ->
  dotp (gatherV g.2 x) ybar = dotp x (scatter_add g.2 ybar (nelem s)).
Proof. exact: pb_getitem_adjoint. Qed.
Theorem C03_pb_transpose_gather_adjoint (R : comRingType) (perm : seq nat) (s : shape) (x ybar : seq R) : perm_eq perm (iota 0 (size s)) ->
  size x = nelem s -> size ybar = nelem s ->
  let g := transpose_gather perm s in
  dotp (gatherV g.2 x) ybar = dotp x (scatter_add g.2 ybar (nelem s)).
Proof. exact: pb_transpose_gather_adjoint. Qed.
Theorem C03_pb_reshape_adjoint (R : comRingType) (ns s : shape) g (x ybar : seq R) : reshape_gather ns s = Some g ->
  size x = nelem s -> size ybar = nelem s ->
  dotp (gatherV g.2 x) ybar = dotp x (scatter_add g.2 ybar (nelem s)).
Proof. exact: pb_reshape_adjoint. Qed.
Theorem C03_scatter_add_uniq (V : zmodType) (idx : seq nat) (vals : seq V) n k : uniq idx -> size vals = size idx -> (k < size idx)%N ->
  nth 0 (scatter_add idx vals n) (nth 0%N idx k) = nth 0 vals k.
Proof. exact: scatter_add_uniq. Qed.
Print Assumptions C03_pb_getitem_adjoint.
Print Assumptions C03_pb_transpose_gather_adjoint.
Print Assumptions C03_pb_reshape_adjoint.
Print Assumptions C03_scatter_add_uniq.

(* ---- broadcasting (Bcast.v, BcastSpec.v): an operand of shape s used in an elementwise operation with broadcast result shape o is read
   through the index list bcast_idx s o, which is in range whenever s is compatible with o (and the broadcast shape computed by bshape is
   compatible with both operands); hence "sum the adjoint over the broadcast axes" - the scatter-add along the same list - is the adjoint *)
From AlgoV Require Import Bcast BcastSpec.
Theorem C03_bcast_idx_ok (s o : shape) : bcompat s o ->
  size (bcast_idx s o) = nelem o /\ all (fun k => (k < nelem s)%N) (bcast_idx s o).
Proof. exact: bcast_idx_ok. Qed.
Theorem C03_pb_broadcast_adjoint (R : comRingType) (s o : shape) (x zbar : seq R) : bcompat s o -> size x = nelem s -> size zbar = nelem o ->
  dotp (gatherV (bcast_idx s o) x) zbar = dotp x (scatter_add (bcast_idx s o) zbar (nelem s)).
Proof. exact: pb_broadcast_adjoint. Qed.
Theorem C03_bcast_idx_same (s : shape) : bcast_idx s s = iota 0 (nelem s).
Proof. exact: bcast_idx_same. Qed.
Theorem C03_bshape_compat (s1 s2 o : shape) : bshape s1 s2 = Some o -> bcompat s1 o /\ bcompat s2 o.
Proof. exact: bshape_compat. Qed.
Print Assumptions C03_bcast_idx_ok.
Print Assumptions C03_pb_broadcast_adjoint.
Print Assumptions C03_bcast_idx_same.
Print Assumptions C03_bshape_compat.
