(* C03 -- reverse mode agrees with forward mode at every Taylor order: property theorems only. *)
From mathcomp Require Import all_ssreflect all_algebra.
From AlgoV Require Import Tracer TracerInst TracerSpecB.
Set Implicit Arguments. Unset Strict Implicit. Unset Printing Implicit Defensive.
Import GRing.Theory.
Local Open Scope ring_scope.

(* For EVERY commutative ring S of values -- in particular S = K[t]/(t^D), which makes this the identity at every Taylor order --
   every well-formed tape (arithmetic, unary functions with arbitrary derivative tables, powers, buffers, views, in-place
   writes incl. y[k] = view of y[k]), every input, every direction dxs and every seed, the reverse sweep of the model
   (adjoint heap mirroring the value heap, restore step after the pullback of an in-place write) is the transpose of the forward
   tangent sweep:  sum_i xbar_i dx_i = sum_j ybar_j (F'(x) dx)_j . *)
Theorem C03_reverse_adjoint (S : comRingType) (recip : S -> S) (unval : nat -> S -> S) (unpart : nat -> S -> S -> S)
  (t : tape S) (outs : seq nat) (xs dxs ybars : seq S) :
  wf_tape (size xs) t -> size dxs = size xs -> size ybars = size outs -> uniq outs ->
  all (fun a => (a < size t)%N && is_scal t a) outs ->
  \sum_(i < size xs) (R_gradient_like recip unval unpart t outs xs ybars)`_i * dxs`_i
  = \sum_(j < size outs) ybars`_j * (R_tangent_out recip unval unpart t outs xs dxs)`_j.
Proof. exact: reverse_adjoint. Qed.
Print Assumptions C03_reverse_adjoint.

(* the setitem pullback as it stood before the repair (accumulate first, clear afterwards) violates the identity when the
   assigned value is a view of the cell being written: kernel-checked witness (6-node tape over the integers) *)
Theorem C03_unrepaired_selfset_refuted :
  exists (t : tape int_comRing) (outs : seq nat) (xs dxs ybars : seq int)
         (recip : int -> int) (unval : nat -> int -> int) (unpart : nat -> int -> int -> int),
  [/\ wf_tape (size xs) t, size dxs = size xs, size ybars = size outs, uniq outs &
      all (fun a => (a < size t)%N && is_scal t a) outs] /\
  \sum_(i < size xs)
     (xbar_of (R_pullback_unrepaired recip unpart t (R_replay recip unval t xs) outs ybars))`_i * dxs`_i
  <> \sum_(j < size outs) ybars`_j * (R_tangent_out recip unval unpart t outs xs dxs)`_j.
Proof. exact: unrepaired_selfset_refuted. Qed.
Print Assumptions C03_unrepaired_selfset_refuted.

(* ---- the same identity for the EXECUTABLE instance (TracerExec.v: coefficient lists of length D over a field, the series kernels of
   Series.v -- what the correspondence check runs by vm_compute), at every Taylor order d < D: the executable instance refines the
   ring instance at {poly K} modulo X^D (TracerRefine.v), so the identity above transfers to it. *)
From AlgoV Require Import Series TracerExec TracerRefine.
Theorem C03_exec_adjoint (K : fieldType) (D : nat) (t : tape (seq K)) (outs : seq nat) (xs dxs ybars : seq (seq K)) :
  all (@node_ok K D) t -> sized D xs -> sized D dxs -> sized D ybars ->
  wf_tape (size xs) t -> size dxs = size xs -> size ybars = size outs -> uniq outs ->
  all (fun a => (a < size t)%N && is_scal t a) outs ->
  forall d, (d < D)%N ->
  (\sum_(i < size xs) Poly (nth [::] (X_grad D t outs xs ybars) i) * Poly (nth [::] dxs i))`_d
  = (\sum_(j < size outs) Poly (nth [::] ybars j) * Poly (nth [::] (X_tangent_out D t outs xs dxs) j))`_d.
Proof. exact: X_adjoint. Qed.
Print Assumptions C03_exec_adjoint.
Theorem C03_exec_grad_refines (K : fieldType) (D : nat) (t : tape (seq K)) outs xs ybars : all (@node_ok K D) t -> sized D xs -> sized D ybars ->
  sers_rel D (X_grad D t outs xs ybars)
             (R_gradient_like (recipP D) (unvalP D) (unpartP D) (map (@nodeP K) t) outs (map Poly xs) (map Poly ybars)).
Proof. exact: X_grad_refines. Qed.
Print Assumptions C03_exec_grad_refines.
