(* C03 -- reverse mode agrees with forward mode at every Taylor order: property theorems only. *)
From mathcomp Require Import all_ssreflect all_algebra.
From AlgoV Require Import Tracer TracerInst TracerSpecB.
Set Implicit Arguments. Unset Strict Implicit. Unset Printing Implicit Defensive.
Import GRing.Theory.
Local Open Scope ring_scope.

(* For EVERY commutative ring S of values -- in particular S = K[t]/(t^D), which makes this the identity at every Taylor order --
   every well-formed tape (arithmetic, unary functions with arbitrary derivative tables, powers, buffers, views, in-place
   writes incl. y[k] = view of y[k]), every input, every direction dxs and every seed, the reverse sweep of the model
   (adjoint heap mirroring the value heap, restore step after the pullback of an in-place write) is the transpose of the forward
   tangent sweep:  sum_i xbar_i dx_i = sum_j ybar_j (F'(x) dx)_j . *)
Theorem C03_reverse_adjoint (S : comRingType) (recip : S -> S) (unval : nat -> S -> S) (unpart : nat -> S -> S -> S)
  (t : tape S) (outs : seq nat) (xs dxs ybars : seq S) :
  wf_tape (size xs) t -> size dxs = size xs -> size ybars = size outs -> uniq outs ->
  all (fun a => (a < size t)%N && is_scal t a) outs ->
  \sum_(i < size xs) (R_gradient_like recip unval unpart t outs xs ybars)`_i * dxs`_i
  = \sum_(j < size outs) ybars`_j * (R_tangent_out recip unval unpart t outs xs dxs)`_j.
Proof. exact: reverse_adjoint. Qed.
Print Assumptions C03_reverse_adjoint.

(* the setitem pullback as it stood before the repair (accumulate first, clear afterwards) violates the identity when the
   assigned value is a view of the cell being written: kernel-checked witness (6-node tape over the integers) *)
Theorem C03_unrepaired_selfset_refuted :
  exists (t : tape int_comRing) (outs : seq nat) (xs dxs ybars : seq int)
         (recip : int -> int) (unval : nat -> int -> int) (unpart : nat -> int -> int -> int),
  [/\ wf_tape (size xs) t, size dxs = size xs, size ybars = size outs, uniq outs &
      all (fun a => (a < size t)%N && is_scal t a) outs] /\
  \sum_(i < size xs)
     (xbar_of (R_pullback_unrepaired recip unpart t (R_replay recip unval t xs) outs ybars))`_i * dxs`_i
  <> \sum_(j < size outs) ybars`_j * (R_tangent_out recip unval unpart t outs xs dxs)`_j.
Proof. exact: unrepaired_selfset_refuted. Qed.
Print Assumptions C03_unrepaired_selfset_refuted.
