(* C11 -- directions are propagated independently: property theorems only. *)
From mathcomp Require Import all_ssreflect all_algebra.
From AlgoV Require Import Sums Series Array ArraySpec.
Set Implicit Arguments. Unset Strict Implicit. Unset Printing Implicit Defensive.

(* In the model a Taylor polynomial with P directions is a list of P independent direction blocks; every
   element-wise function, every broadcasting binary operation and every shape manipulation acts on each block
   separately: restricting the operands to direction p and operating gives direction p of the full result --
   for every operation kernel `op`, every P, also when the directions have different base points. *)
Theorem C11_unary (K : fieldType) (op : seq K -> seq K) (x : utpm K) p : p < ndirs x ->
  dirU (unopU op x) p = unopU op (dirU x p).
Proof. exact: unopU_dir. Qed.
Print Assumptions C11_unary.

Theorem C11_binary (K : fieldType) (op : seq K -> seq K -> seq K) (x y : utpm K) p : p < ndirs x ->
  omap (fun z => dirU z p) (binopU op x y) = binopU op (dirU x p) (dirU y p).
Proof. exact: binopU_dir. Qed.
Print Assumptions C11_binary.

Theorem C11_shape_ops (K : fieldType) (g : gather) (x : utpm K) p : p < ndirs x ->
  dirU (gatherU g x) p = gatherU g (dirU x p).
Proof. exact: gatherU_dir. Qed.
Print Assumptions C11_shape_ops.

Theorem C11_no_flow (K : fieldType) (op : seq K -> seq K -> seq K) (x y x' y' : utpm K) p :
  p < ndirs x -> p < ndirs x' -> dirU x p = dirU x' p -> dirU y p = dirU y' p ->
  omap (fun z => dirU z p) (binopU op x y) = omap (fun z => dirU z p) (binopU op x' y').
Proof. exact: binopU_dir_indep. Qed.
Print Assumptions C11_no_flow.

(* ---- whole programs (TracerDirs.v): the executable tracer instance lifted to P directions -- a value is a list of P direction
   blocks, each with its OWN base point, every kernel applied block by block -- computes in block p exactly what the one-direction
   instance computes from block p of the inputs, constants and seeds: forward evaluation, replay of a recorded tape, tangent sweep
   and the ADJOINTS of the reverse sweep; hence nothing flows from one direction into another. *)
From AlgoV Require Import Tracer TracerExec TracerRefine TracerDirs.
Theorem C11_program_eval_dir (K : fieldType) (D P p : nat) (prog : seq (instr (DS K))) ret (xs : seq (DS K)) : p < P ->
  all (instr_okP P) prog -> sizedP P xs ->
  map (dir p) (XP_eval_out D P prog ret xs) = X_eval_out D (map (instrD p) prog) ret (map (dir p) xs).
Proof. move=> *; exact: XP_eval_dir. Qed.
Theorem C11_program_replay_dir (K : fieldType) (D P p : nat) (t : tape (DS K)) outs (xs : seq (DS K)) : p < P ->
  all (node_okP P) t -> sizedP P xs ->
  map (dir p) (XP_replay_out D P t outs xs) = X_replay_out D (map (nodeD p) t) outs (map (dir p) xs).
Proof. move=> *; exact: XP_replay_dir. Qed.
Theorem C11_program_tangent_dir (K : fieldType) (D P p : nat) (t : tape (DS K)) outs (xs dxs : seq (DS K)) : p < P ->
  all (node_okP P) t -> sizedP P xs -> sizedP P dxs ->
  map (dir p) (XP_tangent_out D P t outs xs dxs) = X_tangent_out D (map (nodeD p) t) outs (map (dir p) xs) (map (dir p) dxs).
Proof. move=> *; exact: XP_tangent_dir. Qed.
Theorem C11_program_adjoint_dir (K : fieldType) (D P p : nat) (t : tape (DS K)) outs (xs ybars : seq (DS K)) : p < P ->
  all (node_okP P) t -> sizedP P xs -> sizedP P ybars ->
  map (dir p) (XP_grad D P t outs xs ybars) = X_grad D (map (nodeD p) t) outs (map (dir p) xs) (map (dir p) ybars).
Proof. move=> *; exact: XP_grad_dir. Qed.
Theorem C11_program_record_commutes (K : fieldType) (p : nat) (prog : seq (instr (DS K))) :
  record (map (instrD p) prog) = ([seq nodeD p n | n <- (record prog).1], (record prog).2).
Proof. exact: record_D. Qed.
Theorem C11_program_eval_no_flow (K : fieldType) (D P p : nat) (prog : seq (instr (DS K))) ret (xs xs' : seq (DS K)) : p < P ->
  all (instr_okP P) prog -> sizedP P xs -> sizedP P xs' -> map (dir p) xs = map (dir p) xs' ->
  map (dir p) (XP_eval_out D P prog ret xs) = map (dir p) (XP_eval_out D P prog ret xs').
Proof. exact: XP_eval_no_flow. Qed.
Theorem C11_program_adjoint_no_flow (K : fieldType) (D P p : nat) (t : tape (DS K)) outs (xs xs' ybars ybars' : seq (DS K)) : p < P ->
  all (node_okP P) t -> sizedP P xs -> sizedP P xs' -> sizedP P ybars -> sizedP P ybars' ->
  map (dir p) xs = map (dir p) xs' -> map (dir p) ybars = map (dir p) ybars' ->
  map (dir p) (XP_grad D P t outs xs ybars) = map (dir p) (XP_grad D P t outs xs' ybars').
Proof. exact: XP_grad_no_flow. Qed.
Print Assumptions C11_program_eval_dir.
Print Assumptions C11_program_replay_dir.
Print Assumptions C11_program_tangent_dir.
Print Assumptions C11_program_adjoint_dir.
Print Assumptions C11_program_record_commutes.
Print Assumptions C11_program_eval_no_flow.
Print Assumptions C11_program_adjoint_no_flow.
