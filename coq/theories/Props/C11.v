(* C11 -- directions are propagated independently: property theorems only. *)
From mathcomp Require Import all_ssreflect all_algebra.
From AlgoV Require Import Sums Series Array ArraySpec.
Set Implicit Arguments. Unset Strict Implicit. Unset Printing Implicit Defensive.

(* In the model a Taylor polynomial with P directions is a list of P independent direction blocks; every
   element-wise function, every broadcasting binary operation and every shape manipulation acts on each block
   separately: restricting the operands to direction p and operating gives direction p of the full result --
   for every operation kernel `op`, every P, also when the directions have different base points. *)
Theorem C11_unary (K : fieldType) (op : seq K -> seq K) (x : utpm K) p : p < ndirs x ->
  dirU (unopU op x) p = unopU op (dirU x p).
Proof. exact: unopU_dir. Qed.
Print Assumptions C11_unary.

Theorem C11_binary (K : fieldType) (op : seq K -> seq K -> seq K) (x y : utpm K) p : p < ndirs x ->
  omap (fun z => dirU z p) (binopU op x y) = binopU op (dirU x p) (dirU y p).
Proof. exact: binopU_dir. Qed.
Print Assumptions C11_binary.

Theorem C11_shape_ops (K : fieldType) (g : gather) (x : utpm K) p : p < ndirs x ->
  dirU (gatherU g x) p = gatherU g (dirU x p).
Proof. exact: gatherU_dir. Qed.
Print Assumptions C11_shape_ops.

Theorem C11_no_flow (K : fieldType) (op : seq K -> seq K -> seq K) (x y x' y' : utpm K) p :
  p < ndirs x -> p < ndirs x' -> dirU x p = dirU x' p -> dirU y p = dirU y' p ->
  omap (fun z => dirU z p) (binopU op x y) = omap (fun z => dirU z p) (binopU op x' y').
Proof. exact: binopU_dir_indep. Qed.
Print Assumptions C11_no_flow.
