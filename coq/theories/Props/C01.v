(* C01 -- property theorems only: statements closed by `exact`, Print Assumptions beneath. *)
From mathcomp Require Import all_ssreflect all_algebra.
From AlgoV Require Import Sums Series SeriesBase SeriesSpec SeriesSpec_A SeriesSpec_B SeriesSpec_C SeriesSpec_D.
Set Implicit Arguments. Unset Strict Implicit. Unset Printing Implicit Defensive.
Import GRing.Theory.
Local Open Scope ring_scope.

(* Every recurrence of Series.v (the model of algorithms.py) returns, for every field of characteristic 0,
   every D and every input series, exactly the coefficients of the formal composition F o (x - x_0) for any
   polynomial F satisfying f's defining differential-algebraic relation up to order D (exp: F' = F; log:
   (x0+T) F' = 1; pow: (x0+T) F' = r F; sin/cos: S' = C, C' = -S; tan: F' = Z, Z' = 2 F F'; arcsin: F' G = 1,
   G' = -(x0+T) F'; arctan: (1+(x0+T)^2) F' = 1; ...), resp. satisfies the defining algebraic identity modulo t^D
   (reciprocal, square, sqrt, integer powers).  Helpers: _black_f_white_fprime (bfwfS), _eval_slow_generic
   (slowgenS = composition with the Taylor polynomial built from the given derivatives), the ODE helper behind
   dawsn (odeS).  Specification side: mathcomp poly.v (comp_poly, deriv, product). *)

Section C01.
Variable K : fieldType.
Hypothesis char0 : forall n, (n.+1)%:R != 0 :> K.
Implicit Types (F G S C Z : {poly K}) (xs ys : seq K).

Theorem C01_recipS_spec ys d : ys`_0 != 0 -> (d < size ys)%N ->
  (Poly (recipS ys) * Poly ys)`_d = (1 : {poly K})`_d.
Proof. exact: recipS_spec. Qed.

Theorem C01_squareS_spec xs d : (d < size xs)%N -> (squareS xs)`_d = (Poly xs * Poly xs)`_d.
Proof. exact: squareS_spec. Qed.

Theorem C01_sqrtS_spec xs (s0 : K) d : s0 * s0 = xs`_0 -> s0 != 0 -> (d < size xs)%N ->
  (Poly (sqrtS xs s0) * Poly (sqrtS xs s0))`_d = xs`_d.
Proof. exact: sqrtS_spec. Qed.

Theorem C01_pownatS_spec xs n d : (d < size xs)%N -> (pownatS xs n)`_d = (Poly xs ^+ n)`_d.
Proof. exact: pownatS_spec. Qed.

Theorem C01_logS_spec F xs : xs`_0 != 0 ->
  (forall d, (d.+1 < size xs)%N -> (((xs`_0)%:P + 'X) * F^`())`_d = (1 : {poly K})`_d) ->
  forall d, (d < size xs)%N -> (F \Po shift0 (Poly xs))`_d = (logS xs F`_0)`_d.
Proof. exact: logS_spec. Qed.

Theorem C01_powS_spec F xs (r : K) : xs`_0 != 0 ->
  (forall d, (d.+1 < size xs)%N -> (((xs`_0)%:P + 'X) * F^`())`_d = (r *: F)`_d) ->
  forall d, (d < size xs)%N -> (F \Po shift0 (Poly xs))`_d = (powS xs r F`_0)`_d.
Proof. exact: powS_spec. Qed.

Theorem C01_bfwfS_spec F G xs (fp : seq K) :
  (forall d, (d.+1 < size xs)%N -> F^`()`_d = G`_d) ->
  (forall d, (d.+1 < size xs)%N -> fp`_d = (G \Po shift0 (Poly xs))`_d) ->
  forall d, (d < size xs)%N -> (F \Po shift0 (Poly xs))`_d = (bfwfS F`_0 fp xs)`_d.
Proof. exact: bfwfS_spec. Qed.

Theorem C01_expm1S_spec F xs :
  (forall d, (d.+1 < size xs)%N -> F^`()`_d = (F + 1)`_d) ->
  forall d, (d < size xs)%N -> (F \Po shift0 (Poly xs))`_d = (expm1S xs (F`_0 + 1) F`_0)`_d.
Proof. exact: expm1S_spec. Qed.

Theorem C01_sincosS_spec S C xs :
  (forall d, (d.+1 < size xs)%N -> S^`()`_d = C`_d) ->
  (forall d, (d.+1 < size xs)%N -> C^`()`_d = - S`_d) ->
  forall d, (d < size xs)%N ->
  (S \Po shift0 (Poly xs))`_d = (sincosS xs S`_0 C`_0).1`_d /\
  (C \Po shift0 (Poly xs))`_d = (sincosS xs S`_0 C`_0).2`_d.
Proof. exact: sincosS_spec. Qed.

Theorem C01_sinhcoshS_spec S C xs :
  (forall d, (d.+1 < size xs)%N -> S^`()`_d = C`_d) ->
  (forall d, (d.+1 < size xs)%N -> C^`()`_d = S`_d) ->
  forall d, (d < size xs)%N ->
  (S \Po shift0 (Poly xs))`_d = (sinhcoshS xs S`_0 C`_0).1`_d /\
  (C \Po shift0 (Poly xs))`_d = (sinhcoshS xs S`_0 C`_0).2`_d.
Proof. exact: sinhcoshS_spec. Qed.

Theorem C01_tansec2S_spec F Z xs :
  (forall d, (d.+1 < size xs)%N -> F^`()`_d = Z`_d) ->
  (forall d, (d.+1 < size xs)%N -> Z^`()`_d = (2%:R *: (F * F^`()))`_d) ->
  forall d, (d < size xs)%N ->
  (F \Po shift0 (Poly xs))`_d = (tansec2S xs F`_0 Z`_0).1`_d /\
  (Z \Po shift0 (Poly xs))`_d = (tansec2S xs F`_0 Z`_0).2`_d.
Proof. exact: tansec2S_spec. Qed.

Theorem C01_tanhsech2S_spec F Z xs : Z`_0 = 1 - F`_0 * F`_0 ->
  (forall d, (d.+1 < size xs)%N -> F^`()`_d = Z`_d) ->
  (forall d, (d.+1 < size xs)%N -> Z^`()`_d = (- 2%:R *: (F * F^`()))`_d) ->
  forall d, (d < size xs)%N ->
  (F \Po shift0 (Poly xs))`_d = (tanhsech2S xs F`_0).1`_d /\
  (Z \Po shift0 (Poly xs))`_d = (tanhsech2S xs F`_0).2`_d.
Proof. exact: tanhsech2S_spec. Qed.

Theorem C01_arcsinS_spec F G xs : G`_0 != 0 ->
  (forall d, (d.+1 < size xs)%N -> (F^`() * G)`_d = (1 : {poly K})`_d) ->
  (forall d, (d.+1 < size xs)%N -> G^`()`_d = (- (((xs`_0)%:P + 'X) * F^`()))`_d) ->
  forall d, (d < size xs)%N ->
  (F \Po shift0 (Poly xs))`_d = (arcsinS xs F`_0 G`_0).1`_d /\
  (G \Po shift0 (Poly xs))`_d = (arcsinS xs F`_0 G`_0).2`_d.
Proof. exact: arcsinS_spec. Qed.

Theorem C01_arctanS_spec F xs : 1 + xs`_0 * xs`_0 != 0 ->
  (forall d, (d.+1 < size xs)%N -> ((1 + ((xs`_0)%:P + 'X) ^+ 2) * F^`())`_d = (1 : {poly K})`_d) ->
  forall d, (d < size xs)%N ->
  (F \Po shift0 (Poly xs))`_d = (arctanS xs F`_0).1`_d /\
  (1 + Poly xs ^+ 2)`_d = (arctanS xs F`_0).2`_d.
Proof. exact: arctanS_spec. Qed.

Theorem C01_slowgenS_spec F xs (derivs : seq K) :
  (forall k, (k < size xs)%N -> F`_k = derivs`_k / (k`!)%:R) ->
  forall d, (d < size xs)%N -> (F \Po shift0 (Poly xs))`_d = (slowgenS xs derivs)`_d.
Proof. exact: slowgenS_spec. Qed.

Theorem C01_odeS_spec (a b c u : seq K) (v0 : K) : b`_0 != 0 -> size a = size u -> size b = size u -> size c = size u ->
  let v := odeS a b c u v0 in
  v`_0 = v0 /\ size v = size u /\
  forall d, (d.+1 < size u)%N ->
  (Poly b * (Poly v)^`() - Poly a * Poly v * (Poly u)^`())`_d = (Poly c * (Poly u)^`())`_d.
Proof. exact: odeS_spec. Qed.


End C01.

Print Assumptions C01_recipS_spec.
Print Assumptions C01_squareS_spec.
Print Assumptions C01_sqrtS_spec.
Print Assumptions C01_pownatS_spec.
Print Assumptions C01_logS_spec.
Print Assumptions C01_powS_spec.
Print Assumptions C01_bfwfS_spec.
Print Assumptions C01_expm1S_spec.
Print Assumptions C01_sincosS_spec.
Print Assumptions C01_sinhcoshS_spec.
Print Assumptions C01_tansec2S_spec.
Print Assumptions C01_tanhsech2S_spec.
Print Assumptions C01_arcsinS_spec.
Print Assumptions C01_arctanS_spec.
Print Assumptions C01_slowgenS_spec.
Print Assumptions C01_odeS_spec.
