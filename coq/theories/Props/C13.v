(* C13 -- shape-manipulating operations act slice-wise, with view semantics: property theorems only. *)
From Coq Require Import ZArith Lia.
From mathcomp Require Import all_ssreflect all_algebra.
From mathcomp Require Import zify.
From AlgoV Require Import Sums Series Array ArraySpec ArraySpec2.
Set Implicit Arguments. Unset Strict Implicit. Unset Printing Implicit Defensive.
Import GRing.Theory.
Delimit Scope Z_scope with ZZ.

(* ---------- python slices ---------- *)
Theorem C13_slice_list_in_range (a b : option Z) (st : Z) (n : nat) : st <> 0%ZZ ->
  all (fun k => k < n) (slice_list a b st n).
Proof. exact: slice_list_in_range. Qed.
Theorem C13_slice_list_full n : slice_list None None 1%ZZ n = iota 0 n.
Proof. exact: slice_list_full. Qed.
Theorem C13_slice_list_uniq (a b : option Z) (st : Z) (n : nat) : st <> 0%ZZ -> uniq (slice_list a b st n).
Proof. exact: slice_list_uniq. Qed.

(* ---------- gathers / scatters on flat data ---------- *)
Section Flat.
Variable T : Type.
Variable x0 : T.
Theorem C13_scatter_nth (g : gather) (vals data : seq T) o :
  uniq g.2 -> all (fun k => k < size data) g.2 -> size vals = size g.2 ->
  nth x0 (scatter x0 g vals data) o = if o \in g.2 then nth x0 vals (index o g.2) else nth x0 data o.
Proof. exact: scatter_nth. Qed.
Theorem C13_size_scatter (g : gather) (vals data : seq T) :
  all (fun k => k < size data) g.2 -> size (scatter x0 g vals data) = size data.
Proof. exact: size_scatter. Qed.
(* reading back through the same view returns what was written *)
Theorem C13_gather_scatter (g : gather) (vals data : seq T) :
  uniq g.2 -> all (fun k => k < size data) g.2 -> size vals = size g.2 ->
  apply_gather x0 g (scatter x0 g vals data) = vals.
Proof. exact: gather_scatter. Qed.
(* reshape never moves data *)
Theorem C13_reshape_gather_id (ns s : shape) (data : seq T) g : size data = nelem s ->
  reshape_gather ns s = Some g -> apply_gather x0 g data = data /\ g.1 = ns.
Proof. exact: reshape_gather_id. Qed.
End Flat.

(* ---------- basic indexing returns in-range, duplicate-free offsets (a view selects distinct parent cells) ---------- *)
Theorem C13_getitem_gather_ok (ix : seq ixitem) (s : shape) g : getitem_gather ix s = Some g ->
  uniq g.2 /\ all (fun o => o < nelem s) g.2 /\ size g.2 = nelem g.1.
Proof. exact: getitem_gather_ok. Qed.

(* ---------- UTPM level ---------- *)
Section U.
Variable K : fieldType.
Implicit Types (x : utpm K).
(* slice-wise: coefficient slice (d,p) of the gathered polynomial is the gather of coefficient slice (d,p) *)
Theorem C13_gatherU_slicewise (g : gather) x d p : p < ndirs x ->
  all (fun o => o < size (nth [::] x.2 p)) g.2 ->
  slice_dp (gatherU g x) d p = apply_gather 0%R g (slice_dp x d p).
Proof. exact: gatherU_slicewise. Qed.
(* x[ix] = c : selected cells become the constant polynomial, all other cells keep their series *)
Theorem C13_setitem_const_spec (g : gather) (D : nat) (cs : seq K) x p o : p < ndirs x ->
  uniq g.2 -> all (fun k => k < size (nth [::] x.2 p)) g.2 -> size cs = size g.2 ->
  ser (setitem_constU g D cs x) p o =
  if o \in g.2 then constS (nth 0%R cs (index o g.2)) D else ser x p o.
Proof. exact: setitem_const_spec. Qed.
(* write-through: after assigning rhs through the view g, reading the view back gives rhs, direction by direction *)
Theorem C13_setitem_getitem (g : gather) (rhs : seq (seq (seq K))) x p : p < ndirs x ->
  uniq g.2 -> all (fun k => k < size (nth [::] x.2 p)) g.2 -> size (nth [::] rhs p) = size g.2 ->
  nth [::] (gatherU g (setitemU g rhs x)).2 p = nth [::] rhs p.
Proof. exact: setitem_getitem. Qed.
End U.

(* transposing a matrix twice is the identity on the flat data *)
Theorem C13_transpose2_id (T : Type) (x0 : T) (m n : nat) (data : seq T) : size data = m * n ->
  apply_gather x0 (transpose_gather [:: 1; 0] [:: n; m]) (apply_gather x0 (transpose_gather [:: 1; 0] [:: m; n]) data) = data.
Proof. exact: transpose2_id. Qed.

Print Assumptions C13_slice_list_in_range.
Print Assumptions C13_slice_list_full.
Print Assumptions C13_slice_list_uniq.
Print Assumptions C13_scatter_nth.
Print Assumptions C13_size_scatter.
Print Assumptions C13_gather_scatter.
Print Assumptions C13_reshape_gather_id.
Print Assumptions C13_getitem_gather_ok.
Print Assumptions C13_gatherU_slicewise.
Print Assumptions C13_setitem_const_spec.
Print Assumptions C13_setitem_getitem.
Print Assumptions C13_transpose2_id.

(* ---- transposition for EVERY rank: x.T.T = x, and a transposition by any axis permutation is a bijection of the flat data *)
From AlgoV Require Import Conv ConvSpec TransposeSpec MiscSpec.
Theorem C13_transposeT_involutive (T : Type) (x0 : T) (s : shape) (data : seq T) : size data = nelem s ->
  let g := transpose_gather (rev_perm (size s)) s in
  apply_gather x0 (transpose_gather (rev_perm (size s)) g.1) (apply_gather x0 g data) = data
  /\ (transpose_gather (rev_perm (size s)) g.1).1 = s.
Proof. exact: transposeT_involutive. Qed.
Theorem C13_transpose_gather_perm (perm : seq nat) (s : shape) : perm_eq perm (iota 0 (size s)) ->
  perm_eq (transpose_gather perm s).2 (iota 0 (nelem s)).
Proof. exact: transpose_gather_perm. Qed.
Print Assumptions C13_transposeT_involutive.
Print Assumptions C13_transpose_gather_perm.

(* ---------- sum over an axis, sum of everything, tile, diag as index maps (Reduce.v, ReduceSpec.v) ---------- *)
From AlgoV Require Import Reduce ReduceSpec.
Local Open Scope ring_scope.
(* element j of a scatter-add is the sum over the fibre of j *)
Theorem C13_scatter_add_nth (V : zmodType) (idx : seq nat) (vals : seq V) n j : size vals = size idx ->
  nth 0 (scatter_add idx vals n) j = \sum_(k < size idx | nth 0%N idx k == j) nth 0 vals k.
Proof. exact: scatter_add_nth. Qed.
Theorem C13_sum_all_fwd_spec (R : comRingType) (s : shape) (x : seq R) : size x = nelem s -> sum_all_fwd s x = [:: \sum_(k < nelem s) x`_k].
Proof. exact: sum_all_fwd_spec. Qed.
(* sum over axis a: output element j is the sum of the inputs whose multi-index with axis a removed is j; the index list is in range *)
Theorem C13_sum_axis_fwd_spec (R : comRingType) (s : shape) (a : nat) (x : seq R) j : size x = nelem s ->
  (sum_axis_fwd s a x)`_j = \sum_(k < nelem s | nth 0%N (sum_axis_idx s a) k == j) x`_k.
Proof. exact: sum_axis_fwd_spec. Qed.
Theorem C13_sum_axis_idx_ok (s : shape) (a : nat) : (a < size s)%N ->
  size (sum_axis_idx s a) = nelem s /\ all (fun o => (o < nelem (drop_nth a s))%N) (sum_axis_idx s a).
Proof. exact: sum_axis_idx_ok. Qed.
Theorem C13_tile_idx_ok (s reps : shape) : size reps = size s ->
  size (tile_idx s reps) = nelem (tile_shape s reps) /\ all (fun o => (o < nelem s)%N) (tile_idx s reps).
Proof. exact: tile_idx_ok. Qed.
Theorem C13_diag_idx_ok (n : nat) : size (diag_idx n) = n /\ all (fun o => (o < n * n)%N) (diag_idx n).
Proof. exact: diag_idx_ok. Qed.
Print Assumptions C13_scatter_add_nth.
Print Assumptions C13_sum_all_fwd_spec.
Print Assumptions C13_sum_axis_fwd_spec.
Print Assumptions C13_sum_axis_idx_ok.
Print Assumptions C13_tile_idx_ok.
Print Assumptions C13_diag_idx_ok.

(* ---------- triu / tril (any n x m, any offset k = kp - kn) and trace (Mask.v, MaskSpec.v) ---------- *)
From AlgoV Require Import Mask MaskSpec.
Theorem C13_tri_mask_nth (V : zmodType) upper kp kn n m (x : seq V) i j : (i < n)%N -> (j < m)%N ->
  nth 0 (tri_mask upper kp kn n m x) (i * m + j) = if tri_keep upper kp kn i j then nth 0 x (i * m + j) else 0.
Proof. exact: tri_mask_nth. Qed.
Theorem C13_size_tri_mask (V : zmodType) upper kp kn n m (x : seq V) : size (tri_mask upper kp kn n m x) = (n * m)%N.
Proof. exact: size_tri_mask. Qed.
(* triu(k) and tril(k-1) partition the matrix *)
Theorem C13_triu_tril_partition (V : zmodType) kp kn kp' kn' n m (x : seq V) o : (kp' + kn + 1 = kp + kn')%N -> (o < n * m)%N ->
  nth 0 (tri_mask true kp kn n m x) o + nth 0 (tri_mask false kp' kn' n m x) o = nth 0 x o.
Proof. exact: triu_tril_partition. Qed.
Theorem C13_tri_mask_idem (V : zmodType) upper kp kn n m (x : seq V) :
  tri_mask upper kp kn n m (tri_mask upper kp kn n m x) = tri_mask upper kp kn n m x.
Proof. exact: tri_mask_idem. Qed.
(* an offset that keeps every entry returns the argument (the only case in which a shortcut "nothing to cut off" is right) *)
Theorem C13_tri_mask_all (V : zmodType) upper kp kn n m (x : seq V) : size x = (n * m)%N ->
  (forall i j, (i < n)%N -> (j < m)%N -> tri_keep upper kp kn i j) -> tri_mask upper kp kn n m x = x.
Proof. exact: tri_mask_all. Qed.
Theorem C13_trace_fwd_diag (R : comRingType) n (x : seq R) : trace_fwd n x = \sum_(k < n) (diag_fwd n x)`_k.
Proof. exact: trace_fwd_diag. Qed.
Print Assumptions C13_tri_mask_nth.
Print Assumptions C13_size_tri_mask.
Print Assumptions C13_triu_tril_partition.
Print Assumptions C13_tri_mask_idem.
Print Assumptions C13_tri_mask_all.
Print Assumptions C13_trace_fwd_diag.
