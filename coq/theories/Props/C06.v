(* C06 -- results are independent of call history: property theorems only (statements closed by `exact`, Print Assumptions beneath). *)
From mathcomp Require Import all_ssreflect all_algebra.
From AlgoV Require Import Tracer TracerInst TracerSpecC.
Set Implicit Arguments. Unset Strict Implicit. Unset Printing Implicit Defensive.
Import GRing.Theory.
Local Open Scope ring_scope.

Section History.
Variable S : comRingType.
Variable recip : S -> S.
Variables (unval : nat -> S -> S) (unpart : nat -> S -> S -> S).
Implicit Types (t : tape S) (xs ybars : seq S) (outs : seq nat).

(* the reverse sweep rolls every in-place write back: afterwards the value heap is the heap before the first node ran
   (the input row followed by all-zero buffers) *)
Theorem C06_pullback_rolls_back t outs xs ybars : wf_tape (size xs) t ->
  rheap (R_pullback recip unpart t (R_replay recip unval t xs) outs ybars)
  = xs :: [seq nseq (size row) 0 | row <- behead (fheap (R_replay recip unval t xs))].
Proof. exact: pullback_rolls_back. Qed.
(* the repaired sweep re-applies the recorded writes: the graph is back in the state the forward evaluation left *)
Theorem C06_pullback_fixed_restores t outs xs ybars : wf_tape (size xs) t ->
  rheap (R_pullback_fixed recip unpart t (R_replay recip unval t xs) outs ybars) = fheap (R_replay recip unval t xs).
Proof. exact: pullback_fixed_restores. Qed.
(* hence several sweeps after one forward evaluation each return what a sweep on a fresh evaluation returns *)
Theorem C06_second_sweep_same t outs outs' xs ybars ybars' : wf_tape (size xs) t ->
  let fs := R_replay recip unval t xs in
  let st1 := R_pullback_fixed recip unpart t fs outs ybars in
  R_pullback_fixed recip unpart t (FState (rheap st1) (fvals fs) (fstore fs)) outs' ybars'
  = R_pullback_fixed recip unpart t fs outs' ybars'.
Proof. exact: second_sweep_same. Qed.
End History.

Print Assumptions C06_pullback_rolls_back.
Print Assumptions C06_pullback_fixed_restores.
Print Assumptions C06_second_sweep_same.

(* ---- the same three facts for the EXECUTABLE instance (coefficient lists, series kernels; what vm_compute runs).  They are structural
   -- which heap cells are saved, restored and re-applied -- and hold for an arbitrary carrier and arbitrary operations
   (TracerHistGen.v), no algebraic law is used. *)
From AlgoV Require Import Series TracerExec TracerHistGen TracerExecHist.
Theorem C06_exec_pullback_rolls_back (K : fieldType) (D : nat) (t : tape (seq K)) outs (xs ybars : seq (seq K)) : wf_tape (size xs) t ->
  rheap (X_pullback D t (X_replay D t xs) outs ybars)
  = xs :: [seq nseq (size row) (x_zero K D) | row <- behead (fheap (X_replay D t xs))].
Proof. exact: X_pullback_rolls_back. Qed.
Theorem C06_exec_pullback_fixed_restores (K : fieldType) (D : nat) (t : tape (seq K)) outs (xs ybars : seq (seq K)) : wf_tape (size xs) t ->
  rheap (X_pullback_fixed D t (X_replay D t xs) outs ybars) = fheap (X_replay D t xs).
Proof. exact: X_pullback_fixed_restores. Qed.
Theorem C06_exec_second_sweep_same (K : fieldType) (D : nat) (t : tape (seq K)) outs outs' (xs ybars ybars' : seq (seq K)) : wf_tape (size xs) t ->
  let fs := X_replay D t xs in
  let st1 := X_pullback_fixed D t fs outs ybars in
  X_pullback_fixed D t (FState (rheap st1) (fvals fs) (fstore fs)) outs' ybars'
  = X_pullback_fixed D t fs outs' ybars'.
Proof. exact: X_second_sweep_same. Qed.
Print Assumptions C06_exec_pullback_rolls_back.
Print Assumptions C06_exec_pullback_fixed_restores.
Print Assumptions C06_exec_second_sweep_same.
