(* C04 -- graph derivative drivers return the derivatives at the requested point: property theorems only. *)
From mathcomp Require Import all_ssreflect all_algebra.
From AlgoV Require Import Tracer TracerInst TracerSpecA TracerSpecB TracerSpecD.
Set Implicit Arguments. Unset Strict Implicit. Unset Printing Implicit Defensive.
Import GRing.Theory.
Local Open Scope ring_scope.

(* gradient / Jacobian row: the vector returned for output o pairs with every direction dx to the forward tangent of o.
   Over S = K this is the gradient, over S = K[t]/(t^2) with the seeds of the drivers it gives Hessian rows and
   Hessian-vector products, over K[t]/(t^D) the Taylor expansion of every Jacobian entry along a curve. *)
Theorem C04_gradient_spec (S : comRingType) (recip : S -> S) (unval : nat -> S -> S) (unpart : nat -> S -> S -> S)
  (t : tape S) (o : nat) (xs dxs : seq S) :
  wf_tape (size xs) t -> size dxs = size xs -> (o < size t)%N && is_scal t o ->
  \sum_(i < size xs) (R_gradient_like recip unval unpart t [:: o] xs [:: 1])`_i * dxs`_i
  = (R_tangent_out recip unval unpart t [:: o] xs dxs)`_0.
Proof. exact: gradient_spec. Qed.
Print Assumptions C04_gradient_spec.

Theorem C04_vec_jac_spec (S : comRingType) (recip : S -> S) (unval : nat -> S -> S) (unpart : nat -> S -> S -> S)
  (t : tape S) (outs : seq nat) (xs dxs w : seq S) :
  wf_tape (size xs) t -> size dxs = size xs -> size w = size outs -> uniq outs ->
  all (fun a => (a < size t)%N && is_scal t a) outs ->
  \sum_(i < size xs) (R_gradient_like recip unval unpart t outs xs w)`_i * dxs`_i
  = \sum_(j < size outs) w`_j * (R_tangent_out recip unval unpart t outs xs dxs)`_j.
Proof. exact: vec_jac_spec. Qed.
Print Assumptions C04_vec_jac_spec.

(* the result depends on the evaluation point only: replay of the recorded tape IS direct evaluation of the program at the new
   point (every node, every saved cell, is recomputed) *)
Theorem C04_replay_is_eval (S : comRingType) (recip : S -> S) (unval : nat -> S -> S) N (prog : seq (instr S)) (ret : seq nat) (xs : seq S) :
  wf_prog N prog -> size xs = N -> all (fun r => (r < size (R_record prog).2)%N) ret ->
  R_replay_out recip unval (R_record prog).1 [seq nth 0%N (R_record prog).2 r | r <- ret] xs = R_eval_out recip unval prog ret xs.
Proof. exact: replay_is_eval. Qed.
Print Assumptions C04_replay_is_eval.

(* ... whereas sweeping with the cells saved at the RECORDING point (the unrepaired behaviour) gives a wrong gradient at any
   other point: y = zeros(2); y[0] = x0 x1; y[1] = y[0] x0; y[0] = y[1]^2; return y[0] + y[1], recorded at (3,5), evaluated
   at (2,7) *)
Theorem C04_stale_store_refuted :
  wf_prog 2 stale_prog /\
  grad_with_store [:: 2; 7] [:: 2; 7] = [:: 1596; 228] /\
  grad_with_store [:: 3; 5] [:: 2; 7] <> [:: 1596; 228].
Proof. exact: stale_store_refuted. Qed.
Print Assumptions C04_stale_store_refuted.

(* ---- the drivers for the EXECUTABLE instance (coefficient lists of length D; what vm_compute runs): seeding one output with the
   constant series 1 gives the gradient / Jacobian row, arbitrary seeds give the vector-Jacobian product, at every Taylor order d < D *)
From AlgoV Require Import Series TracerExec TracerRefine MiscSpec.
Theorem C04_exec_gradient_spec (K : fieldType) (D : nat) (t : tape (seq K)) o (xs dxs : seq (seq K)) :
  all (@node_ok K D) t -> sized D xs -> sized D dxs ->
  wf_tape (size xs) t -> size dxs = size xs -> (o < size t)%N && is_scal t o ->
  forall d, (d < D)%N ->
  (\sum_(i < size xs) Poly (nth [::] (X_grad D t [:: o] xs [:: constS 1 D]) i) * Poly (nth [::] dxs i))`_d
  = (nth [::] (X_tangent_out D t [:: o] xs dxs) 0)`_d.
Proof. exact: X_gradient_spec. Qed.
Theorem C04_exec_vec_jac_spec (K : fieldType) (D : nat) (t : tape (seq K)) outs (xs dxs w : seq (seq K)) :
  all (@node_ok K D) t -> sized D xs -> sized D dxs -> sized D w ->
  wf_tape (size xs) t -> size dxs = size xs -> size w = size outs -> uniq outs ->
  all (fun a => (a < size t)%N && is_scal t a) outs ->
  forall d, (d < D)%N ->
  (\sum_(i < size xs) Poly (nth [::] (X_grad D t outs xs w) i) * Poly (nth [::] dxs i))`_d
  = (\sum_(j < size outs) Poly (nth [::] w j) * Poly (nth [::] (X_tangent_out D t outs xs dxs) j))`_d.
Proof. exact: X_vec_jac_spec. Qed.
Print Assumptions C04_exec_gradient_spec.
Print Assumptions C04_exec_vec_jac_spec.
