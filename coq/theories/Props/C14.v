(* C14 -- aliased and in-place forms are safe: property theorems only. *)
From Coq Require Import ZArith QArith Qcanon.
From mathcomp Require Import all_ssreflect all_algebra.
From AlgoV Require Import QcField Sums Series InPlace InPlaceSpec.
Set Implicit Arguments. Unset Strict Implicit. Unset Printing Implicit Defensive.
Import GRing.Theory.
Local Open Scope ring_scope.

(* The product kernel writes coefficient d in DEscending order; with the output aliased to either operand or to both
   (z = x*y computed into x, x*x computed into x, ...) every read still sees an unmodified coefficient, so the
   result is the Cauchy product -- for every field, every D. *)
Theorem C14_mul_out_alias (K : fieldType) (al : alias) (x y out : seq K) :
  size x = size out -> size y = size out -> alias_ok al x y out -> mul_into al x y out = mulS x y.
Proof. exact: mul_into_spec. Qed.
Print Assumptions C14_mul_out_alias.

(* x *= y with an independent y is the Cauchy product computed in place *)
Theorem C14_imul (K : fieldType) (self rhs : seq K) : size rhs = size self -> imul false self rhs = mulS self rhs.
Proof. exact: imul_spec. Qed.
Print Assumptions C14_imul.

(* the repaired in-place product is correct whether or not the right operand shares memory with the left: x *= x *)
Theorem C14_imul_alias_safe (K : fieldType) (b : bool) (self rhs : seq K) :
  size rhs = size self -> (b -> rhs = self) -> imul_fixed b self rhs = mulS self rhs.
Proof. exact: imul_fixed_spec. Qed.
Print Assumptions C14_imul_alias_safe.

(* ... whereas the loop as it stood before the fix (reads of the aliased right operand see the partially updated
   left operand) is wrong: 2+3t+5t^2 squared in place gives [4;18;39] instead of [4;12;29] *)
Theorem C14_imul_unrepaired_refuted : exists x : seq Qc_fieldType, (imul true x x == mulS x x) = false.
Proof. exact: imul_alias_refuted. Qed.
Print Assumptions C14_imul_unrepaired_refuted.
