(* C14 -- aliased and in-place forms are safe: property theorems only. *)
From Coq Require Import ZArith QArith Qcanon.
From mathcomp Require Import all_ssreflect all_algebra.
From AlgoV Require Import QcField Sums Series InPlace InPlaceSpec.
Set Implicit Arguments. Unset Strict Implicit. Unset Printing Implicit Defensive.
Import GRing.Theory.
Local Open Scope ring_scope.

(* The product kernel writes coefficient d in DEscending order; with the output aliased to either operand or to both
   (z = x*y computed into x, x*x computed into x, ...) every read still sees an unmodified coefficient, so the
   result is the Cauchy product -- for every field, every D. *)
Theorem C14_mul_out_alias (K : fieldType) (al : alias) (x y out : seq K) :
  size x = size out -> size y = size out -> alias_ok al x y out -> mul_into al x y out = mulS x y.
Proof. exact: mul_into_spec. Qed.
Print Assumptions C14_mul_out_alias.

(* x *= y with an independent y is the Cauchy product computed in place *)
Theorem C14_imul (K : fieldType) (self rhs : seq K) : size rhs = size self -> imul false self rhs = mulS self rhs.
Proof. exact: imul_spec. Qed.
Print Assumptions C14_imul.

(* the repaired in-place product is correct whether or not the right operand shares memory with the left: x *= x *)
Theorem C14_imul_alias_safe (K : fieldType) (b : bool) (self rhs : seq K) :
  size rhs = size self -> (b -> rhs = self) -> imul_fixed b self rhs = mulS self rhs.
Proof. exact: imul_fixed_spec. Qed.
Print Assumptions C14_imul_alias_safe.

(* ... whereas the loop as it stood before the fix (reads of the aliased right operand see the partially updated
   left operand) is wrong: 2+3t+5t^2 squared in place gives [4;18;39] instead of [4;12;29] *)
Theorem C14_imul_unrepaired_refuted : exists x : seq Qc_fieldType, (imul true x x == mulS x x) = false.
Proof. exact: imul_alias_refuted. Qed.
Print Assumptions C14_imul_unrepaired_refuted.

(* ---- the quotient kernel (`/`, `/=`) as a store transformer: with the temporary the implementation uses, the result is the quotient
   of the operands as they were when the call started, whatever aliases the output; written straight into the output it is still
   right when nothing or only the numerator aliases the output, WRONG when the denominator does (kernel-checked witness), and the
   obvious probe x /= x does not reveal it (it returns the constant series 1 by cancellation) *)
From AlgoV Require Import Series InPlace InPlaceDiv.
Theorem C14_div_temp_alias_safe (K : fieldType) (al : alias) (x y out : seq K) :
  div_temp al x y out = divS (x_seen al x out) (y_seen al y out).
Proof. exact: div_temp_alias_safe. Qed.
Theorem C14_div_direct_noalias (K : fieldType) (x y out : seq K) : size x = size out -> size y = size out -> div_direct NoAlias x y out = divS x y.
Proof. exact: div_direct_noalias. Qed.
Theorem C14_div_direct_aliasX (K : fieldType) (x y out : seq K) : size x = size out -> size y = size out -> div_direct AliasX x y out = divS out y.
Proof. exact: div_direct_aliasX. Qed.
Theorem C14_div_direct_aliasY_refuted :
  exists (x out : seq Qc_fieldType), size x = size out /\ (div_direct AliasY x out out == divS x out) = false.
Proof. exact: div_direct_aliasY_refuted. Qed.
Theorem C14_div_direct_aliasXY_lucky (K : fieldType) (out : seq K) : out`_0 != 0 ->
  div_direct AliasXY out out out = constS 1 (size out) /\ divS out out = constS 1 (size out).
Proof. exact: div_direct_aliasXY_lucky. Qed.
Print Assumptions C14_div_temp_alias_safe.
Print Assumptions C14_div_direct_noalias.
Print Assumptions C14_div_direct_aliasX.
Print Assumptions C14_div_direct_aliasY_refuted.
Print Assumptions C14_div_direct_aliasXY_lucky.
