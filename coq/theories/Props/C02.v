(* C02 -- property theorems only: statements closed by `exact`, Print Assumptions beneath. *)
From mathcomp Require Import all_ssreflect all_algebra.
From AlgoV Require Import Sums Series SeriesBase SeriesSpec SeriesSpec_A SeriesSpec_B SeriesSpec_C SeriesSpec_D Array ArraySpec.
Set Implicit Arguments. Unset Strict Implicit. Unset Printing Implicit Defensive.
Import GRing.Theory.
Local Open Scope ring_scope.

(* Ring operations of K[t]/(t^D) as computed by the kernels _mul/_truediv/_square/_pow_real(int) of the model:
   Cauchy product, the unique quotient z with z*y = x mod t^D, powers; and NumPy's right-aligned broadcasting rule
   of the operator layer (Array.bshape).  The operator layer itself (operand kinds, reflected and in-place forms)
   is tied to the code by the correspondence check. *)

Section C02.
Variable K : fieldType.
Hypothesis char0 : forall n, (n.+1)%:R != 0 :> K.
Implicit Types (F G S C Z : {poly K}) (xs ys : seq K).

Theorem C02_mulS_spec xs ys d : (d < size xs)%N -> (mulS xs ys)`_d = (Poly xs * Poly ys)`_d.
Proof. exact: mulS_spec. Qed.

Theorem C02_size_mulS xs ys : size (mulS xs ys) = size xs.
Proof. exact: size_mulS. Qed.

Theorem C02_divS_spec xs ys d : ys`_0 != 0 -> (d < size xs)%N ->
  (Poly (divS xs ys) * Poly ys)`_d = xs`_d.
Proof. exact: divS_spec. Qed.

Theorem C02_size_divS xs ys : size (divS xs ys) = size xs.
Proof. exact: size_divS. Qed.

Theorem C02_recipS_spec ys d : ys`_0 != 0 -> (d < size ys)%N ->
  (Poly (recipS ys) * Poly ys)`_d = (1 : {poly K})`_d.
Proof. exact: recipS_spec. Qed.

Theorem C02_squareS_spec xs d : (d < size xs)%N -> (squareS xs)`_d = (Poly xs * Poly xs)`_d.
Proof. exact: squareS_spec. Qed.

Theorem C02_pownatS_spec xs n d : (d < size xs)%N -> (pownatS xs n)`_d = (Poly xs ^+ n)`_d.
Proof. exact: pownatS_spec. Qed.

Theorem C02_powS_spec F xs (r : K) : xs`_0 != 0 ->
  (forall d, (d.+1 < size xs)%N -> (((xs`_0)%:P + 'X) * F^`())`_d = (r *: F)`_d) ->
  forall d, (d < size xs)%N -> (F \Po shift0 (Poly xs))`_d = (powS xs r F`_0)`_d.
Proof. exact: powS_spec. Qed.

Theorem C02_addS xs ys d : (d < size xs)%N -> (addS xs ys)`_d = xs`_d + ys`_d.
Proof. by move=> lt_d; rewrite /addS nth_mkseq. Qed.
Theorem C02_subS xs ys d : (d < size xs)%N -> (subS xs ys)`_d = xs`_d - ys`_d.
Proof. by move=> lt_d; rewrite /subS nth_mkseq. Qed.

End C02.

Print Assumptions C02_mulS_spec.
Print Assumptions C02_size_mulS.
Print Assumptions C02_divS_spec.
Print Assumptions C02_size_divS.
Print Assumptions C02_recipS_spec.
Print Assumptions C02_squareS_spec.
Print Assumptions C02_pownatS_spec.
Print Assumptions C02_powS_spec.
Print Assumptions C02_addS.
Print Assumptions C02_subS.

Theorem C02_bshape_sym s1 s2 : bshape s1 s2 = bshape s2 s1.
Proof. exact: bshape_sym. Qed.
Print Assumptions C02_bshape_sym.
Theorem C02_bshape_refl s : bshape s s = Some s.
Proof. exact: bshape_refl. Qed.
Print Assumptions C02_bshape_refl.
Theorem C02_bshape_scalar s : bshape s [::] = Some s.
Proof. exact: bshape_scalar. Qed.
Print Assumptions C02_bshape_scalar.

(* ---- the executable carrier for COMPLEX coefficients: the Gaussian rationals Q(i) form a field of characteristic 0 in which i^2 = -1
   and into which the rationals embed; every theorem above, being stated for an arbitrary field, applies to it, and the correspondence
   check evaluates the very same model terms over it for the cases with complex operands. *)
From Coq Require Import QArith Qcanon.
From AlgoV Require Import QcField QciField.
Local Close Scope Q_scope. Local Close Scope Qc_scope. Local Open Scope ring_scope.
Theorem C02_Qci_carrier :
  [/\ (MkQci 0 1 * MkQci 0 1 = -1 :> Qci_fieldType), [char Qci_fieldType]%R =i pred0, rmorphism (qci_of : Qc_fieldType -> Qci_fieldType)
    & forall x y : Qci_fieldType, x * y = qci_mul x y /\ x + y = qci_add x y /\ x^-1 = qci_inv x].
Proof. split; [exact: qci_i2 | exact: qci_char0 | exact: qci_of_is_rmorphism | by move=> x y; rewrite qci_mulE qci_addE qci_invE]. Qed.
Print Assumptions C02_Qci_carrier.
