(* C12 -- low-order coefficients do not depend on the truncation degree: property theorems only. *)
From mathcomp Require Import all_ssreflect all_algebra.
From AlgoV Require Import Sums Series SeriesBase SeriesSpec SeriesPrefix.
Set Implicit Arguments. Unset Strict Implicit. Unset Printing Implicit Defensive.
Import GRing.Theory.
Local Open Scope ring_scope.

(* Every recurrence of the model is a course-of-values recursion (Series.unfold1/unfold2): coefficient d is computed
   from coefficients < d of the output and <= d of the inputs.  Hence for every kernel, every field, every D and every
   n <= D: the first n output coefficients computed with D coefficients equal the output computed from the inputs
   truncated to n coefficients; D = 1 reproduces the plain value. *)

Section C12.
Variable K : fieldType.
Implicit Types (xs ys fp : seq K).

Theorem C12_unfold1_take (step : seq K -> K) (y0 : K) n m : (m <= n)%N ->
  take m.+1 (unfold1 step y0 n) = unfold1 step y0 m.
Proof. exact: unfold1_take. Qed.
Theorem C12_unfold2_take (sy sz : seq K -> seq K -> K) (y0 z0 : K) n m : (m <= n)%N ->
  take m.+1 (unfold2 sy sz y0 z0 n).1 = (unfold2 sy sz y0 z0 m).1 /\
  take m.+1 (unfold2 sy sz y0 z0 n).2 = (unfold2 sy sz y0 z0 m).2.
Proof. exact: unfold2_take. Qed.

Theorem C12_series1_take (step step' : seq K -> K) (y0 : K) xs n : (0 < n <= size xs)%N ->
  (forall zs, (size zs < n)%N -> step zs = step' zs) ->
  take n (series1 step y0 xs) = series1 step' y0 (take n xs).
Proof. exact: series1_take. Qed.

Theorem C12_series2_take (sy sz sy' sz' : seq K -> seq K -> K) (y0 z0 : K) xs n : (0 < n <= size xs)%N ->
  (forall ys zs, size ys = size zs -> (size ys < n)%N -> sy ys zs = sy' ys zs) ->
  (forall ys zs, size ys = (size zs).+1 -> (size zs < n)%N -> sz ys zs = sz' ys zs) ->
  take n (series2 sy sz y0 z0 xs).1 = (series2 sy' sz' y0 z0 (take n xs)).1 /\
  take n (series2 sy sz y0 z0 xs).2 = (series2 sy' sz' y0 z0 (take n xs)).2.
Proof. exact: series2_take. Qed.

Theorem C12_addS_take xs ys n : (n <= size xs)%N -> take n (addS xs ys) = addS (take n xs) (take n ys).
Proof. exact: addS_take. Qed.

Theorem C12_subS_take xs ys n : (n <= size xs)%N -> take n (subS xs ys) = subS (take n xs) (take n ys).
Proof. exact: subS_take. Qed.

Theorem C12_mulS_take xs ys n : (n <= size xs)%N -> take n (mulS xs ys) = mulS (take n xs) (take n ys).
Proof. exact: mulS_take. Qed.

Theorem C12_squareS_take xs n : (n <= size xs)%N -> take n (squareS xs) = squareS (take n xs).
Proof. exact: squareS_take. Qed.

Theorem C12_divS_take xs ys n : (0 < n <= size xs)%N -> take n (divS xs ys) = divS (take n xs) (take n ys).
Proof. exact: divS_take. Qed.

Theorem C12_recipS_take ys n : (0 < n <= size ys)%N -> take n (recipS ys) = recipS (take n ys).
Proof. exact: recipS_take. Qed.

Theorem C12_sqrtS_take xs (s0 : K) n : (0 < n <= size xs)%N -> take n (sqrtS xs s0) = sqrtS (take n xs) s0.
Proof. exact: sqrtS_take. Qed.

Theorem C12_powS_take xs (r p0 : K) n : (0 < n <= size xs)%N -> take n (powS xs r p0) = powS (take n xs) r p0.
Proof. exact: powS_take. Qed.

Theorem C12_expS_take xs (e0 : K) n : (0 < n <= size xs)%N -> take n (expS xs e0) = expS (take n xs) e0.
Proof. exact: expS_take. Qed.

Theorem C12_logS_take xs (l0 : K) n : (0 < n <= size xs)%N -> take n (logS xs l0) = logS (take n xs) l0.
Proof. exact: logS_take. Qed.

Theorem C12_sincosS_take xs (s0 c0 : K) n : (0 < n <= size xs)%N ->
  take n (sincosS xs s0 c0).1 = (sincosS (take n xs) s0 c0).1 /\ take n (sincosS xs s0 c0).2 = (sincosS (take n xs) s0 c0).2.
Proof. exact: sincosS_take. Qed.

Theorem C12_sinhcoshS_take xs (s0 c0 : K) n : (0 < n <= size xs)%N ->
  take n (sinhcoshS xs s0 c0).1 = (sinhcoshS (take n xs) s0 c0).1 /\ take n (sinhcoshS xs s0 c0).2 = (sinhcoshS (take n xs) s0 c0).2.
Proof. exact: sinhcoshS_take. Qed.

Theorem C12_tansec2S_take xs (t0 z0 : K) n : (0 < n <= size xs)%N ->
  take n (tansec2S xs t0 z0).1 = (tansec2S (take n xs) t0 z0).1 /\ take n (tansec2S xs t0 z0).2 = (tansec2S (take n xs) t0 z0).2.
Proof. exact: tansec2S_take. Qed.

Theorem C12_tanhsech2S_take xs (t0 : K) n : (0 < n <= size xs)%N ->
  take n (tanhsech2S xs t0).1 = (tanhsech2S (take n xs) t0).1 /\ take n (tanhsech2S xs t0).2 = (tanhsech2S (take n xs) t0).2.
Proof. exact: tanhsech2S_take. Qed.

Theorem C12_arcsinS_take xs (y0 z0 : K) n : (0 < n <= size xs)%N ->
  take n (arcsinS xs y0 z0).1 = (arcsinS (take n xs) y0 z0).1 /\ take n (arcsinS xs y0 z0).2 = (arcsinS (take n xs) y0 z0).2.
Proof. exact: arcsinS_take. Qed.

Theorem C12_arctanS_take xs (y0 : K) n : (0 < n <= size xs)%N ->
  take n (arctanS xs y0).1 = (arctanS (take n xs) y0).1 /\ take n (arctanS xs y0).2 = (arctanS (take n xs) y0).2.
Proof. exact: arctanS_take. Qed.

Theorem C12_bfwfS_take (f0 : K) fp xs n : (0 < n <= size xs)%N ->
  take n (bfwfS f0 fp xs) = bfwfS f0 (take n fp) (take n xs).
Proof. exact: bfwfS_take. Qed.

Theorem C12_expm1S_take xs (e0 em0 : K) n : (0 < n <= size xs)%N -> take n (expm1S xs e0 em0) = expm1S (take n xs) e0 em0.
Proof. exact: expm1S_take. Qed.

Theorem C12_expS_D1 (x0 e0 : K) : expS [:: x0] e0 = [:: e0].
Proof. exact: expS_D1. Qed.

Theorem C12_mulS_D1 (x0 y0 : K) : mulS [:: x0] [:: y0] = [:: x0 * y0].
Proof. exact: mulS_D1. Qed.

Theorem C12_divS_D1 (x0 y0 : K) : divS [:: x0] [:: y0] = [:: y0^-1 * (x0 - 0)].
Proof. exact: divS_D1. Qed.

End C12.

Print Assumptions C12_unfold1_take.
Print Assumptions C12_unfold2_take.
Print Assumptions C12_series1_take.
Print Assumptions C12_series2_take.
Print Assumptions C12_addS_take.
Print Assumptions C12_subS_take.
Print Assumptions C12_mulS_take.
Print Assumptions C12_squareS_take.
Print Assumptions C12_divS_take.
Print Assumptions C12_recipS_take.
Print Assumptions C12_sqrtS_take.
Print Assumptions C12_powS_take.
Print Assumptions C12_expS_take.
Print Assumptions C12_logS_take.
Print Assumptions C12_sincosS_take.
Print Assumptions C12_sinhcoshS_take.
Print Assumptions C12_tansec2S_take.
Print Assumptions C12_tanhsech2S_take.
Print Assumptions C12_arcsinS_take.
Print Assumptions C12_arctanS_take.
Print Assumptions C12_bfwfS_take.
Print Assumptions C12_expm1S_take.
Print Assumptions C12_expS_D1.
Print Assumptions C12_mulS_D1.
Print Assumptions C12_divS_D1.

(* ---- whole programs, forward AND reverse sweep, for the executable tracer instance (TracerExec.v): the first D' coefficients of every
   result computed with D >= D' coefficients are the results computed from inputs, constants and seeds truncated to D' coefficients *)
From AlgoV Require Import Tracer TracerExec TracerRefine TracerPrefix.
Theorem C12_program_eval_prefix (K : fieldType) (D D' : nat) (prog : seq (instr (seq K))) ret (xs : seq (seq K)) :
  (0 < D')%N -> (D' <= D)%N -> all (@instr_ok K D) prog -> sized D xs ->
  X_eval_out D' (map (instrT D') prog) ret (map (tk D') xs) = map (tk D') (X_eval_out D prog ret xs).
Proof. move=> *; exact: X_eval_prefix. Qed.
Theorem C12_program_replay_prefix (K : fieldType) (D D' : nat) (t : tape (seq K)) outs (xs : seq (seq K)) :
  (0 < D')%N -> (D' <= D)%N -> all (@node_ok K D) t -> sized D xs ->
  X_replay_out D' (map (nodeT D') t) outs (map (tk D') xs) = map (tk D') (X_replay_out D t outs xs).
Proof. move=> *; exact: X_replay_prefix. Qed.
Theorem C12_program_tangent_prefix (K : fieldType) (D D' : nat) (t : tape (seq K)) outs (xs dxs : seq (seq K)) :
  (0 < D')%N -> (D' <= D)%N -> all (@node_ok K D) t -> sized D xs -> sized D dxs ->
  X_tangent_out D' (map (nodeT D') t) outs (map (tk D') xs) (map (tk D') dxs) = map (tk D') (X_tangent_out D t outs xs dxs).
Proof. move=> *; exact: X_tangent_prefix. Qed.
(* the reverse sweep: adjoint coefficients of order < D' depend only on coefficients of order < D' of inputs and seeds *)
Theorem C12_program_adjoint_prefix (K : fieldType) (D D' : nat) (t : tape (seq K)) outs (xs ybars : seq (seq K)) :
  (0 < D')%N -> (D' <= D)%N -> all (@node_ok K D) t -> sized D xs -> sized D ybars ->
  X_grad D' (map (nodeT D') t) outs (map (tk D') xs) (map (tk D') ybars) = map (tk D') (X_grad D t outs xs ybars).
Proof. move=> *; exact: X_grad_prefix. Qed.
Theorem C12_program_D1 (K : fieldType) (D : nat) (prog : seq (instr (seq K))) ret (xs : seq (seq K)) : (0 < D)%N ->
  all (@instr_ok K D) prog -> sized D xs ->
  [seq take 1 y | y <- X_eval_out D prog ret xs] = X_eval_out 1 (map (instrT 1) prog) ret [seq take 1 x | x <- xs].
Proof. exact: X_eval_D1. Qed.
Print Assumptions C12_program_eval_prefix.
Print Assumptions C12_program_replay_prefix.
Print Assumptions C12_program_tangent_prefix.
Print Assumptions C12_program_adjoint_prefix.
Print Assumptions C12_program_D1.
