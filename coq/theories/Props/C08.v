(* C08 -- matrix factorizations satisfy their defining equations modulo t^D: property theorems only. *)
From mathcomp Require Import all_ssreflect all_algebra.
From AlgoV Require Import Sums Series Matrix MatrixFact FactSpec QRSpec.
Set Implicit Arguments. Unset Strict Implicit. Unset Printing Implicit Defensive.
Import GRing.Theory.
Local Open Scope ring_scope.

(* The factorization recurrences of the model (written over abstract matrix operations, instantiated here with mathcomp
   matrices; the same kernels instantiated with list matrices are what vm_compute runs against the implementation) satisfy,
   for every field with 2 != 0, every size n, every D and all higher coefficients, given base factors that satisfy the
   factorization at order 0: Cholesky L L^T = A with every L_d lower triangular; LU L U = w^T A with L unit lower (L_d strictly
   lower for d >= 1), U upper and a constant permutation; square QR with a regular base matrix Q R = A, Q^T Q = I, R upper. *)

Section C08.
Variable K : fieldType.
Variable n : nat.
Notation M := 'M[K]_n.
Hypothesis char2 : (2%:R : K) != 0.

Theorem C08_cholM_size (A : seq M) (L0 L0inv : M) : size (cholM A L0 L0inv) = size A.
Proof. exact: cholM_size. Qed.

Theorem C08_cholM_spec (A : seq M) (L0 L0inv : M) :
  (forall d, (d < size A)%N -> (A`_d)^T = A`_d) ->
  is_lower L0 -> L0 *m L0^T = A`_0 -> L0inv *m L0 = 1%:M ->
  forall d, (d < size A)%N ->
  \sum_(c < d.+1) (cholM A L0 L0inv)`_c *m ((cholM A L0 L0inv)`_(d - c))^T = A`_d /\ is_lower ((cholM A L0 L0inv)`_d).
Proof. exact: cholM_spec. Qed.

Theorem C08_luM_size (wT : M) (A : seq M) (L0 U0 L0inv U0inv : M) : size (luM wT A L0 U0 L0inv U0inv) = size A.
Proof. exact: luM_size. Qed.

Theorem C08_luM_spec (wT : M) (A : seq M) (L0 U0 L0inv U0inv : M) :
  is_unit_lower L0 -> is_upper U0 -> L0 *m U0 = wT *m A`_0 ->
  L0inv *m L0 = 1%:M -> U0 *m U0inv = 1%:M ->
  let LU := luM wT A L0 U0 L0inv U0inv in
  forall d, (d < size A)%N ->
  \sum_(c < d.+1) (nth (0, 0) LU c).1 *m (nth (0, 0) LU (d - c)).2 = wT *m A`_d /\
  is_upper (nth (0, 0) LU d).2 /\
  (if d is _.+1 then is_strict_lower (nth (0, 0) LU d).1 else is_unit_lower (nth (0, 0) LU d).1).
Proof. exact: luM_spec. Qed.

Theorem C08_qrM_size (A : seq M) (Q0 R0 Rinv : M) : size (qrM A Q0 R0 Rinv) = size A.
Proof. exact: qrM_size. Qed.

Theorem C08_qrM_spec (A : seq M) (Q0 R0 Rinv : M) :
  Q0^T *m Q0 = 1%:M -> is_upper R0 -> Q0 *m R0 = A`_0 -> R0 *m Rinv = 1%:M ->
  let QR := qrM A Q0 R0 Rinv in
  forall d, (d < size A)%N ->
  \sum_(c < d.+1) (nth (0, 0) QR c).1 *m (nth (0, 0) QR (d - c)).2 = A`_d /\
  \sum_(c < d.+1) ((nth (0, 0) QR c).1)^T *m (nth (0, 0) QR (d - c)).1 = (d == 0%N)%:R%:M /\
  is_upper (nth (0, 0) QR d).2.
Proof. exact: qrM_spec. Qed.

End C08.

Print Assumptions C08_cholM_size.
Print Assumptions C08_cholM_spec.
Print Assumptions C08_luM_size.
Print Assumptions C08_luM_spec.
Print Assumptions C08_qrM_size.
Print Assumptions C08_qrM_spec.

(* ---- the executable list-matrix instances (what vm_compute runs) refine the 'M[K]_n instances the theorems above are about *)
From AlgoV Require Import MatrixSpec DetSpec.
Theorem C08_luU_refines (K : fieldType) (n : nat) (wT : mx K) (A : seq (mx K)) (L0 U0 L0inv U0inv : mx K) :
  [seq mo2 n p | p <- luU n wT A L0 U0 L0inv U0inv]
  = luM (mx_of n n wT) [seq mx_of n n a | a <- A] (mx_of n n L0) (mx_of n n U0) (mx_of n n L0inv) (mx_of n n U0inv).
Proof. exact: luU_refines. Qed.
Print Assumptions C08_luU_refines.
Theorem C08_cholU_refines (K : fieldType) (n : nat) (A : seq (mx K)) (L0 L0inv : mx K) :
  [seq mx_of n n a | a <- cholU n A L0 L0inv] = cholM [seq mx_of n n a | a <- A] (mx_of n n L0) (mx_of n n L0inv).
Proof. exact: cholU_refines. Qed.
Print Assumptions C08_cholU_refines.
Theorem C08_qrU_refines (K : fieldType) (n : nat) (A : seq (mx K)) (Q0 R0 Rinv : mx K) :
  [seq mo2 n p | p <- qrU n A Q0 R0 Rinv] = qrM [seq mx_of n n a | a <- A] (mx_of n n Q0) (mx_of n n R0) (mx_of n n Rinv).
Proof. exact: qrU_refines. Qed.
Print Assumptions C08_qrU_refines.

(* ---- reduced QR of a TALL matrix polynomial (m x n, Q m x n, R n x n; _qr_rectangular with M > N): Q R = A, Q^T Q = I modulo t^D,
   every R_d upper triangular, for every m, n, D over every field with 2 != 0; the executable list-matrix kernel refines it *)
From AlgoV Require Import QRTall QRTallSpec.
Theorem C08_qrtM_spec (K : fieldType) (m n : nat) : (2%:R : K) != 0 ->
  forall (A : seq 'M[K]_(m, n)) (Q0 : 'M[K]_(m, n)) (R0 Rinv : 'M[K]_n),
  Q0^T *m Q0 = 1%:M -> is_upper R0 -> Q0 *m R0 = A`_0 -> R0 *m Rinv = 1%:M ->
  let QR := qrtM A Q0 R0 Rinv in
  forall d, (d < size A)%N ->
  \sum_(c < d.+1) (nth (0, 0) QR c).1 *m (nth (0, 0) QR (d - c)).2 = A`_d /\
  \sum_(c < d.+1) ((nth (0, 0) QR c).1)^T *m (nth (0, 0) QR (d - c)).1 = (d == 0%N)%:R%:M /\
  is_upper (nth (0, 0) QR d).2.
Proof. move=> c2 A Q0 R0 Rinv; exact: (qrtM_spec c2). Qed.
Print Assumptions C08_qrtM_spec.
Theorem C08_qrtU_refines (K : fieldType) (m n : nat) (A : seq (mx K)) (Q0 R0 Rinv : mx K) :
  [seq moq m n p | p <- qrtU m n A Q0 R0 Rinv]
  = qrtM [seq mx_of m n a | a <- A] (mx_of m n Q0) (mx_of n n R0) (mx_of n n Rinv).
Proof. exact: qrtU_refines. Qed.
Print Assumptions C08_qrtU_refines.

(* ---- symmetric eigenvalue decomposition, DISTINCT eigenvalues of the base matrix (algorithms.py _eigh1; Eigh.v follows its steps:
   truncated triple product, S = -dG/2, K, diagonal part, Hadamard product with H): for every D the coefficients computed satisfy
   Q(t)^T Q(t) = I and Q(t)^T A(t) Q(t) = Lambda(t) modulo t^D with Lambda(t) diagonal -- all sizes, every field with 2 != 0;
   the executable kernel run by the correspondence check refines the mathcomp instance. *)
From AlgoV Require Import Eigh EighSpec EighRefine.
Theorem C08_eighM_spec (K : fieldType) (n : nat) : (2%:R : K) != 0 ->
  forall (A : seq 'M[K]_n) (Q0 L0 H : 'M[K]_n),
  Q0^T *m Q0 = 1%:M -> is_diagM L0 -> Q0^T *m A`_0 *m Q0 = L0 ->
  (forall d, (d < size A)%N -> (A`_d)^T = A`_d) ->
  (forall i j, i != j -> H i j * (L0 j j - L0 i i) = 1) -> (forall i, H i i = 0) ->
  let QL := eighM A Q0 L0 H in
  forall d, (d < size A)%N ->
  \sum_(c < d.+1) ((nth (0, 0) QL c).1)^T *m (nth (0, 0) QL (d - c)).1 = (d == 0%N)%:R%:M /\
  \sum_(i < d.+1) \sum_(j < (d - i).+1) ((nth (0, 0) QL i).1)^T *m A`_j *m (nth (0, 0) QL (d - i - j)).1
    = (nth (0, 0) QL d).2 /\
  is_diagM (nth (0, 0) QL d).2.
Proof. move=> c2 A Q0 L0 H; exact: (eighM_spec c2). Qed.
Print Assumptions C08_eighM_spec.
Theorem C08_eighM_size (K : fieldType) (n : nat) (A : seq 'M[K]_n) (Q0 L0 H : 'M[K]_n) : size (eighM A Q0 L0 H) = size A.
Proof. exact: eighM_size. Qed.
Theorem C08_eighU_refines (K : fieldType) (n : nat) (A : seq (mx K)) (Q0 L0 H : mx K) :
  [seq (mx_of n n p.1, mx_of n n p.2) | p <- eighU n A Q0 L0 H]
  = eighM [seq mx_of n n a | a <- A] (mx_of n n Q0) (mx_of n n L0) (mx_of n n H).
Proof. exact: eighU_refines. Qed.
Print Assumptions C08_eighU_refines.

(* ---- FULL QR decomposition (Q m x m orthogonal, R m x n upper trapezoidal, n <= m; algorithms.py _qr_full, the kernel shared by
   qr_full and svd): Q R = A, Q^T Q = I, R upper trapezoidal modulo t^D for every m, n, D; the executable kernel refines it. *)
From AlgoV Require Import QRFull QRFullSpec LiftQ.
Theorem C08_qrfM_spec (K : fieldType) (m n : nat) : (2%:R : K) != 0 -> forall le_nm : (n <= m)%N,
  forall (A : seq 'M[K]_(m, n)) (Q0 : 'M[K]_m) (R0 : 'M[K]_(m, n)) (Rinv : 'M[K]_n),
  Q0^T *m Q0 = 1%:M -> is_uptrap R0 -> Q0 *m R0 = A`_0 -> topM le_nm R0 *m Rinv = 1%:M ->
  let QR := qrfM A Q0 R0 Rinv in
  forall d, (d < size A)%N ->
  \sum_(c < d.+1) (nth (0, 0) QR c).1 *m (nth (0, 0) QR (d - c)).2 = A`_d /\
  \sum_(c < d.+1) ((nth (0, 0) QR c).1)^T *m (nth (0, 0) QR (d - c)).1 = (d == 0%N)%:R%:M /\
  is_uptrap (nth (0, 0) QR d).2.
Proof. move=> c2 le_nm A Q0 R0 Rinv; exact: (qrfM_spec c2). Qed.
Print Assumptions C08_qrfM_spec.
Theorem C08_qrfU_refines (K : fieldType) (m n : nat) (A : seq (mx K)) (Q0 R0 Rinv : mx K) :
  [seq mofq m n p | p <- qrfU m n A Q0 R0 Rinv]
  = qrfM [seq mx_of m n a | a <- A] (mx_of m m Q0) (mx_of m n R0) (mx_of n n Rinv).
Proof. exact: qrfU_refines. Qed.
Print Assumptions C08_qrfU_refines.
(* the re-orthonormalisation helper lift_Q of _eigh (repeated eigenvalues): coefficients d..D-1 computed from 0..d-1 keep
   sum_{i+j=k} Q_i^T Q_j = delta_k I for every k < D, and the given coefficients are kept *)
Theorem C08_liftQ_spec (K : fieldType) (n : nat) : (2%:R : K) != 0 -> forall (Q : seq 'M[K]_n) (D : nat),
  (0 < size Q)%N ->
  (forall k, (k < size Q)%N -> \sum_(c < k.+1) (Q`_c)^T *m Q`_(k - c) = (k == 0%N)%:R%:M) ->
  (forall k, (k < D)%N -> \sum_(c < k.+1) ((liftQM Q D)`_c)^T *m (liftQM Q D)`_(k - c) = (k == 0%N)%:R%:M)
  /\ take (size Q) (liftQM Q D) = Q /\ size (liftQM Q D) = maxn (size Q) D.
Proof. move=> c2 Q D; exact: (liftQ_spec c2). Qed.
Print Assumptions C08_liftQ_spec.
