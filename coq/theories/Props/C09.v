(* C09 -- forward-mode derivative drivers are exact: property theorems only (statements closed by `exact`, Print Assumptions beneath). *)
From mathcomp Require Import all_ssreflect all_algebra.
From AlgoV Require Import Sums FwdDrivers FwdDriversSpec.
Set Implicit Arguments. Unset Strict Implicit. Unset Printing Implicit Defensive.
Import GRing.Theory.
Local Open Scope ring_scope.

Section FwdSpec.
Variable K : fieldType.
Hypothesis char2 : (2%:R : K) != 0.

(* the N(N+1)/2 seed directions of init_hessian are e_n (index n(n+1)/2) and e_n + e_m, m < n (index n(n+1)/2 + n - m) *)
Theorem C09_hess_dirs_spec N n j : (j <= n)%N -> (n < N)%N ->
  nth [::] (hess_dirs K N) (tri_num n + j) = mkseq (fun i => ((i == n) || (i == n - j)%N)%:R) N.
Proof. exact: hess_dirs_spec. Qed.
Theorem C09_size_hess_dirs N : size (hess_dirs K N) = (N * N.+1)./2.
Proof. exact: size_hess_dirs. Qed.

(* seeding with init_hessian and reading the second-order coefficients with extract_hessian returns the Hessian, for EVERY N:
   for every symmetric H, with second-order coefficient q(s) = 1/2 s^T H s in direction s *)
Theorem C09_hessian_roundtrip N (H : nat -> nat -> K) : (forall i j, H i j = H j i) ->
  extract_hessian N [seq quad N H d | d <- hess_dirs K N] = mkseq (fun n => mkseq (fun m => H n m) N) N.
Proof. exact: hessian_roundtrip. Qed.

(* Hessian-vector product from 2N+1 directions *)
Theorem C09_hess_vec_roundtrip N (H : nat -> nat -> K) (v : seq K) : (forall i j, H i j = H j i) -> size v = N ->
  extract_hess_vec N [seq quad N H d | d <- hess_vec_dirs N v] = matvec N H v.
Proof. exact: hess_vec_roundtrip. Qed.

(* Jacobian: first-order coefficient along e_p is the p-th partial derivative; for a linear form g . s *)
Theorem C09_jacobian_roundtrip N (g : seq K) : size g = N ->
  [seq sumn_f N (fun i => g`_i * d`_i) | d <- jac_dirs K N] = g.
Proof. exact: jacobian_roundtrip. Qed.
End FwdSpec.

Print Assumptions C09_hess_dirs_spec.
Print Assumptions C09_size_hess_dirs.
Print Assumptions C09_hessian_roundtrip.
Print Assumptions C09_hess_vec_roundtrip.
Print Assumptions C09_jacobian_roundtrip.
