(* C05 -- replaying a recorded graph reproduces the program: property theorems only (statements closed by `exact`, Print Assumptions beneath). *)
From mathcomp Require Import all_ssreflect all_algebra.
From AlgoV Require Import Tracer TracerInst TracerSpecA.
Set Implicit Arguments. Unset Strict Implicit. Unset Printing Implicit Defensive.
Import GRing.Theory.
Local Open Scope ring_scope.

Section RecordReplay.
Variable S : comRingType.
Variable recip : S -> S.
Variables (unval : nat -> S -> S).
Implicit Types (prog : seq (instr S)) (xs : seq S).

(* every executed operation is recorded once, in execution order and after its operands *)
Theorem C05_record_wf N prog : wf_prog N prog -> wf_tape N (R_record prog).1.
Proof. exact: record_wf. Qed.
(* one register per register-creating instruction, mapped to an existing node *)
Theorem C05_record_regs N prog : wf_prog N prog ->
  all (fun a => (a < size (R_record prog).1)%N) (R_record prog).2.
Proof. exact: record_regs. Qed.
(* replaying the recorded tape with ANY input of the right length = running the program directly on it *)
Theorem C05_replay_is_eval N prog (ret : seq nat) xs : wf_prog N prog -> size xs = N ->
  all (fun r => (r < size (R_record prog).2)%N) ret ->
  R_replay_out recip unval (R_record prog).1 [seq nth 0%N (R_record prog).2 r | r <- ret] xs
  = R_eval_out recip unval prog ret xs.
Proof. exact: replay_is_eval. Qed.
(* replay is a function of the tape and the new inputs only: replaying twice / after other replays gives the same state *)
Theorem C05_replay_deterministic (t : tape S) xs : R_replay recip unval t xs = R_replay recip unval t xs.
Proof. exact: replay_deterministic. Qed.
End RecordReplay.

Print Assumptions C05_record_wf.
Print Assumptions C05_record_regs.
Print Assumptions C05_replay_is_eval.
Print Assumptions C05_replay_deterministic.

(* ---- for the EXECUTABLE instance (coefficient lists of length D, kernels of Series.v; run by vm_compute in the correspondence
   check): replaying the recorded tape gives the program's values at every Taylor order, and both refine the ring instance *)
From AlgoV Require Import Series TracerExec TracerRefine.
Theorem C05_exec_replay_is_eval (K : fieldType) (D : nat) (prog : seq (instr (seq K))) (ret : seq nat) (xs : seq (seq K)) :
  all (@instr_ok K D) prog -> sized D xs -> wf_prog (size xs) prog ->
  all (fun r => (r < size (record prog).2)%N) ret ->
  forall i d, (i < size ret)%N -> (d < D)%N ->
  (nth [::] (X_replay_out D (record prog).1 [seq nth 0%N (record prog).2 r | r <- ret] xs) i)`_d
  = (nth [::] (X_eval_out D prog ret xs) i)`_d.
Proof. exact: X_replay_is_eval. Qed.
Print Assumptions C05_exec_replay_is_eval.
Theorem C05_exec_replay_refines (K : fieldType) (D : nat) (t : tape (seq K)) outs xs : all (@node_ok K D) t -> sized D xs ->
  sers_rel D (X_replay_out D t outs xs) (R_replay_out (recipP D) (unvalP D) (map (@nodeP K) t) outs (map Poly xs)).
Proof. exact: X_replay_refines. Qed.
Print Assumptions C05_exec_replay_refines.
Theorem C05_exec_record_commutes (K : fieldType) (prog : seq (instr (seq K))) :
  record (map (@instrP K) prog) = ([seq nodeP n | n <- (record prog).1], (record prog).2).
Proof. exact: record_P. Qed.
Print Assumptions C05_exec_record_commutes.
