(* C17 -- conversions are lossless and mutually inverse: property theorems only. *)
From Coq Require Import ZArith QArith Qcanon.
From mathcomp Require Import all_ssreflect all_algebra.
From mathcomp Require Import fingroup perm.
From AlgoV Require Import QcField Sums Series Array ArraySpec Conv ConvSpec.
Set Implicit Arguments. Unset Strict Implicit. Unset Printing Implicit Defensive.
Import GRing.Theory.
Local Close Scope Q_scope. Local Close Scope Qc_scope. Local Open Scope nat_scope.

(* ---------- pivots ---------- *)
(* applying the row interchanges of a pivot vector to any list of rows = indexing the rows with piv2swap *)
Theorem C17_apply_swaps_index (T : Type) (x0 : T) (piv : seq nat) (rows : seq T) :
  size rows = size piv -> all (fun p => p < size piv) piv ->
  apply_swaps x0 piv rows = [seq nth x0 rows (nth 0 (piv2swap piv) c) | c <- iota 0 (size piv)].
Proof. exact: apply_swaps_index. Qed.
Theorem C17_piv2swap_perm (piv : seq nat) : all (fun p => p < size piv) piv ->
  perm_eq (piv2swap piv) (iota 0 (size piv)).
Proof. exact: piv2swap_perm. Qed.

Section PivDet.
Variable K : fieldType.
Local Open Scope ring_scope.
(* (P^T A) = rows of A after the interchanges: column c of piv2mat selects row swap[c]; for any "row combination" *)
Theorem C17_piv2mat_rows (piv : seq nat) (A : seq (seq K)) (c j : nat) :
  size A = size piv -> all (fun p => (p < size piv)%N) piv -> (c < size piv)%N ->
  sumn_f (size piv) (fun r => mget (piv2mat K piv) r c * mget A r j) = mget (apply_swaps [::] piv A) c j.
Proof. exact: piv2mat_rows. Qed.
(* determinant of the permutation matrix = sign given by piv2det (mathcomp matrix determinant) *)
Theorem C17_piv2mat_det (piv : seq nat) : all (fun p => (p < size piv)%N) piv ->
  \det (\matrix_(r < size piv, c < size piv) mget (piv2mat K piv) r c) = piv2det K piv.
Proof. exact: piv2mat_det. Qed.

(* ---------- symvec / vecsym ---------- *)
Theorem C17_size_tri N : size (tri N) = (N * N.+1)./2.
Proof. exact: size_tri. Qed.
Theorem C17_tri_uniq N : uniq (tri N).
Proof. exact: tri_uniq. Qed.
Theorem C17_symvec_vecsym (u : uplo) (N : nat) (v : seq K) : (2%:R : K) != 0 -> size v = size (tri N) ->
  symvec u N (vecsym N v) = v.
Proof. exact: symvec_vecsym. Qed.
(* vecsym (symvec A) = A for symmetric A (all conventions), and the symmetrization (A + A^T)/2 for 'F' *)
Theorem C17_vecsym_symvec_F (N : nat) (A : seq (seq K)) r c : (r < N)%N -> (c < N)%N ->
  mget (vecsym N (symvec UF N A)) r c = 2%:R^-1 * (mget A r c + mget A c r).
Proof. exact: vecsym_symvec_F. Qed.
Theorem C17_vecsym_symvec_sym (u : uplo) (N : nat) (A : seq (seq K)) r c : (2%:R : K) != 0 -> (r < N)%N -> (c < N)%N ->
  (forall i j, (i < N)%N -> (j < N)%N -> mget A i j = mget A j i) ->
  mget (vecsym N (symvec u N A)) r c = mget A r c.
Proof. exact: vecsym_symvec_sym. Qed.

(* ---------- shift by s then by -s: the retained D - s coefficients are unchanged ---------- *)
Theorem C17_shift_shift (s : nat) (x : seq K) d : (0 < s)%N -> (d + s < size x)%N ->
  nth 0 (shiftS s true (shiftS s false x)) d = nth 0 x d.
Proof. exact: shift_shift. Qed.
Theorem C17_size_shiftS (s : nat) (b : bool) (x : seq K) : size (shiftS s b x) = size x.
Proof. exact: size_shiftS. Qed.
End PivDet.

(* ---------- base point + directions <-> polynomial: the two axis permutations are mutually inverse.
   B-level: for every coefficient shape of rank <= 3 with extents <= 3 and every D, P <= 3 (bound in the statement) ---------- *)
Theorem C17_base_dirs_roundtrip_bounded D P shp : 0 < D <= 3 -> 0 < P <= 3 -> shp \in small_shapes ->
  roundtrip_ok D P shp = true.
Proof. exact: base_dirs_roundtrip_bounded. Qed.

Print Assumptions C17_apply_swaps_index.
Print Assumptions C17_piv2swap_perm.
Print Assumptions C17_piv2mat_rows.
Print Assumptions C17_piv2mat_det.
Print Assumptions C17_size_tri.
Print Assumptions C17_tri_uniq.
Print Assumptions C17_symvec_vecsym.
Print Assumptions C17_vecsym_symvec_F.
Print Assumptions C17_vecsym_symvec_sym.
Print Assumptions C17_shift_shift.
Print Assumptions C17_size_shiftS.
Print Assumptions C17_base_dirs_roundtrip_bounded.

(* ---- UNBOUNDED: transposition by ANY axis permutation followed by the inverse permutation is the identity on flat row-major data,
   for every rank and shape; hence moving the direction axes to the end and back (utpm2dirs / utpm2base_and_dirs / base_and_dirs2utpm)
   loses nothing for every D, P and shape, zero extents included *)
From AlgoV Require Import Array TransposeSpec.
Theorem C17_transpose_inverse (T : Type) (x0 : T) (perm : seq nat) (s : shape) (data : seq T) :
  perm_eq perm (iota 0 (size s)) -> size data = nelem s ->
  apply_gather x0 (transpose_gather (inv_perm perm) (transpose_gather perm s).1) (apply_gather x0 (transpose_gather perm s) data) = data.
Proof. exact: transpose_inv_data. Qed.
Print Assumptions C17_transpose_inverse.
Theorem C17_base_dirs_roundtrip (D P : nat) (shp : shape) : roundtrip_ok D P shp = true.
Proof. exact: base_dirs_roundtrip. Qed.
Print Assumptions C17_base_dirs_roundtrip.
