(* C16 -- closed-form n-th derivatives are the true derivatives: property theorems only. *)
From Coq Require Import Reals ZArith Lra Lia.
From Coquelicot Require Import Coquelicot.
From AlgoV Require Import NthDeriv NthDerivSpec.
Local Open Scope R_scope.

(* For every function: order 0 is the function itself, and order n+1 is the derivative of order n, at every point of the
   declared domain -- hence g_f n is the n-th derivative of f (is_derive_n / Derive_n). *)

Theorem C16_g_exp_0 x : g_exp 0 x = exp x.
Proof. apply g_exp_0. Qed.
Theorem C16_g_exp_S n x : is_derive (g_exp n) x (g_exp (S n) x).
Proof. apply g_exp_S. Qed.

Theorem C16_g_exp2_0 x : g_exp2 0 x = exp (x * ln 2).
Proof. apply g_exp2_0. Qed.
Theorem C16_g_exp2_S n x : is_derive (g_exp2 n) x (g_exp2 (S n) x).
Proof. apply g_exp2_S. Qed.

Theorem C16_g_expm1_0 x : g_expm1 0 x = exp x - 1.
Proof. apply g_expm1_0. Qed.
Theorem C16_g_expm1_S n x : is_derive (g_expm1 n) x (g_expm1 (S n) x).
Proof. apply g_expm1_S. Qed.

Theorem C16_g_log_0 x : g_log 0 x = ln x.
Proof. apply g_log_0. Qed.
Theorem C16_g_log_S n x : 0 < x -> is_derive (g_log n) x (g_log (S n) x).
Proof. apply g_log_S. Qed.
Theorem C16_g_log2_S n x : 0 < x -> is_derive (g_log2 n) x (g_log2 (S n) x).
Proof. apply g_log2_S. Qed.
Theorem C16_g_log10_S n x : 0 < x -> is_derive (g_log10 n) x (g_log10 (S n) x).
Proof. apply g_log10_S. Qed.

Theorem C16_g_log1p_0 x : g_log1p 0 x = ln (1 + x).
Proof. apply g_log1p_0. Qed.
Theorem C16_g_log1p_S n x : -1 < x -> is_derive (g_log1p n) x (g_log1p (S n) x).
Proof. apply g_log1p_S. Qed.

Theorem C16_g_sqrt_0 x : 0 < x -> g_sqrt 0 x = sqrt x.
Proof. apply g_sqrt_0. Qed.
Theorem C16_g_sqrt_S n x : 0 < x -> is_derive (g_sqrt n) x (g_sqrt (S n) x).
Proof. apply g_sqrt_S. Qed.

Theorem C16_g_square_0 x : g_square 0 x = x * x.
Proof. apply g_square_0. Qed.
Theorem C16_g_square_S n x : is_derive (g_square n) x (g_square (S n) x).
Proof. apply g_square_S. Qed.
Theorem C16_g_negative_0 x : g_negative 0 x = - x.
Proof. apply g_negative_0. Qed.
Theorem C16_g_negative_S n x : is_derive (g_negative n) x (g_negative (S n) x).
Proof. apply g_negative_S. Qed.

Theorem C16_g_reciprocal_0 x : x <> 0 -> g_reciprocal 0 x = / x.
Proof. apply g_reciprocal_0. Qed.
Theorem C16_g_reciprocal_S n x : x <> 0 -> is_derive (g_reciprocal n) x (g_reciprocal (S n) x).
Proof. apply g_reciprocal_S. Qed.

Theorem C16_g_sin_0 x : g_sin 0 x = sin x.
Proof. apply g_sin_0. Qed.
Theorem C16_g_sin_S n x : is_derive (g_sin n) x (g_sin (S n) x).
Proof. apply g_sin_S. Qed.
Theorem C16_g_cos_0 x : g_cos 0 x = cos x.
Proof. apply g_cos_0. Qed.
Theorem C16_g_cos_S n x : is_derive (g_cos n) x (g_cos (S n) x).
Proof. apply g_cos_S. Qed.

Theorem C16_g_sinh_0 x : g_sinh 0 x = sinh x.
Proof. apply g_sinh_0. Qed.
Theorem C16_g_sinh_S n x : is_derive (g_sinh n) x (g_sinh (S n) x).
Proof. apply g_sinh_S. Qed.
Theorem C16_g_cosh_0 x : g_cosh 0 x = cosh x.
Proof. apply g_cosh_0. Qed.
Theorem C16_g_cosh_S n x : is_derive (g_cosh n) x (g_cosh (S n) x).
Proof. apply g_cosh_S. Qed.

Theorem C16_g_arctanh_S n x : -1 < x < 1 -> is_derive (g_arctanh n) x (g_arctanh (S n) x).
Proof. apply g_arctanh_S. Qed.

(* generic consequence: if g 0 = f and g (n+1) = (g n)' on an open domain, then g n is the n-th derivative of f there *)
Theorem C16_nth_derivative_of_chain (f : R -> R) (g : nat -> R -> R) (dom : R -> Prop) :
  (forall x, dom x -> locally x dom) ->
  (forall x, dom x -> g O x = f x) ->
  (forall n x, dom x -> is_derive (g n) x (g (S n) x)) ->
  forall n x, dom x -> Derive_n f n x = g n x.
Proof. apply nth_derivative_of_chain. Qed.

Print Assumptions C16_g_exp_0.
Print Assumptions C16_g_exp_S.
Print Assumptions C16_g_exp2_0.
Print Assumptions C16_g_exp2_S.
Print Assumptions C16_g_expm1_0.
Print Assumptions C16_g_expm1_S.
Print Assumptions C16_g_log_0.
Print Assumptions C16_g_log_S.
Print Assumptions C16_g_log2_S.
Print Assumptions C16_g_log10_S.
Print Assumptions C16_g_log1p_0.
Print Assumptions C16_g_log1p_S.
Print Assumptions C16_g_sqrt_0.
Print Assumptions C16_g_sqrt_S.
Print Assumptions C16_g_square_0.
Print Assumptions C16_g_square_S.
Print Assumptions C16_g_negative_0.
Print Assumptions C16_g_negative_S.
Print Assumptions C16_g_reciprocal_0.
Print Assumptions C16_g_reciprocal_S.
Print Assumptions C16_g_sin_0.
Print Assumptions C16_g_sin_S.
Print Assumptions C16_g_cos_0.
Print Assumptions C16_g_cos_S.
Print Assumptions C16_g_sinh_0.
Print Assumptions C16_g_sinh_S.
Print Assumptions C16_g_cosh_0.
Print Assumptions C16_g_cosh_S.
Print Assumptions C16_g_arctanh_S.
Print Assumptions C16_nth_derivative_of_chain.

(* ---- erf and erfi (as repaired: the sum starts at k = n // 2).  erf is DEFINED as 2/sqrt(pi) * the integral of exp(-t^2) from 0 to x;
   order n+1 is the derivative of order n for every n and every real x, x = 0 included (Hermite recurrence on the explicit
   Pochhammer sums). *)
From AlgoV Require Import NthDerivErf.
Theorem C16_g_erf_0 x : g_erf 0 x = 2 / sqrt PI * RInt (fun t => exp (- (t * t))) 0 x.
Proof. apply g_erf_0. Qed.
Theorem C16_g_erf_S n x : is_derive (g_erf n) x (g_erf (S n) x).
Proof. apply g_erf_S. Qed.
Theorem C16_g_erfi_0 x : g_erfi 0 x = 2 / sqrt PI * RInt (fun t => exp (t * t)) 0 x.
Proof. apply g_erfi_0. Qed.
Theorem C16_g_erfi_S n x : is_derive (g_erfi n) x (g_erfi (S n) x).
Proof. apply g_erfi_S. Qed.
Theorem C16_g_erf_3 x : g_erf 3 x = 2 / sqrt PI * exp (- (x * x)) * (4 * x * x - 2).
Proof. apply g_erf_3. Qed.
Print Assumptions C16_g_erf_0.
Print Assumptions C16_g_erf_S.
Print Assumptions C16_g_erfi_0.
Print Assumptions C16_g_erfi_S.
Print Assumptions C16_g_erf_3.
