From mathcomp Require Import all_ssreflect all_algebra.
From AlgoV Require Import Sums Series SeriesBase SeriesSpec.
Set Implicit Arguments. Unset Strict Implicit. Unset Printing Implicit Defensive.
Import GRing.Theory.
Local Open Scope ring_scope.
Local Arguments mkseq : simpl never.

Section Stmts.
Variable K : fieldType.
Hypothesis char0 : forall n, (n.+1)%:R != 0 :> K.
Implicit Types (F G S C Z : {poly K}) (xs ys zs : seq K).

(* ---------- generic polynomial-side identities ---------- *)

(* Y = F o u, Y' = (F' o u) x' :  (d+1) Y_{d+1} = sum_{k<=d} (k+1) x_{k+1} (F' o u)_{d-k} *)
Lemma key1 F xs (w : nat -> K) d :
  (forall i, (i <= d)%N -> (F^`() \Po shift0 (Poly xs))`_i = w i) ->
  (F \Po shift0 (Poly xs))`_d.+1 * d.+1%:R =
  \sum_(k < d.+1) k.+1%:R * xs`_k.+1 * w (d - k)%N.
Proof.
move=> Hw; rewrite mulr_natr -coef_deriv coef_deriv_comp deriv_shift0 coefM.
rewrite [LHS](reindex_inj rev_ord_inj); apply: eq_bigr => k _.
have le_k : (k <= d)%N by rewrite -ltnS.
rewrite [val (rev_ord k)]/= subSS subKn // coef_deriv coef_Poly Hw ?leq_subr //.
by rewrite -mulr_natl mulrC.
Qed.

(* W = Z o u, Z' = c F F' (low coefficients):  W' = c Y Y' *)
Lemma key2 F Z xs (c : K) (y : nat -> K) d :
  (forall i, (i <= d)%N -> Z^`()`_i = (c *: (F * F^`()))`_i) ->
  (forall i, (i <= d.+1)%N -> (F \Po shift0 (Poly xs))`_i = y i) ->
  (Z \Po shift0 (Poly xs))`_d.+1 * d.+1%:R =
  c * \sum_(k < d.+1) k.+1%:R * y k.+1 * y (d - k)%N.
Proof.
move=> HZ Hy; set u := shift0 _; have u0 : u`_0 = 0 by exact: shift0_0.
rewrite mulr_natr -coef_deriv coef_deriv_comp.
have -> : ((Z^`() \Po u) * u^`())`_d = (((c *: (F * F^`())) \Po u) * u^`())`_d.
  apply: coefM_low => // i le_i; apply: coef_comp_low => // j le_j.
  by apply: HZ; apply: leq_trans le_j le_i.
rewrite comp_polyZ comp_polyM -scalerAl coefZ -mulrA -deriv_comp coefM; congr (_ * _).
rewrite [LHS](reindex_inj rev_ord_inj); apply: eq_bigr => k _.
have le_k : (k <= d)%N by rewrite -ltnS.
rewrite [val (rev_ord k)]/= subSS subKn // coef_deriv !Hy ?ltnS //; last first.
  by apply: leq_trans (leq_subr _ _) _.
by rewrite -mulr_natl mulrC.
Qed.

(* ---------- one step of each recurrence ---------- *)

Lemma tan_stepE F G xs ys zs d :
  (forall i, (i <= d)%N -> F^`()`_i = G`_i) ->
  size ys = d.+1 ->
  (forall i, (i <= d)%N -> (G \Po shift0 (Poly xs))`_i = zs`_i) ->
  (F \Po shift0 (Poly xs))`_d.+1 = tan_step xs ys zs.
Proof.
move=> HF sz Hz; apply: (mulIf (char0 d)).
rewrite (@key1 F xs (nth 0 zs) d); last first.
  move=> i le_i; rewrite -Hz //; apply: coef_comp_low; first exact: shift0_0.
  by move=> j le_j; apply: HF; apply: leq_trans le_j le_i.
by rewrite /tan_step sz sum1E divfK.
Qed.

Lemma cos_stepE F G xs ys zs d :
  (forall i, (i <= d)%N -> F^`()`_i = - G`_i) ->
  size zs = d.+1 ->
  (forall i, (i <= d)%N -> (G \Po shift0 (Poly xs))`_i = ys`_i) ->
  (F \Po shift0 (Poly xs))`_d.+1 = cos_step xs ys zs.
Proof.
move=> HF sz Hy; apply: (mulIf (char0 d)).
rewrite (@key1 F xs (fun i => - ys`_i) d); last first.
  move=> i le_i; rewrite -Hy // -mulN1r -coefZ -comp_polyZ.
  apply: coef_comp_low; first exact: shift0_0.
  by move=> j le_j; rewrite coefZ mulN1r; apply: HF; apply: leq_trans le_j le_i.
rewrite /cos_step sz sum1E divfK //; apply: eq_bigr => k _.
by rewrite subSS mulrN !mulNr.
Qed.

Lemma sec2_stepE F Z xs ys zs d :
  (forall i, (i <= d)%N -> Z^`()`_i = (2%:R *: (F * F^`()))`_i) ->
  size zs = d.+1 ->
  (forall i, (i <= d.+1)%N -> (F \Po shift0 (Poly xs))`_i = ys`_i) ->
  (Z \Po shift0 (Poly xs))`_d.+1 = sec2_step ys zs.
Proof.
move=> HZ sz Hy; apply: (mulIf (char0 d)).
rewrite (@key2 F Z xs 2%:R (nth 0 ys) d) //.
by rewrite /sec2_step sz sum1E divfK.
Qed.

Lemma sech2_stepE F Z xs ys zs d :
  (forall i, (i <= d)%N -> Z^`()`_i = (- 2%:R *: (F * F^`()))`_i) ->
  size zs = d.+1 ->
  (forall i, (i <= d.+1)%N -> (F \Po shift0 (Poly xs))`_i = ys`_i) ->
  (Z \Po shift0 (Poly xs))`_d.+1 = sech2_step ys zs.
Proof.
move=> HZ sz Hy; apply: (mulIf (char0 d)).
rewrite (@key2 F Z xs (- 2%:R) (nth 0 ys) d) //.
by rewrite /sech2_step sz sum1E divfK.
Qed.

(* restriction of the hypotheses to the indices needed at step d *)
Lemma low_hyp (P : nat -> Prop) xs d : (d.+1 < size xs)%N ->
  (forall i, (i.+1 < size xs)%N -> P i) -> forall i, (i <= d)%N -> P i.
Proof. by move=> lt_d H i le_i; apply: H; apply: leq_ltn_trans lt_d. Qed.

(* ===== group C ===== *)
Theorem sincosS_spec S C xs :
  (forall d, (d.+1 < size xs)%N -> S^`()`_d = C`_d) ->
  (forall d, (d.+1 < size xs)%N -> C^`()`_d = - S`_d) ->
  forall d, (d < size xs)%N ->
  (S \Po shift0 (Poly xs))`_d = (sincosS xs S`_0 C`_0).1`_d /\
  (C \Po shift0 (Poly xs))`_d = (sincosS xs S`_0 C`_0).2`_d.
Proof.
move=> HS HC d lt_d; rewrite /sincosS.
have [-> ->] := series2_nth (sin_step xs) (cos_step xs) S`_0 C`_0 lt_d.
elim/ltn_ind: d lt_d => -[_ _|d IH lt_d]; first by rewrite !coef0_comp ?shift0_0.
have IHy i : (i <= d)%N ->
    (S \Po shift0 (Poly xs))`_i = ucoefy (sin_step xs) (cos_step xs) S`_0 C`_0 i.
  by move=> le_i; have [] := IH i le_i (leq_ltn_trans le_i (ltnW lt_d)).
have IHz i : (i <= d)%N ->
    (C \Po shift0 (Poly xs))`_i = ucoefz (sin_step xs) (cos_step xs) S`_0 C`_0 i.
  by move=> le_i; have [] := IH i le_i (leq_ltn_trans le_i (ltnW lt_d)).
split.
  rewrite ucoefyS; apply: (@tan_stepE S C); rewrite ?size_mkseq //.
    exact: (low_hyp lt_d HS).
  by move=> i le_i; rewrite nth_mkseq // IHz.
rewrite ucoefzS; apply: (@cos_stepE C S); rewrite ?size_mkseq //.
  exact: (low_hyp lt_d HC).
by move=> i le_i; rewrite nth_mkseq ?IHy // ltnS (leq_trans le_i).
Qed.

Theorem sinhcoshS_spec S C xs :
  (forall d, (d.+1 < size xs)%N -> S^`()`_d = C`_d) ->
  (forall d, (d.+1 < size xs)%N -> C^`()`_d = S`_d) ->
  forall d, (d < size xs)%N ->
  (S \Po shift0 (Poly xs))`_d = (sinhcoshS xs S`_0 C`_0).1`_d /\
  (C \Po shift0 (Poly xs))`_d = (sinhcoshS xs S`_0 C`_0).2`_d.
Proof.
move=> HS HC d lt_d; rewrite /sinhcoshS.
have [-> ->] := series2_nth (sin_step xs) (cosh_step xs) S`_0 C`_0 lt_d.
elim/ltn_ind: d lt_d => -[_ _|d IH lt_d]; first by rewrite !coef0_comp ?shift0_0.
have IHy i : (i <= d)%N ->
    (S \Po shift0 (Poly xs))`_i = ucoefy (sin_step xs) (cosh_step xs) S`_0 C`_0 i.
  by move=> le_i; have [] := IH i le_i (leq_ltn_trans le_i (ltnW lt_d)).
have IHz i : (i <= d)%N ->
    (C \Po shift0 (Poly xs))`_i = ucoefz (sin_step xs) (cosh_step xs) S`_0 C`_0 i.
  by move=> le_i; have [] := IH i le_i (leq_ltn_trans le_i (ltnW lt_d)).
split.
  rewrite ucoefyS; apply: (@tan_stepE S C); rewrite ?size_mkseq //.
    exact: (low_hyp lt_d HS).
  by move=> i le_i; rewrite nth_mkseq // IHz.
rewrite ucoefzS.
rewrite -[cosh_step xs _ _]/(tan_step xs (mkseq _ d.+1) (mkseq _ d.+2)).
apply: (@tan_stepE C S); rewrite ?size_mkseq //.
  exact: (low_hyp lt_d HC).
by move=> i le_i; rewrite nth_mkseq ?IHy // ltnS (leq_trans le_i).
Qed.

Theorem tansec2S_spec F Z xs :
  (forall d, (d.+1 < size xs)%N -> F^`()`_d = Z`_d) ->
  (forall d, (d.+1 < size xs)%N -> Z^`()`_d = (2%:R *: (F * F^`()))`_d) ->
  forall d, (d < size xs)%N ->
  (F \Po shift0 (Poly xs))`_d = (tansec2S xs F`_0 Z`_0).1`_d /\
  (Z \Po shift0 (Poly xs))`_d = (tansec2S xs F`_0 Z`_0).2`_d.
Proof.
move=> HF HZ d lt_d; rewrite /tansec2S.
have [-> ->] := series2_nth (tan_step xs) (@sec2_step K) F`_0 Z`_0 lt_d.
elim/ltn_ind: d lt_d => -[_ _|d IH lt_d]; first by rewrite !coef0_comp ?shift0_0.
have IHy i : (i <= d)%N ->
    (F \Po shift0 (Poly xs))`_i = ucoefy (tan_step xs) (@sec2_step K) F`_0 Z`_0 i.
  by move=> le_i; have [] := IH i le_i (leq_ltn_trans le_i (ltnW lt_d)).
have IHz i : (i <= d)%N ->
    (Z \Po shift0 (Poly xs))`_i = ucoefz (tan_step xs) (@sec2_step K) F`_0 Z`_0 i.
  by move=> le_i; have [] := IH i le_i (leq_ltn_trans le_i (ltnW lt_d)).
have Hy1 : (F \Po shift0 (Poly xs))`_d.+1 =
    ucoefy (tan_step xs) (@sec2_step K) F`_0 Z`_0 d.+1.
  rewrite ucoefyS; apply: (@tan_stepE F Z); rewrite ?size_mkseq //.
    exact: (low_hyp lt_d HF).
  by move=> i le_i; rewrite nth_mkseq // IHz.
split=> //.
rewrite ucoefzS; apply: (@sec2_stepE F Z xs); rewrite ?size_mkseq //.
  exact: (low_hyp lt_d HZ).
move=> i; rewrite leq_eqVlt => /orP[/eqP->|]; first by rewrite nth_mkseq.
by rewrite ltnS => le_i; rewrite nth_mkseq ?IHy // ltnS (leq_trans le_i).
Qed.

Theorem tanhsech2S_spec F Z xs : Z`_0 = 1 - F`_0 * F`_0 ->
  (forall d, (d.+1 < size xs)%N -> F^`()`_d = Z`_d) ->
  (forall d, (d.+1 < size xs)%N -> Z^`()`_d = (- 2%:R *: (F * F^`()))`_d) ->
  forall d, (d < size xs)%N ->
  (F \Po shift0 (Poly xs))`_d = (tanhsech2S xs F`_0).1`_d /\
  (Z \Po shift0 (Poly xs))`_d = (tanhsech2S xs F`_0).2`_d.
Proof.
move=> HZ0 HF HZ d lt_d; rewrite /tanhsech2S -HZ0.
have [-> ->] := series2_nth (tan_step xs) (@sech2_step K) F`_0 Z`_0 lt_d.
elim/ltn_ind: d lt_d => -[_ _|d IH lt_d]; first by rewrite !coef0_comp ?shift0_0.
have IHy i : (i <= d)%N ->
    (F \Po shift0 (Poly xs))`_i = ucoefy (tan_step xs) (@sech2_step K) F`_0 Z`_0 i.
  by move=> le_i; have [] := IH i le_i (leq_ltn_trans le_i (ltnW lt_d)).
have IHz i : (i <= d)%N ->
    (Z \Po shift0 (Poly xs))`_i = ucoefz (tan_step xs) (@sech2_step K) F`_0 Z`_0 i.
  by move=> le_i; have [] := IH i le_i (leq_ltn_trans le_i (ltnW lt_d)).
have Hy1 : (F \Po shift0 (Poly xs))`_d.+1 =
    ucoefy (tan_step xs) (@sech2_step K) F`_0 Z`_0 d.+1.
  rewrite ucoefyS; apply: (@tan_stepE F Z); rewrite ?size_mkseq //.
    exact: (low_hyp lt_d HF).
  by move=> i le_i; rewrite nth_mkseq // IHz.
split=> //.
rewrite ucoefzS; apply: (@sech2_stepE F Z xs); rewrite ?size_mkseq //.
  exact: (low_hyp lt_d HZ).
move=> i; rewrite leq_eqVlt => /orP[/eqP->|]; first by rewrite nth_mkseq.
by rewrite ltnS => le_i; rewrite nth_mkseq ?IHy // ltnS (leq_trans le_i).
Qed.

End Stmts.
