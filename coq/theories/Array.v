(* MODEL of the NumPy index arithmetic AlgoPy relies on: row-major shapes, right-aligned broadcasting,
   python slice.indices, basic indexing as gather maps (views), transposition/reshape/sum/tile/diag/triu,
   and the UTPM layout "data[d, p, element]" as nested lists  utpm = (shape, [p][element] -> series). *)
From mathcomp Require Import all_ssreflect all_algebra.
From AlgoV Require Import Sums Series.
Set Implicit Arguments. Unset Strict Implicit. Unset Printing Implicit Defensive.
Import GRing.Theory.

(* ---------- shapes and row-major index arithmetic (naturals) ---------- *)
Definition shape := seq nat.
Definition nelem (s : shape) : nat := foldr muln 1 s.

(* flat index of a multi-index (row major) *)
Fixpoint ravel (s : shape) (idx : seq nat) : nat :=
  match s, idx with
  | n :: s', i :: idx' => i * nelem s' + ravel s' idx'
  | _, _ => 0
  end.
(* multi-index of a flat index *)
Fixpoint unravel (s : shape) (j : nat) : seq nat :=
  match s with
  | n :: s' => (j %/ nelem s') :: unravel s' (j %% nelem s')
  | [::] => [::]
  end.

(* right-aligned NumPy broadcasting of two shapes (on reversed shapes) *)
Fixpoint bshape_rev (r1 r2 : seq nat) : option (seq nat) :=
  match r1, r2 with
  | [::], r => Some r
  | r, [::] => Some r
  | a :: r1', b :: r2' =>
      if (a == b) || (b == 1) then omap (cons a) (bshape_rev r1' r2')
      else if a == 1 then omap (cons b) (bshape_rev r1' r2') else None
  end.
Definition bshape (s1 s2 : shape) : option shape := omap rev (bshape_rev (rev s1) (rev s2)).

(* source multi-index (in shape s) of output multi-index i (in the broadcast shape o) *)
Definition bsrc (s o : shape) (i : seq nat) : seq nat :=
  let i' := drop (size o - size s) i in
  [seq (if p.1 == 1 then 0 else p.2) | p <- zip s i'].
Definition bidx (s o : shape) (j : nat) : nat := ravel s (bsrc s o (unravel o j)).

(* ---------- python slice.indices(n) for step != 0 ; None = omitted bound ---------- *)
From Coq Require Import ZArith.
Local Open Scope Z_scope.
Definition clampZ (lo hi v : Z) : Z := Z.max lo (Z.min hi v).
(* returns (start, stop, step) normalized like CPython's PySlice_AdjustIndices *)
Definition slice_indices (start stop : option Z) (step : Z) (n : Z) : Z * Z * Z :=
  let lower := if (step <? 0) then -1 else 0 in
  let upper := if (step <? 0) then n - 1 else n in
  let norm v := if (v <? 0) then Z.max lower (v + n) else Z.min upper v in
  let st := match start with None => if (step <? 0) then upper else lower | Some v => norm v end in
  let sp := match stop with None => if (step <? 0) then lower else upper | Some v => norm v end in
  (st, sp, step).
(* the indices selected by the normalized slice: range(start, stop, step) *)
Definition range_len (st sp step : Z) : Z :=
  if (0 <? step) then (if (st <? sp) then (sp - st - 1) / step + 1 else 0)
  else (if (sp <? st) then (st - sp - 1) / (- step) + 1 else 0).
Definition zrange (st sp step : Z) : seq Z :=
  [seq st + Z.of_nat k * step | k <- iota 0 (Z.to_nat (range_len st sp step))].
Definition slice_list (start stop : option Z) (step : Z) (n : nat) : seq nat :=
  let: (st, sp, stp) := slice_indices start stop step (Z.of_nat n) in
  [seq Z.to_nat v | v <- zrange st sp stp].
Local Close Scope Z_scope.

(* ---------- basic indexing: one index item per consumed axis ---------- *)
Inductive ixitem :=
  | IInt (i : Z)                                  (* integer, negative counts from the end *)
  | ISlice (start stop : option Z) (step : Z)     (* start:stop:step *)
  | INew                                          (* numpy.newaxis *)
  | IEll.                                         (* Ellipsis *)

Definition consumes (it : ixitem) : nat := match it with IInt _ | ISlice _ _ _ => 1 | _ => 0 end.

(* expand Ellipsis / pad with full slices so that every axis is consumed exactly once *)
Definition full := ISlice None None 1%Z.
Definition expand_ix (ix : seq ixitem) (rank : nat) : seq ixitem :=
  let used := sumn [seq consumes it | it <- ix] in
  let fill := nseq (rank - used) full in
  if has (fun it => if it is IEll then true else false) ix then
    flatten [seq (if it is IEll then fill else [:: it]) | it <- ix]
  else ix ++ fill.

(* a gather: result shape and, for every result element (row-major), the flat source offset *)
Definition gather := (shape * seq nat)%type.

(* per-axis selection: list of (is_kept_axis, selected source indices) *)
Definition norm_int (i : Z) (n : nat) : option nat :=
  let i' := if (i <? 0)%Z then (i + Z.of_nat n)%Z else i in
  if ((0 <=? i') && (i' <? Z.of_nat n))%Z then Some (Z.to_nat i') else None.

(* offsets of all selected elements, given the remaining source shape; base = offset accumulated so far *)
Fixpoint ix_gather (ix : seq ixitem) (s : shape) (base : nat) : option (shape * seq nat) :=
  match ix with
  | [::] => if s is [::] then Some ([::], [:: base]) else None
  | INew :: ix' => omap (fun r => (1 :: r.1, r.2)) (ix_gather ix' s base)
  | IEll :: ix' => None
  | IInt i :: ix' =>
      if s is n :: s' then
        if norm_int i n is Some k then ix_gather ix' s' (base + k * nelem s') else None
      else None
  | ISlice a b st :: ix' =>
      if s is n :: s' then
        let sel := slice_list a b st n in
        let subs := [seq ix_gather ix' s' (base + k * nelem s') | k <- sel] in
        if all isSome subs then
          let rs := [seq odflt ([::], [::]) o | o <- subs] in
          let sh := if ix_gather ix' s' 0 is Some r0 then r0.1 else [::] in
          Some (size sel :: sh, flatten [seq r.2 | r <- rs])
        else None
      else None
  end.
Definition st_ok (ix : seq ixitem) : bool :=
  all (fun it => if it is ISlice _ _ st then negb (Z.eqb st 0) else true) ix.
Definition getitem_gather (ix : seq ixitem) (s : shape) : option gather :=
  if st_ok ix then ix_gather (expand_ix ix (size s)) s 0 else None.

(* transpose with an axis permutation: result axis k is source axis (nth 0 perm k) *)
Definition transpose_gather (perm : seq nat) (s : shape) : gather :=
  let o := [seq nth 0 s a | a <- perm] in
  (o, [seq (let i := unravel o j in
            ravel s [seq nth 0 i (index a perm) | a <- iota 0 (size s)]) | j <- iota 0 (nelem o)]).
Definition reshape_gather (newshape : shape) (s : shape) : option gather :=
  if nelem newshape == nelem s then Some (newshape, iota 0 (nelem s)) else None.

(* apply a gather to flat data *)
Definition apply_gather (T : Type) (x0 : T) (g : gather) (data : seq T) : seq T := [seq nth x0 data o | o <- g.2].
(* write through a view: element k of vals goes to the parent cell g.2[k] *)
Definition scatter (T : Type) (x0 : T) (g : gather) (vals : seq T) (data : seq T) : seq T :=
  foldl (fun dat (ov : nat * T) => set_nth x0 dat ov.1 ov.2) data (zip g.2 vals).

(* ---------- UTPM values: shape and, for each direction p and element e (row major), a series ---------- *)
Section Utpm.
Variable K : fieldType.
Local Open Scope ring_scope.
Definition utpm := (shape * seq (seq (seq K)))%type.   (* (shape, [p][e] -> [x_0;...;x_{D-1}]) *)

Definition ser (x : utpm) (p e : nat) : seq K := nth [::] (nth [::] x.2 p) e.
Definition ndirs (x : utpm) : nat := size x.2.

(* a constant array (shape, values) acting as polynomials of degree zero, in every direction *)
Definition liftC (D P : nat) (c : shape * seq K) : utpm :=
  (c.1, nseq P [seq constS v D | v <- c.2]).

(* element-wise binary operation over NumPy-broadcast shapes, each direction separately *)
Definition binopU (op : seq K -> seq K -> seq K) (x y : utpm) : option utpm :=
  if bshape x.1 y.1 is Some o then
    Some (o, [seq [seq op (ser x p (bidx x.1 o j)) (ser y p (bidx y.1 o j)) | j <- iota 0 (nelem o)]
             | p <- iota 0 (ndirs x)])
  else None.
Definition unopU (op : seq K -> seq K) (x : utpm) : utpm := (x.1, [seq [seq op s | s <- dir] | dir <- x.2]).

(* shape manipulation acts on every (d,p) slice: apply the gather to the element axis *)
Definition gatherU (g : gather) (x : utpm) : utpm := (g.1, [seq apply_gather [::] g dir | dir <- x.2]).

Definition flatU (x : utpm) : seq K := flatten (flatten x.2).

(* the (d,p) coefficient slice as flat row-major data: what x.data[d,p] holds *)
Definition slice_dp (x : utpm) (d p : nat) : seq K := [seq s`_d | s <- nth [::] x.2 p].

(* x[ix] = rhs through the view g: per direction, the rhs series are written to the selected parent cells;
   a constant right-hand side sets the zeroth coefficient and clears the higher ones *)
Definition setitemU (g : gather) (rhs : seq (seq (seq K))) (x : utpm) : utpm :=
  (x.1, [seq scatter [::] g (nth [::] rhs p) (nth [::] x.2 p) | p <- iota 0 (ndirs x)]).
Definition setitem_constU (g : gather) (D : nat) (cs : seq K) (x : utpm) : utpm :=
  setitemU g (nseq (ndirs x) [seq constS c D | c <- cs]) x.
End Utpm.
