(* Stage A of the unbounded interpolation identity: the algebra (finite differences of monomials, sums over boxes,
   generalized Vandermonde, simplex interpolation of monomials). *)
From mathcomp Require Import all_ssreflect all_algebra.
From mathcomp Require Import ring zify.
From AlgoV Require Import Sums Interp InterpSpec.
Set Implicit Arguments. Unset Strict Implicit. Unset Printing Implicit Defensive.
Import GRing.Theory.
Local Open Scope ring_scope.
Local Arguments gbinom : simpl never.
Local Arguments iota : simpl never.

Section Alg.
Variable K : fieldType.
Hypothesis char0 : [char K] =i pred0.

Lemma natrK_eq0 n : (n%:R == 0 :> K) = (n == 0)%N.
Proof. by move/charf0P: char0 => ->. Qed.
Lemma natSK_neq0 n : n.+1%:R != 0 :> K.
Proof. by rewrite natrK_eq0. Qed.

(* ---------- A1: finite differences of monomials ---------- *)
Definition fdiff (m e : nat) : K := \sum_(k < m.+1) (-1) ^+ (m - k) * 'C(m, k)%:R * k%:R ^+ e.

Lemma fdiff_rec m e : fdiff m.+1 e.+1 = m.+1%:R * (fdiff m e + fdiff m.+1 e).
Proof.
have -> : fdiff m e = \sum_(k < m.+2) (-1) ^+ (m.+1 - k) * (- 'C(m, k)%:R) * k%:R ^+ e.
  rewrite [RHS]big_ord_recr /= bin_small // oppr0 mulr0 mul0r addr0.
  apply: eq_bigr => k _; rewrite subSn ?exprS; last by rewrite -ltnS.
  by ring.
rewrite /fdiff -big_split big_distrr; apply: eq_bigr => k _ /=.
have H : 'C(m.+1, k)%:R * k%:R = m.+1%:R * ('C(m.+1, k)%:R - 'C(m, k)%:R) :> K.
  case: (k : nat) => [|k']; first by rewrite !bin0 mulr0 subrr mulr0.
  have Hn: ('C(m.+1, k'.+1) * k'.+1 = m.+1 * 'C(m, k'))%N by rewrite mulnC -mul_bin_diag.
  by rewrite -natrM Hn natrM [in RHS]binS natrD [_ + _ - _]addrC addKr.
rewrite exprSr.
transitivity ((-1) ^+ (m.+1 - k) * k%:R ^+ e * ('C(m.+1, k)%:R * k%:R) : K); first by ring.
by rewrite H; ring.
Qed.

Lemma fdiff0 m : fdiff m.+1 0 = 0.
Proof.
rewrite /fdiff.
have := exprDn (-1 : K) 1 m.+1; rewrite addNr expr0n /= => H.
rewrite [RHS]H; apply: eq_bigr => k _.
by rewrite expr0 expr1n !mulr1 mulr_natr.
Qed.

Lemma fdiff_small e : forall m, (e < m)%N -> fdiff m e = 0
with fdiff_diag e : fdiff e e = e`!%:R.
Proof.
- case: e => [|e] [|m] // lt_em; first exact: fdiff0.
  by rewrite fdiff_rec !fdiff_small ?addr0 ?mulr0 // ltnW.
- case: e => [|e]; first by rewrite /fdiff big_ord1 expr0 bin0 !mulr1.
  by rewrite fdiff_rec fdiff_diag fdiff_small // addr0 factS natrM.
Qed.

(* ---------- sums over boxes 0 <= k <= i (componentwise), lexicographic enumeration ---------- *)
Fixpoint nbox (i : seq nat) : seq (seq nat) :=
  if i is a :: i' then flatten [seq [seq b :: t | t <- nbox i'] | b <- iota 0 a.+1] else [:: [::]].

Lemma nbox_cons a i : nbox (a :: i) = flatten [seq [seq b :: t | t <- nbox i] | b <- iota 0 a.+1].
Proof. by []. Qed.

Lemma big_nbox_cons a i (F : seq nat -> K) :
  \sum_(k <- nbox (a :: i)) F k = \sum_(b < a.+1) \sum_(t <- nbox i) F ((b : nat) :: t).
Proof.
rewrite nbox_cons big_flatten big_map -{1}[a.+1]subn0 -/(index_iota 0 a.+1) big_mkord.
by apply: eq_bigr => b _; rewrite big_map.
Qed.

Lemma box_prod i (G : nat -> nat -> K) :
  \sum_(k <- nbox i) \prod_(n < size i) G n (nth 0%N k n) =
  \prod_(n < size i) \sum_(b < (nth 0%N i n).+1) G n b.
Proof.
elim: i G => [|a i IH] G; first by rewrite /= big_seq1 !big_ord0.
rewrite big_nbox_cons [size _]/= [RHS]big_ord_recl [nth _ _ _]/= big_distrl /=.
apply: eq_bigr => b _.
rewrite -(IH (fun n => G n.+1)) big_distrr /=; apply: eq_bigr => t _.
by rewrite big_ord_recl.
Qed.

(* ---------- generalized binomials and falling factorials over K ---------- *)
Definition ffK (x : K) (m : nat) : K := \prod_(l < m) (x - l%:R).
Lemma ffK0 x : ffK x 0 = 1. Proof. by rewrite /ffK big_ord0. Qed.
Lemma ffKS x m : ffK x m.+1 = ffK x m * (x - m%:R). Proof. by rewrite /ffK big_ord_recr. Qed.

Lemma prod_fact j : \prod_(k < j) ((j - k)%:R : K) = j`!%:R.
Proof.
elim: j => [|j IH]; first by rewrite big_ord0 fact0.
rewrite big_ord_recl /= subn0 factS natrM; congr (_ * _); rewrite -IH.
by apply: eq_bigr => k _; rewrite /bump /= add1n subSS.
Qed.

Lemma factK_neq0 j : j`!%:R != 0 :> K.
Proof. by rewrite natrK_eq0 -lt0n fact_gt0. Qed.

Lemma gbinomE (x : K) j : gbinom x j = ffK x j / j`!%:R.
Proof. by rewrite /gbinom prodn_fE prodf_div prod_fact. Qed.

Lemma gbinom0 (x : K) : gbinom x 0 = 1. Proof. by []. Qed.

Lemma gbinomS (x : K) l : gbinom x l.+1 * l.+1%:R = (x - l%:R) * gbinom x l.
Proof.
rewrite !gbinomE ffKS factS natrM.
have := factK_neq0 l; have := natSK_neq0 l.
move: (l`!%:R) (l.+1%:R) (l%:R) (ffK x l) => a b c f Hb Ha.
by field; rewrite Ha Hb.
Qed.

Lemma ffK_nat m k : ffK m%:R k = (m ^_ k)%:R.
Proof.
elim: k => [|k IH]; first by rewrite ffK0 ffactn0.
rewrite ffKS ffactnSr natrM IH; case: (leqP k m) => [le_km|lt_mk]; first by rewrite natrB.
by rewrite ffact_small // !mul0r.
Qed.

Lemma gbinom_nat m k : gbinom (m%:R : K) k = 'C(m, k)%:R.
Proof. by rewrite gbinomE ffK_nat -bin_ffact natrM mulfK // factK_neq0. Qed.

Lemma gbinom_diag r : gbinom (r%:R : K) r = 1.
Proof. by rewrite gbinom_nat binn. Qed.

(* ---------- A3: generalized Vandermonde ---------- *)
Lemma gbinom_vandermonde (x y : K) r :
  \sum_(l < r.+1) gbinom x l * gbinom y (r - l) = gbinom (x + y) r.
Proof.
elim: r => [|r IH]; first by rewrite big_ord1 subn0 !gbinom0 mulr1.
apply: (mulIf (natSK_neq0 r)); rewrite gbinomS -IH.
rewrite big_distrl big_distrr /=.
transitivity (\sum_(l < r.+2) l%:R * gbinom x l * gbinom y (r.+1 - l)
              + \sum_(l < r.+2) gbinom x l * ((r.+1 - l)%:R * gbinom y (r.+1 - l))).
  rewrite -big_split /=; apply: eq_bigr => l _.
  have -> : r.+1%:R = l%:R + (r.+1 - l)%:R :> K by rewrite -natrD subnKC // -ltnS.
  by ring.
have -> : \sum_(l < r.+2) l%:R * gbinom x l * gbinom y (r.+1 - l) =
          \sum_(l < r.+1) (x - l%:R) * gbinom x l * gbinom y (r - l).
  rewrite big_ord_recl [nat_of_ord ord0]/= mulr0n !mul0r add0r; apply: eq_bigr => l _.
  by rewrite lift0 subSS [_.+1%:R * _]mulrC gbinomS.
have -> : \sum_(l < r.+2) gbinom x l * ((r.+1 - l)%:R * gbinom y (r.+1 - l)) =
          \sum_(l < r.+1) gbinom x l * ((y - (r - l)%:R) * gbinom y (r - l)).
  rewrite big_ord_recr /= subnn mulr0n mul0r mulr0 addr0; apply: eq_bigr => l _.
  have le_lr : (l <= r)%N by rewrite -ltnS.
  by rewrite subSn // [_.+1%:R * _]mulrC gbinomS.
rewrite -big_split /=; apply: eq_bigr => l _.
have -> : r%:R = l%:R + (r - l)%:R :> K by rewrite -natrD subnKC // -ltnS.
by ring.
Qed.

(* shifted binomial: C(x - m, b - m), zero when b < m *)
Definition sbin (x : K) (b m : nat) : K := if (m <= b)%N then gbinom (x - m%:R) (b - m) else 0.

Lemma sbin_vandermonde (x y : K) r m m' :
  \sum_(b < r.+1) sbin x b m * sbin y (r - b) m' = sbin (x + y) r (m + m').
Proof.
case: (leqP (m + m') r) => [le_r|lt_r]; last first.
  rewrite [sbin (x + y) _ _]/sbin leqNgt lt_r /=; apply: big1 => b _; rewrite /sbin.
  case: leqP => [le1|_]; last by rewrite mul0r.
  case: leqP => [le2|_]; last by rewrite mulr0.
  by exfalso; move: lt_r le1 le2; have := ltn_ord b; lia.
pose r' := (r - (m + m'))%N.
have Er' : r' = (r - (m + m'))%N by []. clearbody r'.
rewrite -(big_mkord xpredT (fun b => sbin x b m * sbin y (r - b) m')).
rewrite (@big_cat_nat _ _ _ m) /=; [|lia|lia].
rewrite big_nat big1 ?add0r; last first.
  by move=> b /andP[_ lt_bm]; rewrite /sbin leqNgt lt_bm mul0r.
rewrite (@big_cat_nat _ _ _ (m + r'.+1)) /=; [|lia|lia].
rewrite [X in _ + X]big_nat [X in _ + X]big1 ?addr0; last first.
  move=> b /andP[le_b lt_b]; rewrite /sbin [(m' <= _)%N]leqNgt.
  have -> : (r - b < m')%N by lia.
  by rewrite mulr0.
rewrite -{1}[m]add0n big_addn addKn big_mkord.
rewrite [sbin (x + y) _ _]/sbin le_r.
have -> : x + y - (m + m')%:R = (x - m%:R) + (y - m'%:R) by rewrite natrD; ring.
rewrite -gbinom_vandermonde -Er'; apply: eq_bigr => l _.
have lt_l := ltn_ord l.
rewrite /sbin leq_addl addnK.
have -> : (m' <= r - (l + m))%N by lia.
by congr (_ * gbinom _ _); lia.
Qed.

Lemma gen_miSS N d : gen_mi N.+2 d =
  flatten [seq [seq a :: t | t <- gen_mi N.+1 (d - a)] | a <- rev (iota 0 d.+1)].
Proof. by []. Qed.

Lemma big_gen_miS N d (F : seq nat -> K) :
  \sum_(j <- gen_mi N.+2 d) F j = \sum_(b < d.+1) \sum_(t <- gen_mi N.+1 (d - b)) F ((b : nat) :: t).
Proof.
rewrite gen_miSS big_flatten big_map (perm_big (iota 0 d.+1)) /=; last by rewrite perm_rev.
rewrite -{1}[d.+1]subn0 -/(index_iota 0 d.+1) big_mkord.
by apply: eq_bigr => b _; rewrite big_map.
Qed.

Lemma sbin_vandermonde_multi N (y : nat -> K) (m : nat -> nat) r :
  \sum_(j <- gen_mi N.+1 r) \prod_(n < N.+1) sbin (y n) (nth 0%N j n) (m n) =
  sbin (\sum_(n < N.+1) y n) r (\sum_(n < N.+1) m n).
Proof.
elim: N y m r => [|N IH] y m r; first by rewrite /= big_seq1 !big_ord1.
rewrite big_gen_miS [in RHS]big_ord_recl [X in sbin _ _ X]big_ord_recl -sbin_vandermonde.
apply: eq_bigr => b _.
rewrite -(IH (fun n => y n.+1) (fun n => m n.+1)) big_distrr /=; apply: eq_bigr => t _.
by rewrite big_ord_recl.
Qed.

(* ---------- Stirling numbers of the second kind: powers in terms of falling factorials ---------- *)
Fixpoint stir_rec (e m : nat) : nat :=
  match e, m with
  | 0, 0 => 1
  | 0, _.+1 => 0
  | e'.+1, 0 => 0
  | e'.+1, m'.+1 => m'.+1 * stir_rec e' m'.+1 + stir_rec e' m'
  end.
Definition stir := nosimpl stir_rec.
Lemma stir00 : stir 0 0 = 1%N. Proof. by []. Qed.
Lemma stirS0 e : stir e.+1 0 = 0%N. Proof. by []. Qed.
Lemma stirSS e m : stir e.+1 m.+1 = (m.+1 * stir e m.+1 + stir e m)%N. Proof. by []. Qed.

Lemma stir_small e m : (e < m)%N -> stir e m = 0%N.
Proof.
elim: e m => [|e IH] [|m] // lt_em.
by rewrite stirSS !IH ?muln0 // ltnW.
Qed.

Lemma pow_stir (t : K) e : t ^+ e = \sum_(m < e.+1) (stir e m)%:R * ffK t m.
Proof.
elim: e => [|e IH]; first by rewrite big_ord1 ffK0 expr0 stir00 mulr1.
rewrite exprS IH big_distrr /=.
transitivity (\sum_(m < e.+1) (stir e m)%:R * ffK t m.+1 + \sum_(m < e.+1) m%:R * (stir e m)%:R * ffK t m).
  by rewrite -big_split /=; apply: eq_bigr => m _; rewrite ffKS; ring.
rewrite [RHS]big_ord_recl stirS0 mul0r add0r.
have -> : \sum_(m < e.+1) m%:R * (stir e m)%:R * ffK t m =
          \sum_(m < e.+1) m.+1%:R * (stir e m.+1)%:R * ffK t m.+1.
  rewrite big_ord_recl /= mulr0n !mul0r add0r [RHS]big_ord_recr /= stir_small // mulr0n mulr0 mul0r addr0.
  by apply: eq_bigr => m _; rewrite /bump /= add1n.
rewrite -big_split /=; apply: eq_bigr => m _.
by rewrite /bump /= add1n stirSS natrD natrM; ring.
Qed.

Lemma ffK_add (z : K) m l : ffK z (m + l) = ffK z m * ffK (z - m%:R) l.
Proof.
elim: l => [|l IH]; first by rewrite addn0 ffK0 mulr1.
by rewrite addnS !ffKS IH natrD; ring.
Qed.

Lemma gbinom_ff (z : K) b m : gbinom z b * ffK b%:R m = ffK z m * sbin z b m.
Proof.
rewrite /sbin ffK_nat; case: leqP => [le_mb|lt_bm]; last by rewrite ffact_small // !mulr0.
rewrite !gbinomE -{1}(subnKC le_mb) ffK_add -(ffact_fact le_mb) natrM.
have := factK_neq0 b; rewrite -(ffact_fact le_mb) natrM mulf_eq0 negb_or => /andP[H1 H2].
move: H1 H2; move: (_ ^_ _)%:R (_`!)%:R (ffK z m) (ffK _ (b - m)) => u v f g H1 H2.
by field; rewrite H1 H2.
Qed.

(* membership in the box *)
Definition inbox (i k : seq nat) := (size k == size i) && all (fun p => p.1 <= p.2)%N (zip k i).

Lemma mem_nbox i k : (k \in nbox i) = inbox i k.
Proof.
elim: i k => [|a i IH] k; first by rewrite inE /inbox; case: k.
rewrite nbox_cons /inbox; apply/flatten_mapP/idP => [[b]|].
  rewrite mem_iota /= add0n ltnS => le_ba /mapP[t]; rewrite IH => /andP[szt allt] ->.
  by rewrite /= eqSS szt le_ba.
case: k => [|b t] //=; rewrite eqSS => /andP[szt /andP[le_ba allt]].
exists b; first by rewrite mem_iota /= add0n ltnS.
by apply/mapP; exists t => //; rewrite IH /inbox szt.
Qed.

Lemma inbox_size i k : inbox i k -> size k = size i.
Proof. by case/andP => /eqP. Qed.

Lemma inbox_nth i k n : inbox i k -> (nth 0 k n <= nth 0 i n)%N.
Proof.
rewrite /inbox; elim: i k n => [|a i IH] [|b k] //= n.
rewrite eqSS => /andP[szk /andP[le_ba allk]]; case: n => [|n] //=.
by apply: IH; rewrite szk.
Qed.

Lemma sumn_nth (s : seq nat) : sumn s = (\sum_(n < size s) nth 0 s n)%N.
Proof. by rewrite sumnE (big_nth 0%N) big_mkord. Qed.

Lemma box_prod' M i (G : nat -> nat -> K) : size i = M ->
  \sum_(k <- nbox i) \prod_(n < M) G n (nth 0%N k n) =
  \prod_(n < M) \sum_(b < (nth 0%N i n).+1) G n b.
Proof. by move=> <-; exact: box_prod. Qed.

(* ---------- A4: simplex interpolation of a monomial ---------- *)
Theorem simplex_interp_monomial N d (z : nat -> K) (a : seq nat) :
  size a = N.+1 -> sumn a = d -> \sum_(n < N.+1) z n = d%:R ->
  \sum_(j <- gen_mi N.+1 d) (\prod_(n < N.+1) gbinom (z n) (nth 0%N j n)) *
                             (\prod_(n < N.+1) (nth 0%N j n)%:R ^+ nth 0%N a n)
  = \prod_(n < N.+1) z n ^+ nth 0%N a n.
Proof.
move=> sza sma smz.
have powE (j : seq nat) : \prod_(n < N.+1) ((nth 0%N j n)%:R : K) ^+ nth 0%N a n =
    \sum_(m <- nbox a) \prod_(n < N.+1) ((stir (nth 0%N a n) (nth 0%N m n))%:R * ffK (nth 0%N j n)%:R (nth 0%N m n)).
  rewrite (box_prod' (fun n b => (stir (nth 0%N a n) b)%:R * ffK (nth 0%N j n)%:R b) sza).
  by apply: eq_bigr => n _; exact: pow_stir.
transitivity (\sum_(m <- nbox a) \prod_(n < N.+1) ((stir (nth 0%N a n) (nth 0%N m n))%:R * ffK (z n) (nth 0%N m n)));
  last first.
  rewrite (box_prod' (fun n b => (stir (nth 0%N a n) b)%:R * ffK (z n) b) sza).
  by apply: eq_bigr => n _; rewrite -pow_stir.
under eq_bigr => j _ do rewrite powE big_distrr /=.
rewrite exchange_big /= big_seq [RHS]big_seq; apply: eq_bigr => m; rewrite mem_nbox => m_in.
have le_md : (\sum_(n < N.+1) nth 0%N m n <= d)%N.
  by rewrite -sma sumn_nth sza; apply: leq_sum => n _; exact: inbox_nth.
transitivity (\sum_(j <- gen_mi N.+1 d)
   (\prod_(n < N.+1) ((stir (nth 0%N a n) (nth 0%N m n))%:R * ffK (z n) (nth 0%N m n))) *
   \prod_(n < N.+1) sbin (z n) (nth 0%N j n) (nth 0%N m n)).
  apply: eq_bigr => j _; rewrite -!big_split /=; apply: eq_bigr => n _.
  by rewrite mulrCA gbinom_ff; ring.
rewrite -big_distrr /= (sbin_vandermonde_multi N z (fun n => nth 0%N m n)) smz.
by rewrite /sbin le_md -natrB // gbinom_diag mulr1.
Qed.

(* ---------- normal forms of the Interp.v definitions ---------- *)
Lemma mi_binomial_map (f : nat -> K) k j :
  mi_binomial [seq f c | c <- k] j = \prod_(n < size k) gbinom (f (nth 0%N k n)) (nth 0%N j n).
Proof.
rewrite /mi_binomial prodn_fE size_map; apply: eq_bigr => n _.
by rewrite (nth_map 0%N).
Qed.

Lemma mi_binomial_nat i k :
  mi_binomial [seq (c%:R : K) | c <- i] k = \prod_(n < size i) 'C(nth 0%N i n, nth 0%N k n)%:R.
Proof. by rewrite mi_binomial_map; apply: eq_bigr => n _; exact: gbinom_nat. Qed.

Lemma mi_powE j a : mi_pow K j a = \prod_(n < size j) (nth 0%N j n)%:R ^+ nth 0%N a n.
Proof. by rewrite /mi_pow prodn_fE. Qed.

Lemma mi_factorialE i : mi_factorial K i = \prod_(n < size i) (nth 0%N i n)`!%:R.
Proof. by rewrite /mi_factorial prodn_fE. Qed.

Lemma mi_abs_sub i k :
  mi_abs [seq (nth 0%N i n - nth 0%N k n)%N | n <- iota 0 (size i)] =
  (\sum_(n < size i) (nth 0%N i n - nth 0%N k n))%N.
Proof. by rewrite /mi_abs sumnE big_map -{1}[size i]subn0 -/(index_iota 0 (size i)) big_mkord. Qed.

(* ---------- A5, first half: summing alpha against a monomial over the simplex ---------- *)
Definition kterm (i k a : seq nat) (N : nat) : K :=
  (-1) ^+ (\sum_(n < N) (nth 0%N i n - nth 0%N k n))%N *
  (\prod_(n < N) 'C(nth 0%N i n, nth 0%N k n)%:R) *
  (\prod_(n < N) (nth 0%N k n)%:R ^+ nth 0%N a n).

Lemma alpha_sum N d i a k : (0 < d)%N ->
  size i = N.+1 -> sumn i = d -> size a = N.+1 -> sumn a = d -> size k = N.+1 ->
  \sum_(j <- gen_mi N.+1 d) alpha K i j k d * mi_pow K j a = kterm i k a N.+1.
Proof.
move=> d0 szi smi sza sma szk; rewrite /kterm.
have sma' : (\sum_(n < N.+1) nth 0%N a n)%N = d by rewrite -sma sumn_nth sza.
have smk' : (\sum_(n < N.+1) nth 0%N k n)%N = sumn k by rewrite sumn_nth szk.
have E j : j \in gen_mi N.+1 d -> alpha K i j k d * mi_pow K j a =
   (-1) ^+ (\sum_(n < N.+1) (nth 0%N i n - nth 0%N k n))%N *
   (\prod_(n < N.+1) 'C(nth 0%N i n, nth 0%N k n)%:R) * ((sumn k)%:R / d%:R) ^+ d *
   ((\prod_(n < N.+1) gbinom ((d * nth 0%N k n)%:R / (sumn k)%:R) (nth 0%N j n)) *
    \prod_(n < N.+1) (nth 0%N j n)%:R ^+ nth 0%N a n).
  rewrite gen_mi_complete => /andP[/eqP szj _].
  rewrite /alpha mi_abs_sub mi_binomial_nat
    (mi_binomial_map (fun c => (d * c)%:R / (mi_abs k)%:R)) mi_powE szi szk szj /mi_abs smi.
  by rewrite -!mulrA; do 2 congr (_ * _); rewrite mulrCA.
rewrite big_seq (eq_bigr _ E) -big_seq -big_distrr /=.
case: (eqVneq (sumn k) 0%N) => [k0|kn0].
- rewrite k0 mul0r expr0n eqn0Ngt d0 /= mulr0 mul0r.
  have kn n : nth 0%N k n = 0%N.
    by move/eqP/natnseq0P: k0 => ->; rewrite nth_nseq if_same.
  under [X in _ * X]eq_bigr => n _ do rewrite kn.
  by rewrite prodrXr sma' expr0n eqn0Ngt d0 /= mulr0.
- have sn0 : (sumn k)%:R != 0 :> K by rewrite natrK_eq0.
  have dn0 : d%:R != 0 :> K by rewrite natrK_eq0 -lt0n.
  rewrite (@simplex_interp_monomial N d (fun n => (d * nth 0%N k n)%:R / (sumn k)%:R) a sza sma); last first.
    by rewrite -mulr_suml -natr_sum -big_distrr /= smk' natrM mulfK.
  have -> : \prod_(n < N.+1) ((d * nth 0%N k n)%:R / (sumn k)%:R : K) ^+ nth 0%N a n =
            (d%:R / (sumn k)%:R) ^+ d * \prod_(n < N.+1) (nth 0%N k n)%:R ^+ nth 0%N a n.
    rewrite -sma' -prodrXr -big_split /=; apply: eq_bigr => n _.
    by rewrite -exprMn natrM; congr (_ ^+ _); ring.
  rewrite mulrA -[_ * _ ^+ d * _ ^+ d]mulrA -exprMn.
  have -> : (sumn k)%:R / d%:R * (d%:R / (sumn k)%:R) = 1 :> K by field; rewrite sn0 dn0.
  by rewrite expr1n mulr1.
Qed.

(* ---------- A2: finite differences over the box ---------- *)
Lemma pointwise_eq M (i a : seq nat) : size i = M -> size a = M -> sumn i = sumn a ->
  (forall n : 'I_M, nth 0 i n <= nth 0 a n)%N -> i = a.
Proof.
move=> szi sza sm le_ia.
have H := leqif_sum (P := xpredT) (fun n _ => leqif_eq (le_ia n)).
have E1 : (\sum_(n < M) nth 0 i n)%N = sumn i by rewrite sumn_nth szi.
have E2 : (\sum_(n < M) nth 0 a n)%N = sumn a by rewrite sumn_nth sza.
have := H.2; rewrite E1 E2 sm eqxx => /esym/forallP Hall.
apply: (@eq_from_nth _ 0%N); first by rewrite szi sza.
by move=> n; rewrite szi => lt_n; exact/eqP/(Hall (Ordinal lt_n)).
Qed.

Lemma fdiff_prod N (i a : seq nat) : size i = N -> size a = N -> sumn i = sumn a ->
  \prod_(n < N) fdiff (nth 0%N i n) (nth 0%N a n) = (i == a)%:R * \prod_(n < N) (nth 0%N i n)`!%:R.
Proof.
move=> szi sza sm; case: eqP => [<-|ne_ia].
  by rewrite mul1r; apply: eq_bigr => n _; rewrite fdiff_diag.
rewrite mul0r.
case: (boolP [forall n : 'I_N, nth 0 i n <= nth 0 a n]%N) => [/forallP H|].
  by case: ne_ia; exact: (pointwise_eq szi sza sm H).
rewrite negb_forall => /existsP[n]; rewrite -ltnNge => lt_n.
by rewrite (bigD1 n) //= fdiff_small // mul0r.
Qed.

Theorem box_findiff N (i a : seq nat) : size i = N -> size a = N -> sumn i = sumn a ->
  \sum_(k <- nbox i) kterm i k a N = (i == a)%:R * mi_factorial K i.
Proof.
move=> szi sza sm; rewrite mi_factorialE szi -fdiff_prod //.
rewrite -(box_prod' (fun n b => (-1) ^+ (nth 0%N i n - b) * 'C(nth 0%N i n, b)%:R * b%:R ^+ nth 0%N a n) szi).
apply: eq_bigr => k _.
by rewrite /kterm expr_sum -!big_split.
Qed.

(* ---------- A5: the algebraic identity, the loop replaced by the sum over the box ---------- *)
Lemma mi_factorial_neq0 i : mi_factorial K i != 0.
Proof. by rewrite mi_factorialE; apply/prodf_neq0 => n _; exact: factK_neq0. Qed.

Theorem gamma_algebra N d (i a : seq nat) : (0 < d)%N ->
  size i = N.+1 -> sumn i = d -> size a = N.+1 -> sumn a = d ->
  \sum_(j <- gen_mi N.+1 d) (\sum_(k <- nbox i) alpha K i j k d) / mi_factorial K i * mi_pow K j a
  = (i == a)%:R.
Proof.
move=> d0 szi smi sza sma.
transitivity ((\sum_(k <- nbox i) \sum_(j <- gen_mi N.+1 d) alpha K i j k d * mi_pow K j a) / mi_factorial K i).
  rewrite exchange_big /= mulr_suml; apply: eq_bigr => j _.
  by rewrite mulrAC mulr_suml.
rewrite big_seq.
under eq_bigr => k.
  rewrite mem_nbox => /inbox_size; rewrite szi => szk.
  rewrite (alpha_sum d0 szi smi sza sma szk).
over.
by rewrite -big_seq box_findiff ?smi // mulfK // mi_factorial_neq0.
Qed.

End Alg.
