(* The tall QR recurrence satisfies Q(t) R(t) = A(t), Q(t)^T Q(t) = I modulo t^D with every R_d upper triangular, for every m >= n
   (in fact every m, n), every D, every field with 2 != 0, whenever the base factors satisfy the factorization at order 0; and the
   executable list-matrix instance refines the mathcomp instance. *)
From mathcomp Require Import all_ssreflect all_algebra.
From AlgoV Require Import Sums Series Matrix MatrixFact MatrixSpec FactSpec QRSpec QRTall.
Set Implicit Arguments. Unset Strict Implicit. Unset Printing Implicit Defensive.
Import GRing.Theory.
Local Open Scope ring_scope.
Local Arguments mkseq : simpl never.
Local Arguments iota : simpl never.

Section QRTallSpec.
Variable K : fieldType.
Variables m n : nat.
Hypothesis char2 : (2%:R : K) != 0.
Notation MQ := 'M[K]_(m, n).
Notation MR := 'M[K]_n.

Theorem qrtM_size (A : seq MQ) (Q0 : MQ) (R0 Rinv : MR) : size (qrtM A Q0 R0 Rinv) = size A.
Proof. by rewrite /qrtM QRSpec.size_seriesT. Qed.

(* one order of the recurrence: the algebra *)
Lemma qrt_core (Q0 : MQ) (R0 Rinv : MR) (H : MQ) (dG : MR) :
  Q0^T *m Q0 = 1%:M -> is_upper R0 -> R0 *m Rinv = 1%:M -> dG^T = dG ->
  let S := halfM dG in
  let X0 := tril1M (Q0^T *m H *m Rinv - S) in
  let X := X0 - X0^T in
  let Kk := S + X in
  let RD := Q0^T *m H - Kk *m R0 in
  let QD := (H - Q0 *m RD) *m Rinv in
  [/\ Q0 *m RD + QD *m R0 = H, Q0^T *m QD + QD^T *m Q0 = dG & is_upper RD].
Proof.
move=> QtQ uR0 RRi dGs S X0 X Kk RD QD.
have RiR : Rinv *m R0 = 1%:M by apply: mulmx1C.
split.
- by rewrite /QD -mulmxA RiR mulmx1 addrC subrK.
- have E : Q0^T *m QD = Kk.
    rewrite /QD mulmxA mulmxBr mulmxA QtQ mul1mx /RD opprB addrC subrK.
    by rewrite -mulmxA RRi mulmx1.
  have -> : QD^T *m Q0 = Kk^T.
    by rewrite -E [RHS]trmx_mul trmxK.
  rewrite E.
  have St : S^T = S by rewrite /S halfM_tr dGs.
  have Xt : X^T = - X by rewrite /X raddfB /= trmxK opprB.
  by rewrite /Kk raddfD /= St Xt addrACA subrr addr0 halfM_double.
- have -> : RD = (RD *m Rinv) *m R0 by rewrite -mulmxA RiR mulmx1.
  apply: is_upper_mul => // i j lt_ji.
  rewrite /RD mulmxBl -[Kk *m R0 *m Rinv]mulmxA RRi mulmx1 /Kk /X /X0 !mxE lt_ji.
  by rewrite ltnNge (ltnW lt_ji) /= subr0 [_ + (_ - _)]addrC subrK subrr.
Qed.

Lemma dGt_sym (Qf : nat -> MQ) N :
  (\sum_(1 <= c < N) (Qf c)^T *m Qf (N - c)%N)^T = \sum_(1 <= c < N) (Qf c)^T *m Qf (N - c)%N.
Proof.
rewrite raddf_sum /= [RHS]big_nat_rev /=; apply: eq_big_nat => c /andP[c1 cN].
by rewrite trmx_mul trmxK add1n subSS subKn // ltnW.
Qed.

Lemma qrt_stepE (A : seq MQ) (Q0 : MQ) (R0 Rinv : MR) (cf : nat -> MQ * MR) D :
  qrt_stepM A Q0 R0 Rinv (mkseq cf D.+1) =
  let dF := \sum_(1 <= c < D.+1) (cf c).1 *m (cf (D.+1 - c)%N).2 in
  let dG := - \sum_(1 <= c < D.+1) ((cf c).1)^T *m (cf (D.+1 - c)%N).1 in
  let H := A`_D.+1 - dF in
  let S := halfM dG in
  let X0 := tril1M (Q0^T *m H *m Rinv - S) in
  let X := X0 - X0^T in
  let Kk := S + X in
  let RD := Q0^T *m H - Kk *m R0 in
  ((H - Q0 *m RD) *m Rinv, RD).
Proof.
rewrite /qrt_stepM size_mkseq.
rewrite (MatrixSpec.foldl_addE (fun d => (nth (0, 0) (mkseq cf D.+1) d).1 *m (nth (0, 0) (mkseq cf D.+1) (D.+1 - d)).2)).
rewrite (MatrixSpec.foldl_subE (fun d => ((nth (0, 0) (mkseq cf D.+1) d).1)^T *m (nth (0, 0) (mkseq cf D.+1) (D.+1 - d)).1)).
rewrite !add0r add1n.
have -> : \sum_(1 <= c < D.+1) (nth (0, 0) (mkseq cf D.+1) c).1 *m (nth (0, 0) (mkseq cf D.+1) (D.+1 - c)).2
        = \sum_(1 <= c < D.+1) (cf c).1 *m (cf (D.+1 - c)%N).2.
  apply: eq_big_nat => c /andP[c1 cD].
  by rewrite !nth_mkseq // ltn_subrL c1.
have -> : \sum_(1 <= c < D.+1) ((nth (0, 0) (mkseq cf D.+1) c).1)^T *m (nth (0, 0) (mkseq cf D.+1) (D.+1 - c)).1
        = \sum_(1 <= c < D.+1) ((cf c).1)^T *m (cf (D.+1 - c)%N).1.
  apply: eq_big_nat => c /andP[c1 cD].
  by rewrite !nth_mkseq // ltn_subrL c1.
by [].
Qed.

Definition qrt_cf (A : seq MQ) (Q0 : MQ) (R0 Rinv : MR) : nat -> MQ * MR :=
  QRSpec.tcoef (0, 0) (qrt_stepM A Q0 R0 Rinv) (Q0, R0).

Lemma nth_qrtM (A : seq MQ) (Q0 : MQ) (R0 Rinv : MR) d : (d < size A)%N ->
  nth (0, 0) (qrtM A Q0 R0 Rinv) d = qrt_cf A Q0 R0 Rinv d.
Proof. by move=> lt_d; rewrite /qrtM QRSpec.nth_seriesT. Qed.

Lemma qrt_cf_spec (A : seq MQ) (Q0 : MQ) (R0 Rinv : MR) :
  Q0^T *m Q0 = 1%:M -> is_upper R0 -> Q0 *m R0 = A`_0 -> R0 *m Rinv = 1%:M ->
  let cf := qrt_cf A Q0 R0 Rinv in
  forall d,
  \sum_(c < d.+1) (cf c).1 *m (cf (d - c)%N).2 = A`_d /\
  \sum_(c < d.+1) ((cf c).1)^T *m (cf (d - c)%N).1 = (d == 0%N)%:R%:M /\
  is_upper (cf d).2.
Proof.
move=> QtQ uR0 QR0 RRi cf.
have cf0 : cf 0%N = (Q0, R0) by [].
case=> [|D].
  by rewrite !big_ord_recl !big_ord0 !addr0 subn0 cf0 /=.
have cfS : cf D.+1 = _ := QRSpec.tcoefS _ _ _ D.
rewrite qrt_stepE -/(qrt_cf A Q0 R0 Rinv) -/cf in cfS.
move: cfS.
set dF := \sum_(1 <= c < D.+1) _.
set sG := \sum_(1 <= c < D.+1) _.
move=> cfS.
have sGs : (- sG)^T = - sG by rewrite raddfN /= dGt_sym.
have [] := @qrt_core Q0 R0 Rinv (A`_D.+1 - dF) (- sG) QtQ uR0 RRi sGs.
move: cfS => /=.
set RD := (_ - _ *m R0).
move=> cfS Ea Eb Ec.
split; last split.
- rewrite big_ord_recl big_ord_recr /= subn0 subnn cf0 cfS /=.
  rewrite addrCA addrC Ea /dF big_add1 /= big_mkord.
  by rewrite subrK.
- rewrite big_ord_recl big_ord_recr /= subn0 subnn cf0 cfS /=.
  rewrite addrCA addrC Eb /sG big_add1 /= big_mkord addNr.
  by rewrite raddf0.
- by rewrite cfS.
Qed.

Theorem qrtM_spec (A : seq MQ) (Q0 : MQ) (R0 Rinv : MR) :
  Q0^T *m Q0 = 1%:M -> is_upper R0 -> Q0 *m R0 = A`_0 -> R0 *m Rinv = 1%:M ->
  let QR := qrtM A Q0 R0 Rinv in
  forall d, (d < size A)%N ->
  \sum_(c < d.+1) (nth (0, 0) QR c).1 *m (nth (0, 0) QR (d - c)).2 = A`_d /\
  \sum_(c < d.+1) ((nth (0, 0) QR c).1)^T *m (nth (0, 0) QR (d - c)).1 = (d == 0%N)%:R%:M /\
  is_upper (nth (0, 0) QR d).2.
Proof.
move=> QtQ uR0 QR0 RRi QR d lt_d.
have [Ea [Eb Ec]] := qrt_cf_spec QtQ uR0 QR0 RRi d.
have lt_c (c : 'I_d.+1) : (c < size A)%N by apply: leq_trans (ltn_ord c) lt_d.
have lt_dc (c : 'I_d.+1) : (d - c < size A)%N by apply: leq_ltn_trans lt_d; apply: leq_subr.
split; last split.
- by rewrite -[RHS]Ea; apply: eq_bigr => c _; rewrite /QR !nth_qrtM.
- by rewrite -[RHS]Eb; apply: eq_bigr => c _; rewrite /QR !nth_qrtM.
- by rewrite /QR nth_qrtM.
Qed.
End QRTallSpec.

Section QRTallRefine.
Variable K : fieldType.
Variables m n : nat.
Definition moq (p : mx K * mx K) : 'M[K]_(m, n) * 'M[K]_n := (mx_of m n p.1, mx_of n n p.2).
Lemma mx_of_mtril1_sq (A : mx K) : mx_of n n (mtril1 n n A) = tril1M (mx_of n n A).
Proof. by rewrite /mtril1 mx_of_mkmx; apply/matrixP => i j; rewrite !mxE. Qed.
Lemma mx_of_mhalf_sq (A : mx K) : mx_of n n (mhalf n A) = halfM (mx_of n n A).
Proof. by rewrite /mhalf /mscale mx_of_mkmx; apply/matrixP => i j; rewrite !mxE. Qed.

Lemma nth_moq (s : seq (mx K * mx K)) d :
  moq (nth (mzero K m n, mzero K n n) s d) = nth (0, 0) [seq moq p | p <- s] d.
Proof.
case: (ltnP d (size s)) => [lt_d|le_d]; first by rewrite (nth_map (mzero K m n, mzero K n n)).
by rewrite !nth_default ?size_map // /moq /= !mx_of_mzero.
Qed.
Lemma nth_moq_1 (s : seq (mx K * mx K)) d :
  mx_of m n (nth (mzero K m n, mzero K n n) s d).1 = (nth (0, 0) [seq moq p | p <- s] d).1.
Proof. by rewrite -nth_moq. Qed.
Lemma nth_moq_2 (s : seq (mx K * mx K)) d :
  mx_of n n (nth (mzero K m n, mzero K n n) s d).2 = (nth (0, 0) [seq moq p | p <- s] d).2.
Proof. by rewrite -nth_moq. Qed.

Lemma moq_foldl_add (f : nat -> mx K) (G : nat -> 'M[K]_(m, n)) a l : (forall c, mx_of m n (f c) = G c) ->
  mx_of m n (foldl (fun acc c => madd m n acc (f c)) a l) = foldl (fun acc c => acc + G c) (mx_of m n a) l.
Proof. by move=> H; elim: l a => //= c l IH a; rewrite IH mx_of_madd H. Qed.
Lemma moq_foldl_sub (f : nat -> mx K) (G : nat -> 'M[K]_n) a l : (forall c, mx_of n n (f c) = G c) ->
  mx_of n n (foldl (fun acc c => msub n n acc (f c)) a l) = foldl (fun acc c => acc - G c) (mx_of n n a) l.
Proof. by move=> H; elim: l a => //= c l IH a; rewrite IH mx_of_msub H. Qed.

Theorem qrtU_refines (A : seq (mx K)) (Q0 R0 Rinv : mx K) :
  [seq moq p | p <- qrtU m n A Q0 R0 Rinv]
  = qrtM [seq mx_of m n a | a <- A] (mx_of m n Q0) (mx_of n n R0) (mx_of n n Rinv).
Proof.
rewrite /qrtU /qrtM size_map.
apply: (@map_seriesT _ _ moq) => QRs.
rewrite /qrt_stepU /qrt_stepM size_map /moq /=.
rewrite !(mx_of_mmul, mx_of_madd, mx_of_msub, mx_of_mtr, mx_of_mtril1_sq, mx_of_mhalf_sq, nth_mzero_mx_of).
rewrite (@moq_foldl_add _ (fun d => (nth (0, 0) [seq (mx_of m n p.1, mx_of n n p.2) | p <- QRs] d).1 *m
                                     (nth (0, 0) [seq (mx_of m n p.1, mx_of n n p.2) | p <- QRs] (size QRs - d)).2)); last first.
  by move=> c; rewrite mx_of_mmul nth_moq_1 nth_moq_2.
rewrite (@moq_foldl_sub _ (fun d => ((nth (0, 0) [seq (mx_of m n p.1, mx_of n n p.2) | p <- QRs] d).1)^T *m
                                     (nth (0, 0) [seq (mx_of m n p.1, mx_of n n p.2) | p <- QRs] (size QRs - d)).1)) ?mx_of_mzero //.
by move=> c; rewrite mx_of_mmul mx_of_mtr !nth_moq_1.
Qed.
End QRTallRefine.

