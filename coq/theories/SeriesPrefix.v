From mathcomp Require Import all_ssreflect all_algebra.
From AlgoV Require Import Sums Series SeriesBase SeriesSpec.
Set Implicit Arguments. Unset Strict Implicit. Unset Printing Implicit Defensive.
Import GRing.Theory.
Local Open Scope ring_scope.
Local Arguments mkseq : simpl never.

Section Prefix.
Variable K : fieldType.
Implicit Types (xs ys fp : seq K).

(* ---------- helpers ---------- *)
Lemma eq_mkseq_lt (f g : nat -> K) n :
  (forall i, (i < n)%N -> f i = g i) -> mkseq f n = mkseq g n.
Proof.
move=> H; apply: (@eq_from_nth _ 0); rewrite !size_mkseq // => i lt_i.
by rewrite !nth_mkseq // H.
Qed.

Lemma series1_mkseq (step : seq K -> K) (y0 : K) xs :
  series1 step y0 xs = mkseq (ucoef step y0) (size xs).
Proof. by case: xs => [|a xs] //; rewrite /series1 unfold1_mkseq. Qed.

Lemma series2_mkseq (sy sz : seq K -> seq K -> K) (y0 z0 : K) xs :
  series2 sy sz y0 z0 xs =
  (mkseq (ucoefy sy sz y0 z0) (size xs), mkseq (ucoefz sy sz y0 z0) (size xs)).
Proof. by case: xs => [|a xs] //; rewrite /series2 unfold2_mkseq. Qed.

Lemma eq_ucoef_lt (step step' : seq K -> K) (y0 : K) n :
  (forall zs, (size zs < n)%N -> step zs = step' zs) ->
  forall d, (d < n)%N -> ucoef step y0 d = ucoef step' y0 d.
Proof.
move=> H; elim/ltn_ind => -[|d] IH lt_d //.
rewrite !ucoefS H ?size_mkseq //; congr step'.
apply: eq_mkseq_lt => i lt_i; apply: IH => //.
exact: ltn_trans lt_i lt_d.
Qed.

Lemma eq_ucoef2_lt (sy sz sy' sz' : seq K -> seq K -> K) (y0 z0 : K) n :
  (forall ys zs, size ys = size zs -> (size ys < n)%N -> sy ys zs = sy' ys zs) ->
  (forall ys zs, size ys = (size zs).+1 -> (size zs < n)%N -> sz ys zs = sz' ys zs) ->
  forall d, (d < n)%N ->
    ucoefy sy sz y0 z0 d = ucoefy sy' sz' y0 z0 d /\
    ucoefz sy sz y0 z0 d = ucoefz sy' sz' y0 z0 d.
Proof.
move=> Hy Hz; elim/ltn_ind => -[|d] IH lt_d //.
have eqy : mkseq (ucoefy sy sz y0 z0) d.+1 = mkseq (ucoefy sy' sz' y0 z0) d.+1.
  apply: eq_mkseq_lt => i lt_i.
  by have [] := IH i lt_i (ltn_trans lt_i lt_d).
have eqz : mkseq (ucoefz sy sz y0 z0) d.+1 = mkseq (ucoefz sy' sz' y0 z0) d.+1.
  apply: eq_mkseq_lt => i lt_i.
  by have [] := IH i lt_i (ltn_trans lt_i lt_d).
have ey : ucoefy sy sz y0 z0 d.+1 = ucoefy sy' sz' y0 z0 d.+1.
  by rewrite !ucoefyS Hy ?size_mkseq // eqy eqz.
split=> //.
rewrite !ucoefzS Hz ?size_mkseq // eqz; congr sz'.
apply: eq_mkseq_lt => i; rewrite ltnS leq_eqVlt => /orP[/eqP-> //|lt_i].
by have [] := IH i lt_i (ltn_trans lt_i lt_d).
Qed.

(* generic: truncating the input of a course-of-values recursion truncates its output, provided the step
   functions agree on every prefix shorter than n *)
Theorem series1_take (step step' : seq K -> K) (y0 : K) xs n : (0 < n <= size xs)%N ->
  (forall zs, (size zs < n)%N -> step zs = step' zs) ->
  take n (series1 step y0 xs) = series1 step' y0 (take n xs).
Proof.
move=> /andP[_ le_n] H.
rewrite !series1_mkseq take_mkseq // size_takel //.
by apply: eq_mkseq_lt => i lt_i; apply: eq_ucoef_lt lt_i.
Qed.

Theorem series2_take (sy sz sy' sz' : seq K -> seq K -> K) (y0 z0 : K) xs n : (0 < n <= size xs)%N ->
  (forall ys zs, size ys = size zs -> (size ys < n)%N -> sy ys zs = sy' ys zs) ->
  (forall ys zs, size ys = (size zs).+1 -> (size zs < n)%N -> sz ys zs = sz' ys zs) ->
  take n (series2 sy sz y0 z0 xs).1 = (series2 sy' sz' y0 z0 (take n xs)).1 /\
  take n (series2 sy sz y0 z0 xs).2 = (series2 sy' sz' y0 z0 (take n xs)).2.
Proof.
move=> /andP[_ le_n] Hy Hz.
rewrite !series2_mkseq [(_, _).1]/= [(_, _).2]/= [(_, _).1]/= [(_, _).2]/=.
rewrite !take_mkseq // size_takel //.
by split; apply: eq_mkseq_lt => i lt_i;
  have [] := eq_ucoef2_lt y0 z0 Hy Hz lt_i.
Qed.

(* every kernel: the first n coefficients of the result only depend on the first n coefficients of the inputs *)
Theorem addS_take xs ys n : (n <= size xs)%N -> take n (addS xs ys) = addS (take n xs) (take n ys).
Proof.
move=> le_n; rewrite /addS take_mkseq // size_takel //.
by apply: eq_mkseq_lt => i lt_i; rewrite !nth_take.
Qed.

Theorem subS_take xs ys n : (n <= size xs)%N -> take n (subS xs ys) = subS (take n xs) (take n ys).
Proof.
move=> le_n; rewrite /subS take_mkseq // size_takel //.
by apply: eq_mkseq_lt => i lt_i; rewrite !nth_take.
Qed.

Theorem mulS_take xs ys n : (n <= size xs)%N -> take n (mulS xs ys) = mulS (take n xs) (take n ys).
Proof.
move=> le_n; rewrite /mulS take_mkseq // size_takel //.
apply: eq_mkseq_lt => i lt_i; apply: eq_sumn_f => c; rewrite ltnS => le_c.
rewrite !nth_take //; first exact: leq_ltn_trans (leq_subr _ _) lt_i.
exact: leq_ltn_trans le_c lt_i.
Qed.

Theorem squareS_take xs n : (n <= size xs)%N -> take n (squareS xs) = squareS (take n xs).
Proof.
move=> le_n; rewrite /squareS take_mkseq // size_takel //.
apply: eq_mkseq_lt => d lt_d; cbv zeta.
have lt_dh : (d.+1 %/ 2 < d.+1)%N by rewrite ltn_Pdiv.
have lt_dhn : (d.+1 %/ 2 < n)%N by apply: leq_trans lt_d.
rewrite !(nth_take _ lt_dhn); congr (_ + _).
case: d lt_d lt_dh {lt_dhn} => // d lt_d lt_dh; apply: eq_sumn_f => c lt_c.
rewrite !nth_take //; first exact: leq_ltn_trans (leq_subr _ _) lt_d.
by apply: leq_trans lt_d; exact: ltn_trans lt_c lt_dh.
Qed.

Theorem divS_take xs ys n : (0 < n <= size xs)%N -> take n (divS xs ys) = divS (take n xs) (take n ys).
Proof.
move=> /andP[n0 le_n]; rewrite /divS !(nth_take _ n0).
apply: series1_take; first by rewrite n0.
move=> zs lt_zs; rewrite /div_step; cbv zeta.
rewrite !(nth_take _ n0) (nth_take _ lt_zs); congr (_ * (_ - _)).
apply: eq_sumn_f => c lt_c; rewrite nth_take //.
exact: leq_ltn_trans (leq_subr _ _) lt_zs.
Qed.

Theorem recipS_take ys n : (0 < n <= size ys)%N -> take n (recipS ys) = recipS (take n ys).
Proof.
move=> /andP[n0 le_n]; rewrite /recipS !(nth_take _ n0).
apply: series1_take; first by rewrite n0.
move=> zs lt_zs; rewrite /recip_step; cbv zeta.
rewrite !(nth_take _ n0); congr (_ * (_ - _)).
apply: eq_sumn_f => c lt_c; rewrite nth_take //.
exact: leq_ltn_trans (leq_subr _ _) lt_zs.
Qed.

Theorem sqrtS_take xs (s0 : K) n : (0 < n <= size xs)%N -> take n (sqrtS xs s0) = sqrtS (take n xs) s0.
Proof.
move=> /andP[n0 le_n]; rewrite /sqrtS.
apply: series1_take; first by rewrite n0.
by move=> zs lt_zs; rewrite /sqrt_step; cbv zeta; rewrite (nth_take _ lt_zs).
Qed.

Theorem powS_take xs (r p0 : K) n : (0 < n <= size xs)%N -> take n (powS xs r p0) = powS (take n xs) r p0.
Proof.
move=> /andP[n0 le_n]; rewrite /powS.
apply: series1_take; first by rewrite n0.
move=> zs lt_zs; rewrite /pow_step /sum1; cbv zeta.
rewrite (nth_take _ n0); congr (_ / _ / _); congr (_ - _); [congr (_ * _)|];
  apply: eq_sumn_f => k lt_k; rewrite nth_take //.
  exact: leq_ltn_trans lt_k lt_zs.
exact: leq_ltn_trans (leq_subr _ _) lt_zs.
Qed.

Theorem expS_take xs (e0 : K) n : (0 < n <= size xs)%N -> take n (expS xs e0) = expS (take n xs) e0.
Proof.
move=> /andP[n0 le_n]; rewrite /expS.
apply: series1_take; first by rewrite n0.
move=> zs lt_zs; rewrite /exp_step; cbv zeta; congr (_ / _).
apply: eq_sumn_f => k lt_k; rewrite nth_take //.
exact: leq_ltn_trans lt_k lt_zs.
Qed.

Theorem logS_take xs (l0 : K) n : (0 < n <= size xs)%N -> take n (logS xs l0) = logS (take n xs) l0.
Proof.
move=> /andP[n0 le_n]; rewrite /logS; cbv zeta.
rewrite take_mkseq // size_takel //.
have <- : take n (series1 (log_step xs) l0 xs) = series1 (log_step (take n xs)) l0 (take n xs).
  apply: series1_take; first by rewrite n0.
  move=> zs lt_zs; rewrite /log_step /sum1; cbv zeta.
  rewrite (nth_take _ n0) (nth_take _ lt_zs); congr ((_ - _) / _).
  apply: eq_sumn_f => k lt_k; rewrite nth_take //.
  exact: leq_ltn_trans (leq_subr _ _) lt_zs.
by apply: eq_mkseq_lt => d lt_d; rewrite !nth_take.
Qed.

Lemma sin_step_take xs n (ss cs : seq K) : (size ss < n)%N ->
  sin_step xs ss cs = sin_step (take n xs) ss cs.
Proof.
move=> lt_s; rewrite /sin_step /sum1; cbv zeta; congr (_ / _).
apply: eq_sumn_f => k lt_k; rewrite nth_take //.
exact: leq_ltn_trans lt_k lt_s.
Qed.

Lemma asin_step_take xs n (ys zs : seq K) : (size ys < n)%N ->
  asin_step xs ys zs = asin_step (take n xs) ys zs.
Proof. by move=> lt_s; rewrite /asin_step; cbv zeta; rewrite (nth_take _ lt_s). Qed.

Theorem sincosS_take xs (s0 c0 : K) n : (0 < n <= size xs)%N ->
  take n (sincosS xs s0 c0).1 = (sincosS (take n xs) s0 c0).1 /\ take n (sincosS xs s0 c0).2 = (sincosS (take n xs) s0 c0).2.
Proof.
move=> Hn; have /andP[n0 le_n] := Hn; rewrite /sincosS.
apply: series2_take => // [ss cs _ lt_s|ss cs _ lt_s]; first exact: sin_step_take.
rewrite /cos_step /sum1; cbv zeta; congr (_ / _).
apply: eq_sumn_f => k lt_k; rewrite nth_take //.
exact: leq_ltn_trans lt_k lt_s.
Qed.

Theorem sinhcoshS_take xs (s0 c0 : K) n : (0 < n <= size xs)%N ->
  take n (sinhcoshS xs s0 c0).1 = (sinhcoshS (take n xs) s0 c0).1 /\ take n (sinhcoshS xs s0 c0).2 = (sinhcoshS (take n xs) s0 c0).2.
Proof.
move=> Hn; have /andP[n0 le_n] := Hn; rewrite /sinhcoshS.
apply: series2_take => // [ss cs _ lt_s|ss cs _ lt_s]; first exact: sin_step_take.
rewrite /cosh_step /sum1; cbv zeta; congr (_ / _).
apply: eq_sumn_f => k lt_k; rewrite nth_take //.
exact: leq_ltn_trans lt_k lt_s.
Qed.

Lemma tan_step_take xs n (ys zs : seq K) : (size ys < n)%N ->
  tan_step xs ys zs = tan_step (take n xs) ys zs.
Proof.
move=> lt_s; rewrite /tan_step /sum1; cbv zeta; congr (_ / _).
apply: eq_sumn_f => k lt_k; rewrite nth_take //.
exact: leq_ltn_trans lt_k lt_s.
Qed.

Theorem tansec2S_take xs (t0 z0 : K) n : (0 < n <= size xs)%N ->
  take n (tansec2S xs t0 z0).1 = (tansec2S (take n xs) t0 z0).1 /\ take n (tansec2S xs t0 z0).2 = (tansec2S (take n xs) t0 z0).2.
Proof.
move=> Hn; rewrite /tansec2S.
by apply: series2_take => // ys zs _ lt_s; exact: tan_step_take.
Qed.

Theorem tanhsech2S_take xs (t0 : K) n : (0 < n <= size xs)%N ->
  take n (tanhsech2S xs t0).1 = (tanhsech2S (take n xs) t0).1 /\ take n (tanhsech2S xs t0).2 = (tanhsech2S (take n xs) t0).2.
Proof.
move=> Hn; rewrite /tanhsech2S.
by apply: series2_take => // ys zs _ lt_s; exact: tan_step_take.
Qed.

Theorem arcsinS_take xs (y0 z0 : K) n : (0 < n <= size xs)%N ->
  take n (arcsinS xs y0 z0).1 = (arcsinS (take n xs) y0 z0).1 /\ take n (arcsinS xs y0 z0).2 = (arcsinS (take n xs) y0 z0).2.
Proof.
move=> Hn; rewrite /arcsinS.
apply: series2_take => // [ys zs _ lt_s|ys zs _ lt_s]; first exact: asin_step_take.
rewrite /asinz_step /sum1; cbv zeta; congr (- _ / _).
apply: eq_sumn_f => k lt_k; rewrite nth_take //.
exact: leq_ltn_trans (leq_subr _ _) lt_s.
Qed.

Theorem arctanS_take xs (y0 : K) n : (0 < n <= size xs)%N ->
  take n (arctanS xs y0).1 = (arctanS (take n xs) y0).1 /\ take n (arctanS xs y0).2 = (arctanS (take n xs) y0).2.
Proof.
move=> Hn; have /andP[n0 le_n] := Hn; rewrite /arctanS !(nth_take _ n0).
apply: series2_take => // [ys zs _ lt_s|ys zs _ lt_s]; first exact: asin_step_take.
rewrite /atanz_step /sum1; cbv zeta; congr (_ * _ / _).
apply: eq_sumn_f => k lt_k; rewrite !nth_take //.
  exact: leq_ltn_trans (leq_subr _ _) lt_s.
exact: leq_ltn_trans lt_k lt_s.
Qed.

Theorem bfwfS_take (f0 : K) fp xs n : (0 < n <= size xs)%N ->
  take n (bfwfS f0 fp xs) = bfwfS f0 (take n fp) (take n xs).
Proof.
move=> Hn; rewrite /bfwfS.
apply: series1_take => // zs lt_zs; rewrite /bfwf_step; cbv zeta; congr (_ / _).
apply: eq_sumn_f => c lt_c; rewrite !nth_take //.
  exact: leq_ltn_trans lt_c lt_zs.
exact: leq_ltn_trans (leq_subr _ _) (leq_ltn_trans (leq_pred _) lt_zs).
Qed.

Theorem expm1S_take xs (e0 em0 : K) n : (0 < n <= size xs)%N -> take n (expm1S xs e0 em0) = expm1S (take n xs) e0 em0.
Proof. by move=> Hn; rewrite /expm1S bfwfS_take // expS_take. Qed.

(* D = 1 reproduces the plain function value *)
Theorem expS_D1 (x0 e0 : K) : expS [:: x0] e0 = [:: e0].
Proof. by []. Qed.
Theorem mulS_D1 (x0 y0 : K) : mulS [:: x0] [:: y0] = [:: x0 * y0].
Proof. by rewrite /mulS /mkseq /= add0r. Qed.
Theorem divS_D1 (x0 y0 : K) : divS [:: x0] [:: y0] = [:: y0^-1 * (x0 - 0)].
Proof. by []. Qed.
End Prefix.
