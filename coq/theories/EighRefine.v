(* The executable list-matrix instance eighU of the eigh kernel (Eigh.v, run by vm_compute) refines the 'M[K]_n instance
   eighM for which EighSpec.v proves the defining equations. *)
From mathcomp Require Import all_ssreflect all_algebra.
From AlgoV Require Import Sums Series Matrix MatrixFact MatrixSpec FactSpec DetSpec Eigh.
Set Implicit Arguments. Unset Strict Implicit. Unset Printing Implicit Defensive.
Import GRing.Theory.
Local Open Scope ring_scope.
Local Arguments mkseq : simpl never.
Local Arguments iota : simpl never.

Section EighRefine.
Variable K : fieldType.
Variable n : nat.
Notation mo := (mx_of n n).
Notation mo2 := (@mo2 K n).

Lemma mx_of_mhad (A B : mx K) : mo (mhad n n A B) = hadM (mo A) (mo B).
Proof. by rewrite /mhad mx_of_mkmx; apply/matrixP => i j; rewrite !mxE. Qed.
Lemma mx_of_mdiagpart (A : mx K) : mo (mdiagpart n A) = diagpartM (mo A).
Proof. by rewrite /mdiagpart mx_of_mkmx; apply/matrixP => i j; rewrite !mxE. Qed.

(* the skipping accumulator loop of truncated_triple_dot under mx_of *)
Lemma mo_foldl2_skip (f : nat -> nat -> mx K) (G : nat -> nat -> 'M[K]_n) (p : nat -> nat -> bool)
    (s2 : nat -> seq nat) (s1 : seq nat) (a : mx K) :
  (forall i j, mo (f i j) = G i j) ->
  mo (foldl (fun acc i => foldl (fun acc' j => if p i j then acc' else madd n n acc' (f i j)) acc (s2 i)) a s1) =
  foldl (fun acc i => foldl (fun acc' j => if p i j then acc' else addM acc' (G i j)) acc (s2 i)) (mo a) s1.
Proof.
move=> H; elim: s1 a => [|i s1 IH] a //=; rewrite IH; congr (foldl _ _ s1).
elim: (s2 i) a => [|j l IH'] a //=; rewrite IH'; congr (foldl _ _ l).
by case: (p i j) => //; rewrite mx_of_madd H.
Qed.

Lemma mo_triple_dotK (X Y Z : nat -> mx K) (X' Y' Z' : nat -> 'M[K]_n) D :
  (forall i, mo (X i) = X' i) -> (forall i, mo (Y i) = Y' i) -> (forall i, mo (Z i) = Z' i) ->
  mo (triple_dotK (mzero K n n) (madd n n) (mmul n n n) X Y Z D) = triple_dotK 0 (@addM K n) (@mulM K n) X' Y' Z' D.
Proof.
move=> HX HY HZ; rewrite /triple_dotK.
rewrite (@mo_foldl2_skip _ (fun i j => mulM (mulM (X' i) (Y' j)) (Z' (D - i - j)%N))) ?mx_of_mzero //.
by move=> i j; rewrite !mx_of_mmul HX HY HZ.
Qed.

Theorem eighU_refines (A : seq (mx K)) (Q0 L0 H : mx K) :
  [seq mo2 p | p <- eighU n A Q0 L0 H] = eighM [seq mo a | a <- A] (mo Q0) (mo L0) (mo H).
Proof.
rewrite /eighU /eighM /eighK size_map.
apply: (@map_seriesT _ _ mo2) => QLs.
rewrite /eigh_step size_map /DetSpec.mo2 /=.
rewrite !(mx_of_mmul, mx_of_madd, mx_of_msub, mx_of_mtr, mx_of_mhad, mx_of_mdiagpart, mx_of_mhalf, mx_of_mzero,
          nth_mzero_mx_of).
rewrite (@mo_triple_dotK _ _ _ (fun i => trM (nth (0, 0) [seq (mo p.1, mo p.2) | p <- QLs] i).1)
                               (fun j => [seq mo a | a <- A]`_j)
                               (fun k => (nth (0, 0) [seq (mo p.1, mo p.2) | p <- QLs] k).1)); first last.
- by move=> i; rewrite nth_mo2_1.
- by move=> i; rewrite nth_mzero_mx_of.
- by move=> i; rewrite mx_of_mtr nth_mo2_1.
rewrite (@mo_foldl_add _ _ _ (fun d => mulM (trM (nth (0, 0) [seq (mo p.1, mo p.2) | p <- QLs] d).1)
                                         (nth (0, 0) [seq (mo p.1, mo p.2) | p <- QLs] (size QLs - d)).1)) ?mx_of_mzero //.
by move=> c; rewrite mx_of_mmul mx_of_mtr !nth_mo2_1.
Qed.
End EighRefine.
