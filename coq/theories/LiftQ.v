(* MODEL and specification of lift_Q, the re-orthonormalisation helper inside _eigh (algopy/utpm/algorithms.py):
     def lift_Q(Q, d, D):  for k in range(d, D):  S = sum_{i=1}^{k-1} Q[i].T Q[k-i];  Q[k] = -0.5 * dot(Q[0], S)
   Given coefficients Q_0 .. Q_{d-1} with sum_{i+j=k} Q_i^T Q_j = delta_k I for k < d, the extension to D coefficients
   satisfies the same identity for every k < D, over every field with 2 != 0, and keeps the given coefficients. *)
From mathcomp Require Import all_ssreflect all_algebra.
From AlgoV Require Import Sums Series Matrix MatrixFact MatrixSpec FactSpec QRSpec QRTall QRTallSpec.
Set Implicit Arguments. Unset Strict Implicit. Unset Printing Implicit Defensive.
Import GRing.Theory.
Local Open Scope ring_scope.
Local Arguments mkseq : simpl never.
Local Arguments iota : simpl never.

Section LiftQ.
Variable K : fieldType.
Variable n : nat.
Notation M := 'M[K]_n.

(* one pass of the loop body: k = size Qs *)
Definition liftQ_step (Qs : seq M) : M :=
  let k := size Qs in
  let S := foldl (fun acc i => acc + (Qs`_i)^T *m Qs`_(k - i)) 0 (iota 1 k.-1) in
  (- 2%:R^-1) *: (Qs`_0 *m S).
Fixpoint liftQ_iter (j : nat) (Qs : seq M) : seq M :=
  if j is j'.+1 then liftQ_iter j' (rcons Qs (liftQ_step Qs)) else Qs.
(* for k in range(size Q, D) *)
Definition liftQM (Q : seq M) (D : nat) : seq M := liftQ_iter (D - size Q) Q.

Definition orthoS (Qs : seq M) : Prop :=
  forall k, (k < size Qs)%N -> \sum_(c < k.+1) (Qs`_c)^T *m Qs`_(k - c) = (k == 0%N)%:R%:M.

Lemma size_liftQ_iter j Qs : size (liftQ_iter j Qs) = (size Qs + j)%N.
Proof. by elim: j Qs => [|j IH] Qs /=; rewrite ?addn0 // IH size_rcons addSnnS. Qed.

Lemma take_liftQ_iter j Qs : take (size Qs) (liftQ_iter j Qs) = Qs.
Proof.
elim: j Qs => [|j IH] Qs /=; first by rewrite take_size.
have := IH (rcons Qs (liftQ_step Qs)); rewrite size_rcons => /(congr1 (take (size Qs))).
rewrite take_take // => ->.
by rewrite -cats1 take_size_cat.
Qed.

Theorem size_liftQM Q D : size (liftQM Q D) = maxn (size Q) D.
Proof. by rewrite /liftQM size_liftQ_iter maxnE. Qed.

Theorem take_liftQM Q D : take (size Q) (liftQM Q D) = Q.
Proof. exact: take_liftQ_iter. Qed.

Hypothesis char2 : (2%:R : K) != 0.

Lemma liftQ_step_ok Qs : (0 < size Qs)%N -> orthoS Qs -> orthoS (rcons Qs (liftQ_step Qs)).
Proof.
move=> gt0 HQ k; rewrite size_rcons ltnS leq_eqVlt => /orP[/eqP->|lt_k]; last first.
  rewrite -[RHS](HQ k lt_k); apply: eq_bigr => c _.
  have lt_c : (c < size Qs)%N by apply: leq_trans (ltn_ord c) lt_k.
  have lt_kc : (k - c < size Qs)%N by apply: leq_ltn_trans (leq_subr _ _) lt_k.
  by rewrite !nth_rcons lt_c lt_kc.
have QtQ : (Qs`_0)^T *m Qs`_0 = 1%:M.
  by have := HQ 0%N gt0; rewrite big_ord_recl big_ord0 addr0 subnn /=.
set X := liftQ_step Qs.
case E : (size Qs) gt0 => [//|N] _.
rewrite big_ord_recl big_ord_recr /= subn0 subnn.
rewrite !nth_rcons E ltnn eqxx /=.
have -> : \sum_(i < N) ((rcons Qs X)`_(bump 0 i))^T *m (rcons Qs X)`_(N.+1 - bump 0 i)
        = \sum_(1 <= c < N.+1) (Qs`_c)^T *m Qs`_(N.+1 - c).
  rewrite big_add1 /= big_mkord; apply: eq_bigr => c _.
  by rewrite /bump /= add1n !nth_rcons E subSS !ltnS ltn_ord leq_subr.
set S := \sum_(1 <= c < N.+1) _.
have St : S^T = S by apply: dGt_sym.
have XE : X = (- 2%:R^-1) *: (Qs`_0 *m S).
  rewrite /X /liftQ_step E /=.
  by rewrite (MatrixSpec.foldl_addE (fun i => (Qs`_i)^T *m Qs`_(N.+1 - i))) add0r add1n.
rewrite XE -scalemxAr mulmxA QtQ mul1mx linearZ /= trmx_mul St -scalemxAl -mulmxA QtQ mulmx1.
rewrite addrCA -scalerDl -opprD -[X in X + X]mul1r -mulrDl -[1 + 1]/(2%:R) divff // scaleN1r.
by rewrite subrr; apply/matrixP => i j; rewrite !mxE mul0rn.
Qed.

Lemma liftQ_iter_ok j Qs : (0 < size Qs)%N -> orthoS Qs -> orthoS (liftQ_iter j Qs).
Proof.
elim: j Qs => [|j IH] Qs //= gt0 HQ; apply: IH; first by rewrite size_rcons.
exact: liftQ_step_ok.
Qed.

(* the extended sequence is orthonormal modulo t^D, and the given coefficients are kept *)
Theorem liftQ_spec (Q : seq M) (D : nat) :
  (0 < size Q)%N ->
  (forall k, (k < size Q)%N -> \sum_(c < k.+1) (Q`_c)^T *m Q`_(k - c) = (k == 0%N)%:R%:M) ->
  (forall k, (k < D)%N -> \sum_(c < k.+1) ((liftQM Q D)`_c)^T *m (liftQM Q D)`_(k - c) = (k == 0%N)%:R%:M)
  /\ take (size Q) (liftQM Q D) = Q /\ size (liftQM Q D) = maxn (size Q) D.
Proof.
move=> gt0 HQ; split; last by rewrite take_liftQM size_liftQM.
move=> k lt_k; apply: (@liftQ_iter_ok (D - size Q) Q gt0 HQ).
by rewrite -/(liftQM Q D) size_liftQM leq_max lt_k orbT.
Qed.
End LiftQ.
