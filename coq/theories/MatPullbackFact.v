(* The hand-written reverse-mode ("pullback") rules of AlgoPy's three matrix FACTORIZATIONS (utpm.py UTPM.pb_lu,
   _pb_cholesky, _qr_rectangular_pullback in the square case) are the ADJOINTS of the differentials of the factorizations,
   for the pairing  <A, B> = tr (A^T B)  of MatPullback.v.
   The differential of a factorization is defined implicitly by the linearised constraints (e.g. dA = dL U + L dU with dL
   strictly lower and dU upper), so every theorem quantifies over ALL tangent tuples satisfying the linearised constraints.
   Inverses are always given as matrices together with their inverse equations, never computed. *)
From mathcomp Require Import all_ssreflect all_algebra.
From AlgoV Require Import Sums Series Matrix MatrixFact MatrixSpec MatPullback FactSpec.
Set Implicit Arguments. Unset Strict Implicit. Unset Printing Implicit Defensive.
Import GRing.Theory.
Local Open Scope ring_scope.

Section MatPullbackFact.
Variable K : fieldType.
Variable n : nat.
Notation M := 'M[K]_n.

(* ===== the pairing entry by entry, and against triangular matrices ===== *)
Lemma ipE (A B : M) : ip A B = \sum_i \sum_j A i j * B i j.
Proof.
rewrite /ip /mxtrace.
under eq_bigr => i _ do (rewrite mxE; under eq_bigr => j _ do rewrite mxE).
by rewrite exchange_big.
Qed.

Lemma ip_ext (A A' B : M) : (forall i j, A i j * B i j = A' i j * B i j) -> ip A B = ip A' B.
Proof. by move=> H; rewrite !ipE; apply: eq_bigr => i _; apply: eq_bigr => j _. Qed.

Lemma ip0l (B : M) : ip (0 : M) B = 0.
Proof. by rewrite /ip trmx0 mul0mx mxtrace0. Qed.

Lemma ipDl (A B C : M) : ip (A + B) C = ip A C + ip B C.
Proof. by rewrite ipC ipDr ![ip C _]ipC. Qed.

(* a strictly lower triangular matrix only sees the strictly lower part of the other argument ... *)
Lemma ip_tril1_strict (X Y : M) : is_strict_lower Y -> ip (tril1M X) Y = ip X Y.
Proof.
move=> HY; apply: ip_ext => i j; rewrite mxE; case: ltnP => // le_ij.
by rewrite HY // !mulr0.
Qed.

Lemma ip_triu_strict (X Y : M) : is_strict_lower Y -> ip (triuM X) Y = 0.
Proof.
move=> HY; rewrite -(ip0l Y); apply: ip_ext => i j; rewrite !mxE; case: leqP => // le_ij.
by rewrite HY // !mulr0.
Qed.

(* ... and an upper triangular matrix only the upper part *)
Lemma ip_triu_upper (X Y : M) : is_upper Y -> ip (triuM X) Y = ip X Y.
Proof.
move=> HY; apply: ip_ext => i j; rewrite mxE; case: leqP => // lt_ji.
by rewrite HY // !mulr0.
Qed.

Lemma ip_tril1_upper (X Y : M) : is_upper Y -> ip (tril1M X) Y = 0.
Proof.
move=> HY; rewrite -(ip0l Y); apply: ip_ext => i j; rewrite !mxE; case: ltnP => // lt_ji.
by rewrite HY // !mulr0.
Qed.

(* ===== (1) LU with a row permutation:  A = W L U ===== *)
(* UTPM.pb_lu:  v1 = tril(dot(L.T, Lbar), -1) + triu(dot(Ubar, U.T), 0);  v2 = solve(L.T, v1);
                v3 = solve(U, v2.T).T;  Abar = dot(W, v3) *)
Theorem pb_lu_adjoint (W L U Li Ui Lbar Ubar dL dU : M) :
  W^T *m W = 1%:M ->
  L *m Li = 1%:M -> Li *m L = 1%:M -> U *m Ui = 1%:M -> Ui *m U = 1%:M ->
  is_lower Li -> is_upper Ui ->
  is_strict_lower dL -> is_upper dU ->
  let v1 := tril1M (L^T *m Lbar) + triuM (Ubar *m U^T) in
  let v3 := Li^T *m v1 *m Ui^T in
  let Abar := W *m v3 in
  let dA := W *m (dL *m U + L *m dU) in
  ip Lbar dL + ip Ubar dU = ip Abar dA.
Proof.
move=> WW LLi LiL UUi UiU HLi HUi HdL HdU v1 v3 Abar dA.
have E : Li *m ((dL *m U + L *m dU) *m Ui) = Li *m dL + dU *m Ui.
  by rewrite mulmxDl mulmxDr -!mulmxA UUi mulmx1 [Li *m (L *m _)]mulmxA LiL mul1mx.
have -> : ip Abar dA = ip v1 (Li *m dL + dU *m Ui).
  by rewrite /Abar /dA ip_mulr mulmxA WW mul1mx /v3 -ip_mull -ip_mulr E.
have HsL : is_strict_lower (Li *m dL) by apply: lower_mul_strict.
have HuU : is_upper (dU *m Ui) by apply: upper_mul.
rewrite ipDr /v1 !ipDl ip_tril1_strict // ip_triu_strict // ip_tril1_upper // ip_triu_upper //.
rewrite addr0 add0r; congr (_ + _).
  by rewrite -ip_mulr mulmxA LLi mul1mx.
by rewrite -ip_mull -mulmxA UiU mulmx1.
Qed.

(* ===== (2) Cholesky:  A = L L^T ===== *)
Hypothesis char2 : (2%:R : K) != 0.

Lemma ip_lowhalf_sym (X N : M) : is_lower N -> ip ((lowhalfM X)^T + lowhalfM X) N = ip X N.
Proof.
move=> HN; apply: ip_ext => i j; rewrite !mxE -!val_eqE /=.
case: (ltngtP i j) => [lt_ij|lt_ji|eq_ij].
- by rewrite HN // !mulr0.
- by rewrite add0r.
have -> : j = i by apply/val_inj.
by rewrite (half2 char2).
Qed.

(* _pb_cholesky:  Proj = strictly lower ones + 0.5 identity;  tmp = Proj * dot(L.T, Lbar);  tmp = 0.5 (tmp.T + tmp);
                  Abar = dot(dot(Li.T, tmp), Li) *)
Theorem pb_cholesky_adjoint (L Li Lbar dL : M) :
  L *m Li = 1%:M -> Li *m L = 1%:M -> is_lower Li -> is_lower dL ->
  let Phi := lowhalfM (L^T *m Lbar) in
  let Sym := 2%:R^-1 *: (Phi^T + Phi) in
  let Abar := Li^T *m Sym *m Li in
  let dA := dL *m L^T + L *m dL^T in
  ip Lbar dL = ip Abar dA.
Proof.
move=> LLi LiL HLi HdL Phi Sym Abar dA.
pose N := Li *m dL.
have HN : is_lower N by apply: lower_mul.
have HS : Sym^T = Sym by rewrite /Sym linearZ /= linearD /= trmxK addrC.
have E : Li *m (dA *m Li^T) = N + N^T.
  rewrite /dA mulmxDl mulmxDr; congr (_ + _).
    by rewrite -[dL *m L^T *m Li^T]mulmxA -trmx_mul LiL trmx1 mulmx1.
  by rewrite -[L *m dL^T *m Li^T]mulmxA mulmxA LiL mul1mx -trmx_mul.
have -> : ip Abar dA = ip Sym (N + N^T).
  have -> : Abar = (Li^T *m Sym) *m (Li^T)^T by rewrite trmxK.
  by rewrite -ip_mull -ip_mulr E.
have SS : Sym + Sym = Phi^T + Phi.
  by rewrite /Sym -scalerDl -[2%:R^-1]mulr1 (half2 char2) scale1r.
rewrite ipDr ip_tr HS -ipDl SS ip_lowhalf_sym // /N.
by rewrite -ip_mulr mulmxA LLi mul1mx.
Qed.

(* ===== (3) QR, square and full rank:  A = Q R ===== *)
Lemma double_inj (x y : K) : x + x = y + y -> x = y.
Proof.
have E (z : K) : z + z = 2%:R * z by rewrite mulr_natl mulr2n.
by rewrite (E x) (E y) => /(mulfI char2).
Qed.

(* the antisymmetric matrix V^T - V is its strictly lower part minus the transpose of that part *)
Lemma tril1_antisym (V : M) : tril1M (V^T - V) - (tril1M (V^T - V))^T = V^T - V.
Proof.
apply/matrixP => i j; rewrite !mxE; case: (ltngtP i j) => [lt_ij|lt_ji|eq_ij].
- by rewrite sub0r opprB.
- by rewrite subr0.
have -> : j = i by apply/val_inj.
by rewrite !subrr.
Qed.

Lemma ip_tril1_antisym (V Om : M) : Om^T = - Om -> ip (tril1M (V^T - V)) Om = - ip V Om.
Proof.
move=> HOm; apply: double_inj.
have -> : ip (tril1M (V^T - V)) Om + ip (tril1M (V^T - V)) Om = ip (V^T - V) Om.
  by rewrite -[in RHS]tril1_antisym ipDl ipNl -ip_tr HOm ipNr opprK.
by rewrite ipDl ipNl -ip_tr HOm ipNr.
Qed.

(* _qr_rectangular_pullback with M = N:  V = dot(Qbar.T, Q) - dot(R, Rbar.T);  PL = strictly lower ones;
                                         Abar = dot(Q, Rbar + dot(PL * (V.T - V), inv(R).T)) *)
Theorem pb_qr_adjoint (Q R Ri Qbar Rbar dQ dR : M) :
  Q^T *m Q = 1%:M -> Q *m Q^T = 1%:M -> R *m Ri = 1%:M -> is_upper Ri ->
  (Q^T *m dQ)^T = - (Q^T *m dQ) -> is_upper dR ->
  let V := Qbar^T *m Q - R *m Rbar^T in
  let Abar := Q *m (Rbar + tril1M (V^T - V) *m Ri^T) in
  let dA := dQ *m R + Q *m dR in
  ip Qbar dQ + ip Rbar dR = ip Abar dA.
Proof.
move=> QtQ QQt RRi HRi HOm HdR V Abar dA.
set Om := Q^T *m dQ in HOm.
have dQE : dQ = Q *m Om by rewrite /Om mulmxA QQt mul1mx.
have -> : ip Abar dA = ip (Rbar + tril1M (V^T - V) *m Ri^T) (Om *m R + dR).
  by rewrite /Abar /dA ipC ip_mulr ipC mulmxDr !mulmxA QtQ mul1mx.
have HuR : is_upper (dR *m Ri) by apply: upper_mul.
have E1 : ip (R *m Rbar^T) Om = - ip (Rbar *m R^T) Om.
  by rewrite -[R *m Rbar^T]trmxK trmx_mul trmxK -ip_tr HOm ipNr.
have E2 : ip (Qbar^T *m Q) Om = - ip Qbar dQ.
  by rewrite -[Qbar^T *m Q]trmxK trmx_mul trmxK -ip_tr HOm ipNr -ip_mulr -dQE.
rewrite ipDl.
have -> : ip (tril1M (V^T - V) *m Ri^T) (Om *m R + dR) = - ip V Om.
  rewrite -ip_mull mulmxDl -[Om *m R *m Ri]mulmxA RRi mulmx1 ipDr (ip_tril1_upper _ HuR) addr0.
  exact: ip_tril1_antisym.
have -> : ip Rbar (Om *m R + dR) = ip (Rbar *m R^T) Om + ip Rbar dR by rewrite ipDr ip_mull.
rewrite /V ipDl ipNl E1 E2.
set a := ip Qbar dQ; set b := ip Rbar dR; set c := ip _ Om.
by rewrite opprK opprD opprK [a - c]addrC addrAC addrA subrr add0r.
Qed.

End MatPullbackFact.
