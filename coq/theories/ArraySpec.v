(* PROOFS about Array.v: broadcasting rule, row-major index arithmetic, gathers. *)
From mathcomp Require Import all_ssreflect all_algebra.
From AlgoV Require Import Sums Series Array.
Set Implicit Arguments. Unset Strict Implicit. Unset Printing Implicit Defensive.

Lemma bshape_rev_nil r : bshape_rev r [::] = Some r.
Proof. by case: r. Qed.

Lemma bshape_rev_sym r1 r2 : bshape_rev r1 r2 = bshape_rev r2 r1.
Proof.
elim: r1 r2 => [|a r1 IH] [|b r2] //=; rewrite IH.
case: (altP (a =P b)) => [->|ne_ab] /=; first by rewrite eqxx.
rewrite [b == a]eq_sym (negPf ne_ab) /=.
case: (altP (b =P 1)) => [b1|nb1]; case: (altP (a =P 1)) => [a1|na1] //.
by move: ne_ab; rewrite a1 b1 eqxx.
Qed.

Lemma bshape_rev_refl r : bshape_rev r r = Some r.
Proof. by elim: r => //= a r ->; rewrite eqxx. Qed.

Theorem bshape_sym s1 s2 : bshape s1 s2 = bshape s2 s1.
Proof. by rewrite /bshape bshape_rev_sym. Qed.
Theorem bshape_refl s : bshape s s = Some s.
Proof. by rewrite /bshape bshape_rev_refl /= revK. Qed.
Theorem bshape_scalar s : bshape s [::] = Some s.
Proof. by rewrite /bshape bshape_rev_nil /= revK. Qed.

(* row-major index arithmetic: ravel and unravel are mutually inverse on in-range indices *)
Lemma nelem_gt0 s : all (fun n => 0 < n) s -> 0 < nelem s.
Proof. by elim: s => //= n s IH /andP[n0 /IH]; rewrite muln_gt0 n0. Qed.

Theorem ravel_unravel s j : j < nelem s -> ravel s (unravel s j) = j.
Proof.
elim: s j => [|n s IH] j /=; first by rewrite ltnS leqn0 => /eqP.
move=> lt_j; have [z|nz] := posnP (nelem s); first by move: lt_j; rewrite z muln0.
by rewrite IH ?ltn_pmod // -divn_eq.
Qed.

Theorem unravel_ravel s idx : size idx = size s -> all2 (fun i n => i < n) idx s ->
  unravel s (ravel s idx) = idx.
Proof.
elim: s idx => [|n s IH] [|i idx] //= [sz] /andP[lt_i Hall].
have lt_r : ravel s idx < nelem s.
  elim: s idx sz Hall {IH} => [|m s IH2] [|k idx] //= [sz] /andP[lt_k Hall].
  have := IH2 _ sz Hall => lt_r.
  apply: (@leq_trans (k.+1 * nelem s)); last by rewrite leq_mul2r lt_k orbT.
  by rewrite mulSn [X in _ < X]addnC ltn_add2l.
have pos : 0 < nelem s by apply: leq_ltn_trans lt_r.
by rewrite divnMDl // divn_small // addn0 modnMDl modn_small // IH.
Qed.

Lemma size_unravel s j : size (unravel s j) = size s.
Proof. by elim: s j => //= n s IH j; rewrite IH. Qed.

(* ---------- direction independence of the UTPM-level operations (C11) ---------- *)
Section Dirs.
Variable K : fieldType.
Implicit Types (x y z : utpm K).

(* the single-direction polynomial consisting of direction p alone *)
Definition dirU x (p : nat) : utpm K := (x.1, [:: nth [::] x.2 p]).

Lemma ser_dirU x p e : ser (dirU x p) 0 e = ser x p e.
Proof. by []. Qed.

Theorem unopU_dir (op : seq K -> seq K) x p : p < ndirs x ->
  dirU (unopU op x) p = unopU op (dirU x p).
Proof.
by move=> lt_p; rewrite /dirU /unopU /= (nth_map [::]).
Qed.

Theorem binopU_dir (op : seq K -> seq K -> seq K) x y p : p < ndirs x ->
  omap (fun z => dirU z p) (binopU op x y) = binopU op (dirU x p) (dirU y p).
Proof.
move=> lt_p; rewrite /binopU /=; case: (bshape x.1 y.1) => //= o.
by rewrite /dirU /= (nth_map 0) ?size_iota // nth_iota // add0n.
Qed.

Theorem gatherU_dir (g : gather) x p : p < ndirs x ->
  dirU (gatherU g x) p = gatherU g (dirU x p).
Proof. by move=> lt_p; rewrite /dirU /gatherU /= (nth_map [::]). Qed.

(* hence: the result in direction p is a function of direction p of the operands only *)
Corollary binopU_dir_indep (op : seq K -> seq K -> seq K) x y x' y' p :
  p < ndirs x -> p < ndirs x' -> dirU x p = dirU x' p -> dirU y p = dirU y' p ->
  omap (fun z => dirU z p) (binopU op x y) = omap (fun z => dirU z p) (binopU op x' y').
Proof. by move=> lt_p lt_p' ex ey; rewrite !binopU_dir // ex ey. Qed.
End Dirs.
