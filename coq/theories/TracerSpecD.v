(* PROOFS: consequences of the adjoint theorem for the derivative drivers (C04), and the kernel-checked witness that the
   store of overwritten cells must be the one of the CURRENT forward evaluation (the unrepaired code kept the one saved while
   recording). *)
From mathcomp Require Import all_ssreflect all_algebra.
From AlgoV Require Import Tracer TracerInst TracerSpecB.
Set Implicit Arguments. Unset Strict Implicit. Unset Printing Implicit Defensive.
Import GRing.Theory.
Local Open Scope ring_scope.

Section Drivers.
Variable S : comRingType.
Variable recip : S -> S.
Variables (unval : nat -> S -> S) (unpart : nat -> S -> S -> S).
Implicit Types (t : tape S) (xs dxs : seq S).

(* gradient / one Jacobian row: seeding output o with 1 gives the vector g with  g . dx = tangent of o  for every dx *)
Theorem gradient_spec t o xs dxs :
  wf_tape (size xs) t -> size dxs = size xs -> (o < size t)%N && is_scal t o ->
  \sum_(i < size xs) (R_gradient_like recip unval unpart t [:: o] xs [:: 1])`_i * dxs`_i
  = (R_tangent_out recip unval unpart t [:: o] xs dxs)`_0.
Proof.
move=> wf sz Ho.
rewrite (@reverse_adjoint S recip unval unpart t [:: o] xs dxs [:: 1]) //=; last by rewrite Ho.
by rewrite big_ord1 mul1r.
Qed.

(* vector-Jacobian product: seeds w_j on outputs o_j *)
Theorem vec_jac_spec t outs xs dxs (w : seq S) :
  wf_tape (size xs) t -> size dxs = size xs -> size w = size outs -> uniq outs ->
  all (fun a => (a < size t)%N && is_scal t a) outs ->
  \sum_(i < size xs) (R_gradient_like recip unval unpart t outs xs w)`_i * dxs`_i
  = \sum_(j < size outs) w`_j * (R_tangent_out recip unval unpart t outs xs dxs)`_j.
Proof. exact: reverse_adjoint. Qed.
End Drivers.

(* the witness program of the stale-store defect: y = zeros(2); y[0] = x0*x1; y[1] = y[0]*x0; y[0] = y[1]**2; return y[0]+y[1] *)
Definition stale_prog : seq (instr int) :=
  [:: IX _ 0; IX _ 1; IZeros _ 2; IBin Mul (OReg _ 0) (OReg _ 1); ISet 2 0 (OReg _ 3);
      IGet _ 2 0; IBin Mul (OReg _ 4) (OReg _ 0); ISet 2 1 (OReg _ 5);
      IGet _ 2 1; IPow _ 6 2; ISet 2 0 (OReg _ 7);
      IGet _ 2 0; IGet _ 2 1; IBin Add (OReg _ 8) (OReg _ 9)].
Definition stale_tape : tape int := (R_record stale_prog).1.
Definition stale_out : nat := nth 0%N (R_record stale_prog).2 10.
Definition idr : int -> int := id.
Definition unv : nat -> int -> int := fun _ x => x.
Definition unp : nat -> int -> int -> int := fun _ _ _ => 1.
(* sweep at x with the store saved by the evaluation at x (repaired) resp. by the recording evaluation at xrec (unrepaired) *)
Definition grad_with_store (xrec x : seq int) : seq int :=
  let fs := R_replay idr unv stale_tape x in
  let fr := R_replay idr unv stale_tape xrec in
  xbar_of (R_pullback idr unp stale_tape (FState (fheap fs) (fvals fs) (fstore fr)) [:: stale_out] [:: 1]).

Theorem stale_store_refuted :
  wf_prog 2 stale_prog /\
  grad_with_store [:: 2; 7] [:: 2; 7] = [:: 1596; 228] /\          (* store of the current evaluation: the true gradient *)
  grad_with_store [:: 3; 5] [:: 2; 7] <> [:: 1596; 228].           (* store saved at the recording point (3,5) *)
Proof. by split; [vm_compute | split; vm_compute]. Qed.
