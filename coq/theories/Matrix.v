(* MODEL of the matrix kernels of algopy/utpm/algorithms.py (_dot, _outer, _inv, _solve*, trace) and of the LU based
   det / logdet of utpm.py.  The recurrences only use ring / module operations of the coefficient matrices, so the
   kernels are written ONCE over abstract operations ("raw" structures: a carrier and plain functions) and
   instantiated (a) with executable list matrices over a field K -- this is what vm_compute runs against the
   implementation -- and (b) with mathcomp's 'M[K]_n in MatrixSpec.v, where the theorems are proved.
   A matrix Taylor polynomial (one direction) is the list of its coefficient matrices [A_0; ...; A_{D-1}]. *)
From mathcomp Require Import all_ssreflect all_algebra.
From AlgoV Require Import Sums Series.
Set Implicit Arguments. Unset Strict Implicit. Unset Printing Implicit Defensive.
Import GRing.Theory.

(* course-of-values recursion over an arbitrary carrier *)
Section UnfoldT.
Variable T : Type.
Fixpoint unfoldT (step : seq T -> T) (y0 : T) (n : nat) : seq T :=
  if n is m.+1 then let ys := unfoldT step y0 m in rcons ys (step ys) else [:: y0].
Definition seriesT (step : seq T -> T) (y0 : T) (D : nat) : seq T :=
  if D is n.+1 then unfoldT step y0 n else [::].
End UnfoldT.

Section Raw.
(* X * Y -> Z products accumulated in Z, as  z = 0; for c in ...: z += x_c . y_{d-c} *)
Variables (X Y Z : Type) (mul : X -> Y -> Z) (add : Z -> Z -> Z) (zero : Z) (x0 : X) (y0 : Y).
Definition csum (f : nat -> Z) (lo n : nat) : Z := foldl (fun acc c => add acc (f c)) zero (iota lo n).
(* _dot / _outer (algorithms.py:1172, 1254): z_d = sum_{c=0}^{d} x_c . y_{d-c} *)
Definition cauchyK (x : seq X) (y : seq Y) : seq Z :=
  mkseq (fun d => csum (fun c => mul (nth x0 x c) (nth y0 y (d - c))) 0 d.+1) (size x).
(* constant operand on one side: _dot_non_UTPM_y / _dot_non_UTPM_x / _outer_non_utpm_* *)
Definition mapK_r (x : seq X) (y : Y) : seq Z := [seq mul a y | a <- x].
Definition mapK_l (x : X) (y : seq Y) : seq Z := [seq mul x b | b <- y].
End Raw.

Section RawInv.
(* _inv (algorithms.py:1332): y_0 = inv(x_0) [given]; y_d = (-y_0) . sum_{c=1}^{d} x_c . y_{d-c} *)
Variables (R : Type) (mul : R -> R -> R) (add : R -> R -> R) (neg : R -> R) (zero : R).
Definition inv_step (x : seq R) (yinv0 : R) (ys : seq R) : R :=
  let d := size ys in
  mul (neg yinv0) (csum add zero (fun c => mul (nth zero x c) (nth zero ys (d - c))) 1 d).
Definition invK (x : seq R) (yinv0 : R) : seq R := seriesT (inv_step x yinv0) yinv0 (size x).
End RawInv.

Section RawSolve.
(* _solve (algorithms.py:1408): y_0 = solve(A_0, b_0); y_d = solve(A_0, b_d - sum_{k=1}^{d} A_k y_{d-k});
   numpy.linalg.solve(A_0, t) is modelled as the action of the given inverse of A_0 *)
Variables (R M : Type) (act : R -> M -> M) (subM : M -> M -> M) (zeroM : M) (zeroR : R).
Definition solve_step (A : seq R) (Ainv0 : R) (B : seq M) (ys : seq M) : M :=
  let d := size ys in
  act Ainv0 (foldl (fun tmp k => subM tmp (act (nth zeroR A k) (nth zeroM ys (d - k)))) (nth zeroM B d) (iota 1 d)).
Definition solveK (A : seq R) (Ainv0 : R) (B : seq M) : seq M :=
  seriesT (solve_step A Ainv0 B) (act Ainv0 (nth zeroM B 0)) (size A).
(* _solve_non_UTPM_A: constant matrix A *)
Definition solve_constA (Ainv : R) (B : seq M) : seq M := [seq act Ainv b | b <- B].
(* _solve_non_UTPM_x: constant right-hand side b (tmp starts at 0 for d >= 1) *)
Definition solve_constb (A : seq R) (Ainv0 : R) (b : M) : seq M :=
  solveK A Ainv0 (b :: nseq (size A).-1 zeroM).
End RawSolve.

(* ---------- executable instance: list matrices over a field ---------- *)
Section ListMx.
Variable K : fieldType.
Local Open Scope ring_scope.
Definition mx := seq (seq K).
Definition mxget (A : mx) (i j : nat) : K := nth 0 (nth [::] A i) j.
Definition mkmx (n m : nat) (f : nat -> nat -> K) : mx := mkseq (fun i => mkseq (fun j => f i j) m) n.
Definition mzero (n m : nat) : mx := mkmx n m (fun _ _ => 0).
Definition meye (n : nat) : mx := mkmx n n (fun i j => (i == j)%:R).
Definition madd (n m : nat) (A B : mx) : mx := mkmx n m (fun i j => mxget A i j + mxget B i j).
Definition msub (n m : nat) (A B : mx) : mx := mkmx n m (fun i j => mxget A i j - mxget B i j).
Definition mneg (n m : nat) (A : mx) : mx := mkmx n m (fun i j => - mxget A i j).
Definition mscale (n m : nat) (c : K) (A : mx) : mx := mkmx n m (fun i j => c * mxget A i j).
(* (n x m) . (m x k) *)
Definition mmul (n m k : nat) (A B : mx) : mx :=
  mkmx n k (fun i j => sumn_f m (fun l => mxget A i l * mxget B l j)).
Definition mtr (n m : nat) (A : mx) : mx := mkmx m n (fun i j => mxget A j i).
Definition mtrace (n : nat) (A : mx) : K := sumn_f n (fun i => mxget A i i).
Definition mtriu (n m : nat) (k : nat) (A : mx) : mx := mkmx n m (fun i j => if (i + k <= j)%N then mxget A i j else 0).
(* strictly lower part, tril(A, -1) *)
Definition mtril1 (n m : nat) (A : mx) : mx := mkmx n m (fun i j => if (j < i)%N then mxget A i j else 0).
Definition mtril (n m : nat) (A : mx) : mx := mkmx n m (fun i j => if (j <= i)%N then mxget A i j else 0).
Definition mx_eqb (n m : nat) (A B : mx) : bool :=
  all (fun i => all (fun j => mxget A i j == mxget B i j) (iota 0 m)) (iota 0 n).

(* dot of (n x m) and (m x k) matrix polynomials, all operand mixes *)
Definition dotU (n m k : nat) (x y : seq mx) : seq mx :=
  cauchyK (mmul n m k) (madd n k) (mzero n k) [::] [::] x y.
Definition dotU_constr (n m k : nat) (x : seq mx) (y : mx) : seq mx := mapK_r (mmul n m k) x y.
Definition dotU_constl (n m k : nat) (x : mx) (y : seq mx) : seq mx := mapK_l (mmul n m k) x y.
Definition invU (n : nat) (x : seq mx) (xinv0 : mx) : seq mx :=
  invK (mmul n n n) (madd n n) (mneg n n) (mzero n n) x xinv0.
Definition solveU (n k : nat) (A : seq mx) (Ainv0 : mx) (B : seq mx) : seq mx :=
  solveK (mmul n n k) (msub n k) (mzero n k) (mzero n n) A Ainv0 B.
Definition solveU_constA (n k : nat) (Ainv : mx) (B : seq mx) : seq mx := solve_constA (mmul n n k) Ainv B.
Definition solveU_constb (n k : nat) (A : seq mx) (Ainv0 : mx) (b : mx) : seq mx :=
  solve_constb (mmul n n k) (msub n k) (mzero n k) (mzero n n) A Ainv0 b.
Definition traceU (n : nat) (x : seq mx) : seq K := [seq mtrace n A | A <- x].

(* ---------- LU in Taylor arithmetic: UTPM.lu / lu2 (utpm.py:2150-2236) ----------
   base data given: w (permutation matrix of the base pivots), L0, U0 and the inverses of L0 and U0 *)
Definition lu_step (n : nat) (wT : mx) (A : seq mx) (L0 U0 L0inv U0inv : mx) (LUs : seq (mx * mx)) : mx * mx :=
  let d := size LUs in
  let dF0 := foldl (fun acc i => msub n n acc (mmul n n n (nth ([::], [::]) LUs (d - i)).1 (nth ([::], [::]) LUs i).2)) (mzero n n) (iota 1 d.-1) in
  let dF1 := madd n n dF0 (mmul n n n wT (nth [::] A d)) in
  let dF := mmul n n n L0inv (mmul n n n dF1 U0inv) in
  (mmul n n n L0 (mtril1 n n dF), mmul n n n (mtriu n n 0 dF) U0).
Definition luU (n : nat) (wT : mx) (A : seq mx) (L0 U0 L0inv U0inv : mx) : seq (mx * mx) :=
  seriesT (lu_step n wT A L0 U0 L0inv U0inv) (L0, U0) (size A).

(* prod of a vector of series by repeated in-place multiplication (UTPM.prod), det and logdet *)
Definition prodS (D : nat) (xs : seq (seq K)) : seq K := foldl (fun y x => mulS y x) (constS 1 D) xs.
Definition diag_series (n : nat) (Us : seq mx) : seq (seq K) := mkseq (fun i => [seq mxget U i i | U <- Us]) n.
(* det = piv2det(PIV) * prod(diag(U)) *)
Definition detU (n : nat) (sgn : K) (Us : seq mx) : seq K := scaleS sgn (prodS (size Us) (diag_series n Us)).
End ListMx.
