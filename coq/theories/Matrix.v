(* MODEL of the matrix kernels of algopy/utpm/algorithms.py (_dot, _outer, _inv, _solve*, trace) and of the LU based
   det / logdet of utpm.py.  The recurrences only use ring / module operations of the coefficient matrices, so the
   kernels are written ONCE over abstract operations ("raw" structures: a carrier and plain functions) and
   instantiated (a) with executable list matrices over a field K -- this is what vm_compute runs against the
   implementation -- and (b) with mathcomp's 'M[K]_n in MatrixSpec.v, where the theorems are proved.
   A matrix Taylor polynomial (one direction) is the list of its coefficient matrices [A_0; ...; A_{D-1}]. *)
From mathcomp Require Import all_ssreflect all_algebra.
From AlgoV Require Import Sums Series.
Set Implicit Arguments. Unset Strict Implicit. Unset Printing Implicit Defensive.
Import GRing.Theory.

(* course-of-values recursion over an arbitrary carrier *)
Section UnfoldT.
Variable T : Type.
Fixpoint unfoldT (step : seq T -> T) (y0 : T) (n : nat) : seq T :=
  if n is m.+1 then let ys := unfoldT step y0 m in rcons ys (step ys) else [:: y0].
Definition seriesT (step : seq T -> T) (y0 : T) (D : nat) : seq T :=
  if D is n.+1 then unfoldT step y0 n else [::].
End UnfoldT.

Section Raw.
(* X * Y -> Z products accumulated in Z, as  z = 0; for c in ...: z += x_c . y_{d-c} *)
Variables (X Y Z : Type) (mul : X -> Y -> Z) (add : Z -> Z -> Z) (zero : Z) (x0 : X) (y0 : Y).
Definition csum (f : nat -> Z) (lo n : nat) : Z := foldl (fun acc c => add acc (f c)) zero (iota lo n).
(* _dot / _outer (algorithms.py:1172, 1254): z_d = sum_{c=0}^{d} x_c . y_{d-c} *)
Definition cauchyK (x : seq X) (y : seq Y) : seq Z :=
  mkseq (fun d => csum (fun c => mul (nth x0 x c) (nth y0 y (d - c))) 0 d.+1) (size x).
(* constant operand on one side: _dot_non_UTPM_y / _dot_non_UTPM_x / _outer_non_utpm_* *)
Definition mapK_r (x : seq X) (y : Y) : seq Z := [seq mul a y | a <- x].
Definition mapK_l (x : X) (y : seq Y) : seq Z := [seq mul x b | b <- y].
End Raw.

Section RawInv.
(* _inv (algorithms.py:1332): y_0 = inv(x_0) [given]; y_d = (-y_0) . sum_{c=1}^{d} x_c . y_{d-c} *)
Variables (R : Type) (mul : R -> R -> R) (add : R -> R -> R) (neg : R -> R) (zero : R).
Definition inv_step (x : seq R) (yinv0 : R) (ys : seq R) : R :=
  let d := size ys in
  mul (neg yinv0) (csum add zero (fun c => mul (nth zero x c) (nth zero ys (d - c))) 1 d).
Definition invK (x : seq R) (yinv0 : R) : seq R := seriesT (inv_step x yinv0) yinv0 (size x).
End RawInv.

Section RawSolve.
(* _solve (algorithms.py:1408): y_0 = solve(A_0, b_0); y_d = solve(A_0, b_d - sum_{k=1}^{d} A_k y_{d-k});
   numpy.linalg.solve(A_0, t) is modelled as the action of the given inverse of A_0 *)
Variables (R M : Type) (act : R -> M -> M) (subM : M -> M -> M) (zeroM : M) (zeroR : R).
Definition solve_step (A : seq R) (Ainv0 : R) (B : seq M) (ys : seq M) : M :=
  let d := size ys in
  act Ainv0 (foldl (fun tmp k => subM tmp (act (nth zeroR A k) (nth zeroM ys (d - k)))) (nth zeroM B d) (iota 1 d)).
Definition solveK (A : seq R) (Ainv0 : R) (B : seq M) : seq M :=
  seriesT (solve_step A Ainv0 B) (act Ainv0 (nth zeroM B 0)) (size A).
(* _solve_non_UTPM_A: constant matrix A *)
Definition solve_constA (Ainv : R) (B : seq M) : seq M := [seq act Ainv b | b <- B].
(* _solve_non_UTPM_x: constant right-hand side b (tmp starts at 0 for d >= 1) *)
Definition solve_constb (A : seq R) (Ainv0 : R) (b : M) : seq M :=
  solveK A Ainv0 (b :: nseq (size A).-1 zeroM).
End RawSolve.

Section RawFact.
(* factorization kernels over abstract matrix operations (instantiated with list matrices and with 'M[K]_n) *)
Variable T : Type.
Variables (mul add sub : T -> T -> T) (neg tr : T -> T) (zero : T).
Variables (triu tril1 : T -> T).          (* upper part incl. diagonal; strictly lower part *)
Variables (lowhalf : T -> T).             (* Proj o A : strictly lower part + half the diagonal (algorithms.py:1524) *)
Variables (half : T -> T).                (* 0.5 * A *)
Variables (fixdiag : T -> T -> T -> T).   (* cholesky's explicit diagonal: L_D[n,n] = -0.5 * L0[n,n] * dF[n,n] *)
Let sum_lo (f : nat -> T) (lo n : nat) : T := foldl (fun acc c => add acc (f c)) zero (iota lo n).

(* _cholesky (algorithms.py:1511): base factor L0 and its inverse are given *)
Definition chol_step (A : seq T) (L0 L0inv : T) (Ls : seq T) : T :=
  let D := size Ls in
  let dF0 := sum_lo (fun d => mul (nth zero Ls (D - d)) (tr (nth zero Ls d))) 1 D.-1 in
  let dF1 := sub dF0 (nth zero A D) in
  let dF := mul (mul L0inv dF1) (tr L0inv) in
  fixdiag L0 dF (neg (mul L0 (lowhalf dF))).
Definition cholK (A : seq T) (L0 L0inv : T) : seq T := seriesT (chol_step A L0 L0inv) L0 (size A).

(* UTPM.lu / lu2 (utpm.py:2150): L0, U0, their inverses and the transposed base permutation matrix are given *)
Definition luK_step (wT : T) (A : seq T) (L0 U0 L0inv U0inv : T) (LUs : seq (T * T)) : T * T :=
  let d := size LUs in
  let dF0 := foldl (fun acc i => sub acc (mul (nth (zero, zero) LUs (d - i)).1 (nth (zero, zero) LUs i).2)) zero (iota 1 d.-1) in
  let dF1 := add dF0 (mul wT (nth zero A d)) in
  let dF := mul L0inv (mul dF1 U0inv) in
  (mul L0 (tril1 dF), mul (triu dF) U0).
Definition luK (wT : T) (A : seq T) (L0 U0 L0inv U0inv : T) : seq (T * T) :=
  seriesT (luK_step wT A L0 U0 L0inv U0inv) (L0, U0) (size A).

(* _qr_rectangular for a square, full-rank base matrix (algorithms.py:1716): Q0, R0 and inv(R0) are given *)
Definition qr_step (A : seq T) (Q0 R0 Rinv : T) (QRs : seq (T * T)) : T * T :=
  let D := size QRs in
  let Qn d := (nth (zero, zero) QRs d).1 in let Rn d := (nth (zero, zero) QRs d).2 in
  let dF := sum_lo (fun d => mul (Qn d) (Rn (D - d))) 1 D.-1 in
  let dG := foldl (fun acc d => sub acc (mul (tr (Qn d)) (Qn (D - d)))) zero (iota 1 D.-1) in
  let H := sub (nth zero A D) dF in
  let S := half dG in
  let X0 := tril1 (sub (mul (mul (tr Q0) H) Rinv) S) in
  let X := sub X0 (tr X0) in
  let Kk := add S X in
  let RD := sub (mul (tr Q0) H) (mul Kk R0) in
  (mul Q0 Kk, RD).
Definition qrK (A : seq T) (Q0 R0 Rinv : T) : seq (T * T) := seriesT (qr_step A Q0 R0 Rinv) (Q0, R0) (size A).
End RawFact.

(* ---------- executable instance: list matrices over a field ---------- *)
Section ListMx.
Variable K : fieldType.
Local Open Scope ring_scope.
Definition mx := seq (seq K).
Definition mxget (A : mx) (i j : nat) : K := nth 0 (nth [::] A i) j.
Definition mkmx (n m : nat) (f : nat -> nat -> K) : mx := mkseq (fun i => mkseq (fun j => f i j) m) n.
Definition mzero (n m : nat) : mx := mkmx n m (fun _ _ => 0).
Definition meye (n : nat) : mx := mkmx n n (fun i j => (i == j)%:R).
Definition madd (n m : nat) (A B : mx) : mx := mkmx n m (fun i j => mxget A i j + mxget B i j).
Definition msub (n m : nat) (A B : mx) : mx := mkmx n m (fun i j => mxget A i j - mxget B i j).
Definition mneg (n m : nat) (A : mx) : mx := mkmx n m (fun i j => - mxget A i j).
Definition mscale (n m : nat) (c : K) (A : mx) : mx := mkmx n m (fun i j => c * mxget A i j).
(* (n x m) . (m x k) *)
Definition mmul (n m k : nat) (A B : mx) : mx :=
  mkmx n k (fun i j => sumn_f m (fun l => mxget A i l * mxget B l j)).
Definition mtr (n m : nat) (A : mx) : mx := mkmx m n (fun i j => mxget A j i).
Definition mtrace (n : nat) (A : mx) : K := sumn_f n (fun i => mxget A i i).
Definition mtriu (n m : nat) (k : nat) (A : mx) : mx := mkmx n m (fun i j => if (i + k <= j)%N then mxget A i j else 0).
(* strictly lower part, tril(A, -1) *)
Definition mtril1 (n m : nat) (A : mx) : mx := mkmx n m (fun i j => if (j < i)%N then mxget A i j else 0).
Definition mtril (n m : nat) (A : mx) : mx := mkmx n m (fun i j => if (j <= i)%N then mxget A i j else 0).
Definition mx_eqb (n m : nat) (A B : mx) : bool :=
  all (fun i => all (fun j => mxget A i j == mxget B i j) (iota 0 m)) (iota 0 n).

(* dot of (n x m) and (m x k) matrix polynomials, all operand mixes *)
Definition dotU (n m k : nat) (x y : seq mx) : seq mx :=
  cauchyK (mmul n m k) (madd n k) (mzero n k) [::] [::] x y.
Definition dotU_constr (n m k : nat) (x : seq mx) (y : mx) : seq mx := mapK_r (mmul n m k) x y.
Definition dotU_constl (n m k : nat) (x : mx) (y : seq mx) : seq mx := mapK_l (mmul n m k) x y.
Definition invU (n : nat) (x : seq mx) (xinv0 : mx) : seq mx :=
  invK (mmul n n n) (madd n n) (mneg n n) (mzero n n) x xinv0.
Definition solveU (n k : nat) (A : seq mx) (Ainv0 : mx) (B : seq mx) : seq mx :=
  solveK (mmul n n k) (msub n k) (mzero n k) (mzero n n) A Ainv0 B.
Definition solveU_constA (n k : nat) (Ainv : mx) (B : seq mx) : seq mx := solve_constA (mmul n n k) Ainv B.
Definition solveU_constb (n k : nat) (A : seq mx) (Ainv0 : mx) (b : mx) : seq mx :=
  solve_constb (mmul n n k) (msub n k) (mzero n k) (mzero n n) A Ainv0 b.
Definition traceU (n : nat) (x : seq mx) : seq K := [seq mtrace n A | A <- x].

(* ---------- factorizations on list matrices (instances of the raw kernels) ---------- *)
Definition mlowhalf (n : nat) (A : mx) : mx :=
  mkmx n n (fun i j => if (j < i)%N then mxget A i j else if i == j then 2%:R^-1 * mxget A i j else 0).
Definition mhalf (n : nat) (A : mx) : mx := mscale n n (2%:R^-1) A.
Definition mfixdiag (n : nat) (L0 dF LD : mx) : mx :=
  mkmx n n (fun i j => if i == j then - (2%:R^-1) * mxget L0 i i * mxget dF i i else mxget LD i j).
Definition luU (n : nat) (wT : mx) (A : seq mx) (L0 U0 L0inv U0inv : mx) : seq (mx * mx) :=
  luK (mmul n n n) (madd n n) (msub n n) (mzero n n) (mtriu n n 0) (mtril1 n n) wT A L0 U0 L0inv U0inv.
Definition cholU (n : nat) (A : seq mx) (L0 L0inv : mx) : seq mx :=
  cholK (mmul n n n) (madd n n) (msub n n) (mneg n n) (mtr n n) (mzero n n) (mlowhalf n) (mfixdiag n) A L0 L0inv.
Definition qrU (n : nat) (A : seq mx) (Q0 R0 Rinv : mx) : seq (mx * mx) :=
  qrK (mmul n n n) (madd n n) (msub n n) (mtr n n) (mzero n n) (mtril1 n n) (mhalf n) A Q0 R0 Rinv.

(* prod of a vector of series by repeated in-place multiplication (UTPM.prod), det and logdet *)
Definition prodS (D : nat) (xs : seq (seq K)) : seq K := foldl (fun y x => mulS y x) (constS 1 D) xs.
Definition diag_series (n : nat) (Us : seq mx) : seq (seq K) := mkseq (fun i => [seq mxget U i i | U <- Us]) n.
(* det = piv2det(PIV) * prod(diag(U)) *)
Definition detU (n : nat) (sgn : K) (Us : seq mx) : seq K := scaleS sgn (prodS (size Us) (diag_series n Us)).
End ListMx.
