(* Executable counterparts of the matrix pullback rules of algopy/utpm/utpm.py (pb_dot, pb_inv, pb_solve) over the
   list-matrix Taylor-series model of Matrix.v.  A matrix series is the list of its coefficient matrices; the rules
   are the abstract rules of MatPullback.v with every product replaced by the truncated Cauchy product dotU and
   transposition / negation applied to every coefficient. *)
From Coq Require Import ZArith QArith Qcanon.
From mathcomp Require Import all_ssreflect all_algebra.
From AlgoV Require Import QcField Sums Series Matrix.
Set Implicit Arguments. Unset Strict Implicit. Unset Printing Implicit Defensive.
Import GRing.Theory.
Local Open Scope ring_scope.

Section PullbackExec.
Variable K : fieldType.
Implicit Types (x y zbar ybar A Tbar : seq (mx K)).

(* coefficientwise transpose of an (n x m) series and negation of an (n x m) series *)
Definition trU (n m : nat) x : seq (mx K) := [seq mtr n m A | A <- x].
Definition negU (n m : nat) x : seq (mx K) := [seq mneg n m A | A <- x].

(* Z = X . Y with X : n x m, Y : m x k, Zbar : n x k *)
(* Xbar += Zbar . Y^T   (n x k) . (k x m) *)
Definition pb_dotU_x (n m k : nat) zbar y : seq (mx K) := dotU n k m zbar (trU m k y).
(* Ybar += X^T . Zbar   (m x n) . (n x k) *)
Definition pb_dotU_y (n m k : nat) x zbar : seq (mx K) := dotU m n k (trU n m x) zbar.

(* Y = inv(A):  Abar += - Y^T . (Ybar . Y^T) *)
Definition pb_invU (n : nat) ybar y : seq (mx K) :=
  negU n n (dotU n n n (trU n n y) (dotU n n n ybar (trU n n y))).

(* A Y = X with A : n x n, Y, X : n x k;  Tbar = - solve(A^T, Ybar), AinvT0 = inverse of A_0^T;
   Abar += Tbar . Y^T,  Xbar -= Tbar *)
Definition pb_solveU_T (n k : nat) A (AinvT0 : mx K) ybar : seq (mx K) :=
  negU n k (solveU n k (trU n n A) AinvT0 ybar).
Definition pb_solveU_A (n k : nat) Tbar y : seq (mx K) := dotU n k n Tbar (trU n k y).
Definition pb_solveU_x (n k : nat) Tbar : seq (mx K) := negU n k Tbar.
End PullbackExec.

(* the rule runs under vm_compute over Qc: 2 x 2, D = 2,
   ybar = [[1,0],[0,1]] + t [[0,0],[1,0]],  y = [[1,2],[0,1]] + t [[0,1],[1,-1]] *)
Example pb_invU_runs :
  pb_invU 2 [:: [:: [:: qz 1 1; qz 0 1]; [:: qz 0 1; qz 1 1]]; [:: [:: qz 0 1; qz 0 1]; [:: qz 1 1; qz 0 1]]]
            [:: [:: [:: qz 1 1; qz 2 1]; [:: qz 0 1; qz 1 1]]; [:: [:: qz 0 1; qz 1 1]; [:: qz 1 1; qz (-1) 1]]]
  = [:: [:: [:: qz (-1) 1; qz 0 1]; [:: qz (-4) 1; qz (-1) 1]];
        [:: [:: qz (-2) 1; qz (-2) 1]; [:: qz (-1) 1; qz 0 1]]].
Proof. by vm_compute. Qed.
