(* C12 at the level of whole programs: for the executable tracer instance (TracerExec.v), the first D' coefficients of every result
   computed with D >= D' coefficients -- forward evaluation, replay of a recorded tape, tangent sweep and the ADJOINTS of the reverse
   sweep -- are the results computed from the inputs (and constants, and seeds) truncated to D' coefficients.  Proof: the relational
   parametricity of TracerRefine.v (Section Param) with the relation "b = take D' a, size a = D", and the prefix lemmas of
   SeriesPrefix.v for the kernels. *)
From mathcomp Require Import all_ssreflect all_algebra.
From AlgoV Require Import Sums Series SeriesBase SeriesSpec SeriesSpec_A SeriesPrefix Tracer TracerExec TracerRefine.
Set Implicit Arguments. Unset Strict Implicit. Unset Printing Implicit Defensive.
Import GRing.Theory.
Local Open Scope ring_scope.

Section Prefix.
Variable K : fieldType.
Variables D D' : nat.
Hypothesis D'_pos : (0 < D')%N.
Hypothesis D'_le : (D' <= D)%N.

Definition tk (a : seq K) : seq K := take D' a.
Definition operandT (o : operand (seq K)) : operand (seq K) :=
  match o with OReg r => OReg _ r | OConst c => OConst (tk c) end.
Definition instrT (i : instr (seq K)) : instr (seq K) :=
  match i with
  | IX k => IX _ k | IBin op a b => IBin op (operandT a) (operandT b) | INeg r => INeg _ r | IUn f r => IUn _ f r
  | IPow r n => IPow _ r n | IZeros n => IZeros _ n | ISet b k a => ISet b k (operandT a) | IGet b k => IGet _ b k
  end.
Definition nodeT (n : node (seq K)) : node (seq K) :=
  Node (match nop n with NConst c => NConst (tk c) | o => o end) (nargs n).

Implicit Types (prog : seq (instr (seq K))) (t : tape (seq K)) (xs dxs ybars : seq (seq K)).


(* ---------- the relation "b is the D'-prefix of the length-D series a" is preserved by every kernel ---------- *)
Implicit Types (a b c d : seq K).
Definition tkR (a b : seq K) : Prop := size a = D /\ b = tk a.

Lemma tkR_tk a : size a = D -> tkR a (tk a). Proof. by []. Qed.
Lemma le_D'_size a : size a = D -> (D' <= size a)%N. Proof. by move->. Qed.
Lemma lt_D'_size a : size a = D -> (0 < D' <= size a)%N. Proof. by move->; rewrite D'_pos. Qed.

Lemma tkR_zero : tkR (x_zero K D) (x_zero K D').
Proof. by split; rewrite /x_zero ?size_nseq // /tk take_nseq. Qed.
Lemma tkR_add a b c d : tkR a b -> tkR c d -> tkR (addS a c) (addS b d).
Proof. by case=> sa -> [sc ->]; split; rewrite /tk ?addS_take ?size_mkseq ?sa. Qed.
Lemma tkR_sub a b c d : tkR a b -> tkR c d -> tkR (subS a c) (subS b d).
Proof. by case=> sa -> [sc ->]; split; rewrite /tk ?subS_take ?size_mkseq ?sa. Qed.
Lemma tkR_mul a b c d : tkR a b -> tkR c d -> tkR (mulS a c) (mulS b d).
Proof. by case=> sa -> [sc ->]; split; rewrite /tk ?mulS_take ?size_mulS ?sa. Qed.
Lemma tkR_div a b c d : tkR a b -> tkR c d -> tkR (divS a c) (divS b d).
Proof. by case=> sa -> [sc ->]; split; rewrite /tk ?divS_take ?size_divS ?lt_D'_size. Qed.
Lemma tkR_neg a b : tkR a b -> tkR (negS a) (negS b).
Proof. by case=> sa ->; split; rewrite /tk /negS ?size_map // map_take. Qed.
Lemma tkR_scale (c : K) a b : tkR a b -> tkR (scaleS c a) (scaleS c b).
Proof. by case=> sa ->; split; rewrite /tk /scaleS ?size_map // map_take. Qed.
Lemma tkR_natmul n a b : tkR a b -> tkR (x_natmul n a) (x_natmul n b).
Proof. exact: tkR_scale. Qed.
Lemma tkR_square a b : tkR a b -> tkR (squareS a) (squareS b).
Proof. by case=> sa ->; split; rewrite /tk ?squareS_take ?size_squareS ?sa. Qed.
Lemma tkR_recip a b : tkR a b -> tkR (recipS a) (recipS b).
Proof. by case=> sa ->; split; rewrite /tk ?recipS_take ?size_recipS ?lt_D'_size. Qed.
Lemma tkR_const (c : K) : tkR (constS c D) (constS c D').
Proof. by split; rewrite /tk /constS ?size_mkseq // take_mkseq. Qed.
Lemma tkR_iter_mul m a b : tkR a b -> tkR (iter m (fun y => mulS a y) a) (iter m (fun y => mulS b y) b).
Proof. by move=> H; elim: m => [|m IH] //; rewrite !iterS; apply: tkR_mul. Qed.
Lemma tkR_pown n a b : tkR a b -> tkR (x_pown a n) (x_pown b n).
Proof.
move=> H; rewrite /x_pown; case: n => [|[|[|n]]]; rewrite /pownatS.
- by case: H => sa ->; rewrite /tk size_takel ?sa //; apply: tkR_const.
- by [].
- exact: tkR_square.
- exact: tkR_iter_mul.
Qed.
Lemma tkR_unval f a b : tkR a b -> tkR (x_unval f a) (x_unval f b).
Proof. by move=> H; case: f => [|[|f]]; rewrite /x_unval; [apply: tkR_square | apply: tkR_recip | apply: tkR_neg]. Qed.
Lemma tkR_unpart f a b c d : tkR a b -> tkR c d -> tkR (x_unpart D f a c) (x_unpart D' f b d).
Proof.
move=> H _; case: f => [|[|f]]; rewrite /x_unpart.
- exact: tkR_scale.
- by apply: tkR_neg; apply: tkR_recip; apply: tkR_square.
- exact: tkR_const.
Qed.

(* ---------- translation of programs / tapes / inputs ---------- *)
Lemma lrel_tkR_eq (a b : seq (seq K)) : lrel tkR a b -> b = map tk a.
Proof. by elim: a b => [|x a IH] [|y b] //= [[_ ->] /IH->]. Qed.
Lemma lrel_sizedT xs : sized D xs -> lrel tkR xs (map tk xs).
Proof. by elim: xs => [|x xs IH] //= /andP[/eqP sx /IH Hxs]. Qed.
Lemma orel_T o : operand_ok D o -> orel tkR o (operandT o).
Proof. by case: o => [r|c] //= /eqP sc. Qed.
Lemma irel_T i : instr_ok D i -> irel tkR i (instrT i).
Proof.
case: i => [k|op a b|r|f r|r n|n|b k a|b k] //=.
- by case/andP=> /orel_T Ha /orel_T Hb.
- by move=> /orel_T Ha.
Qed.
Lemma lrel_progT prog : all (@instr_ok K D) prog -> lrel (irel tkR) prog (map instrT prog).
Proof. by elim: prog => [|i p IH] //= /andP[/irel_T Hi /IH Hp]. Qed.
Lemma nrel_T n : node_ok D n -> nrel tkR n (nodeT n).
Proof. by case: n => [[|c|k|op| |f|m|m|k|k] a] //=; rewrite /node_ok /nrel /= => /eqP sc. Qed.
Lemma lrel_tapeT t : all (@node_ok K D) t -> lrel (nrel tkR) t (map nodeT t).
Proof. by elim: t => [|n t IH] //= /andP[/nrel_T Hn /IH Ht]. Qed.

Local Arguments record_instr : simpl never.
Lemma record_instr_T (st : tape (seq K) * seq nat) i :
  record_instr (map nodeT st.1, st.2) (instrT i) = ((map nodeT (record_instr st i).1), (record_instr st i).2).
Proof.
case: st => t regs; case: i => [k|op [r|c] [r'|c']|r|f r|r n|n|b k [r|c]|b k]; rewrite /record_instr /=;
  rewrite ?(map_rcons, size_rcons, size_map) //.
by case: op => /=; rewrite ?(map_rcons, size_rcons, size_map).
Qed.
Lemma record_fold_T prog (st : tape (seq K) * seq nat) :
  foldl (@record_instr _) (map nodeT st.1, st.2) (map instrT prog)
  = (map nodeT (foldl (@record_instr _) st prog).1, (foldl (@record_instr _) st prog).2).
Proof. by elim: prog st => [|i p IH] st //=; rewrite record_instr_T IH. Qed.

Ltac tkR_ops := try solve [exact: tkR_zero | by move=> *; apply: tkR_add | by move=> *; apply: tkR_sub
  | by move=> *; apply: tkR_mul | by move=> *; apply: tkR_div
  | exact: tkR_neg | exact: tkR_natmul | by move=> *; apply: tkR_pown | exact: tkR_unval | by move=> *; apply: tkR_unpart
  | exact: lrel_progT | exact: lrel_tapeT | exact: lrel_sizedT].

Theorem record_T prog : record (map instrT prog) = ([seq nodeT n | n <- (record prog).1], (record prog).2).
Proof.
rewrite /record.
exact: (record_fold_T prog ([:: Node (NInput (seq K)) [::]], [::])).
Qed.

Theorem X_eval_prefix prog ret xs : all (@instr_ok K D) prog -> sized D xs ->
  X_eval_out D' (map instrT prog) ret (map tk xs) = map tk (X_eval_out D prog ret xs).
Proof.
move=> Hp Hx; apply: lrel_tkR_eq; rewrite /X_eval_out.
by apply: eval_out_rel; tkR_ops.
Qed.

Theorem X_replay_prefix t outs xs : all (@node_ok K D) t -> sized D xs ->
  X_replay_out D' (map nodeT t) outs (map tk xs) = map tk (X_replay_out D t outs xs).
Proof.
move=> Ht Hx; apply: lrel_tkR_eq; rewrite /X_replay_out.
by apply: replay_out_rel; tkR_ops.
Qed.

Theorem X_tangent_prefix t outs xs dxs : all (@node_ok K D) t -> sized D xs -> sized D dxs ->
  X_tangent_out D' (map nodeT t) outs (map tk xs) (map tk dxs) = map tk (X_tangent_out D t outs xs dxs).
Proof.
move=> Ht Hx Hd; apply: lrel_tkR_eq; rewrite /X_tangent_out.
by apply: tangent_out_rel; tkR_ops.
Qed.

(* the reverse sweep: adjoint coefficients of order < D' depend only on coefficients of order < D' of inputs and seeds *)
Theorem X_grad_prefix t outs xs ybars : all (@node_ok K D) t -> sized D xs -> sized D ybars ->
  X_grad D' (map nodeT t) outs (map tk xs) (map tk ybars) = map tk (X_grad D t outs xs ybars).
Proof.
move=> Ht Hx Hy; apply: lrel_tkR_eq; rewrite /X_grad.
by apply: gradient_like_rel; tkR_ops.
Qed.
End Prefix.

(* D' = 1 reproduces the plain function value: one-coefficient series behave as field elements *)
Theorem X_eval_D1 (K : fieldType) (D : nat) (prog : seq (instr (seq K))) ret (xs : seq (seq K)) : (0 < D)%N ->
  all (@instr_ok K D) prog -> sized D xs ->
  [seq take 1 y | y <- X_eval_out D prog ret xs] = X_eval_out 1 (map (instrT 1) prog) ret [seq take 1 x | x <- xs].
Proof. by move=> D0 Hp Hx; rewrite (@X_eval_prefix K D 1 isT D0). Qed.
