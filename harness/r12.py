"""Session-4 additions: the reductions / replications sum(axis), sum(), tile, diag in the Coq model (coq/theories/Reduce.v) with
the theorems of ReduceSpec.v (gather and scatter-add are transposed maps; the reverse rules as coded are the adjoints):
  c13_reduce_model : forward results of UTPM.sum / tile / diag vs the model, exactly, per coefficient slice (C13)
  c03_reduce_rules : adjoints returned by UTPM.pb_sum / pb_tile / pb_diag (called directly, with and without an accumulation buffer,
                     and through the tracer) vs the model rules, exactly (C03)
Integer-valued data, so float64 arithmetic is exact and the comparison is equality over Qc."""
import json
import numpy
from fractions import Fraction as F
import lib

IMPORTS = 'QcField Sums Series Array Reduce'
DEFS = """
Definition eqs (a b : seq K) : bool := a == b.
Definition eqn (a b : seq nat) : bool := a == b.
"""


def flat(a):
    return lib.qseq([F(int(v)) for v in numpy.asarray(a).ravel()])


def idata(rng, *shp):
    n = 1
    for s in shp:
        n *= s
    return numpy.array([rng.randint(-6, 6) for _ in range(n)], dtype=float).reshape(shp)


def rshape(rng, it):
    rank = 1 + it % 3
    shp = tuple(rng.randint(1, 3) for _ in range(rank))
    if it % 7 == 3:
        shp = tuple(1 for _ in range(rank))
    return shp


def pad_tile(shp, reps):
    reps = (reps,) if isinstance(reps, int) else tuple(reps)
    r = max(len(shp), len(reps))
    return (1,) * (r - len(shp)) + tuple(shp), (1,) * (r - len(reps)) + reps


def finish(rep, pid, tag, terms, metas, what):
    verdicts, logs = lib.eval_bool_cases(pid + tag, IMPORTS, DEFS, terms, per_file=120)
    bad = 0
    for m, v, t in zip(metas, verdicts, terms):
        rep.count('reduce model', m['op'])
        rep.case(('reduce', tag, t[:600]), m.get('D', 1) >= 2, sample=m)
        if v is None:
            bad += 1
        elif not v:
            rep.violation('reduce:' + m['op'], '%s: %s' % (m['op'], what), dict(kind='reduce-model', case=m, coq_term=t[:4000]))
    if bad or logs:
        rep.violation('corr:uneval:reduce', 'correspondence corr.%s.reduce could not be evaluated for %d cases' % (pid, bad),
                      dict(kind='correspondence', name='corr.%s.reduce' % pid, log=logs[:3]), no_input=True)


def c13_reduce_model(rep, ap, rng, tier, pid):
    U = ap.UTPM
    terms, metas = [], []
    for it in range(14 if tier == 'quick' else 150):
        D = 1 + it % 3; P = 1 + (it // 3) % 2
        shp = rshape(rng, it)
        x = idata(rng, D, P, *shp)
        try:
            # ---- sum over every axis (positive and negative spelling), and of everything
            for a in range(len(shp)):
                ax = a if (it + a) % 2 == 0 else a - len(shp)
                y = ap.sum(U(x.copy()), axis=ax)
                oshp = shp[:a] + shp[a + 1:]
                if tuple(y.data.shape) != (D, P) + oshp:
                    rep.violation('reduce:sum:shape', 'sum(axis=%d) of shape %r has shape %r' % (ax, shp, y.data.shape[2:]), dict(kind='reduce-model', shape=shp, axis=ax))
                    continue
                for d in range(D):
                    for p in range(P):
                        terms.append('(eqs (sum_axis_fwd %s %d %s) %s)' % (lib.natseq(shp), a, flat(x[d, p]), flat(y.data[d, p])))
                        metas.append(dict(op='sum(axis)', shape=list(shp), axis=ax, D=D, d=d, p=p))
            y = U(x.copy()).sum() if it % 2 else ap.sum(U(x.copy()))
            for d in range(D):
                for p in range(P):
                    terms.append('(eqs (sum_all_fwd %s %s) %s)' % (lib.natseq(shp), flat(x[d, p]), flat(y.data[d, p])))
                    metas.append(dict(op='sum()', shape=list(shp), D=D, d=d, p=p))
            # ---- tile
            reps = [2, (2,), (1, 2), (2, 1), (2, 2), (1, 1, 2), (3,), (2, 1, 2)][it % 8]
            s2, r2 = pad_tile(shp, reps)
            y = U.tile(U(x.copy()), reps) if it % 2 else ap.tile(U(x.copy()), reps)
            terms.append('(eqn (tile_shape %s %s) %s)' % (lib.natseq(s2), lib.natseq(r2), lib.natseq(y.data.shape[2:])))
            metas.append(dict(op='tile:shape', shape=list(shp), reps=repr(reps), D=D))
            for d in range(D):
                for p in range(P):
                    terms.append('(eqs (tile_fwd %s %s %s) %s)' % (lib.natseq(s2), lib.natseq(r2), flat(x[d, p]), flat(y.data[d, p])))
                    metas.append(dict(op='tile', shape=list(shp), reps=repr(reps), D=D, d=d, p=p))
            # ---- diag: matrix -> diagonal (gather) and vector -> diagonal matrix (the transposed map)
            n = 1 + it % 4
            A = idata(rng, D, P, n, n)
            y = U.diag(U(A.copy()))
            v = idata(rng, D, P, n)
            M = U.diag(U(v.copy()))
            for d in range(D):
                for p in range(P):
                    terms.append('(eqs (diag_fwd %d %s) %s && eqs (pb_diag %d %s) %s)' % (n, flat(A[d, p]), flat(y.data[d, p]), n, flat(v[d, p]), flat(M.data[d, p])))
                    metas.append(dict(op='diag', n=n, D=D, d=d, p=p))
        except Exception as e:
            rep.violation('reduce:exception', 'sum/tile/diag raises %r' % (e,), dict(kind='reduce-model', shape=shp, exc=repr(e)))
    finish(rep, pid, 'r', terms, metas, 'the result differs from the Coq model Reduce.v on a coefficient slice')


def c03_reduce_rules(rep, ap, rng, tier, pid):
    U = ap.UTPM
    terms, metas = [], []

    def via_tracer(f, x, ybar_of):
        cg = ap.CGraph(); fx = ap.Function(U(x.copy())); fy = f(fx)
        cg.trace_off(); cg.independentFunctionList = [fx]; cg.dependentFunctionList = [fy]
        yb = ybar_of(fy.x.data.shape)
        cg.pullback([U(yb.copy())])
        return yb, numpy.asarray(fx.xbar.data)

    for it in range(12 if tier == 'quick' else 120):
        D = 1 + it % 3; P = 1 + (it // 3) % 2
        shp = rshape(rng, it)
        x = idata(rng, D, P, *shp)
        mode = it % 3            # 0: direct, fresh result; 1: direct, accumulate into out=; 2: through the tracer
        try:
            # ---- sum(axis)
            for a in range(len(shp)):
                ax = a if (it + a) % 2 == 0 else a - len(shp)
                if mode == 2:
                    yb, xb = via_tracer(lambda fx: ap.sum(fx, axis=ax), x, lambda s: idata(rng, *s))
                else:
                    y = ap.sum(U(x.copy()), axis=ax)
                    yb = idata(rng, *y.data.shape)
                    x0 = idata(rng, *x.shape) if mode == 1 else numpy.zeros_like(x)
                    r = U.pb_sum(U(yb.copy()), U(x.copy()), y, ax, None, None, out=(U(x0.copy()),) if mode == 1 else None)
                    xb = numpy.asarray(r.data) - x0
                for d in range(D):
                    for p in range(P):
                        terms.append('(eqs (pb_sum_axis %s %d %s) %s)' % (lib.natseq(shp), a, flat(yb[d, p]), flat(xb[d, p])))
                        metas.append(dict(op='pb_sum(axis)', shape=list(shp), axis=ax, D=D, d=d, p=p, mode=mode))
            # ---- sum()
            if mode == 2:
                yb, xb = via_tracer(lambda fx: ap.sum(fx), x, lambda s: idata(rng, *s))
            else:
                y = ap.sum(U(x.copy()))
                yb = idata(rng, *y.data.shape)
                x0 = idata(rng, *x.shape) if mode == 1 else numpy.zeros_like(x)
                r = U.pb_sum(U(yb.copy()), U(x.copy()), y, None, None, None, out=(U(x0.copy()),) if mode == 1 else None)
                xb = numpy.asarray(r.data) - x0
            for d in range(D):
                for p in range(P):
                    terms.append('(eqs (pb_sum_all %s %s) %s)' % (lib.natseq(shp), flat(yb[d, p]), flat(xb[d, p])))
                    metas.append(dict(op='pb_sum()', shape=list(shp), D=D, d=d, p=p, mode=mode))
            # ---- tile
            reps = [2, (2,), (1, 2), (2, 1), (2, 2), (1, 1, 2), (3,), (2, 1, 2)][(it // 3) % 8]
            s2, r2 = pad_tile(shp, reps)
            if mode == 2:
                yb, xb = via_tracer(lambda fx: ap.tile(fx, reps), x, lambda s: idata(rng, *s))
            else:
                B = U.tile(U(x.copy()), reps)
                yb = idata(rng, *B.data.shape)
                x0 = idata(rng, *x.shape) if mode == 1 else numpy.zeros_like(x)
                r = U.pb_tile(U(yb.copy()), U(x.copy()), reps, B, out=(U(x0.copy()),) if mode == 1 else None)
                xb = numpy.asarray(r.data) - x0
            for d in range(D):
                for p in range(P):
                    terms.append('(eqs (pb_tile %s %s %s) %s)' % (lib.natseq(s2), lib.natseq(r2), flat(yb[d, p]), flat(xb[d, p])))
                    metas.append(dict(op='pb_tile', shape=list(shp), reps=repr(reps), D=D, d=d, p=p, mode=mode))
            # ---- diag of a square matrix
            n = 1 + it % 4
            A = idata(rng, D, P, n, n)
            if mode == 2:
                yb, xb = via_tracer(lambda fx: ap.diag(fx), A, lambda s: idata(rng, *s))
            else:
                y = U.diag(U(A.copy()))
                yb = idata(rng, *y.data.shape)
                x0 = idata(rng, *A.shape) if mode == 1 else numpy.zeros_like(A)
                r = U.pb_diag(U(yb.copy()), U(A.copy()), y, out=(U(x0.copy()),) if mode == 1 else None)
                xb = numpy.asarray(r.data) - x0
            for d in range(D):
                for p in range(P):
                    terms.append('(eqs (pb_diag %d %s) %s)' % (n, flat(yb[d, p]), flat(xb[d, p])))
                    metas.append(dict(op='pb_diag', n=n, D=D, d=d, p=p, mode=mode))
        except Exception as e:
            rep.violation('reduce:exception', 'the reverse rule of sum/tile/diag raises %s' % repr(e)[:300], dict(kind='reduce-model', shape=shp, mode=mode, exc=repr(e)[:1500]))
    finish(rep, pid, 'r', terms, metas, 'the adjoint the implementation returns differs from the proved rule of Reduce.v (ReduceSpec.v: the transposed map)')


def c17_special_values(rep, ap, rng, tier):
    """bit-wise round trips of the conversions on values at the edge of the float64 range: +-1.7e308 (above DBL_MAX/2, so that any
    'x + x' inside a conversion overflows), +-8e307, -0.0, the smallest subnormal and normal numbers, placed in turn at every position
    (diagonal and off-diagonal).  UPLO='F' is documented to symmetrise with 0.5*(a+b) and is therefore only given magnitudes below
    DBL_MAX/2; 'L', 'U', vecsym and the other conversions move data and must keep every finite value."""
    import algopy.utils as U
    UTPM = ap.UTPM
    specials = [1.7e308, -1.7e308, 8e307, -0.0, 5e-324, -2.2250738585072014e-308]

    def same(a, b):
        a = numpy.ascontiguousarray(a); b = numpy.ascontiguousarray(b)
        return a.shape == b.shape and a.dtype == b.dtype and a.tobytes() == b.tobytes()

    for N in range(1, 4 if tier == 'quick' else 6):
        nv = N * (N + 1) // 2
        for pos in range(nv):
            for sv in specials:
                v = numpy.array([float(rng.randint(1, 9)) for _ in range(nv)])
                v[pos] = sv
                rep.count('special value', repr(sv))
                rep.case(('special', N, pos, repr(sv)), True, sample=dict(check='special values', N=N, pos=pos, value=repr(sv)) if pos == 0 else None)
                try:
                    with numpy.errstate(all='ignore'):
                        A = U.vecsym(v)
                        D, P = 2, 2
                        vd = numpy.array([[v * (1 if (d + p) % 2 == 0 else -1) for p in range(P)] for d in range(D)])
                        Au = ap.vecsym(UTPM(vd.copy()))
                        want = numpy.array([[U.vecsym(vd[d, p]) for p in range(P)] for d in range(D)])
                        if not same(Au.data, want):
                            rep.violation('symvec:special:vecsym', 'UTPM vecsym is not the slice-wise vecsym for v[%d] = %r, N=%d' % (pos, sv, N),
                                          dict(kind='symvec-special', N=N, pos=pos, value=repr(sv), v=[repr(c) for c in v]))
                        for uplo in ('L', 'U') + (('F',) if abs(sv) < 8.9e307 else ()):
                            if not same(U.symvec(A, uplo), v):
                                rep.violation('symvec:special:roundtrip', "symvec(vecsym(v),'%s') != v bit-wise for v[%d] = %r, N=%d" % (uplo, pos, sv, N),
                                              dict(kind='symvec-special', N=N, pos=pos, uplo=uplo, value=repr(sv)))
                            vb = ap.symvec(Au, uplo)
                            if not same(vb.data, vd):
                                rep.violation('symvec:special:utpm', "UTPM symvec(vecsym(v),'%s') != v bit-wise for v[%d] = %r, N=%d" % (uplo, pos, sv, N),
                                              dict(kind='symvec-special', N=N, pos=pos, uplo=uplo, value=repr(sv)))
                            if not same(ap.vecsym(vb).data, Au.data):
                                rep.violation('symvec:special:utpm2', "UTPM vecsym(symvec(A,'%s')) != A bit-wise for an entry %r, N=%d" % (uplo, sv, N),
                                              dict(kind='symvec-special', N=N, pos=pos, uplo=uplo, value=repr(sv)))
                except Exception as e:
                    rep.violation('symvec:special:exception', 'symvec/vecsym raises %r' % (e,), dict(kind='symvec-special', N=N, pos=pos, value=repr(sv), exc=repr(e)))
    # the other conversions: base point + directions <-> polynomial, containers <-> polynomial, shift
    for it, sv in enumerate(specials):
        try:
            with numpy.errstate(all='ignore'):
                D, P, shp = 3, 2, (2,)
                x = numpy.array([float(rng.randint(1, 9)) for _ in range(D * P * 2)]).reshape((D, P) + shp)
                x[it % D, it % P, it % 2] = sv
                x[0, :, :] = x[0, 0, :]
                u = UTPM(x.copy())
                b, dirs = U.utpm2base_and_dirs(u)
                back = U.base_and_dirs2utpm(b, dirs)
                if not same(back.data, x):
                    rep.violation('conv:special:base_and_dirs', 'base_and_dirs2utpm(utpm2base_and_dirs(x)) != x bit-wise with an entry %r' % sv, dict(kind='conv-special', value=repr(sv)))
                cont = numpy.array([u[i] for i in range(2)], dtype=object)
                back2 = UTPM.as_utpm(cont)
                if not same(back2.data, x):
                    rep.violation('conv:special:as_utpm', 'as_utpm([x[0], x[1]]) != x bit-wise with an entry %r' % sv, dict(kind='conv-special', value=repr(sv)))
                s = 1
                up = UTPM(x.copy()).shift(s)
                if not same(up.data[s:], x[:D - s]):
                    rep.violation('conv:special:shift', 'shift(%d) does not keep the entry %r bit-wise' % (s, sv), dict(kind='conv-special', value=repr(sv)))
        except Exception as e:
            rep.violation('conv:special:exception', 'conversion raises %r with an entry %r' % (e, sv), dict(kind='conv-special', value=repr(sv), exc=repr(e)))


def c05_projection_nodes(rep, ap, rng, tier):
    """real / imag / conjugate applied while recording with REAL data (where they are the identity / zero / the identity on the values)
    must still be recorded as nodes: the graph replayed at a complex point has to apply them.  Call forms: module function, Function
    method; recorded with a plain array or a polynomial; replayed with a complex array and a complex polynomial."""
    U = ap.UTPM
    forms = [('algopy.real', lambda z: ap.real(z)), ('algopy.imag', lambda z: ap.imag(z)), ('algopy.conjugate', lambda z: ap.conjugate(z)),
             ('z.real()', lambda z: z.real() if isinstance(z, ap.Function) else ap.real(z)),
             ('z.imag()', lambda z: z.imag() if isinstance(z, ap.Function) else ap.imag(z)),
             ('z.conjugate()', lambda z: z.conjugate() if isinstance(z, ap.Function) else ap.conjugate(z))]
    for it in range(6 if tier == 'quick' else 60):
        N = 1 + it % 3
        w = numpy.array([float(rng.randint(1, 5)) for _ in range(N)])
        for fname, f in forms:
            def prog(x):
                z = x * x + 2.0 * x
                return ap.sum(f(z) * w) + ap.sum(x) * 0.5
            for rec_kind in ('ndarray', 'UTPM'):
                xr = numpy.array([rng.uniform(0.5, 2.0) for _ in range(N)])
                x_rec = xr if rec_kind == 'ndarray' else U(numpy.array([[xr], [xr[::-1]]]))
                try:
                    cg = ap.CGraph(); fx = ap.Function(x_rec); fy = prog(fx)
                    cg.trace_off(); cg.independentFunctionList = [fx]; cg.dependentFunctionList = [fy]
                except Exception as e:
                    rep.notes.append('projection program %s: recording raised %r' % (fname, e)); continue
                names = [getattr(getattr(g, 'func', None), '__name__', '') for g in cg.functionList]
                rep.count('projection node form', fname)
                want_node = fname.split('.')[-1].replace('()', '')
                if not any(want_node in nm for nm in names):
                    rep.violation('record:projection-node', '%s applied to real data while recording left no node on the tape (nodes: %s)' % (fname, names),
                                  dict(kind='projection', form=fname, recorded_with=rec_kind, nodes=names))
                for rk in ('ndarray_complex', 'UTPM_complex', 'ndarray_real'):
                    re_ = numpy.array([rng.uniform(0.5, 2.0) for _ in range(N)]); im_ = numpy.array([rng.uniform(0.5, 2.0) for _ in range(N)])
                    if rk == 'ndarray_complex':
                        xn = re_ + 1j * im_
                    elif rk == 'ndarray_real':
                        xn = re_
                    else:
                        xn = U(numpy.array([[re_ + 1j * im_, im_ - 1j * re_], [im_ + 0.5j * re_, re_ * (1 + 1j)]]))
                    rep.case(('projection', fname, rec_kind, rk, repr(re_.tolist()), repr(im_.tolist())), True,
                             sample=dict(check='projection nodes replayed at a complex point', form=fname, recorded_with=rec_kind, replayed_with=rk))
                    try:
                        want = prog(xn if not isinstance(xn, U) else U(xn.data.copy()))
                        got = cg.function([xn])[0]
                    except Exception as e:
                        rep.violation('replay:projection:exception', 'replay of a program with %s raises %r' % (fname, e), dict(kind='projection', form=fname, replayed_with=rk)); continue
                    a = numpy.asarray(got.data if isinstance(got, U) else got); b = numpy.asarray(want.data if isinstance(want, U) else want)
                    if a.shape != b.shape or not numpy.all(numpy.abs(a - b) <= 1e-12 * (1 + numpy.abs(b))):
                        rep.violation('replay:projection', 'graph with %s recorded at a real %s, replayed with %s: differs from running the program there (%r vs %r)'
                                      % (fname, rec_kind, rk, a.ravel()[:3].tolist(), b.ravel()[:3].tolist()),
                                      dict(kind='projection', form=fname, recorded_with=rec_kind, replayed_with=rk, N=N, got=repr(a.tolist()), want=repr(b.tolist())))


def staged_spectra(rng, tier):
    """symmetric A(t) = W(t) diag(lambda(t)) W(t)^T mod t^D with W(t) = Q0 exp(S t) orthogonal and eigenvalue polynomials chosen so that a
    cluster of the base spectrum splits IN STAGES (3 -> 2+1 at order 1 -> 1+1+1 at order 2; a pair only at order 2) while SIMPLE base
    eigenvalues sit below, between or above the clusters (the block bookkeeping of _eigh then has blocks of size 1 next to blocks that are
    refined again at later orders)."""
    r = lambda: float(rng.choice([-1.5, -0.5, 0.75, 1.25, 2.5]))
    pats = [('[1,2,2,2] 3->2+1->1+1+1', [[1, 2, 2, 2], [r(), 0.5, 0.5, -1.0], [r(), 1.0, -2.0, r()]]),
            ('[1,2,2,3,3] pair@1, pair@2', [[1, 2, 2, 3, 3], [r(), 1.0, -1.0, 0.5, 0.5], [r(), r(), r(), 2.0, -1.0]]),
            ('[2,2,2,5] simple above', [[2, 2, 2, 5], [0.5, 0.5, -1.0, r()], [1.0, -2.0, r(), r()]]),
            ('[0,1,1,1,4] simple on both sides', [[0, 1, 1, 1, 4], [r(), 2.0, 2.0, -1.0, r()], [r(), 1.0, 3.0, r(), r()]]),
            ('[1,2,2] pair@2 above a simple one', [[1, 2, 2], [r(), 1.0, 1.0], [r(), -1.0, 2.0]]),
            ('[1,3,3,3,3] 4->2+2->1+1+1+1', [[1, 3, 3, 3, 3], [r(), 1.0, 1.0, -1.0, -1.0], [r(), 0.5, -0.5, 2.0, -2.0]]),
            ('[-1,0,2,2,2] two simple below', [[-1, 0, 2, 2, 2], [r(), r(), 0.5, 0.5, -1.0], [r(), r(), 1.0, -2.0, r()]])]
    out = []
    for k, (name, coeffs) in enumerate(pats):
        n = len(coeffs[0])
        for De in ((3, 4) if tier == 'quick' else (3, 4, 5, 6)):
            P = 1 + (k + De) % 2
            Ae = numpy.zeros((De, P, n, n))
            for p in range(P):
                lam = numpy.zeros((De, n))
                for d in range(De):
                    lam[d] = coeffs[d] if d < len(coeffs) else [r() for _ in range(n)]
                if p == 1:
                    lam[1:] *= -0.5        # another direction: same stages, different values (ascending base order is kept)
                Q0, _ = numpy.linalg.qr(numpy.array([[rng.uniform(-1, 1) for _ in range(n)] for _ in range(n)]))
                S = numpy.array([[rng.uniform(-1, 1) for _ in range(n)] for _ in range(n)]); S = S - S.T
                W = numpy.zeros((De, n, n)); W[0] = Q0
                for d in range(1, De):
                    W[d] = W[d - 1] @ S / d
                for d in range(De):
                    for a in range(d + 1):
                        for b in range(d - a + 1):
                            Ae[d, p] += W[a] @ numpy.diag(lam[b]) @ W[d - a - b].T
                Ae[:, p] = 0.5 * (Ae[:, p] + Ae[:, p].transpose((0, 2, 1)))
            out.append((name, De, Ae))
    return out


def c13_mask_model(rep, ap, rng, tier, pid):
    """UTPM.triu / UTPM.tril (every offset k that matters for the shape and two beyond, square / wide / tall / one-row / one-column) and
    UTPM.trace against the Coq model Mask.v, exactly on every coefficient slice"""
    U = ap.UTPM
    terms, metas = [], []
    shapes = [(1, 1), (2, 2), (3, 3), (2, 4), (4, 2), (1, 3), (3, 1), (3, 4)]
    for it in range(8 if tier == 'quick' else 64):
        D = 1 + it % 3; P = 1 + (it // 3) % 2
        n, m = shapes[it % len(shapes)]
        x = idata(rng, D, P, n, m)
        x[x == 0] = 7.0          # no accidental zeros: a dropped mask must show
        try:
            for k in range(-n - 1, m + 2):
                kp, kn = (k, 0) if k >= 0 else (0, -k)
                for upper, name, f in ((True, 'triu', U.triu), (False, 'tril', U.tril)):
                    form = (it + k) % 3
                    if form == 0:
                        y = f(U(x.copy()), k)
                    elif form == 1:
                        y = f(U(x.copy()), k=k)
                    else:
                        y = getattr(ap, name)(U(x.copy()), k) if k != 0 else getattr(ap, name)(U(x.copy()))
                    for d in range(D):
                        for p in range(P):
                            terms.append('(eqs (tri_mask %s %d %d %d %d %s) %s)' % ('true' if upper else 'false', kp, kn, n, m, flat(x[d, p]), flat(y.data[d, p])))
                            metas.append(dict(op=name, n=n, m=m, k=k, D=D, d=d, p=p))
            if n == m:
                y = U.trace(U(x.copy()))
                for d in range(D):
                    for p in range(P):
                        terms.append('(eqs [:: trace_fwd %d %s] %s)' % (n, flat(x[d, p]), flat([y.data[d, p]])))
                        metas.append(dict(op='trace', n=n, D=D, d=d, p=p))
        except Exception as e:
            rep.violation('reduce:exception', 'triu/tril/trace raises %r' % (e,), dict(kind='reduce-model', shape=[n, m], exc=repr(e)))
    global IMPORTS
    imp = IMPORTS
    IMPORTS = IMPORTS + ' Mask'
    try:
        finish(rep, pid, 'k', terms, metas, 'the result differs from the Coq model Mask.v on a coefficient slice')
    finally:
        IMPORTS = imp


def c03_trace_rule(rep, ap, rng, tier, pid):
    """UTPM.pb_trace called directly (fresh / accumulating) and through the tracer against pb_trace of Mask.v (proved adjoint of trace)"""
    U = ap.UTPM
    terms, metas = [], []
    for it in range(6 if tier == 'quick' else 60):
        D = 1 + it % 3; P = 1 + (it // 3) % 2; n = 1 + it % 4
        x = idata(rng, D, P, n, n)
        mode = it % 3
        try:
            if mode == 2:
                cg = ap.CGraph(); fx = ap.Function(U(x.copy())); fy = ap.trace(fx)
                cg.trace_off(); cg.independentFunctionList = [fx]; cg.dependentFunctionList = [fy]
                yb = idata(rng, D, P)
                cg.pullback([U(yb.copy())])
                xb = numpy.asarray(fx.xbar.data)
            else:
                y = U.trace(U(x.copy()))
                yb = idata(rng, D, P)
                x0 = idata(rng, D, P, n, n) if mode == 1 else numpy.zeros_like(x)
                r = U.pb_trace(U(yb.copy()), U(x.copy()), y, out=(U(x0.copy()),) if mode == 1 else None)
                r = r[0] if isinstance(r, tuple) else r
                xb = numpy.asarray(r.data) - x0
            for d in range(D):
                for p in range(P):
                    terms.append('(eqs (pb_trace %d %s) %s)' % (n, lib.qlit(F(int(yb[d, p]))), flat(xb[d, p])))
                    metas.append(dict(op='pb_trace', n=n, D=D, d=d, p=p, mode=mode))
        except Exception as e:
            rep.violation('reduce:exception', 'the reverse rule of trace raises %s' % repr(e)[:300], dict(kind='reduce-model', n=n, mode=mode, exc=repr(e)[:1500]))
    global IMPORTS
    imp = IMPORTS
    IMPORTS = IMPORTS + ' Mask'
    try:
        finish(rep, pid, 'k', terms, metas, 'the adjoint the implementation returns differs from the proved rule pb_trace of Mask.v')
    finally:
        IMPORTS = imp


def c03_view_rules(rep, ap, rng, tier, pid):
    """reverse sweep through VIEW-like nodes recorded by the tracer - x[ix] with a generated basic index expression, transposition, reshape -
    with the adjoint of the parent prefilled by a second use of x: xbar must be (ybar2 broadcast as is) + scatter of ybar along the index
    list the Coq model computes from the index expression (GatherRules.v: that scatter is the adjoint), exactly"""
    import c13
    U = ap.UTPM
    terms, metas = [], []
    for it in range(16 if tier == 'quick' else 200):
        D = 1 + it % 3; P = 1 + (it // 3) % 2
        rank = 1 + it % 3
        shp = tuple(rng.randint(1, 3) for _ in range(rank))
        x = idata(rng, D, P, *shp)
        n = int(numpy.prod(shp))
        kind = ('getitem', 'transpose', 'reshape', 'getitem')[it % 4]
        try:
            if kind == 'getitem':
                items = c13.gen_index(rng, shp)
                if not c13.index_valid(items, shp):
                    continue
                ix = c13.py_index(items)
                op = lambda fx: fx[ix]
                idx_term = '(if getitem_gather %s %s is Some g then g.2 else [::])' % (c13.coq_index(items), lib.natseq(shp))
                desc = repr(ix)
            elif kind == 'transpose':
                op = lambda fx: fx.T
                idx_term = '(transpose_gather %s %s).2' % (lib.natseq(list(range(rank))[::-1]), lib.natseq(shp))
                desc = '.T'
            else:
                ns = (n,) if it % 8 < 4 else (1, n)
                op = lambda fx: fx.reshape(ns)
                idx_term = '(iota 0 %d)' % n
                desc = 'reshape%r' % (ns,)
            cg = ap.CGraph(); fx = ap.Function(U(x.copy()))
            fy = op(fx)
            if not isinstance(fy, ap.Function) or not isinstance(fy.x, U) or fy.x.data.ndim < 2:
                continue
            fz = fx * 1.0           # a second use of x: its adjoint is added to the same parent adjoint
            cg.trace_off(); cg.independentFunctionList = [fx]; cg.dependentFunctionList = [fy, fz]
            yb = idata(rng, *fy.x.data.shape); zb = idata(rng, *x.shape)
            cg.pullback([U(yb.copy()), U(zb.copy())])
            xb = numpy.asarray(fx.xbar.data) - zb
        except Exception as e:
            rep.violation('reduce:exception', 'reverse sweep through %s raises %s' % (kind, repr(e)[:300]), dict(kind='reduce-model', shape=shp, exc=repr(e)[:1500]))
            continue
        for d in range(D):
            for p in range(P):
                terms.append('(eqs (scatter_add %s %s %d) %s)' % (idx_term, flat(yb[d, p]), n, flat(xb[d, p])))
                metas.append(dict(op='view:' + kind, shape=list(shp), index=desc, D=D, d=d, p=p))
    finish(rep, pid, 'v', terms, metas, 'the adjoint of the parent after the reverse sweep differs from the scatter of ybar along the model index list (GatherRules.v)')


def c03_broadcast_rules(rep, ap, rng, tier, pid):
    """reverse sweep through broadcasting arithmetic recorded by the tracer (x + y, x - y, x * constant array, constant array * x, with every
    right-aligned broadcasting pattern incl. rank extension and 0-d operands): the operand adjoints must be the scatter-add of the output
    adjoint along the broadcasting index list of Bcast.v (BcastSpec.v: in range, hence the adjoint), exactly; the result shape must be
    the model's bshape and compatible with both operands"""
    U = ap.UTPM
    pairs = [((3, 1), (1, 2)), ((2,), (3, 2)), ((3, 2), (2,)), ((2, 1, 2), (3, 1)), ((1,), (2, 2)), ((2, 2), (2, 2)), ((), (2, 3)),
             ((2, 3), ()), ((1, 1), (3,)), ((2, 1), (1,)), ((1, 3, 1), (2, 1, 2))]
    terms, metas = [], []
    global IMPORTS
    for it in range(len(pairs) if tier == 'quick' else 6 * len(pairs)):
        s1, s2 = pairs[it % len(pairs)]
        D = 1 + it % 3; P = 1 + (it // 3) % 2
        o = numpy.broadcast_shapes(s1, s2)
        x = idata(rng, D, P, *s1); y = idata(rng, D, P, *s2)
        c = idata(rng, *s2)
        for opname in ('add', 'sub', 'mul_const', 'const_mul'):
            try:
                cg = ap.CGraph(); fx = ap.Function(U(x.copy())); fy = ap.Function(U(y.copy()))
                if opname == 'add':
                    fz = fx + fy
                elif opname == 'sub':
                    fz = fx - fy
                elif opname == 'mul_const':
                    fz = fx * c
                else:
                    if c.ndim == 0:
                        fz = float(c) * fx
                    else:
                        fz = c * fx
                        if not isinstance(fz, ap.Function):
                            continue      # ndarray.__mul__ took over element-wise (object array): not a traced node
                cg.trace_off(); cg.independentFunctionList = [fx, fy]; cg.dependentFunctionList = [fz]
                if tuple(fz.x.data.shape[2:]) != tuple(o):
                    rep.violation('reduce:broadcast:shape', '%s of shapes %r and %r has shape %r, NumPy broadcasts to %r' % (opname, s1, s2, fz.x.data.shape[2:], o),
                                  dict(kind='reduce-model', op=opname, shapes=[s1, s2]))
                    continue
                zb = idata(rng, D, P, *o)
                cg.pullback([U(zb.copy())])
                xb = numpy.asarray(fx.xbar.data); yb = numpy.asarray(fy.xbar.data)
            except Exception as e:
                rep.violation('reduce:exception', 'reverse sweep through broadcasting %s raises %s' % (opname, repr(e)[:300]),
                              dict(kind='reduce-model', op=opname, shapes=[s1, s2], exc=repr(e)[:1500]))
                continue
            head = '(bshape %s %s == Some %s) && bcompat %s %s && bcompat %s %s' % (lib.natseq(s1), lib.natseq(s2), lib.natseq(o), lib.natseq(s1), lib.natseq(o), lib.natseq(s2), lib.natseq(o))
            for d in range(D):
                for p in range(P):
                    zx = zb[d, p] * (numpy.broadcast_to(c, o) if opname in ('mul_const', 'const_mul') else 1.0)
                    t = '(%s && eqs (scatter_add (bcast_idx %s %s) %s %d) %s' % (head, lib.natseq(s1), lib.natseq(o), flat(zx), int(numpy.prod(s1)), flat(xb[d, p]))
                    if opname in ('add', 'sub'):
                        zy = zb[d, p] * (1.0 if opname == 'add' else -1.0)
                        t += ' && eqs (scatter_add (bcast_idx %s %s) %s %d) %s' % (lib.natseq(s2), lib.natseq(o), flat(zy), int(numpy.prod(s2)), flat(yb[d, p]))
                    terms.append(t + ')')
                    metas.append(dict(op='broadcast:' + opname, shapes=[list(s1), list(s2)], D=D, d=d, p=p))
    imp = IMPORTS
    IMPORTS = IMPORTS + ' Bcast'
    try:
        finish(rep, pid, 'b', terms, metas, 'the operand adjoint after the reverse sweep differs from the scatter-add of the output adjoint along the broadcasting index list (Bcast.v)')
    finally:
        IMPORTS = imp
