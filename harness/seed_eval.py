"""Evaluate a seeded change: seed_eval.py <deliv_dir> <seed_id> <property> <check ids...>
 1. confirm in a scratch worktree: demo PASS on the original, FAIL with the patch, test suite still passes with the patch;
 2. apply the patch to /repo, run the given checks (quick tier), undo the patch;
 3. store patch.diff, demo.py, notes.txt, meta.json under /verif/seeded/<seed_id>/."""
import sys, os, subprocess, json, shutil, re

deliv, sid, prop = sys.argv[1], sys.argv[2], sys.argv[3]
checks = sys.argv[4:]
VERIF = '/verif'
wt = '/tmp/seedwt_%s' % sid


def sh(cmd, **kw):
    p = subprocess.run(cmd, shell=True, capture_output=True, text=True, **kw)
    return p.returncode, (p.stdout + p.stderr)


sh('git -C /repo worktree remove --force %s' % wt)
rc, o = sh('git -C /repo worktree add -q %s HEAD' % wt)
assert rc == 0, o
env = 'PYTHONPATH=%s PYTHONWARNINGS=ignore' % wt
rc0, out0 = sh('cd %s && %s /venv/bin/python %s/demo.py' % (wt, env, deliv), timeout=600)
rca, oa = sh('git -C %s apply %s/patch.diff' % (wt, deliv))
rc1, out1 = sh('cd %s && %s /venv/bin/python %s/demo.py' % (wt, env, deliv), timeout=600)
rct, outt = sh('cd %s && %s /venv/bin/python -m pytest -q -p no:cacheprovider algopy 2>&1 | tail -1' % (wt, env), timeout=900)
sh('git -C /repo worktree remove --force %s' % wt)
confirmed = (rc0 == 0 and rca == 0 and rc1 != 0 and '385 passed' in outt)
print('demo on original: rc=%d | patch applies: %s | demo with patch: rc=%d | tests: %s' % (rc0, rca == 0, rc1, outt.strip()[-60:]))
results = {}
if confirmed:
    rc, o = sh('git -C /repo apply %s/patch.diff' % deliv)
    assert rc == 0, o
    try:
        for c in checks:
            rcc, oc = sh('cd %s && ./check %s --tier quick' % (VERIF, c), timeout=1800)
            viol = re.findall(r'^VIOLATION.*$', oc, re.M)
            keys = []
            for v in viol:
                m = re.search(r'replay=(\S+)', v)
                if m and os.path.exists(m.group(1)):
                    try:
                        d = json.load(open(m.group(1))); keys.append(d.get('key'))
                    except Exception:
                        pass
            results[c] = dict(exit=rcc, violations=len(viol), keys=keys, last=oc.strip().splitlines()[-1] if oc.strip() else '')
            print(c, results[c])
    finally:
        sh('git -C /repo checkout -- .')
    # regenerate evidence on the unchanged tree
    for c in checks:
        sh('cd %s && ./check %s --tier quick' % (VERIF, c), timeout=1800)
dst = os.path.join(VERIF, 'seeded', sid)
os.makedirs(dst, exist_ok=True)
for fn in ('patch.diff', 'demo.py', 'notes.txt'):
    if os.path.exists(os.path.join(deliv, fn)):
        shutil.copy(os.path.join(deliv, fn), dst)
notes = open(os.path.join(deliv, 'notes.txt')).read() if os.path.exists(os.path.join(deliv, 'notes.txt')) else ''
meta = dict(seed_id=sid, breaks_property=prop, confirmed=confirmed,
            what_was_run=dict(demo_on_original_exit=rc0, demo_with_patch_exit=rc1, test_suite_with_patch=outt.strip()[-80:],
                              checks={c: results.get(c) for c in checks}),
            needs_to_manifest=notes[:1500],
            caught_by=[c for c in checks if results.get(c, {}).get('exit') == 1],
            missed_by=[c for c in checks if results.get(c, {}).get('exit') == 0])
json.dump(meta, open(os.path.join(dst, 'meta.json'), 'w'), indent=1)
print('confirmed' if confirmed else 'NOT CONFIRMED', 'caught_by', meta['caught_by'], 'missed_by', meta['missed_by'])
