"""entry point:  check.py <ID> [--tier quick|thorough] [--replay file]"""
import sys, os, importlib, argparse, traceback
sys.path.insert(0, os.path.dirname(os.path.abspath(__file__)))
import lib


def main():
    ap = argparse.ArgumentParser()
    ap.add_argument('pid')
    ap.add_argument('--tier', default=os.environ.get('VERIF_TIER', 'quick'), choices=['quick', 'thorough'])
    ap.add_argument('--replay', default=None)
    ap.add_argument('--seed', type=int, default=int(os.environ.get('VERIF_SEED', '0') or 0))
    a = ap.parse_args()
    mod = importlib.import_module(a.pid.lower())
    try:
        lib.import_algopy()
        if a.replay:
            rc = mod.replay(a.replay)
        else:
            rc = mod.main(a.tier, a.seed)
    except lib.BrokenCheck as e:
        print('BROKEN-CHECK %s: %s' % (a.pid, e))
        sys.exit(2)
    sys.exit(rc)


if __name__ == '__main__':
    main()
