"""C07 -- linear-algebra functions propagate matrix Taylor polynomials correctly.
Theorems: Props/C07.v.  Correspondence: implementation vs the Coq model Matrix.v (list matrices over Qc, base inverses from
NumPy as the implementation takes them) for dot / inv / solve (3 operand mixes) / trace / det; model-free predicates evaluated
with exact rational series arithmetic on the implementation output: numpy.dot / numpy.outer on object arrays of exact series
(all rank combinations and operand mixes), A(t) inv(A)(t) = I, A(t) X(t) = B(t), Leibniz determinant, det * logdet' = det'."""
import json, itertools, itertools
from fractions import Fraction
import numpy, scipy.linalg
import lib, exact
from lib import Report, qlit, qseq, seqseq
from exact import PS, Cx

PID = 'C07'
IMPORTS = 'QcField Sums Series Matrix Logdet'
DEFS = """
Definition mxs_close (tol : Qc) (n m : nat) (a b : seq (mx K)) : bool :=
  (size a == size b) && all (fun ab => Qc_allclose tol (flatten (mkmx n m (mxget ab.1))) (flatten (mkmx n m (mxget ab.2)))) (zip a b).
"""
F = Fraction
TOL = F(1, 2 ** 26)



_LAYOUTS = itertools.cycle(['C', 'C', 'F', 'T', 'C', 'T'])


def mkU(a):
    """UTPM over a copy of `a` in a memory layout that cycles through C order, Fortran order and transposed trailing axes: the kernels
    must not depend on the coefficient array being C-contiguous"""
    import algopy
    return algopy.UTPM(lib.relayout(numpy.array(a, copy=True), next(_LAYOUTS)))


def dy(rng, lo=-12, hi=12, den=4):
    return float(F(rng.randint(lo, hi), den))


def base_matrix(rng, n, pivot=True, perm=None):
    """well conditioned n x n matrix built from rational factors P L U (forces row pivoting when pivot=True; perm fixes the row permutation)"""
    L = numpy.eye(n) + numpy.tril(numpy.array([[rng.randint(-3, 3) / 4 for _ in range(n)] for _ in range(n)]), -1)
    U = numpy.triu(numpy.array([[rng.randint(-4, 4) / 4 for _ in range(n)] for _ in range(n)]), 1) + numpy.diag([rng.choice([-2, -1, 1, 2, 0.5, -0.5]) * 2 for _ in range(n)])
    if perm is None:
        perm = list(range(n))
        if pivot:
            rng.shuffle(perm)
    P = numpy.eye(n)[perm]
    return P @ L @ U


def mat_utpm(rng, D, P, n, m, base=None):
    data = numpy.zeros((D, P, n, m))
    for idx in numpy.ndindex(*data.shape):
        data[idx] = dy(rng)
    if base is not None:
        for p in range(P):
            data[0, p] = base(p)
    return data


def mxlit(A):
    A = numpy.asarray(A)
    if A.ndim == 1:
        A = A.reshape((-1, 1))
    return seqseq([[lib.frac(v) for v in row] for row in A])


def serlit(data, p):
    """[A_0; ...; A_{D-1}] of direction p"""
    return '[:: ' + '; '.join(mxlit(data[d, p]) for d in range(data.shape[0])) + ']'


def as2d(a, side):
    """1-D operands of dot act as row (left) / column (right) vectors"""
    a = numpy.asarray(a)
    if a.ndim == 1:
        return a.reshape((1, -1)) if side == 'l' else a.reshape((-1, 1))
    return a


def obj_mats(data):
    """list over p of object ndarray (shape) of exact series"""
    return exact.utpm_to_obj(data)


def ps_residual(objs):
    """largest |coefficient| in an object array of PS"""
    worst = F(0)
    for a in objs:
        arr = a if isinstance(a, numpy.ndarray) else numpy.array([a], dtype=object)
        for ps in arr.reshape(-1):
            for c in ps.c:
                worst = max(worst, c.absmax())
    return worst


def scale_of(*datas):
    return 1 + max(float(numpy.max(numpy.abs(d))) for d in datas)


def main(tier, seed):
    algopy = lib.import_algopy()
    rep = Report(PID, tier, seed)
    rep.rule = ('dot: all rank combinations 1-D/2-D/3-D x operand mixes {UTPM,UTPM},{UTPM,ndarray},{ndarray,UTPM}; outer: equal and unequal lengths, '
                'three operand mixes; inv, solve (matrix and multi-column right-hand sides, three operand mixes), trace, det, logdet, expm: base '
                'matrices P L U from rational factors with random row permutations (pivoting), different base matrix per direction, arbitrary '
                'dyadic higher coefficients, sizes 1..4, D<=5, P<=3; non-trivial = D>=2 and size>=2; distinct by full case content')
    rep.assumptions = ['numpy.linalg.inv / solve at the base point are taken as given (their results are inputs of the model)',
                       'relative tolerance 2^-26 between exact model and float64 implementation; residual predicates scaled by operand magnitude',
                       'closeness of the Pade approximant to the true matrix exponential is numerical analysis: validated only against scipy.linalg.expm at order 0 and by the ODE d/dt expm(tA)|... identity is not used']
    rep.theorems()
    rng = lib.rng_for(seed, PID)
    UTPM = algopy.UTPM
    terms, metas = [], []
    N = 40 if tier == 'quick' else 500

    def note_case(kind, meta, nontriv):
        rep.count('kind', kind)
        rep.case((kind, json.dumps(meta, sort_keys=True, default=str)), nontriv, sample=meta)

    # ------------------------------------------------------------------ dot
    RANKS = [((3,), (3,)), ((2, 3), (3,)), ((3,), (3, 2)), ((2, 3), (3, 2)), ((2, 2, 3), (3,)), ((2, 3), (2, 3, 2)), ((2, 2, 3), (3, 2)), ((1, 3), (3, 1)), ((4,), (4,))]
    for _ in range(N):
        xs, ys = rng.choice(RANKS)
        D = rng.randint(1, 4); P = rng.randint(1, 3)
        mix = rng.choice(['UU', 'UU', 'Ua', 'aU'])
        xd = numpy.array([dy(rng) for _ in range(D * P * int(numpy.prod(xs)))]).reshape((D, P) + xs)
        yd = numpy.array([dy(rng) for _ in range(D * P * int(numpy.prod(ys)))]).reshape((D, P) + ys)
        # sparsity in the coefficient index: whole coefficient blocks that vanish (A(t) = A_0 + A_2 t^2, a zero base point, ...),
        # per direction, on either operand
        sparse = rng.random() < 0.4
        if sparse:
            for arr in (xd, yd):
                for p in range(P):
                    for d in range(D):
                        if rng.random() < 0.45:
                            arr[d, p] = 0
        xc = xd[0, 0].copy(); yc = yd[0, 0].copy()
        rep.count('dot:zero coefficient blocks', sparse)
        meta = dict(op='dot', mix=mix, D=D, P=P, x_shape=list(xs), y_shape=list(ys))
        note_case('dot:' + mix, dict(meta, x=xd.tolist() if mix != 'aU' else xc.tolist(), y=yd.tolist() if mix != 'Ua' else yc.tolist()), D >= 2)
        try:
            if mix == 'UU':
                z = algopy.dot(mkU(xd), mkU(yd))
                ref = [numpy.dot(a, b) for a, b in zip(obj_mats(xd), obj_mats(yd))]
            elif mix == 'Ua':
                z = algopy.dot(mkU(xd), yc.copy())
                ref = [numpy.dot(a, exact.const_to_obj(yc, D)) for a in obj_mats(xd)]
            else:
                z = algopy.dot(xc.copy(), mkU(yd))
                ref = [numpy.dot(exact.const_to_obj(xc, D), b) for b in obj_mats(yd)]
            zd = numpy.asarray(z.data)
        except Exception as e:
            rep.violation('dot:%s:exception:%s' % (mix, type(e).__name__), 'dot (%s) of shapes %s . %s raises %r' % (mix, xs, ys, e), dict(kind='dot', case=meta, exc=repr(e)))
            continue
        why = exact.compare(zd, ref, F(0))
        if why:
            rep.violation('dot:%s:%dx%d' % (mix, len(xs), len(ys)), 'dot (%s) of shapes %s . %s: %s' % (mix, xs, ys, why), dict(kind='dot', case=meta, x=xd.tolist(), y=yd.tolist()))
            continue
        if len(xs) <= 2 and len(ys) <= 2:
            for p in range(P):
                X2 = [as2d(xd[d, p], 'l') for d in range(D)]; Y2 = [as2d(yd[d, p], 'r') for d in range(D)]
                n_, m_ = X2[0].shape; k_ = Y2[0].shape[1]
                Z2 = [numpy.asarray(zd[d, p]).reshape((n_, k_)) for d in range(D)]
                xl = '[:: ' + '; '.join(mxlit(a) for a in X2) + ']'; yl = '[:: ' + '; '.join(mxlit(a) for a in Y2) + ']'
                zl = '[:: ' + '; '.join(mxlit(a) for a in Z2) + ']'
                if mix == 'UU':
                    t = '(dotU %d %d %d %s %s : seq (mx K))' % (n_, m_, k_, xl, yl)
                elif mix == 'Ua':
                    t = '(dotU_constr %d %d %d %s %s : seq (mx K))' % (n_, m_, k_, xl, mxlit(as2d(yc, 'r')))
                else:
                    t = '(dotU_constl %d %d %d %s %s : seq (mx K))' % (n_, m_, k_, mxlit(as2d(xc, 'l')), yl)
                terms.append('(mxs_close %s %d %d %s %s)' % (qlit(F(0)), n_, k_, t, zl)); metas.append(dict(meta, direction=p, model='dotU'))

    # ------------------------------------------------------------------ outer
    for _ in range(N // 2):
        n1 = rng.randint(1, 4); n2 = rng.choice([n1, n1, rng.randint(1, 4)])
        D = rng.randint(1, 4); P = rng.randint(1, 2)
        mix = rng.choice(['UU', 'Ua', 'aU'])
        xd = numpy.array([dy(rng) for _ in range(D * P * n1)]).reshape((D, P, n1))
        yd = numpy.array([dy(rng) for _ in range(D * P * n2)]).reshape((D, P, n2))
        meta = dict(op='outer', mix=mix, D=D, P=P, n1=n1, n2=n2)
        note_case('outer:' + mix, dict(meta, x=xd.tolist(), y=yd.tolist()), D >= 2)
        try:
            if mix == 'UU':
                z = algopy.outer(mkU(xd), mkU(yd)); ref = [numpy.outer(a, b) for a, b in zip(obj_mats(xd), obj_mats(yd))]
            elif mix == 'Ua':
                z = algopy.outer(mkU(xd), yd[0, 0].copy()); ref = [numpy.outer(a, exact.const_to_obj(yd[0, 0], D)) for a in obj_mats(xd)]
            else:
                z = algopy.outer(xd[0, 0].copy(), mkU(yd)); ref = [numpy.outer(exact.const_to_obj(xd[0, 0], D), b) for b in obj_mats(yd)]
            why = exact.compare(numpy.asarray(z.data), ref, F(0))
        except Exception as e:
            rep.violation('outer:%s:%s:exception:%s' % (mix, 'equal' if n1 == n2 else 'unequal-lengths', type(e).__name__),
                          'outer (%s) of lengths %d, %d raises %r' % (mix, n1, n2, e), dict(kind='outer', case=meta, exc=repr(e)))
            continue
        if why:
            rep.violation('outer:%s:%s' % (mix, 'equal' if n1 == n2 else 'unequal-lengths'), 'outer (%s) of lengths %d, %d: %s' % (mix, n1, n2, why), dict(kind='outer', case=meta, x=xd.tolist(), y=yd.tolist()))

    # ------------------------------------------------------------------ inv / solve / trace / det / logdet
    for it_ in range(N):
        n = rng.randint(1, 4); D = rng.randint(1, 5); P = rng.randint(1, 3)
        bases = [base_matrix(rng, n) for _ in range(P)]
        if it_ % 4 == 1:
            # scheduled, not left to chance: row permutations that are NOT their own inverse (cycles of length >= 3), a different one per direction
            n = 3 + (it_ // 4) % 2
            bases = [base_matrix(rng, n, perm=[(i + 1 + (p_ + it_ // 8) % (n - 1)) % n for i in range(n)]) for p_ in range(P)]
            rep.count('scheduled', 'cyclic row permutation')
        if it_ % 4 == 3:
            # scheduled: direction 0 has an EXACTLY triangular / diagonal base matrix while the other directions are full (structure
            # decisions taken from one direction must not be applied to the others)
            n = 2 + (it_ // 4) % 3; P = max(P, 2)
            tri = ['upper', 'lower', 'diagonal'][(it_ // 4) % 3]
            B0 = numpy.array([[rng.randint(-4, 4) / 4 for _ in range(n)] for _ in range(n)]) + numpy.diag([rng.choice([2.0, 3.0, -2.0]) for _ in range(n)])
            B0 = numpy.triu(B0) if tri == 'upper' else (numpy.tril(B0) if tri == 'lower' else numpy.diag(numpy.diag(B0)))
            bases = [B0] + [base_matrix(rng, n) for _ in range(P - 1)]
            rep.count('scheduled', 'direction 0 exactly %s' % tri)
        Ad = mat_utpm(rng, D, P, n, n, base=lambda p: bases[p])
        scale = scale_of(Ad)
        A_obj = obj_mats(Ad)
        meta = dict(n=n, D=D, P=P, A=Ad.tolist())
        invs = [numpy.linalg.inv(bases[p]) for p in range(P)]
        cond = max(numpy.linalg.cond(b) for b in bases)
        rtol = float(TOL) * max(1.0, cond) ** D * 4 ** D
        # ---- inv
        note_case('inv', dict(op='inv', **meta), D >= 2 and n >= 2)
        try:
            Y = numpy.asarray(algopy.inv(mkU(Ad)).data)
            Yo = obj_mats(Y)
            eye = exact.const_to_obj(numpy.eye(n), D)
            r1 = max(ps_residual([numpy.dot(A_obj[p], Yo[p]) - eye]) for p in range(P))
            r2 = max(ps_residual([numpy.dot(Yo[p], A_obj[p]) - eye]) for p in range(P))
            if max(r1, r2) > F(rtol) * F(scale) ** 2:
                rep.violation('inv:residual', 'A(t) inv(A)(t) != I modulo t^D: residual %.3g (n=%d, D=%d)' % (float(max(r1, r2)), n, D), dict(kind='inv', case=meta))
            else:
                for p in range(P):
                    terms.append('(mxs_close %s %d %d (invU %d %s %s : seq (mx K)) %s)' % (qlit(F(rtol)), n, n, n, serlit(Ad, p), mxlit(invs[p]), serlit(Y, p)))
                    metas.append(dict(op='inv', n=n, D=D, direction=p, model='invU'))
        except Exception as e:
            rep.violation('inv:exception', 'inv raises %r (n=%d, D=%d, P=%d)' % (e, n, D, P), dict(kind='inv', case=meta, exc=repr(e)))
        # ---- solve
        k = rng.randint(1, 3)
        mix = rng.choice(['UU', 'UU', 'aU', 'Ua'])
        if it_ % 4 == 1:
            mix = ['aU', 'UU', 'Ua'][(it_ // 4) % 3]
        if it_ % 4 == 3:
            mix = 'UU'
        Bd = mat_utpm(rng, D, P, n, k)
        note_case('solve:' + mix, dict(op='solve', mix=mix, k=k, B=Bd.tolist(), **meta), D >= 2 and n >= 2)
        try:
            if mix == 'UU':
                if rng.random() < 0.4:
                    # call form with a caller-supplied result buffer holding stale non-zero content (a reused preallocated result)
                    buf = algopy.UTPM(numpy.array([[7.25 - d_ + 3 * p_ for p_ in range(P)] for d_ in range(D)])[:, :, None, None] + numpy.arange(n * k, dtype=float).reshape((n, k)))
                    rep.count('call form', 'solve(A, B, out=prefilled buffer)')
                    algopy.UTPM.solve(mkU(Ad), mkU(Bd), out=buf); X = numpy.asarray(buf.data)
                else:
                    X = numpy.asarray(algopy.solve(mkU(Ad), mkU(Bd)).data)
                res = max(ps_residual([numpy.dot(A_obj[p], obj_mats(X)[p]) - obj_mats(Bd)[p]]) for p in range(P))
                mk = lambda p: '(solveU %d %d %s %s %s : seq (mx K))' % (n, k, serlit(Ad, p), mxlit(invs[p]), serlit(Bd, p))
            elif mix == 'aU':
                A0 = bases[0]
                X = numpy.asarray(algopy.solve(A0.copy(), mkU(Bd)).data)
                Ac = exact.const_to_obj(A0, D)
                res = max(ps_residual([numpy.dot(Ac, obj_mats(X)[p]) - obj_mats(Bd)[p]]) for p in range(P))
                mk = lambda p: '(solveU_constA %d %d %s %s : seq (mx K))' % (n, k, mxlit(invs[0]), serlit(Bd, p))
            else:
                b0 = Bd[0, 0]
                X = numpy.asarray(algopy.solve(mkU(Ad), b0.copy()).data)
                bc = exact.const_to_obj(b0, D)
                res = max(ps_residual([numpy.dot(A_obj[p], obj_mats(X)[p]) - bc]) for p in range(P))
                mk = lambda p: '(solveU_constb %d %d %s %s %s : seq (mx K))' % (n, k, serlit(Ad, p), mxlit(invs[p]), mxlit(b0))
            if X.shape != (D, P, n, k):
                rep.violation('solve:%s:shape' % mix, 'solve (%s): result shape %s, expected %s' % (mix, X.shape, (D, P, n, k)), dict(kind='solve', case=meta))
            elif res > F(rtol) * F(scale) ** 2 * F(scale_of(Bd)):
                rep.violation('solve:%s:residual' % mix, 'A(t) X(t) != B(t) modulo t^D: residual %.3g (%s, n=%d, k=%d, D=%d)' % (float(res), mix, n, k, D),
                              dict(kind='solve', case=meta, B=Bd.tolist(), mix=mix))
            else:
                for p in range(P):
                    terms.append('(mxs_close %s %d %d %s %s)' % (qlit(F(rtol) * F(scale_of(Bd))), n, k, mk(p), serlit(X, p)))
                    metas.append(dict(op='solve', mix=mix, n=n, k=k, D=D, direction=p, model='solveU'))
        except Exception as e:
            rep.violation('solve:%s:exception:%s' % (mix, type(e).__name__), 'solve (%s) raises %r (n=%d, k=%d)' % (mix, e, n, k), dict(kind='solve', case=meta, mix=mix, exc=repr(e)))
        # ---- trace
        note_case('trace', dict(op='trace', **meta), D >= 2 and n >= 2)
        try:
            tr = numpy.asarray(algopy.trace(mkU(Ad)).data)
            ref = [numpy.trace(a) for a in A_obj]
            why = exact.compare(tr, ref, F(0))
            if why:
                rep.violation('trace', 'trace: %s' % why, dict(kind='trace', case=meta))
        except Exception as e:
            rep.violation('trace:exception', 'trace raises %r' % (e,), dict(kind='trace', case=meta, exc=repr(e)))
        # ---- trace of rectangular matrices (tall with two or more extra rows, wide)
        for rshp in [(n + 2, n), (n, n + 1), (n + 3, 1)]:
            Rd = mat_utpm(rng, D, P, rshp[0], rshp[1])
            note_case('trace:rectangular', dict(op='trace', shape=list(rshp), D=D, P=P), D >= 2)
            try:
                trr = numpy.asarray(algopy.trace(mkU(Rd)).data)
                whyr = exact.compare(trr, [numpy.trace(a) for a in obj_mats(Rd)], F(0))
                if whyr:
                    rep.violation('trace:rectangular', 'trace of a %dx%d matrix polynomial: %s' % (rshp[0], rshp[1], whyr), dict(kind='trace', shape=list(rshp), A=Rd.tolist()))
            except Exception as e:
                rep.violation('trace:rectangular:exception', 'trace of a %dx%d matrix raises %r' % (rshp[0], rshp[1], e), dict(kind='trace', shape=list(rshp), exc=repr(e)))
        # ---- det, logdet
        note_case('det', dict(op='det', **meta), D >= 2 and n >= 2)
        try:
            dt = numpy.asarray(algopy.det(mkU(Ad)).data)
            ref = [leibniz_det(a, D) for a in A_obj]
            # no cond^D here: the LU-based determinant of these matrices deviates from the exact one by rounding only (observed: below 2^-60
            # relative on the generator's dyadic data); the conditioning-based tolerance of inv/solve would let errors of tens of percent pass
            dtol = F(TOL) * 4 ** D * F(scale) ** n
            why = exact.compare(dt, ref, dtol)
            if why:
                rep.violation('det', 'det differs from the Leibniz determinant in series arithmetic: %s (n=%d)' % (why, n), dict(kind='det', case=meta))
            else:
                # the proved model (C07_detU_luU_is_det): LU recurrence with the base factors of scipy.linalg.lu_factor, then sgn * prod diag U
                for p in range(P):
                    lu_, piv = scipy.linalg.lu_factor(Ad[0, p])
                    w = algopy.utils.piv2mat(piv); sgn = float(algopy.utils.piv2det(piv))
                    l0 = numpy.tril(lu_, -1) + numpy.eye(n); u0 = numpy.triu(lu_)
                    LU = '(luU %d %s %s %s %s %s %s)' % (n, mxlit(w.T), serlit(Ad, p), mxlit(l0), mxlit(u0), mxlit(numpy.linalg.inv(l0)), mxlit(numpy.linalg.inv(u0)))
                    terms.append('(Qc_allclose %s (detU %d %s [seq lu.2 | lu <- %s]) %s)'
                                 % (qlit(dtol), n, qlit(lib.frac(sgn)), LU, lib.qseq([lib.frac(v) for v in dt[:, p]])))
                    metas.append(dict(op='det', n=n, D=D, direction=p, model='detU'))
            neg = any(numpy.linalg.det(b) < 0 for b in bases)
            note_case('logdet', dict(op='logdet', negative_base_det=neg, **meta), D >= 2 and n >= 2)
            ld = numpy.asarray(algopy.logdet(mkU(Ad)).data)
            bad = None
            for p in range(P):
                if not numpy.all(numpy.isfinite(ld[:, p])):
                    bad = 'non-finite coefficients (det A_0 = %.3g)' % numpy.linalg.det(bases[p]); break
                if abs(ld[0, p] - numpy.linalg.slogdet(bases[p])[1]) > 1e-9 * (1 + abs(ld[0, p])):
                    bad = 'zeroth coefficient %r, slogdet gives %r' % (ld[0, p], numpy.linalg.slogdet(bases[p])[1]); break
                # det * logdet' = det'
                dp = PS([dt[d, p] for d in range(D)]); lp = PS([ld[d, p] for d in range(D)])
                for d in range(D - 1):
                    lhs = sum((dp.c[j] * (d - j + 1) * lp.c[d - j + 1] for j in range(d + 1)), Cx())
                    rhs = dp.c[d + 1] * (d + 1)
                    if (lhs - rhs).absmax() > F(rtol) * F(scale) ** (2 * n) * 8:
                        bad = 'det * (logdet)\' != det\' at order %d' % d; break
                if bad:
                    break
            if bad:
                rep.violation('logdet:negative-det' if neg else 'logdet', 'logdet: %s (n=%d)' % (bad, n), dict(kind='logdet', case=meta, negative_base_det=neg))
            else:
                # the proved model (C07_logdetU_luU_spec): LU recurrence, then sum_i log|u_ii| with the base values NumPy returns
                for p in range(P):
                    lu_, piv = scipy.linalg.lu_factor(Ad[0, p])
                    w = algopy.utils.piv2mat(piv)
                    l0 = numpy.tril(lu_, -1) + numpy.eye(n); u0 = numpy.triu(lu_)
                    du0 = numpy.diagonal(u0)
                    LU = '(luU %d %s %s %s %s %s %s)' % (n, mxlit(w.T), serlit(Ad, p), mxlit(l0), mxlit(u0), mxlit(numpy.linalg.inv(l0)), mxlit(numpy.linalg.inv(u0)))
                    terms.append('(Qc_allclose %s (logdetU %d [seq lu.2 | lu <- %s] %s %s %s) %s)'
                                 % (qlit(F(rtol) * F(scale) ** n * 8), n, LU, lib.qseq([lib.frac(v) for v in numpy.sign(du0)]), lib.qseq([lib.frac(v) for v in numpy.abs(du0)]),
                                    lib.qseq([lib.frac(v) for v in numpy.log(numpy.abs(du0))]), lib.qseq([lib.frac(v) for v in ld[:, p]])))
                    metas.append(dict(op='logdet', n=n, D=D, direction=p, model='logdetU'))
        except Exception as e:
            rep.violation('det:exception:%s' % type(e).__name__, 'det/logdet raises %r (n=%d)' % (e, n), dict(kind='det', case=meta, exc=repr(e)))

    # ------------------------------------------------------------------ expm (Pade): rational function of truncated matrix series
    check_expm(rep, algopy, rng, tier)

    verdicts, logs = lib.eval_bool_cases(PID, IMPORTS, DEFS, terms, per_file=40)
    bad = 0
    for m, v, t in zip(metas, verdicts, terms):
        rep.count('coq:model', m['model'])
        rep.case(('coq', json.dumps(m, sort_keys=True), t[:200]), m.get('D', 1) >= 2, sample=m)
        if v is None:
            bad += 1
        elif not v:
            rep.violation('model:' + m['model'], '%s: implementation coefficients differ from the model Matrix.v' % m['model'], dict(kind='model', case=m, coq_term=t[:4000]))
    if bad or logs:
        rep.violation('corr:uneval', 'correspondence corr.C07 could not be evaluated for %d cases' % bad, dict(kind='correspondence', name='corr.C07', log=logs[:3]), no_input=True)
    import r9
    r9.c07_dot_mixed_dtypes(rep, algopy, rng, tier)
    import r10
    r10.c07_gapped_matrix(rep, algopy, rng, tier)
    return rep.finish()


def leibniz_det(a, D):
    n = a.shape[0]
    tot = PS.const(0, D)
    for perm in itertools.permutations(range(n)):
        sgn = 1
        for i in range(n):
            for j in range(i + 1, n):
                if perm[i] > perm[j]:
                    sgn = -sgn
        term = PS.const(sgn, D)
        for i in range(n):
            term = term * a[i, perm[i]]
        tot = tot + term
    return tot


def check_expm(rep, algopy, rng, tier):
    UTPM = algopy.UTPM
    n_cases = 6 if tier == 'quick' else 60
    for _ in range(n_cases):
        n = rng.randint(1, 3); D = rng.randint(1, 4); P = rng.randint(1, 2)
        Ad = numpy.zeros((D, P, n, n))
        for idx in numpy.ndindex(*Ad.shape):
            Ad[idx] = dy(rng, -6, 6, 16)
        meta = dict(op='expm', n=n, D=D, P=P, A=Ad.tolist())
        rep.count('kind', 'expm')
        rep.case(('expm', json.dumps(meta, sort_keys=True)), D >= 2 and n >= 2, sample=dict(op='expm', n=n, D=D, P=P))
        try:
            E = numpy.asarray(algopy.expm(mkU(Ad)).data)
        except Exception as e:
            rep.violation('expm:exception', 'expm raises %r' % (e,), dict(kind='expm', case=meta, exc=repr(e)))
            continue
        bad = None
        for p in range(P):
            if not numpy.allclose(E[0, p], scipy.linalg.expm(Ad[0, p]), rtol=1e-9, atol=1e-12):
                bad = 'zeroth coefficient differs from scipy.linalg.expm'; break
            # model-free: d/dt expm(A(t)) for a curve commuting with its derivative is not available in general;
            # use the first-order identity  E_1 = int_0^1 e^{sA_0} A_1 e^{(1-s)A_0} ds  checked through the block-triangular trick
            if D >= 2:
                Z = numpy.zeros((2 * n, 2 * n)); Z[:n, :n] = Ad[0, p]; Z[n:, n:] = Ad[0, p]; Z[:n, n:] = Ad[1, p]
                ref1 = scipy.linalg.expm(Z)[:n, n:]
                if not numpy.allclose(E[1, p], ref1, rtol=1e-8, atol=1e-10):
                    bad = 'first-order coefficient differs from the Frechet derivative of expm'; break
        if bad:
            rep.violation('expm', 'expm: %s (n=%d, D=%d)' % (bad, n, D), dict(kind='expm', case=meta))


def replay(path):
    pl = json.load(open(path))
    return main(pl.get('tier', 'quick'), pl.get('seed', 0))
