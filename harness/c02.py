"""C02 -- arithmetic is exact truncated power-series arithmetic for every operand mix.
Theorems: Props/C02.v.  Correspondence: implementation vs (a) the Coq model Array.binopU over Series kernels
(real cases, vm_compute over Qc) and (b) an independent exact Fraction/Gaussian-rational reference broadcast by NumPy
object arrays (all cases, including complex).  Dyadic inputs make float64 exact for + - * and for / by powers of two,
so those cases are compared with tolerance 0."""
import json, copy
from fractions import Fraction
import numpy
import lib, exact
from lib import Report, qlit, qseq, natseq

PID = 'C02'
IMPORTS = 'QcField QciField Sums Series Array'
DEFS = """
Definition utpm_close (tol : Qc) (m : option (utpm K)) (shp : seq nat) (flat : seq Qc) : bool :=
  if m is Some z then (z.1 == shp) && Qc_allclose tol (flatU z) flat else false.
(* complex coefficients: the same field-generic model run over the Gaussian rationals Q(i) (QciField.v) *)
Notation KC := Qci_fieldType.
Definition ci (a b : Qc) : Qci := MkQci a b.
Definition qci_close (tol : Qc) (a b : Qci) : bool := Qc_close tol (re a) (re b) && Qc_close tol (im a) (im b).
Fixpoint qci_allclose (tol : Qc) (a b : seq Qci) : bool :=
  match a, b with [::], [::] => true | x :: a', y :: b' => qci_close tol x y && qci_allclose tol a' b' | _, _ => false end.
Definition utpm_closeC (tol : Qc) (m : option (utpm KC)) (shp : seq nat) (flat : seq Qci) : bool :=
  if m is Some z then (z.1 == shp) && qci_allclose tol (flatU z) flat else false.
"""
F = Fraction

# broadcast patterns (shape of the polynomial, shape of the other operand)
SHAPE_PAIRS = [((), ()), ((3,), (3,)), ((3,), ()), ((), (3,)), ((2, 3), (3,)), ((3,), (2, 3)), ((2, 1), (1, 3)), ((1, 3), (2, 1)),
               ((2, 3), (2, 3)), ((2, 3), (2, 1)), ((2, 1), (2, 3)), ((1,), (3,)), ((3,), (1,)), ((2, 2, 3), (2, 3)), ((2, 3), (2, 1, 3)),
               ((1, 2, 1), (3, 1, 2)), ((2,), (2, 2)), ((3,), (3, 3)), ((2, 2), (2, 2))]
SCALAR_KINDS = ['pyint', 'pyfloat', 'pycomplex', 'np_float64', 'np_int64', 'np_complex128', 'np_float32', 'np_uint8', 'np_uint32', 'np_int8', 'pybool']
ARRAY_KINDS = ['arr0d', 'ndarray', 'ndarray_int', 'ndarray_complex', 'ndarray_uint8', 'ndarray_bool']
OPS = ['add', 'sub', 'mul', 'div']
PY = {'add': '+', 'sub': '-', 'mul': '*', 'div': '/'}


def dy(rng, den=8, lo=-16, hi=16, nz=False):
    while True:
        v = F(rng.randint(lo, hi), den)
        if v != 0 or not nz:
            return v


def pow2(rng):
    return F(rng.choice([-4, -2, -1, 1, 2, 4]), rng.choice([1, 1, 2]))


def gen_utpm(rng, D, P, shp, divisor=False, cx=False):
    data = numpy.zeros((D, P) + tuple(shp), dtype=complex if cx else float)
    for idx in numpy.ndindex(*data.shape):
        if idx[0] == 0 and divisor:
            v = float(pow2(rng))
        else:
            v = float(dy(rng, nz=(idx[0] == 0)))
        if cx and not (idx[0] == 0 and divisor):
            v = complex(v, float(dy(rng)))
        data[idx] = v
    return data


def gen_other(rng, kind, shp, divisor):
    def val(cx=False, integer=False):
        if integer:
            v = rng.choice([-4, -2, -1, 1, 2, 4]) if divisor else rng.choice([-3, -2, -1, 1, 2, 3, 5])
            return v
        v = float(pow2(rng)) if divisor else float(dy(rng, nz=True))
        if cx:
            return complex(v, float(dy(rng)))
        return v
    if kind == 'pyint':
        return int(val(integer=True))
    if kind == 'pyfloat':
        return float(val())
    if kind == 'pycomplex':
        return complex(val(cx=True))
    if kind == 'np_float64':
        return numpy.float64(val())
    if kind == 'np_float32':
        return numpy.float32(val())
    if kind == 'np_int64':
        return numpy.int64(val(integer=True))
    if kind == 'np_complex128':
        return numpy.complex128(val(cx=True))
    if kind in ('np_uint8', 'np_uint32', 'np_int8'):
        return getattr(numpy, kind[3:])(abs(val(integer=True)))          # unsigned / narrow integer constants: values, not bit patterns
    if kind == 'pybool':
        return True
    if kind == 'ndarray_uint8':
        return numpy.array([abs(val(integer=True)) for _ in range(int(numpy.prod(shp, dtype=int)))], dtype=numpy.uint8).reshape(shp)
    if kind == 'ndarray_bool':
        return numpy.ones(shp, dtype=bool)
    if kind == 'arr0d':
        return numpy.array(val())
    if kind == 'ndarray':
        return numpy.array([val() for _ in range(int(numpy.prod(shp, dtype=int)))], dtype=float).reshape(shp)
    if kind == 'ndarray_int':
        return numpy.array([val(integer=True) for _ in range(int(numpy.prod(shp, dtype=int)))], dtype=int).reshape(shp)
    if kind == 'ndarray_complex':
        return numpy.array([val(cx=True) for _ in range(int(numpy.prod(shp, dtype=int)))], dtype=complex).reshape(shp)
    raise ValueError(kind)


def enc(v):
    """json-able encoding of an operand value"""
    if isinstance(v, numpy.ndarray):
        if numpy.iscomplexobj(v):
            return dict(t='arr', dtype=str(v.dtype), shape=list(v.shape), re=v.real.reshape(-1).tolist(), im=v.imag.reshape(-1).tolist())
        return dict(t='arr', dtype=str(v.dtype), shape=list(v.shape), re=v.reshape(-1).tolist())
    if isinstance(v, (complex, numpy.complexfloating)):
        return dict(t=type(v).__name__, re=float(v.real), im=float(v.imag))
    return dict(t=type(v).__name__, re=float(v))


def dec(e):
    if e['t'] == 'arr':
        a = numpy.array(e['re'], dtype=float)
        if 'im' in e:
            a = a + 1j * numpy.array(e['im'], dtype=float)
        return a.astype(e['dtype']).reshape(e['shape'])
    t = e['t']
    if t == 'int':
        return int(e['re'])
    if t == 'float':
        return float(e['re'])
    if t == 'complex':
        return complex(e['re'], e['im'])
    if t.startswith('complex'):
        return getattr(numpy, t)(complex(e['re'], e['im']))
    if t == 'bool':
        return bool(e['re'])
    if t.startswith('int') or t.startswith('uint'):
        return getattr(numpy, t)(int(e['re']))
    return getattr(numpy, t)(e['re'])


def gen_case(rng, tier):
    op = rng.choice(OPS)
    D = rng.choice([1, 2, 3, 4, 5] if tier == 'quick' else [1, 2, 3, 4, 5, 6, 7])
    P = rng.choice([1, 2, 3])
    form = rng.choice(['binary', 'binary', 'reflected', 'inplace'])
    mode = rng.choice(['utpm', 'utpm', 'scalar', 'array', 'array', 'alias'])
    xs, ys = rng.choice(SHAPE_PAIRS)
    cx_x = rng.random() < 0.15
    case = dict(op=op, D=D, P=P, form=form, alias=None)
    if mode == 'alias':
        xs = rng.choice([(), (3,), (2, 2), (2, 3)])
        case['alias'] = rng.choice(['same', 'same', 'view']) if (len(xs) >= 1 and (len(xs) == 1 or xs[0] == xs[1])) else 'same'
        if form == 'reflected':
            case['form'] = 'binary'
        case['x'] = enc(gen_utpm(rng, D, P, xs, divisor=(op == 'div'), cx=cx_x))
        case['other_kind'] = 'utpm'
        return case
    if form == 'inplace':
        # the result must fit into the left operand: other broadcasts INTO x; complex cannot be cast into a real lhs
        bs = numpy.broadcast_shapes(xs, ys)
        if tuple(bs) != tuple(xs):
            xs, ys = (ys, xs) if tuple(bs) == tuple(ys) else (tuple(bs), ys)
    if mode == 'utpm':
        if form == 'reflected':
            case['form'] = 'binary'
        cx_y = rng.random() < 0.15
        if case['form'] == 'inplace' and cx_y and not cx_x:
            cx_y = False
        x = gen_utpm(rng, D, P, xs, cx=cx_x)
        y = gen_utpm(rng, D, P, ys, divisor=(op == 'div'), cx=cx_y)
        case.update(x=enc(x), other_kind='utpm', other=enc(y))
        return case
    kind = rng.choice(SCALAR_KINDS if mode == 'scalar' else ARRAY_KINDS)
    if case['form'] == 'inplace' and 'complex' in kind and not cx_x:
        kind = 'pyfloat' if mode == 'scalar' else 'ndarray'
    # which operand is the divisor?
    x_div = (op == 'div' and case['form'] == 'reflected')
    o_div = (op == 'div' and not x_div)
    x = gen_utpm(rng, D, P, xs, divisor=x_div, cx=cx_x)
    if mode == 'scalar' or kind == 'arr0d':
        ys = ()
    o = gen_other(rng, kind, ys, o_div)
    case.update(x=enc(x), other_kind=kind, other=enc(o))
    return case


def run_impl(algopy, case):
    UTPM = algopy.UTPM
    x = UTPM(dec(case['x']).copy())
    if case['alias'] == 'same':
        o = x
    elif case['alias'] == 'view':
        o = x[::-1] if x.data.ndim == 3 else x.T
    elif case['other_kind'] == 'utpm':
        o = UTPM(dec(case['other']).copy())
    else:
        o = dec(case['other'])
    op, form = case['op'], case['form']
    if form == 'binary':
        z = {'add': lambda: x + o, 'sub': lambda: x - o, 'mul': lambda: x * o, 'div': lambda: x / o}[op]()
    elif form == 'reflected':
        z = {'add': lambda: o + x, 'sub': lambda: o - x, 'mul': lambda: o * x, 'div': lambda: o / x}[op]()
    else:
        if op == 'add':
            x += o
        elif op == 'sub':
            x -= o
        elif op == 'mul':
            x *= o
        else:
            x /= o
        z = x
    if not isinstance(z, UTPM):
        raise TypeError('result is %s, not UTPM' % type(z).__name__)
    return numpy.asarray(z.data)


def reference(case):
    """exact expected result: list over p of object arrays of PS"""
    xd = dec(case['x'])
    D, P = xd.shape[:2]
    X = exact.utpm_to_obj(xd)
    if case['alias'] == 'same':
        Y = X
    elif case['alias'] == 'view':
        Y = [a[::-1] if a.ndim == 1 else a.T for a in X]
    elif case['other_kind'] == 'utpm':
        Y = exact.utpm_to_obj(dec(case['other']))
    else:
        c = exact.const_to_obj(dec(case['other']), D)
        Y = [c] * P
    op = case['op']
    f = {'add': lambda a, b: a + b, 'sub': lambda a, b: a - b, 'mul': lambda a, b: a * b, 'div': lambda a, b: a / b}[op]
    out = []
    for p in range(P):
        a, b = (Y[p], X[p]) if case['form'] == 'reflected' else (X[p], Y[p])
        out.append(f(a, b))
    return out


def is_exact(case):
    if case['op'] != 'div':
        return True
    # divisor base coefficients are real powers of two by construction unless complex
    div = case['x'] if case['form'] == 'reflected' or case['alias'] else case.get('other', case['x'])
    im = div.get('im', 0)
    return not (any(im) if isinstance(im, list) else im)


def is_real(case):
    return 'im' not in case['x'] and ('other' not in case or 'im' not in case['other']) and case.get('other', {}).get('dtype', '') != 'float32'


def utpm_lit(data):
    """Coq literal of type utpm K from a (D,P)+shape real array"""
    data = numpy.asarray(data, dtype=float)
    D, P = data.shape[:2]
    shp = data.shape[2:]
    n = int(numpy.prod(shp, dtype=int))
    fl = data.reshape((D, P, n))
    dirs = []
    for p in range(P):
        dirs.append('[:: ' + '; '.join(qseq([lib.frac(fl[d, p, e]) for d in range(D)]) for e in range(n)) + ']' if n else '[::]')
    return '(%s, [:: %s])' % (natseq(shp), '; '.join(dirs))


def clit(v):
    v = complex(v)
    return '(ci %s %s)' % (qlit(lib.frac(v.real)), qlit(lib.frac(v.imag)))


def cseq(vs):
    return '[:: ' + '; '.join(clit(v) for v in vs) + ']' if len(vs) else '[::]'


def utpm_lit_c(data):
    """Coq literal of type utpm KC from a (D,P)+shape real or complex array"""
    data = numpy.asarray(data, dtype=complex)
    D, P = data.shape[:2]
    shp = data.shape[2:]
    n = int(numpy.prod(shp, dtype=int))
    fl = data.reshape((D, P, n))
    dirs = []
    for p in range(P):
        dirs.append('[:: ' + '; '.join(cseq([fl[d, p, e] for d in range(D)]) for e in range(n)) + ']' if n else '[::]')
    return '((%s, [:: %s]) : utpm KC)' % (natseq(shp), '; '.join(dirs))


def coq_term_c(case, impl, tol):
    """the same model term over the Gaussian rationals, for cases with a complex operand"""
    xd = dec(case['x'])
    D, P = xd.shape[:2]
    X = utpm_lit_c(xd)
    if case['alias'] == 'same':
        Y = X
    elif case['alias'] == 'view':
        Y = utpm_lit_c(xd[:, :, ::-1] if xd.ndim == 3 else xd.transpose((0, 1, 3, 2)))
    elif case['other_kind'] == 'utpm':
        Y = utpm_lit_c(dec(case['other']))
    else:
        o = numpy.asarray(dec(case['other']), dtype=complex)
        Y = '(liftC %d %d (%s, %s) : utpm KC)' % (D, P, natseq(o.shape), cseq(list(o.reshape(-1))))
    kern = {'add': 'addS', 'sub': 'subS', 'mul': 'mulS', 'div': 'divS'}[case['op']]
    a, b = (Y, X) if case['form'] == 'reflected' else (X, Y)
    Dz, Pz = impl.shape[:2]
    n = int(numpy.prod(impl.shape[2:], dtype=int))
    fl = numpy.asarray(impl, dtype=complex).reshape((Dz, Pz, n))
    flat = [fl[d, p, e] for p in range(Pz) for e in range(n) for d in range(Dz)]
    return '(utpm_closeC %s (binopU (@%s KC) %s %s) %s %s)' % (qlit(tol), kern, a, b, natseq(impl.shape[2:]), cseq(flat))


def coq_term(case, impl, tol):
    xd = dec(case['x'])
    D, P = xd.shape[:2]
    X = utpm_lit(xd)
    if case['alias'] == 'same':
        Y = X
    elif case['alias'] == 'view':
        Y = utpm_lit(xd[:, :, ::-1] if xd.ndim == 3 else xd.transpose((0, 1, 3, 2)))
    elif case['other_kind'] == 'utpm':
        Y = utpm_lit(dec(case['other']))
    else:
        o = numpy.asarray(dec(case['other']), dtype=float)
        Y = '(liftC %d %d (%s, %s))' % (D, P, natseq(o.shape), qseq([lib.frac(v) for v in o.reshape(-1)]))
    kern = {'add': 'addS', 'sub': 'subS', 'mul': 'mulS', 'div': 'divS'}[case['op']]
    a, b = (Y, X) if case['form'] == 'reflected' else (X, Y)
    # element order of flatU: [p][e][d]
    Dz, Pz = impl.shape[:2]
    n = int(numpy.prod(impl.shape[2:], dtype=int))
    fl = impl.reshape((Dz, Pz, n))
    flat = [lib.frac(fl[d, p, e]) for p in range(Pz) for e in range(n) for d in range(Dz)]
    return '(utpm_close %s (binopU (@%s K) %s %s) %s %s)' % (qlit(tol), kern, a, b, natseq(impl.shape[2:]), qseq(flat))


def classify(case):
    """key of the failing class (for known_findings.json)"""
    k = '%s:%s:%s' % (case['op'], case['form'], case['other_kind'])
    if case['alias']:
        k += ':alias-' + case['alias']
    return k


# ---------------------------------------------------------------- powers
_SPECIAL_EXP = [0]


def gen_pow_case(rng, tier):
    kind = rng.choice(['scalar_base', 'poly_exponent', 'complex_exponent', 'np_exponent', 'int_exponent', 'int_exponent'])
    D = rng.choice([1, 2, 3, 4, 5])
    P = rng.choice([1, 2])
    shp = rng.choice([(), (2,), (2, 2)])
    x = numpy.zeros((D, P) + shp)
    for idx in numpy.ndindex(*x.shape):
        x[idx] = float(F(rng.randint(4, 24), 8)) if idx[0] == 0 else float(dy(rng))
    if kind == 'int_exponent':
        # Python / NumPy integer exponents 0..8: the exact r-fold Cauchy product, also where the constant coefficient is zero or negative
        for idx in numpy.ndindex(*x.shape):
            x[idx] = float(dy(rng))
            if idx[0] == 0 and rng.random() < 0.35:
                x[idx] = 0.0
    case = dict(op='pow', kind=kind, D=D, P=P, x=enc(x))
    if kind == 'int_exponent':
        case['r'] = enc(rng.choice([0, 1, 2, 3, 4, 5, 6, 7, 8, numpy.int64(5), numpy.int64(6), numpy.int32(7)]))
    elif kind == 'scalar_base':
        case['r'] = enc(rng.choice([0.5, 1.5, 2.0, 3.0, numpy.float64(2.5), 2, numpy.int64(3)]))
    elif kind == 'poly_exponent':
        y = numpy.zeros((D, P) + shp)
        for idx in numpy.ndindex(*y.shape):
            y[idx] = float(dy(rng, lo=-12, hi=12))
        _SPECIAL_EXP[0] += 1
        if _SPECIAL_EXP[0] % 2 == 0:
            # the exponent's VALUE is the same shortcut-prone constant in every entry and direction (2, 0, 1, 3, -1, 1/2; scheduled, not
            # drawn) while its higher coefficients are not zero: still exp(y log x), not x*x
            y[0] = [2.0, 0.0, 1.0, 3.0, -1.0, 0.5][(_SPECIAL_EXP[0] // 2) % 6]
        case['y'] = enc(y)
    elif kind == 'complex_exponent':
        case['r'] = enc(rng.choice([complex(1, 2), complex(0.5, -1.5), numpy.complex128(2 + 1j), complex(-1.25, 0.5)]))
    else:
        case['r'] = enc(rng.choice([numpy.float64(2.5), numpy.float64(-0.5), numpy.int64(3), numpy.int64(2), numpy.float32(1.5), numpy.int32(4)]))
    return case


def pow_ode_residual(xd, zd, r):
    """model-free predicate for z = x**r (r scalar, maybe complex):  x * z' = r * z * x'  modulo t^(D-1), and z_0 = x_0**r.
    Evaluated in complex floating point; returns the largest relative residual."""
    D = xd.shape[0]
    worst = float(numpy.max(numpy.abs(zd[0] - xd[0].astype(complex) ** r) / (1 + numpy.abs(zd[0]))))
    for d in range(D - 1):
        lhs = sum(xd[k] * (d - k + 1) * zd[d - k + 1] for k in range(d + 1))
        rhs = r * sum(zd[k] * (d - k + 1) * xd[d - k + 1] for k in range(d + 1))
        scale = 1 + numpy.abs(lhs) + numpy.abs(rhs)
        worst = max(worst, float(numpy.max(numpy.abs(lhs - rhs) / scale)))
    return worst


def judge_pow(rep, algopy, cases):
    UTPM = algopy.UTPM
    terms, owners = [], []
    tol = F(1, 2 ** 26)
    for case in cases:
        rep.count('op', 'pow:' + case['kind']); rep.count('D', case['D']); rep.count('P', case['P'])
        rep.case(json.dumps(case, sort_keys=True), case['D'] >= 2, sample=None)
        xd = dec(case['x'])
        D, P = xd.shape[:2]
        n = int(numpy.prod(xd.shape[2:], dtype=int))
        key = 'impl:pow:' + case['kind']
        try:
            x = UTPM(xd.copy())
            if case['kind'] == 'scalar_base':
                r = dec(case['r']); z = r ** x
            elif case['kind'] == 'poly_exponent':
                yd = dec(case['y']); z = x ** UTPM(yd.copy())
            else:
                r = dec(case['r']); z = x ** r
            zd = numpy.asarray(z.data)
        except Exception as e:
            rep.violation(key + ':' + type(e).__name__, 'power (%s) raises %s: %s' % (case['kind'], type(e).__name__, str(e)[:100]),
                          dict(kind='exception', case=case, exc=repr(e)))
            continue
        if zd.shape != xd.shape:
            rep.violation(key + ':shape', 'power (%s): result shape %s for operand shape %s' % (case['kind'], zd.shape, xd.shape),
                          dict(kind='value', case=case, impl=enc(zd)))
            continue
        if case['kind'] == 'int_exponent':
            # exact: dyadic inputs, products of small dyadics stay exact in float64 for these sizes
            fxx = xd.reshape((D, P, n)); fzz = zd.reshape((D, P, n)); bad_int = None
            for p in range(P):
                for e in range(n):
                    xs = [lib.frac(fxx[d, p, e]) for d in range(D)]
                    acc = [F(1)] + [F(0)] * (D - 1)
                    for _k in range(int(r)):
                        acc = [sum(acc[c] * xs[d - c] for c in range(d + 1)) for d in range(D)]
                    got = [fzz[d, p, e] for d in range(D)]
                    if not all(numpy.isfinite(g) and abs(lib.frac(g) - a) <= F(1, 2 ** 40) * (1 + abs(a)) for g, a in zip(got, acc)):
                        bad_int = (p, e, [float(a) for a in acc], [float(g) for g in got]); break
                if bad_int:
                    break
            if bad_int:
                rep.violation(key + ':' + type(r).__name__, 'x ** %r (integer exponent): coefficients %s, the %d-fold Cauchy product is %s (direction %d, element %d)'
                              % (r, bad_int[3], int(r), bad_int[2], bad_int[0], bad_int[1]), dict(kind='value', case=case, impl=enc(zd), python='x ** %r' % (r,)))
            continue
        if case['kind'] in ('complex_exponent', 'np_exponent'):
            res = pow_ode_residual(xd, zd, complex(r) if case['kind'] == 'complex_exponent' else float(r))
            if not (res <= 1e-9):
                rep.violation(key + ':' + type(r).__name__, 'x ** %r: result violates x z\' = r z x\' / z_0 = x_0**r (relative residual %.3g)' % (r, res),
                              dict(kind='value', case=case, impl=enc(zd), residual=res,
                                   python='x ** %r' % (r,)))
                continue
        if numpy.iscomplexobj(zd) or case['kind'] == 'complex_exponent':
            continue
        fx = xd.reshape((D, P, n)); fz = zd.reshape((D, P, n))
        for p in range(P):
            for e in range(n):
                xs = [lib.frac(fx[d, p, e]) for d in range(D)]
                zs = [lib.frac(fz[d, p, e]) for d in range(D)]
                x0 = fx[0, p, e]
                if case['kind'] == 'scalar_base':
                    lr = float(numpy.log(r))
                    model = '(expS (scaleS %s %s) %s)' % (qlit(lib.frac(lr)), qseq(xs), qlit(lib.frac(float(numpy.exp(lr * x0)))))
                elif case['kind'] == 'poly_exponent':
                    fy = yd.reshape((D, P, n))
                    ys = [lib.frac(fy[d, p, e]) for d in range(D)]
                    l0 = float(numpy.log(x0))
                    model = '(expS (mulS (logS %s %s) %s) %s)' % (qseq(xs), qlit(lib.frac(l0)), qseq(ys), qlit(lib.frac(float(numpy.exp(l0 * fy[0, p, e])))))
                else:
                    rr = dec(case['r'])
                    model = '(powS %s %s %s)' % (qseq(xs), qlit(lib.frac(float(rr))), qlit(lib.frac(float(x0) ** float(rr))))
                terms.append('(Qc_allclose %s %s %s)' % (qlit(tol), model, qseq(zs)))
                owners.append((case, p, e))
    verdicts, logs = lib.eval_bool_cases(PID, IMPORTS, DEFS, terms, per_file=150, prefix='pow')
    bad = 0
    for (case, p, e), v, t in zip(owners, verdicts, terms):
        if v is None:
            bad += 1
        elif not v:
            rep.violation('impl:pow:' + case['kind'], 'power (%s): coefficients differ from the model (direction %d, element %d)' % (case['kind'], p, e),
                          dict(kind='value', case=case, coq_term=t[:3000]))
    if bad or logs:
        rep.violation('corr:uneval:pow', 'correspondence corr.C02.pow could not be evaluated for %d series' % bad,
                      dict(kind='correspondence', name='corr.C02.pow', log=logs[:3]), no_input=True)
    rep.corr['pow_cases'] = len(cases)


def main(tier, seed):
    algopy = lib.import_algopy()
    rep = Report(PID, tier, seed)
    rep.rule = ('random cases over op {+,-,*,/} x form {binary, reflected, in-place} x other operand kind {UTPM, python int/float/complex, numpy '
                'scalars, 0-d array, ndarray float/int/complex} x aliasing {none, x op x, x op= x, x op= view of x} x broadcast shape pairs '
                '(19 patterns, incl. constant arrays of higher rank than the polynomial) x D x P; dyadic values, divisor base coefficients are '
                'powers of two; non-trivial = D>=2; distinct by full case content')
    rep.assumptions = ['complex cases are decided by the exact Gaussian-rational reference in Python only (the Coq model runs over Qc)',
                       'float64 arithmetic is exact on the generated dyadic inputs for + - * and / by powers of two (tolerance 0); 2^-36 otherwise']
    rep.theorems()
    rng = lib.rng_for(seed, PID)
    n = 900 if tier == 'quick' else 12000
    cases = [gen_case(rng, tier) for _ in range(n)]
    judge(rep, algopy, cases)
    judge_pow(rep, algopy, [gen_pow_case(rng, tier) for _ in range(120 if tier == 'quick' else 1500)])
    import r9
    r9.c02_scalar_bases(rep, algopy, rng, tier)
    import r10
    r10.c02_large_operands(rep, algopy, rng, tier)
    return rep.finish()


def judge(rep, algopy, cases):
    terms, owners = [], []
    for case in cases:
        key = classify(case)
        rep.count('op', case['op']); rep.count('form', case['form']); rep.count('other', case['other_kind'])
        rep.count('alias', case['alias']); rep.count('D', case['D']); rep.count('P', case['P'])
        xshape = tuple(case['x']['shape'][2:])
        oshape = tuple(case['other']['shape'][2:] if case.get('other', {}).get('t') == 'arr' and case['other_kind'] == 'utpm' else
                       case.get('other', {}).get('shape', ()))
        rep.count('shapes', '%s|%s' % (xshape, oshape))
        rep.case(json.dumps(case, sort_keys=True), case['D'] >= 2,
                 sample=dict(op=case['op'], form=case['form'], other_kind=case['other_kind'], alias=case['alias'], D=case['D'], P=case['P'],
                             x_shape=xshape, other_shape=oshape))
        tol = F(0) if is_exact(case) else F(1, 2 ** 36)
        try:
            ref = reference(case)
        except Exception as e:          # generator produced a non-broadcastable pair: not a case
            rep.notes.append('generator: %r' % e)
            continue
        try:
            impl = run_impl(algopy, case)
        except Exception as e:
            rep.violation('impl:' + key + ':' + type(e).__name__,
                          '%s raises %s: %s' % (describe(case), type(e).__name__, str(e)[:100]),
                          dict(kind='exception', case=case, exc=repr(e), python=describe(case)))
            continue
        why = exact.compare(impl, ref, tol)
        if why is not None:
            rep.violation('impl:' + key, '%s: %s' % (describe(case), why),
                          dict(kind='value', case=case, impl=enc(impl), why=why, python=describe(case)))
            continue
        if is_real(case) and not numpy.iscomplexobj(impl):
            terms.append(coq_term(case, impl, tol))
            owners.append(case)
            rep.count('coq model carrier', 'Qc')
        elif case.get('other', {}).get('dtype', '') != 'float32' and numpy.iscomplexobj(impl):
            # complex operands: the same model over the Gaussian rationals
            terms.append(coq_term_c(case, impl, tol))
            owners.append(case)
            rep.count('coq model carrier', 'Q(i)')
    verdicts, logs = lib.eval_bool_cases(PID, IMPORTS, DEFS, terms, per_file=60)
    bad = 0
    for case, v, t in zip(owners, verdicts, terms):
        if v is None:
            bad += 1
        elif not v:
            # the implementation agrees with the independent exact reference but not with the Coq model
            rep.violation('model:' + classify(case), 'Coq model Array.binopU disagrees with implementation AND exact reference on %s' % describe(case),
                          dict(kind='correspondence', name='corr.C02.binopU', case=case, coq_term=t[:3000]), no_input=True)
    if bad or logs:
        rep.violation('corr:uneval', 'correspondence corr.C02 could not be evaluated for %d cases' % bad,
                      dict(kind='correspondence', name='corr.C02', log=logs[:3]), no_input=True)
    rep.corr = dict(cases=len(cases), coq_model_cases=len(terms), unevaluated=bad)


def describe(case):
    o = 'x' if case['alias'] == 'same' else ('view(x)' if case['alias'] == 'view' else case['other_kind'])
    s = {'binary': 'x %s %s', 'reflected': '%s %s x', 'inplace': 'x %s= %s'}[case['form']]
    sym = PY[case['op']]
    txt = s % ((sym, o) if case['form'] != 'reflected' else (o, sym))
    return '%s with x%s D=%d P=%d' % (txt, tuple(case['x']['shape'][2:]), case['D'], case['P']) + \
           (' other%s' % (tuple(case['other'].get('shape', ())),) if 'other' in case else '')


def replay(path):
    pl = json.load(open(path))
    algopy = lib.import_algopy()
    rep = Report(PID, 'quick', pl.get('seed', 0))
    if 'case' in pl and pl['case'].get('op') == 'pow':
        judge_pow(rep, algopy, [pl['case']])
    elif 'case' in pl and 'op' in pl['case']:
        judge(rep, algopy, [pl['case']])
    else:
        rep.theorems()
    return rep.finish()
