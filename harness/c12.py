"""C12 -- low-order coefficients do not depend on the truncation degree (see structural.py).
Extra section: comparison operators (the control-flow predicates of user programs) must give the same truth value on x and on x
truncated to any D' < D coefficients -- a branch `if x == c:` / `if x > y:` may depend on zeroth coefficients only, otherwise
coefficient 0 of the result of the program depends on higher-order input coefficients."""
import numpy
import structural
PID = 'C12'

CMP = {'lt': lambda a, b: a < b, 'le': lambda a, b: a <= b, 'gt': lambda a, b: a > b, 'ge': lambda a, b: a >= b,
       'eq': lambda a, b: a == b, 'ne': lambda a, b: a != b}


def comparisons(rep, algopy, rng, tier):
    UTPM = algopy.UTPM
    n = 150 if tier == 'quick' else 2500
    for _ in range(n):
        D = rng.randint(2, 4); P = rng.randint(1, 2)
        shp = rng.choice([(), (2,), (2, 2)])
        nel = int(numpy.prod(shp, dtype=int))
        xd = numpy.array([rng.randint(-3, 3) for _ in range(D * P * nel)], dtype=float).reshape((D, P) + shp)
        mode = rng.choice(['utpm', 'scalar', 'ndarray'])
        tie = rng.random() < 0.6          # zeroth coefficients equal to the other operand, higher ones not
        if mode == 'utpm':
            yd = numpy.array([rng.randint(-3, 3) for _ in range(D * P * nel)], dtype=float).reshape((D, P) + shp)
            if tie:
                yd[0] = xd[0]
            mk = lambda k: UTPM(yd[:k].copy())
        elif mode == 'scalar':
            c = float(rng.randint(-2, 2))
            if tie:
                xd[0] = c
            mk = lambda k: c
        else:
            c = numpy.array([rng.randint(-2, 2) for _ in range(nel)], dtype=float).reshape(shp)
            if tie:
                xd[0] = c
            mk = lambda k: c.copy()
        for name, f in CMP.items():
            try:
                full = f(UTPM(xd.copy()), mk(D))
            except Exception:
                continue          # an operator that is not defined for this operand kind is outside the quantifier (C10 decides)
            for k in range(1, D):
                rep.count('comparison', name); rep.count('comparison:other', mode)
                rep.case(('cmp', name, mode, xd.tobytes().hex(), k, tie), True, sample=dict(check='comparison under truncation', op=name, other=mode, D=D, P=P, keep=k, tie=tie))
                try:
                    sub = f(UTPM(xd[:k].copy()), mk(k))
                except Exception as e:
                    rep.violation('trunc:cmp:%s:exception' % name, 'x %s <%s> raises %r on the truncated operand' % (name, mode, e), dict(kind='cmp', op=name, other=mode, x=xd.tolist(), keep=k))
                    continue
                if numpy.ndim(full) != numpy.ndim(sub) or not numpy.array_equal(numpy.asarray(full), numpy.asarray(sub)):
                    rep.violation('trunc:cmp:%s:%s' % (name, mode), 'x %s <%s> is %r with D=%d coefficients but %r with the first %d: the predicate looks at higher-order coefficients'
                                  % (name, mode, full, D, sub, k), dict(kind='cmp', op=name, other=mode, x=xd.tolist(), keep=k))
                    break


def main(tier, seed):
    return structural.run(PID, 'trunc', tier, seed, extra=comparisons)
def replay(path):
    return structural.replay(PID, 'trunc', path)
