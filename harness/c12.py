"""C12 -- low-order coefficients do not depend on the truncation degree (see structural.py)."""
import structural
PID = 'C12'
def main(tier, seed):
    return structural.run(PID, 'trunc', tier, seed)
def replay(path):
    return structural.replay(PID, 'trunc', path)
