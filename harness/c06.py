"""C06 -- results are independent of call history.
Theorems: Props/C06.v (TracerSpec: the reverse sweep rolls in-place writes back and the repaired sweep rolls them forward again,
so a sweep after earlier sweeps equals a sweep on a fresh evaluation; replay has no hidden state).
Check on the implementation: random histories over {forward evaluation at (point, D, P, kind), reverse sweep with a seed, driver
call, evaluation of / recording of a second graph, repetition}; the expected result of every call is computed from its
arguments alone on a FRESHLY recorded graph of the same program; forward values of all nodes are snapshotted around every
reverse sweep (pullbacks must treat forward values as read-only)."""
import json
import numpy
import lib, progs, c05
from lib import Report

PID = 'C06'


def data_of(v):
    return numpy.asarray(v.data) if hasattr(v, 'data') and not isinstance(v, numpy.ndarray) else numpy.asarray(v)


def close(a, b, rtol=1e-10):
    a, b = data_of(a), data_of(b)
    return a.shape == b.shape and bool(numpy.all(numpy.abs(a - b) <= rtol * (1 + numpy.abs(b))))


def fresh(ap, prog, x0):
    return c05.record(ap, prog, x0)


def node_snapshot(cg):
    snap = []
    for f in cg.functionList:
        x = f.x
        if hasattr(x, 'data') and not isinstance(x, numpy.ndarray):
            snap.append(numpy.array(x.data, copy=True))
        elif isinstance(x, numpy.ndarray):
            snap.append(x.copy())
        else:
            snap.append(None)
    return snap


def snapshots_equal(a, b):
    for u, v in zip(a, b):
        if u is None or v is None:
            continue
        if u.shape != v.shape or not numpy.array_equal(u, v, equal_nan=True):
            return False
    return True


def gen_call(rng, N, have_forward):
    r = rng.random()
    if r < 0.3 or not have_forward:
        kind = rng.choice(['ndarray', 'UTPM', 'UTPM'])
        # reuse: the caller keeps ONE argument object and refills it in place before the next evaluation (x.data[...] = new point)
        reuse = rng.random() < 0.4
        if kind == 'ndarray':
            return dict(call='forward', kind='ndarray', x=progs.rand_point(rng, N).tolist(), reuse=reuse)
        D = rng.choice([2, 2, 1, 3]); P = rng.choice([1, 1, 2])
        return dict(call='forward', kind='UTPM', x=progs.rand_utpm_data(rng, D, P, N).tolist(), reuse=reuse)
    if r < 0.6:
        return dict(call='reverse', seed=rng.randint(0, 10 ** 6))
    if r < 0.85:
        d = rng.choice(['gradient', 'hessian', 'hess_vec', 'jacobian', 'vec_jac', 'jac_vec'])
        return dict(call='driver', driver=d, x=progs.rand_point(rng, N).tolist(), v=progs.rand_point(rng, N).tolist())
    if r < 0.93:
        return dict(call='other_graph')
    return dict(call='repeat')


class ArgumentModified(Exception):
    pass


def do_call(ap, cg, fx, fys, c, last_forward, rng_seed_base, store=None):
    """perform call c on graph (cg, fx, fys); returns result (list of arrays) or None.  store: the caller's reusable argument objects"""
    if c['call'] == 'forward':
        xa = numpy.array(c['x'])
        key = (c['kind'], xa.shape)
        if store is not None and c.get('reuse') and key in store:
            x = store[key]
            if c['kind'] == 'ndarray':
                x[...] = xa
            else:
                x.data[...] = xa
        else:
            x = xa if c['kind'] == 'ndarray' else ap.UTPM(xa)
            if store is not None:
                store[key] = x
        res = [numpy.array(data_of(y), copy=True) for y in cg.function([x])]
        if not numpy.array_equal(data_of(x), xa):
            raise ArgumentModified('cg.function modified the argument object it was given')
        return res
    if c['call'] == 'reverse':
        lf = last_forward
        x = ap.UTPM(numpy.array(lf['x']))
        D, P = x.data.shape[:2]
        r = lib.rng_for(c['seed'], 'seed')
        ybars = [ap.UTPM(progs.rand_utpm_data(r, D, P, 1)[:, :, 0]) for _ in fys]
        cg.pullback(ybars)
        return [fx.xbar.data]          # the array itself: the documented row-by-row Jacobian keeps views of it across sweeps
    if c['call'] == 'driver':
        x = numpy.array(c['x']); v = numpy.array(c['v'])
        d = c['driver']
        if d == 'gradient':
            return [numpy.asarray(cg.gradient(x))]
        if d == 'hessian':
            return [numpy.asarray(cg.hessian(x))]
        if d == 'hess_vec':
            return [numpy.asarray(cg.hess_vec(x, v))]
        if d == 'jacobian':
            return [numpy.asarray(cg.jacobian(x))]
        if d == 'vec_jac':
            return [numpy.asarray(cg.vec_jac(numpy.array([1.5]), x))]
        if d == 'jac_vec':
            return [numpy.asarray(cg.jac_vec(x, v))]
    return None


def main(tier, seed):
    ap = lib.import_algopy()
    rep = Report(PID, tier, seed)
    rep.rule = ('histories of 2-10 calls over {forward evaluation (ndarray / UTPM with D<=3, P<=2), reverse sweep with a random seed after a UTPM '
                'forward, gradient/hessian/hess_vec/jacobian/vec_jac/jac_vec, evaluating and differentiating a second graph, recording a new '
                'graph, repeating the previous call} on generated programs (scalar output); every result is compared with the same call on a '
                'freshly recorded graph; one evaluation = one call of a history; non-trivial = call preceded by at least one other call; '
                'distinct by (program, history prefix)')
    rep.assumptions = ['the oracle of a call is the implementation itself on a fresh graph (C03/C04/C05 decide its correctness)',
                       'Python-level aliasing of user objects is outside the model; the class-level global Function.cgraph is exercised by recording other graphs in between']
    rep.theorems()
    rng = lib.rng_for(seed, PID)
    n_hist = 80 if tier == 'quick' else 1500
    for _ in range(n_hist):
        prog = progs.gen_prog(rng, ap, nout=1, focus='linalg' if rng.random() < 0.3 else None)
        prog2 = progs.gen_prog(rng, ap, nout=1, N=prog['N'])
        N = prog['N']
        text = progs.to_text(prog)
        x_rec = progs.rand_point(rng, N)
        try:
            cg, fx, fys = fresh(ap, prog, x_rec)
            cg2, fx2, fys2 = fresh(ap, prog2, progs.rand_point(rng, N))
        except Exception as e:
            rep.notes.append('recording raised %r' % e); continue
        hist = []
        store = {}
        held = []                 # (call index, arrays as returned -- not copied --, copies taken at return time)
        last_forward = None
        last_call = None
        L = rng.randint(2, 10)
        for step in range(L):
            c = gen_call(rng, N, last_forward is not None and last_forward['kind'] == 'UTPM')
            if c['call'] == 'repeat':
                if last_call is None:
                    continue
                c = last_call
            hist.append(c)
            rep.count('call', c['call'] + (':' + c.get('driver', '') if c['call'] == 'driver' else ''))
            rep.case(('hist', text, json.dumps(hist, sort_keys=True)), len(hist) >= 2,
                     sample=dict(program=text[:300], history=[h['call'] + (':' + h.get('driver', '') if h['call'] == 'driver' else '') for h in hist]))
            meta = dict(program=text, buffers=progs.has_buffer(prog), history=hist)
            if c['call'] == 'other_graph':
                try:
                    # evaluate and differentiate ANOTHER graph, and record a brand-new one, in between
                    cg2.gradient(progs.rand_point(rng, N))
                    fresh(ap, prog2, progs.rand_point(rng, N))
                except Exception as e:
                    rep.notes.append('other graph raised %r' % e)
                continue
            try:
                # expectation from a fresh graph, from the call's arguments alone
                cgf, fxf, fysf = fresh(ap, prog, numpy.array(c['x']) if c['call'] != 'reverse' and not (c['call'] == 'forward' and c['kind'] == 'UTPM') else x_rec)
                if c['call'] == 'reverse':
                    do_call(ap, cgf, fxf, fysf, last_forward, None, 0)
                want = do_call(ap, cgf, fxf, fysf, c, last_forward, 0)
            except Exception as e:
                rep.notes.append('fresh-graph evaluation raised %r' % e)
                break
            try:
                before = node_snapshot(cg) if c['call'] == 'reverse' else None
                got_raw = do_call(ap, cg, fx, fys, c, last_forward, 0, store)
                if c['call'] == 'forward' and c.get('reuse'):
                    rep.count('forward argument object', 'reused, refilled in place')
                got = [numpy.array(g, copy=True) for g in got_raw]
                # results handed out by EARLIER calls must not change under later calls (row-by-row Jacobian: J_row1 = x.xbar.data[0,0],
                # second pullback, vstack)
                stale = [k for k, raw, cp in held if any(r.shape != c_.shape or not numpy.array_equal(r, c_, equal_nan=True) for r, c_ in zip(raw, cp))]
                if stale:
                    rep.violation('history:returned-result-overwritten', 'the result returned by call %d (%s) was overwritten by call %d (%s)'
                                  % (stale[0], hist[stale[0]]['call'], len(hist) - 1, c['call']), dict(kind='history', prog=prog, case=meta, x_rec=x_rec.tolist()))
                    break
                if c['call'] in ('reverse', 'driver'):
                    held.append((len(hist) - 1, got_raw, got))
                if before is not None and not snapshots_equal(before, node_snapshot(cg)):
                    key = 'node-values-changed' + (':buffers' if meta['buffers'] else '')
                    rep.violation(key, 'a reverse sweep changed forward values stored in the graph (node.x before/after cg.pullback differ)',
                                  dict(kind='history', prog=prog, case=meta, x_rec=x_rec.tolist()))
                    break
            except Exception as e:
                rep.violation('history:exception:%s' % c['call'], 'call %s raises after history of %d calls: %s' % (c['call'], len(hist) - 1, str(e)[:200]),
                              dict(kind='history', prog=prog, case=meta, x_rec=x_rec.tolist(), exc=repr(e)[:800]))
                break
            if c['call'] == 'forward':
                last_forward = c
            if c['call'] == 'driver':
                last_forward = None       # drivers evaluate with their own seeds
            last_call = c
            if len(got) != len(want) or not all(close(g, w) for g, w in zip(got, want)):
                prev = [h['call'] for h in hist[:-1]]
                key = 'history:%s%s:after-%s' % (c['call'], ':' + c['driver'] if c['call'] == 'driver' else '', 'reverse' if 'reverse' in prev else ('driver' if 'driver' in prev else 'forward'))
                rep.violation(key + (':buffers' if meta['buffers'] else ''),
                              'result of %s after %s differs from the same call on a freshly recorded graph' % (c['call'] + (' ' + c.get('driver', '')), prev),
                              dict(kind='history', prog=prog, case=meta, x_rec=x_rec.tolist(), got=[g.tolist() for g in got], want=[w.tolist() for w in want]))
                break
    # every pullback kernel the generator knows: forward, two reverse sweeps; node values byte-identical around each sweep, second sweep =
    # first sweep = sweep on a fresh graph
    # recording one graph while ANOTHER graph is evaluated / differentiated in between (a traced function that takes a constant from
    # cg1.gradient(p0), a nested solver, ...): the outer recording continues and the outer graph replays correctly at other points
    for it in range(15 if tier == 'quick' else 200):
        N = rng.randint(1, 3)
        inner = progs.gen_prog(rng, ap, N=N, nout=1, linalg=False)
        outer = progs.gen_prog(rng, ap, N=N, nout=1)
        text = progs.to_text(outer)
        p0 = progs.rand_point(rng, N); x_rec = progs.rand_point(rng, N)
        when = rng.choice(['before', 'middle', 'middle', 'end'])
        rep.count('interleaved recording', when)
        rep.case(('interleaved', text, when, repr(x_rec.tolist())), True, sample=dict(check='another graph evaluated while recording', when=when, program=text[:200]))
        try:
            cgi, fxi, fysi = fresh(ap, inner, progs.rand_point(rng, N))
            cg = ap.CGraph()
            fx = ap.Function(x_rec)
            if when == 'before':
                c = float(numpy.sum(cgi.gradient(p0)))
            half = dict(outer, instrs=outer['instrs'])
            # run the first part, evaluate the other graph, run the rest: done by a hook on the interpreter's register list
            regs_out = progs.run(outer, fx, ap) if when in ('before', 'end') else None
            if when == 'middle':
                k = len(outer['instrs']) // 2
                import copy
                first = dict(outer, instrs=outer['instrs'][:k], ret=[])
                # interpreter state cannot be split from outside: record the two halves through the same register file
                regs = []
                progs.run_into(first, fx, ap, regs)
                c = float(numpy.sum(cgi.gradient(p0)))                    # evaluates and differentiates the OTHER graph now
                cgi.function([p0])
                regs_out = progs.run_into(dict(outer, instrs=outer['instrs'][k:]), fx, ap, regs)
            elif when == 'end':
                c = float(numpy.sum(cgi.gradient(p0)))
            y = regs_out[0] * c + regs_out[0]
            cg.trace_off()
            cg.independentFunctionList = [fx]; cg.dependentFunctionList = [y]
        except Exception as e:
            rep.notes.append('interleaved recording raised %r' % e); continue
        for _r in range(2):
            x2 = progs.rand_point(rng, N)
            try:
                got = cg.function([x2])[0]
                d0 = progs.run(outer, x2, ap)[0]
                want = d0 * c + d0
                g1 = numpy.asarray(cg.gradient(x2)); cgf, fxf, fysf = fresh(ap, outer, x_rec)
                g2 = numpy.asarray(cgf.gradient(x2)) * (c + 1)
            except Exception as e:
                rep.violation('history:interleaved:exception', 'a graph recorded while another graph was evaluated (%s) cannot be replayed / differentiated: %s' % (when, str(e)[:200]),
                              dict(kind='history', prog=outer, when=when, exc=repr(e)[:600])); break
            if not close(got, want) or not close(g1, g2, 1e-8):
                rep.violation('history:interleaved:' + when, 'a graph recorded while another graph was evaluated (%s) replays %r, the program gives %r' % (when, float(numpy.asarray(got)), float(numpy.asarray(want))),
                              dict(kind='history', prog=outer, when=when, x_rec=x_rec.tolist(), x=x2.tolist()))
                break
    kprogs = progs.kernel_programs(rng, ap, reps=2 if tier == 'quick' else 8)
    for kname, prog, scale in [(k, p_, sc) for k, p_ in kprogs for sc in (1.0, 2.0 ** -30)]:
        N = prog['N']
        text = progs.to_text(prog)
        D = rng.randint(1, 3); P = rng.randint(2, 3)
        # ordinary and small magnitudes (there (x + c) - c style temporaries do not round-trip); non-dyadic values
        x = (progs.rand_utpm_data(rng, D, P, N) + 0.1 * numpy.array([rng.random() for _ in range(D * P * N)]).reshape((D, P, N))) * scale
        rep.count('kernel program', kname)
        rep.case(('kernel', text, x.tobytes().hex()), True, sample=dict(check='kernel program: snapshots around two sweeps', program=text[:200], kernel=kname))
        meta = dict(program=text, buffers=progs.has_buffer(prog), kernel=kname)
        try:
            cg, fx, fys = fresh(ap, prog, ap.UTPM(x.copy()))
            cg.pushforward([ap.UTPM(x.copy())])
            seed_ = rng.randint(0, 10 ** 6)
            r = lib.rng_for(seed_, 'seed'); ybars = [progs.rand_utpm_data(r, D, P, 1)[:, :, 0] for _ in fys]
            before = node_snapshot(cg)
            cg.pullback([ap.UTPM(y.copy()) for y in ybars]); first = numpy.array(fx.xbar.data, copy=True)
            mid = node_snapshot(cg)
            cg.pullback([ap.UTPM(y.copy()) for y in ybars]); second = numpy.array(fx.xbar.data, copy=True)
            after = node_snapshot(cg)
            cgf, fxf, fysf = fresh(ap, prog, ap.UTPM(x.copy()))
            # reference: a graph RECORDED at this very point and swept at once (no replay involved)
            cgf.pullback([ap.UTPM(y.copy()) for y in ybars]); want = numpy.array(fxf.xbar.data, copy=True)
        except Exception as e:
            rep.notes.append('kernel program %s raised %r (decided by C03/C05)' % (kname, e)); continue
        payload = dict(kind='history', prog=prog, case=meta, x=x.tolist(), ybar=[y.tolist() for y in ybars])
        if not (snapshots_equal(before, mid) and snapshots_equal(mid, after)):
            rep.violation('node-values-changed:kernel' + (':buffers' if meta['buffers'] else ''), 'a reverse sweep changed forward values stored in the graph (%s)' % kname, payload)
        elif not (close(first, want) and close(second, want)):
            rep.violation('history:reverse:kernel', 'repeated reverse sweeps after one forward evaluation differ from the sweep on a fresh graph (%s)' % kname, payload)
    mixed_kind_section(rep, ap, rng, tier)
    import r9
    r9.c06_jacobian_degrees(rep, ap, rng, tier)
    return rep.finish()


def mixed_kind_section(rep, ap, rng, tier):
    """graphs with two independents evaluated and swept several times while the KIND of the inputs changes between evaluations (one input a
    plain array in one evaluation, a polynomial in the next, and back): every sweep equals the sweep of a freshly recorded graph"""
    def rec(lazy):
        # buffer-free (a buffer allocated from a plain template cannot hold polynomials); nodes that depend on one input only, products with
        # the plain operand on either side
        cg_ = ap.CGraph()
        fa = ap.Function(progs.rand_point(rng, 3) + 0.125)
        pre = fa * fa * fa if lazy else None
        fb = ap.Function(progs.rand_point(rng, 3) + 0.125)
        pre = fa * fa * fa if pre is None else pre
        y = ap.sum(ap.sin(fa * fb) + fb * fb + fb * fa * fa + pre)
        cg_.trace_off(); cg_.independentFunctionList = [fa, fb]; cg_.dependentFunctionList = [y]
        return cg_
    for it in range(10 if tier == 'quick' else 120):
        lazy = bool(it & 1)
        cg = rec(lazy)
        D, P = rng.randint(1, 3), rng.randint(1, 2)
        hist = []
        for step in range(rng.randint(2, 5)):
            kinds = rng.choice([('U', 'n'), ('n', 'U'), ('U', 'U'), ('U', 'U')])
            a = progs.rand_utpm_data(rng, D, P, 3) + 0.125; b = progs.rand_utpm_data(rng, D, P, 3) + 0.125
            ybar = progs.rand_utpm_data(rng, D, P, 1)[:, :, 0]
            hist.append(''.join(kinds))
            rep.count('mixed kinds', ''.join(kinds))
            rep.case(('mixed-kind', it, step, tuple(hist), a.tobytes().hex()[:32]), step >= 1, sample=dict(check='input kinds change between sweeps', history=list(hist)))

            def run(g):
                args = [ap.UTPM(a.copy()) if kinds[0] == 'U' else a[0, 0].copy(), ap.UTPM(b.copy()) if kinds[1] == 'U' else b[0, 0].copy()]
                g.pushforward(args)
                g.pullback([ap.UTPM(ybar.copy())])
                out = []
                for f_, k_ in zip(g.independentFunctionList, kinds):
                    out.append(numpy.array(f_.xbar.data, copy=True) if k_ == 'U' else None)
                return numpy.array(g.dependentFunctionList[0].x.data, copy=True), out
            try:
                y1, xb1 = run(cg)
                y2, xb2 = run(rec(lazy))
            except Exception as e:
                rep.violation('history:mixed-kinds:exception', 'two independents, input kinds per evaluation %s: evaluation or reverse sweep raises %s' % (hist, str(e)[-200:]),
                              dict(kind='mixed-kind', history=list(hist), a=a.tolist(), b=b.tolist(), lazy=lazy, exc=repr(e)[-800:])); break
            ok = close(y1, y2) and all((u is None and w is None) or (u is not None and w is not None and close(u, w)) for u, w in zip(xb1, xb2))
            if not ok:
                rep.violation('history:mixed-kinds', 'two independents, input kinds per evaluation %s: forward value or adjoints of the last sweep differ from a freshly recorded graph' % hist,
                              dict(kind='mixed-kind', history=list(hist), a=a.tolist(), b=b.tolist(), ybar=ybar.tolist(), lazy=lazy))
                break



def replay(path):
    pl = json.load(open(path))
    return main(pl.get('tier', 'quick'), pl.get('seed', 0))
