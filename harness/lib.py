"""Shared machinery of the /verif checks: exact-rational transport, Coq case files, parallel coqc,
verdict parsing, known findings, replay and evidence files.

Every check is  `./check <ID> [--tier quick|thorough] [--replay f]`  ->  harness/check.py  ->  harness/cXX.py.
The implementation under test is always /repo's working tree (asserted in `import_algopy`)."""
import os, sys, json, time, subprocess, hashlib, re, random, shutil
import numpy
from fractions import Fraction

VERIF = os.path.dirname(os.path.dirname(os.path.abspath(__file__)))
REPO = os.environ.get('VERIF_REPO', '/repo')
COQDIR = os.path.join(VERIF, 'coq')
CASEDIR = os.path.join(VERIF, 'cases')
NPROC = int(os.environ.get('VERIF_JOBS', '16'))

COQ_HEADER = """From Coq Require Import ZArith QArith Qcanon.
From mathcomp Require Import all_ssreflect all_algebra.
From AlgoV Require Import %s.
Set Implicit Arguments. Unset Strict Implicit. Unset Printing Implicit Defensive.
Delimit Scope Z_scope with ZZ.
Notation K := Qc_fieldType.
"""


class BrokenCheck(Exception):
    """The check itself cannot run (environment problem) -- never reported as a violation."""


def import_algopy():
    sys.path.insert(0, REPO)
    import algopy
    f = os.path.realpath(algopy.__file__)
    if not f.startswith(os.path.realpath(REPO) + os.sep):
        raise BrokenCheck('algopy imported from %s, not from %s' % (f, REPO))
    return algopy


def repo_head():
    try:
        h = subprocess.run(['git', '-C', REPO, 'rev-parse', 'HEAD'], capture_output=True, text=True).stdout.strip()
        d = subprocess.run(['git', '-C', REPO, 'status', '--porcelain', '--untracked-files=no'], capture_output=True, text=True).stdout.strip()
        return h + ('+dirty' if d else '')
    except Exception:
        return 'unknown'


# ---------------------------------------------------------------- exact rationals
def frac(x):
    """exact Fraction of a python/numpy real scalar (floats are dyadic rationals)"""
    if isinstance(x, Fraction):
        return x
    if isinstance(x, bool):
        return Fraction(int(x))
    if isinstance(x, int):
        return Fraction(x)
    try:
        import numpy
        if isinstance(x, numpy.integer):
            return Fraction(int(x))
        if isinstance(x, numpy.bool_):
            return Fraction(int(x))
    except ImportError:
        pass
    xf = float(x)
    if xf != xf or xf in (float('inf'), float('-inf')):
        raise ValueError('non-finite')
    return Fraction(*xf.as_integer_ratio())


def is_finite_array(a):
    import numpy
    return bool(numpy.all(numpy.isfinite(a)))


def qlit(fr):
    """Coq term of type Qc for a Fraction"""
    fr = Fraction(fr)
    n, d = fr.numerator, fr.denominator
    if n < 0:
        return '(qz (%d)%%ZZ %d)' % (n, d)
    return '(qz %d%%ZZ %d)' % (n, d)


def qseq(frs):
    return '[:: ' + '; '.join(qlit(f) for f in frs) + ']' if len(frs) else '[::]'


def natseq(ns):
    return '[:: ' + '; '.join('%d%%N' % int(n) for n in ns) + ']' if len(ns) else '[::]'


def zlit(n):
    n = int(n)
    return '(%d)%%ZZ' % n


def zseq(ns):
    return '[:: ' + '; '.join(zlit(n) for n in ns) + ']' if len(ns) else '[::]'


def seqseq(rows, f=qseq):
    return '[:: ' + '; '.join(f(r) for r in rows) + ']' if len(rows) else '[::]'


def boollit(b):
    return 'true' if b else 'false'


# ---------------------------------------------------------------- Coq build / run
def run(cmd, timeout=None, cwd=None, env=None):
    p = subprocess.run(cmd, capture_output=True, text=True, timeout=timeout, cwd=cwd, env=env)
    return p.returncode, p.stdout, p.stderr


_WARN = re.compile(r'^(File |Warning:|New coercion|\[|.*ambiguous|.*is ambiguous with).*$', re.M)


def coq_build(targets=None):
    """make the Coq library (full .vo build).  Returns (ok, log)."""
    if not os.path.exists(os.path.join(COQDIR, 'Makefile')):
        rc, o, e = run(['coq_makefile', '-f', '_CoqProject', '-o', 'Makefile'], cwd=COQDIR, timeout=60)
        if rc != 0:
            raise BrokenCheck('coq_makefile failed: ' + e)
    cmd = ['timeout', '3000', 'make', '-j%d' % NPROC]
    if targets:
        cmd += targets
    rc, o, e = run(cmd, cwd=COQDIR, timeout=3100)
    return rc == 0, o + e


def coqc_file(path, timeout=600):
    cmd = ['timeout', str(timeout), 'coqc', '-q', '-Q', os.path.join(COQDIR, 'theories'), 'AlgoV', '-w', '-all', path]
    t0 = time.time()
    rc, o, e = run(cmd, timeout=timeout + 30)
    return rc, o, e, time.time() - t0


def props_file(pid):
    return os.path.join(COQDIR, 'theories', 'Props', pid + '.v')


def check_theorems(pid):
    """Re-compile Props/<pid>.v (only `Theorem ... exact ... Qed. Print Assumptions`), return
    dict(obligations, discharged, assumptions=[(thm, text)], ok, log)."""
    path = props_file(pid)
    if not os.path.exists(path):
        return dict(obligations=0, discharged=0, assumptions=[], ok=False, log='missing ' + path, theorems=[])
    src = open(path).read()
    thms = re.findall(r'^\s*(?:Theorem|Lemma|Corollary)\s+([A-Za-z0-9_\']+)', src, re.M)
    # forbidden words anywhere in the development
    bad = grep_forbidden()
    ok_build, log = coq_build()
    if not ok_build:
        return dict(obligations=len(thms), discharged=0, assumptions=[], ok=False, log=log[-4000:], theorems=thms)
    # copy to scratch and compile there so Print Assumptions output is captured
    sdir = os.path.join(CASEDIR, pid)
    os.makedirs(sdir, exist_ok=True)
    tmp = os.path.join(sdir, 'Props_%s_recheck.v' % pid)
    shutil.copy(path, tmp)
    rc, o, e, dt = coqc_file(tmp, timeout=900)
    assumptions = []
    if rc == 0:
        # split output per "Print Assumptions": either "Closed under the global context" or "Axioms:\n..."
        chunks = re.split(r'(?=Closed under the global context|Axioms:)', o)
        chunks = [c.strip() for c in chunks if c.strip().startswith(('Closed', 'Axioms:'))]
        prints = re.findall(r'Print Assumptions\s+([A-Za-z0-9_\']+)', src)
        for i, name in enumerate(prints):
            assumptions.append((name, chunks[i] if i < len(chunks) else '?'))
    discharged = len(thms) if rc == 0 and not bad else 0
    return dict(obligations=len(thms), discharged=discharged, assumptions=assumptions, ok=(rc == 0 and not bad),
                log=(e + o)[-4000:] + ('\nFORBIDDEN: %s' % bad if bad else ''), theorems=thms, wall=dt)


_FORBID = re.compile(r'\b(Admitted|admit|Axiom|Axioms|Parameter|Parameters|Conjecture|Conjectures|Abort All|bypass_check|Unset Guard Checking|'
                     r'Unset Positivity Checking|Unset Universe Checking|Admit Obligations|native_compute)\b')


def grep_forbidden():
    bad = []
    tdir = os.path.join(COQDIR, 'theories')
    for root, _, files in os.walk(tdir):
        for fn in files:
            if fn.endswith('.v'):
                txt = open(os.path.join(root, fn)).read()
                txt = re.sub(r'\(\*.*?\*\)', '', txt, flags=re.S)
                for m in _FORBID.finditer(txt):
                    bad.append('%s:%s' % (fn, m.group(1)))
    return bad


def run_case_files(pid, files, timeout=900):
    """files: list of (name, text).  Returns list of (name, rc, stdout, stderr, secs), in order."""
    sdir = os.path.join(CASEDIR, pid)
    os.makedirs(sdir, exist_ok=True)
    for fn in os.listdir(sdir):
        if fn.startswith('cases_'):
            try:
                os.remove(os.path.join(sdir, fn))
            except OSError:
                pass
    paths = []
    for name, text in files:
        p = os.path.join(sdir, name + '.v')
        with open(p, 'w') as f:
            f.write(text)
        paths.append(p)
    from concurrent.futures import ThreadPoolExecutor
    with ThreadPoolExecutor(max_workers=NPROC) as ex:
        res = list(ex.map(lambda p: coqc_file(p, timeout), paths))
    out = []
    for (name, _), (rc, o, e, dt) in zip(files, res):
        out.append((name, rc, o, e, dt))
    return out


def parse_bools(stdout):
    """all `true`/`false` tokens printed by Eval vm_compute, in order"""
    return [t == 'true' for t in re.findall(r'\b(true|false)\b', stdout)]


def shard(seq, n):
    return [seq[i:i + n] for i in range(0, len(seq), n)]


def eval_bool_cases(pid, imports, defs, terms, per_file=200, timeout=900, prefix='cases'):
    """terms: list of Coq terms of type bool.  Returns list of bool|None (None = could not evaluate) and log."""
    files = []
    for k, chunk in enumerate(shard(terms, per_file)):
        body = COQ_HEADER % imports + defs + '\n'
        body += 'Definition verdicts : seq bool := [::\n  ' + ';\n  '.join(chunk) + '].\n'
        body += 'Eval vm_compute in verdicts.\n'
        files.append(('%s_%s_%03d' % (prefix, pid, k), body))
    res = run_case_files(pid, files, timeout)
    verdicts, logs = [], []
    for (name, rc, o, e, dt), chunk in zip(res, shard(terms, per_file)):
        bs = parse_bools(o) if rc == 0 else []
        if rc != 0 or len(bs) != len(chunk):
            logs.append('%s: rc=%s parsed=%d expected=%d\n%s' % (name, rc, len(bs), len(chunk), (e or o)[-1500:]))
            verdicts += [None] * len(chunk)
        else:
            verdicts += bs
    return verdicts, logs


def eval_terms(pid, imports, defs, terms, per_file=100, timeout=900, prefix='val'):
    """Evaluate arbitrary closed terms; returns list of raw printed strings (one per term) or None."""
    files = []
    for k, chunk in enumerate(shard(terms, per_file)):
        body = COQ_HEADER % imports + defs + '\n'
        for j, t in enumerate(chunk):
            body += 'Definition t_%d := %s.\nEval vm_compute in t_%d.\n' % (j, t, j)
        files.append(('%s_%s_%03d' % (prefix, pid, k), body))
    res = run_case_files(pid, files, timeout)
    outs, logs = [], []
    for (name, rc, o, e, dt), chunk in zip(res, shard(terms, per_file)):
        parts = re.split(r'^\s*= ', o, flags=re.M)[1:]
        if rc != 0 or len(parts) != len(chunk):
            logs.append('%s: rc=%s\n%s' % (name, rc, (e or o)[-1500:]))
            outs += [None] * len(chunk)
        else:
            outs += [re.sub(r'\s*:\s[^:]*$', '', p.strip(), flags=re.S) for p in parts]
    return outs, logs


# ---------------------------------------------------------------- known findings
def load_known():
    p = os.path.join(VERIF, 'known_findings.json')
    if not os.path.exists(p):
        return []
    return json.load(open(p))['findings']


def known_entry(pid, key):
    for f in load_known():
        if f['property'] == pid and f['key'] == key and f.get('status') == 'known':
            return f
    return None


# ---------------------------------------------------------------- replay / evidence / verdict
def write_replay(pid, payload):
    os.makedirs(os.path.join(VERIF, 'replays'), exist_ok=True)
    payload = dict(payload)
    payload.setdefault('property', pid)
    payload.setdefault('repo_head', repo_head())
    payload.setdefault('replay_cmd', './check %s --replay {this file}' % pid)
    blob = json.dumps(payload, sort_keys=True, default=str)
    h = hashlib.sha1(blob.encode()).hexdigest()[:12]
    path = os.path.join(VERIF, 'replays', '%s-%s.json' % (pid, h))
    with open(path, 'w') as f:
        json.dump(payload, f, indent=1, sort_keys=True, default=str)
    return path


class Report:
    """Collects what one run of one property check covered and decides the exit code."""

    def __init__(self, pid, tier, seed, level='proof'):
        self.pid, self.tier, self.seed, self.level = pid, tier, seed, level
        self.t0 = time.time()
        self.evaluations = 0
        self.nontrivial = set()
        self.samples = []
        self.hist = {}
        self.violations = []      # (key, what, replay_payload, no_input)
        self.known_hits = {}
        self.notes = []
        self.thm = None
        self.corr = {}
        self.rule = ''
        self.assumptions = []
        self.extra = {}

    def count(self, dim, val, n=1):
        self.hist.setdefault(dim, {})
        v = str(val)
        self.hist[dim][v] = self.hist[dim].get(v, 0) + n

    def case(self, ident, nontrivial=True, sample=None):
        self.evaluations += 1
        if nontrivial:
            self.nontrivial.add(ident if isinstance(ident, str) else json.dumps(ident, sort_keys=True, default=str))
        if sample is not None and len(self.samples) < 6:
            self.samples.append(sample)

    def violation(self, key, what, payload, no_input=False):
        """key identifies the failing class (compared with known_findings.json)"""
        ke = known_entry(self.pid, key)
        if ke is not None:
            self.known_hits.setdefault(key, ke['what'])
            return
        self.violations.append((key, what, payload, no_input))

    def theorems(self):
        self.thm = check_theorems(self.pid)
        if not self.thm['ok']:
            self.violation('proof:' + self.pid, 'theorem file Props/%s.v no longer checks' % self.pid,
                           dict(kind='theorem', file='AlgoV.Props.' + self.pid, theorems=self.thm['theorems'],
                                log=self.thm['log']), no_input=True)
        return self.thm

    def finish(self):
        wall = time.time() - self.t0
        thm = self.thm or dict(obligations=0, discharged=0, assumptions=[], theorems=[])
        # promote a no-input violation to with-input if another violation with input exists -> keep both
        lines = []
        for key, what in sorted(self.known_hits.items()):
            lines.append('KNOWN-FINDING: property=%s %s [%s]' % (self.pid, what, key))
        nviol = 0
        seen = set()
        for key, what, payload, no_input in self.violations:
            if key in seen:
                continue
            seen.add(key)
            nviol += 1
            payload = dict(payload)
            payload['key'] = key
            payload['what'] = what
            payload['seed'] = self.seed
            payload['tier'] = self.tier
            path = write_replay(self.pid, payload)
            lines.append('VIOLATION property=%s replay=%s%s' % (self.pid, path, ' no-failing-input-found' if no_input else ''))
            if nviol >= 10:
                break
        cov = dict(
            obligations=thm['obligations'], discharged=thm['discharged'],
            checker_cmd='make -C coq && coqc -Q coq/theories AlgoV coq/theories/Props/%s.v ; ./check %s --tier %s' % (self.pid, self.pid, self.tier),
            trusted_base=TRUSTED_BASE + ['Print Assumptions %s: %s' % (n, ' '.join(t.split())[:400]) for n, t in thm['assumptions']],
            theorems=thm['theorems'],
            evaluations=self.evaluations, distinct_nontrivial=len(self.nontrivial),
            traces_validated_against_impl=self.evaluations,
            rule=self.rule, samples=self.samples[:6] or ['(no correspondence cases in this run)'],
            histograms=self.hist, correspondence=self.corr, notes=self.notes,
            known_findings_hit=sorted(self.known_hits), repo_head=repo_head(),
        )
        cov.update(self.extra)
        ev = dict(property_id=self.pid, tier=self.tier, seed=self.seed, level=self.level, coverage=cov,
                  assumptions=self.assumptions, wall_s=round(wall, 2), violations=nviol)
        os.makedirs(os.path.join(VERIF, 'evidence'), exist_ok=True)
        with open(os.path.join(VERIF, 'evidence', self.pid + '.json'), 'w') as f:
            json.dump(ev, f, indent=1, default=str)
        for ln in lines:
            print(ln)
        print('%s %s tier=%s seed=%d: theorems %d/%d, %d cases (%d distinct non-trivial), %d violation(s), %d known finding(s), %.1fs'
              % ('FAIL' if nviol else 'OK', self.pid, self.tier, self.seed, thm['discharged'], thm['obligations'],
                 self.evaluations, len(self.nontrivial), nviol, len(self.known_hits), wall))
        return 1 if nviol else 0


TRUSTED_BASE = [
    'Coq 8.16.1 kernel incl. vm_compute (no native_compute); mathcomp 1.15 as compiled in /usr/lib/ocaml/coq/user-contrib',
    'no axioms declared by this development (grep for Axiom/Parameter/Admitted/admit is part of every run)',
    'hand-written Gallina model (coq/theories/*.v) of the anchored AlgoPy code; tie to /repo = correspondence check (this run) executing model (vm_compute over Qc) and implementation on the same generated cases',
    'Python harness: generators, float.as_integer_ratio transport, Coq literal emitter, verdict parser',
    'float64 rounding, NumPy/SciPy/LAPACK primitives at the base point: modelled as exact inputs, not verified',
]


def rng_for(seed, pid):
    return random.Random('%s/%s' % (pid, seed))


def dyadic(rng, lo=-8, hi=8, den=4, nonzero=False):
    while True:
        v = Fraction(rng.randint(lo * den, hi * den), den)
        if not nonzero or v != 0:
            return v


def relayout(a, kind):
    """the same values with another memory layout: 'F' Fortran order, 'T' trailing two axes stored transposed (a transposed view)"""
    a = numpy.asarray(a)
    if kind == 'F':
        return numpy.asfortranarray(a)
    if kind == 'T' and a.ndim >= 2:
        return numpy.ascontiguousarray(a.swapaxes(-1, -2)).swapaxes(-1, -2)
    return a
