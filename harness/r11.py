"""Correspondence of the FACTORIZATION reverse rules (UTPM.pb_lu, pb_cholesky, pb_qr called directly) with the executable rules of
MatPullbackExec2.v - the formulas proved adjoint in MatPullbackFact.v, over series of list matrices - exactly evaluated over Qc."""
import numpy
import lib


def c03_factorization_rules(rep, ap, rng, tier, PID):
    import c07, scipy.linalg
    from fractions import Fraction as F
    U = ap.UTPM
    terms, metas = [], []
    tol = F(1, 2 ** 22)
    lit, mxl = c07.serlit, c07.mxlit
    for it in range(6 if tier == 'quick' else 60):
        D = rng.randint(1, 3); P = rng.randint(1, 2); n = rng.randint(2, 3)
        mk = lambda: c07.mat_utpm(rng, D, P, n, n)
        try:
            # ---- lu
            bases = [c07.base_matrix(rng, n) for _ in range(P)]
            A = c07.mat_utpm(rng, D, P, n, n, base=lambda p_: bases[p_])
            W, L, Uf = U.lu(U(A.copy()))
            Lb, Ub = mk(), mk()
            Ab = U.pb_lu(W.zeros_like(), U(Lb.copy()), U(Ub.copy()), U(A.copy()), W, L, Uf)
            sc = F(1 + float(max(numpy.max(numpy.abs(L.data)), numpy.max(numpy.abs(Uf.data)), numpy.max(numpy.abs(numpy.linalg.inv(Uf.data[0, 0])))))) ** (2 * D + 2)
            for p in range(P):
                l0, u0 = numpy.asarray(L.data)[0, p], numpy.asarray(Uf.data)[0, p]
                terms.append('(mxs_close %s %d %d (pb_luU %d %s %s %s %s %s %s %s) %s)' % (
                    lib.qlit(tol * sc), n, n, n, mxl(numpy.asarray(W.data)[0, p]), lit(numpy.asarray(L.data), p), lit(numpy.asarray(Uf.data), p),
                    mxl(numpy.linalg.inv(l0.T)), mxl(numpy.linalg.inv(u0)), lit(Lb, p), lit(Ub, p), lit(numpy.asarray(Ab.data), p)))
                metas.append(dict(rule='pb_lu', n=n, D=D, direction=p))
            # ---- cholesky
            S = c07.mat_utpm(rng, D, P, n, n); S = S + S.transpose((0, 1, 3, 2))
            for p in range(P):
                L0 = numpy.tril(numpy.array([[rng.randint(-4, 4) / 4 for _ in range(n)] for _ in range(n)]), -1) + numpy.diag([rng.choice([1.0, 1.5, 2.0]) for _ in range(n)])
                S[0, p] = L0 @ L0.T
            Lc = U.cholesky(U(S.copy())); Lcb = mk()
            Sb = U.pb_cholesky(U(Lcb.copy()), U(S.copy()), Lc)
            scc = F(1 + float(numpy.max(numpy.abs(numpy.linalg.inv(Lc.data[0, 0]))))) ** (2 * D + 2) * F(1 + float(numpy.max(numpy.abs(Lc.data)))) ** 2
            for p in range(P):
                terms.append('(mxs_close %s %d %d (pb_cholU %d %s %s %s) %s)' % (lib.qlit(tol * scc), n, n, n, lit(numpy.asarray(Lc.data), p), mxl(numpy.linalg.inv(numpy.asarray(Lc.data)[0, p])), lit(Lcb, p), lit(numpy.asarray(Sb.data), p)))
                metas.append(dict(rule='pb_cholesky', n=n, D=D, direction=p))
            # ---- qr (square, full rank)
            B = c07.mat_utpm(rng, D, P, n, n, base=lambda p_: bases[p_])
            Qf, Rf = U.qr(U(B.copy())); Qb, Rb = mk(), mk()
            for d_ in range(D):
                for p in range(P):
                    Rb[d_, p] = numpy.triu(Rb[d_, p])                      # the adjoint of an upper triangular result
            Bb = U.pb_qr(U(Qb.copy()), U(Rb.copy()), U(B.copy()), Qf, Rf)
            scq = F(1 + float(numpy.max(numpy.abs(numpy.linalg.inv(Rf.data[0, 0]))))) ** (2 * D + 2) * F(1 + float(numpy.max(numpy.abs(Rf.data)))) ** 2
            for p in range(P):
                terms.append('(mxs_close %s %d %d (pb_qrU %d %s %s %s %s %s) %s)' % (lib.qlit(tol * scq), n, n, n, lit(numpy.asarray(Qf.data), p), lit(numpy.asarray(Rf.data), p),
                             mxl(numpy.linalg.inv(numpy.asarray(Rf.data)[0, p])), lit(Qb, p), lit(Rb, p), lit(numpy.asarray(Bb.data), p)))
                metas.append(dict(rule='pb_qr', n=n, D=D, direction=p))
        except Exception as e:
            rep.violation('matrix-rule:factorization:exception', 'direct call of a factorization pullback rule raises %r' % (e,), dict(kind='matrix-rule', exc=repr(e)))
    verdicts, logs = lib.eval_bool_cases(PID + 'f', 'QcField Sums Series Matrix MatPullbackExec MatPullbackExec2', c07.DEFS, terms, per_file=8)
    bad = 0
    for mt, vd, t in zip(metas, verdicts, terms):
        rep.count('matrix rule', mt['rule'])
        rep.case(('matrix-rule', t[:400]), mt['D'] >= 2, sample=mt)
        if vd is None:
            bad += 1
        elif not vd:
            rep.violation('matrix-rule:' + mt['rule'], '%s: the adjoint the implementation returns differs from the executable rule (MatPullbackExec2.v)' % mt['rule'],
                          dict(kind='matrix-rule', case=mt, coq_term=t[:6000]))
    if bad or logs:
        rep.violation('corr:uneval:factorization-rules', 'correspondence corr.C03 (factorization rules) could not be evaluated for %d cases' % bad,
                      dict(kind='correspondence', name='corr.C03.factorization-rules', log=logs[:3]), no_input=True)
