"""Checks added after round 9 of the seeded changes (interactions of several conditions, state left behind by earlier calls or by
rejected calls, scalar / constant operands of unusual dtypes).  Each function is called from the check of its property."""
import numpy


def _data(v):
    return numpy.asarray(getattr(v, 'data', v))


# ------------------------------------------------------------------------------------------------ C02
def c02_scalar_bases(rep, algopy, rng, tier):
    """r ** x for a scalar base r of EVERY NumPy scalar type (and Python scalars): the coefficients of exp(x log r); nothing of a complex
    base is dropped.  Reference: the same power with the base converted to the Python complex / float of the same value."""
    UTPM = algopy.UTPM
    bases = [2.5, 3, complex(1.5, 2.0), numpy.float64(2.5), numpy.float32(1.5), numpy.float16(2.0), numpy.int64(3), numpy.int32(2), numpy.int8(2), numpy.uint8(3),
             numpy.complex128(1.5 + 2j), numpy.complex64(1.5 + 2j), numpy.clongdouble(0.5 - 1.25j), numpy.longdouble(2.5)]
    for r in bases:
        for _ in range(2 if tier == 'quick' else 12):
            D = rng.randint(2, 5); P = rng.randint(1, 2)
            x = numpy.array([rng.randint(-8, 8) / 4 for _ in range(D * P * 2)]).reshape((D, P, 2))
            rep.count('scalar base type', type(r).__name__)
            rep.case(('rpow', type(r).__name__, repr(r), x.tobytes().hex()), True, sample=dict(check='r ** x', base_type=type(r).__name__, base=repr(r), D=D, P=P))
            try:
                got = _data(r ** UTPM(x.copy()))
                rr = complex(r) if numpy.iscomplexobj(r) else float(r)
                want = _data(algopy.exp(UTPM(x.copy()) * numpy.log(rr)))
            except Exception as e:
                rep.violation('rpow:%s:exception' % type(r).__name__, '%s(%r) ** x raises %r' % (type(r).__name__, r, e), dict(kind='rpow', base=repr(r), base_type=type(r).__name__, x=x.tolist()))
                break
            # the precision of the base's own type is the floor: float16 has 11 bits, float32 / complex64 24
            bits = {'float16': 5, 'float32': 15, 'complex64': 15}.get(type(r).__name__, 36)      # loose: what is looked for (a dropped imaginary part, a half-precision logarithm of an integer) is an error of 1e-4 .. 1
            ok = got.shape == want.shape and (numpy.iscomplexobj(want) <= numpy.iscomplexobj(got)) and bool(numpy.all(numpy.abs(got - want) <= 2.0 ** -bits * (1 + numpy.abs(want))))
            if not ok:
                rep.violation('rpow:%s' % type(r).__name__, '%s(%r) ** x differs from exp(x log r) (result dtype %s)' % (type(r).__name__, r, got.dtype),
                              dict(kind='rpow', base=repr(r), base_type=type(r).__name__, x=x.tolist(), got=repr(got.tolist())[:600], want=repr(want.tolist())[:600]))
                break


# ------------------------------------------------------------------------------------------------ C07
def c07_dot_mixed_dtypes(rep, algopy, rng, tier):
    """dot with a constant of ANOTHER dtype on either side (complex constant with a real polynomial and vice versa, float32 constant):
    coefficient d of the result is numpy.dot of coefficient d with the constant, in the promoted dtype"""
    UTPM = algopy.UTPM
    for it in range(12 if tier == 'quick' else 150):
        D = rng.randint(1, 4); P = rng.randint(1, 2)
        shp_x, shp_c = rng.choice([((3,), (3,)), ((2, 3), (3,)), ((2, 3), (3, 2)), ((3,), (3, 2))])
        side = rng.choice(['x.c', 'c.x'])
        if side == 'c.x':
            shp_x, shp_c = shp_c, shp_x
        xr = numpy.array([rng.randint(-8, 8) / 4 for _ in range(D * P * int(numpy.prod(shp_x)))]).reshape((D, P) + shp_x)
        cr = numpy.array([rng.randint(-8, 8) / 4 for _ in range(int(numpy.prod(shp_c)))]).reshape(shp_c)
        ci = numpy.array([rng.randint(-8, 8) / 4 for _ in range(int(numpy.prod(shp_c)))]).reshape(shp_c)
        mix = rng.choice(['real x, complex c', 'complex x, real c', 'real x, float32 c', 'complex x, complex c'])
        x = xr + (1j * xr[::-1] if mix.startswith('complex x') else 0)
        c = (cr + 1j * ci) if 'complex c' in mix else (cr.astype(numpy.float32) if 'float32' in mix else cr)
        rep.count('dot: dtype mix', mix + ' / ' + side)
        rep.case(('dot-dtypes', mix, side, x.tobytes().hex()[:64], c.tobytes().hex()[:64]), True, sample=dict(check='dot with a constant of another dtype', mix=mix, side=side))
        try:
            got = _data(algopy.dot(UTPM(x.copy()), c) if side == 'x.c' else algopy.dot(c, UTPM(x.copy())))
            want = numpy.array([[numpy.dot(x[d, p], c) if side == 'x.c' else numpy.dot(c, x[d, p]) for p in range(P)] for d in range(D)])
        except Exception as e:
            rep.violation('dot:dtypes:exception', 'dot (%s, %s) raises %r' % (mix, side, e), dict(kind='dot-dtypes', mix=mix, side=side)); continue
        if got.shape != want.shape or (numpy.iscomplexobj(want) and not numpy.iscomplexobj(got)) or not numpy.allclose(got, want, rtol=1e-6 if 'float32' in mix else 1e-13, atol=1e-13):
            rep.violation('dot:dtypes:%s' % side, 'dot (%s, %s): result (dtype %s) is not numpy.dot coefficient by coefficient (dtype %s)' % (mix, side, got.dtype, want.dtype),
                          dict(kind='dot-dtypes', mix=mix, side=side, x=repr(x.tolist())[:800], c=repr(c.tolist())[:400]))


# ------------------------------------------------------------------------------------------------ C13
def c13_self_view_assignment(rep, algopy, rng, tier):
    """x[sl] = (a view of x itself with other strides / another dtype, starting at the same element or not): the assignment NumPy would
    perform on every coefficient slice (NumPy copies when source and target overlap)"""
    UTPM = algopy.UTPM
    forms = [('x[...] = x.T', (3, 3), lambda x: (Ellipsis, x.T)), ('x[:2,:2] = x[:2,:2].T', (3, 3), lambda x: ((slice(0, 2), slice(0, 2)), x[:2, :2].T)),
             ('x[0] = x[:,0]', (3, 3), lambda x: (0, x[:, 0])), ('x[:3] = x[:6:2]', (6,), lambda x: (slice(0, 3), x[:6:2])),
             ('x[1:] = x[:-1]', (5,), lambda x: (slice(1, None), x[:-1])), ('x[::-1] = x', (4,), lambda x: (slice(None, None, -1), x)),
             ('x[:] = x[::-1]', (4,), lambda x: (slice(None), x[::-1])), ('x[:,0] = x[0]', (3, 3), lambda x: ((slice(None), 0), x[0])),
             ('x[1] = x[1]', (3, 2), lambda x: (1, x[1]))]
    for name, shp, mk in forms:
        for _ in range(2 if tier == 'quick' else 10):
            D = rng.randint(1, 3); P = rng.randint(1, 2)
            data = numpy.arange(D * P * int(numpy.prod(shp)), dtype=float).reshape((D, P) + shp) + 1
            rep.count('self-view assignment', name)
            rep.case(('self-view', name, D, P), True, sample=dict(check='assignment of a view of the target to the target', form=name, D=D, P=P))
            expect = data.copy()
            for d in range(D):
                for p in range(P):
                    sl, rhs = mk(expect[d, p])
                    expect[d, p][sl] = numpy.array(rhs, copy=True)
            try:
                x = UTPM(data.copy())
                sl, rhs = mk(x)
                x[sl] = rhs
            except Exception as e:
                rep.violation('setitem:self-view:exception', '%s raises %r' % (name, e), dict(kind='self-view', form=name)); break
            if not numpy.array_equal(x.data, expect):
                rep.violation('setitem:self-view', '%s on a polynomial differs from the same NumPy assignment on every coefficient slice' % name, dict(kind='self-view', form=name, D=D, P=P))
                break
    # complex target, real part of itself
    data = (numpy.arange(12, dtype=float).reshape((2, 2, 3)) + 1) * (1 + 0.5j)
    x = UTPM(data.copy())
    try:
        x[...] = UTPM.real(x)
        rep.case(('self-view', 'x[...] = real(x)'), True)
        if not numpy.array_equal(x.data, data.real.astype(complex)):
            rep.violation('setitem:self-view:real', 'x[...] = real(x) for complex x does not store the real parts', dict(kind='self-view', form='x[...] = real(x)'))
    except Exception as e:
        rep.notes.append('x[...] = real(x) raised %r' % (e,))


# ------------------------------------------------------------------------------------------------ C14
def c14_results_as_arguments(rep, algopy, rng, tier):
    """objects a driver RETURNED are handed back to the same graph as arguments (a gradient as the next point, an adjoint as the next
    input or seed): the call must not modify them and must give what it gives for an independent copy"""
    UTPM, CGraph, Function = algopy.UTPM, algopy.CGraph, algopy.Function
    for it in range(6 if tier == 'quick' else 60):
        x0 = numpy.array([rng.randint(2, 8) / 4 for _ in range(3)])
        cg = CGraph(); fx = Function(x0.copy()); fy = algopy.sum(fx * fx * fx) + algopy.sin(fx[0]) * fx[1] * fx[2]
        cg.trace_off(); cg.independentFunctionList = [fx]; cg.dependentFunctionList = [fy]
        pt = numpy.array([rng.randint(2, 8) / 4 for _ in range(3)])
        for name in ('gradient(gradient(x))', 'hess_vec(x, gradient(x))', 'pushforward([xbar]); pullback([ybar])'):
            rep.count('result handed back as argument', name)
            rep.case(('result-as-arg', name, it), True, sample=dict(check='returned objects handed back as arguments', call=name))
            try:
                g = cg.gradient(pt.copy())
                if name == 'gradient(gradient(x))':
                    before = numpy.array(g, copy=True); r = numpy.array(cg.gradient(g), copy=True); ref = numpy.array(cg.gradient(before.copy()), copy=True)
                    bad = (not numpy.array_equal(numpy.asarray(g), before)) or not numpy.allclose(r, ref, rtol=1e-12, atol=1e-12)
                elif name == 'hess_vec(x, gradient(x))':
                    before = numpy.array(g, copy=True); r = numpy.array(cg.hess_vec(pt.copy(), g), copy=True); ref = numpy.array(cg.hess_vec(pt.copy(), before.copy()), copy=True)
                    bad = (not numpy.array_equal(numpy.asarray(g), before)) or not numpy.allclose(r, ref, rtol=1e-12, atol=1e-12)
                else:
                    D, P = 2, 1
                    cg.pushforward([UTPM(numpy.array([[pt], [pt * 0.5]]))]); cg.pullback([UTPM(numpy.array([[1.0], [0.25]]))])
                    xb = cg.independentFunctionList[0].xbar; before = numpy.array(xb.data, copy=True)
                    cg.pushforward([xb]); snap_after_push = numpy.array(xb.data, copy=True)
                    cg.pullback([UTPM(numpy.array([[1.0], [0.25]]))])
                    bad = not numpy.array_equal(snap_after_push, before) or not numpy.array_equal(numpy.asarray(xb.data), before)
            except Exception as e:
                rep.notes.append('%s raised %r' % (name, e)); continue
            if bad:
                rep.violation('driver-args:returned-object:%s' % name.split('(')[0], 'cg.%s: the object handed in (a result of an earlier call on the same graph) was modified, or the result differs from the call with an independent copy' % name,
                              dict(kind='result-as-arg', call=name, point=pt.tolist()))


# ------------------------------------------------------------------------------------------------ C15
def c15_rejected_calls(rep, rng, tier):
    """a call the library REJECTS (mismatched multi-index lengths, raising in the middle of the sum) leaves nothing behind: the next legal
    calls return what they return in a fresh process"""
    import algopy.exact_interpolation as m
    from fractions import Fraction
    for N, d in [(2, 2), (2, 3), (3, 2), (1, 4), (2, 4)]:
        rep.count('rejected call then legal call (N, d)', '%d,%d' % (N, d))
        rep.case(('rejected-call', N, d), True, sample=dict(check='state after a rejected call', N=N, d=d))
        try:
            G_ref, rays_ref = m.generate_Gamma_and_rays(N, d)
            G_ref = numpy.array(G_ref, copy=True)
            J = m.generate_multi_indices(N, d)
            for bad_args in ((J[0], J[0][:-1]), (J[-1], numpy.zeros(0, dtype=int)), (J[0], None)):
                try:
                    m.gamma(*bad_args)
                except Exception:
                    pass
                g00 = m.gamma(J[0], J[0])
                G2, rays2 = m.generate_Gamma_and_rays(N, d)
                if g00 != G_ref[0, 0] or not numpy.array_equal(G2, G_ref) or not numpy.array_equal(rays2, rays_ref):
                    rep.violation('history:after-rejected-call', 'after a rejected gamma(i, j) call, gamma / generate_Gamma_and_rays(%d,%d) return other values than before (gamma(J0,J0) = %r, before %r)' % (N, d, g00, G_ref[0, 0]),
                                  dict(kind='rejected-call', N=N, d=d))
                    return
        except Exception as e:
            rep.violation('history:after-rejected-call:exception', 'generate_Gamma_and_rays(%d,%d) around rejected calls raises %r' % (N, d, e), dict(kind='rejected-call', N=N, d=d, exc=repr(e)))
            return


# ------------------------------------------------------------------------------------------------ C16
def c16_same_object(rep, nd, funcs, rng, tier):
    """the SAME argument array handed to a closed form again after its contents were changed in place (x += h between calls, or the
    result written into x with out=x): the derivative at the current contents, as for a fresh array"""
    for name, (dom, has_model) in sorted(funcs.items()):
        if name in ('polygamma', 'hyperu'):
            continue
        f = getattr(nd, name)
        lo, hi = dom[0] if isinstance(dom, list) else dom
        lo = float(lo); hi = float(hi)
        a = max(lo, -2.0) + 0.125 * (1 if lo > -1e9 else 0); b = min(hi, 3.0)
        pts = numpy.linspace(a + 0.1 * (b - a), a + 0.45 * (b - a), 3)
        if name == 'reciprocal':
            pts = numpy.array([0.5, 0.75, 1.25])
        for n in (1, 2, 3):
            x = pts.copy()
            rep.count('same object', name)
            rep.case(('same-object', name, n), True, sample=dict(check='same argument object, contents changed in place', function=name, n=n))
            try:
                f(x, n=n)
                x += 0.3 * (b - a)                                  # the caller moves on, same object
                got = numpy.array(f(x, n=n), copy=True)
                want = numpy.array(f(numpy.array(x, copy=True), n=n), copy=True)
                got2 = numpy.array(f(x, n=max(n - 1, 0) + 1), copy=True)        # once more, no change in between
            except Exception as e:
                rep.notes.append('same-object call of %s raised %r' % (name, e)); break
            if not numpy.array_equal(got, want, equal_nan=True) or not numpy.array_equal(got2, want, equal_nan=True):
                rep.violation('same-object:%s' % name, 'nthderiv.%s(x, n=%d) called with the same array object after x was changed in place returns the values for the old contents' % (name, n),
                              dict(kind='same-object', function=name, n=n, x=x.tolist(), got=got.tolist(), want=want.tolist()))
                break


# ------------------------------------------------------------------------------------------------ C17
def c17_lu_factor_layouts(rep, algopy, rng, tier):
    """UTPM.lu_factor / lu2 / lu / det on arguments of every memory layout (C order, Fortran order, transposed views, float32): the
    argument is what it was, P L U equals the argument AS HELD, det = sign * prod(diag U), and a second call returns the same"""
    import scipy.linalg, lib
    UTPM, U = algopy.UTPM, algopy.utils
    for it in range(16 if tier == 'quick' else 200):
        D = rng.randint(1, 3); P = rng.randint(1, 2); N = rng.randint(2, 4)
        A = numpy.zeros((D, P, N, N))
        for idx in numpy.ndindex(*A.shape):
            A[idx] = rng.randint(-8, 8) / 4
        for p in range(P):
            # a row-permuted strictly diagonally dominant matrix: never singular, partial pivoting really pivots
            A[0, p] = numpy.array([[rng.randint(-4, 4) / 4 for _ in range(N)] for _ in range(N)]) + numpy.diag([rng.choice([5.0, -5.0, 6.0]) for _ in range(N)])
            A[0, p] = A[0, p][rng.sample(range(N), N)]
        layout = ['C', 'F', 'T', 'T-of-copy'][it % 4]
        held = lib.relayout(A.copy(), layout if layout != 'T-of-copy' else 'T')
        if layout == 'T-of-copy':
            held = numpy.array(A.transpose((0, 1, 3, 2)), copy=True, order='C').transpose((0, 1, 3, 2))      # a transposed VIEW: Fortran-contiguous slices
        rep.count('lu_factor layout', layout)
        rep.case(('lu-layout', layout, A.tobytes().hex()[:64]), True, sample=dict(check='lu_factor on every layout', layout=layout, D=D, P=P, N=N))
        try:
            x = UTPM(held)
            before = numpy.array(x.data, copy=True)
            LU, PIV = UTPM.lu_factor(x)
            LU1, PIV1 = numpy.array(LU.data, copy=True), numpy.array(PIV.data, copy=True)
            LU2, PIV2 = UTPM.lu_factor(x)
            bad = None
            if not numpy.array_equal(numpy.asarray(x.data), before):
                bad = 'the argument was modified'
            elif not (numpy.array_equal(LU1, numpy.asarray(LU2.data)) and numpy.array_equal(PIV1, numpy.asarray(PIV2.data))):
                bad = 'a second call returns other factors / pivots'
            else:
                for p in range(P):
                    W = U.piv2mat(numpy.asarray(PIV1[0, p], dtype=int))
                    L0 = numpy.tril(LU1[0, p], -1) + numpy.eye(N); U0 = numpy.triu(LU1[0, p])
                    if not numpy.allclose(W @ L0 @ U0, before[0, p], atol=1e-12):
                        bad = 'P L U != A at the base point of direction %d' % p; break
                    if abs(U.piv2det(numpy.asarray(PIV1[0, p], dtype=int)) * numpy.prod(numpy.diag(U0)) - numpy.linalg.det(before[0, p])) > 1e-9 * (1 + abs(numpy.linalg.det(before[0, p]))):
                        bad = 'det(A) != sign * prod(diag U) in direction %d' % p; break
            if bad:
                rep.violation('piv:lu_factor:layout', 'UTPM.lu_factor on a %s-layout argument: %s' % (layout, bad), dict(kind='lu-layout', layout=layout, A=A.tolist()))
        except Exception as e:
            rep.violation('piv:lu_factor:layout:exception', 'UTPM.lu_factor on a %s-layout argument raises %r' % (layout, e), dict(kind='lu-layout', layout=layout, exc=repr(e)))


# ------------------------------------------------------------------------------------------------ C06
def c06_jacobian_degrees(rep, ap, rng, tier):
    """one graph, cg.jacobian called with plain points and with polynomials of DIFFERENT degrees and direction counts in any order: every
    call equals the call on a freshly recorded graph"""
    def rec():
        cg = ap.CGraph(); fx = ap.Function(numpy.array([0.5, 1.25, 0.75]))
        fy = fx * ap.sin(fx[::-1]) + fx[0] * fx
        cg.trace_off(); cg.independentFunctionList = [fx]; cg.dependentFunctionList = [fy]
        return cg
    for it in range(8 if tier == 'quick' else 100):
        cg = rec(); hist = []
        for step in range(rng.randint(2, 5)):
            kind = rng.choice(['ndarray', 'UTPM'])
            D = rng.randint(1, 4); P = rng.choice([1, 1, 2])
            arg = (numpy.array([rng.randint(1, 8) / 4 for _ in range(3)]) if kind == 'ndarray'
                   else ap.UTPM(numpy.array([rng.randint(1, 8) / 4 for _ in range(D * P * 3)]).reshape((D, P, 3))))
            hist.append(kind if kind == 'ndarray' else 'UTPM(D=%d,P=%d)' % (D, P))
            rep.count('jacobian argument', hist[-1])
            rep.case(('jacobian-degrees', it, step, tuple(hist)), step >= 1, sample=dict(check='jacobian with changing degrees', history=list(hist)))
            try:
                got = numpy.array(_data(cg.jacobian(arg)), copy=True)
                want = numpy.array(_data(rec().jacobian(arg if kind == 'ndarray' else ap.UTPM(arg.data.copy()))), copy=True)
            except Exception as e:
                rep.violation('history:jacobian-degrees:exception', 'cg.jacobian after the calls %s raises %s' % (hist[:-1], str(e)[-200:]), dict(kind='jacobian-degrees', history=list(hist))); break
            if got.shape != want.shape or not numpy.allclose(got, want, rtol=1e-12, atol=1e-12):
                rep.violation('history:jacobian-degrees', 'cg.jacobian(%s) after the calls %s differs from the same call on a freshly recorded graph' % (hist[-1], hist[:-1]), dict(kind='jacobian-degrees', history=list(hist)))
                break


# ------------------------------------------------------------------------------------------------ C05
def c05_access_while_off(rep, ap, rng, tier):
    """attributes and operations of a node touched while recording is switched OFF (a shape assertion, a debug print of x.T, x.shape) and
    used again after it is switched on: the graph replays the program at other points"""
    for it in range(6 if tier == 'quick' else 60):
        x_rec = numpy.array([[rng.randint(1, 8) / 4 for _ in range(3)] for _ in range(2)])
        form = ['T', 'reshape', 'getitem', 'neg'][it % 4]
        rep.count('touched while recording is off', form)
        rep.case(('access-off', form, it), True, sample=dict(check='operation first evaluated while recording is off', form=form))
        try:
            cg = ap.CGraph(); fx = ap.Function(x_rec.copy())
            cg.trace_off()
            probe = {'T': lambda z: z.T, 'reshape': lambda z: ap.reshape(z, (3, 2)), 'getitem': lambda z: z[0], 'neg': lambda z: -z}[form]
            _ = probe(fx)                                   # e.g. "assert x.T.shape == (3, 2)"
            cg.trace_on()
            v = probe(fx)
            fy = ap.sum(v * v) + ap.sum(ap.sin(v))
            cg.trace_off(); cg.independentFunctionList = [fx]; cg.dependentFunctionList = [fy]
            x2 = numpy.array([[rng.randint(1, 8) / 4 for _ in range(3)] for _ in range(2)]) + 0.125
            got = float(_data(cg.function([x2])[0]).reshape(-1)[0])
            w = probe(x2)
            want = float(numpy.sum(w * w) + numpy.sum(numpy.sin(w)))
            known = all(getattr(a, 'ID', None) is not None and a.ID < len(cg.functionList) and cg.functionList[a.ID] is a for f_ in cg.functionList for a in f_.args if isinstance(a, ap.Function))
        except Exception as e:
            rep.notes.append('access-while-off (%s) raised %r' % (form, e)); continue
        if abs(got - want) > 1e-12 * (1 + abs(want)):
            rep.violation('replay:touched-while-off:%s' % form, 'a node whose %s was first evaluated while recording was off: the replay at another point gives %r, the program %r' % (form, got, want),
                          dict(kind='access-off', form=form, x_rec=x_rec.tolist(), x_new=x2.tolist()))


# ------------------------------------------------------------------------------------------------ C08
def c08_overflowing_direction(rep, algopy, rng, tier, viol):
    """one direction whose higher coefficients overflow (1e200, products leave the float64 range) next to ordinary directions: the ordinary
    directions still satisfy the defining equations (lu2 / det / lu / cholesky / qr)"""
    import scipy.linalg
    UTPM = algopy.UTPM
    for it in range(4 if tier == 'quick' else 40):
        D = rng.randint(3, 4); P = 3; n = rng.randint(2, 4)
        A = numpy.zeros((D, P, n, n))
        for idx in numpy.ndindex(*A.shape):
            A[idx] = rng.randint(-8, 8) / 4
        for p in range(P):
            # strictly diagonally dominant base matrices (off-diagonal entries in [-1, 1], n <= 4): never singular
            A[0, p] = numpy.array([[rng.randint(-4, 4) / 4 for _ in range(n)] for _ in range(n)]) + numpy.diag([rng.choice([5.0, 6.0, -5.0]) for _ in range(n)])
        bad_dir = it % 2                                    # the overflowing direction comes first / in the middle
        A[1:, bad_dir] *= 1e200
        rep.count('overflowing direction', bad_dir)
        rep.case(('overflow-dir', it, A.tobytes().hex()[:64]), True, sample=dict(check='one direction overflows', n=n, D=D, overflowing=bad_dir))
        with numpy.errstate(all='ignore'):
            for entry in ('lu2', 'det', 'lu'):
                try:
                    if entry == 'det':
                        full = numpy.asarray(algopy.det(UTPM(A.copy())).data)
                        for p in range(P):
                            if p == bad_dir:
                                continue
                            alone = numpy.asarray(algopy.det(UTPM(A[:, p:p + 1].copy())).data)[:, 0]
                            if not numpy.allclose(full[:, p], alone, rtol=1e-10, atol=1e-12, equal_nan=False):
                                viol('%s:overflow-direction' % entry, 'det: direction %d (ordinary) differs from the same direction alone when direction %d overflows: %s vs %s' % (p, bad_dir, full[:, p], alone),
                                     dict(op=entry, A='direction %d scaled by 1e200' % bad_dir)); break
                    else:
                        res = UTPM.lu2(UTPM(A.copy())) if entry == 'lu2' else UTPM.lu(UTPM(A.copy()))
                        Ld, Ud = numpy.asarray(res[1].data), numpy.asarray(res[2].data)
                        for p in range(P):
                            if p == bad_dir:
                                continue
                            one = UTPM.lu2(UTPM(A[:, p:p + 1].copy())) if entry == 'lu2' else UTPM.lu(UTPM(A[:, p:p + 1].copy()))
                            if not (numpy.allclose(Ld[:, p], numpy.asarray(one[1].data)[:, 0], rtol=1e-10, atol=1e-12) and numpy.allclose(Ud[:, p], numpy.asarray(one[2].data)[:, 0], rtol=1e-10, atol=1e-12)):
                                viol('%s:overflow-direction' % entry, '%s: the factors of direction %d (ordinary) are not those of that direction alone when direction %d overflows' % (entry, p, bad_dir),
                                     dict(op=entry, A='direction %d scaled by 1e200' % bad_dir)); break
                except Exception as e:
                    rep.notes.append('%s with an overflowing direction raised %r' % (entry, e))
