"""C04 -- graph derivative drivers return the derivatives at the requested point.
Theorems: Props/C04.v (TracerSpec: gradient/Jacobian rows are the transposes of forward tangents; replay depends on the tape and the
evaluation point only; the store refreshed on replay -- the unrepaired stale store is refuted by a kernel-checked witness).
Checks on the implementation: every driver of a recorded graph, at points different from the recording point and with graphs recorded
from ndarray or UTPM inputs, against (a) the forward-mode drivers of UTPM on the same program, (b) for polynomial programs with integer
coefficients at integer points the exact derivatives from the Coq model (tolerance 0), (c) jacobian(UTPM) against forward propagation."""
import json
from fractions import Fraction
import numpy
import lib, progs, c05
import tracer_model as tm
from lib import Report, qlit, qseq, natseq

PID = 'C04'
F = Fraction


def record_vec(ap, prog, x):
    cg = ap.CGraph()
    fx = ap.Function(x)
    fy = progs.run_vec(prog, fx, ap)
    cg.trace_off()
    cg.independentFunctionList = [fx]
    cg.dependentFunctionList = [fy]
    return cg, fx, fy


def fwd_jacobian(ap, f, x):
    return ap.UTPM.extract_jacobian(f(ap.UTPM.init_jacobian(x)))


def fwd_hessian(ap, f, x):
    N = len(x)
    return ap.UTPM.extract_hessian(N, f(ap.UTPM.init_hessian(x)))


def close(a, b, rtol=1e-8):
    a = numpy.asarray(a, dtype=float); b = numpy.asarray(b, dtype=float)
    if a.shape != b.shape:
        return False
    return bool(numpy.all(numpy.abs(a - b) <= rtol * (1 + numpy.abs(b))))


def poly_prog(rng, N, maxdeg=6):
    """polynomial program with integer coefficients (+ - * and small integer constants/powers, optional buffer block);
    the total degree is kept <= maxdeg so that float64 stays exact at small integer points"""
    instrs = [['x', i] for i in range(N)]
    sc = list(range(N))          # scalar registers
    deg = {i: 1 for i in range(N)}
    nreg = N

    def emit(ins, scalar=True, d=0):
        nonlocal nreg
        instrs.append(ins); nreg += 1
        if scalar:
            sc.append(nreg - 1); deg[nreg - 1] = d
        return nreg - 1
    for _ in range(rng.randint(3, 9)):
        a = rng.choice(sc); b = rng.choice(sc)
        r = rng.random()
        if r < 0.6:
            op = rng.choice(['add', 'sub', 'mul', 'mul'])
            d = deg[a] + deg[b] if op == 'mul' else max(deg[a], deg[b])
            if d <= maxdeg:
                emit(['bin', op, ['r', a], ['r', b]], d=d)
        elif r < 0.8:
            c = ['c', float(rng.choice([-3, -2, 2, 3]))]
            emit(['bin', rng.choice(['add', 'mul', 'sub']), c, ['r', a]] if rng.random() < 0.5 else ['bin', rng.choice(['add', 'mul', 'sub']), ['r', a], c], d=deg[a])
        else:
            n = rng.choice([2, 3])
            if deg[a] * n <= maxdeg:
                emit(['pow', a, n], d=deg[a] * n)
    if rng.random() < 0.4:
        buf = emit(['zeros', 2], scalar=False)
        low = [r for r in sc if deg[r] <= maxdeg - 1]
        a0 = rng.choice(low); a1 = rng.choice(sc)
        instrs.append(['set', buf, 0, ['r', a0]])
        instrs.append(['set', buf, 1, ['r', a1]])
        g0 = emit(['get', buf, 0], d=maxdeg)          # views: degree may change when the cell is overwritten -> treat as maximal
        m = emit(['bin', 'mul', ['r', g0], ['r', rng.randrange(N)]], d=maxdeg)
        instrs.append(['set', buf, 0, ['r', m]])
        g1 = emit(['get', buf, 0], d=maxdeg); g2 = emit(['get', buf, 1], d=maxdeg)
        emit(['bin', 'add', ['r', g1], ['r', g2]], d=maxdeg)
    out = emit(['bin', 'add', ['r', sc[-1]], ['r', rng.choice(sc)]], d=maxdeg)
    return dict(N=N, instrs=instrs, ret=[out])


def main(tier, seed):
    ap = lib.import_algopy()
    UTPM = ap.UTPM
    rep = Report(PID, tier, seed)
    rep.rule = ('generated programs R^N -> R^M (M=1 for gradient/hessian/hess_vec, M in 1..3 for jacobian/jac_vec/vec_jac/vec_hess), N<=4, '
                'recorded at one point with an ndarray or a UTPM (D<=3) and evaluated at 2 other points, each driver compared with the forward-mode '
                'drivers; integer polynomial programs at integer points compared exactly with the Coq model; jacobian of a UTPM argument compared '
                'with forward propagation; one evaluation = one (program, recording point, evaluation point, driver); non-trivial = evaluation '
                'point differs from the recording point; distinct by content')
    rep.assumptions = ['forward-mode drivers are the reference (decided by C09/C01); tolerance 1e-8 relative for smooth programs, 0 for integer polynomial programs']
    rep.theorems()
    rng = lib.rng_for(seed, PID)
    n_prog = 60 if tier == 'quick' else 1200
    terms, metas = [], []
    # every array-level block of the generator in every variant (one program each), besides the random compositions
    kernel = [(nm, pr) for nm, pr in progs.kernel_programs(rng, ap, reps=1) if nm.split(':')[0].endswith('_block')] if tier == 'quick' else \
             [(nm, pr) for nm, pr in progs.kernel_programs(rng, ap, reps=2) if nm.split(':')[0].endswith('_block')]
    for it in range(n_prog + len(kernel)):
        if it < n_prog:
            N = rng.randint(1, 4)
            M = rng.choice([1, 1, 2, 3])
            prog = progs.gen_prog(rng, ap, N=N, nout=M)
        else:
            prog = kernel[it - n_prog][1]; N = prog['N']; M = 1
            rep.count('kernel program', kernel[it - n_prog][0])
        text = progs.to_text(prog)
        rec_kind = rng.choice(['ndarray', 'UTPM'])
        x_rec = progs.rand_point(rng, N) if rec_kind == 'ndarray' else UTPM(progs.rand_utpm_data(rng, rng.randint(1, 3), rng.randint(1, 2), N))
        meta = dict(program=text, N=N, M=M, recorded_with=rec_kind, buffers=progs.has_buffer(prog))
        try:
            cg1, fx1, fys1 = c05.record(ap, dict(prog, ret=prog['ret'][:1]), x_rec)      # scalar graph (first output)
            cgv, fxv, fyv = record_vec(ap, prog, x_rec)                                  # vector-valued graph
        except Exception as e:
            rep.violation('record:exception', 'recording raises %r' % (e,), dict(kind='record', prog=prog, case=meta, exc=repr(e)))
            continue
        f1 = lambda x: progs.run(dict(prog, ret=prog['ret'][:1]), x, ap)[0]
        fv = lambda x: progs.run_vec(prog, x, ap)
        for _pt in range(3 if it < n_prog else 1):
            x = progs.rand_point(rng, N); v = progs.rand_point(rng, N); w = progs.rand_point(rng, M)
            xt = x
            if _pt == 2:
                # an integer-valued point handed over in an INTEGER dtype (Python int, int32, int16, uint8): the derivatives are those at that point
                idt = rng.choice([int, numpy.int32, numpy.int16, numpy.uint8])
                xi = numpy.array([rng.randint(0 if idt is numpy.uint8 else -3, 3) for _ in range(N)])
                x = xi.astype(float); xt = xi.astype(idt)
                rep.count('point dtype', numpy.dtype(idt).name)
            try:
                J1 = numpy.asarray(fwd_jacobian(ap, f1, x)).reshape(-1)
                H1 = numpy.asarray(fwd_hessian(ap, f1, x))
                Jv = numpy.asarray(fwd_jacobian(ap, fv, x)).reshape((M, N))
            except Exception as e:
                rep.notes.append('forward-mode reference raised %r' % e); continue
            checks = [
                ('gradient', lambda: cg1.gradient(xt), J1),
                ('hessian', lambda: cg1.hessian(xt), H1),
                ('hess_vec', lambda: cg1.hess_vec(xt, v), H1 @ v),
                ('jacobian', lambda: numpy.asarray(cgv.jacobian(xt)).reshape((M, N)), Jv),
                ('jac_vec', lambda: cgv.jac_vec(xt, v), Jv @ v),
                ('vec_jac', lambda: cgv.vec_jac(w, xt), w @ Jv),
            ]
            if True:
                def vh():
                    Hs = [numpy.asarray(fwd_hessian(ap, (lambda xx, m=m: progs.run(dict(prog, ret=[prog['ret'][m]]), xx, ap)[0]), x)) for m in range(M)]
                    return sum(w[m] * Hs[m] for m in range(M))
                checks.append(('vec_hess', lambda: cgv.vec_hess(w, xt), None))
            for name, call, want in checks:
                rep.count('driver', name); rep.count('recorded_with', rec_kind)
                rep.case((name, text, repr(c05.as_data(x_rec).tolist()), repr(x.tolist()), repr(v.tolist()), repr(w.tolist())), True,
                         sample=dict(driver=name, **{k: meta[k] for k in ('N', 'M', 'recorded_with', 'buffers')}, program=text[:200]))
                try:
                    if want is None:
                        want = vh()
                    got = numpy.asarray(call())
                except Exception as e:
                    rep.violation('driver:%s:exception' % name, '%s raises: %s' % (name, str(e)[:300]),
                                  dict(kind='driver', driver=name, prog=prog, case=meta, x=x.tolist(), exc=repr(e)[:1000]))
                    continue
                if not close(got.reshape(numpy.shape(want)) if got.size == numpy.size(want) else got, want):
                    rep.violation('driver:%s%s' % (name, ':buffers' if meta['buffers'] else ''),
                                  '%s at x=%s (graph recorded with %s) differs from the forward-mode derivative' % (name, x.tolist(), rec_kind),
                                  dict(kind='driver', driver=name, prog=prog, case=meta, x_rec=c05.as_data(x_rec).tolist(), x=x.tolist(), v=v.tolist(), w=w.tolist(),
                                       got=got.tolist(), want=numpy.asarray(want).tolist()))
        # (d) results handed out stay valid: every driver called at two points, the first results HELD (not copied) and compared
        # afterwards with copies taken when they were returned (a later call must not write into an earlier result)
        try:
            xa = progs.rand_point(rng, N); xb = progs.rand_point(rng, N); va = progs.rand_point(rng, N); wa = progs.rand_point(rng, M)
            calls = [('gradient', lambda x_: cg1.gradient(x_)), ('hessian', lambda x_: cg1.hessian(x_)), ('hess_vec', lambda x_: cg1.hess_vec(x_, va)),
                     ('jacobian', lambda x_: cgv.jacobian(x_)), ('jac_vec', lambda x_: cgv.jac_vec(x_, va)), ('vec_jac', lambda x_: cgv.vec_jac(wa, x_)),
                     ('vec_hess', lambda x_: cgv.vec_hess(wa, x_))]
            held = []
            for name, c_ in calls:
                r_ = c_(xa)
                held.append((name, r_, numpy.array(r_, copy=True)))
                c_(xb)
                rep.count('driver', 'held:' + name)
            for name, c_ in calls:
                c_(xb)
            rep.case(('held', text, repr(xa.tolist()), repr(xb.tolist())), True, sample=dict(driver='results held across later calls', program=text[:200]))
            stale = [name for name, r_, cp in held if not numpy.array_equal(numpy.asarray(r_), cp, equal_nan=True)]
            if stale:
                rep.violation('driver:held:' + stale[0], 'the result returned by %s was overwritten by later driver calls on the same graph' % ', '.join(stale),
                              dict(kind='driver', driver='held', prog=prog, case=meta, xa=xa.tolist(), xb=xb.tolist()))
            # (e) integer valued points given as Python ints / integer arrays: the same derivatives as at the float point
            xi = numpy.array([rng.randint(-2, 2) for _ in range(N)])
            for name, c_ in calls:
                rep.count('driver', 'int point:' + name)
                rf = numpy.asarray(c_(xi.astype(float)), dtype=float)
                for form, arg in (('int array', xi.copy()), ('list of int', [int(t) for t in xi])):
                    try:
                        ri = numpy.asarray(c_(arg), dtype=float)
                    except Exception as e:
                        rep.violation('driver:int-point:%s:exception' % name, '%s at an integer valued point (%s) raises %r' % (name, form, e),
                                      dict(kind='driver', driver=name, prog=prog, case=meta, x=xi.tolist(), form=form)); break
                    if ri.size != rf.size or not close(ri.reshape(rf.shape), rf):
                        rep.violation('driver:int-point:' + name, '%s at the integer valued point %s given as %s differs from the same point given as floats' % (name, xi.tolist(), form),
                                      dict(kind='driver', driver=name, prog=prog, case=meta, x=xi.tolist(), form=form, got=ri.tolist(), want=rf.tolist())); break
        except Exception as e:
            rep.notes.append('held/int-point section raised %r' % e)
        # (c) jacobian of a UTPM argument: Taylor expansion of every Jacobian entry along the curve
        D = rng.randint(1, 3); P = rng.randint(1, 2)
        xd = progs.rand_utpm_data(rng, D, P, N)
        rep.count('driver', 'jacobian(UTPM)')
        rep.case(('jacobian-utpm', text, xd.tobytes().hex()), True, sample=dict(driver='jacobian(UTPM)', D=D, P=P, N=N, M=M))
        try:
            JT = numpy.asarray(cgv.jacobian(UTPM(xd.copy())).data)           # (D, P, M, N)
            ok = JT.shape == (D, P, M, N)
            y0 = numpy.asarray(fv(UTPM(numpy.concatenate([xd, numpy.zeros_like(xd)], axis=0))).data)
            for j in range(N):
                if not ok:
                    break
                e = numpy.zeros_like(xd); e[0, :, j] = 1.0
                ye = numpy.asarray(fv(UTPM(numpy.concatenate([xd, e], axis=0))).data)
                col = (ye - y0)[D:2 * D]                                          # (D, P, M)
                if not close(JT[:, :, :, j], col, 1e-7):
                    ok = False
            if not ok:
                rep.violation('driver:jacobian-utpm', 'jacobian of a UTPM argument is not the Taylor expansion of the Jacobian entries along the curve',
                              dict(kind='driver', driver='jacobian(UTPM)', prog=prog, case=meta, x=xd.tolist()))
        except Exception as e:
            rep.violation('driver:jacobian-utpm:exception', 'jacobian(UTPM) raises: %s' % str(e)[:300], dict(kind='driver', driver='jacobian(UTPM)', prog=prog, case=meta, x=xd.tolist(), exc=repr(e)[:800]))

    # (b) integer polynomial programs at integer points: exact, against the Coq model
    n_poly = 40 if tier == 'quick' else 600
    for _ in range(n_poly):
        N = rng.randint(1, 4)
        prog = poly_prog(rng, N)
        text = progs.to_text(prog)
        x_rec = numpy.array([float(rng.randint(-3, 3)) for _ in range(N)])
        x = numpy.array([float(rng.randint(-3, 3)) for _ in range(N)])
        rep.count('driver', 'gradient(poly,exact)')
        rep.case(('poly', text, repr(x_rec.tolist()), repr(x.tolist())), True, sample=dict(driver='gradient/hessian exact', program=text[:200], x=x.tolist()))
        try:
            cg, fx, fys = c05.record(ap, prog, x_rec)
            g = numpy.asarray(cg.gradient(x)).reshape(-1)
            H = numpy.asarray(cg.hessian(x))
        except Exception as e:
            rep.violation('poly:exception', 'gradient/hessian of a polynomial program raises: %s' % str(e)[:200], dict(kind='poly', prog=prog, x=x.tolist(), exc=repr(e)[:600]))
            continue
        outs = [f.ID for f in fys]
        P_ = tm.prog_lit(prog, 1)
        xs1 = tm.series_list(x.reshape((1, N)))
        terms.append('(sers_close %s (T_grad 1 (T_record %s).1 %s %s [:: [:: %s]]) %s)' % (qlit(F(0)), P_, natseq(outs), xs1, qlit(F(1)), tm.series_list(g.reshape((1, N)))))
        metas.append(dict(check='gradient exact', prog=prog, x_rec=x_rec.tolist(), x=x.tolist(), got=g.tolist()))
        # Hessian row i = first-order coefficient of xbar along direction e_i
        P2 = tm.prog_lit(prog, 2)
        for i in range(N):
            xd = numpy.zeros((2, N)); xd[0] = x; xd[1, i] = 1.0
            want = numpy.zeros((2, N)); want[0] = g; want[1] = H[i]
            terms.append('(sers_close %s (T_grad 2 (T_record %s).1 %s %s [:: [:: %s; %s]]) %s)' % (qlit(F(0)), P2, natseq(outs), tm.series_list(xd), qlit(F(1)), qlit(F(0)), tm.series_list(want)))
            metas.append(dict(check='hessian row exact', row=i, prog=prog, x_rec=x_rec.tolist(), x=x.tolist(), got=H[i].tolist()))
    verdicts, logs = lib.eval_bool_cases(PID, tm.IMPORTS, tm.DEFS, terms, per_file=40)
    bad = 0
    for m, vd, t in zip(metas, verdicts, terms):
        rep.count('model', m['check'])
        rep.case(('model', m['check'], json.dumps(m['prog']), json.dumps(m['x']), m.get('row')), m['x'] != m['x_rec'], sample=dict(check=m['check'], x=m['x'], got=m['got']))
        if vd is None:
            bad += 1
        elif not vd:
            rep.violation('poly:' + m['check'].split()[0], '%s of an integer polynomial program differs from the exact derivative (Coq model)' % m['check'],
                          dict(kind='poly', case={k: m[k] for k in m if k != 'prog'}, prog=m['prog'], coq_term=t[:5000]))
    if bad or logs:
        rep.violation('corr:uneval', 'correspondence corr.C04 could not be evaluated for %d cases' % bad, dict(kind='correspondence', name='corr.C04', log=logs[:3]), no_input=True)
    several_independents(rep, ap, rng, tier)
    return rep.finish()


def several_independents(rep, ap, rng, tier):
    """cg.gradient([..]) for graphs with two independent variables - wrapped eagerly or lazily (work recorded on the first before the second
    exists), declared in creation order or swapped - against forward mode on the concatenated argument, at points other than the recording point"""
    import multi
    for it in range(16 if tier == 'quick' else 200):
        lazy, swapped = bool(it & 1), bool(it & 2)
        kind = 'ndarray' if it & 4 else 'UTPM'
        mk = (lambda n: progs.rand_point(rng, n) + 0.125) if kind == 'ndarray' else (lambda n: ap.UTPM(progs.rand_utpm_data(rng, 2, 1, n)))
        try:
            cg, order = multi.record(ap, mk(3), mk(2), lazy, swapped)
        except Exception as e:
            rep.violation('multi:record:exception', 'recording a graph with two independents raises %r' % (e,), dict(kind='multi', lazy=lazy, swapped=swapped)); continue
        for _ in range(2):
            a, b = progs.rand_point(rng, 3) + 0.125, progs.rand_point(rng, 2) + 0.125
            args = [b, a] if swapped else [a, b]
            rep.count('driver', 'gradient([x1, x2])'); rep.count('several independents', '%s, declared %s' % ('lazy' if lazy else 'eager', 'swapped' if swapped else 'in creation order'))
            rep.case(('multi-gradient', lazy, swapped, kind, repr(a.tolist()), repr(b.tolist())), True,
                     sample=dict(driver='gradient of several independents', wrapping='lazy' if lazy else 'eager', declared='swapped' if swapped else 'creation order', recorded_with=kind))
            try:
                got = [numpy.asarray(g) for g in cg.gradient(args)]
                ga, gb = multi.forward_gradients(ap, a, b)
                want = [gb, ga] if swapped else [ga, gb]
            except Exception as e:
                rep.violation('multi:gradient:exception', 'cg.gradient([x1, x2]) raises %r' % (e,), dict(kind='multi', lazy=lazy, swapped=swapped, a=a.tolist(), b=b.tolist(), exc=repr(e)[:600])); break
            if len(got) != 2 or not all(g.shape == w.shape and numpy.allclose(g, w, rtol=1e-9, atol=1e-10) for g, w in zip(got, want)):
                rep.violation('multi:gradient:%s:%s' % ('lazy' if lazy else 'eager', 'swapped' if swapped else 'ordered'),
                              'cg.gradient([x1, x2]) (inputs wrapped %s, declared %s) differs from the forward-mode gradient' % ('lazily' if lazy else 'eagerly', 'swapped' if swapped else 'in creation order'),
                              dict(kind='multi', lazy=lazy, swapped=swapped, a=a.tolist(), b=b.tolist(), got=[g.tolist() for g in got], want=[w.tolist() for w in want]))
                break


def replay(path):
    pl = json.load(open(path))
    return main(pl.get('tier', 'quick'), pl.get('seed', 0))
