"""Graphs with TWO independent variables: inputs wrapped eagerly or lazily (operations on the first recorded before the second exists),
declared in creation order or swapped; the same function on raw values; forward-mode reference gradients."""
import numpy


def fun(ap, a, b, alloc):
    """a: shape (3,), b: shape (2,) (raw values or Function nodes); a node that depends on b alone, one on a alone, a buffer"""
    s1 = ap.sin(a[0]) * a[1] + 1.5
    u = a * a * a                                   # depends on a only
    q = b * b                                       # depends on b only
    buf = alloc(2)
    buf[0] = s1 * s1
    buf[1] = a[2] - 0.5
    t = buf[0] * b[0] + ap.exp(ap.sin(b[1])) * buf[1]
    return ap.sum(u) * ap.sum(q) + t + s1


def record(ap, xr, yr, lazy, swapped):
    """returns (cg, order) with order = names of the independents in DECLARED order"""
    cg = ap.CGraph()
    fa = ap.Function(xr)
    if lazy:
        pre = ap.sin(fa[0]) * fa[1]                  # recorded before b exists
        fb = ap.Function(yr)
    else:
        fb = ap.Function(yr)
        pre = ap.sin(fa[0]) * fa[1]
    y = fun(ap, fa, fb, lambda k: ap.zeros(k, dtype=fa)) + pre
    cg.trace_off()
    cg.independentFunctionList = [fb, fa] if swapped else [fa, fb]
    cg.dependentFunctionList = [y]
    return cg, (['b', 'a'] if swapped else ['a', 'b'])


def direct(ap, a, b):
    zeros = (lambda k: ap.zeros(k, dtype=a)) if isinstance(a, ap.UTPM) else ((lambda k: ap.zeros(k, dtype=b)) if isinstance(b, ap.UTPM) else (lambda k: numpy.zeros(k)))
    return fun(ap, a, b, zeros) + ap.sin(a[0]) * a[1]


def forward_gradients(ap, a, b):
    """(df/da, df/db) at plain points a, b by forward mode on the concatenated argument"""
    z = ap.UTPM.init_jacobian(numpy.concatenate([a, b]))
    g = numpy.asarray(ap.UTPM.extract_jacobian(direct(ap, z[:3], z[3:]))).reshape(-1)
    return g[:3], g[3:]
