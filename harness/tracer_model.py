"""Coq literals for the Tracer.v model: rational scalar programs with buffers (instantiated with truncated series over Qc)."""
from fractions import Fraction
import lib
from lib import qlit, qseq

IMPORTS = 'QcField Sums Series Tracer TracerExec'

# instantiate the raw operations of Tracer.v with series of length D over Qc
DEFS = """
Definition ser := seq Qc.
(* the executable instance is TracerExec.v (proved to refine the ring instance in TracerRefine.v) at K := Qc *)
Definition T_record := @record ser.
Definition T_replay_out : nat -> tape ser -> seq nat -> seq ser -> seq ser := @X_replay_out K.
Definition T_eval_out : nat -> seq (instr ser) -> seq nat -> seq ser -> seq ser := @X_eval_out K.
Definition T_grad : nat -> tape ser -> seq nat -> seq ser -> seq ser -> seq ser := @X_grad K.
Definition T_tangent_out : nat -> tape ser -> seq nat -> seq ser -> seq ser -> seq ser := @X_tangent_out K.
Definition cst (D : nat) (c : Qc) : ser := constS (c : K) D.
(* tape shape for comparison with cg.functionList: (kind code, argument ids) *)
Definition opcode (o : nodeop ser) : nat :=
  match o with
  | NInput => 0 | NConst _ => 1 | NGetX _ => 2 | NBin Add => 3 | NBin Sub => 4 | NBin Mul => 5 | NBin Div => 6
  | NNeg => 7 | NUn f => (10 + f)%N | NPow _ => 8 | NZeros _ => 9 | NSet _ => 20 | NGet _ => 2 end.
Definition tape_shape (t : tape ser) : seq (nat * seq nat) := [seq (opcode (nop nd), nargs nd) | nd <- t].
Definition sers_close (tol : Qc) (a b : seq ser) : bool := (size a == size b) && all (fun ab => Qc_allclose tol ab.1 ab.2) (zip a b).
"""

UN_CODE = {'square': 0, 'reciprocal': 1, 'negative': 2}
BIN = {'add': 'Add', 'sub': 'Sub', 'mul': 'Mul', 'div': 'Div'}
# opcode of the implementation's node names
NAME_CODE = {'Id': None, 'getitem': 2, 'add': 3, 'sub': 4, 'mul': 5, 'truediv': 6, 'neg': 7, 'pow': 8, 'zeros': 9, 'setitem': 20,
             'square': 10, 'reciprocal': 11, 'negative': 12}


def operand_lit(o, D):
    if o[0] == 'r':
        return '(OReg _ %d)' % o[1]
    return '(OConst (cst %d %s))' % (D, qlit(lib.frac(o[1])))


def prog_lit(prog, D):
    """Coq term of type seq (instr ser); only the rational scalar subset"""
    out = []
    for ins in prog['instrs']:
        k = ins[0]
        if k == 'x':
            out.append('(IX _ %d)' % ins[1])
        elif k == 'bin':
            out.append('(IBin %s %s %s)' % (BIN[ins[1]], operand_lit(ins[2], D), operand_lit(ins[3], D)))
        elif k == 'un':
            out.append('(IUn _ %d %d)' % (UN_CODE[ins[1]], ins[2]))
        elif k == 'pow':
            out.append('(IPow _ %d %d)' % (ins[1], ins[2]))
        elif k == 'zeros':
            out.append('(IZeros _ %d)' % ins[1])
        elif k == 'set':
            out.append('(ISet %d %d %s)' % (ins[1], ins[2], operand_lit(ins[3], D)))
        elif k == 'get':
            out.append('(IGet _ %d %d)' % (ins[1], ins[2]))
        else:
            raise ValueError('instruction %r is outside the Coq model' % (ins,))
    return '([:: ' + '; '.join(out) + '] : seq (instr ser))'


def in_model(prog):
    for ins in prog['instrs']:
        k = ins[0]
        if k not in ('x', 'bin', 'un', 'pow', 'zeros', 'set', 'get'):
            return False
        if k == 'un' and ins[1] not in UN_CODE:
            return False
        if k == 'pow' and not (isinstance(ins[2], int) and ins[2] >= 0):
            return False
        if k == 'bin' and ins[2][0] == 'a' or k == 'bin' and ins[3][0] == 'a':
            return False
    return True


def series_list(data_p):
    """data_p: (D, N) array of one direction -> Coq list of N series"""
    D, N = data_p.shape
    return '[:: ' + '; '.join(qseq([lib.frac(data_p[d, i]) for d in range(D)]) for i in range(N)) + ']'


def impl_tape_shape(cg):
    """[(opcode, [arg ids])] of cg.functionList, with wrapped constants as code 1 and the input Id as code 0"""
    out = []
    for f in cg.functionList:
        name = f.func.__name__
        args = [a.ID for a in f.args if hasattr(a, 'func') and hasattr(a, 'ID')]
        if name == 'Id':
            code = 0 if f.ID == 0 else 1
            args = []
        else:
            code = NAME_CODE.get(name, 99)
        out.append((code, args))
    return out


def shape_lit(shape):
    return '[:: ' + '; '.join('(%d%%N, %s)' % (c, lib.natseq(a)) for c, a in shape) + ']'
