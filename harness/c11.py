"""C11 -- directions are propagated independently (see structural.py)."""
import structural
PID = 'C11'
def main(tier, seed):
    return structural.run(PID, 'dirs', tier, seed)
def replay(path):
    return structural.replay(PID, 'dirs', path)
