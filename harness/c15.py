"""C15 -- exact interpolation.  Theorems: Props/C15.v.  Correspondence: model (Interp.v over Qc) vs
algopy.exact_interpolation on the same (N, d) / index vectors; model-free predicate: the interpolation
identity evaluated with Fractions on the implementation's own Gamma and rays."""
import itertools, json
from fractions import Fraction
import numpy
import lib
from lib import Report, qlit, qseq, natseq, seqseq

PID = 'C15'
IMPORTS = 'QcField Sums Interp'
DEFS = """
Definition gam (N d : nat) : seq Qc := [seq odflt0 o | o <- flatten (Gamma K N d)].
Definition gam_ok (N d : nat) := all (fun o => isSome o) (flatten (Gamma K N d)).
Definition bin (x : seq Qc) (j : seq nat) : Qc := mi_binomial (x : seq K) j.
"""


def ei():
    import algopy.exact_interpolation as m
    return m


def identity_residual(Gamma, rays, J):
    """max_i,a | sum_j Gamma[i,j] ray_j^a - delta(i,a) |  with exact Fractions of the floats"""
    n = len(J)
    G = [[lib.frac(Gamma[i, j]) for j in range(n)] for i in range(n)]
    R = [[lib.frac(v) for v in rays[j]] for j in range(n)]
    worst = Fraction(0)
    where = None
    for a_idx, a in enumerate(J):
        pw = []
        for j in range(n):
            p = Fraction(1)
            for x, e in zip(R[j], a):
                p *= x ** int(e)
            pw.append(p)
        for i in range(n):
            s = sum(G[i][j] * pw[j] for j in range(n))
            r = abs(s - (1 if i == a_idx else 0))
            if r > worst:
                worst, where = r, (i, a_idx)
    return worst, where


def tol_for(N, d):
    # float64 evaluation of the alternating sum: error grows with the size of the terms ~ d^d
    return Fraction(1, 2 ** 30) * max(1, d) ** max(1, d)


def cases(tier, rng):
    nd_mi = [(N, d) for N in range(1, 7) for d in range(0, 7)] if tier == 'quick' else \
            [(N, d) for N in range(1, 9) for d in range(0, 9) if N + d <= 13]
    nd_gamma = [(N, d) for N in range(1, 5) for d in range(1, 5) if not (N == 4 and d == 4)] + [(2, 5), (5, 2), (3, 5)]
    if tier == 'thorough':
        nd_gamma = [(N, d) for N in range(1, 6) for d in range(1, 7) if (N, d) not in ((5, 5), (5, 6), (4, 6))] + [(6, 2), (6, 3), (7, 2)]
    n_incr = 300 if tier == 'quick' else 3000
    incr = []
    for _ in range(n_incr):
        n = rng.randint(1, 5)
        i = [rng.choice([0, 0, 1, 2, 3, 4]) for _ in range(n)]
        k = [rng.randint(0, x) for x in i]
        incr.append((i, k))
    n_bin = 200 if tier == 'quick' else 2000
    bins = []
    for _ in range(n_bin):
        n = rng.randint(1, 4)
        x = [Fraction(rng.randint(-12, 24), rng.choice([1, 1, 2, 3, 4])) for _ in range(n)]
        j = [rng.randint(0, 4) for _ in range(n)]
        bins.append((x, j))
    return nd_mi, nd_gamma, incr, bins


def run_cases(rep, nd_mi, nd_gamma, incr, bins):
    m = ei()
    terms, meta = [], []
    # 1. multi-index lists, exactly
    for N, d in nd_mi:
        try:
            J = m.generate_multi_indices(N, d)
            J = [[int(v) for v in row] for row in J.reshape(-1, N)]
        except Exception as e:
            rep.violation('corr:gen_mi:raises', 'generate_multi_indices(%d,%d) raises %r' % (N, d, e),
                          dict(kind='exception', call='generate_multi_indices', N=N, d=d, exc=repr(e)))
            continue
        # model-free predicate: every multi-index of degree d exactly once
        want = sorted(t for t in itertools.product(range(d + 1), repeat=N) if sum(t) == d) if (d + 1) ** N <= 300000 else None
        pred_ok = (want is None) or (sorted(map(tuple, J)) == want)
        terms.append('(gen_mi %d %d == %s)' % (N, d, seqseq(J, natseq)))
        meta.append(dict(kind='gen_mi', N=N, d=d, impl=J, pred_ok=pred_ok))
        # positions
        if d >= 1 and len(J) <= 400:
            pos = m.convert_multi_indices_to_pos(numpy.array(J))
            pos = [[int(v) for v in r] for r in pos]
            terms.append('([seq mi_to_pos i | i <- gen_mi %d %d] == %s)' % (N, d, seqseq(pos, natseq)))
            ok = all(sorted(r) == r and [r.count(n) for n in range(N)] == row for r, row in zip(pos, J))
            meta.append(dict(kind='mi_to_pos', N=N, d=d, impl=pos, pred_ok=ok))
    # 2. increment
    for i, k in incr:
        kk = m.increment(numpy.array(i), numpy.array(k))
        kk = [int(v) for v in kk]
        terms.append('(increment %s %s == %s)' % (natseq(i), natseq(k), natseq(kk)))
        # predicate: mixed-radix successor on the positions with i_n > 0
        idx = [n for n in range(len(i)) if i[n] > 0]
        val = 0
        for n in idx:
            val = val * (i[n] + 1) + k[n]
        tot = 1
        for n in idx:
            tot *= i[n] + 1
        val = (val + 1) % tot
        exp = list(k)
        for n in reversed(idx):
            exp[n] = val % (i[n] + 1)
            val //= i[n] + 1
        meta.append(dict(kind='increment', i=i, k=k, impl=kk, pred_ok=(exp == kk)))
    # 3. generalized binomials
    for x, j in bins:
        v = m.multi_index_binomial(numpy.array([float(c) for c in x]), numpy.array(j))
        xs = [lib.frac(float(c)) for c in x]     # what the implementation actually saw
        exact = Fraction(1)
        for c, jj in zip(xs, j):
            for kq in range(jj):
                exact *= (c - kq) / Fraction(jj - kq)
        terms.append('(Qc_close %s (bin %s %s) %s)' % (qlit(Fraction(1, 2 ** 36)), qseq(xs), natseq(j), qlit(lib.frac(v))))
        meta.append(dict(kind='binomial', x=[str(c) for c in x], j=j, impl=float(v),
                         pred_ok=abs(lib.frac(v) - exact) <= Fraction(1, 2 ** 36) * (1 + abs(exact))))
    # 4. Gamma and rays
    for N, d in nd_gamma:
        try:
            G, rays = m.generate_Gamma_and_rays(N, d)
        except Exception as e:
            rep.violation('corr:Gamma:raises', 'generate_Gamma_and_rays(%d,%d) raises %r' % (N, d, e),
                          dict(kind='exception', call='generate_Gamma_and_rays', N=N, d=d, exc=repr(e)))
            continue
        J = m.generate_multi_indices(N, d)
        tol = tol_for(N, d)
        res, where = identity_residual(G, rays, [[int(v) for v in r] for r in J])
        flat = [lib.frac(v) for v in G.reshape(-1)]
        terms.append('(gam_ok %d %d && Qc_allclose %s (gam %d %d) %s)' % (N, d, qlit(tol), N, d, qseq(flat)))
        meta.append(dict(kind='Gamma', N=N, d=d, impl='%dx%d matrix' % G.shape, pred_ok=(res <= tol * len(J) * d ** d),
                         residual=float(res), where=where))
        terms.append('([seq [seq ((c%%:R)%%R : Qc) | c <- i] | i <- gen_mi %d %d] == %s)' % (N, d, seqseq([[lib.frac(v) for v in r] for r in rays])))
        meta.append(dict(kind='rays', N=N, d=d, impl='rays', pred_ok=bool((rays == J).all())))
        # the seed matrix given explicitly as the identity in several representations (float, integer dtype, nested list of ints,
        # float32): Gamma does not depend on S at all and the rays are J.S = J
        for sname, S in (('float', numpy.eye(N)), ('int', numpy.eye(N, dtype=int)), ('list', numpy.eye(N, dtype=int).tolist()), ('float32', numpy.eye(N, dtype=numpy.float32))):
            rep.count('seed matrix given as', sname)
            try:
                G2, rays2 = m.generate_Gamma_and_rays(N, d, S)
                if not (numpy.array_equal(numpy.asarray(G2, dtype=float), G) and numpy.array_equal(numpy.asarray(rays2, dtype=float), numpy.asarray(J, dtype=float))):
                    rep.violation('corr:Gamma:S-%s' % sname, 'generate_Gamma_and_rays(%d,%d,S) with S the identity given as %s differs from the default call' % (N, d, sname),
                                  dict(kind='Gamma-S', N=N, d=d, S=sname, Gamma=numpy.asarray(G2, dtype=float).tolist()))
            except Exception as e:
                rep.violation('corr:Gamma:S-%s:raises' % sname, 'generate_Gamma_and_rays(%d,%d,S) with S the identity given as %s raises %r' % (N, d, sname, e),
                              dict(kind='exception', call='generate_Gamma_and_rays', N=N, d=d, S=sname, exc=repr(e)))
    # 5. the identity itself at HIGH degree (where products like d^d d! leave the int64 range), exact Fractions on the implementation's output;
    #    observed residual of the unchanged code <= 1e-7 at these (N, d)
    for N, d in [(1, 8), (1, 11), (1, 13), (1, 16), (2, 8), (2, 11), (2, 12), (14, 2)] + ([(2, 14), (3, 7)] if len(nd_gamma) > 20 else []):
        rep.count('high-degree identity (N, d)', '%d,%d' % (N, d))
        rep.case(('high-degree', N, d), True, sample=dict(check='interpolation identity at high degree', N=N, d=d))
        try:
            G, rays = m.generate_Gamma_and_rays(N, d)
            J = [[int(v) for v in r] for r in m.generate_multi_indices(N, d)]
            res, where = identity_residual(G, rays, J)
            if not (res <= Fraction(1, 10 ** 5)) or not numpy.array_equal(rays, numpy.array(J, dtype=float)):
                rep.violation('identity:high-degree', 'sum_j Gamma[i,j] ray_j^a - delta(i,a) = %.3g at (i,a) = %s for N=%d, d=%d' % (float(res), where, N, d),
                              dict(kind='high-degree', N=N, d=d, residual=float(res), where=where))
        except Exception as e:
            rep.violation('identity:high-degree:raises', 'generate_Gamma_and_rays(%d,%d) raises %r' % (N, d, e), dict(kind='exception', N=N, d=d, exc=repr(e)))
    verdicts, logs = lib.eval_bool_cases(PID, IMPORTS, DEFS, terms, per_file=60)
    return terms, meta, verdicts, logs


def main(tier, seed):
    rep = Report(PID, tier, seed)
    rep.rule = ('(N,d) grid for generate_multi_indices / convert_multi_indices_to_pos / generate_Gamma_and_rays, random (i,k) for '
                'increment, random rational x and j for multi_index_binomial; non-trivial = N>=2 and d>=2 for list/matrix cases, at least one '
                'non-zero component for vector cases; distinct by (kind, arguments)')
    rep.assumptions = ['the interpolation identity is proved for every N, d for the default seed matrix S = identity; a user-supplied S is covered by the rays = J.S predicate only',
                       'Gamma entries are compared with tolerance 2^-30*d^d (float64 evaluation of an alternating sum in the implementation)']
    rep.theorems()
    rng = lib.rng_for(seed, PID)
    nd_mi, nd_gamma, incr, bins = cases(tier, rng)
    terms, meta, verdicts, logs = run_cases(rep, nd_mi, nd_gamma, incr, bins)
    judge(rep, terms, meta, verdicts, logs)
    histories(rep, rng, tier)
    import r9
    r9.c15_rejected_calls(rep, rng, tier)
    return rep.finish()


def judge(rep, terms, meta, verdicts, logs):
    unevaluated = 0
    for t, mt, v in zip(terms, meta, verdicts):
        kind = mt['kind']
        rep.count('kind', kind)
        if 'N' in mt:
            rep.count('N', mt['N']); rep.count('d', mt['d'])
            nontriv = mt['N'] >= 2 and mt['d'] >= 2
            ident = (kind, mt['N'], mt['d'])
        else:
            nontriv = any(mt.get('i', mt.get('j', [1])))
            ident = (kind, json.dumps({k: mt[k] for k in mt if k in ('i', 'k', 'x', 'j')}))
        rep.case(ident, nontriv, sample={k: mt[k] for k in mt if k != 'pred_ok'} if kind in ('increment', 'binomial') or (kind == 'gen_mi' and mt['N'] == 3 and mt['d'] == 2) else None)
        if v is None:
            unevaluated += 1
            continue
        if v and mt['pred_ok']:
            continue
        # mismatch with the model and/or the model-free predicate fails
        payload = dict(kind=kind, case=mt, coq_term=t[:2000], model_agrees=bool(v), predicate_holds=bool(mt['pred_ok']),
                       python='import algopy.exact_interpolation as m  # see case')
        if not mt['pred_ok']:
            rep.violation('corr:%s' % kind, '%s: implementation violates the property predicate on %s' % (kind, {k: mt[k] for k in mt if k in ('N', 'd', 'i', 'k', 'x', 'j')}), payload)
        else:
            # model is proved (gen_mi) / unique answer: a disagreement with the model is a failing input too
            rep.violation('corr:%s' % kind, '%s: implementation differs from the proved model' % kind, payload)
    if unevaluated or logs:
        rep.violation('corr:uneval', 'correspondence corr.C15 could not be evaluated for %d cases' % unevaluated,
                      dict(kind='correspondence', name='corr.C15', log=logs[:3]), no_input=True)
    rep.corr = dict(cases=len(terms), unevaluated=unevaluated)


def replay(path):
    pl = json.load(open(path))
    rep = Report(PID, 'quick', pl.get('seed', 0))
    c = pl.get('case', {})
    kind = pl.get('kind')
    nd_mi, nd_gamma, incr, bins = [], [], [], []
    if kind in ('gen_mi', 'mi_to_pos'):
        nd_mi = [(c['N'], c['d'])]
    elif kind in ('Gamma', 'rays'):
        nd_gamma = [(c['N'], c['d'])]
    elif kind == 'increment':
        incr = [(c['i'], c['k'])]
    elif kind == 'binomial':
        bins = [([Fraction(s) for s in c['x']], c['j'])]
    else:
        rep.theorems()
        return rep.finish()
    terms, meta, verdicts, logs = run_cases(rep, nd_mi, nd_gamma, incr, bins)
    judge(rep, terms, meta, verdicts, logs)
    return rep.finish()


def histories(rep, rng, tier):
    """the generators are functions of their arguments: call sequences mixing seeded (S given) and default calls, repeated calls,
    callers that modify what they were handed, and the tensor drivers that call the generator internally; every result is compared
    with rays = J.S, with the Gamma of the first default call, and with the known tensor of a monomial"""
    import algopy.exact_interpolation as m
    import algopy
    n = 12 if tier == 'quick' else 120
    first = {}
    for _ in range(n):
        N = rng.randint(1, 3); d = rng.randint(1, 4)
        J = numpy.array(m.generate_multi_indices(N, d), dtype=float)
        seq = [rng.choice(['default', 'seeded', 'default', 'mutate', 'tensor']) for _ in range(rng.randint(2, 5))]
        for step, what in enumerate(seq):
            rep.count('history:call', what)
            rep.case(('history', N, d, tuple(seq[:step + 1]), rng.random()), step >= 1, sample=dict(check='call history', N=N, d=d, calls=seq[:step + 1]))
            payload = dict(kind='history', N=N, d=d, calls=seq[:step + 1])
            try:
                if what == 'tensor':
                    x = numpy.array([rng.randint(-2, 2) for _ in range(N)], dtype=float)
                    alpha = [int(v) for v in J[rng.randrange(len(J))]]

                    def f(z):
                        acc = None
                        for i in range(N):
                            if alpha[i]:
                                t = z[i] ** alpha[i]
                                acc = t if acc is None else acc * t
                        return acc
                    got = numpy.asarray(algopy.UTPM.extract_tensor(N, f(algopy.UTPM.init_tensor(d, x)), as_full_matrix=False)).reshape(-1)
                    exp = numpy.array([1.0 if [int(v) for v in j] == alpha else 0.0 for j in J])
                    if got.shape != exp.shape or not numpy.allclose(got, exp, atol=1e-8 * d ** d):
                        rep.violation('history:tensor', 'extract_tensor of the monomial x^%s after calls %s: %s instead of the unit vector' % (alpha, seq[:step], got.tolist()), payload)
                        break
                    continue
                if what == 'seeded':
                    M_ = rng.randint(1, 3)
                    S = numpy.array([[rng.randint(-2, 2) for _ in range(M_)] for _ in range(N)], dtype=float)
                    if rng.random() < 0.5:
                        S = S.astype(int)            # integer-valued seed matrices are given with an integer dtype just as well
                        rep.count('history:seeded dtype', 'int')
                    G, rays = m.generate_Gamma_and_rays(N, d, S)
                    want = J @ S
                    if (N, d) in first and not numpy.array_equal(numpy.asarray(G, dtype=float), first[(N, d)]):
                        rep.violation('history:Gamma:seeded', 'generate_Gamma_and_rays(%d,%d,S): Gamma differs from the Gamma of the default call (it does not depend on S)' % (N, d),
                                      dict(payload, S=S.tolist(), S_dtype=str(S.dtype)))
                        break
                else:
                    G, rays = m.generate_Gamma_and_rays(N, d)
                    want = J
                if rays.shape != want.shape or not numpy.array_equal(rays, want):
                    rep.violation('history:rays', 'generate_Gamma_and_rays(%d,%d%s) after calls %s returns rays != J.S' % (N, d, ', S' if what == 'seeded' else '', seq[:step]),
                                  dict(payload, rays=numpy.asarray(rays).tolist(), want=want.tolist()))
                    break
                if what != 'seeded':
                    key = (N, d)
                    if key in first and not numpy.array_equal(G, first[key]):
                        rep.violation('history:Gamma', 'generate_Gamma_and_rays(%d,%d) returns a different Gamma than its first call, after calls %s' % (N, d, seq[:step]), payload)
                        break
                    first.setdefault(key, numpy.array(G, copy=True))
                if what == 'mutate':
                    G[...] = 7.0; rays[...] = -1.0        # a caller scribbling on its own result must not affect later calls
            except Exception as e:
                rep.violation('history:exception', 'call %s after %s raises %r' % (what, seq[:step], e), dict(payload, exc=repr(e)))
                break
