"""Runs under python3-vt (mpmath available): n-th derivatives of the functions of algopy.nthderiv at 40 digits.
stdin: JSON list of [fname, params, x, n]; stdout: JSON list of strings (decimal) or null."""
import sys, json
import mpmath as mp
mp.mp.dps = 50

F = {
 'exp': mp.exp, 'exp2': lambda x: mp.mpf(2) ** x, 'expm1': mp.expm1, 'log': mp.log, 'log2': lambda x: mp.log(x, 2), 'log10': mp.log10,
 'log1p': mp.log1p, 'sqrt': mp.sqrt, 'square': lambda x: x * x, 'negative': lambda x: -x, 'reciprocal': lambda x: 1 / x,
 'sin': mp.sin, 'cos': mp.cos, 'arcsin': mp.asin, 'arccos': mp.acos, 'arctan': mp.atan, 'sinh': mp.sinh, 'cosh': mp.cosh,
 'arcsinh': mp.asinh, 'arccosh': mp.acosh, 'arctanh': mp.atanh, 'erf': mp.erf, 'erfi': mp.erfi, 'gammaln': mp.loggamma, 'psi': lambda x: mp.psi(0, x),
}


def f_of(name, prm):
    if name == 'polygamma':
        return lambda x: mp.psi(int(prm[0]), x)
    if name == 'hyperu':
        return lambda x: mp.hyperu(mp.mpf(prm[0]), mp.mpf(prm[1]), x)
    return F[name]


out = []
for name, prm, x, n in json.load(sys.stdin):
    try:
        f = f_of(name, prm)
        xv = mp.mpf(x[0]) / mp.mpf(x[1])
        v = f(xv) if n == 0 else mp.diff(f, xv, n)
        out.append(mp.nstr(mp.re(v), 30))
    except Exception as e:
        out.append(None)
json.dump(out, sys.stdout)
