"""C17 -- conversions between representations are lossless and mutually inverse.
Theorems: Props/C17.v (Conv.v: pivots <-> permutation matrix <-> sign, symvec/vecsym, shift, axis permutations).
Correspondence: the implementation's helpers against the Coq model (exact) and against the round-trip predicates
evaluated bit-wise on the implementation; pivots: every pivot vector with piv[i] in [i, N) for N <= 4 (5 in the thorough
tier) is produced by scipy.linalg.lu_factor on a matrix built for it, and P L U = A / det A = sign * prod(diag U) are checked."""
import itertools, json
from fractions import Fraction
import numpy, scipy.linalg
import lib
from lib import Report, qlit, qseq, natseq, seqseq

PID = 'C17'
IMPORTS = 'QcField Sums Series Array Conv'
DEFS = """
Definition p2m (piv : seq nat) (m : seq (seq Qc)) : bool := (piv2mat K piv : seq (seq Qc)) == m.
Definition p2d (piv : seq nat) (s : Qc) : bool := (piv2det K piv : Qc) == s.
Definition u2d (s shp offs : seq nat) : bool := utpm2dirs_gather s == (shp, offs).
Definition d2u (s shp offs : seq nat) : bool := dirs2utpm_gather s == (shp, offs).
Definition sv (u : uplo) (N : nat) (A : seq (seq Qc)) (v : seq Qc) : bool := (symvec u N (A : seq (seq K)) : seq Qc) == v.
Definition vs (N : nat) (v : seq Qc) (A : seq (seq Qc)) : bool := (vecsym N (v : seq K) : seq (seq Qc)) == A.
Definition sh (s : nat) (neg : bool) (x y : seq Qc) : bool := (shiftS s neg (x : seq K) : seq Qc) == y.
"""
F = Fraction


def dy(rng):
    return float(F(rng.randint(-24, 24), 8))


def matlit(A):
    return seqseq([[lib.frac(v) for v in row] for row in A])


def main(tier, seed):
    algopy = lib.import_algopy()
    import algopy.utils as U
    UTPM = algopy.UTPM
    rep = Report(PID, tier, seed)
    rep.rule = ('utpm2dirs / utpm2base_and_dirs / base_and_dirs2utpm on random (D,P,shape); symvec(F|L|U) / vecsym for N<=6 on ndarray and UTPM; '
                'as_utpm on nested containers; shift by +-s; piv2mat / piv2det on EVERY pivot vector with piv[i] in [i,N) for N<=4 (quick) / 5 '
                '(thorough), each realised by scipy.linalg.lu_factor on a constructed matrix; non-trivial = non-identity permutation, N>=2, rank>=1; '
                'distinct by (helper, arguments)')
    rep.assumptions = ['LAPACK getrf contract (scipy.linalg.lu_factor) is trusted and checked per case: P L U = A',
                       'P L U = A and det A = sign*prod(diag U) are checked in float64 with tolerance 1e-10 on well-conditioned constructed matrices']
    rep.theorems()
    rng = lib.rng_for(seed, PID)
    terms, metas = [], []

    def add(term, meta, nontriv=True):
        terms.append(term); meta['nontrivial'] = nontriv; metas.append(meta)

    # ------------------------------------------------ pivots: all pivot vectors
    Nmax = 4 if tier == 'quick' else 5
    for N in range(1, Nmax + 1):
        for piv in itertools.product(*[range(i, N) for i in range(N)]):
            piv = list(piv)
            rep.count('pivots:N', N)
            try:
                Pm = U.piv2mat(numpy.array(piv))
                sgn = U.piv2det(numpy.array(piv))
            except Exception as e:
                rep.violation('piv:exception', 'piv2mat/piv2det(%r) raises %r' % (piv, e), dict(kind='piv', piv=piv, exc=repr(e)))
                continue
            nontriv = any(p != i for i, p in enumerate(piv))
            add('(p2m %s %s)' % (natseq(piv), matlit(Pm)), dict(kind='piv2mat', piv=piv), nontriv)
            add('(p2d %s %s)' % (natseq(piv), qlit(lib.frac(sgn))), dict(kind='piv2det', piv=piv, impl=float(sgn)), nontriv)
            # build A whose partial pivoting performs exactly these interchanges: A = P L U, |L_ij| < 1, U diagonal dominant
            L = numpy.eye(N) + numpy.tril(numpy.array([[rng.randint(-3, 3) / 8 for _ in range(N)] for _ in range(N)]), -1)
            Um = numpy.triu(numpy.array([[rng.randint(-8, 8) / 4 for _ in range(N)] for _ in range(N)]), 1) + numpy.diag([rng.choice([-3, -2, 2, 3, 4]) for _ in range(N)])
            A = Pm @ L @ Um
            lu, piv2 = scipy.linalg.lu_factor(A)
            if list(piv2) != piv:
                # a tie in the pivot search can legitimately select another row: then use what LAPACK returned for the identities below
                rep.count('pivots:lapack-chose-other', 1)
            P2 = U.piv2mat(piv2); s2 = U.piv2det(piv2)
            L2 = numpy.tril(lu, -1) + numpy.eye(N); U2 = numpy.triu(lu)
            if not numpy.allclose(P2 @ L2 @ U2, A, atol=1e-10):
                rep.violation('piv:PLU', 'piv2mat(piv) L U != A for the pivot vector %r returned by lu_factor' % (list(piv2),),
                              dict(kind='piv', piv=[int(v) for v in piv2], A=A.tolist()))
            detA = numpy.linalg.det(A)
            if abs(detA - s2 * numpy.prod(numpy.diag(U2))) > 1e-9 * (1 + abs(detA)):
                rep.violation('piv:det', 'det(A) != piv2det(piv) * prod(diag(U)) for pivot vector %r' % (list(piv2),),
                              dict(kind='piv', piv=[int(v) for v in piv2], A=A.tolist(), det=float(detA)))
            # model-free predicate for the sign
            if abs(numpy.linalg.det(Pm) - sgn) > 1e-9:
                rep.violation('piv:sign', 'piv2det(%r) = %r but det(piv2mat) = %r' % (piv, sgn, numpy.linalg.det(Pm)), dict(kind='piv', piv=piv))

    # ------------------------------------------------ pivots of a UTPM: one pivot vector PER DIRECTION (lu2 factors each base point on its own)
    for _ in range(40 if tier == 'quick' else 600):
        N = rng.randint(2, 4); P = rng.randint(2, 3); D = rng.randint(1, 3)
        pivs = [[rng.randint(i, N - 1) for i in range(N)] for _ in range(P)]
        pd_ = numpy.zeros((D, P, N), dtype=int); pd_[0] = pivs
        rep.count('pivots:UTPM:P', P)
        rep.case(('piv-utpm', N, P, D, repr(pivs)), len(set(map(tuple, pivs))) > 1, sample=dict(check='UTPM.piv2mat / piv2det per direction', pivots=pivs))
        try:
            W = numpy.asarray(UTPM.piv2mat(UTPM(pd_.copy())).data); sg = numpy.asarray(UTPM.piv2det(UTPM(pd_.copy())).data)
            # lu2 on base points that need these interchanges, det through the pivots
            A = numpy.zeros((D, P, N, N))
            for p in range(P):
                L = numpy.tril(numpy.array([[rng.randint(-3, 3) / 4 for _ in range(N)] for _ in range(N)]), -1) + numpy.eye(N)
                Um = numpy.triu(numpy.array([[rng.randint(-2, 2) / 2 for _ in range(N)] for _ in range(N)]), 1) + numpy.diag([rng.choice([2., 3., -2.]) for _ in range(N)])
                A[0, p] = U.piv2mat(numpy.array(pivs[p])) @ L @ Um
            PIV, Lu, Uu = UTPM.lu2(UTPM(A.copy()))
            W2 = numpy.asarray(UTPM.piv2mat(PIV).data)
        except Exception as e:
            rep.violation('piv:utpm:exception', 'UTPM.piv2mat / piv2det / lu2 raises %r' % (e,), dict(kind='piv-utpm', pivots=pivs, exc=repr(e))); continue
        for p in range(P):
            if not (numpy.array_equal(W[0, p], U.piv2mat(numpy.array(pivs[p]))) and not W[1:].any()):
                rep.violation('piv:utpm:piv2mat', 'UTPM.piv2mat: direction %d is not the permutation matrix of ITS pivot vector %r' % (p, pivs[p]), dict(kind='piv-utpm', pivots=pivs)); break
            if not (sg[0, p] == U.piv2det(numpy.array(pivs[p])) and not sg[1:].any()):
                rep.violation('piv:utpm:piv2det', 'UTPM.piv2det: direction %d is not the sign of ITS pivot vector %r' % (p, pivs[p]), dict(kind='piv-utpm', pivots=pivs)); break
            if not numpy.allclose(W2[0, p] @ numpy.asarray(Lu.data)[0, p] @ numpy.asarray(Uu.data)[0, p], A[0, p], atol=1e-12):
                rep.violation('piv:utpm:PLU', 'UTPM.piv2mat(PIV) L U != A in direction %d for the PIV lu2 returned' % p, dict(kind='piv-utpm', pivots=pivs, A=A.tolist())); break

    # ------------------------------------------------ base point + directions <-> polynomial
    n = 60 if tier == 'quick' else 800
    for _ in range(n):
        D = rng.randint(1, 4); P = rng.randint(1, 3)
        shp = rng.choice([(), (2,), (3,), (2, 3), (3, 1), (2, 2, 2), (1, 3, 2)])
        data = numpy.arange(D * P * int(numpy.prod(shp, dtype=int)), dtype=float).reshape((D, P) + shp)
        u = UTPM(data.copy())
        rep.count('conv:shape', shp)
        try:
            V = U.utpm2dirs(u)
            exp = data.transpose(tuple(range(2, data.ndim)) + (1, 0))
            if V.shape != exp.shape or not numpy.array_equal(V, exp):
                rep.violation('conv:utpm2dirs', 'utpm2dirs: wrong layout for data shape %s' % (data.shape,), dict(kind='conv', shape=list(data.shape)))
            add('(u2d %s %s %s)' % (natseq(data.shape), natseq(V.shape), natseq([int(v) for v in V.reshape(-1)])),
                dict(kind='utpm2dirs', shape=list(data.shape)), len(shp) >= 1)
            if D >= 2:
                x, V2 = U.utpm2base_and_dirs(u)
                back = U.base_and_dirs2utpm(x, V2)
                # base_and_dirs2utpm replicates the base point in every direction: exact inverse when all directions share the base point
                d2 = data.copy(); d2[0, :] = d2[0, 0]
                if back.data.shape != data.shape or not numpy.array_equal(back.data, d2):
                    rep.violation('conv:roundtrip', 'base_and_dirs2utpm(utpm2base_and_dirs(u)) != u for data shape %s' % (data.shape,),
                                  dict(kind='conv', shape=list(data.shape)))
                x3, V3 = U.utpm2base_and_dirs(back)
                if not (numpy.array_equal(x3, x) and numpy.array_equal(V3, V2)):
                    rep.violation('conv:roundtrip2', 'utpm2base_and_dirs(base_and_dirs2utpm(x,V)) != (x,V) for shape %s' % (data.shape,),
                                  dict(kind='conv', shape=list(data.shape)))
                # user-supplied base points of another kind (Python list, integer / float32 array) with non-integer directions: nothing
                # may be lost (the polynomial must hold V exactly)
                Vf = V2 + 0.375
                for kind, xk in (('list', numpy.asarray(x).astype(int).tolist()), ('int array', numpy.asarray(x).astype(int)),
                                 ('float32 array', numpy.asarray(x).astype(numpy.float32)), ('float array', numpy.asarray(x, dtype=float))):
                    rep.count('conv:base kind', kind)
                    uk = U.base_and_dirs2utpm(xk, Vf)
                    xk2, Vk2 = U.utpm2base_and_dirs(uk)
                    if not (numpy.array_equal(Vk2, Vf) and numpy.array_equal(numpy.asarray(xk2, dtype=float), numpy.asarray(xk, dtype=float))):
                        rep.violation('conv:roundtrip2:dtype', 'utpm2base_and_dirs(base_and_dirs2utpm(x,V)) != (x,V) for a %s base point and float directions (shape %s)' % (kind, data.shape),
                                      dict(kind='conv', shape=list(data.shape), base_kind=kind))
                        break
                # the Coq gather of the inverse direction, on the shape of V2 (= shp + (P, D-1))
                offs = numpy.arange(V2.size).reshape(V2.shape)
                tc = offs.transpose((V2.ndim - 1, V2.ndim - 2) + tuple(range(V2.ndim - 2)))
                add('(d2u %s %s %s)' % (natseq(V2.shape), natseq(tc.shape), natseq([int(v) for v in tc.reshape(-1)])),
                    dict(kind='dirs2utpm', shape=list(V2.shape)), len(shp) >= 1)
        except Exception as e:
            rep.violation('conv:exception', 'base/direction conversion raises %r for data shape %s' % (e, data.shape), dict(kind='conv', shape=list(data.shape), exc=repr(e)))

    # ------------------------------------------------ round trips with an in-place update of the source in between: whether a conversion
    # hands out a view or a copy must not depend on the shape (learned from a generic configuration, then every edge configuration -
    # first order, one direction, scalars, size-1 arrays - must behave the same and the round trip must hold for the state converted)
    def alias_pattern(D, P, shp):
        data = (numpy.arange(D * P * int(numpy.prod(shp, dtype=int)), dtype=float) + 1).reshape((D, P) + shp)
        u = UTPM(data.copy())
        x, V = U.utpm2base_and_dirs(u)
        Vd = U.utpm2dirs(u)
        pat = (bool(numpy.shares_memory(x, u.data)), bool(numpy.shares_memory(V, u.data)), bool(numpy.shares_memory(Vd, u.data)))
        xs, Vs = numpy.array(x, copy=True), numpy.array(V, copy=True)
        u *= 3.0                                         # the source moves on
        changed = (not numpy.array_equal(x, xs), not numpy.array_equal(V, Vs))
        back = U.base_and_dirs2utpm(xs, Vs)
        d2 = data.copy(); d2[0, :] = d2[0, 0]
        return pat, changed, bool(numpy.array_equal(back.data, d2))
    try:
        ref_pat, ref_changed, ref_ok = alias_pattern(3, 2, (2, 3))
        for D, P, shp in [(2, 1, (3,)), (2, 1, ()), (3, 1, ()), (2, 2, ()), (2, 1, (1,)), (3, 1, (1,)), (2, 3, (1,)), (2, 1, (1, 1)), (4, 1, (2,)), (2, 2, (2, 2))]:
            rep.count('conv:aliasing configuration', '%d,%d,%s' % (D, P, shp))
            rep.case(('conv-alias', D, P, shp), True, sample=dict(check='conversion then in-place update of the source', D=D, P=P, shape=list(shp)))
            pat, changed, ok = alias_pattern(D, P, shp)
            if pat != ref_pat or changed != ref_changed or not ok:
                rep.violation('conv:aliasing', 'utpm2base_and_dirs / utpm2dirs for data shape %s: results share memory with the argument %s (generic shapes: %s); '
                              'after u *= 3 the converted values changed: %s (generic: %s)' % ((D, P) + shp, pat, ref_pat, changed, ref_changed),
                              dict(kind='conv-alias', D=D, P=P, shape=list(shp)))
    except Exception as e:
        rep.violation('conv:aliasing:exception', 'conversion raises %r' % (e,), dict(kind='conv-alias', exc=repr(e)))

    # ------------------------------------------------ symvec / vecsym
    for N in range(1, 5 if tier == 'quick' else 7):
        for rep_i in range(2 if tier == 'quick' else 6):
            A = numpy.array([[dy(rng) for _ in range(N)] for _ in range(N)])
            S = A + A.T
            for uplo, tag in (('F', 'UF'), ('L', 'UL'), ('U', 'UU')):
                rep.count('symvec:uplo', uplo)
                try:
                    v = U.symvec(A, uplo)
                    add('(sv %s %d%%N %s %s)' % (tag, N, matlit(A), qseq([lib.frac(c) for c in v])), dict(kind='symvec', N=N, uplo=uplo), N >= 2)
                    B = U.vecsym(v)
                    add('(vs %d%%N %s %s)' % (N, qseq([lib.frac(c) for c in v]), matlit(B)), dict(kind='vecsym', N=N), N >= 2)
                    # round trips (bit-wise)
                    vS = U.symvec(S, uplo)
                    if not numpy.array_equal(U.vecsym(vS), S):
                        rep.violation('symvec:roundtrip', "vecsym(symvec(S,'%s')) != S for symmetric S, N=%d" % (uplo, N), dict(kind='symvec', N=N, uplo=uplo, A=S.tolist()))
                    if not numpy.array_equal(U.symvec(U.vecsym(vS), uplo), vS):
                        rep.violation('symvec:roundtrip2', "symvec(vecsym(v),'%s') != v, N=%d" % (uplo, N), dict(kind='symvec', N=N, uplo=uplo, A=S.tolist()))
                    if uplo == 'F' and not numpy.array_equal(U.vecsym(v), 0.5 * (A + A.T)):
                        rep.violation('symvec:symmetrize', "vecsym(symvec(A,'F')) != (A+A^T)/2, N=%d" % N, dict(kind='symvec', N=N, A=A.tolist()))
                    # UTPM versions act slice-wise
                    D, P = 2, 2
                    Ad = numpy.array([[[[dy(rng) for _ in range(N)] for _ in range(N)] for _ in range(P)] for _ in range(D)])
                    Ad = Ad + Ad.transpose((0, 1, 3, 2))
                    vu = algopy.symvec(UTPM(Ad.copy()), uplo)
                    back = algopy.vecsym(vu)
                    if not numpy.array_equal(back.data, Ad):
                        rep.violation('symvec:utpm', "UTPM vecsym(symvec(A,'%s')) != A for symmetric A, N=%d" % (uplo, N), dict(kind='symvec', N=N, uplo=uplo))
                    # complex coefficients: nothing is lost either (plain arrays and polynomials)
                    Ac = Ad + 1j * Ad[::-1]
                    backc = algopy.vecsym(algopy.symvec(UTPM(Ac.copy()), uplo))
                    if backc.data.shape != Ac.shape or not numpy.array_equal(backc.data, Ac):
                        rep.violation('symvec:utpm:complex', "UTPM vecsym(symvec(A,'%s')) != A for a complex symmetric A, N=%d (dtype %s)" % (uplo, N, backc.data.dtype),
                                      dict(kind='symvec', N=N, uplo=uplo))
                    if not numpy.array_equal(U.vecsym(U.symvec(Ac[0, 0], uplo)), Ac[0, 0]):
                        rep.violation('symvec:complex', "vecsym(symvec(A,'%s')) != A for a complex symmetric array, N=%d" % (uplo, N), dict(kind='symvec', N=N, uplo=uplo))
                    # every call form on a NON-symmetric polynomial, slice-wise against the (model-checked) array helper: module-level function
                    # and class method, storage convention given positionally and by keyword, on a UTPM and on a traced Function (recorded
                    # value, and the graph replayed at another point)
                    An = numpy.array([[[[dy(rng) for _ in range(N)] for _ in range(N)] for _ in range(P)] for _ in range(D)])
                    Bn = numpy.array([[[[dy(rng) for _ in range(N)] for _ in range(N)] for _ in range(P)] for _ in range(D)])
                    want = lambda X: numpy.array([[U.symvec(X[d_, p_], uplo) for p_ in range(P)] for d_ in range(D)])
                    forms = {'algopy.symvec(UTPM, uplo)': lambda: algopy.symvec(UTPM(An.copy()), uplo).data,
                             'algopy.symvec(UTPM, UPLO=uplo)': lambda: algopy.symvec(UTPM(An.copy()), UPLO=uplo).data,
                             'UTPM.symvec(UTPM, uplo)': lambda: UTPM.symvec(UTPM(An.copy()), uplo).data}
                    cg = algopy.CGraph(); fA = algopy.Function(UTPM(An.copy())); fv = algopy.symvec(fA, uplo); cg.trace_off()
                    cg.independentFunctionList = [fA]; cg.dependentFunctionList = [fv]
                    forms['algopy.symvec(Function, uplo): recorded value'] = lambda: fv.x.data
                    cg2 = algopy.CGraph(); fA2 = algopy.Function(UTPM(An.copy())); fv2 = algopy.symvec(fA2, UPLO=uplo); cg2.trace_off()
                    forms['algopy.symvec(Function, UPLO=uplo): recorded value'] = lambda: fv2.x.data
                    for fname, fn in forms.items():
                        rep.count('symvec:call form', fname.split(':')[0])
                        if not numpy.array_equal(numpy.asarray(fn()), want(An)):
                            rep.violation('symvec:form:%s' % fname, "%s with uplo='%s' is not the slice-wise symvec of a non-symmetric matrix, N=%d" % (fname, uplo, N),
                                          dict(kind='symvec', N=N, uplo=uplo, A=An.tolist()))
                    cg.pushforward([UTPM(Bn.copy())])
                    if not numpy.array_equal(numpy.asarray(cg.dependentFunctionList[0].x.data), want(Bn)):
                        rep.violation('symvec:form:replay', "graph of algopy.symvec(Function, '%s') replayed at another point is not the slice-wise symvec, N=%d" % (uplo, N),
                                      dict(kind='symvec', N=N, uplo=uplo, A=Bn.tolist()))
                except Exception as e:
                    rep.violation('symvec:exception', 'symvec/vecsym raises %r (N=%d, UPLO=%s)' % (e, N, uplo), dict(kind='symvec', N=N, uplo=uplo, exc=repr(e)))

    # ------------------------------------------------ shift
    for _ in range(40 if tier == 'quick' else 500):
        D = rng.randint(2, 6); s = rng.randint(1, D - 1)
        x = numpy.array([dy(rng) for _ in range(D)]).reshape((D, 1))
        try:
            up = UTPM(x.copy()).shift(s).data[:, 0]
            dn = UTPM(x.copy()).shift(-s).data[:, 0]
            add('(sh %d%%N false %s %s)' % (s, qseq([lib.frac(c) for c in x[:, 0]]), qseq([lib.frac(c) for c in up])), dict(kind='shift', s=s, D=D))
            add('(sh %d%%N true %s %s)' % (s, qseq([lib.frac(c) for c in x[:, 0]]), qseq([lib.frac(c) for c in dn])), dict(kind='shift', s=-s, D=D))
            # call forms: fresh result, out= a separate buffer, out= the operand itself (in place), several directions and shapes
            P_ = rng.randint(1, 2); shp_ = rng.choice([(), (2,)])
            xx = numpy.array([dy(rng) for _ in range(D * P_ * int(numpy.prod(shp_, dtype=int)))]).reshape((D, P_) + shp_)
            for sh_ in (s, -s):
                plain = numpy.array(UTPM(xx.copy()).shift(sh_).data, copy=True)
                buf = UTPM(numpy.zeros_like(xx)); UTPM(xx.copy()).shift(sh_, out=buf)            # out= is documented by use only: a zeroed buffer
                inpl = UTPM(xx.copy()); inpl.shift(sh_, out=inpl)
                keep = slice(sh_, None) if sh_ > 0 else slice(None, D + sh_)                    # the retained coefficients (the others are unspecified in place)
                rep.count('shift:call form', 'out=buffer / out=self')
                if not numpy.array_equal(buf.data, plain) or not numpy.array_equal(inpl.data[keep], plain[keep]):
                    rep.violation('shift:callform', 'shift(%d, out=...) differs from shift(%d): %s' % (sh_, sh_, 'separate buffer' if not numpy.array_equal(buf.data, plain) else 'out = the operand itself'),
                                  dict(kind='shift', s=sh_, x=xx.tolist()))
                    break
            back = UTPM(x.copy()).shift(s).shift(-s).data[:, 0]
            if not numpy.array_equal(back[:D - s], x[:D - s, 0]):
                rep.violation('shift:roundtrip', 'shift(%d) then shift(%d) changes the retained coefficients (D=%d)' % (s, -s, D), dict(kind='shift', s=s, x=x[:, 0].tolist()))
        except Exception as e:
            rep.violation('shift:exception', 'shift(+-%d) raises %r (D=%d)' % (s, e, D), dict(kind='shift', s=s, D=D, exc=repr(e)))

    # ------------------------------------------------ as_utpm: nested containers <-> one polynomial indexed element-wise
    for _ in range(30 if tier == 'quick' else 300):
        D = rng.randint(1, 3); P = rng.randint(1, 2)
        outer = rng.choice([(2,), (3,), (2, 2), (2, 3)])
        inner = rng.choice([(), (2,)])
        elems = numpy.empty(outer, dtype=object)
        for idx in numpy.ndindex(*outer):
            elems[idx] = UTPM(numpy.array([dy(rng) for _ in range(D * P * int(numpy.prod(inner, dtype=int)))]).reshape((D, P) + inner))
        # every way of handing the container over: object array (C order, Fortran order, transposed view), nested lists; both helpers
        routes = [('as_utpm', UTPM.as_utpm, elems), ('as_utpm', UTPM.as_utpm, elems.tolist()), ('as_utpm', UTPM.as_utpm, numpy.asfortranarray(elems)),
                  ('ndarray2utpm', algopy.utils.ndarray2utpm, elems), ('ndarray2utpm', algopy.utils.ndarray2utpm, elems.tolist()),
                  ('ndarray2utpm', algopy.utils.ndarray2utpm, numpy.asfortranarray(elems))]
        if len(outer) == 2:
            routes.append(('as_utpm', UTPM.as_utpm, numpy.ascontiguousarray(elems.T).T))
            routes.append(('ndarray2utpm', algopy.utils.ndarray2utpm, numpy.ascontiguousarray(elems.T).T))
        for ri, (name, f, arg) in enumerate(routes):
            form = 'list' if isinstance(arg, list) else ('C' if arg.flags['C_CONTIGUOUS'] else 'strided')
            rep.count(name + ':outer', outer); rep.count(name + ':container', form)
            rep.case((name, ri, outer, inner, D, P, repr([e.data.tolist() for e in elems.reshape(-1)])), True, sample=dict(kind=name, container=form, outer=list(outer), inner=list(inner), D=D, P=P))
            try:
                y = f(arg)
                ok = y.data.shape == (D, P) + outer + inner
                for idx in numpy.ndindex(*outer):
                    ok = ok and numpy.array_equal(y[idx].data, elems[idx].data)
                if not ok:
                    rep.violation('%s:index' % name, '%s(xs)[i] != xs[i] for a %s container of outer shape %s, element shape %s' % (name, form, outer, inner),
                                  dict(kind=name, container=form, outer=list(outer), inner=list(inner)))
            except Exception as e:
                rep.violation('%s:exception' % name, '%s raises %r for a %s container of outer shape %s, element shape %s' % (name, e, form, outer, inner),
                              dict(kind=name, container=form, outer=list(outer), inner=list(inner), exc=repr(e)))

    verdicts, logs = lib.eval_bool_cases(PID, IMPORTS, DEFS, terms, per_file=200)
    bad = 0
    for m, v, t in zip(metas, verdicts, terms):
        rep.count('coq:kind', m['kind'])
        rep.case((m['kind'], json.dumps(m, sort_keys=True)), m['nontrivial'], sample=m)
        if v is None:
            bad += 1
        elif not v:
            rep.violation('model:' + m['kind'], '%s: implementation differs from the proved model Conv.v on %s' % (m['kind'], {k: m[k] for k in m if k not in ('kind', 'nontrivial')}),
                          dict(kind='model', case=m, coq_term=t[:2000]))
    if bad or logs:
        rep.violation('corr:uneval', 'correspondence corr.C17 could not be evaluated for %d cases' % bad,
                      dict(kind='correspondence', name='corr.C17', log=logs[:3]), no_input=True)
    import r9
    r9.c17_lu_factor_layouts(rep, algopy, rng, tier)
    import r10
    r10.c17_returned_matrices_are_fresh(rep, algopy, rng, tier)
    import r12
    r12.c17_special_values(rep, algopy, rng, tier)
    return rep.finish()


def replay(path):
    pl = json.load(open(path))
    return main(pl.get('tier', 'quick'), pl.get('seed', 0))
