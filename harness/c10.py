"""C10 -- zeroth coefficient, shapes and comparisons follow NumPy.
Theorems: Props/C10.v (zeroth coefficient of every model kernel = base operation; result shapes = broadcast shapes).
NumPy itself is the oracle for the base operations: enumeration of every public function/operator against the NumPy/SciPy call
on the zeroth coefficients, direction by direction; shape/len/size/ndim; truth value of comparisons; plain-array dispatch."""
import json
import numpy, scipy, scipy.special, scipy.linalg
import lib, ops, elem
from lib import Report

PID = 'C10'


def np_ref(fn, prm):
    n = fn.name
    sp = scipy.special
    if fn.call == 'pow':
        r = prm['n'] if 'n' in prm else prm['r']
        return lambda a: a ** r
    table = dict(erf=sp.erf, erfi=sp.erfi, dawsn=sp.dawsn, logit=sp.logit, expit=sp.expit, gammaln=sp.gammaln, psi=sp.psi)
    if n in table:
        return table[n]
    if n == 'polygamma':
        return lambda a: sp.polygamma(prm['m'], a)
    if n == 'hyperu':
        return lambda a: sp.hyperu(prm['a'], prm['b'], a)
    if n == 'botched_clip':
        return lambda a: numpy.clip(a, prm['lo'], prm['hi'])
    return getattr(numpy, n)


def same(a, b, exact=True):
    a = numpy.asarray(a); b = numpy.asarray(b)
    if a.shape != b.shape:
        return False
    if exact:
        return bool(numpy.array_equal(a, b, equal_nan=True))
    return bool(numpy.allclose(a, b, rtol=1e-13, atol=1e-300, equal_nan=True))


def check_zeroth(rep, algopy, rng, tier):
    per_op = 9 if tier == "quick" else 60
    for nm, op in sorted(ops.ops_for(PID).items()):
        for _ in range(per_op):
            case = op.gen(rng, Dmax=4, Pmax=3)
            inputs = [numpy.array(x, dtype=float) for x in case['inputs']]
            D, P = inputs[0].shape[:2]
            rep.count('zeroth:op', nm)
            rep.case(('zeroth', nm, json.dumps(case, sort_keys=True, default=str)), P >= 2 or D >= 2,
                     sample=dict(check='zeroth', op=nm, D=D, P=P, shapes=[list(x.shape[2:]) for x in inputs]))
            ops.LAYOUT = rng.choice(['C', 'C', 'C', 'F', 'T'])
            try:
                outs = op.run(algopy, case, inputs)
            except Exception as e:
                # does NumPy accept the zeroth coefficients?  then the overload must accept the polynomial as well
                accepted = False
                if not nm.startswith(('elem:', 'arith:')) and hasattr(op, 'ref0') and op.ref0 is not None:
                    try:
                        op.ref0(case, [x[0, 0] for x in inputs]); accepted = True
                    except Exception:
                        accepted = False
                if accepted:
                    rep.violation('zeroth:%s:exception' % nm, '%s raises %r on arguments NumPy accepts' % (nm, e), dict(kind='zeroth', case=case, exc=repr(e)))
                else:
                    rep.notes.append('%s raised %r (decided by the owning property)' % (nm, e))
                continue
            for p in range(P):
                try:
                    if nm.startswith('elem:'):
                        refs = [np_ref(elem.FUNCS[nm[5:]], case['prm'])(inputs[0][0, p])]
                    elif nm.startswith('arith:'):
                        f = {'add': numpy.add, 'sub': numpy.subtract, 'mul': numpy.multiply, 'div': numpy.divide}[nm[6:]]
                        if case['kind'] == 'utpm':
                            refs = [f(inputs[0][0, p], inputs[1][0, p])]
                        else:
                            c = numpy.array(case['const'], dtype=float).reshape(case['cshape'])
                            refs = [f(inputs[0][0, p], c) if case['kind'] == 'const_right' else f(c, inputs[0][0, p])]
                    else:
                        refs = op.ref0(case, [x[0, p] for x in inputs])
                except Exception as e:
                    rep.notes.append('reference for %s raised %r' % (nm, e))
                    break
                for i, (o, r) in enumerate(zip(outs, refs)):
                    o = numpy.asarray(o)
                    exact = not nm.startswith(('linalg:', 'fact:'))
                    # identical NumPy calls on identical data: bit-equal; vectorised kernels over several directions may differ in the last bit
                    if not same(o[0, p], r, exact=False):
                        rep.violation('zeroth:' + nm, '%s: zeroth coefficient in direction %d differs from the NumPy/SciPy result (shape %s vs %s)'
                                      % (nm, p, o[0, p].shape, numpy.shape(r)), dict(kind='zeroth', case=case, direction=p, output=i))
                        break


def check_reductions(rep, algopy, rng, tier):
    """sum / prod / dot-like reductions of a UTPM for every rank NumPy accepts, rank 0 included: zeroth coefficient and shape"""
    UTPM = algopy.UTPM
    n = 6 if tier == 'quick' else 60
    calls = [('sum', lambda x: algopy.sum(x), lambda a: numpy.sum(a)), ('x.sum()', lambda x: x.sum(), lambda a: a.sum()),
             ('prod', lambda x: algopy.prod(x), lambda a: numpy.prod(a)), ('x.prod()', lambda x: x.prod(), lambda a: a.prod())]
    for shp in [(), (1,), (4,), (2, 3), (3, 1), (2, 1, 2), (2, 2, 2)]:
        for _ in range(n):
            D = rng.randint(1, 4); P = rng.randint(1, 3)
            nel = int(numpy.prod(shp, dtype=int))
            xd = numpy.array([rng.randint(-6, 6) / 4 for _ in range(D * P * nel)]).reshape((D, P) + shp)
            for name, f, g in calls:
                rep.count('reduction', name); rep.count('reduction:rank', len(shp))
                rep.case(('reduction', name, xd.tobytes().hex(), D, P, shp), P >= 2 or D >= 2, sample=dict(check='reduction', op=name, D=D, P=P, shape=list(shp)))
                try:
                    y = f(UTPM(xd.copy()))
                    yd = numpy.asarray(y.data)
                except Exception as e:
                    rep.violation('reduction:%s:exception' % name.replace('x.', '').replace('()', ''), '%s of a UTPM with coefficient shape %s raises %r although NumPy accepts the shape' % (name, shp, e),
                                  dict(kind='reduction', op=name, shape=list(shp), x=xd.tolist(), exc=repr(e)))
                    continue
                want = numpy.array([g(xd[0, p]) for p in range(P)])
                if yd.shape != (D, P) or not numpy.allclose(yd[0], want, rtol=1e-13, atol=1e-13):
                    rep.violation('reduction:%s' % name.replace('x.', '').replace('()', ''), '%s of coefficient shape %s: zeroth coefficient %r, NumPy gives %r (result shape %s)' % (name, shp, yd[0].tolist() if yd.ndim >= 1 else None, want.tolist(), yd.shape),
                                  dict(kind='reduction', op=name, shape=list(shp), x=xd.tolist()))
                    continue
                # higher coefficients of prod: the truncated product of the flattened elements (exact dyadic inputs, small sizes)
                if 'prod' in name:
                    acc = numpy.zeros((D, P)); acc[0] = 1
                    flat = xd.reshape((D, P, -1))
                    for i in range(flat.shape[2]):
                        new = numpy.zeros((D, P))
                        for d in range(D):
                            for c in range(d + 1):
                                new[d] += acc[c] * flat[d - c, :, i]
                        acc = new
                    if not numpy.allclose(yd, acc, rtol=1e-12, atol=1e-12):
                        rep.violation('reduction:prod:coefficients', '%s of coefficient shape %s is not the truncated product of the elements' % (name, shp),
                                      dict(kind='reduction', op=name, shape=list(shp), x=xd.tolist()))
                else:
                    if not numpy.allclose(yd, xd.reshape((D, P, -1)).sum(axis=2), rtol=1e-13, atol=1e-13):
                        rep.violation('reduction:sum:coefficients', '%s of coefficient shape %s is not the coefficient-wise sum' % (name, shp),
                                      dict(kind='reduction', op=name, shape=list(shp), x=xd.tolist()))


def check_selection(rep, algopy, rng, tier):
    """max over all elements (UTPM.max) and element-wise maximum / minimum: the element selected in direction p is the NumPy one for
    direction p's zeroth coefficients (the directions may select different elements)"""
    UTPM = algopy.UTPM
    n = 40 if tier == 'quick' else 600
    for _ in range(n):
        D = rng.randint(1, 3); P = rng.randint(1, 3)
        shp = rng.choice([(3,), (4,), (2, 3), (2, 2)])
        nel = int(numpy.prod(shp))
        xd = numpy.array([rng.randint(-20, 20) / 4 for _ in range(D * P * nel)]).reshape((D, P) + shp)
        for p in range(P):                      # unique maximum per direction, at a position that differs between directions
            flat = xd[0, p].reshape(-1)
            flat[rng.randrange(nel)] = 9.0 + p
        rep.count('selection', 'max')
        rep.case(('max', xd.tobytes().hex()), P >= 2, sample=dict(check='UTPM.max', D=D, P=P, shape=list(shp)))
        try:
            y = numpy.asarray(UTPM.max(UTPM(xd.copy())).data)
            want = numpy.zeros((D, P))
            for p in range(P):
                k = int(numpy.argmax(xd[0, p]))
                want[:, p] = xd[:, p].reshape((D, -1))[:, k]
            if y.shape != want.shape or not numpy.array_equal(y, want):
                rep.violation('selection:max', 'UTPM.max: result %s, the coefficients of the per-direction maximal element are %s' % (y.tolist(), want.tolist()),
                              dict(kind='selection', op='max', x=xd.tolist()))
        except NotImplementedError:
            rep.count('selection', 'max: refused (documented NotImplementedError for rank > 1)')
        except Exception as e:
            rep.violation('selection:max:exception', 'UTPM.max raises %r' % (e,), dict(kind='selection', op='max', x=xd.tolist(), exc=repr(e)))
        yd = numpy.array([rng.randint(-20, 20) / 4 for _ in range(D * P * nel)]).reshape((D, P) + shp)
        yd[0][yd[0] == xd[0]] += 0.5            # no ties
        for name in ('maximum', 'minimum'):
            rep.count('selection', name)
            rep.case((name, xd.tobytes().hex(), yd.tobytes().hex()), P >= 2, sample=dict(check=name, D=D, P=P, shape=list(shp)))
            try:
                z = numpy.asarray(getattr(UTPM, name)(UTPM(xd.copy()), UTPM(yd.copy())).data)
                pick = (xd[0] >= yd[0]) if name == 'maximum' else (xd[0] <= yd[0])
                want = numpy.where(pick[None], xd, yd)
                if z.shape != want.shape or not numpy.array_equal(z, want):
                    rep.violation('selection:' + name, 'UTPM.%s does not select, per direction and element, the operand NumPy selects on the zeroth coefficients' % name,
                                  dict(kind='selection', op=name, x=xd.tolist(), y=yd.tolist()))
            except Exception as e:
                rep.violation('selection:%s:exception' % name, 'UTPM.%s raises %r' % (name, e), dict(kind='selection', op=name, exc=repr(e)))


def check_shape_attrs(rep, algopy, rng, tier):
    UTPM = algopy.UTPM
    for shp in [(), (1,), (3,), (2, 3), (2, 1, 3), (1, 1), (4, 2)]:
        for D, P in [(1, 1), (2, 3), (3, 2)]:
            x = UTPM(numpy.zeros((D, P) + shp))
            a = numpy.zeros(shp)
            rep.count('attrs:shape', shp)
            rep.case(('attrs', shp, D, P), True, sample=dict(check='attrs', shape=list(shp), D=D, P=P))
            bad = []
            if tuple(x.shape) != a.shape: bad.append('shape %r' % (x.shape,))
            if x.ndim != a.ndim: bad.append('ndim %r' % (x.ndim,))
            if x.size != a.size: bad.append('size %r' % (x.size,))
            if a.ndim >= 1:
                try:
                    if len(x) != len(a): bad.append('len %r' % (len(x),))
                except Exception as e:
                    bad.append('len raises %r' % e)
            if bad:
                rep.violation('attrs', 'UTPM with coefficient shape %s reports %s' % (shp, ', '.join(bad)), dict(kind='attrs', shape=list(shp), D=D, P=P))


CMP = {'lt': lambda a, b: a < b, 'le': lambda a, b: a <= b, 'gt': lambda a, b: a > b, 'ge': lambda a, b: a >= b, 'eq': lambda a, b: a == b}


def check_comparisons(rep, algopy, rng, tier):
    UTPM = algopy.UTPM
    n = 200 if tier == 'quick' else 3000
    for _ in range(n):
        D = rng.randint(1, 3); P = rng.randint(1, 3)
        shp = rng.choice([(), (3,), (2, 2)])
        mode = rng.choice(['utpm', 'scalar', 'ndarray'])
        x0 = numpy.array([rng.randint(-2, 2) for _ in range(P * int(numpy.prod(shp, dtype=int)))], dtype=float).reshape((P,) + shp)
        xd = numpy.array([rng.randint(-4, 4) for _ in range(D * P * int(numpy.prod(shp, dtype=int)))], dtype=float).reshape((D, P) + shp)
        xd[0] = x0
        # make strict/equal outcomes all reasonably likely
        shift = rng.choice([-3, -1, 0, 0, 1, 3])
        if mode == 'utpm':
            yd = numpy.array([rng.randint(-4, 4) for _ in range(xd.size)], dtype=float).reshape(xd.shape)
            yd[0] = x0 + shift if rng.random() < 0.5 else numpy.array([rng.randint(-2, 2) for _ in range(x0.size)], dtype=float).reshape(x0.shape)
            other = UTPM(yd); other0 = [yd[0, p] for p in range(P)]
        elif mode == 'scalar':
            c = float(rng.randint(-3, 3)); other = c; other0 = [c] * P
        else:
            c = numpy.array([rng.randint(-2, 2) for _ in range(int(numpy.prod(shp, dtype=int)))], dtype=float).reshape(shp)
            if rng.random() < 0.4:
                c = x0[0] + shift
            other = c; other0 = [c] * P
        x = UTPM(xd)
        for name, f in CMP.items():
            rep.count('cmp:op', name); rep.count('cmp:other', mode)
            rep.case(('cmp', name, mode, xd.tobytes().hex(), repr(other0)), True, sample=dict(check='comparison', op=name, other=mode, D=D, P=P, shape=list(shp)))
            want = all(bool(numpy.all(f(xd[0, p], other0[p]))) for p in range(P))
            try:
                got = f(x, other)
                if isinstance(got, (bool, numpy.bool_)) or numpy.ndim(got) == 0:
                    got = bool(got)
                else:
                    raise TypeError('comparison returned %r' % type(got))
            except Exception as e:
                rep.violation('cmp:%s:%s:exception' % (name, mode), 'x %s <%s> raises %r' % (name, mode, e), dict(kind='cmp', op=name, other=mode, x=xd.tolist()))
                continue
            if got != want:
                rep.violation('cmp:%s:%s' % (name, mode), 'x %s <%s> is %r, NumPy comparison of the zeroth coefficients gives %r' % (name, mode, got, want),
                              dict(kind='cmp', op=name, other=mode, x=xd.tolist(), other0=[numpy.asarray(o).tolist() for o in other0]))


def check_plain(rep, algopy, rng, tier):
    """algopy-level functions on plain arrays/scalars return exactly what NumPy/SciPy returns"""
    import algopy.special as asp
    import algopy.fft as afft
    n = 6 if tier == 'quick' else 60
    sp = scipy.special

    def eq(a, b):
        if isinstance(a, tuple) or isinstance(b, tuple):
            return isinstance(a, tuple) and isinstance(b, tuple) and len(a) == len(b) and all(eq(u, v) for u, v in zip(a, b))
        return type(a) == type(b) and same(a, b)

    for _ in range(n):
        v = numpy.array([rng.randint(2, 20) / 8 for _ in range(3)])
        w = numpy.array([rng.randint(2, 20) / 8 for _ in range(3)])
        u = numpy.array([rng.randint(-5, 5) / 8 for _ in range(3)])
        A = numpy.array([[rng.randint(-8, 8) / 4 for _ in range(3)] for _ in range(3)]) + 4 * numpy.eye(3)
        S = A @ A.T
        s = float(v[0])
        calls = []
        for nm in ['exp', 'expm1', 'log', 'log1p', 'sqrt', 'sin', 'cos', 'tan', 'arctan', 'sinh', 'cosh', 'tanh', 'sign', 'absolute', 'square',
                   'negative', 'reciprocal']:
            calls.append((nm + '(array)', lambda nm=nm: getattr(algopy, nm)(v), lambda nm=nm: getattr(numpy, nm)(v)))
            calls.append((nm + '(scalar)', lambda nm=nm: getattr(algopy, nm)(s), lambda nm=nm: getattr(numpy, nm)(s)))
        for nm in ['arcsin', 'arccos']:
            calls.append((nm, lambda nm=nm: getattr(algopy, nm)(u), lambda nm=nm: getattr(numpy, nm)(u)))
        calls += [
            ('pow', lambda: algopy.pow(v, 2.5), lambda: numpy.pow(v, 2.5) if hasattr(numpy, 'pow') else numpy.power(v, 2.5)),
            ('minimum', lambda: algopy.minimum(v, w), lambda: numpy.minimum(v, w)), ('maximum', lambda: algopy.maximum(v, w), lambda: numpy.maximum(v, w)),
            ('trace', lambda: algopy.trace(A), lambda: numpy.trace(A)), ('diag(matrix)', lambda: algopy.diag(A), lambda: numpy.diag(A)),
            ('diag(vector)', lambda: algopy.diag(v), lambda: numpy.diag(v)), ('triu', lambda: algopy.triu(A), lambda: numpy.triu(A)),
            ('tril', lambda: algopy.tril(A, -1), lambda: numpy.tril(A, -1)), ('reshape', lambda: algopy.reshape(A, (9,)), lambda: numpy.reshape(A, (9,))),
            ('tile', lambda: algopy.tile(v, 2), lambda: numpy.tile(v, 2)), ('conjugate', lambda: algopy.conjugate(v + 1j), lambda: numpy.conjugate(v + 1j)),
            ('sum', lambda: algopy.sum(A, axis=0), lambda: numpy.sum(A, axis=0)), ('sum()', lambda: algopy.sum(A), lambda: numpy.sum(A)),
            ('prod', lambda: algopy.prod(v), lambda: numpy.prod(v)), ('real', lambda: algopy.real(v + 2j), lambda: numpy.real(v + 2j)),
            ('imag', lambda: algopy.imag(v + 2j), lambda: numpy.imag(v + 2j)), ('dot(m,v)', lambda: algopy.dot(A, v), lambda: numpy.dot(A, v)),
            ('dot(v,v)', lambda: algopy.dot(v, w), lambda: numpy.dot(v, w)), ('outer', lambda: algopy.outer(v, w), lambda: numpy.outer(v, w)),
            ('zeros', lambda: algopy.zeros((2, 3)), lambda: numpy.zeros((2, 3))), ('ones', lambda: algopy.ones(3), lambda: numpy.ones(3)),
            ('zeros(dtype=arr)', lambda: algopy.zeros((2,), dtype=v), lambda: numpy.zeros((2,), dtype=v.dtype)),
            ('zeros_like', lambda: algopy.zeros_like(A), lambda: numpy.zeros_like(A)), ('ones_like', lambda: algopy.ones_like(A), lambda: numpy.ones_like(A)),
            ('inv', lambda: algopy.inv(A), lambda: numpy.linalg.inv(A)), ('solve', lambda: algopy.solve(A, S), lambda: numpy.linalg.solve(A, S)),
            ('solve(vector rhs)', lambda: algopy.solve(A, v), lambda: numpy.linalg.solve(A, v)),
            ('det', lambda: algopy.det(A), lambda: numpy.linalg.det(A)), ('logdet', lambda: algopy.logdet(A), lambda: numpy.linalg.slogdet(A)[1]),
            ('eigh', lambda: tuple(algopy.eigh(S)), lambda: tuple(numpy.linalg.eigh(S))), ('eig', lambda: tuple(algopy.eig(A)), lambda: tuple(numpy.linalg.eig(A))),
            ('svd', lambda: tuple(algopy.svd(A)), lambda: tuple(numpy.linalg.svd(A))), ('qr', lambda: tuple(algopy.qr(A)), lambda: tuple(numpy.linalg.qr(A))),
            ('cholesky', lambda: algopy.cholesky(S), lambda: numpy.linalg.cholesky(S)), ('lu', lambda: tuple(algopy.lu(A)), lambda: tuple(scipy.linalg.lu(A))),
            ('transpose', lambda: algopy.transpose(A), lambda: numpy.transpose(A)),
            ('erf', lambda: asp.erf(v), lambda: sp.erf(v)), ('erfi', lambda: asp.erfi(v), lambda: sp.erfi(v)), ('dawsn', lambda: asp.dawsn(v), lambda: sp.dawsn(v)),
            ('logit', lambda: asp.logit(v / 4), lambda: sp.logit(v / 4)), ('expit', lambda: asp.expit(v), lambda: sp.expit(v)),
            ('gammaln', lambda: asp.gammaln(v), lambda: sp.gammaln(v)), ('psi', lambda: asp.psi(v), lambda: sp.psi(v)),
            ('polygamma', lambda: asp.polygamma(2, v), lambda: sp.polygamma(2, v)), ('hyperu', lambda: asp.hyperu(1.5, 2.0, v), lambda: sp.hyperu(1.5, 2.0, v)),
            ('fft', lambda: afft.fft(v), lambda: numpy.fft.fft(v)), ('ifft', lambda: afft.ifft(v + 1j), lambda: numpy.fft.ifft(v + 1j)),
            ('symvec', lambda: algopy.symvec(S), lambda: numpy.array([0.5 * (S[r, c] + S[c, r]) for r in range(3) for c in range(r, 3)])),
        ]
        # optional arguments passed BY KEYWORD (and results written to out=), on arrays, lists and scalars
        def with_out(f, x):
            buf = numpy.full(numpy.shape(x), -7.0); r = f(x, out=buf)
            return (r is buf, buf.copy())
        calls += [
            ('triu(k=)', lambda: algopy.triu(A, k=1), lambda: numpy.triu(A, k=1)), ('tril(k=)', lambda: algopy.tril(A, k=-1), lambda: numpy.tril(A, k=-1)),
            ('triu(list, k=)', lambda: algopy.triu(A.tolist(), k=1), lambda: numpy.triu(A.tolist(), k=1)),
            ('diag(v, k=)', lambda: algopy.diag(v, k=1), lambda: numpy.diag(v, k=1)), ('diag(A, k=)', lambda: algopy.diag(A, k=-1), lambda: numpy.diag(A, k=-1)),
            ('trace(offset=)', lambda: algopy.trace(A, offset=1), lambda: numpy.trace(A, offset=1)),
            ('tile(reps=)', lambda: algopy.tile(v, reps=2), lambda: numpy.tile(v, reps=2)), ('tile(A, reps=)', lambda: algopy.tile(A, reps=(2, 1)), lambda: numpy.tile(A, reps=(2, 1))),
            ('sum(axis=)', lambda: algopy.sum(A, axis=0), lambda: numpy.sum(A, axis=0)),
            ('exp(out=)', lambda: with_out(algopy.exp, v), lambda: with_out(numpy.exp, v)),
            ('absolute(out=)', lambda: with_out(algopy.absolute, u), lambda: with_out(numpy.absolute, u)),
            ('sign(out=)', lambda: with_out(algopy.sign, u), lambda: with_out(numpy.sign, u)),
            ('exp(dtype=)', lambda: algopy.exp(v, dtype=numpy.float32), lambda: numpy.exp(v, dtype=numpy.float32)),
            ('maximum(out=)', lambda: (lambda b: (algopy.maximum(v, w, out=b), b.copy())[1])(numpy.zeros(3)), lambda: (lambda b: (numpy.maximum(v, w, out=b), b.copy())[1])(numpy.zeros(3))),
            ('reshape(order=)', lambda: algopy.reshape(A, (9,), order='F'), lambda: numpy.reshape(A, (9,), order='F')),
        ]
        for name, fa, fn in calls:
            rep.count('plain:function', name)
            rep.case(('plain', name, v.tobytes().hex(), A.tobytes().hex()), True, sample=dict(check='plain', function=name))
            try:
                want = fn()
            except Exception:
                continue
            try:
                got = fa()
            except Exception as e:
                rep.violation('plain:%s:exception' % name, 'algopy %s on plain arrays raises %r although NumPy/SciPy accepts the arguments' % (name, e),
                              dict(kind='plain', function=name, exc=repr(e)))
                continue
            if not eq(got, want):
                rep.violation('plain:' + name, 'algopy %s on plain arrays differs from the NumPy/SciPy function of the same name' % name,
                              dict(kind='plain', function=name, got=repr(got)[:400], want=repr(want)[:400]))


def main(tier, seed):
    algopy = lib.import_algopy()
    rep = Report(PID, tier, seed)
    rep.rule = ('(a) every registered operation x random inputs: result.data[0,p] against the NumPy/SciPy call on x.data[0,p], every direction; '
                '(b) shape/ndim/size/len for 7 coefficient shapes; (c) < <= > >= == against UTPM / scalar / ndarray with equal, smaller, larger and '
                'mixed zeroth coefficients; (d) ~110 algopy-level calls with plain arrays/lists/scalars, optional arguments by keyword and out= included, against NumPy/SciPy bit-wise; '
                'non-trivial = several directions or coefficients resp. every comparison/plain case; distinct by full case content')
    rep.assumptions = ['NumPy/SciPy are the oracle for the base operations: this half of the property is an enumeration, not a theorem',
                       'comparisons are not modelled in Coq (no order structure in the field-generic model)']
    rep.theorems()
    rng = lib.rng_for(seed, PID)
    check_zeroth(rep, algopy, rng, tier)
    ops.LAYOUT = 'C'
    check_reductions(rep, algopy, rng, tier)
    check_selection(rep, algopy, rng, tier)
    check_shape_attrs(rep, algopy, rng, tier)
    check_comparisons(rep, algopy, rng, tier)
    check_plain(rep, algopy, rng, tier)
    return rep.finish()


def replay(path):
    pl = json.load(open(path))
    return main(pl.get('tier', 'quick'), pl.get('seed', 0))
